(** Proofs for C06 (iterators).

    Part A: the merge iterator.  For sorted sources the tree of two-way merges
    yields a sorted stream that contains, of every internal key present in
    some source, exactly the copy of the first source holding it ([owner]).
    Under the LSM ordering invariant that copy is the most recent write, and a
    seek on the merged stream answers like the point read [get]. *)
From Coq Require Import List Arith NArith Bool Lia Sorting.Sorted Init.Byte.
From NoKV Require Import Base.Bytes Base.Num Model.Keys Model.Lsm Spec.MvccSpec Proofs.LsmOrder Spec.LsmSpec
     Proofs.LsmRead Proofs.LsmGet Proofs.LsmMain Proofs.LsmInv Proofs.LsmPreserve Proofs.LsmCompact Spec.LsmInvB
     Model.LsmIter Spec.IterSpec.
Import ListNotations.
Local Open Scope N_scope.

(** * The forward two-way merge is [merge2] *)
Lemma gmerge_fuel_rcmp f : forall a b, gmerge_fuel rcmp f a b = merge2_fuel f a b.
Proof.
  induction f as [|f IH]; intros a b; cbn [gmerge_fuel merge2_fuel]; [reflexivity|].
  destruct a as [|x a']; [reflexivity|]. destruct b as [|y b']; [reflexivity|].
  destruct (rcmp x y); now rewrite IH.
Qed.
Lemma gmerge_rcmp a b : gmerge rcmp a b = merge2 a b.
Proof. apply gmerge_fuel_rcmp. Qed.

(** * [owner]: the copy of an internal key held by the first source that has one *)
Definition ik_eqb (x y : rec) : bool := match rcmp y x with Eq => true | _ => false end.

Fixpoint owner (x : rec) (srcs : list (list rec)) : option rec :=
  match srcs with
  | [] => None
  | a :: T => match find (ik_eqb x) a with Some y => Some y | None => owner x T end
  end.

Lemma ik_eqb_spec x y : ik_eqb x y = true <-> r_key y = r_key x /\ r_ver y = r_ver x.
Proof.
  unfold ik_eqb. destruct (rcmp y x) eqn:E.
  - apply rcmp_eq in E. tauto.
  - split; [discriminate|]. intro H. apply rcmp_eq in H. congruence.
  - split; [discriminate|]. intro H. apply rcmp_eq in H. congruence.
Qed.

Lemma ik_eqb_refl x : ik_eqb x x = true.
Proof. apply ik_eqb_spec. auto. Qed.

Lemma ik_eqb_congr x x' y : ik_eqb x x' = true -> ik_eqb x y = ik_eqb x' y.
Proof.
  intro H. apply ik_eqb_spec in H as [Hk Hv].
  destruct (ik_eqb x y) eqn:E1, (ik_eqb x' y) eqn:E2; try reflexivity.
  - apply ik_eqb_spec in E1 as [E1 E1']. assert (ik_eqb x' y = true) by (apply ik_eqb_spec; split; congruence). congruence.
  - apply ik_eqb_spec in E2 as [E2 E2']. assert (ik_eqb x y = true) by (apply ik_eqb_spec; split; congruence). congruence.
Qed.

Lemma find_ext {A} (f g : A -> bool) l : (forall x, f x = g x) -> find f l = find g l.
Proof. intro H. induction l as [|x l IH]; cbn [find]; [reflexivity|]. rewrite H, IH. reflexivity. Qed.

Lemma owner_congr x x' srcs : ik_eqb x x' = true -> owner x srcs = owner x' srcs.
Proof.
  intro H. induction srcs as [|a T IH]; cbn [owner]; [reflexivity|].
  rewrite (find_ext (ik_eqb x) (ik_eqb x') a (fun y => ik_eqb_congr x x' y H)), IH. reflexivity.
Qed.

Lemma owner_app x A B : owner x (A ++ B) = match owner x A with Some y => Some y | None => owner x B end.
Proof.
  induction A as [|a A IH]; cbn [app owner]; [reflexivity|].
  destruct (find (ik_eqb x) a); [reflexivity | exact IH].
Qed.

Lemma owner_some x srcs y : owner x srcs = Some y -> In y (concat srcs) /\ ik_eqb x y = true.
Proof.
  induction srcs as [|a T IH]; cbn [owner concat]; [discriminate|].
  destruct (find (ik_eqb x) a) as [z|] eqn:E.
  - intro H. injection H as <-. apply find_some in E as [Hin He]. split; [apply in_or_app; now left | exact He].
  - intro H. destruct (IH H) as [Hin He]. split; [apply in_or_app; now right | exact He].
Qed.

Lemma owner_none x srcs : owner x srcs = None -> forall y, In y (concat srcs) -> ik_eqb x y = false.
Proof.
  induction srcs as [|a T IH]; cbn [owner concat]; [intros _ y []|].
  destruct (find (ik_eqb x) a) as [z|] eqn:E; [discriminate|].
  intros H y Hy. apply in_app_or in Hy as [Hy|Hy]; [exact (find_none _ _ E y Hy) | now apply IH].
Qed.

Lemma owner_exists x srcs : In x (concat srcs) -> exists y, owner x srcs = Some y.
Proof.
  intro Hx. destruct (owner x srcs) as [y|] eqn:E; [eauto|].
  pose proof (owner_none _ _ E x Hx) as H. rewrite ik_eqb_refl in H. discriminate.
Qed.

Lemma owner_idem x srcs y : owner x srcs = Some y -> owner y srcs = Some y.
Proof.
  intro H. destruct (owner_some _ _ _ H) as [_ He]. now rewrite <- (owner_congr x y srcs He).
Qed.

Lemma find_concat {A} (f : A -> bool) (ls : list (list A)) :
  find f (concat ls) = (fix go (ls : list (list A)) := match ls with [] => None | a :: T => match find f a with Some y => Some y | None => go T end end) ls.
Proof.
  induction ls as [|a T IH]; cbn [concat]; [reflexivity|].
  induction a as [|z a IHa]; cbn [app find]; [exact IH|]. destruct (f z); [reflexivity | exact IHa].
Qed.

Lemma owner_concat_one x ls : owner x [concat ls] = owner x ls.
Proof.
  cbn [owner]. rewrite find_concat. induction ls as [|a T IH]; cbn [owner]; [reflexivity|].
  destruct (find (ik_eqb x) a); [reflexivity | exact IH].
Qed.

(** In a sorted source, the copy found for [x] is [x] itself when [x] is in it. *)
Lemma find_self x a : sorted a -> In x a -> find (ik_eqb x) a = Some x.
Proof.
  intros Hs Hx. destruct (find (ik_eqb x) a) as [y|] eqn:E.
  - apply find_some in E as [Hy He]. apply ik_eqb_spec in He as [Hk Hv]. f_equal. now apply (sorted_unique a).
  - pose proof (find_none _ _ E x Hx) as H. rewrite ik_eqb_refl in H. discriminate.
Qed.

(** * Membership in a merge *)
Lemma merge2_char a b x :
  sorted a -> sorted b ->
  (In x (merge2 a b) <-> In x a \/ (In x b /\ find (ik_eqb x) a = None)).
Proof.
  intros Ha Hb. split.
  - intro H. destruct (find (ik_eqb x) a) as [y|] eqn:E.
    + left. apply find_some in E as [Hy He]. apply ik_eqb_spec in He as [Hk Hv].
      assert (y = x) as <-; [|exact Hy].
      apply (sorted_unique (merge2 a b)); [now apply merge2_sorted | now apply merge2_left | exact H | exact Hk | exact Hv].
    + apply merge2_in in H as [H|H]; [now left | right; now split].
  - intros [H|[H E]]; [now apply merge2_left|].
    destruct (merge2_right a b x H) as [H'|(y & Hy & He)]; [exact H'|].
    pose proof (find_none _ _ E y Hy) as Hn. unfold ik_eqb in Hn. rewrite He in Hn. discriminate.
Qed.

Definition owns (srcs : list (list rec)) (l : list rec) : Prop :=
  sorted l /\ forall x, In x l <-> owner x srcs = Some x.

Lemma owns_single a : sorted a -> owns [a] a.
Proof.
  intro Hs. split; [exact Hs|]. intro x. cbn [owner]. split.
  - intro Hx. now rewrite (find_self x a Hs Hx).
  - destruct (find (ik_eqb x) a) as [y|] eqn:E; [|discriminate]. intro H. injection H as ->.
    now apply find_some in E as [Hy _].
Qed.

Lemma owns_nil : owns [] [].
Proof. split; [constructor|]. intro x. cbn. split; [intros [] | discriminate]. Qed.

Lemma owns_merge A B la lb : owns A la -> owns B lb -> owns (A ++ B) (merge2 la lb).
Proof.
  intros [Hsa Ha] [Hsb Hb]. split; [now apply merge2_sorted|].
  intro x. rewrite (merge2_char la lb x Hsa Hsb), owner_app, Ha, Hb.
  assert (Hn : find (ik_eqb x) la = None <-> owner x A = None).
  { split.
    - intro E. destruct (owner x A) as [y|] eqn:Eo; [|reflexivity].
      pose proof (owner_idem _ _ _ Eo) as Hy. apply Ha in Hy.
      destruct (owner_some _ _ _ Eo) as [_ He]. pose proof (find_none _ _ E y Hy). congruence.
    - intro Eo. destruct (find (ik_eqb x) la) as [y|] eqn:E; [|reflexivity].
      apply find_some in E as [Hy He]. apply Ha in Hy. rewrite <- (owner_congr x y A He), Eo in Hy. discriminate. }
  destruct (owner x A) as [y|] eqn:Eo.
  - split; [intros [H|[_ H]]; [exact H | apply Hn in H; discriminate] | intro H; now left].
  - split; [intros [H|[H _]]; [discriminate | exact H] | intro H; right; split; [exact H | now apply Hn]].
Qed.

Lemma div2_lt n : (2 <= n -> 1 <= Nat.div2 n /\ Nat.div2 n < n)%nat.
Proof.
  intro H. destruct n as [|[|n]]; [lia | lia|]. cbn [Nat.div2]. split; [lia|].
  pose proof (Nat.div2_decr n (S n)). assert (Nat.div2 n <= n)%nat by (apply Nat.div2_decr; lia). lia.
Qed.

Lemma mtree_fuel_owns f : forall srcs,
  (length srcs <= f)%nat -> Forall sorted srcs -> owns srcs (mtree_fuel rcmp f srcs).
Proof.
  induction f as [|f IH]; intros srcs Hl Hs.
  - destruct srcs; [apply owns_nil | cbn in Hl; lia].
  - cbn [mtree_fuel]. destruct srcs as [|a [|b [|c T]]].
    + apply owns_nil.
    + inversion Hs; subst. now apply owns_single.
    + inversion Hs as [|? ? Ha Hs']; subst. inversion Hs' as [|? ? Hb _]; subst.
      rewrite gmerge_rcmp. change [a; b] with ([a] ++ [b]). apply owns_merge; now apply owns_single.
    + set (l := a :: b :: c :: T) in *. rewrite gmerge_rcmp.
      assert (Hlen : (2 <= length l)%nat) by (cbn; lia).
      destruct (div2_lt _ Hlen) as [H1 H2].
      rewrite <- (firstn_skipn (Nat.div2 (length l)) l) at 1.
      apply owns_merge; apply IH.
      * rewrite firstn_length. lia.
      * rewrite <- (firstn_skipn (Nat.div2 (length l)) l) in Hs. now apply Forall_app in Hs as [Hs _].
      * rewrite skipn_length. lia.
      * rewrite <- (firstn_skipn (Nat.div2 (length l)) l) in Hs. now apply Forall_app in Hs as [_ Hs].
Qed.

Theorem mtree_owns srcs : Forall sorted srcs -> owns srcs (mtree rcmp srcs).
Proof. intro H. apply mtree_fuel_owns; [lia | exact H]. Qed.

(** The first holder is the most recent copy when sources are listed by recency. *)
Lemma owner_recent srcs x :
  Forall sorted srcs -> within_ok srcs -> owner x srcs = Some x ->
  forall y, In y (concat srcs) -> r_key y = r_key x -> r_ver y = r_ver x -> r_seq y <= r_seq x.
Proof.
  induction srcs as [|a T IH]; intros Hs Hw Ho y Hy Hk Hv; [contradiction|].
  inversion Hs as [|? ? Ha HT]; subst. apply within_ok_cons in Hw as [Hb Hw].
  cbn [owner] in Ho. cbn [concat] in Hy. destruct (find (ik_eqb x) a) as [z|] eqn:E.
  - injection Ho as ->. apply find_some in E as [Hx _].
    apply in_app_or in Hy as [Hy|Hy].
    + assert (y = x) as -> by (now apply (sorted_unique a)). lia.
    + apply Hb; auto.
  - apply in_app_or in Hy as [Hy|Hy].
    + pose proof (find_none _ _ E y Hy) as Hn.
      assert (ik_eqb x y = true) by (apply ik_eqb_spec; auto). congruence.
    + now apply IH.
Qed.

(** * The sources of an LSM state *)

Lemma main_concat_sorted ts :
  Forall (fun t => sorted (t_recs t)) ts -> main_disjoint ts -> sorted (concat (map t_recs ts)).
Proof.
  induction ts as [|t ts IH]; intros Hs Hd; cbn [map concat]; [constructor|].
  inversion Hs as [|? ? Ht Hts]; subst. destruct Hd as (Hne & Hf & Hd).
  apply ssorted_app; [exact Ht | now apply IH|].
  intros x y Hx Hy. apply in_concat in Hy as (l & Hl & Hy). apply in_map_iff in Hl as (u & <- & Hu).
  rewrite Forall_forall in Hf, Hts. specialize (Hf u Hu). specialize (Hts u Hu).
  destruct (table_key_bounds t x Ht Hx) as [_ Hx2]. destruct (table_key_bounds u y Hts Hy) as [Hy1 _].
  pose proof (bytes_ltb_leb_trans _ _ _ (bytes_leb_ltb_trans _ _ _ Hx2 Hf) Hy1) as Hlt.
  unfold rlt, rcmp. apply kcmp_lt. left. unfold bytes_ltb in Hlt.
  destruct (bytes_cmp (r_key x) (r_key y)); [discriminate | reflexivity | discriminate].
Qed.

Lemma level_iters_sorted lv :
  Forall (Forall (fun t => sorted (t_recs t))) (lv_shards lv) ->
  Forall (fun t => sorted (t_recs t)) (lv_main lv) -> main_disjoint (lv_main lv) ->
  Forall sorted (level_iters lv).
Proof.
  intros Hsh Hm Hd. unfold level_iters. apply Forall_app. split.
  - apply Forall_forall. intros l Hl. apply in_map_iff in Hl as (t & <- & Ht).
    apply in_concat in Ht as (sh & Hsh' & Ht). apply in_map_iff in Hsh' as (sh0 & <- & Hsh0).
    rewrite Forall_forall in Hsh. specialize (Hsh sh0 Hsh0). rewrite Forall_forall in Hsh.
    apply Hsh. now apply in_rev.
  - destruct (lv_main lv) as [|t ts] eqn:E; [constructor|].
    constructor; [|constructor]. now apply main_concat_sorted.
Qed.

Lemma lsm_sources_sorted s : src_inv s -> Forall sorted (lsm_sources current s).
Proof.
  intros [Hm Hi Hl0 Hlv _]. unfold lsm_sources. cbn [fix_imm_order current].
  repeat (apply Forall_app; split).
  - now constructor.
  - apply Forall_forall. intros l Hl. apply in_map_iff in Hl as (m & <- & Hm').
    rewrite Forall_forall in Hi. apply Hi. now apply in_rev.
  - apply Forall_forall. intros l Hl. apply in_map_iff in Hl as (t & <- & Ht).
    rewrite Forall_forall in Hl0. apply Hl0. now apply in_rev.
  - apply Forall_forall. intros l Hl. apply in_concat in Hl as (ls & Hls & Hl).
    apply in_map_iff in Hls as (lv & <- & Hlv').
    rewrite Forall_forall in Hlv. destruct (Hlv lv Hlv') as (H1 & H2 & H3).
    pose proof (level_iters_sorted lv H1 H2 H3) as Hf. rewrite Forall_forall in Hf. now apply Hf.
Qed.

Lemma owner_level x lv : owner x (level_iters lv) = owner x (level_srcs lv).
Proof.
  unfold level_iters, level_srcs. rewrite map_app, !owner_app.
  destruct (owner x (map t_recs (concat (map (@rev table) (lv_shards lv))))); [reflexivity|].
  destruct (lv_main lv) as [|t ts]; [reflexivity|]. apply owner_concat_one.
Qed.

Lemma owner_levels x lvls : owner x (concat (map level_iters lvls)) = owner x (concat (map level_srcs lvls)).
Proof.
  induction lvls as [|lv L IH]; cbn [map concat]; [reflexivity|].
  now rewrite !owner_app, owner_level, IH.
Qed.

Lemma concat_map_single {A B} (f : A -> B) l : concat (map (fun m => [f m]) l) = map f l.
Proof. induction l as [|m l IH]; cbn [map concat app]; [reflexivity|]. now rewrite IH. Qed.

Lemma concat_tiers_of s :
  concat (tiers_of s) = [st_mem s] ++ map snd (rev (st_imms s)) ++ map t_recs (rev (st_l0 s)) ++ concat (map level_srcs (st_lvls s)).
Proof.
  unfold tiers_of. rewrite !concat_app, concat_map_single. cbn [concat app]. rewrite app_nil_r. reflexivity.
Qed.

Lemma owner_sources x s : owner x (lsm_sources current s) = owner x (concat (tiers_of s)).
Proof.
  rewrite concat_tiers_of. unfold lsm_sources. cbn [fix_imm_order current].
  rewrite !owner_app, owner_levels. reflexivity.
Qed.

(** The forward merged stream of a state. *)
Definition fstream (s : state) : list rec := mtree rcmp (lsm_sources current s).

Lemma lsm_pos_rewind_fwd l : lsm_pos false PRewind l = l.
Proof. reflexivity. Qed.

Lemma db_stream_fwd s : db_stream current s false PRewind = fstream s.
Proof. unfold db_stream, fstream. cbn [dcmp]. f_equal. rewrite <- (map_id (lsm_sources current s)) at 2. reflexivity. Qed.

Record iter_inv (s : state) : Prop := {
  ii_src : src_inv s;
  ii_scan : scan_inv (scan_srcs s) }.

Lemma fstream_sorted s : iter_inv s -> sorted (fstream s).
Proof. intros [Hs _]. exact (proj1 (mtree_owns _ (lsm_sources_sorted s Hs))). Qed.

Lemma fstream_in s x : iter_inv s -> (In x (fstream s) <-> owner x (concat (tiers_of s)) = Some x).
Proof. intros [Hs _]. rewrite <- owner_sources. exact (proj2 (mtree_owns _ (lsm_sources_sorted s Hs)) x). Qed.

Lemma fstream_sound s x : iter_inv s -> In x (fstream s) -> In x (all_recs (tiers_of s)).
Proof. intros Hi Hx. apply (fstream_in s x Hi) in Hx. now apply owner_some in Hx as [Hx _]. Qed.

(** Every stored record is represented by the most recent copy of its internal key. *)
Lemma fstream_repr s y :
  iter_inv s -> In y (all_recs (tiers_of s)) ->
  exists x, In x (fstream s) /\ r_key x = r_key y /\ r_ver x = r_ver y /\ r_seq y <= r_seq x.
Proof.
  intros Hi Hy. destruct (owner_exists y (concat (tiers_of s)) Hy) as [x Ho].
  pose proof (owner_idem _ _ _ Ho) as Hx. destruct (owner_some _ _ _ Ho) as [_ He].
  apply ik_eqb_spec in He as [Hk Hv]. exists x. split; [now apply (fstream_in s x Hi)|].
  split; [exact Hk|]. split; [exact Hv|].
  destruct (ii_scan s Hi) as (Hs & _ & Hw). unfold scan_srcs in Hs, Hw.
  apply (owner_recent (concat (tiers_of s)) x Hs Hw Hx y Hy); congruence.
Qed.

Lemma fstream_recent s x y :
  iter_inv s -> In x (fstream s) -> In y (all_recs (tiers_of s)) ->
  r_key y = r_key x -> r_ver y = r_ver x -> r_seq y <= r_seq x.
Proof.
  intros Hi Hx Hy. destruct (ii_scan s Hi) as (Hs & _ & Hw). unfold scan_srcs in Hs, Hw.
  apply (owner_recent (concat (tiers_of s)) x Hs Hw); [now apply (fstream_in s x Hi) | exact Hy].
Qed.

(** A seek on the merged stream finds the latest write at or below the version. *)
Theorem fstream_latest s k v : iter_inv s -> is_latest (all_recs (tiers_of s)) k v (src_search k v (fstream s)).
Proof.
  intro Hi. pose proof (fstream_sorted s Hi) as Hs.
  destruct (src_search k v (fstream s)) as [x|] eqn:E; cbn [is_latest].
  - destruct (src_search_some _ _ _ _ Hs E) as (Hin & Hc & Hmax).
    split; [now apply fstream_sound|]. split; [exact Hc|].
    intros y Hy Hyc. destruct (fstream_repr s y Hi Hy) as (x' & Hx' & Hk & Hv & Hq).
    assert (Hc' : is_cand k v x') by (destruct Hyc; split; congruence || lia).
    pose proof (Hmax x' Hx' Hc') as Hle. unfold geq.
    destruct (N.eq_dec (r_ver x') (r_ver x)) as [Ev|Nv]; [|left; lia].
    right. assert (x' = x) as ->.
    { apply (sorted_unique (fstream s)); auto. destruct Hc, Hc'. congruence. }
    split; [lia | exact Hq].
  - intros y Hy Hyc. destruct (fstream_repr s y Hi Hy) as (x' & Hx' & Hk & Hv & _).
    apply (src_search_none _ _ _ Hs E x' Hx'). destruct Hyc. split; congruence || lia.
Qed.

(** ... hence it answers exactly like the point read. *)
Theorem fstream_get s k v :
  iter_inv s -> seq_functional (all_recs (tiers_of s)) -> src_search k v (fstream s) = get s k v.
Proof.
  intros Hi Hf. rewrite (get_is_flat s k v (ii_src s Hi)).
  eapply is_latest_unique; [exact Hf | now apply fstream_latest|].
  change (all_recs (tiers_of s)) with (concat (scan_srcs s)). apply scan_latest, (ii_scan s Hi).
Qed.

Theorem stream_get s k v :
  iter_inv s -> seq_functional (all_recs (tiers_of s)) ->
  src_search k v (db_stream current s false PRewind) = get s k v.
Proof. rewrite db_stream_fwd. apply fstream_get. Qed.

(** * Part B: sorted lists are determined by their elements *)
Lemma ssorted_ext {A} (lt : A -> A -> Prop) :
  (forall a, ~ lt a a) -> (forall a b c, lt a b -> lt b c -> lt a c) ->
  forall l1 l2, StronglySorted lt l1 -> StronglySorted lt l2 -> (forall x, In x l1 <-> In x l2) -> l1 = l2.
Proof.
  intros Hirr Htr. induction l1 as [|a l1 IH]; intros l2 H1 H2 Hm.
  - destruct l2 as [|b l2]; [reflexivity|]. exfalso. apply (proj2 (Hm b)). now left.
  - destruct l2 as [|b l2]; [exfalso; apply (proj1 (Hm a)); now left|].
    inversion H1 as [|? ? Hs1 Hf1]; subst. inversion H2 as [|? ? Hs2 Hf2]; subst.
    rewrite Forall_forall in Hf1, Hf2.
    assert (a = b) as <-.
    { destruct (proj1 (Hm a) (or_introl eq_refl)) as [E|Ha]; [now symmetry|].
      destruct (proj2 (Hm b) (or_introl eq_refl)) as [E|Hb]; [exact E|].
      exfalso. apply (Hirr a). eapply Htr; [apply Hf1; exact Hb | apply Hf2; exact Ha]. }
    f_equal. apply IH; [exact Hs1 | exact Hs2|]. intro x. split; intro Hx.
    + destruct (proj1 (Hm x) (or_intror Hx)) as [E|Hx']; [|exact Hx'].
      subst x. exfalso. apply (Hirr a). now apply Hf1.
    + destruct (proj2 (Hm x) (or_intror Hx)) as [E|Hx']; [|exact Hx'].
      subst x. exfalso. apply (Hirr a). now apply Hf2.
Qed.

Lemma sorted_ext l1 l2 : sorted l1 -> sorted l2 -> (forall x, In x l1 <-> In x l2) -> l1 = l2.
Proof. apply ssorted_ext; [exact rlt_irrefl | exact rlt_trans]. Qed.

Lemma sorted_filter f l : sorted l -> sorted (filter f l).
Proof.
  induction l as [|x l IH]; intro H; cbn [filter]; [constructor|].
  apply sorted_cons_inv in H as [Hs Hf]. destruct (f x); [|now apply IH].
  constructor; [now apply IH|]. rewrite Forall_forall in *. intros y Hy. apply filter_In in Hy as [Hy _]. auto.
Qed.

(** * The readTs filter commutes with the merge *)
Lemma find_filter_ver x (p : rec -> bool) a :
  (forall y, ik_eqb x y = true -> p y = p x) ->
  find (ik_eqb x) (filter p a) = if p x then find (ik_eqb x) a else None.
Proof.
  intro Hp. induction a as [|z a IH]; cbn [filter find]; [now destruct (p x)|].
  destruct (ik_eqb x z) eqn:E.
  - rewrite (Hp z E). destruct (p x) eqn:Ep; cbn [find]; [now rewrite E | exact IH].
  - destruct (p z); cbn [find]; [rewrite E|]; exact IH.
Qed.

Lemma owner_filter x (p : rec -> bool) srcs :
  (forall y, ik_eqb x y = true -> p y = p x) ->
  owner x (map (filter p) srcs) = if p x then owner x srcs else None.
Proof.
  intro Hp. induction srcs as [|a T IH]; cbn [map owner]; [now destruct (p x)|].
  rewrite (find_filter_ver x p a Hp), IH. destruct (p x); reflexivity.
Qed.

Lemma visible_ik readTs x y : ik_eqb x y = true -> visible readTs y = visible readTs x.
Proof. intro H. apply ik_eqb_spec in H as [_ Hv]. unfold visible. now rewrite Hv. Qed.

Lemma txn_stream_fwd s readTs :
  iter_inv s -> txn_stream current s false readTs [] PRewind = filter (visible readTs) (fstream s).
Proof.
  intro Hi. unfold txn_stream. cbn [app dcmp].
  assert (Hsrc : Forall sorted (lsm_sources current s)) by (apply lsm_sources_sorted, Hi).
  assert (Hsrc' : Forall sorted (map (fun l => filter (visible readTs) (lsm_pos false PRewind l)) (lsm_sources current s))).
  { apply Forall_forall. intros l Hl. apply in_map_iff in Hl as (a & <- & Ha). cbn [lsm_pos].
    apply sorted_filter. rewrite Forall_forall in Hsrc. auto. }
  destruct (mtree_owns _ Hsrc') as [Hs1 Hm1]. destruct (mtree_owns _ Hsrc) as [Hs2 Hm2].
  apply sorted_ext; [exact Hs1 | apply sorted_filter; exact Hs2|].
  intro x. rewrite Hm1, filter_In. fold (fstream s). unfold fstream. rewrite Hm2.
  change (map (fun l => filter (visible readTs) (lsm_pos false PRewind l)) (lsm_sources current s))
    with (map (filter (visible readTs)) (lsm_sources current s)).
  rewrite (owner_filter x (visible readTs) _ (visible_ik readTs x)).
  destruct (visible readTs x); split; try tauto; try discriminate. intros [_ H]. discriminate.
Qed.

(** * Next* as a structural function *)
Fixpoint trun (c : cfg) (now readTs : N) (o : topts) (last : bytes) (l : list rec) : list item :=
  match l with
  | [] => []
  | x :: l' =>
      match judge c now readTs o last x with
      | VSkip last' => trun c now readTs o last' l'
      | VStop => []
      | VEmit => mk_item x :: trun c now readTs o (snd (split_base (r_key x))) l'
      end
  end.

Lemma collect_fuel_trun c now readTs o : forall l f last,
  (length l < f)%nat -> collect_fuel c now readTs o f last l = trun c now readTs o last l.
Proof.
  induction l as [|x l IH]; intros f last Hf; destruct f as [|f]; try (cbn in Hf; lia).
  - reflexivity.
  - cbn [length] in Hf.
    assert (Hadv : forall last0, adv c now readTs o last0 (x :: l) =
              match judge c now readTs o last0 x with
              | VSkip last' => adv c now readTs o last' l
              | VStop => (None, last0, l)
              | VEmit => (Some (mk_item x), snd (split_base (r_key x)), l)
              end) by reflexivity.
    cbn [collect_fuel trun]. rewrite Hadv. destruct (judge c now readTs o last x) as [last'| |].
    + specialize (IH (S f) last' ltac:(lia)). cbn [collect_fuel] in IH. exact IH.
    + reflexivity.
    + f_equal. apply IH. lia.
Qed.

Lemma collect_trun c now readTs o last l : collect c now readTs o last l = trun c now readTs o last l.
Proof. apply collect_fuel_trun. lia. Qed.

(** * Keys *)
Definition wf_key (x : rec) : bool :=
  let '(_, u, ok) := decode_key_cf (r_key x) in ok && nonempty u.

Lemma wf_key_enc x : wf_key x = true ->
  exists cf u, split_base (r_key x) = (cf, u) /\ r_key x = enc_cf_key cf u /\ cf <= 2 /\ u <> [].
Proof.
  unfold wf_key, split_base, decode_key_cf. destruct (r_key x) as [|a [|b [|c [|d u]]]]; try discriminate.
  destruct (byte_eqb a xff && byte_eqb b x43 && byte_eqb c x46 && cf_valid (b2n d)) eqn:E; [|discriminate].
  intro H. cbn [andb] in H. exists (b2n d), u.
  apply andb_true_iff in E as [E Hcf]. apply andb_true_iff in E as [E Hc]. apply andb_true_iff in E as [Ha Hb].
  apply byte_eqb_eq in Ha, Hb, Hc. subst. unfold cf_valid in Hcf. apply N.leb_le in Hcf.
  split; [reflexivity|]. split.
  - unfold enc_cf_key, cf_marker, norm_cf, cf_valid. rewrite (proj2 (N.leb_le _ _) Hcf), n2b_b2n. reflexivity.
  - split; [exact Hcf|]. destruct u; [discriminate | discriminate].
Qed.

Lemma bytes_cmp_app_prefix p a b : bytes_cmp (p ++ a) (p ++ b) = bytes_cmp a b.
Proof. induction p as [|x p IH]; cbn [app bytes_cmp]; [reflexivity|]. now rewrite N.compare_refl. Qed.

Lemma enc0_cmp a b : bytes_cmp (enc_cf_key 0 a) (enc_cf_key 0 b) = bytes_cmp a b.
Proof.
  unfold enc_cf_key. change (cf_marker ++ n2b (norm_cf 0) :: a) with ((cf_marker ++ [n2b (norm_cf 0)]) ++ a).
  change (cf_marker ++ n2b (norm_cf 0) :: b) with ((cf_marker ++ [n2b (norm_cf 0)]) ++ b).
  apply bytes_cmp_app_prefix.
Qed.

Lemma bytes_leb_antisym a b : bytes_leb a b = true -> bytes_leb b a = true -> a = b.
Proof.
  unfold bytes_leb. rewrite (bytes_cmp_antisym a b). destruct (bytes_cmp a b) eqn:E; cbn; try discriminate.
  - intros _ _. now apply bytes_cmp_eq.
Qed.

(** * Forward scan without AllVersions = the newest visible version of each key *)
Definition keyfilt (o : topts) (x : rec) : bool :=
  let '(cf, u) := split_base (r_key x) in
  (cf =? cf_default)
  && negb (nonempty (o_lower o) && bytes_ltb u (o_lower o))
  && negb (nonempty (o_upper o) && bytes_leb (o_upper o) u)
  && negb (nonempty (o_prefix o) && negb (if o_pik o then bytes_eqb u (o_prefix o) else is_prefix (o_prefix o) u)).
Definition since_ok (o : topts) (x : rec) : bool := negb ((0 <? o_since o) && (r_ver x <=? o_since o)).
Definition good (now : N) (o : topts) (x : rec) : bool := keyfilt o x && since_ok o x && negb (deadb now x).

Definition same_key (p : option rec) (x : rec) : bool :=
  match p with Some p => bytes_eqb (r_key p) (r_key x) | None => false end.

Fixpoint pick (g : rec -> bool) (prev : option rec) (l : list rec) : list rec :=
  match l with
  | [] => []
  | x :: l' => (if negb (same_key prev x) && g x then [x] else []) ++ pick g (Some x) l'
  end.

Lemma pick_nil g : forall l prev, (forall y, In y l -> g y = false) -> pick g prev l = [].
Proof.
  induction l as [|x l IH]; intros prev H; cbn [pick]; [reflexivity|].
  rewrite (H x (or_introl eq_refl)), andb_false_r. cbn [app]. apply IH. intros y Hy. apply H. now right.
Qed.

Lemma judge_fwd now readTs o last x cf u :
  o_rev o = false -> o_all o = false -> r_ver x <= readTs -> split_base (r_key x) = (cf, u) ->
  judge current now readTs o last x =
    if negb (cf =? cf_default) then VSkip last
    else if nonempty (o_lower o) && bytes_ltb u (o_lower o) then VSkip last
    else if nonempty (o_upper o) && bytes_leb (o_upper o) u then VStop
    else if (0 <? o_since o) && (r_ver x <=? o_since o) then VSkip last
    else if nonempty (o_prefix o) && negb (if o_pik o then bytes_eqb u (o_prefix o) else is_prefix (o_prefix o) u) then VSkip last
    else if nonempty last && bytes_eqb last u then VSkip last
    else if deadb now x then VSkip u
    else VEmit.
Proof.
  intros Hr Ha Hv Hs. unfold judge. rewrite Hs, Hr, Ha. cbn [current fix_txn_cf fix_tomb_last negb andb].
  assert (readTs <? r_ver x = false) as -> by (apply N.ltb_ge; exact Hv). reflexivity.
Qed.

Definition psorted (prev : option rec) (l : list rec) : Prop :=
  match prev with Some p => sorted (p :: l) | None => sorted l end.

Definition inv (o : topts) (last : bytes) (prev : option rec) : Prop :=
  match prev with
  | None => last = []
  | Some p => (last = [] \/ bytes_leb (enc_cf_key 0 last) (r_key p) = true)
              /\ (keyfilt o p = true -> since_ok o p = true -> last = snd (split_base (r_key p)))
  end.

Lemma psorted_tail prev x l : psorted prev (x :: l) -> psorted (Some x) l.
Proof. destruct prev as [p|]; cbn [psorted]; intro H; [now apply sorted_cons_inv in H as [H _] | exact H]. Qed.

Lemma psorted_prev_le p x l : psorted (Some p) (x :: l) -> bytes_leb (r_key p) (r_key x) = true.
Proof. cbn [psorted]. intro H. apply (sorted_head_le p (x :: l) x H). right. now left. Qed.

Lemma trun_pick now readTs o :
  o_rev o = false -> o_all o = false ->
  forall l last prev,
    psorted prev l -> Forall (fun x => wf_key x = true) l -> Forall (fun x => r_ver x <= readTs) l ->
    inv o last prev ->
    trun current now readTs o last l = map mk_item (pick (good now o) prev l).
Proof.
  intros Hr Ha. induction l as [|x l IH]; intros last prev Hs Hw Hv Hi; [reflexivity|].
  inversion Hw as [|? ? Hwx Hwl]; subst. inversion Hv as [|? ? Hvx Hvl]; subst.
  destruct (wf_key_enc x Hwx) as (cf & u & Hsp & Hk & Hcf & Hu).
  pose proof (psorted_tail _ _ _ Hs) as Hs'.
  cbn [trun pick]. rewrite (judge_fwd now readTs o last x cf u Hr Ha Hvx Hsp).
  (* the part of the invariant that survives any skip that leaves lastKey alone *)
  assert (Hfirst : last = [] \/ bytes_leb (enc_cf_key 0 last) (r_key x) = true).
  { destruct prev as [p|]; cbn [inv] in Hi; [|now left]. destruct Hi as [[Hi|Hi] _]; [now left|]. right.
    eapply bytes_leb_trans; [exact Hi | now apply (psorted_prev_le p x l)]. }
  assert (Hkf : keyfilt o x =
                (cf =? cf_default)
                && negb (nonempty (o_lower o) && bytes_ltb u (o_lower o))
                && negb (nonempty (o_upper o) && bytes_leb (o_upper o) u)
                && negb (nonempty (o_prefix o) && negb (if o_pik o then bytes_eqb u (o_prefix o) else is_prefix (o_prefix o) u)))
    by (unfold keyfilt; now rewrite Hsp).
  assert (Hskip : forall b, keyfilt o x && since_ok o x = false ->
            trun current now readTs o last l = map mk_item ((if b && good now o x then [x] else []) ++ pick (good now o) (Some x) l)).
  { intros b Hbad. unfold good. rewrite Hbad, andb_false_r. cbn [andb app]. apply IH; auto.
    cbn [inv]. split; [exact Hfirst|]. intros H1 H2. rewrite H1, H2 in Hbad. discriminate. }
  destruct (cf =? cf_default) eqn:Ecf; cbn [negb].
  2:{ apply Hskip. rewrite Hkf. reflexivity. }
  apply N.eqb_eq in Ecf. subst cf.
  destruct (nonempty (o_lower o) && bytes_ltb u (o_lower o)) eqn:Elo.
  { apply Hskip. rewrite Hkf. reflexivity. }
  destruct (nonempty (o_upper o) && bytes_leb (o_upper o) u) eqn:Eup.
  { (* upper bound reached: nothing after it qualifies *)
    assert (Hgx : good now o x = false) by (unfold good; rewrite Hkf; reflexivity).
    rewrite Hgx, andb_false_r. cbn [app]. rewrite pick_nil; [reflexivity|].
    intros y Hy. rewrite Forall_forall in Hwl. destruct (wf_key_enc y (Hwl y Hy)) as (cfy & uy & Hspy & Hky & _ & _).
    unfold good, keyfilt. rewrite Hspy. destruct (cfy =? cf_default) eqn:Ey; [|reflexivity].
    apply N.eqb_eq in Ey. subst cfy. apply andb_true_iff in Eup as [Hne Hle]. rewrite Hne.
    assert (Hxy : bytes_leb u uy = true).
    { cbn [psorted] in Hs'. pose proof (sorted_head_le x l y Hs' (or_intror Hy)) as H.
      rewrite Hk, Hky in H. unfold bytes_leb in *. now rewrite enc0_cmp in H. }
    rewrite (bytes_leb_trans _ _ _ Hle Hxy). cbn [negb andb]. rewrite andb_false_r. reflexivity. }
  destruct ((0 <? o_since o) && (r_ver x <=? o_since o)) eqn:Esi.
  { apply Hskip. unfold since_ok. rewrite Esi. apply andb_false_r. }
  destruct (nonempty (o_prefix o) && negb (if o_pik o then bytes_eqb u (o_prefix o) else is_prefix (o_prefix o) u)) eqn:Epf.
  { apply Hskip. rewrite Hkf. cbn [negb andb]. rewrite ?andb_false_r. reflexivity. }
  assert (Hkx : keyfilt o x = true) by (rewrite Hkf; reflexivity).
  assert (Hsx : since_ok o x = true) by (unfold since_ok; now rewrite Esi).
  assert (Hux : snd (split_base (r_key x)) = u) by now rewrite Hsp.
  destruct (nonempty last && bytes_eqb last u) eqn:Elk.
  { (* an older version of the key advance already dealt with *)
    apply andb_true_iff in Elk as [Hne Hlu]. apply bytes_eqb_eq in Hlu. subst last.
    assert (Hsame : same_key prev x = true).
    { destruct prev as [p|]; cbn [inv] in Hi; [|subst; discriminate].
      destruct Hfirst as [->|_]; [discriminate|]. destruct Hi as [[->|Hi] _]; [discriminate|].
      cbn [same_key]. apply bytes_eqb_eq. apply bytes_leb_antisym; [now apply (psorted_prev_le p x l)|].
      now rewrite Hk. }
    rewrite Hsame. cbn [negb andb app]. apply IH; auto. cbn [inv]. split; [right; rewrite Hk; apply bytes_leb_refl|].
    intros _ _. now rewrite Hux. }
  (* the newest visible version of its key *)
  assert (Hnew : same_key prev x = false).
  { destruct prev as [p|]; [|reflexivity]. cbn [same_key]. destruct (bytes_eqb (r_key p) (r_key x)) eqn:E; [|reflexivity].
    exfalso. apply bytes_eqb_eq in E. cbn [inv] in Hi. destruct Hi as [_ Hi].
    assert (Hkp : keyfilt o p = true) by (unfold keyfilt in *; now rewrite E).
    assert (Hsp' : since_ok o p = true).
    { cbn [psorted] in Hs. apply sorted_cons_inv in Hs as [_ Hf]. rewrite Forall_forall in Hf.
      specialize (Hf x (or_introl eq_refl)). unfold rlt, rcmp in Hf. apply kcmp_lt in Hf as [Hf|[_ Hf]].
      - rewrite E, bytes_cmp_refl in Hf. discriminate.
      - unfold since_ok in *. destruct (0 <? o_since o); [|reflexivity]. cbn [andb negb] in *.
        apply negb_true_iff, N.leb_gt in Hsx. apply negb_true_iff, N.leb_gt. clear - Hsx Hf. lia. }
    specialize (Hi Hkp Hsp'). rewrite E, Hux in Hi. subst last.
    assert (nonempty u = true) by (destruct u; [contradiction | reflexivity]).
    rewrite H, bytes_eqb_refl in Elk. discriminate. }
  rewrite Hnew. cbn [negb andb]. unfold good at 1. rewrite Hkx, Hsx. cbn [andb].
  assert (Hnext : inv o u (Some x)).
  { cbn [inv]. split; [right; rewrite Hk; apply bytes_leb_refl | intros _ _; now rewrite Hux]. }
  destruct (deadb now x); cbn [negb app map].
  - apply IH; auto.
  - rewrite Hux. f_equal. apply IH; auto.
Qed.

(** * What [pick] selects *)
Lemma pick_incl g : forall l prev x, In x (pick g prev l) -> In x l.
Proof.
  induction l as [|x0 l IH]; intros prev x; cbn [pick]; [intros []|].
  intro H. apply in_app_or in H as [H|H].
  - destruct (negb (same_key prev x0) && g x0); [destruct H as [<-|[]]; now left | contradiction].
  - right. eapply IH; eauto.
Qed.

Lemma pick_sorted g : forall l prev, sorted l -> sorted (pick g prev l).
Proof.
  induction l as [|x0 l IH]; intros prev Hs; cbn [pick]; [constructor|].
  apply sorted_cons_inv in Hs as [Hs Hf].
  destruct (negb (same_key prev x0) && g x0); cbn [app]; [|now apply IH].
  constructor; [now apply IH|]. rewrite Forall_forall in *. intros y Hy. apply Hf. eapply pick_incl; eauto.
Qed.

Lemma rlt_same_key_ver a b : rlt a b -> r_key a = r_key b -> r_ver b < r_ver a.
Proof.
  unfold rlt, rcmp. intros H E. apply kcmp_lt in H as [H|[_ H]]; [|exact H].
  rewrite E, bytes_cmp_refl in H. discriminate.
Qed.

Lemma pick_in g : forall l prev x,
  psorted prev l ->
  (In x (pick g prev l) <->
   In x l /\ g x = true /\ same_key prev x = false /\ forall y, In y l -> r_key y = r_key x -> r_ver y <= r_ver x).
Proof.
  induction l as [|x0 l IH]; intros prev x Hs; cbn [pick]; [split; [intros [] | intros [[] _]]|].
  pose proof (psorted_tail _ _ _ Hs) as Hs'. cbn [psorted] in Hs'.
  pose proof (sorted_cons_inv _ _ Hs') as [Hsl Hf]. rewrite Forall_forall in Hf.
  rewrite in_app_iff, (IH (Some x0) x Hs'). split.
  - intros [H|(Hin & Hg & Hsk & Hmax)].
    + destruct (negb (same_key prev x0) && g x0) eqn:E; [|contradiction]. destruct H as [<-|[]].
      apply andb_true_iff in E as [E1 E2]. apply negb_true_iff in E1.
      split; [now left|]. split; [exact E2|]. split; [exact E1|].
      intros y [<-|Hy] Hk; [lia|]. pose proof (rlt_same_key_ver _ _ (Hf y Hy) (eq_sym Hk)). lia.
    + cbn [same_key] in Hsk. apply bytes_eqb_neq in Hsk.
      split; [now right|]. split; [exact Hg|]. split.
      * destruct prev as [p|]; [|reflexivity]. cbn [same_key]. apply bytes_eqb_neq. intro E.
        apply Hsk. apply bytes_leb_antisym; [apply rlt_key_le; now apply Hf|].
        rewrite <- E. now apply (psorted_prev_le p x0 l).
      * intros y [<-|Hy] Hk; [contradiction | now apply Hmax].
  - intros ([<-|Hin] & Hg & Hsk & Hmax).
    + left. rewrite Hsk, Hg. now left.
    + right. split; [exact Hin|]. split; [exact Hg|]. split.
      * cbn [same_key]. apply bytes_eqb_neq. intro E.
        pose proof (Hmax x0 (or_introl eq_refl) E). pose proof (rlt_same_key_ver _ _ (Hf x Hin) E). lia.
      * intros y Hy. apply Hmax. now right.
Qed.

(** [src_search] characterised *)
Lemma src_search_char k v l x :
  sorted l ->
  (src_search k v l = Some x <->
   In x l /\ is_cand k v x /\ forall y, In y l -> is_cand k v y -> r_ver y <= r_ver x).
Proof.
  intro Hs. split; [apply src_search_some; exact Hs|].
  intros (Hin & Hc & Hmax). destruct (src_search k v l) as [x'|] eqn:E.
  - destruct (src_search_some _ _ _ _ Hs E) as (Hin' & Hc' & Hmax'). f_equal.
    pose proof (Hmax x' Hin' Hc'). pose proof (Hmax' x Hin Hc).
    apply (sorted_unique l); auto; [destruct Hc, Hc'; congruence | lia].
  - exfalso. exact (src_search_none _ _ _ Hs E x Hin Hc).
Qed.

(** * The key set of the specification *)
Definition blt (a b : bytes) : Prop := bytes_cmp a b = Lt.

Lemma ins_key_in k l x : In x (ins_key k l) <-> x = k \/ In x l.
Proof.
  induction l as [|y l IH]; cbn [ins_key]; [cbn; intuition|].
  destruct (bytes_cmp k y) eqn:E.
  - apply bytes_cmp_eq in E. subst. cbn [In]. intuition.
  - cbn [In]. intuition.
  - cbn [In]. rewrite IH. intuition.
Qed.

Lemma ins_key_sorted k l : StronglySorted blt l -> StronglySorted blt (ins_key k l).
Proof.
  induction l as [|y l IH]; intro H; cbn [ins_key]; [repeat constructor|].
  inversion H as [|? ? Hs Hf]; subst. destruct (bytes_cmp k y) eqn:E; [exact H| |].
  - constructor; [exact H|]. constructor; [exact E|]. eapply Forall_impl; [|exact Hf].
    intros a Ha. unfold blt in *. eapply bytes_cmp_lt_trans; eauto.
  - constructor; [now apply IH|]. apply Forall_forall. intros a Ha. apply ins_key_in in Ha as [->|Ha].
    + unfold blt. now apply bytes_cmp_gt_lt.
    + rewrite Forall_forall in Hf. auto.
Qed.

Lemma key_set_in ks x : In x (key_set ks) <-> In x ks.
Proof. induction ks as [|k ks IH]; cbn [key_set fold_right In]; [tauto|]. fold (key_set ks). rewrite ins_key_in, IH. intuition. Qed.

Lemma key_set_sorted ks : StronglySorted blt (key_set ks).
Proof. induction ks as [|k ks IH]; cbn [key_set fold_right]; [constructor|]. now apply ins_key_sorted. Qed.

Lemma ssorted_filter {A} (R : A -> A -> Prop) f l : StronglySorted R l -> StronglySorted R (filter f l).
Proof.
  induction 1 as [|x l Hs IH Hf]; cbn [filter]; [constructor|]. destruct (f x); [|exact IH].
  constructor; [exact IH|]. rewrite Forall_forall in *. intros y Hy. apply filter_In in Hy as [Hy _]. auto.
Qed.

Lemma opt_list_in {A} (l : list (option A)) x : In x (opt_list l) <-> In (Some x) l.
Proof.
  induction l as [|[y|] l IH]; cbn [opt_list In]; [tauto| |].
  - rewrite IH. split; [intros [->|H]; auto | intros [H|H]; [injection H as ->; auto | auto]].
  - rewrite IH. split; [auto | intros [H|H]; [discriminate | auto]].
Qed.

Lemma ukeys_in ws u : In u (ukeys ws []) <-> exists w, In w ws /\ default_ukey (r_key w) = Some u.
Proof.
  unfold ukeys. rewrite key_set_in, opt_list_in, in_map_iff, app_nil_r. split.
  - intros (w & E & Hw). eauto.
  - intros (w & Hw & E). eauto.
Qed.

(** one record per key, keys ascending: a sorted stream *)
Lemma flat_map_keys_sorted (f : bytes -> list rec) ks :
  StronglySorted blt ks ->
  (forall u x, In x (f u) -> r_key x = enc_cf_key 0 u) ->
  (forall u, (length (f u) <= 1)%nat) ->
  sorted (flat_map f ks).
Proof.
  intros Hs Hk H1. induction Hs as [|u ks Hs IH Hf]; cbn [flat_map]; [constructor|].
  apply ssorted_app; [|exact IH|].
  - specialize (H1 u). destruct (f u) as [|a [|b l]]; [constructor | repeat constructor | cbn in H1; lia].
  - intros a b Ha Hb. apply in_flat_map in Hb as (u' & Hu' & Hb). rewrite Forall_forall in Hf.
    unfold rlt, rcmp. apply kcmp_lt. left. rewrite (Hk _ _ Ha), (Hk _ _ Hb), enc0_cmp. now apply Hf.
Qed.

Lemma split_base_enc0 u : split_base (enc_cf_key 0 u) = (0, u).
Proof. reflexivity. Qed.

(** * Forward transaction scans *)
Definition sopts_of (o : topts) (t : option bytes) : sopts :=
  {| so_rev := o_rev o; so_all := o_all o; so_pik := o_pik o; so_prefix := o_prefix o; so_since := o_since o;
     so_lower := o_lower o; so_upper := o_upper o; so_target := t |}.
Definition item_sitem (i : item) : sitem := {| s_key := i_key i; s_ver := i_ver i; s_val := i_val i |}.

Definition chosen_spec (now : N) (ws : list rec) (readTs : N) (so : sopts) : list rec :=
  flat_map (fun u => match latest_at ws (sbase u) readTs with
                     | Some x => if live now x && ver_ok so (r_ver x) then [x] else []
                     | None => []
                     end) (filter (key_ok so) (ukeys ws [])).

Lemma latest_at_key ws k v x : latest_at ws k v = Some x -> r_key x = k /\ In x ws.
Proof.
  intro H. pose proof (latest_at_is_latest ws k v) as Hl. rewrite H in Hl. cbn [is_latest] in Hl.
  destruct Hl as (Hin & [Hk _] & _). auto.
Qed.

Lemma spec_scan_chosen now ws readTs so :
  so_rev so = false -> so_all so = false ->
  spec_scan now ws [] readTs so = map (fun x => to_item (snd (split_base (r_key x))) x) (chosen_spec now ws readTs so).
Proof.
  intros Hr Ha. unfold spec_scan, chosen_spec. rewrite Hr.
  induction (filter (key_ok so) (ukeys ws [])) as [|u ks IH]; cbn [flat_map map]; [reflexivity|].
  rewrite map_app, <- IH. f_equal. unfold key_items. rewrite Ha. unfold view, view_at. rewrite N.eqb_refl. cbn [pending_of find].
  destruct (latest_at ws (sbase u) readTs) as [x|] eqn:E; [|reflexivity].
  destruct (live now x && ver_ok so (r_ver x)); [|reflexivity]. cbn [map].
  destruct (latest_at_key _ _ _ _ E) as [Hk _]. rewrite Hk. unfold sbase. rewrite split_base_enc0. reflexivity.
Qed.

Lemma live_dead now x : live now x = negb (deadb now x).
Proof. reflexivity. Qed.

Lemma ver_since o t x : ver_ok (sopts_of o t) (r_ver x) = since_ok o x.
Proof.
  unfold ver_ok, since_ok. cbn [sopts_of so_since]. destruct (0 <? o_since o); cbn [negb andb orb]; [|reflexivity].
  rewrite N.ltb_antisym. reflexivity.
Qed.

Lemma key_ok_filt o x u :
  r_key x = enc_cf_key 0 u -> o_rev o = false -> keyfilt o x = key_ok (sopts_of o None) u.
Proof.
  intros Hk Hr. unfold keyfilt, key_ok. rewrite Hk, split_base_enc0. cbn [sopts_of so_lower so_upper so_prefix so_pik so_target so_rev].
  change (0 =? cf_default) with true. cbn [andb]. rewrite andb_true_r.
  rewrite (bytes_leb_ltb (o_lower o) u).
  assert (bytes_ltb u (o_upper o) = negb (bytes_leb (o_upper o) u)) as -> by (rewrite bytes_leb_ltb; now rewrite negb_involutive).
  unfold nonemptyb, nonempty.
  destruct (o_lower o), (o_upper o), (o_prefix o); cbn [negb andb orb]; try reflexivity;
    repeat (rewrite ?andb_true_r, ?negb_involutive); reflexivity.
Qed.

Theorem txn_scan_fwd now s ws readTs o :
  iter_inv s -> content_ok s ws -> seq_functional ws -> (forall w, In w ws -> wf_key w = true) ->
  o_rev o = false -> o_all o = false ->
  map item_sitem (txn_list current now s readTs [] o ARewind) = spec_scan now ws [] readTs (sopts_of o None)
  /\ Forall (fun i => i_cf i = cf_default) (txn_list current now s readTs [] o ARewind).
Proof.
  intros Hi Hc Hf Hw Hr Ha.
  assert (Hf' : seq_functional (all_recs (tiers_of s))).
  { intros a b Ha' Hb'. apply Hf; now apply (proj1 Hc). }
  assert (Hlat : forall k, latest_at ws k readTs = src_search k readTs (fstream s)).
  { intro k. rewrite (fstream_get s k readTs Hi Hf'). symmetry. apply get_latest; auto; apply Hi. }
  pose proof (fstream_sorted s Hi) as HsS.
  set (T := filter (visible readTs) (fstream s)).
  assert (HsT : sorted T) by now apply sorted_filter.
  assert (HTin : forall y, In y T <-> In y (fstream s) /\ r_ver y <= readTs).
  { intro y. unfold T. rewrite filter_In. unfold visible. now rewrite N.leb_le. }
  assert (HTws : forall y, In y T -> In y ws).
  { intros y Hy. apply HTin in Hy as [Hy _]. apply (proj1 Hc). now apply fstream_sound. }
  assert (Hlist : txn_list current now s readTs [] o ARewind = map mk_item (pick (good now o) None T)).
  { unfold txn_list. rewrite Hr, collect_trun, (txn_stream_fwd s readTs Hi). fold T.
    apply trun_pick; auto.
    - apply Forall_forall. intros y Hy. apply Hw. now apply HTws.
    - apply Forall_forall. intros y Hy. now apply HTin in Hy as [_ Hy].
    - reflexivity. }
  assert (Hsame : pick (good now o) None T = chosen_spec now ws readTs (sopts_of o None)).
  { apply sorted_ext.
    - now apply pick_sorted.
    - unfold chosen_spec. apply flat_map_keys_sorted.
      + apply ssorted_filter, key_set_sorted.
      + intros u x Hx. destruct (latest_at ws (sbase u) readTs) as [z|] eqn:E; [|contradiction].
        destruct (live now z && ver_ok (sopts_of o None) (r_ver z)); [|contradiction]. destruct Hx as [<-|[]].
        now destruct (latest_at_key _ _ _ _ E).
      + intro u. destruct (latest_at ws (sbase u) readTs) as [z|]; [|cbn; lia].
        destruct (live now z && ver_ok (sopts_of o None) (r_ver z)); cbn; lia.
    - intro x. rewrite (pick_in (good now o) T None x HsT). unfold chosen_spec. rewrite in_flat_map. split.
      + intros (Hin & Hg & _ & Hmax).
        pose proof (Hw x (HTws x Hin)) as Hwx. destruct (wf_key_enc x Hwx) as (cf & u & Hsp & Hk & _ & _).
        unfold good in Hg. apply andb_true_iff in Hg as [Hg Hlive]. apply andb_true_iff in Hg as [Hkf Hsi].
        assert (cf = 0) as ->.
        { unfold keyfilt in Hkf. rewrite Hsp in Hkf. destruct (cf =? cf_default) eqn:E; [now apply N.eqb_eq in E | discriminate]. }
        exists u. split.
        * apply filter_In. split; [apply ukeys_in; exists x; split; [now apply HTws|] | now rewrite <- (key_ok_filt o x u Hk Hr)].
          unfold default_ukey. unfold split_base in Hsp. destruct (decode_key_cf (r_key x)) as [[c' u'] ok] eqn:Ed.
          injection Hsp as -> ->. unfold wf_key in Hwx. rewrite Ed in Hwx. apply andb_true_iff in Hwx as [-> _]. reflexivity.
        * assert (El : latest_at ws (sbase u) readTs = Some x).
          { rewrite Hlat. apply src_search_char; [exact HsS|]. apply HTin in Hin as [HinS Hv].
            split; [exact HinS|]. split; [split; [exact Hk | exact Hv]|].
            intros y Hy [Hyk Hyv]. apply Hmax; [apply HTin; now split | rewrite Hyk, Hk; reflexivity]. }
          rewrite El, live_dead, Hlive, (ver_since o None x), Hsi. now left.
      + intros (u & Hu & Hx). apply filter_In in Hu as [_ Hko].
        destruct (latest_at ws (sbase u) readTs) as [z|] eqn:E; [|contradiction].
        destruct (live now z && ver_ok (sopts_of o None) (r_ver z)) eqn:Elv; [|contradiction]. destruct Hx as [<-|[]].
        apply andb_true_iff in Elv as [Hlive Hvo].
        rewrite Hlat in E. apply (src_search_char _ _ _ _ HsS) in E as (HinS & [Hk Hv] & Hmax).
        assert (HinT : In z T) by (apply HTin; now split).
        split; [exact HinT|]. split.
        * unfold good. rewrite (key_ok_filt o z u Hk Hr), Hko, <- (ver_since o None z), Hvo, <- live_dead, Hlive. reflexivity.
        * split; [reflexivity|]. intros y Hy Hyk. apply HTin in Hy as [Hy Hyv]. apply Hmax; [exact Hy|]. split; [congruence | exact Hyv]. }
  split.
  - rewrite Hlist, Hsame, (spec_scan_chosen now ws readTs (sopts_of o None) Hr Ha), !map_map.
    apply map_ext. intro x. unfold mk_item, item_sitem, to_item. destruct (split_base (r_key x)); reflexivity.
  - rewrite Hlist. apply Forall_forall. intros i Hi'. apply in_map_iff in Hi' as (x & <- & Hx).
    apply (pick_in (good now o) T None x HsT) in Hx as (_ & Hg & _).
    unfold good, keyfilt in Hg. unfold mk_item. destruct (split_base (r_key x)) as [cf u]. cbn [i_cf].
    destruct (cf =? cf_default) eqn:E; [now apply N.eqb_eq in E | discriminate].
Qed.

(** * Values listed by a scan are what a point read of the snapshot returns *)
Lemma spec_scan_get now ws readTs so i :
  so_rev so = false -> so_all so = false ->
  In i (spec_scan now ws [] readTs so) -> spec_get now ws [] readTs (s_key i) = Some (s_val i).
Proof.
  intros Hr Ha Hi. rewrite (spec_scan_chosen now ws readTs so Hr Ha) in Hi.
  apply in_map_iff in Hi as (x & <- & Hx). unfold chosen_spec in Hx. apply in_flat_map in Hx as (u & _ & Hx).
  destruct (latest_at ws (sbase u) readTs) as [z|] eqn:E; [|contradiction].
  destruct (live now z && ver_ok so (r_ver z)) eqn:El; [|contradiction]. destruct Hx as [<-|[]].
  apply andb_true_iff in El as [El _]. destruct (latest_at_key _ _ _ _ E) as [Hk _].
  unfold to_item. cbn [s_key s_val]. rewrite Hk. unfold sbase at 1. rewrite split_base_enc0. cbn [snd].
  unfold spec_get, view, view_at. rewrite N.eqb_refl. cbn [pending_of find]. now rewrite E, El.
Qed.

Theorem txn_scan_fwd_get now s ws readTs o i :
  iter_inv s -> content_ok s ws -> seq_functional ws -> (forall w, In w ws -> wf_key w = true) ->
  o_rev o = false -> o_all o = false ->
  In i (txn_list current now s readTs [] o ARewind) ->
  spec_get now ws [] readTs (i_key i) = Some (i_val i).
Proof.
  intros Hi Hc Hf Hw Hr Ha Hin.
  destruct (txn_scan_fwd now s ws readTs o Hi Hc Hf Hw Hr Ha) as [Heq _].
  apply (spec_scan_get now ws readTs (sopts_of o None) (item_sitem i) Hr Ha). rewrite <- Heq. now apply in_map.
Qed.

(** The oracle decides the specification. *)
Lemma sitem_eqb_eq a b : sitem_eqb a b = true <-> a = b.
Proof.
  unfold sitem_eqb. rewrite !andb_true_iff, !bytes_eqb_eq, N.eqb_eq. destruct a, b; cbn. split.
  - intros [[-> ->] ->]. reflexivity.
  - intro H. injection H as -> -> ->. auto.
Qed.
Lemma sitems_eqb_eq a : forall b, sitems_eqb a b = true <-> a = b.
Proof.
  induction a as [|x a IH]; intros [|y b]; cbn [sitems_eqb]; try (split; [discriminate | discriminate]); [tauto|].
  rewrite andb_true_iff, sitem_eqb_eq, IH. split; [intros [-> ->]; reflexivity | intro H; injection H; auto].
Qed.
Theorem scan_ok_b_spec now ws pw readTs o l : scan_ok_b now ws pw readTs o l = true <-> is_scan now ws pw readTs o l.
Proof. apply sitems_eqb_eq. Qed.

(** * DB.NewIterator outside the class of finding C06-F10 *)

(** The merged stream holds default-column-family records only, one per key. *)
Fixpoint no_repeat (l : list rec) : bool :=
  match l with
  | x :: ((y :: _) as l') => negb (bytes_eqb (r_key x) (r_key y)) && no_repeat l'
  | _ => true
  end.
Definition simple_stream (l : list rec) : bool :=
  forallb (fun r => fst (split_base (r_key r)) =? cf_default) l && no_repeat l.

Definition topts_of_d (o : dopts) : topts :=
  {| o_rev := negb (d_asc o); o_all := false; o_keyonly := d_keyonly o; o_pik := false; o_prefix := []; o_since := 0;
     o_lower := d_lower o; o_upper := d_upper o |}.

Lemma filter_nil {A} (f : A -> bool) l : (forall y, In y l -> f y = false) -> filter f l = [].
Proof.
  induction l as [|x l IH]; intro H; cbn [filter]; [reflexivity|].
  rewrite (H x (or_introl eq_refl)). apply IH. intros y Hy. apply H. now right.
Qed.

Lemma filter_all {A} (f : A -> bool) l : (forall y, In y l -> f y = true) -> filter f l = l.
Proof.
  induction l as [|x l IH]; intro H; cbn [filter]; [reflexivity|].
  rewrite (H x (or_introl eq_refl)). f_equal. apply IH. intros y Hy. apply H. now right.
Qed.

Lemma pick_filter g : forall l prev,
  same_key prev (hd {| r_key := []; r_ver := 0; r_val := []; r_meta := 0; r_exp := 0; r_seq := 0 |} l) = false \/ l = [] ->
  no_repeat l = true -> pick g prev l = filter g l.
Proof.
  induction l as [|x l IH]; intros prev Hp Hn; [reflexivity|].
  cbn [pick filter]. destruct Hp as [Hp|Hp]; [|discriminate]. cbn [hd] in Hp. rewrite Hp. cbn [negb andb].
  assert (Hrest : pick g (Some x) l = filter g l).
  { apply IH.
    - destruct l as [|y l']; [now right|]. left. cbn [hd same_key]. cbn [no_repeat] in Hn.
      apply andb_true_iff in Hn as [Hn _]. now apply negb_true_iff in Hn.
    - destruct l as [|y l']; [reflexivity|]. cbn [no_repeat] in Hn. now apply andb_true_iff in Hn as [_ Hn]. }
  rewrite Hrest. destruct (g x); reflexivity.
Qed.

Lemma db_run_filter now od : d_asc od = true ->
  forall l, sorted l -> Forall (fun x => wf_key x = true) l ->
  Forall (fun r => fst (split_base (r_key r)) = cf_default) l ->
  db_run current now od l = map mk_item (filter (good now (topts_of_d od)) l).
Proof.
  intros Hasc. induction l as [|x l IH]; intros Hs Hw Hc; [reflexivity|].
  inversion Hw as [|? ? Hwx Hwl]; subst. inversion Hc as [|? ? Hcx Hcl]; subst.
  pose proof (sorted_cons_inv _ _ Hs) as [Hsl Hf].
  destruct (wf_key_enc x Hwx) as (cf & u & Hsp & Hk & _ & _). rewrite Hsp in Hcx. cbn [fst] in Hcx. subst cf.
  cbn [db_run filter]. rewrite Hsp. cbn [snd]. rewrite Hasc.
  assert (Hg : good now (topts_of_d od) x =
               negb (nonempty (d_lower od) && bytes_ltb u (d_lower od))
               && negb (nonempty (d_upper od) && bytes_leb (d_upper od) u) && negb (deadb now x)).
  { unfold good, keyfilt, since_ok. rewrite Hsp. cbn [topts_of_d o_lower o_upper o_prefix o_since o_pik nonempty andb negb].
    change (cf_default =? cf_default) with true. change (0 <? 0) with false. cbn [andb negb]. now rewrite !andb_true_r. }
  rewrite Hg.
  destruct (nonempty (d_lower od) && bytes_ltb u (d_lower od)) eqn:Elo; cbn [negb andb]; [now apply IH|].
  destruct (nonempty (d_upper od) && bytes_leb (d_upper od) u) eqn:Eup; cbn [negb andb].
  { rewrite filter_nil; [reflexivity|]. intros y Hy.
    rewrite Forall_forall in Hwl, Hcl. destruct (wf_key_enc y (Hwl y Hy)) as (cfy & uy & Hspy & Hky & _ & _).
    pose proof (Hcl y Hy) as Hcy. rewrite Hspy in Hcy. cbn [fst] in Hcy. subst cfy.
    unfold good, keyfilt. rewrite Hspy. cbn [topts_of_d o_lower o_upper]. apply andb_true_iff in Eup as [Hne Hle]. rewrite Hne.
    assert (Hxy : bytes_leb u uy = true).
    { pose proof (sorted_head_le x l y Hs (or_intror Hy)) as H. rewrite Hk, Hky in H. unfold bytes_leb in *. now rewrite enc0_cmp in H. }
    rewrite (bytes_leb_trans _ _ _ Hle Hxy). cbn [negb andb]. now rewrite !andb_false_r. }
  unfold db_dead. cbn [current fix_db_dead]. destruct (deadb now x); cbn [negb map]; [now apply IH|].
  f_equal. now apply IH.
Qed.

Definition sopts_of_d (o : dopts) (t : option bytes) : sopts := sopts_of (topts_of_d o) t.

Theorem db_scan_fwd_partial now s ws od :
  iter_inv s -> content_ok s ws -> seq_functional ws ->
  (forall w, In w ws -> wf_key w = true /\ r_ver w <= max_u64) ->
  simple_stream (fstream s) = true -> d_asc od = true ->
  map item_sitem (db_list current now s od ARewind) = spec_scan now ws [] max_u64 (sopts_of_d od None).
Proof.
  intros Hi Hc Hf Hw Hsim Hasc.
  assert (Hw1 : forall w, In w ws -> wf_key w = true) by (intros w Hw'; now apply Hw).
  assert (Hr : o_rev (topts_of_d od) = false) by (cbn; now rewrite Hasc).
  destruct (txn_scan_fwd now s ws max_u64 (topts_of_d od) Hi Hc Hf Hw1 Hr eq_refl) as [Heq _].
  unfold sopts_of_d. rewrite <- Heq. f_equal.
  pose proof (fstream_sorted s Hi) as HsS.
  assert (Hws : forall y, In y (fstream s) -> In y ws) by (intros y Hy; apply (proj1 Hc); now apply fstream_sound).
  apply andb_true_iff in Hsim as [Hcf Hnr]. rewrite forallb_forall in Hcf.
  assert (HT : filter (visible max_u64) (fstream s) = fstream s).
  { apply filter_all. intros y Hy. unfold visible. apply N.leb_le. now apply Hw, Hws. }
  unfold db_list, txn_list. rewrite Hr, Hasc. cbn [negb]. rewrite db_stream_fwd, collect_trun, (txn_stream_fwd s max_u64 Hi), HT.
  rewrite (trun_pick now max_u64 (topts_of_d od) Hr eq_refl (fstream s) [] None); auto.
  - rewrite pick_filter; [|left; reflexivity | exact Hnr].
    apply db_run_filter; auto.
    + apply Forall_forall. intros y Hy. now apply Hw1, Hws.
    + apply Forall_forall. intros y Hy. apply N.eqb_eq. now apply Hcf.
  - apply Forall_forall. intros y Hy. now apply Hw1, Hws.
  - apply Forall_forall. intros y Hy. now apply Hw, Hws.
  - reflexivity.
Qed.

(** * Forward scans with AllVersions *)
Lemma judge_fwd_all now readTs o last x cf u :
  o_rev o = false -> o_all o = true -> r_ver x <= readTs -> split_base (r_key x) = (cf, u) ->
  judge current now readTs o last x =
    if negb (cf =? cf_default) then VSkip last
    else if nonempty (o_lower o) && bytes_ltb u (o_lower o) then VSkip last
    else if nonempty (o_upper o) && bytes_leb (o_upper o) u then VStop
    else if (0 <? o_since o) && (r_ver x <=? o_since o) then VSkip last
    else if nonempty (o_prefix o) && negb (if o_pik o then bytes_eqb u (o_prefix o) else is_prefix (o_prefix o) u) then VSkip last
    else if deadb now x then VSkip last
    else VEmit.
Proof.
  intros Hr Ha Hv Hs. unfold judge. rewrite Hs, Hr, Ha. cbn [current fix_txn_cf fix_tomb_last negb andb].
  assert (readTs <? r_ver x = false) as -> by (apply N.ltb_ge; exact Hv). reflexivity.
Qed.

Lemma trun_all now readTs o :
  o_rev o = false -> o_all o = true ->
  forall l last, sorted l -> Forall (fun x => wf_key x = true) l -> Forall (fun x => r_ver x <= readTs) l ->
  trun current now readTs o last l = map mk_item (filter (good now o) l).
Proof.
  intros Hr Ha. induction l as [|x l IH]; intros last Hs Hw Hv; [reflexivity|].
  inversion Hw as [|? ? Hwx Hwl]; subst. inversion Hv as [|? ? Hvx Hvl]; subst.
  pose proof (sorted_cons_inv _ _ Hs) as [Hsl _].
  destruct (wf_key_enc x Hwx) as (cf & u & Hsp & Hk & _ & _).
  cbn [trun filter]. rewrite (judge_fwd_all now readTs o last x cf u Hr Ha Hvx Hsp).
  assert (Hg : good now o x =
               (cf =? cf_default)
               && negb (nonempty (o_lower o) && bytes_ltb u (o_lower o))
               && negb (nonempty (o_upper o) && bytes_leb (o_upper o) u)
               && negb (nonempty (o_prefix o) && negb (if o_pik o then bytes_eqb u (o_prefix o) else is_prefix (o_prefix o) u))
               && negb ((0 <? o_since o) && (r_ver x <=? o_since o)) && negb (deadb now x))
    by (unfold good, keyfilt, since_ok; now rewrite Hsp).
  rewrite Hg.
  destruct (cf =? cf_default) eqn:Ecf; cbn [negb andb]; [|now apply IH].
  apply N.eqb_eq in Ecf. subst cf.
  destruct (nonempty (o_lower o) && bytes_ltb u (o_lower o)) eqn:Elo; cbn [negb andb]; [now apply IH|].
  destruct (nonempty (o_upper o) && bytes_leb (o_upper o) u) eqn:Eup; cbn [negb andb].
  { rewrite filter_nil; [reflexivity|]. intros y Hy.
    rewrite Forall_forall in Hwl. destruct (wf_key_enc y (Hwl y Hy)) as (cfy & uy & Hspy & Hky & _ & _).
    unfold good, keyfilt. rewrite Hspy. destruct (cfy =? cf_default) eqn:Ey; [|reflexivity].
    apply N.eqb_eq in Ey. subst cfy. apply andb_true_iff in Eup as [Hne Hle]. rewrite Hne.
    assert (Hxy : bytes_leb u uy = true).
    { pose proof (sorted_head_le x l y Hs (or_intror Hy)) as H. rewrite Hk, Hky in H. unfold bytes_leb in *. now rewrite enc0_cmp in H. }
    rewrite (bytes_leb_trans _ _ _ Hle Hxy). cbn [negb andb]. now rewrite !andb_false_r. }
  destruct ((0 <? o_since o) && (r_ver x <=? o_since o)) eqn:Esi.
  { rewrite andb_false_r. cbn [negb andb]. now apply IH. }
  destruct (nonempty (o_prefix o) && negb (if o_pik o then bytes_eqb u (o_prefix o) else is_prefix (o_prefix o) u)) eqn:Epf;
    cbn [negb andb]; [now apply IH|].
  destruct (deadb now x); cbn [negb map]; [now apply IH|]. f_equal. now apply IH.
Qed.

(** versions, descending *)
Definition vgt (a b : N) : Prop := b < a.
Lemma ins_ver_in v l x : In x (ins_ver v l) <-> x = v \/ In x l.
Proof.
  induction l as [|y l IH]; cbn [ins_ver]; [cbn; intuition|].
  destruct (y <? v); [cbn [In]; intuition|]. destruct (y =? v) eqn:E.
  - apply N.eqb_eq in E. subst. cbn [In]. intuition.
  - cbn [In]. rewrite IH. intuition.
Qed.
Lemma ins_ver_sorted v l : StronglySorted vgt l -> StronglySorted vgt (ins_ver v l).
Proof.
  induction l as [|y l IH]; intro H; cbn [ins_ver]; [repeat constructor|].
  inversion H as [|? ? Hs Hf]; subst. destruct (y <? v) eqn:E1.
  - apply N.ltb_lt in E1. constructor; [exact H|]. constructor; [exact E1|].
    eapply Forall_impl; [|exact Hf]. unfold vgt. intros; lia.
  - destruct (y =? v) eqn:E2; [exact H|]. apply N.ltb_ge in E1. apply N.eqb_neq in E2.
    constructor; [now apply IH|]. apply Forall_forall. intros a Ha. apply ins_ver_in in Ha as [->|Ha].
    + unfold vgt. lia.
    + rewrite Forall_forall in Hf. auto.
Qed.
Lemma vers_in l x : In x (fold_right ins_ver [] l) <-> In x l.
Proof. induction l as [|v l IH]; cbn [fold_right In]; [tauto|]. rewrite ins_ver_in, IH. intuition. Qed.
Lemma vers_sorted l : StronglySorted vgt (fold_right ins_ver [] l).
Proof. induction l as [|v l IH]; cbn [fold_right]; [constructor|]. now apply ins_ver_sorted. Qed.

Lemma versions_of_in ws readTs bk v :
  In v (versions_of ws [] readTs bk) <-> exists w, In w ws /\ r_key w = bk /\ r_ver w = v /\ v <= readTs.
Proof.
  unfold versions_of. cbn [pending_of find]. rewrite app_nil_r, vers_in, in_map_iff. split.
  - intros (w & Hv & Hw). apply filter_In in Hw as [Hw Hc]. apply andb_true_iff in Hc as [Hk Hl].
    apply bytes_eqb_eq in Hk. apply N.leb_le in Hl. exists w. subst. auto.
  - intros (w & Hw & Hk & Hv & Hl). exists w. split; [exact Hv|]. apply filter_In. split; [exact Hw|].
    apply andb_true_iff. split; [now apply bytes_eqb_eq | apply N.leb_le; lia].
Qed.

Lemma opt_map_sorted (f : N -> option rec) bk vs :
  StronglySorted vgt vs -> (forall v x, In v vs -> f v = Some x -> r_key x = bk /\ r_ver x = v) ->
  sorted (opt_list (map f vs)).
Proof.
  intros Hs. induction Hs as [|v vs Hs IH Hall]; intro Hf; cbn [map opt_list]; [constructor|].
  assert (IH' : sorted (opt_list (map f vs))) by (apply IH; intros v' x Hv'; apply Hf; now right).
  destruct (f v) as [x|] eqn:E; [|exact IH']. constructor; [exact IH'|].
  apply Forall_forall. intros y Hy. apply opt_list_in, in_map_iff in Hy as (v' & E' & Hv').
  rewrite Forall_forall in Hall. specialize (Hall v' Hv').
  destruct (Hf _ _ (or_introl eq_refl) E) as [K1 V1]. destruct (Hf _ _ (or_intror Hv') E') as [K2 V2].
  unfold rlt, rcmp. apply kcmp_lt. right. split; [congruence|]. unfold vgt in Hall. lia.
Qed.

Lemma flat_map_keys_sorted' (f : bytes -> list rec) ks :
  StronglySorted blt ks ->
  (forall u x, In x (f u) -> r_key x = enc_cf_key 0 u) ->
  (forall u, sorted (f u)) ->
  sorted (flat_map f ks).
Proof.
  intros Hs Hk H1. induction Hs as [|u ks Hs IH Hf]; cbn [flat_map]; [constructor|].
  apply ssorted_app; [apply H1 | exact IH|].
  intros a b Ha Hb. apply in_flat_map in Hb as (u' & Hu' & Hb). rewrite Forall_forall in Hf.
  unfold rlt, rcmp. apply kcmp_lt. left. rewrite (Hk _ _ Ha), (Hk _ _ Hb), enc0_cmp. now apply Hf.
Qed.

Definition all_pick (now : N) (ws : list rec) (so : sopts) (bk : bytes) (v : N) : option rec :=
  match latest_at ws bk v with
  | Some x => if live now x && ver_ok so (r_ver x) then Some x else None
  | None => None
  end.

Definition chosen_all (now : N) (ws : list rec) (readTs : N) (so : sopts) : list rec :=
  flat_map (fun u => opt_list (map (all_pick now ws so (sbase u)) (versions_of ws [] readTs (sbase u))))
           (filter (key_ok so) (ukeys ws [])).

Lemma spec_scan_chosen_all now ws readTs so :
  so_rev so = false -> so_all so = true ->
  spec_scan now ws [] readTs so = map (fun x => to_item (snd (split_base (r_key x))) x) (chosen_all now ws readTs so).
Proof.
  intros Hr Ha. unfold spec_scan, chosen_all. rewrite Hr.
  induction (filter (key_ok so) (ukeys ws [])) as [|u ks IH]; cbn [flat_map map]; [reflexivity|].
  rewrite map_app, <- IH. f_equal. unfold key_items. rewrite Ha.
  induction (versions_of ws [] readTs (sbase u)) as [|v vs IHv]; cbn [map opt_list]; [reflexivity|].
  assert (Hview : view_at ws [] readTs (sbase u) v = latest_at ws (sbase u) v).
  { unfold view_at. cbn [pending_of find]. now destruct (v =? readTs). }
  rewrite Hview. unfold all_pick. destruct (latest_at ws (sbase u) v) as [x|] eqn:E; [|exact IHv].
  destruct (live now x && ver_ok so (r_ver x)); [|exact IHv]. cbn [map]. rewrite IHv. f_equal.
  destruct (latest_at_key _ _ _ _ E) as [Hk _]. rewrite Hk. unfold sbase. rewrite split_base_enc0. reflexivity.
Qed.

Lemma latest_at_exact ws bk v x w :
  latest_at ws bk v = Some x -> In w ws -> r_key w = bk -> r_ver w = v -> r_ver x = v.
Proof.
  intros E Hw Hk Hv. pose proof (latest_at_is_latest ws bk v) as Hl. rewrite E in Hl. cbn [is_latest] in Hl.
  destruct Hl as (_ & [_ Hle] & Hmax). assert (Hc : is_cand bk v w) by (split; [exact Hk | lia]).
  destruct (Hmax w Hw Hc) as [H|[H _]]; lia.
Qed.

Theorem txn_scan_fwd_all now s ws readTs o :
  iter_inv s -> content_ok s ws -> seq_functional ws -> (forall w, In w ws -> wf_key w = true) ->
  o_rev o = false -> o_all o = true ->
  map item_sitem (txn_list current now s readTs [] o ARewind) = spec_scan now ws [] readTs (sopts_of o None).
Proof.
  intros Hi Hc Hf Hw Hr Ha.
  assert (Hf' : seq_functional (all_recs (tiers_of s))).
  { intros a b Ha' Hb'. apply Hf; now apply (proj1 Hc). }
  assert (Hlat : forall k v, latest_at ws k v = src_search k v (fstream s)).
  { intros k v. rewrite (fstream_get s k v Hi Hf'). symmetry. apply get_latest; auto; apply Hi. }
  pose proof (fstream_sorted s Hi) as HsS.
  set (T := filter (visible readTs) (fstream s)).
  assert (HsT : sorted T) by now apply sorted_filter.
  assert (HTin : forall y, In y T <-> In y (fstream s) /\ r_ver y <= readTs).
  { intro y. unfold T. rewrite filter_In. unfold visible. now rewrite N.leb_le. }
  assert (HSws : forall y, In y (fstream s) -> In y ws).
  { intros y Hy. apply (proj1 Hc). now apply fstream_sound. }
  assert (Hlist : txn_list current now s readTs [] o ARewind = map mk_item (filter (good now o) T)).
  { unfold txn_list. rewrite Hr, collect_trun, (txn_stream_fwd s readTs Hi). fold T.
    apply trun_all; auto.
    - apply Forall_forall. intros y Hy. apply Hw, HSws. now apply HTin in Hy as [Hy _].
    - apply Forall_forall. intros y Hy. now apply HTin in Hy as [_ Hy]. }
  assert (Hsame : filter (good now o) T = chosen_all now ws readTs (sopts_of o None)).
  { apply sorted_ext.
    - now apply sorted_filter.
    - unfold chosen_all. apply flat_map_keys_sorted'.
      + apply ssorted_filter, key_set_sorted.
      + intros u x Hx. apply opt_list_in, in_map_iff in Hx as (v & E & _). unfold all_pick in E.
        destruct (latest_at ws (sbase u) v) as [z|] eqn:El; [|discriminate].
        destruct (live now z && ver_ok (sopts_of o None) (r_ver z)); [|discriminate]. injection E as <-.
        now destruct (latest_at_key _ _ _ _ El).
      + intro u. apply (opt_map_sorted _ (sbase u)); [apply vers_sorted|].
        intros v x Hv E. unfold all_pick in E.
        destruct (latest_at ws (sbase u) v) as [z|] eqn:El; [|discriminate].
        destruct (live now z && ver_ok (sopts_of o None) (r_ver z)); [|discriminate]. injection E as <-.
        destruct (latest_at_key _ _ _ _ El) as [Hk _]. split; [exact Hk|].
        apply versions_of_in in Hv as (w & Hw' & Hwk & Hwv & _). eapply latest_at_exact; eauto.
    - intro x. unfold chosen_all. rewrite filter_In, in_flat_map. split.
      + intros (Hin & Hg). apply HTin in Hin as [HinS Hv].
        pose proof (Hw x (HSws x HinS)) as Hwx. destruct (wf_key_enc x Hwx) as (cf & u & Hsp & Hk & _ & _).
        unfold good in Hg. apply andb_true_iff in Hg as [Hg Hlive]. apply andb_true_iff in Hg as [Hkf Hsi].
        assert (cf = 0) as ->.
        { unfold keyfilt in Hkf. rewrite Hsp in Hkf. destruct (cf =? cf_default) eqn:E; [now apply N.eqb_eq in E | discriminate]. }
        exists u. split.
        * apply filter_In. split; [apply ukeys_in; exists x; split; [now apply HSws|] | now rewrite <- (key_ok_filt o x u Hk Hr)].
          unfold default_ukey. unfold split_base in Hsp. destruct (decode_key_cf (r_key x)) as [[c' u'] ok] eqn:Ed.
          injection Hsp as -> ->. unfold wf_key in Hwx. rewrite Ed in Hwx. apply andb_true_iff in Hwx as [-> _]. reflexivity.
        * apply opt_list_in, in_map_iff. exists (r_ver x). split.
          -- unfold all_pick.
             assert (El : latest_at ws (sbase u) (r_ver x) = Some x).
             { rewrite Hlat. apply src_search_char; [exact HsS|]. split; [exact HinS|]. split; [split; [exact Hk | lia]|].
               intros y _ [_ Hyv]. exact Hyv. }
             now rewrite El, live_dead, Hlive, (ver_since o None x), Hsi.
          -- apply versions_of_in. exists x. split; [now apply HSws|]. split; [exact Hk|]. split; [reflexivity | exact Hv].
      + intros (u & Hu & Hx). apply filter_In in Hu as [_ Hko].
        apply opt_list_in, in_map_iff in Hx as (v & E & Hv). unfold all_pick in E.
        destruct (latest_at ws (sbase u) v) as [z|] eqn:El; [|discriminate].
        destruct (live now z && ver_ok (sopts_of o None) (r_ver z)) eqn:Elv; [|discriminate]. injection E as <-.
        apply andb_true_iff in Elv as [Hlive Hvo].
        rewrite Hlat in El. apply (src_search_char _ _ _ _ HsS) in El as (HinS & [Hk Hzv] & _).
        apply versions_of_in in Hv as (_ & _ & _ & _ & Hvr).
        split; [apply HTin; split; [exact HinS | lia]|].
        unfold good. now rewrite (key_ok_filt o z u Hk Hr), Hko, <- (ver_since o None z), Hvo, <- live_dead, Hlive. }
  rewrite Hlist, Hsame, (spec_scan_chosen_all now ws readTs (sopts_of o None) Hr Ha), !map_map.
  apply map_ext. intro x. unfold mk_item, item_sitem, to_item. destruct (split_base (r_key x)); reflexivity.
Qed.

(** * The merge iterator for an arbitrary direction *)
Section GenericMerge.
  Variable cmp : rec -> rec -> comparison.
  Hypothesis cmp_eq : forall x y, cmp x y = Eq <-> r_key x = r_key y /\ r_ver x = r_ver y.
  Hypothesis cmp_anti : forall x y, cmp y x = CompOpp (cmp x y).
  Hypothesis cmp_trans : forall x y z, cmp x y = Lt -> cmp y z = Lt -> cmp x z = Lt.

  Definition glt (a b : rec) : Prop := cmp a b = Lt.
  Definition gsorted (l : list rec) : Prop := StronglySorted glt l.

  Lemma glt_irrefl a : ~ glt a a.
  Proof. unfold glt. intro H. assert (cmp a a = Eq) by (apply cmp_eq; auto). congruence. Qed.

  Lemma g_gt_lt a b : cmp a b = Gt -> glt b a.
  Proof. unfold glt. intro E. rewrite cmp_anti, E. reflexivity. Qed.

  Lemma g_eq_lt_l a b c : cmp a b = Eq -> glt b c -> glt a c.
  Proof.
    unfold glt. intros E H. apply cmp_eq in E as [Ek Ev]. destruct (cmp a c) eqn:E2; [|reflexivity|].
    - apply cmp_eq in E2 as [E2k E2v]. assert (cmp b c = Eq) by (apply cmp_eq; split; congruence). congruence.
    - apply g_gt_lt in E2. pose proof (cmp_trans _ _ _ H E2) as H3.
      assert (cmp b a = Eq) by (apply cmp_eq; split; congruence). unfold glt in H3. congruence.
  Qed.

  Lemma gsorted_cons_inv x l : gsorted (x :: l) -> gsorted l /\ Forall (glt x) l.
  Proof. intro H. inversion H; subst. auto. Qed.

  Lemma gsorted_unique l x y :
    gsorted l -> In x l -> In y l -> r_key x = r_key y -> r_ver x = r_ver y -> x = y.
  Proof.
    induction l as [|z l IH]; intros Hs Hx Hy Hk Hv; [contradiction|].
    apply gsorted_cons_inv in Hs as [Hs Hf]. rewrite Forall_forall in Hf.
    destruct Hx as [->|Hx], Hy as [->|Hy]; auto.
    - specialize (Hf _ Hy). unfold glt in Hf. assert (cmp x y = Eq) by (apply cmp_eq; auto). congruence.
    - specialize (Hf _ Hx). unfold glt in Hf. assert (cmp y x = Eq) by (apply cmp_eq; auto). congruence.
  Qed.

  Lemma gmerge_fuel_in f : forall a b x, In x (gmerge_fuel cmp f a b) -> In x a \/ In x b.
  Proof.
    induction f as [|f IH]; intros a b x; cbn [gmerge_fuel]; [apply in_app_or|].
    destruct a as [|xa a']; [now right|]. destruct b as [|yb b']; [now left|].
    destruct (cmp xa yb); (intros [<-|H]; [cbn [In]; tauto|]); apply IH in H; cbn [In] in *; tauto.
  Qed.

  Lemma gmerge_fuel_left f : forall a b x, In x a -> In x (gmerge_fuel cmp f a b).
  Proof.
    induction f as [|f IH]; intros a b x Hx; cbn [gmerge_fuel]; [apply in_or_app; now left|].
    destruct a as [|xa a']; [contradiction|]. destruct b as [|yb b']; [exact Hx|].
    destruct (cmp xa yb); cbn [In].
    - destruct Hx as [->|Hx]; [now left | right; now apply IH].
    - destruct Hx as [->|Hx]; [now left | right; now apply IH].
    - right. now apply IH.
  Qed.

  Lemma gmerge_fuel_right f : forall a b y,
    In y b -> In y (gmerge_fuel cmp f a b) \/ exists x, In x a /\ cmp x y = Eq.
  Proof.
    induction f as [|f IH]; intros a b y Hy; cbn [gmerge_fuel]; [left; apply in_or_app; now right|].
    destruct a as [|xa a']; [now left|]. destruct b as [|yb b']; [contradiction|].
    destruct (cmp xa yb) eqn:E; cbn [In].
    - destruct Hy as [<-|Hy]; [right; exists xa; split; [now left | exact E]|].
      destruct (IH a' b' y Hy) as [H|(x & Hx & Ex)]; [left; now right | right; exists x; split; [now right | exact Ex]].
    - destruct (IH a' (yb :: b') y Hy) as [H|(x & Hx & Ex)]; [left; now right | right; exists x; split; [now right | exact Ex]].
    - destruct Hy as [<-|Hy]; [left; now left|].
      destruct (IH (xa :: a') b' y Hy) as [H|(x & Hx & Ex)]; [left; now right | right; exists x; split; [exact Hx | exact Ex]].
  Qed.

  Lemma gmerge_fuel_sorted f : forall a b,
    (length a + length b <= f)%nat -> gsorted a -> gsorted b -> gsorted (gmerge_fuel cmp f a b).
  Proof.
    induction f as [|f IH]; intros a b Hl Ha Hb; cbn [gmerge_fuel].
    - destruct a; [|cbn in Hl; lia]. destruct b; [constructor | cbn in Hl; lia].
    - destruct a as [|xa a']; [exact Hb|]. destruct b as [|yb b']; [exact Ha|].
      cbn [length] in Hl. pose proof Ha as Ha0. pose proof Hb as Hb0.
      apply gsorted_cons_inv in Ha as [Ha Hfa]. apply gsorted_cons_inv in Hb as [Hb Hfb].
      rewrite Forall_forall in Hfa, Hfb.
      destruct (cmp xa yb) eqn:E.
      + constructor; [apply IH; [lia | exact Ha | exact Hb]|].
        apply Forall_forall. intros z Hz. apply gmerge_fuel_in in Hz as [Hz|Hz]; [now apply Hfa|].
        eapply g_eq_lt_l; [exact E | now apply Hfb].
      + constructor; [apply IH; [cbn [length]; lia | exact Ha | exact Hb0]|].
        apply Forall_forall. intros z Hz. apply gmerge_fuel_in in Hz as [Hz|[<-|Hz]]; [now apply Hfa | exact E|].
        eapply cmp_trans; [exact E | now apply Hfb].
      + apply g_gt_lt in E.
        constructor; [apply IH; [cbn [length]; lia | exact Ha0 | exact Hb]|].
        apply Forall_forall. intros z Hz. apply gmerge_fuel_in in Hz as [[<-|Hz]|Hz]; [exact E | | now apply Hfb].
        eapply cmp_trans; [exact E | now apply Hfa].
  Qed.

  Lemma g_find_self x a : gsorted a -> In x a -> find (ik_eqb x) a = Some x.
  Proof.
    intros Hs Hx. destruct (find (ik_eqb x) a) as [y|] eqn:E.
    - apply find_some in E as [Hy He]. apply ik_eqb_spec in He as [Hk Hv]. f_equal. now apply (gsorted_unique a).
    - pose proof (find_none _ _ E x Hx) as H. rewrite ik_eqb_refl in H. discriminate.
  Qed.

  Lemma gmerge_char a b x :
    gsorted a -> gsorted b ->
    (In x (gmerge cmp a b) <-> In x a \/ (In x b /\ find (ik_eqb x) a = None)).
  Proof.
    intros Ha Hb. unfold gmerge. split.
    - intro H. destruct (find (ik_eqb x) a) as [y|] eqn:E.
      + left. apply find_some in E as [Hy He]. apply ik_eqb_spec in He as [Hk Hv].
        assert (y = x) as <-; [|exact Hy].
        apply (gsorted_unique (gmerge_fuel cmp (length a + length b) a b));
          [apply gmerge_fuel_sorted; auto | now apply gmerge_fuel_left | exact H | exact Hk | exact Hv].
      + apply gmerge_fuel_in in H as [H|H]; [now left | right; now split].
    - intros [H|[H E]]; [now apply gmerge_fuel_left|].
      destruct (gmerge_fuel_right (length a + length b) a b x H) as [H'|(y & Hy & He)]; [exact H'|].
      pose proof (find_none _ _ E y Hy) as Hn. apply cmp_eq in He as [Hk Hv].
      assert (ik_eqb x y = true) by (apply ik_eqb_spec; auto). congruence.
  Qed.

  Definition gowns (srcs : list (list rec)) (l : list rec) : Prop :=
    gsorted l /\ forall x, In x l <-> owner x srcs = Some x.

  Lemma gowns_single a : gsorted a -> gowns [a] a.
  Proof.
    intro Hs. split; [exact Hs|]. intro x. cbn [owner]. split.
    - intro Hx. now rewrite (g_find_self x a Hs Hx).
    - destruct (find (ik_eqb x) a) as [y|] eqn:E; [|discriminate]. intro H. injection H as ->.
      now apply find_some in E as [Hy _].
  Qed.

  Lemma gowns_nil : gowns [] [].
  Proof. split; [constructor|]. intro x. cbn. split; [intros [] | discriminate]. Qed.

  Lemma gowns_merge A B la lb : gowns A la -> gowns B lb -> gowns (A ++ B) (gmerge cmp la lb).
  Proof.
    intros [Hsa Ha] [Hsb Hb]. split; [apply gmerge_fuel_sorted; auto|].
    intro x. rewrite (gmerge_char la lb x Hsa Hsb), owner_app, Ha, Hb.
    assert (Hn : find (ik_eqb x) la = None <-> owner x A = None).
    { split.
      - intro E. destruct (owner x A) as [y|] eqn:Eo; [|reflexivity].
        pose proof (owner_idem _ _ _ Eo) as Hy. apply Ha in Hy.
        destruct (owner_some _ _ _ Eo) as [_ He]. pose proof (find_none _ _ E y Hy). congruence.
      - intro Eo. destruct (find (ik_eqb x) la) as [y|] eqn:E; [|reflexivity].
        apply find_some in E as [Hy He]. apply Ha in Hy. rewrite <- (owner_congr x y A He), Eo in Hy. discriminate. }
    destruct (owner x A) as [y|] eqn:Eo.
    - split; [intros [H|[_ H]]; [exact H | apply Hn in H; discriminate] | intro H; now left].
    - split; [intros [H|[H _]]; [discriminate | exact H] | intro H; right; split; [exact H | now apply Hn]].
  Qed.

  Lemma gmtree_fuel_owns f : forall srcs,
    (length srcs <= f)%nat -> Forall gsorted srcs -> gowns srcs (mtree_fuel cmp f srcs).
  Proof.
    induction f as [|f IH]; intros srcs Hl Hs.
    - destruct srcs; [apply gowns_nil | cbn in Hl; lia].
    - cbn [mtree_fuel]. destruct srcs as [|a [|b [|c T]]].
      + apply gowns_nil.
      + inversion Hs; subst. now apply gowns_single.
      + inversion Hs as [|? ? Ha Hs']; subst. inversion Hs' as [|? ? Hb _]; subst.
        change [a; b] with ([a] ++ [b]). apply gowns_merge; now apply gowns_single.
      + set (l := a :: b :: c :: T) in *.
        assert (Hlen : (2 <= length l)%nat) by (cbn; lia).
        destruct (div2_lt _ Hlen) as [H1 H2].
        rewrite <- (firstn_skipn (Nat.div2 (length l)) l) at 1.
        apply gowns_merge; apply IH.
        * rewrite firstn_length. lia.
        * rewrite <- (firstn_skipn (Nat.div2 (length l)) l) in Hs. now apply Forall_app in Hs as [Hs _].
        * rewrite skipn_length. lia.
        * rewrite <- (firstn_skipn (Nat.div2 (length l)) l) in Hs. now apply Forall_app in Hs as [_ Hs].
  Qed.

  Theorem gmtree_owns srcs : Forall gsorted srcs -> gowns srcs (mtree cmp srcs).
  Proof. intro H. apply gmtree_fuel_owns; [lia | exact H]. Qed.
End GenericMerge.

(** * Reverse iteration: the merged stream backwards is the forward stream reversed *)
Definition rcmp' (a b : rec) : comparison := rcmp b a.
Lemma rcmp'_eq x y : rcmp' x y = Eq <-> r_key x = r_key y /\ r_ver x = r_ver y.
Proof. unfold rcmp'. rewrite rcmp_eq. intuition. Qed.
Lemma rcmp'_anti x y : rcmp' y x = CompOpp (rcmp' x y).
Proof. unfold rcmp', rcmp. apply kcmp_antisym. Qed.
Lemma rcmp'_trans x y z : rcmp' x y = Lt -> rcmp' y z = Lt -> rcmp' x z = Lt.
Proof. unfold rcmp'. intros H1 H2. exact (rlt_trans _ _ _ H2 H1). Qed.

Definition rsorted := gsorted rcmp'.

Lemma rev_rsorted l : sorted l -> rsorted (rev l).
Proof.
  induction l as [|x l IH]; intro Hs; cbn [rev]; [constructor|].
  apply sorted_cons_inv in Hs as [Hs Hf]. apply ssorted_app; [now apply IH | repeat constructor|].
  intros a b Ha [<-|[]]. apply in_rev in Ha. rewrite Forall_forall in Hf. unfold glt, rcmp'. now apply Hf.
Qed.

Lemma filter_rev_eq {A} (f : A -> bool) l : filter f (rev l) = rev (filter f l).
Proof.
  induction l as [|x l IH]; [reflexivity|]. cbn [rev filter]. rewrite filter_app, IH. cbn [filter].
  destruct (f x); cbn [rev]; [reflexivity | now rewrite app_nil_r].
Qed.

Lemma rsorted_filter f l : rsorted l -> rsorted (filter f l).
Proof. apply ssorted_filter. Qed.

Lemma find_rev_sorted x a : sorted a -> find (ik_eqb x) (rev a) = find (ik_eqb x) a.
Proof.
  intro Hs. destruct (find (ik_eqb x) a) as [y|] eqn:E.
  - apply find_some in E as [Hy He]. destruct (find (ik_eqb x) (rev a)) as [z|] eqn:E2.
    + apply find_some in E2 as [Hz Hze]. apply in_rev in Hz. f_equal.
      apply ik_eqb_spec in He as [K1 V1]. apply ik_eqb_spec in Hze as [K2 V2].
      apply (sorted_unique a); auto; congruence.
    + pose proof (find_none _ _ E2 y (proj1 (in_rev a y) Hy)). congruence.
  - destruct (find (ik_eqb x) (rev a)) as [z|] eqn:E2; [|reflexivity].
    apply find_some in E2 as [Hz Hze]. apply in_rev in Hz.
    pose proof (find_none _ _ E z Hz). congruence.
Qed.

Lemma owner_rev x srcs : Forall sorted srcs -> owner x (map (@rev rec) srcs) = owner x srcs.
Proof.
  induction 1 as [|a T Ha HT IH]; cbn [map owner]; [reflexivity|]. now rewrite (find_rev_sorted x a Ha), IH.
Qed.

Lemma txn_stream_rev s readTs :
  iter_inv s -> txn_stream current s true readTs [] PRewind = rev (filter (visible readTs) (fstream s)).
Proof.
  intro Hi. unfold txn_stream. cbn [app dcmp lsm_pos].
  assert (Hsrc : Forall sorted (lsm_sources current s)) by (apply lsm_sources_sorted, Hi).
  set (srcs := lsm_sources current s) in *.
  assert (Hsrc' : Forall rsorted (map (fun l => filter (visible readTs) (rev l)) srcs)).
  { apply Forall_forall. intros l Hl. apply in_map_iff in Hl as (a & <- & Ha).
    apply rsorted_filter, rev_rsorted. rewrite Forall_forall in Hsrc. auto. }
  change (fun a b : rec => rcmp b a) with rcmp'.
  destruct (gmtree_owns rcmp' rcmp'_eq rcmp'_anti rcmp'_trans _ Hsrc') as [Hs1 Hm1].
  destruct (mtree_owns _ Hsrc) as [Hs2 Hm2].
  apply (ssorted_ext (glt rcmp')); [apply glt_irrefl; exact rcmp'_eq | exact rcmp'_trans | exact Hs1 | |].
  - rewrite <- filter_rev_eq. apply rsorted_filter, rev_rsorted. exact Hs2.
  - intro x. rewrite Hm1, <- in_rev, filter_In. fold (fstream s). unfold fstream. fold srcs. rewrite Hm2.
    replace (map (fun l => filter (visible readTs) (rev l)) srcs) with (map (filter (visible readTs)) (map (@rev rec) srcs))
      by (rewrite map_map; reflexivity).
    rewrite (owner_filter x (visible readTs) _ (visible_ik readTs x)), (owner_rev x srcs Hsrc).
    destruct (visible readTs x); split; try tauto; try discriminate. intros [_ H]. discriminate.
Qed.

(** * Next* backwards *)
Lemma judge_rev now readTs o last x cf u :
  o_rev o = true -> r_ver x <= readTs -> split_base (r_key x) = (cf, u) ->
  judge current now readTs o last x =
    if negb (cf =? cf_default) then VSkip last
    else if nonempty (o_lower o) && bytes_ltb u (o_lower o) then VStop
    else if nonempty (o_upper o) && bytes_leb (o_upper o) u then VSkip last
    else if (0 <? o_since o) && (r_ver x <=? o_since o) then VSkip last
    else if nonempty (o_prefix o) && negb (if o_pik o then bytes_eqb u (o_prefix o) else is_prefix (o_prefix o) u) then VSkip last
    else if negb (o_all o) && nonempty last && bytes_eqb last u then VSkip last
    else if deadb now x then VSkip last
    else VEmit.
Proof.
  intros Hr Hv Hs. unfold judge. rewrite Hs, Hr. cbn [current fix_txn_cf fix_tomb_last negb andb].
  assert (readTs <? r_ver x = false) as -> by (apply N.ltb_ge; exact Hv). rewrite !andb_false_r. reflexivity.
Qed.

(** strictly descending base keys: one record per key *)
Definition kdesc (l : list rec) : Prop := StronglySorted (fun a b => bytes_cmp (r_key b) (r_key a) = Lt) l.

Definition linv (o : topts) (last : bytes) (l : list rec) : Prop :=
  o_all o = true \/ last = [] \/ forall y, In y l -> r_key y <> enc_cf_key 0 last.

Lemma trun_rev now readTs o :
  o_rev o = true ->
  forall l last, rsorted l -> (o_all o = true \/ kdesc l) ->
    Forall (fun x => wf_key x = true) l -> Forall (fun x => r_ver x <= readTs) l -> linv o last l ->
    trun current now readTs o last l = map mk_item (filter (good now o) l).
Proof.
  intros Hr. induction l as [|x l IH]; intros last Hs Hk Hw Hv Hi; [reflexivity|].
  inversion Hw as [|? ? Hwx Hwl]; subst. inversion Hv as [|? ? Hvx Hvl]; subst.
  pose proof (gsorted_cons_inv rcmp' _ _ Hs) as [Hsl Hf].
  assert (Hk' : o_all o = true \/ kdesc l).
  { destruct Hk as [Hk|Hk]; [now left | right]. now inversion Hk. }
  assert (Hi' : linv o last l).
  { destruct Hi as [Hi|[Hi|Hi]]; [now left | right; now left | right; right]. intros y Hy. apply Hi. now right. }
  destruct (wf_key_enc x Hwx) as (cf & u & Hsp & Hkx & _ & Hu).
  cbn [trun filter]. rewrite (judge_rev now readTs o last x cf u Hr Hvx Hsp).
  assert (Hg : good now o x =
               (cf =? cf_default)
               && negb (nonempty (o_lower o) && bytes_ltb u (o_lower o))
               && negb (nonempty (o_upper o) && bytes_leb (o_upper o) u)
               && negb (nonempty (o_prefix o) && negb (if o_pik o then bytes_eqb u (o_prefix o) else is_prefix (o_prefix o) u))
               && negb ((0 <? o_since o) && (r_ver x <=? o_since o)) && negb (deadb now x))
    by (unfold good, keyfilt, since_ok; now rewrite Hsp).
  rewrite Hg.
  destruct (cf =? cf_default) eqn:Ecf; cbn [negb andb]; [|now apply IH].
  apply N.eqb_eq in Ecf. subst cf.
  destruct (nonempty (o_lower o) && bytes_ltb u (o_lower o)) eqn:Elo; cbn [negb andb].
  { (* below the lower bound: so is everything that follows *)
    rewrite filter_nil; [reflexivity|]. intros y Hy.
    rewrite Forall_forall in Hwl. destruct (wf_key_enc y (Hwl y Hy)) as (cfy & uy & Hspy & Hky & _ & _).
    unfold good, keyfilt. rewrite Hspy. destruct (cfy =? cf_default) eqn:Ey; [|reflexivity].
    apply N.eqb_eq in Ey. subst cfy. apply andb_true_iff in Elo as [Hne Hlt]. rewrite Hne.
    assert (Hyx : bytes_leb uy u = true).
    { rewrite Forall_forall in Hf. specialize (Hf y Hy). unfold glt, rcmp' in Hf.
      pose proof (rlt_key_le _ _ Hf) as H. rewrite Hkx, Hky in H. unfold bytes_leb in *. now rewrite enc0_cmp in H. }
    rewrite (bytes_leb_ltb_trans _ _ _ Hyx Hlt). cbn [negb andb]. reflexivity. }
  destruct (nonempty (o_upper o) && bytes_leb (o_upper o) u) eqn:Eup; cbn [negb andb]; [now apply IH|].
  destruct ((0 <? o_since o) && (r_ver x <=? o_since o)) eqn:Esi.
  { rewrite andb_false_r. cbn [negb andb]. now apply IH. }
  destruct (nonempty (o_prefix o) && negb (if o_pik o then bytes_eqb u (o_prefix o) else is_prefix (o_prefix o) u)) eqn:Epf;
    cbn [negb andb]; [now apply IH|].
  destruct (negb (o_all o) && nonempty last && bytes_eqb last u) eqn:Elk.
  { exfalso. apply andb_true_iff in Elk as [Elk Hlu]. apply andb_true_iff in Elk as [Hna Hne].
    apply bytes_eqb_eq in Hlu. subst last. apply negb_true_iff in Hna.
    destruct Hi as [Hi|[Hi|Hi]]; [congruence | subst; discriminate|]. apply (Hi x (or_introl eq_refl)). exact Hkx. }
  destruct (deadb now x); cbn [negb map]; [now apply IH|].
  rewrite Hsp. cbn [snd]. f_equal. apply IH; auto.
  destruct Hk as [Hk|Hk]; [now left | right; right].
  inversion Hk as [|? ? _ Hall]; subst. rewrite Forall_forall in Hall. intros y Hy E.
  specialize (Hall y Hy). rewrite E, Hkx in Hall. change (enc_cf_key 0 u) with (enc_cf_key cf_default u) in Hall. rewrite bytes_cmp_refl in Hall. discriminate.
Qed.

(** * Reverse scans *)
Definition fwd (o : topts) : topts :=
  {| o_rev := false; o_all := o_all o; o_keyonly := o_keyonly o; o_pik := o_pik o; o_prefix := o_prefix o;
     o_since := o_since o; o_lower := o_lower o; o_upper := o_upper o |}.

Lemma good_fwd now o x : good now (fwd o) x = good now o x.
Proof. reflexivity. Qed.

Lemma spec_scan_rev now ws pw readTs o :
  o_rev o = true ->
  spec_scan now ws pw readTs (sopts_of o None) = rev (spec_scan now ws pw readTs (sopts_of (fwd o) None)).
Proof. intro Hr. unfold spec_scan. cbn [sopts_of so_rev fwd o_rev]. rewrite Hr. reflexivity. Qed.

Lemma rev_T_facts s ws readTs :
  iter_inv s -> content_ok s ws -> (forall w, In w ws -> wf_key w = true) ->
  let T := filter (visible readTs) (fstream s) in
  sorted T /\ Forall (fun x => wf_key x = true) T /\ Forall (fun x => r_ver x <= readTs) T.
Proof.
  intros Hi Hc Hw T. split; [apply sorted_filter, fstream_sorted, Hi|]. split; apply Forall_forall; intros y Hy;
    unfold T in Hy; apply filter_In in Hy as [Hy Hv].
  - apply Hw, (proj1 Hc). now apply fstream_sound.
  - unfold visible in Hv. now apply N.leb_le.
Qed.

Theorem txn_scan_rev_all now s ws readTs o :
  iter_inv s -> content_ok s ws -> seq_functional ws -> (forall w, In w ws -> wf_key w = true) ->
  o_rev o = true -> o_all o = true ->
  map item_sitem (txn_list current now s readTs [] o ARewind) = spec_scan now ws [] readTs (sopts_of o None).
Proof.
  intros Hi Hc Hf Hw Hr Ha.
  destruct (rev_T_facts s ws readTs Hi Hc Hw) as (HsT & HwT & HvT).
  set (T := filter (visible readTs) (fstream s)) in *.
  pose proof (txn_scan_fwd_all now s ws readTs (fwd o) Hi Hc Hf Hw eq_refl Ha) as Hfwd.
  assert (Hl1 : txn_list current now s readTs [] (fwd o) ARewind = map mk_item (filter (good now o) T)).
  { unfold txn_list. cbn [fwd o_rev]. rewrite collect_trun, (txn_stream_fwd s readTs Hi). fold T.
    rewrite (trun_all now readTs (fwd o) eq_refl Ha T []); auto. }
  assert (Hl2 : txn_list current now s readTs [] o ARewind = map mk_item (filter (good now o) (rev T))).
  { unfold txn_list. rewrite Hr, collect_trun, (txn_stream_rev s readTs Hi). fold T.
    apply trun_rev; auto.
    - now apply rev_rsorted.
    - apply Forall_rev. exact HwT.
    - apply Forall_rev. exact HvT.
    - now left. }
  rewrite (spec_scan_rev now ws [] readTs o Hr), <- Hfwd, Hl1, Hl2, filter_rev_eq, !map_rev. reflexivity.
Qed.

(** Without AllVersions (finding C06-F9): correct when every key has a single visible version. *)
Lemma no_repeat_kasc l : sorted l -> no_repeat l = true ->
  StronglySorted (fun a b => bytes_cmp (r_key a) (r_key b) = Lt) l.
Proof.
  induction l as [|x l IH]; intros Hs Hn; [constructor|].
  pose proof (sorted_cons_inv _ _ Hs) as [Hsl Hf]. rewrite Forall_forall in Hf.
  assert (Hn' : no_repeat l = true).
  { destruct l as [|y l']; [reflexivity|]. cbn [no_repeat] in Hn. now apply andb_true_iff in Hn as [_ Hn]. }
  specialize (IH Hsl Hn'). constructor; [exact IH|].
  destruct l as [|y l']; [constructor|]. cbn [no_repeat] in Hn. apply andb_true_iff in Hn as [Hxy _].
  apply negb_true_iff, bytes_eqb_neq in Hxy.
  assert (Hlt : bytes_cmp (r_key x) (r_key y) = Lt).
  { pose proof (Hf y (or_introl eq_refl)) as H. unfold rlt, rcmp in H. apply kcmp_lt in H as [H|[H _]]; [exact H | contradiction]. }
  constructor; [exact Hlt|]. inversion IH as [|? ? _ Hall]; subst.
  eapply Forall_impl; [|exact Hall]. intros a Ha. eapply bytes_cmp_lt_trans; eauto.
Qed.

Lemma kdesc_rev l : StronglySorted (fun a b => bytes_cmp (r_key a) (r_key b) = Lt) l -> kdesc (rev l).
Proof.
  induction 1 as [|x l Hs IH Hf]; cbn [rev]; [constructor|].
  apply ssorted_app; [exact IH | repeat constructor|].
  intros a b Ha [<-|[]]. apply in_rev in Ha. rewrite Forall_forall in Hf. now apply Hf.
Qed.

Theorem txn_scan_rev_partial now s ws readTs o :
  iter_inv s -> content_ok s ws -> seq_functional ws -> (forall w, In w ws -> wf_key w = true) ->
  no_repeat (filter (visible readTs) (fstream s)) = true ->
  o_rev o = true -> o_all o = false ->
  map item_sitem (txn_list current now s readTs [] o ARewind) = spec_scan now ws [] readTs (sopts_of o None).
Proof.
  intros Hi Hc Hf Hw Hn Hr Ha.
  destruct (rev_T_facts s ws readTs Hi Hc Hw) as (HsT & HwT & HvT).
  set (T := filter (visible readTs) (fstream s)) in *.
  destruct (txn_scan_fwd now s ws readTs (fwd o) Hi Hc Hf Hw eq_refl Ha) as [Hfwd _].
  assert (Hl1 : txn_list current now s readTs [] (fwd o) ARewind = map mk_item (filter (good now o) T)).
  { unfold txn_list. cbn [fwd o_rev]. rewrite collect_trun, (txn_stream_fwd s readTs Hi). fold T.
    rewrite (trun_pick now readTs (fwd o) eq_refl Ha T [] None); auto; [|reflexivity].
    rewrite pick_filter; [reflexivity | left; reflexivity | exact Hn]. }
  assert (Hl2 : txn_list current now s readTs [] o ARewind = map mk_item (filter (good now o) (rev T))).
  { unfold txn_list. rewrite Hr, collect_trun, (txn_stream_rev s readTs Hi). fold T.
    apply trun_rev; auto.
    - now apply rev_rsorted.
    - right. apply kdesc_rev. now apply no_repeat_kasc.
    - apply Forall_rev. exact HwT.
    - apply Forall_rev. exact HvT.
    - right. now left. }
  rewrite (spec_scan_rev now ws [] readTs o Hr), <- Hfwd, Hl1, Hl2, filter_rev_eq, !map_rev. reflexivity.
Qed.

(** * Forward Seek = Rewind with the lower bound raised to the (clamped) target *)
Lemma before_mono k v x y : before false k v x = false -> rlt x y -> before false k v y = false.
Proof.
  unfold before. intros Hx Hlt. destruct (kcmp (r_key x) (r_ver x) k v) eqn:E; try discriminate.
  - apply kcmp_eq in E as [<- <-]. unfold rlt, rcmp in Hlt. rewrite kcmp_antisym, Hlt. reflexivity.
  - rewrite kcmp_antisym in E. destruct (kcmp k v (r_key x) (r_ver x)) eqn:E2; try discriminate.
    pose proof (kcmp_lt_trans _ _ _ _ _ _ E2 Hlt) as H. rewrite kcmp_antisym, H. reflexivity.
Qed.

Lemma drop_while_before k v l :
  sorted l -> drop_while (before false k v) l = filter (fun x => negb (before false k v x)) l.
Proof.
  induction l as [|x l IH]; intro Hs; [reflexivity|]. cbn [drop_while filter].
  pose proof (sorted_cons_inv _ _ Hs) as [Hsl Hf]. destruct (before false k v x) eqn:E; cbn [negb]; [now apply IH|].
  f_equal. symmetry. apply filter_all. intros y Hy. rewrite Forall_forall in Hf.
  now rewrite (before_mono k v x y E (Hf y Hy)).
Qed.

Lemma before_ik k v x y : ik_eqb x y = true -> negb (before false k v y) = negb (before false k v x).
Proof. intro H. apply ik_eqb_spec in H as [Hk Hv]. unfold before. now rewrite Hk, Hv. Qed.

Lemma txn_stream_seek s readTs k v :
  iter_inv s ->
  txn_stream current s false readTs [] (PSeek k v)
  = filter (fun x => negb (before false k v x)) (filter (visible readTs) (fstream s)).
Proof.
  intro Hi. unfold txn_stream. cbn [app dcmp lsm_pos].
  assert (Hsrc : Forall sorted (lsm_sources current s)) by (apply lsm_sources_sorted, Hi).
  set (srcs := lsm_sources current s) in *. set (nb := fun x => negb (before false k v x)).
  assert (E : map (fun l => filter (visible readTs) (drop_while (before false k v) l)) srcs
              = map (filter (visible readTs)) (map (filter nb) srcs)).
  { rewrite map_map. apply map_ext_in. intros a Ha. rewrite Forall_forall in Hsrc. now rewrite (drop_while_before k v a (Hsrc a Ha)). }
  rewrite E.
  assert (Hsrc' : Forall sorted (map (filter (visible readTs)) (map (filter nb) srcs))).
  { apply Forall_forall. intros l Hl. apply in_map_iff in Hl as (a & <- & Ha). apply in_map_iff in Ha as (a0 & <- & Ha0).
    apply sorted_filter, sorted_filter. rewrite Forall_forall in Hsrc. auto. }
  destruct (mtree_owns _ Hsrc') as [Hs1 Hm1]. destruct (mtree_owns _ Hsrc) as [Hs2 Hm2].
  apply sorted_ext; [exact Hs1 | apply sorted_filter, sorted_filter; exact Hs2|].
  intro x. rewrite Hm1, !filter_In. fold (fstream s). unfold fstream. fold srcs. rewrite Hm2.
  rewrite (owner_filter x (visible readTs) _ (visible_ik readTs x)), (owner_filter x nb _ (before_ik k v x)).
  unfold nb. destruct (visible readTs x), (negb (before false k v x)); split; try tauto; try discriminate;
    intros [[_ H] H']; discriminate.
Qed.

Definition with_lower (o : topts) (lo : bytes) : topts :=
  {| o_rev := o_rev o; o_all := o_all o; o_keyonly := o_keyonly o; o_pik := o_pik o; o_prefix := o_prefix o;
     o_since := o_since o; o_lower := lo; o_upper := o_upper o |}.

(** on records at or above [lo] (or outside the default column family) the two option records judge alike *)
Definition above (lo : bytes) (x : rec) : Prop :=
  let '(cf, u) := split_base (r_key x) in cf <> cf_default \/ bytes_ltb u lo = false.

Lemma judge_lower now readTs o lo last x :
  o_rev o = false -> above lo x -> above (o_lower o) x \/ o_lower o = [] ->
  judge current now readTs (with_lower o lo) last x = judge current now readTs o last x.
Proof.
  intros Hr Ha Hb. unfold judge, above in *. destruct (split_base (r_key x)) as [cf u].
  cbn [with_lower o_lower o_upper o_rev o_all o_since o_prefix o_pik current fix_txn_cf fix_tomb_last andb].
  destruct (cf =? cf_default) eqn:Ecf; cbn [negb]; [|reflexivity].
  apply N.eqb_eq in Ecf. destruct Ha as [Ha|Ha]; [contradiction|]. rewrite Ha, andb_false_r.
  assert (nonempty (o_lower o) && bytes_ltb u (o_lower o) = false) as ->.
  { destruct Hb as [[Hb|Hb]|Hb]; [contradiction | now rewrite Hb, andb_false_r | now rewrite Hb]. }
  reflexivity.
Qed.

Lemma trun_lower now readTs o lo :
  o_rev o = false ->
  forall l last, Forall (above lo) l -> Forall (fun x => above (o_lower o) x \/ o_lower o = []) l ->
  trun current now readTs (with_lower o lo) last l = trun current now readTs o last l.
Proof.
  intro Hr. induction l as [|x l IH]; intros last H1 H2; [reflexivity|].
  inversion H1; subst. inversion H2; subst. cbn [trun]. rewrite (judge_lower now readTs o lo last x); auto.
  destruct (judge current now readTs o last x); [now apply IH | reflexivity | f_equal; now apply IH].
Qed.

Lemma trun_seek now readTs o lo :
  o_rev o = false -> lo <> [] -> (o_lower o = [] \/ bytes_leb (o_lower o) lo = true) ->
  forall l last, sorted l -> Forall (fun x => wf_key x = true) l -> Forall (fun x => r_ver x <= readTs) l ->
  trun current now readTs o last (filter (fun x => negb (before false (enc_cf_key 0 lo) readTs x)) l)
  = trun current now readTs (with_lower o lo) last l.
Proof.
  intros Hr Hlo Hle. induction l as [|x l IH]; intros last Hs Hw Hv; [reflexivity|].
  inversion Hw as [|? ? Hwx Hwl]; subst. inversion Hv as [|? ? Hvx Hvl]; subst.
  pose proof (sorted_cons_inv _ _ Hs) as [Hsl Hf].
  destruct (wf_key_enc x Hwx) as (cf & u & Hsp & Hk & Hcf & _).
  cbn [filter]. destruct (before false (enc_cf_key 0 lo) readTs x) eqn:Eb; cbn [negb].
  - (* below the target: skipped by the raised lower bound *)
    rewrite IH; auto. cbn [trun].
    assert (Hj : judge current now readTs (with_lower o lo) last x = VSkip last).
    { unfold before in Eb. destruct (kcmp (r_key x) (r_ver x) (enc_cf_key 0 lo) readTs) eqn:E; try discriminate.
      apply kcmp_lt in E as [E|[_ E]]; [|lia].
      unfold judge. rewrite Hsp. cbn [with_lower o_lower o_rev current fix_txn_cf andb].
      destruct (cf =? cf_default) eqn:Ecf; cbn [negb]; [|reflexivity].
      apply N.eqb_eq in Ecf. subst cf. rewrite Hk in E. change (enc_cf_key cf_default u) with (enc_cf_key 0 u) in E.
      rewrite enc0_cmp in E. unfold bytes_ltb. rewrite E. destruct lo; [contradiction|]. cbn [nonempty andb]. now rewrite Hr. }
    now rewrite Hj.
  - (* at or above: nothing further is dropped, and the lower bounds no longer matter *)
    assert (Hall : filter (fun y => negb (before false (enc_cf_key 0 lo) readTs y)) l = l).
    { apply filter_all. intros y Hy. rewrite Forall_forall in Hf. now rewrite (before_mono _ _ x y Eb (Hf y Hy)). }
    rewrite Hall. symmetry. apply trun_lower; auto.
    + (* every record from here on is above lo *)
      apply Forall_forall. intros y Hy.
      assert (Eby : before false (enc_cf_key 0 lo) readTs y = false).
      { destruct Hy as [<-|Hy]; [exact Eb|]. rewrite Forall_forall in Hf. exact (before_mono _ _ x y Eb (Hf y Hy)). }
      assert (Hwy : wf_key y = true) by (destruct Hy as [<-|Hy]; [exact Hwx | rewrite Forall_forall in Hwl; auto]).
      destruct (wf_key_enc y Hwy) as (cfy & uy & Hspy & Hky & _ & _). unfold above. rewrite Hspy.
      destruct (N.eq_dec cfy cf_default) as [->|Hne]; [right | now left].
      unfold before in Eby. rewrite Hky in Eby. unfold kcmp in Eby. change (enc_cf_key cf_default uy) with (enc_cf_key 0 uy) in Eby.
      rewrite enc0_cmp in Eby. unfold bytes_ltb. destruct (bytes_cmp uy lo); [reflexivity | discriminate | reflexivity].
    + apply Forall_forall. intros y Hy. destruct Hle as [Hle|Hle]; [now right | left].
      assert (Eby : before false (enc_cf_key 0 lo) readTs y = false).
      { destruct Hy as [<-|Hy]; [exact Eb|]. rewrite Forall_forall in Hf. exact (before_mono _ _ x y Eb (Hf y Hy)). }
      assert (Hwy : wf_key y = true) by (destruct Hy as [<-|Hy]; [exact Hwx | rewrite Forall_forall in Hwl; auto]).
      destruct (wf_key_enc y Hwy) as (cfy & uy & Hspy & Hky & _ & _). unfold above. rewrite Hspy.
      destruct (N.eq_dec cfy cf_default) as [->|Hne]; [right | now left].
      unfold before in Eby. rewrite Hky in Eby. unfold kcmp in Eby. change (enc_cf_key cf_default uy) with (enc_cf_key 0 uy) in Eby.
      rewrite enc0_cmp in Eby.
      assert (Hlu : bytes_leb lo uy = true).
      { rewrite bytes_leb_ltb. unfold bytes_ltb. destruct (bytes_cmp uy lo); [reflexivity | discriminate | reflexivity]. }
      pose proof (bytes_leb_trans _ _ _ Hle Hlu) as H. rewrite bytes_leb_ltb in H. now apply negb_true_iff in H.
Qed.

Lemma key_items_ext now ws pw readTs so1 so2 u :
  so_all so1 = so_all so2 -> so_since so1 = so_since so2 ->
  key_items now ws pw readTs so1 u = key_items now ws pw readTs so2 u.
Proof. intros Ha Hs. unfold key_items, ver_ok. now rewrite Ha, Hs. Qed.

Lemma spec_scan_ext now ws pw readTs so1 so2 :
  so_rev so1 = so_rev so2 -> so_all so1 = so_all so2 -> so_since so1 = so_since so2 ->
  (forall u, key_ok so1 u = key_ok so2 u) ->
  spec_scan now ws pw readTs so1 = spec_scan now ws pw readTs so2.
Proof.
  intros Hr Ha Hs Hk. unfold spec_scan. rewrite Hr. rewrite (filter_ext _ _ Hk).
  replace (flat_map (key_items now ws pw readTs so1) (filter (key_ok so2) (ukeys ws pw)))
    with (flat_map (key_items now ws pw readTs so2) (filter (key_ok so2) (ukeys ws pw))); [reflexivity|].
  apply flat_map_ext. intro u. symmetry. now apply key_items_ext.
Qed.

Lemma spec_scan_none now ws pw readTs so :
  (forall u, key_ok so u = false) -> spec_scan now ws pw readTs so = [].
Proof.
  intro H. unfold spec_scan. rewrite (filter_nil (key_ok so)); [now destruct (so_rev so)|]. intros; apply H.
Qed.

Lemma ltb_leb_trans' a b c : bytes_ltb a b = true -> bytes_leb b c = true -> bytes_leb a c = true.
Proof.
  intros H1 H2. pose proof (bytes_ltb_leb_trans _ _ _ H1 H2) as H. rewrite bytes_leb_ltb.
  apply negb_true_iff. destruct (bytes_ltb c a) eqn:E; [|reflexivity].
  pose proof (bytes_ltb_trans _ _ _ H E) as H3. now rewrite bytes_ltb_irrefl in H3.
Qed.

Theorem txn_scan_fwd_seek now s ws readTs o key :
  iter_inv s -> content_ok s ws -> seq_functional ws -> (forall w, In w ws -> wf_key w = true) ->
  o_rev o = false -> key <> [] ->
  map item_sitem (txn_list current now s readTs [] o (ASeek key)) = spec_scan now ws [] readTs (sopts_of o (Some key)).
Proof.
  intros Hi Hc Hf Hw Hr Hkey.
  destruct (rev_T_facts s ws readTs Hi Hc Hw) as (HsT & HwT & HvT).
  set (T := filter (visible readTs) (fstream s)) in *.
  destruct key as [|b0 key0]; [contradiction|].
  unfold txn_list. rewrite Hr. cbn [negb]. set (key := b0 :: key0) in *.
  destruct (nonempty (o_upper o) && bytes_leb (o_upper o) key) eqn:Eup.
  { (* target at or above the upper bound *)
    cbn [map]. symmetry. apply spec_scan_none. intro u. unfold key_ok. cbn [sopts_of so_lower so_upper so_prefix so_pik so_target so_rev].
    rewrite Hr. apply andb_true_iff in Eup as [Hne Hle]. unfold nonemptyb. unfold nonempty in Hne. rewrite Hne. cbn [negb orb].
    destruct (bytes_leb key u) eqn:E1; [|now rewrite andb_false_r].
    pose proof (bytes_leb_trans _ _ _ Hle E1) as H. rewrite bytes_leb_ltb in H. apply negb_true_iff in H. rewrite H.
    now rewrite !andb_false_r. }
  set (key' := if nonempty (o_lower o) && bytes_ltb key (o_lower o) then o_lower o else key).
  assert (Hk'ne : key' <> []).
  { unfold key'. destruct (nonempty (o_lower o) && bytes_ltb key (o_lower o)) eqn:E; [|discriminate].
    apply andb_true_iff in E as [E _]. destruct (o_lower o); [discriminate | discriminate]. }
  assert (Hk'lo : o_lower o = [] \/ bytes_leb (o_lower o) key' = true).
  { unfold key'. destruct (nonempty (o_lower o) && bytes_ltb key (o_lower o)) eqn:E; [right; apply bytes_leb_refl|].
    destruct (o_lower o) as [|l0 lo0] eqn:El; [now left | right]. cbn [nonempty andb] in E.
    rewrite bytes_leb_ltb. now rewrite E. }
  unfold txn_base. rewrite collect_trun, (txn_stream_seek s readTs _ _ Hi). fold T.
  change (enc_cf_key cf_default key') with (enc_cf_key 0 key').
  rewrite (trun_seek now readTs o key' Hr Hk'ne Hk'lo T [] HsT HwT HvT).
  assert (Hrw : trun current now readTs (with_lower o key') [] T = txn_list current now s readTs [] (with_lower o key') ARewind).
  { unfold txn_list. cbn [with_lower o_rev]. rewrite Hr, collect_trun, (txn_stream_fwd s readTs Hi). reflexivity. }
  rewrite Hrw.
  assert (Hspec : map item_sitem (txn_list current now s readTs [] (with_lower o key') ARewind)
                  = spec_scan now ws [] readTs (sopts_of (with_lower o key') None)).
  { destruct (o_all o) eqn:Ea.
    - apply txn_scan_fwd_all; auto.
    - apply txn_scan_fwd; auto. }
  rewrite Hspec. apply spec_scan_ext; try reflexivity.
  intro u. unfold key_ok. cbn [sopts_of with_lower so_lower so_upper so_prefix so_pik so_target so_rev o_lower o_upper o_prefix o_pik o_rev].
  rewrite Hr, andb_true_r.
  assert (Hmain : (negb (nonemptyb key') || bytes_leb key' u)
                  = (negb (nonemptyb (o_lower o)) || bytes_leb (o_lower o) u) && bytes_leb key u).
  { assert (nonemptyb key' = true) as -> by (destruct key'; [contradiction | reflexivity]). cbn [negb orb].
    unfold key'. destruct (nonempty (o_lower o) && bytes_ltb key (o_lower o)) eqn:E.
    - apply andb_true_iff in E as [E1 E2]. unfold nonemptyb. unfold nonempty in E1. rewrite E1. cbn [negb orb].
      destruct (bytes_leb (o_lower o) u) eqn:E3; [|reflexivity]. now rewrite (ltb_leb_trans' _ _ _ E2 E3).
    - destruct (o_lower o) as [|l0 lo0] eqn:El; [reflexivity|]. cbn [nonempty nonemptyb andb negb orb] in *.
      destruct (bytes_leb key u) eqn:E3; [|now rewrite andb_false_r]. rewrite andb_true_r.
      assert (bytes_leb (l0 :: lo0) key = true) by (rewrite bytes_leb_ltb; now rewrite E).
      now rewrite (bytes_leb_trans _ _ _ H E3). }
  rewrite Hmain.
  generalize (negb (nonemptyb (o_lower o)) || bytes_leb (o_lower o) u), (bytes_leb key u),
    (negb (nonemptyb (o_upper o)) || bytes_ltb u (o_upper o)),
    (negb (nonemptyb (o_prefix o)) || (if o_pik o then bytes_eqb u (o_prefix o) else is_prefix (o_prefix o) u)).
  intros [] [] [] []; reflexivity.
Qed.

(** * DB.NewIterator backwards, outside the class of finding C06-F10 *)
Lemma db_stream_rev s :
  iter_inv s -> (forall y, In y (fstream s) -> r_ver y <= max_u64) ->
  db_stream current s true PRewind = rev (fstream s).
Proof.
  intros Hi Hv. rewrite <- (filter_all (visible max_u64) (fstream s)) at 1.
  2:{ intros y Hy. unfold visible. apply N.leb_le. now apply Hv. }
  rewrite <- (txn_stream_rev s max_u64 Hi). unfold db_stream, txn_stream. cbn [app]. f_equal.
  apply map_ext_in. intros a Ha. cbn [lsm_pos]. symmetry. apply filter_all. intros y Hy. apply in_rev in Hy.
  unfold visible. apply N.leb_le.
  (* every record of a source is represented in the stream by a record of the same version *)
  destruct Hi as [Hsrc Ht].
  assert (Hyall : In y (concat (lsm_sources current s))) by (apply in_concat; eauto).
  destruct (owner_exists y _ Hyall) as [z Hz].
  pose proof (owner_idem _ _ _ Hz) as Hzz. destruct (owner_some _ _ _ Hz) as [_ He]. apply ik_eqb_spec in He as [_ Hver].
  rewrite <- Hver. apply Hv.
  apply (proj2 (mtree_owns _ (lsm_sources_sorted s Hsrc)) z). exact Hzz.
Qed.

Lemma db_run_filter_rev now od : d_asc od = false ->
  forall l, rsorted l -> Forall (fun x => wf_key x = true) l ->
  Forall (fun r => fst (split_base (r_key r)) = cf_default) l ->
  db_run current now od l = map mk_item (filter (good now (topts_of_d od)) l).
Proof.
  intros Hasc. induction l as [|x l IH]; intros Hs Hw Hc; [reflexivity|].
  inversion Hw as [|? ? Hwx Hwl]; subst. inversion Hc as [|? ? Hcx Hcl]; subst.
  pose proof (gsorted_cons_inv rcmp' _ _ Hs) as [Hsl Hf].
  destruct (wf_key_enc x Hwx) as (cf & u & Hsp & Hk & _ & _). rewrite Hsp in Hcx. cbn [fst] in Hcx. subst cf.
  cbn [db_run filter]. rewrite Hsp. cbn [snd]. rewrite Hasc.
  assert (Hg : good now (topts_of_d od) x =
               negb (nonempty (d_lower od) && bytes_ltb u (d_lower od))
               && negb (nonempty (d_upper od) && bytes_leb (d_upper od) u) && negb (deadb now x)).
  { unfold good, keyfilt, since_ok. rewrite Hsp. cbn [topts_of_d o_lower o_upper o_prefix o_since o_pik nonempty andb negb].
    change (cf_default =? cf_default) with true. change (0 <? 0) with false. cbn [andb negb]. now rewrite !andb_true_r. }
  rewrite Hg.
  destruct (nonempty (d_lower od) && bytes_ltb u (d_lower od)) eqn:Elo; cbn [negb andb].
  { rewrite filter_nil; [reflexivity|]. intros y Hy.
    rewrite Forall_forall in Hwl, Hcl. destruct (wf_key_enc y (Hwl y Hy)) as (cfy & uy & Hspy & Hky & _ & _).
    pose proof (Hcl y Hy) as Hcy. rewrite Hspy in Hcy. cbn [fst] in Hcy. subst cfy.
    unfold good, keyfilt. rewrite Hspy. cbn [topts_of_d o_lower o_upper]. apply andb_true_iff in Elo as [Hne Hlt]. rewrite Hne.
    assert (Hyx : bytes_leb uy u = true).
    { rewrite Forall_forall in Hf. specialize (Hf y Hy). unfold glt, rcmp' in Hf.
      pose proof (rlt_key_le _ _ Hf) as H. rewrite Hk, Hky in H. unfold bytes_leb in *. now rewrite enc0_cmp in H. }
    rewrite (bytes_leb_ltb_trans _ _ _ Hyx Hlt). cbn [negb andb]. reflexivity. }
  destruct (nonempty (d_upper od) && bytes_leb (d_upper od) u) eqn:Eup; cbn [negb andb]; [now apply IH|].
  unfold db_dead. cbn [current fix_db_dead]. destruct (deadb now x); cbn [negb map]; [now apply IH|].
  f_equal. now apply IH.
Qed.

Theorem db_scan_rev_partial now s ws od :
  iter_inv s -> content_ok s ws -> seq_functional ws ->
  (forall w, In w ws -> wf_key w = true /\ r_ver w <= max_u64) ->
  simple_stream (fstream s) = true -> d_asc od = false ->
  map item_sitem (db_list current now s od ARewind) = spec_scan now ws [] max_u64 (sopts_of_d od None).
Proof.
  intros Hi Hc Hf Hw Hsim Hasc.
  assert (Hw1 : forall w, In w ws -> wf_key w = true) by (intros w Hw'; now apply Hw).
  assert (Hws : forall y, In y (fstream s) -> In y ws) by (intros y Hy; apply (proj1 Hc); now apply fstream_sound).
  assert (Hr : o_rev (topts_of_d od) = true) by (cbn; now rewrite Hasc).
  pose proof (fstream_sorted s Hi) as HsS.
  pose proof Hsim as Hsim'. apply andb_true_iff in Hsim' as [Hcf Hnr]. rewrite forallb_forall in Hcf.
  assert (HT : filter (visible max_u64) (fstream s) = fstream s).
  { apply filter_all. intros y Hy. unfold visible. apply N.leb_le. now apply Hw, Hws. }
  assert (Hn : no_repeat (filter (visible max_u64) (fstream s)) = true) by now rewrite HT.
  unfold sopts_of_d. rewrite <- (txn_scan_rev_partial now s ws max_u64 (topts_of_d od) Hi Hc Hf Hw1 Hn Hr eq_refl). f_equal.
  unfold db_list, txn_list. rewrite Hr, Hasc. cbn [negb].
  rewrite collect_trun, (txn_stream_rev s max_u64 Hi), HT, (db_stream_rev s Hi).
  2:{ intros y Hy. now apply Hw, Hws. }
  rewrite (trun_rev now max_u64 (topts_of_d od) Hr (rev (fstream s)) []).
  - apply db_run_filter_rev; auto.
    + now apply rev_rsorted.
    + apply Forall_rev, Forall_forall. intros y Hy. now apply Hw1, Hws.
    + apply Forall_rev, Forall_forall. intros y Hy. apply N.eqb_eq. now apply Hcf.
  - now apply rev_rsorted.
  - right. apply kdesc_rev. now apply no_repeat_kasc.
  - apply Forall_rev, Forall_forall. intros y Hy. now apply Hw1, Hws.
  - apply Forall_rev, Forall_forall. intros y Hy. now apply Hw, Hws.
  - right. now left.
Qed.

(** * DB.NewIterator forward Seek, outside the class of finding C06-F10 *)
Lemma kasc_no_repeat l :
  StronglySorted (fun a b => bytes_cmp (r_key a) (r_key b) = Lt) l -> no_repeat l = true.
Proof.
  induction 1 as [|x l Hs IH Hf]; [reflexivity|]. destruct l as [|y l']; [reflexivity|].
  change (no_repeat (x :: y :: l')) with (negb (bytes_eqb (r_key x) (r_key y)) && no_repeat (y :: l')).
  rewrite IH, andb_true_r. apply negb_true_iff, bytes_eqb_neq. intro E.
  inversion Hf as [|? ? Hxy _]; subst. rewrite E, bytes_cmp_refl in Hxy. discriminate.
Qed.

Lemma simple_filter f l : sorted l -> no_repeat l = true -> no_repeat (filter f l) = true.
Proof. intros Hs Hn. apply kasc_no_repeat, ssorted_filter. now apply no_repeat_kasc. Qed.

Lemma db_stream_seek s k :
  iter_inv s -> (forall y, In y (all_recs (tiers_of s)) -> r_ver y <= max_u64) ->
  db_stream current s false (PSeek k max_u64) = txn_stream current s false max_u64 [] (PSeek k max_u64).
Proof.
  intros Hi Hv. unfold db_stream, txn_stream. cbn [app]. f_equal. apply map_ext_in. intros a Ha.
  symmetry. apply filter_all. intros y Hy. unfold visible. apply N.leb_le.
  assert (Hya : In y a).
  { cbn [lsm_pos] in Hy. clear - Hy. induction a as [|z a IH]; [contradiction|]. cbn [drop_while] in Hy.
    destruct (before false k max_u64 z); [right; now apply IH | exact Hy]. }
  destruct Hi as [Hsrc Ht].
  assert (Hyall : In y (concat (lsm_sources current s))) by (apply in_concat; eauto).
  destruct (owner_exists y _ Hyall) as [z Hz]. rewrite owner_sources in Hz.
  destruct (owner_some _ _ _ Hz) as [Hzin He]. apply ik_eqb_spec in He as [_ Hver].
  rewrite <- Hver. now apply Hv.
Qed.

Theorem db_scan_fwd_seek_partial now s ws od key :
  iter_inv s -> content_ok s ws -> seq_functional ws ->
  (forall w, In w ws -> wf_key w = true /\ r_ver w <= max_u64) ->
  simple_stream (fstream s) = true -> d_asc od = true -> key <> [] ->
  map item_sitem (db_list current now s od (ASeek key)) = spec_scan now ws [] max_u64 (sopts_of_d od (Some key)).
Proof.
  intros Hi Hc Hf Hw Hsim Hasc Hkey.
  assert (Hw1 : forall w, In w ws -> wf_key w = true) by (intros w Hw'; now apply Hw).
  assert (Hws : forall y, In y (fstream s) -> In y ws) by (intros y Hy; apply (proj1 Hc); now apply fstream_sound).
  assert (Hr : o_rev (topts_of_d od) = false) by (cbn; now rewrite Hasc).
  unfold sopts_of_d. rewrite <- (txn_scan_fwd_seek now s ws max_u64 (topts_of_d od) key Hi Hc Hf Hw1 Hr Hkey). f_equal.
  pose proof (fstream_sorted s Hi) as HsS.
  apply andb_true_iff in Hsim as [Hcf Hnr]. rewrite forallb_forall in Hcf.
  assert (HT : filter (visible max_u64) (fstream s) = fstream s).
  { apply filter_all. intros y Hy. unfold visible. apply N.leb_le. now apply Hw, Hws. }
  destruct key as [|b0 key0]; [contradiction|].
  unfold db_list, txn_list. rewrite Hr, Hasc. cbn [negb topts_of_d o_upper o_lower].
  destruct (nonempty (d_upper od) && bytes_leb (d_upper od) (b0 :: key0)); [reflexivity|].
  set (key' := if nonempty (d_lower od) && bytes_ltb (b0 :: key0) (d_lower od) then d_lower od else b0 :: key0).
  unfold db_base, txn_base. rewrite (db_stream_seek s _ Hi).
  2:{ intros y Hy. apply Hw. now apply (proj1 Hc). }
  rewrite collect_trun, (txn_stream_seek s max_u64 _ _ Hi), HT.
  set (nb := fun x => negb (before false (enc_cf_key cf_default key') max_u64 x)).
  assert (Hsub : forall y, In y (filter nb (fstream s)) -> In y (fstream s)) by (intros y Hy; now apply filter_In in Hy).
  rewrite (trun_pick now max_u64 (topts_of_d od) Hr eq_refl (filter nb (fstream s)) [] None).
  - rewrite pick_filter; [|left; reflexivity | now apply simple_filter].
    apply db_run_filter; auto.
    + now apply sorted_filter.
    + apply Forall_forall. intros y Hy. now apply Hw1, Hws, Hsub.
    + apply Forall_forall. intros y Hy. apply N.eqb_eq. now apply Hcf, Hsub.
  - cbn [psorted]. now apply sorted_filter.
  - apply Forall_forall. intros y Hy. now apply Hw1, Hws, Hsub.
  - apply Forall_forall. intros y Hy. now apply Hw, Hws, Hsub.
  - reflexivity.
Qed.

(** * The specification as a relation *)
(** proofs *)
Lemma ukeys_in_gen ws pw u : In u (ukeys ws pw) <-> exists w, In w (ws ++ pw) /\ default_ukey (r_key w) = Some u.
Proof.
  unfold ukeys. rewrite key_set_in, opt_list_in, in_map_iff. split.
  - intros (w & E & Hw). eauto.
  - intros (w & Hw & E). eauto.
Qed.

Lemma default_ukey_sbase u : default_ukey (sbase u) = Some u.
Proof. reflexivity. Qed.

Lemma view_key ws pw readTs bk x : view ws pw readTs bk = Some x -> r_key x = bk /\ In x (ws ++ pw).
Proof.
  unfold view, view_at. rewrite N.eqb_refl. destruct (pending_of pw bk) as [p|] eqn:E.
  - intro H. injection H as <-. unfold pending_of in E. apply find_some in E as [Hin Hk].
    apply bytes_eqb_eq in Hk. split; [exact Hk | apply in_or_app; now right].
  - intro H. destruct (latest_at_key _ _ _ _ H) as [Hk Hin]. split; [exact Hk | apply in_or_app; now left].
Qed.

Lemma key_items_in now ws pw readTs so u i :
  so_all so = false ->
  (In i (key_items now ws pw readTs so u) <->
   exists x, view ws pw readTs (sbase u) = Some x /\ live now x = true /\ ver_ok so (r_ver x) = true /\ i = to_item u x).
Proof.
  intro Ha. unfold key_items. rewrite Ha. destruct (view ws pw readTs (sbase u)) as [x|].
  - destruct (live now x && ver_ok so (r_ver x)) eqn:E.
    + apply andb_true_iff in E as [E1 E2]. split.
      * intros [<-|[]]. exists x. auto.
      * intros (x' & Hx & _ & _ & ->). injection Hx as <-. now left.
    + split; [intros []|]. intros (x' & Hx & H1 & H2 & _). injection Hx as <-. rewrite H1, H2 in E. discriminate.
  - split; [intros [] | intros (x' & Hx & _); discriminate].
Qed.

Lemma key_items_keys now ws pw readTs so u i : In i (key_items now ws pw readTs so u) -> so_all so = false -> s_key i = u.
Proof. intros Hi Ha. apply (key_items_in now ws pw readTs so u i Ha) in Hi as (x & _ & _ & _ & ->). reflexivity. Qed.

Lemma flat_map_items_sorted now ws pw readTs so ks :
  so_all so = false -> StronglySorted blt ks ->
  StronglySorted (key_order false) (flat_map (key_items now ws pw readTs so) ks).
Proof.
  intros Ha Hs. induction Hs as [|u ks Hs IH Hf]; cbn [flat_map]; [constructor|].
  apply ssorted_app; [|exact IH|].
  - unfold key_items. rewrite Ha. destruct (view ws pw readTs (sbase u)) as [x|]; [|constructor].
    destruct (live now x && ver_ok so (r_ver x)); repeat constructor.
  - intros a b Hia Hib. apply in_flat_map in Hib as (u' & Hu' & Hib).
    unfold key_order. rewrite (key_items_keys _ _ _ _ _ _ _ Hia Ha), (key_items_keys _ _ _ _ _ _ _ Hib Ha).
    rewrite Forall_forall in Hf. now apply Hf.
Qed.

Lemma ssorted_rev {A} (R : A -> A -> Prop) l : StronglySorted R l -> StronglySorted (fun a b => R b a) (rev l).
Proof.
  induction 1 as [|x l Hs IH Hf]; cbn [rev]; [constructor|].
  apply ssorted_app; [exact IH | repeat constructor|].
  intros a b Ha [<-|[]]. apply in_rev in Ha. rewrite Forall_forall in Hf. now apply Hf.
Qed.

Theorem spec_scan_rel now ws pw readTs so :
  so_all so = false -> scan_rel now ws pw readTs so (spec_scan now ws pw readTs so).
Proof.
  intro Ha. set (l0 := flat_map (key_items now ws pw readTs so) (filter (key_ok so) (ukeys ws pw))).
  assert (Hs0 : StronglySorted (key_order false) l0) by (apply flat_map_items_sorted; [exact Ha | apply ssorted_filter, key_set_sorted]).
  assert (Hm0 : forall i, In i l0 <-> item_visible now ws pw readTs so i).
  { intro i. unfold l0. rewrite in_flat_map. split.
    - intros (u & Hu & Hi). apply filter_In in Hu as [_ Hko].
      apply (key_items_in now ws pw readTs so u i Ha) in Hi as (x & Hv & H1 & H2 & ->).
      split; [exact Hko|]. exists x. auto.
    - intros (Hko & x & Hv & H1 & H2 & H3 & H4). exists (s_key i). split.
      + apply filter_In. split; [|exact Hko]. apply ukeys_in_gen.
        destruct (view_key _ _ _ _ _ Hv) as [Hk Hin]. exists x. split; [exact Hin|]. rewrite Hk. apply default_ukey_sbase.
      + apply (key_items_in now ws pw readTs so (s_key i) i Ha). exists x. repeat split; auto.
        destruct i; cbn in *. unfold to_item. now rewrite H3, H4. }
  unfold scan_rel, spec_scan. fold l0. destruct (so_rev so).
  - split.
    + eapply ssorted_impl; [|apply ssorted_rev; exact Hs0]. intros a b H. unfold key_order in *. cbn beta in H.
      now apply bytes_cmp_gt_lt.
    + intro i. rewrite <- in_rev. apply Hm0.
  - split; [exact Hs0 | exact Hm0].
Qed.

(** the relation determines the listing *)
Theorem scan_rel_unique now ws pw readTs so l1 l2 :
  scan_rel now ws pw readTs so l1 -> scan_rel now ws pw readTs so l2 -> l1 = l2.
Proof.
  intros [Hs1 Hm1] [Hs2 Hm2]. apply (ssorted_ext (key_order (so_rev so))); auto.
  - intros a H. unfold key_order in H. rewrite bytes_cmp_refl in H. destruct (so_rev so); discriminate.
  - intros a b c H1 H2. unfold key_order in *. destruct (so_rev so).
    + apply bytes_cmp_gt_lt in H1, H2. apply bytes_cmp_gt_lt. eapply bytes_cmp_lt_trans; eauto.
    + eapply bytes_cmp_lt_trans; eauto.
  - intro i. now rewrite Hm1, Hm2.
Qed.

Theorem scan_ok_b_rel now ws pw readTs so l :
  so_all so = false -> (scan_ok_b now ws pw readTs so l = true <-> scan_rel now ws pw readTs so l).
Proof.
  intro Ha. rewrite scan_ok_b_spec. unfold is_scan. split.
  - intros ->. now apply spec_scan_rel.
  - intro H. eapply scan_rel_unique; [exact H | now apply spec_scan_rel].
Qed.

(** * Txn.Get against the snapshot's point read *)
Lemma txn_get_spec now s ws readTs u :
  iter_inv s -> content_ok s ws -> seq_functional ws ->
  txn_get current now s readTs [] (sbase u) = spec_get now ws [] readTs u.
Proof.
  intros Hi Hc Hf.
  pose proof (get_latest s ws (sbase u) readTs (ii_src s Hi) (ii_scan s Hi) Hc Hf) as Hg.
  unfold txn_get, spec_get, view, view_at. rewrite N.eqb_refl. cbn [find pending_of current fix_get_empty negb andb]. rewrite Hg.
  destruct (latest_at ws (sbase u) readTs) as [r|] eqn:El; [|reflexivity].
  rewrite live_dead. now destruct (deadb now r).
Qed.


(** * Pending writes: the overlay of an update transaction *)

(** the selection argument of [txn_scan_fwd], for any sorted stream that represents the snapshot *)
Definition chosen_view (now : N) (ws pw : list rec) (readTs : N) (so : sopts) : list rec :=
  flat_map (fun u => match view ws pw readTs (sbase u) with
                     | Some x => if live now x && ver_ok so (r_ver x) then [x] else []
                     | None => []
                     end) (filter (key_ok so) (ukeys ws pw)).

Lemma spec_scan_chosen_view now ws pw readTs so :
  so_rev so = false -> so_all so = false ->
  spec_scan now ws pw readTs so = map (fun x => to_item (snd (split_base (r_key x))) x) (chosen_view now ws pw readTs so).
Proof.
  intros Hr Ha. unfold spec_scan, chosen_view. rewrite Hr.
  induction (filter (key_ok so) (ukeys ws pw)) as [|u ks IH]; cbn [flat_map map]; [reflexivity|].
  rewrite map_app, <- IH. f_equal. unfold key_items. rewrite Ha.
  destruct (view ws pw readTs (sbase u)) as [x|] eqn:E; [|reflexivity].
  destruct (live now x && ver_ok so (r_ver x)); [|reflexivity]. cbn [map].
  destruct (view_key _ _ _ _ _ E) as [Hk _]. rewrite Hk. unfold sbase. rewrite split_base_enc0. reflexivity.
Qed.

Lemma pick_chosen_view now ws pw readTs o T :
  o_rev o = false ->
  sorted T -> Forall (fun x => wf_key x = true) T -> Forall (fun x => r_ver x <= readTs) T ->
  (forall bk, view ws pw readTs bk = src_search bk readTs T) ->
  (forall x, In x T -> In x (ws ++ pw)) ->
  pick (good now o) None T = chosen_view now ws pw readTs (sopts_of o None).
Proof.
  intros Hr HsT HwT HvT Hview Hsub. rewrite Forall_forall in HwT, HvT.
  apply sorted_ext.
  - now apply pick_sorted.
  - unfold chosen_view. apply flat_map_keys_sorted.
    + apply ssorted_filter, key_set_sorted.
    + intros u x Hx. destruct (view ws pw readTs (sbase u)) as [z|] eqn:E; [|contradiction].
      destruct (live now z && ver_ok (sopts_of o None) (r_ver z)); [|contradiction]. destruct Hx as [<-|[]].
      now destruct (view_key _ _ _ _ _ E).
    + intro u. destruct (view ws pw readTs (sbase u)) as [z|]; [|cbn; lia].
      destruct (live now z && ver_ok (sopts_of o None) (r_ver z)); cbn; lia.
  - intro x. rewrite (pick_in (good now o) T None x HsT). unfold chosen_view. rewrite in_flat_map. split.
    + intros (Hin & Hg & _ & Hmax).
      pose proof (HwT x Hin) as Hwx. destruct (wf_key_enc x Hwx) as (cf & u & Hsp & Hk & _ & _).
      unfold good in Hg. apply andb_true_iff in Hg as [Hg Hlive]. apply andb_true_iff in Hg as [Hkf Hsi].
      assert (cf = 0) as ->.
      { unfold keyfilt in Hkf. rewrite Hsp in Hkf. destruct (cf =? cf_default) eqn:E; [now apply N.eqb_eq in E | discriminate]. }
      exists u. split.
      * apply filter_In. split; [apply ukeys_in_gen; exists x; split; [now apply Hsub|] | now rewrite <- (key_ok_filt o x u Hk Hr)].
        unfold default_ukey. unfold split_base in Hsp. destruct (decode_key_cf (r_key x)) as [[c' u'] ok] eqn:Ed.
        injection Hsp as -> ->. unfold wf_key in Hwx. rewrite Ed in Hwx. apply andb_true_iff in Hwx as [-> _]. reflexivity.
      * assert (El : view ws pw readTs (sbase u) = Some x).
        { rewrite Hview. apply src_search_char; [exact HsT|]. split; [exact Hin|]. split; [split; [exact Hk | now apply HvT]|].
          intros y Hy [Hyk _]. apply Hmax; [exact Hy | rewrite Hyk, Hk; reflexivity]. }
        rewrite El, live_dead, Hlive, (ver_since o None x), Hsi. now left.
    + intros (u & Hu & Hx). apply filter_In in Hu as [_ Hko].
      destruct (view ws pw readTs (sbase u)) as [z|] eqn:E; [|contradiction].
      destruct (live now z && ver_ok (sopts_of o None) (r_ver z)) eqn:Elv; [|contradiction]. destruct Hx as [<-|[]].
      apply andb_true_iff in Elv as [Hlive Hvo].
      rewrite Hview in E. apply (src_search_char _ _ _ _ HsT) in E as (Hin & [Hk Hv] & Hmax).
      split; [exact Hin|]. split.
      * unfold good. rewrite (key_ok_filt o z u Hk Hr), Hko, <- (ver_since o None z), Hvo, <- live_dead, Hlive. reflexivity.
      * split; [reflexivity|]. intros y Hy Hyk. apply Hmax; [exact Hy|]. split; [congruence | now apply HvT].
Qed.

(** sorting the pending writes (CompareKeys order since the repair) *)
Definition pleb (a b : rec) : bool := match rcmp a b with Gt => false | _ => true end.

Lemma pend_sorted_eq pw : pend_sorted current false pw = isort pleb pw.
Proof.
  unfold pend_sorted. f_equal.
Qed.

Lemma ins_sorted x l : sorted l -> (forall y, In y l -> rcmp x y <> Eq) -> sorted (ins pleb x l).
Proof.
  induction l as [|y l IH]; intros Hs Hne; cbn [ins]; [repeat constructor|].
  pose proof (sorted_cons_inv _ _ Hs) as [Hsl Hf]. unfold pleb at 1. destruct (rcmp x y) eqn:E.
  - exfalso. now apply (Hne y (or_introl eq_refl)).
  - constructor; [exact Hs|]. constructor; [exact E|]. eapply Forall_impl; [|exact Hf]. intros a Ha. eapply rlt_trans; eauto.
  - constructor; [apply IH; [exact Hsl | intros z Hz; apply Hne; now right]|].
    apply Forall_forall. intros z Hz. apply ins_in in Hz as [->|Hz]; [now apply rcmp_gt_rlt|].
    rewrite Forall_forall in Hf. auto.
Qed.

Lemma isort_sorted pw : NoDup (map r_key pw) -> sorted (isort pleb pw).
Proof.
  induction pw as [|x pw IH]; intro Hn; [constructor|]. rewrite isort_cons'. cbn [map] in Hn. inversion Hn as [|? ? Hx Hn']; subst.
  apply ins_sorted; [now apply IH|]. intros y Hy E. apply isort_in in Hy. apply rcmp_eq in E as [Ek _].
  apply Hx. rewrite Ek. now apply in_map.
Qed.

(** the merged stream with the pending source in front *)
Lemma pending_find pw bk p : NoDup (map r_key pw) -> In p pw -> r_key p = bk -> pending_of pw bk = Some p.
Proof.
  unfold pending_of. induction pw as [|q pw IH]; intros Hn Hp Hk; [contradiction|]. cbn [find].
  cbn [map] in Hn. inversion Hn as [|? ? Hq Hn']; subst. destruct (bytes_eqb (r_key q) (r_key p)) eqn:E.
  - apply bytes_eqb_eq in E. destruct Hp as [->|Hp]; [reflexivity|]. exfalso. apply Hq. rewrite E. now apply in_map.
  - destruct Hp as [->|Hp]; [rewrite bytes_eqb_refl in E; discriminate | now apply IH].
Qed.

Lemma pending_none pw bk : pending_of pw bk = None -> forall p, In p pw -> r_key p <> bk.
Proof.
  unfold pending_of. intros H p Hp E. pose proof (find_none _ _ H p Hp) as Hn. cbn in Hn. rewrite E, bytes_eqb_refl in Hn. discriminate.
Qed.

Theorem txn_scan_fwd_pending now s ws pw readTs o :
  iter_inv s -> content_ok s ws -> seq_functional ws -> (forall w, In w (ws ++ pw) -> wf_key w = true) ->
  pw <> [] -> NoDup (map r_key pw) -> (forall p, In p pw -> r_ver p = readTs) ->
  o_rev o = false -> o_all o = false ->
  map item_sitem (txn_list current now s readTs pw o ARewind) = spec_scan now ws pw readTs (sopts_of o None).
Proof.
  intros Hi Hc Hf Hw Hne Hnd Hpv Hr Ha.
  assert (Hmatch : forall X : list rec, match pw with [] => [] | _ :: _ => [X] end = [X])
    by (intro X; destruct pw; [contradiction | reflexivity]).
  assert (Hw1 : forall w, In w ws -> wf_key w = true) by (intros w Hw'; apply Hw, in_or_app; now left).
  destruct (rev_T_facts s ws readTs Hi Hc Hw1) as (HsT & HwT & HvT).
  set (T := filter (visible readTs) (fstream s)) in *.
  assert (Hf' : seq_functional (all_recs (tiers_of s))).
  { intros a b Ha' Hb'. apply Hf; now apply (proj1 Hc). }
  assert (Hlat : forall k, latest_at ws k readTs = src_search k readTs T).
  { intro k. unfold T. rewrite <- (txn_stream_fwd s readTs Hi).
    (* via the seek on the full stream: versions above readTs are never candidates *)
    rewrite (txn_stream_fwd s readTs Hi). fold T.
    assert (H1 : latest_at ws k readTs = src_search k readTs (fstream s)).
    { rewrite (fstream_get s k readTs Hi Hf'). symmetry. apply get_latest; auto; apply Hi. }
    rewrite H1. pose proof (fstream_sorted s Hi) as HsS.
    destruct (src_search k readTs (fstream s)) as [x|] eqn:E.
    - symmetry. apply (src_search_char _ _ _ _ HsT). apply (src_search_char _ _ _ _ HsS) in E as (Hin & [Hk Hv] & Hmax).
      split; [unfold T; apply filter_In; split; [exact Hin | unfold visible; now apply N.leb_le]|].
      split; [split; auto|]. intros y Hy Hc'. apply Hmax; [|exact Hc']. unfold T in Hy. now apply filter_In in Hy as [Hy _].
    - symmetry. destruct (src_search k readTs T) as [y|] eqn:E2; [|reflexivity]. exfalso.
      apply (src_search_char _ _ _ _ HsT) in E2 as (Hin & Hc' & _). unfold T in Hin. apply filter_In in Hin as [Hin _].
      exact (src_search_none _ _ _ HsS E y Hin Hc'). }
  set (P := isort pleb pw).
  assert (HsP : sorted P) by now apply isort_sorted.
  assert (HPin : forall x, In x P <-> In x pw) by (intro x; apply isort_in).
  (* the stream *)
  assert (Hsrc : Forall sorted (lsm_sources current s)) by (apply lsm_sources_sorted, Hi).
  set (Fs := map (fun l => filter (visible readTs) (lsm_pos false PRewind l)) (lsm_sources current s)).
  assert (HFs : Forall sorted Fs).
  { apply Forall_forall. intros l Hl. apply in_map_iff in Hl as (a & <- & Ha'). cbn [lsm_pos].
    apply sorted_filter. rewrite Forall_forall in Hsrc. auto. }
  assert (HTF : T = mtree rcmp Fs) by (unfold T; now rewrite <- (txn_stream_fwd s readTs Hi)).
  destruct (mtree_owns Fs HFs) as [_ HmT]. rewrite <- HTF in HmT.
  set (T' := mtree rcmp (P :: Fs)).
  destruct (mtree_owns (P :: Fs) (Forall_cons _ HsP HFs)) as [HsT' HmT'].
  assert (HT'in : forall x, In x T' <-> In x pw \/ (In x T /\ find (ik_eqb x) P = None)).
  { intro x. unfold T'. rewrite HmT'. cbn [owner]. destruct (find (ik_eqb x) P) as [y|] eqn:E.
    - apply find_some in E as [Hy He]. split.
      + intro H. injection H as ->. left. now apply HPin.
      + intros [Hx|[_ H]]; [|discriminate]. apply HPin in Hx. f_equal. apply ik_eqb_spec in He as [K V].
        now apply (sorted_unique P).
    - rewrite <- HmT. split; [intro H; right; now split|]. intros [Hx|[Hx _]]; [|exact Hx].
      apply HPin in Hx. pose proof (find_none _ _ E x Hx) as Hn. rewrite ik_eqb_refl in Hn. discriminate. }
  assert (Hstream : txn_stream current s false readTs pw PRewind = T').
  { unfold txn_stream. rewrite Hmatch. cbn [dcmp app]. unfold T', pend_pos. rewrite pend_sorted_eq. reflexivity. }
  assert (HvT' : Forall (fun x => r_ver x <= readTs) T').
  { apply Forall_forall. intros x Hx. apply HT'in in Hx as [Hx|[Hx _]]; [rewrite (Hpv x Hx); lia|].
    rewrite Forall_forall in HvT. auto. }
  assert (HsubT' : forall x, In x T' -> In x (ws ++ pw)).
  { intros x Hx. apply in_or_app. apply HT'in in Hx as [Hx|[Hx _]]; [now right | left].
    unfold T in Hx. apply filter_In in Hx as [Hx _]. apply (proj1 Hc). now apply fstream_sound. }
  assert (HwT' : Forall (fun x => wf_key x = true) T').
  { apply Forall_forall. intros x Hx. now apply Hw, HsubT'. }
  assert (Hview : forall bk, view ws pw readTs bk = src_search bk readTs T').
  { intro bk. unfold view, view_at. rewrite N.eqb_refl. symmetry. destruct (pending_of pw bk) as [p|] eqn:Ep.
    - unfold pending_of in Ep. apply find_some in Ep as [Hp Hk]. apply bytes_eqb_eq in Hk.
      apply (src_search_char _ _ _ _ HsT'). split; [apply HT'in; now left|]. split; [split; [exact Hk | rewrite (Hpv p Hp); lia]|].
      intros y Hy _. rewrite (Hpv p Hp). rewrite Forall_forall in HvT'. auto.
    - rewrite Hlat. pose proof (pending_none pw bk Ep) as Hnone.
      destruct (src_search bk readTs T) as [x|] eqn:E.
      + apply (src_search_char _ _ _ _ HsT'). apply (src_search_char _ _ _ _ HsT) in E as (Hin & [Hk Hv] & Hmax).
        split.
        * apply HT'in. right. split; [exact Hin|]. destruct (find (ik_eqb x) P) as [y|] eqn:Ef; [|reflexivity].
          apply find_some in Ef as [Hy He]. apply HPin in Hy. apply ik_eqb_spec in He as [K _]. exfalso.
          apply (Hnone y Hy). congruence.
        * split; [split; auto|]. intros y Hy [Hyk Hyv]. apply HT'in in Hy as [Hy|[Hy _]]; [exfalso; now apply (Hnone y Hy)|].
          apply Hmax; [exact Hy | split; auto].
      + destruct (src_search bk readTs T') as [y|] eqn:E2; [|reflexivity]. exfalso.
        apply (src_search_char _ _ _ _ HsT') in E2 as (Hin & [Hk Hv] & _).
        apply HT'in in Hin as [Hin|[Hin _]]; [now apply (Hnone y Hin)|].
        exact (src_search_none _ _ _ HsT E y Hin (conj Hk Hv)). }
  assert (Hlist : txn_list current now s readTs pw o ARewind = map mk_item (pick (good now o) None T')).
  { unfold txn_list. rewrite Hr, collect_trun, Hstream. apply trun_pick; auto. reflexivity. }
  rewrite Hlist, (pick_chosen_view now ws pw readTs o T' Hr HsT' HwT' HvT' Hview HsubT'),
    (spec_scan_chosen_view now ws pw readTs (sopts_of o None) Hr Ha), !map_map.
  apply map_ext. intro x. unfold mk_item, item_sitem, to_item. destruct (split_base (r_key x)); reflexivity.
Qed.

(** * Reverse Seek (with its fallback) *)

(** the records a reverse Seek to (k, version 0) leaves: those at or below it *)
Lemma before_rev_mono k v x y : before true k v x = false -> glt rcmp' x y -> before true k v y = false.
Proof.
  unfold before, glt, rcmp'. intros Hx Hlt. fold (rlt y x) in Hlt.
  destruct (kcmp (r_key x) (r_ver x) k v) eqn:E; try discriminate.
  - apply kcmp_eq in E as [<- <-]. unfold rlt, rcmp in Hlt. now rewrite Hlt.
  - unfold rlt, rcmp in Hlt. now rewrite (kcmp_lt_trans _ _ _ _ _ _ Hlt E).
Qed.

Lemma drop_while_before_rev k v l :
  rsorted l -> drop_while (before true k v) l = filter (fun x => negb (before true k v x)) l.
Proof.
  induction l as [|x l IH]; intro Hs; [reflexivity|]. cbn [drop_while filter].
  pose proof (gsorted_cons_inv rcmp' _ _ Hs) as [Hsl Hf]. destruct (before true k v x) eqn:E; cbn [negb]; [now apply IH|].
  f_equal. symmetry. apply filter_all. intros y Hy. rewrite Forall_forall in Hf.
  now rewrite (before_rev_mono k v x y E (Hf y Hy)).
Qed.

Lemma before_rev_ik k v x y : ik_eqb x y = true -> negb (before true k v y) = negb (before true k v x).
Proof. intro H. apply ik_eqb_spec in H as [Hk Hv]. unfold before. now rewrite Hk, Hv. Qed.

Lemma txn_stream_rseek s readTs k v :
  iter_inv s ->
  txn_stream current s true readTs [] (PSeek k v)
  = filter (fun x => negb (before true k v x)) (rev (filter (visible readTs) (fstream s))).
Proof.
  intro Hi. rewrite <- (txn_stream_rev s readTs Hi). unfold txn_stream. cbn [app dcmp lsm_pos].
  assert (Hsrc : Forall sorted (lsm_sources current s)) by (apply lsm_sources_sorted, Hi).
  set (srcs := lsm_sources current s) in *. set (nb := fun x => negb (before true k v x)).
  change (fun a b : rec => rcmp b a) with rcmp'.
  assert (E : map (fun l => filter (visible readTs) (drop_while (before true k v) (rev l))) srcs
              = map (filter nb) (map (fun l => filter (visible readTs) (rev l)) srcs)).
  { rewrite map_map. apply map_ext_in. intros a Ha. rewrite Forall_forall in Hsrc.
    rewrite (drop_while_before_rev k v (rev a) (rev_rsorted a (Hsrc a Ha))).
    fold nb. clear. induction (rev a) as [|z l IH]; [reflexivity|]. cbn [filter].
    destruct (nb z) eqn:E1, (visible readTs z) eqn:E2; cbn [filter]; rewrite ?E1, ?E2, IH; reflexivity. }
  rewrite E.
  set (Rs := map (fun l => filter (visible readTs) (rev l)) srcs).
  assert (HRs : Forall rsorted Rs).
  { apply Forall_forall. intros l Hl. apply in_map_iff in Hl as (a & <- & Ha).
    apply rsorted_filter, rev_rsorted. rewrite Forall_forall in Hsrc. auto. }
  assert (HRs' : Forall rsorted (map (filter nb) Rs)).
  { apply Forall_forall. intros l Hl. apply in_map_iff in Hl as (a & <- & Ha). apply rsorted_filter.
    rewrite Forall_forall in HRs. auto. }
  destruct (gmtree_owns rcmp' rcmp'_eq rcmp'_anti rcmp'_trans _ HRs') as [Hs1 Hm1].
  destruct (gmtree_owns rcmp' rcmp'_eq rcmp'_anti rcmp'_trans _ HRs) as [Hs2 Hm2].
  apply (ssorted_ext (glt rcmp')); [apply glt_irrefl; exact rcmp'_eq | exact rcmp'_trans | exact Hs1 | apply rsorted_filter; exact Hs2 |].
  intro x. rewrite Hm1, filter_In, Hm2, (owner_filter x nb _ (before_rev_ik k v x)).
  unfold nb. destruct (negb (before true k v x)); split; try tauto; try discriminate. intros [_ H]. discriminate.
Qed.

(** [adv] and [collect] *)
Lemma adv_some c now readTs o : forall l last it last' rest,
  adv c now readTs o last l = (Some it, last', rest) ->
  exists x, In x l /\ it = mk_item x /\ (length rest < length l)%nat.
Proof.
  induction l as [|x l IH]; intros last it last' rest H; [discriminate|].
  assert (Hadv : adv c now readTs o last (x :: l) =
            match judge c now readTs o last x with
            | VSkip l0 => adv c now readTs o l0 l
            | VStop => (None, last, l)
            | VEmit => (Some (mk_item x), snd (split_base (r_key x)), l)
            end) by reflexivity.
  rewrite Hadv in H. destruct (judge c now readTs o last x) as [l0| |].
  - destruct (IH _ _ _ _ H) as (y & Hy & E & Hl). exists y. split; [now right|]. split; [exact E | cbn [length]; lia].
  - discriminate.
  - injection H as <- <- <-. exists x. split; [now left|]. split; [reflexivity | cbn [length]; lia].
Qed.

Lemma collect_step c now readTs o last l :
  collect c now readTs o last l =
  match adv c now readTs o last l with
  | (Some it, last', rest) => it :: collect c now readTs o last' rest
  | (None, _, _) => []
  end.
Proof.
  unfold collect at 1. cbn [collect_fuel]. destruct (adv c now readTs o last l) as [[[it|] last'] rest] eqn:E; [|reflexivity].
  f_equal. destruct (adv_some _ _ _ _ _ _ _ _ _ E) as (_ & _ & _ & Hl).
  rewrite collect_fuel_trun; [|lia]. now rewrite collect_trun.
Qed.

Lemma adv_none_last c now readTs o : o_rev o = true -> forall l last last' rest,
  adv c now readTs o last l = (None, last', rest) -> last' = last.
Proof.
  intro Hr. induction l as [|x l IH]; intros last last' rest H; [now injection H as <- _|].
  assert (Hadv : adv c now readTs o last (x :: l) =
            match judge c now readTs o last x with
            | VSkip l0 => adv c now readTs o l0 l
            | VStop => (None, last, l)
            | VEmit => (Some (mk_item x), snd (split_base (r_key x)), l)
            end) by reflexivity.
  rewrite Hadv in H. destruct (judge c now readTs o last x) as [l0| |] eqn:Ej.
  - assert (l0 = last).
    { unfold judge in Ej. destruct (split_base (r_key x)) as [cf u]. rewrite Hr in Ej.
      repeat match type of Ej with
             | (if ?b then _ else _) = _ => destruct b
             end; try discriminate; try (now injection Ej as <-).
      rewrite !andb_false_r in Ej. now injection Ej as <-. }
    subst l0. now apply IH in H.
  - now injection H as <- _.
  - discriminate.
Qed.

Lemma skip_above_collect c now readTs o key : forall fuel l last,
  (length l < fuel)%nat ->
  match skip_above c now readTs o key fuel last l with
  | (Some it, last', rest) => it :: collect c now readTs o last' rest
  | (None, _, _) => []
  end = drop_while (fun it => bytes_ltb key (i_key it)) (collect c now readTs o last l).
Proof.
  induction fuel as [|f IH]; intros l last Hl; [lia|]. cbn [skip_above]. rewrite (collect_step c now readTs o last l).
  destruct (adv c now readTs o last l) as [[[it|] last'] rest] eqn:E; [|reflexivity]. cbn [drop_while].
  destruct (bytes_ltb key (i_key it)); [|reflexivity].
  apply IH. destruct (adv_some _ _ _ _ _ _ _ _ _ E) as (_ & _ & _ & Hl'). lia.
Qed.

Lemma drop_while_app_all {A} (f : A -> bool) l1 l2 :
  (forall x, In x l1 -> f x = true) -> (forall x, In x l2 -> f x = false) -> drop_while f (l1 ++ l2) = l2.
Proof.
  intros H1 H2. induction l1 as [|x l1 IH]; cbn [app drop_while].
  - destruct l2 as [|y l2]; [reflexivity|]. cbn [drop_while]. now rewrite (H2 y (or_introl eq_refl)).
  - rewrite (H1 x (or_introl eq_refl)). apply IH. intros y Hy. apply H1. now right.
Qed.

(** splitting a descending list at a key *)
Lemma rsorted_split nb l :
  rsorted l -> (forall x y, nb x = true -> glt rcmp' x y -> nb y = true) ->
  l = filter (fun x => negb (nb x)) l ++ filter nb l.
Proof.
  intros Hs Hmono. induction l as [|x l IH]; [reflexivity|]. pose proof (gsorted_cons_inv rcmp' _ _ Hs) as [Hsl Hf].
  cbn [filter]. destruct (nb x) eqn:E; cbn [negb app].
  - rewrite (filter_nil (fun y => negb (nb y)) l).
    + cbn [app]. f_equal. symmetry. apply filter_all. intros y Hy. rewrite Forall_forall in Hf. eapply Hmono; eauto.
    + intros y Hy. rewrite Forall_forall in Hf. now rewrite (Hmono x y E (Hf y Hy)).
  - f_equal. now apply IH.
Qed.

Definition le_key (key : bytes) (x : rec) : bool := negb (before true (enc_cf_key 0 key) 0 x).

Lemma le_key_spec key x u :
  r_key x = enc_cf_key 0 u -> le_key key x = bytes_leb u key.
Proof.
  intro Hk. unfold le_key, before, kcmp. rewrite Hk, enc0_cmp. unfold bytes_leb.
  destruct (bytes_cmp u key); cbn [negb]; try reflexivity. destruct (r_ver x); reflexivity.
Qed.

Theorem txn_list_rseek now s ws readTs o key :
  iter_inv s -> content_ok s ws -> (forall w, In w ws -> wf_key w = true) ->
  o_rev o = true -> key <> [] ->
  (o_all o = true \/ no_repeat (filter (visible readTs) (fstream s)) = true) ->
  txn_list current now s readTs [] o (ASeek key) =
    if nonempty (o_lower o) && bytes_ltb key (o_lower o) then []
    else let key' := if nonempty (o_upper o) && bytes_leb (o_upper o) key then o_upper o else key in
         map mk_item (filter (good now o) (filter (le_key key') (rev (filter (visible readTs) (fstream s))))).
Proof.
  intros Hi Hc Hw Hr Hkey Hcase.
  destruct (rev_T_facts s ws readTs Hi Hc Hw) as (HsT & HwT & HvT).
  set (T := filter (visible readTs) (fstream s)) in *.
  destruct key as [|b0 key0]; [contradiction|].
  unfold txn_list. rewrite Hr. cbn [negb]. set (key := b0 :: key0) in *.
  destruct (nonempty (o_lower o) && bytes_ltb key (o_lower o)); [reflexivity|].
  set (key' := if nonempty (o_upper o) && bytes_leb (o_upper o) key then o_upper o else key). cbv zeta.
  unfold txn_base. rewrite (txn_stream_rseek s readTs _ _ Hi), (txn_stream_rev s readTs Hi). fold T.
  change (fun x => negb (before true (enc_cf_key cf_default key') 0 x)) with (le_key key').
  set (R := rev T). set (R' := filter (le_key key') R).
  assert (HsR : rsorted R) by now apply rev_rsorted.
  assert (HsR' : rsorted R') by now apply rsorted_filter.
  assert (HwR : Forall (fun x => wf_key x = true) R) by now apply Forall_rev.
  assert (HvR : Forall (fun x => r_ver x <= readTs) R) by now apply Forall_rev.
  assert (HkR : o_all o = true \/ kdesc R).
  { destruct Hcase as [H|H]; [now left | right]. apply kdesc_rev. now apply no_repeat_kasc. }
  assert (Hsub : forall x, In x R' -> In x R) by (intros x Hx; now apply filter_In in Hx).
  assert (HkR' : o_all o = true \/ kdesc R').
  { destruct HkR as [H|H]; [now left | right]. now apply ssorted_filter. }
  assert (Hrun' : forall last, linv o last R' -> trun current now readTs o last R' = map mk_item (filter (good now o) R')).
  { intros last Hl. apply trun_rev; auto.
    - apply Forall_forall. intros x Hx. rewrite Forall_forall in HwR. auto.
    - apply Forall_forall. intros x Hx. rewrite Forall_forall in HvR. auto. }
  assert (Hrun : trun current now readTs o [] R = map mk_item (filter (good now o) R)).
  { apply trun_rev; auto. right. now left. }
  (* the fallback, started with an empty lastKey, yields the same listing *)
  assert (Hfb : match skip_above current now readTs o key' (S (length R)) [] R with
                | (Some it, last', rest) => it :: collect current now readTs o last' rest
                | (None, _, _) => []
                end = map mk_item (filter (good now o) R')).
  { rewrite skip_above_collect; [|lia]. rewrite collect_trun, Hrun.
    rewrite (rsorted_split (le_key key') R HsR) at 1.
    2:{ intros x y Hx Hlt. unfold le_key in *. apply negb_true_iff. apply negb_true_iff in Hx. eapply before_rev_mono; eauto. }
    rewrite filter_app, map_app. fold R'. apply drop_while_app_all.
    - intros it Hit. apply in_map_iff in Hit as (x & <- & Hx). apply filter_In in Hx as [Hx Hg]. apply filter_In in Hx as [Hx Hle].
      rewrite Forall_forall in HwR. destruct (wf_key_enc x (HwR x Hx)) as (cf & u & Hsp & Hk & _ & _).
      unfold good, keyfilt in Hg. rewrite Hsp in Hg. destruct (cf =? cf_default) eqn:Ecf; [|discriminate].
      apply N.eqb_eq in Ecf. subst cf. unfold mk_item. rewrite Hsp. cbn [i_key].
      rewrite (le_key_spec key' x u Hk) in Hle. apply negb_true_iff in Hle. rewrite bytes_leb_ltb in Hle.
      now apply negb_false_iff in Hle.
    - intros it Hit. apply in_map_iff in Hit as (x & <- & Hx). apply filter_In in Hx as [Hx Hg]. apply filter_In in Hx as [Hx Hle].
      rewrite Forall_forall in HwR. destruct (wf_key_enc x (HwR x Hx)) as (cf & u & Hsp & Hk & _ & _).
      unfold good, keyfilt in Hg. rewrite Hsp in Hg. destruct (cf =? cf_default) eqn:Ecf; [|discriminate].
      apply N.eqb_eq in Ecf. subst cf. unfold mk_item. rewrite Hsp. cbn [i_key].
      rewrite (le_key_spec key' x u Hk) in Hle. rewrite bytes_leb_ltb in Hle. now apply negb_true_iff in Hle. }
  destruct (adv current now readTs o [] R') as [[[it|] last'] rest] eqn:E.
  - destruct (adv_some _ _ _ _ _ _ _ _ _ E) as (x & Hx & -> & _).
    assert (Hle : bytes_ltb key' (i_key (mk_item x)) = false).
    { pose proof (Hsub x Hx) as HxR. apply filter_In in Hx as [_ Hle].
      rewrite Forall_forall in HwR. destruct (wf_key_enc x (HwR x HxR)) as (cf & u & Hsp & Hk & _ & _).
      (* the emitted record is in the default column family *)
      assert (cf = cf_default).
      { assert (Hj : judge current now readTs o [] x <> VSkip [] -> True) by auto.
        clear Hj. revert E. clear - Hsp Hr. revert x Hsp. generalize (@nil byte) as last0.
        induction R' as [|z l IH]; intros last0 x Hsp E; [discriminate|].
        assert (Hadv : adv current now readTs o last0 (z :: l) =
            match judge current now readTs o last0 z with
            | VSkip l0 => adv current now readTs o l0 l
            | VStop => (None, last0, l)
            | VEmit => (Some (mk_item z), snd (split_base (r_key z)), l)
            end) by reflexivity.
        rewrite Hadv in E. destruct (judge current now readTs o last0 z) as [l0| |] eqn:Ej.
        - eapply IH; eauto.
        - discriminate.
        - injection E as E1 _ _. unfold judge in Ej. unfold mk_item in E1.
          destruct (split_base (r_key z)) as [cfz uz] eqn:Ez. rewrite Hsp in E1. injection E1 as -> -> _ _.
          cbn [current fix_txn_cf andb] in Ej. destruct (cf =? cf_default) eqn:Ec; [now apply N.eqb_eq in Ec | discriminate]. }
      subst cf. unfold mk_item. rewrite Hsp. cbn [i_key].
      rewrite (le_key_spec key' x u Hk) in Hle. rewrite bytes_leb_ltb in Hle. now apply negb_true_iff in Hle. }
    rewrite Hle. rewrite <- (Hrun' []); [|right; now left]. rewrite <- collect_trun, (collect_step current now readTs o [] R'), E. reflexivity.
  - rewrite (adv_none_last current now readTs o Hr _ _ _ _ E). exact Hfb.
Qed.

(** the smallest key above [k] is [k ++ [0]] *)
Lemma ltb_snoc0 u : forall k, bytes_ltb u (k ++ [x00]) = bytes_leb u k.
Proof.
  unfold bytes_ltb, bytes_leb. induction u as [|a u IH]; intros [|b k]; cbn [app bytes_cmp]; try reflexivity.
  - change (b2n x00) with 0. destruct (N.compare (b2n a) 0) eqn:E; try reflexivity.
    + destruct u; reflexivity.
    + destruct (b2n a); discriminate E.
  - destruct (N.compare (b2n a) (b2n b)); try reflexivity. apply IH.
Qed.

Definition with_upper (o : topts) (hi : bytes) : topts :=
  {| o_rev := o_rev o; o_all := o_all o; o_keyonly := o_keyonly o; o_pik := o_pik o; o_prefix := o_prefix o;
     o_since := o_since o; o_lower := o_lower o; o_upper := hi |}.

Lemma good_le_key now o key x u :
  r_key x = enc_cf_key 0 u -> key <> [] ->
  (o_upper o = [] \/ bytes_ltb key (o_upper o) = true) ->
  good now (with_upper o (key ++ [x00])) x = le_key key x && good now o x.
Proof.
  intros Hk Hne Hup. rewrite (le_key_spec key x u Hk). unfold good, keyfilt, since_ok. rewrite Hk, split_base_enc0.
  cbn [with_upper o_lower o_upper o_prefix o_pik o_since].
  assert (nonempty (key ++ [x00]) = true) as -> by (destruct key; reflexivity). cbn [andb].
  rewrite (bytes_leb_ltb (key ++ [x00]) u), ltb_snoc0, negb_involutive.
  destruct (bytes_leb u key) eqn:E.
  - assert (nonempty (o_upper o) && bytes_leb (o_upper o) u = false) as ->.
    { destruct Hup as [->|Hup]; [reflexivity|]. rewrite bytes_leb_ltb.
      rewrite (bytes_leb_ltb_trans _ _ _ E Hup). cbn [negb]. apply andb_false_r. }
    cbn [negb andb]. reflexivity.
  - cbn [andb]. now rewrite !andb_false_r.
Qed.

Lemma rseek_spec now s ws readTs o key :
  iter_inv s -> content_ok s ws -> (forall w, In w ws -> wf_key w = true) ->
  o_rev o = true -> key <> [] ->
  (o_all o = true \/ no_repeat (filter (visible readTs) (fstream s)) = true) ->
  (forall o2, o_rev o2 = true -> o_all o2 = o_all o ->
     map item_sitem (map mk_item (filter (good now o2) (rev (filter (visible readTs) (fstream s)))))
     = spec_scan now ws [] readTs (sopts_of o2 None)) ->
  map item_sitem (txn_list current now s readTs [] o (ASeek key)) = spec_scan now ws [] readTs (sopts_of o (Some key)).
Proof.
  intros Hi Hc Hw Hr Hkey Hcase Hrw.
  rewrite (txn_list_rseek now s ws readTs o key Hi Hc Hw Hr Hkey Hcase).
  destruct (rev_T_facts s ws readTs Hi Hc Hw) as (HsT & HwT & HvT).
  set (R := rev (filter (visible readTs) (fstream s))) in *.
  assert (HwR : forall x, In x R -> wf_key x = true).
  { intros x Hx. unfold R in Hx. apply in_rev in Hx. rewrite Forall_forall in HwT. auto. }
  destruct (nonempty (o_lower o) && bytes_ltb key (o_lower o)) eqn:Elo.
  { (* target below the lower bound *)
    cbn [map]. symmetry. apply spec_scan_none. intro u. unfold key_ok. cbn [sopts_of so_lower so_upper so_prefix so_pik so_target so_rev].
    rewrite Hr. apply andb_true_iff in Elo as [Hne Hlt]. unfold nonemptyb. unfold nonempty in Hne. rewrite Hne. cbn [negb orb].
    destruct (bytes_leb u key) eqn:E1; [|now rewrite andb_false_r].
    assert (bytes_leb (o_lower o) u = false) as ->.
    { rewrite bytes_leb_ltb. now rewrite (bytes_leb_ltb_trans _ _ _ E1 Hlt). }
    reflexivity. }
  cbv zeta. destruct (nonempty (o_upper o) && bytes_leb (o_upper o) key) eqn:Eup.
  - (* clamped to the (exclusive) upper bound: the bound alone already excludes everything above *)
    apply andb_true_iff in Eup as [Hne Hle].
    assert (Hf : filter (good now o) (filter (le_key (o_upper o)) R) = filter (good now o) R).
    { clear - HwR Hne. induction R as [|x R IH]; [reflexivity|]. cbn [filter].
      assert (IH' : filter (good now o) (filter (le_key (o_upper o)) R) = filter (good now o) R)
        by (apply IH; intros y Hy; apply HwR; now right).
      destruct (le_key (o_upper o) x) eqn:El; cbn [filter]; [now rewrite IH'|]. rewrite IH'.
      destruct (wf_key_enc x (HwR x (or_introl eq_refl))) as (cf & u & Hsp & Hk & _ & _).
      unfold good, keyfilt. rewrite Hsp. destruct (cf =? cf_default) eqn:Ec; [|reflexivity].
      apply N.eqb_eq in Ec. subst cf. rewrite (le_key_spec _ x u Hk) in El. rewrite bytes_leb_ltb in El.
      apply negb_false_iff in El. rewrite Hne.
      assert (bytes_leb (o_upper o) u = true) as ->.
      { rewrite bytes_leb_ltb. apply negb_true_iff. destruct (bytes_ltb u (o_upper o)) eqn:E; [|reflexivity].
        pose proof (bytes_ltb_trans _ _ _ E El) as H. now rewrite bytes_ltb_irrefl in H. }
      cbn [negb andb]. now rewrite !andb_false_r. }
    rewrite Hf, (Hrw o Hr eq_refl). apply spec_scan_ext; try reflexivity.
    intro u. unfold key_ok. cbn [sopts_of so_lower so_upper so_prefix so_pik so_target so_rev]. rewrite Hr, andb_true_r.
    assert (Hm : (negb (nonemptyb (o_upper o)) || bytes_ltb u (o_upper o))
                 = (negb (nonemptyb (o_upper o)) || bytes_ltb u (o_upper o)) && bytes_leb u key).
    { unfold nonemptyb. unfold nonempty in Hne. rewrite Hne. cbn [negb orb].
      destruct (bytes_ltb u (o_upper o)) eqn:E; [|reflexivity].
      now rewrite (ltb_leb_trans' _ _ _ E Hle). }
    rewrite Hm at 1.
    generalize (negb (nonemptyb (o_lower o)) || bytes_leb (o_lower o) u), (bytes_leb u key),
      (negb (nonemptyb (o_upper o)) || bytes_ltb u (o_upper o)),
      (negb (nonemptyb (o_prefix o)) || (if o_pik o then bytes_eqb u (o_prefix o) else is_prefix (o_prefix o) u)).
    intros [] [] [] []; reflexivity.
  - set (o2 := with_upper o (key ++ [x00])).
    assert (Hup : o_upper o = [] \/ bytes_ltb key (o_upper o) = true).
    { destruct (o_upper o) as [|h0 hi0] eqn:Eu; [now left | right]. cbn [nonempty andb] in Eup.
      rewrite bytes_leb_ltb in Eup. now apply negb_false_iff in Eup. }
    assert (Hf : filter (good now o) (filter (le_key key) R) = filter (good now o2) R).
    { clear - HwR Hkey Hup. induction R as [|x R IH]; [reflexivity|]. cbn [filter].
      assert (IH' : filter (good now o) (filter (le_key key) R) = filter (good now o2) R)
        by (apply IH; intros y Hy; apply HwR; now right).
      destruct (wf_key_enc x (HwR x (or_introl eq_refl))) as (cf & u & Hsp & Hk & _ & _).
      destruct (N.eq_dec cf cf_default) as [->|Hne].
      + unfold o2. rewrite (good_le_key now o key x u Hk Hkey Hup).
        destruct (le_key key x); cbn [filter andb]; [now rewrite IH' | exact IH'].
      + assert (Hg : forall o', good now o' x = false).
        { intro o'. unfold good, keyfilt. rewrite Hsp. apply N.eqb_neq in Hne. now rewrite Hne. }
        rewrite (Hg o2). destruct (le_key key x); cbn [filter]; [rewrite (Hg o)|]; exact IH'. }
    rewrite Hf, (Hrw o2 Hr eq_refl). apply spec_scan_ext; try reflexivity.
    intro u. unfold key_ok. cbn [o2 with_upper sopts_of so_lower so_upper so_prefix so_pik so_target so_rev o_lower o_upper o_prefix o_pik o_rev].
    rewrite Hr, andb_true_r.
    assert (nonemptyb (key ++ [x00]) = true) as -> by (destruct key; reflexivity). cbn [negb orb]. rewrite ltb_snoc0.
    assert (Hm : bytes_leb u key = (negb (nonemptyb (o_upper o)) || bytes_ltb u (o_upper o)) && bytes_leb u key).
    { destruct (bytes_leb u key) eqn:E; [|now rewrite andb_false_r]. rewrite andb_true_r.
      destruct Hup as [->|Hup]; [reflexivity|]. now rewrite (bytes_leb_ltb_trans _ _ _ E Hup), orb_true_r. }
    rewrite Hm at 1.
    generalize (negb (nonemptyb (o_lower o)) || bytes_leb (o_lower o) u), (bytes_leb u key),
      (negb (nonemptyb (o_upper o)) || bytes_ltb u (o_upper o)),
      (negb (nonemptyb (o_prefix o)) || (if o_pik o then bytes_eqb u (o_prefix o) else is_prefix (o_prefix o) u)).
    intros [] [] [] []; reflexivity.
Qed.

Lemma rev_listing_all now s ws readTs o2 :
  iter_inv s -> content_ok s ws -> seq_functional ws -> (forall w, In w ws -> wf_key w = true) ->
  o_rev o2 = true -> o_all o2 = true ->
  map item_sitem (map mk_item (filter (good now o2) (rev (filter (visible readTs) (fstream s)))))
  = spec_scan now ws [] readTs (sopts_of o2 None).
Proof.
  intros Hi Hc Hf Hw Hr Ha. rewrite <- (txn_scan_rev_all now s ws readTs o2 Hi Hc Hf Hw Hr Ha). f_equal.
  destruct (rev_T_facts s ws readTs Hi Hc Hw) as (HsT & HwT & HvT).
  unfold txn_list. rewrite Hr, collect_trun, (txn_stream_rev s readTs Hi). symmetry.
  apply trun_rev; auto; [now apply rev_rsorted | now apply Forall_rev | now apply Forall_rev | now left].
Qed.

Lemma rev_listing_partial now s ws readTs o2 :
  iter_inv s -> content_ok s ws -> seq_functional ws -> (forall w, In w ws -> wf_key w = true) ->
  no_repeat (filter (visible readTs) (fstream s)) = true ->
  o_rev o2 = true -> o_all o2 = false ->
  map item_sitem (map mk_item (filter (good now o2) (rev (filter (visible readTs) (fstream s)))))
  = spec_scan now ws [] readTs (sopts_of o2 None).
Proof.
  intros Hi Hc Hf Hw Hn Hr Ha. rewrite <- (txn_scan_rev_partial now s ws readTs o2 Hi Hc Hf Hw Hn Hr Ha). f_equal.
  destruct (rev_T_facts s ws readTs Hi Hc Hw) as (HsT & HwT & HvT).
  unfold txn_list. rewrite Hr, collect_trun, (txn_stream_rev s readTs Hi). symmetry.
  apply trun_rev; auto; [now apply rev_rsorted | right; apply kdesc_rev; now apply no_repeat_kasc
                         | now apply Forall_rev | now apply Forall_rev | right; now left].
Qed.

Theorem txn_scan_rev_seek_all now s ws readTs o key :
  iter_inv s -> content_ok s ws -> seq_functional ws -> (forall w, In w ws -> wf_key w = true) ->
  o_rev o = true -> o_all o = true -> key <> [] ->
  map item_sitem (txn_list current now s readTs [] o (ASeek key)) = spec_scan now ws [] readTs (sopts_of o (Some key)).
Proof.
  intros Hi Hc Hf Hw Hr Ha Hkey. apply rseek_spec; auto.
  intros o2 Hr2 Ha2. apply rev_listing_all; auto. congruence.
Qed.

Theorem txn_scan_rev_seek_partial now s ws readTs o key :
  iter_inv s -> content_ok s ws -> seq_functional ws -> (forall w, In w ws -> wf_key w = true) ->
  no_repeat (filter (visible readTs) (fstream s)) = true ->
  o_rev o = true -> o_all o = false -> key <> [] ->
  map item_sitem (txn_list current now s readTs [] o (ASeek key)) = spec_scan now ws [] readTs (sopts_of o (Some key)).
Proof.
  intros Hi Hc Hf Hw Hn Hr Ha Hkey. apply rseek_spec; auto.
  intros o2 Hr2 Ha2. apply rev_listing_partial; auto. congruence.
Qed.

(** * Witnesses *)
From Coq Require Import String.
Definition mkr (k : string) (ver : N) (v : string) (meta seq : N) : rec :=
  {| r_key := sbase (of_string k); r_ver := ver; r_val := of_string v; r_meta := meta; r_exp := 0; r_seq := seq |}.
Definition mem_state (mem : list rec) (imms : list (N * list rec)) : state :=
  {| st_mem := mem; st_memid := 9; st_imms := imms; st_l0 := []; st_lvls := []; st_maxfid := 9 |}.
Definition plain_opts (rv allv : bool) : topts :=
  {| o_rev := rv; o_all := allv; o_keyonly := false; o_pik := false; o_prefix := []; o_since := 0; o_lower := []; o_upper := [] |}.

(** F8 (before the repair): commit a=1, b=2; commit delete b; the forward scan lists b. *)
Definition w_f8 : list rec := [mkr "a" 1 "1" 0 1; mkr "b" 1 "2" 0 2; mkr "b" 2 "" 1 3].
Definition s_f8 : state := mem_state [mkr "a" 1 "1" 0 1; mkr "b" 2 "" 1 3; mkr "b" 1 "2" 0 2] [].

(** F3 (before the repair): Set a 1; rotate; Set a 2; rotate: two sealed memtables, same internal key. *)
Definition w_f3 : list rec := [mkr "a" max_u64 "1" 0 1; mkr "a" max_u64 "2" 0 2].
Definition s_f3 : state := mem_state [] [(1, [mkr "a" max_u64 "1" 0 1]); (2, [mkr "a" max_u64 "2" 0 2])].

(** F9: commit a=old; commit a=new; reverse scan. *)
Definition w_f9 : list rec := [mkr "a" 1 "old" 0 1; mkr "a" 2 "new" 0 2].
Definition s_f9 : state := mem_state [mkr "a" 2 "new" 0 2; mkr "a" 1 "old" 0 1] [].

Definition dflt_dopts : dopts := {| d_asc := true; d_keyonly := false; d_lower := []; d_upper := [] |}.

Lemma f8_legacy_refuted :
  tier_inv_b s_f8 = true /\
  scan_ok_b 100 w_f8 [] 2 (sopts_of (plain_opts false false) None)
            (map item_sitem (txn_list legacy 100 s_f8 2 [] (plain_opts false false) ARewind)) = false /\
  scan_ok_b 100 w_f8 [] 2 (sopts_of (plain_opts false false) None)
            (map item_sitem (txn_list current 100 s_f8 2 [] (plain_opts false false) ARewind)) = true.
Proof. vm_compute. auto. Qed.

Lemma f3_legacy_refuted :
  tier_inv_b s_f3 = true /\
  option_map r_val (src_search (sbase (of_string "a")) max_u64 (db_stream legacy s_f3 false PRewind)) = Some (of_string "1") /\
  option_map r_val (Lsm.get s_f3 (sbase (of_string "a")) max_u64) = Some (of_string "2") /\
  option_map r_val (src_search (sbase (of_string "a")) max_u64 (db_stream current s_f3 false PRewind)) = Some (of_string "2").
Proof. vm_compute. auto. Qed.

Lemma f9_reverse_refuted :
  tier_inv_b s_f9 = true /\
  scan_ok_b 100 w_f9 [] 2 (sopts_of (plain_opts true false) None)
            (map item_sitem (txn_list current 100 s_f9 2 [] (plain_opts true false) ARewind)) = false.
Proof. vm_compute. auto. Qed.

Lemma f10_db_refuted :
  tier_inv_b s_f9 = true /\
  scan_ok_b 100 w_f9 [] max_u64 (sopts_of (plain_opts false false) None)
            (map item_sitem (db_list current 100 s_f9 dflt_dopts ARewind)) = false.
Proof. vm_compute. auto. Qed.

(** The hypotheses of the forward theorem hold on a non-trivial state. *)
Definition w_ex : list rec := [mkr "a" 1 "1" 0 1; mkr "b" 1 "2" 0 2; mkr "b" 2 "" 1 3; mkr "ab" 3 "x" 0 4; mkr "a" 3 "y" 0 5].
Definition s_ex : state :=
  {| st_mem := [mkr "a" 3 "y" 0 5; mkr "ab" 3 "x" 0 4]; st_memid := 9;
     st_imms := [(2, [mkr "b" 2 "" 1 3])];
     st_l0 := [{| t_fid := 1; t_recs := [mkr "a" 1 "1" 0 1; mkr "b" 1 "2" 0 2] |}];
     st_lvls := []; st_maxfid := 9 |}.

Lemma ex_hyps :
  iter_inv s_ex /\ content_ok s_ex w_ex /\ seq_functional w_ex /\ (forall w, In w w_ex -> wf_key w = true).
Proof.
  assert (Hb : tier_inv_b s_ex = true) by (vm_compute; reflexivity).
  destruct (tier_inv_b_sound s_ex Hb) as [H1 H2].
  split; [constructor; assumption|]. split; [split|split].
  - intros x Hx. vm_compute in Hx |- *. intuition.
  - intros w Hw. exists w. split; [vm_compute in Hw |- *; intuition|].
    split; [reflexivity|]. split; [reflexivity | apply geq_refl].
  - intros x y Hx Hy E. vm_compute in Hx, Hy.
    repeat (destruct Hx as [<-|Hx]; [repeat (destruct Hy as [<-|Hy]; [first [reflexivity | vm_compute in E; discriminate]|]); contradiction|]).
    contradiction.
  - intros w Hw. vm_compute in Hw. repeat (destruct Hw as [<-|Hw]; [reflexivity|]). contradiction.
Qed.

Lemma ex_listing :
  map item_sitem (txn_list current 100 s_ex 3 [] (plain_opts false false) ARewind)
  = [ {| s_key := of_string "a"; s_ver := 3; s_val := of_string "y" |};
      {| s_key := of_string "ab"; s_ver := 3; s_val := of_string "x" |} ].
Proof. vm_compute. reflexivity. Qed.

(** The hypotheses of the DB-iterator theorem hold on a state with two sources, a tombstone and prefix-related keys. *)
Definition w_db : list rec := [mkr "a" max_u64 "1" 0 1; mkr "ab" max_u64 "2" 0 2; mkr "b" max_u64 "" 1 3; mkr "k" 7 "v" 0 4].
Definition s_db : state :=
  {| st_mem := [mkr "b" max_u64 "" 1 3; mkr "k" 7 "v" 0 4]; st_memid := 9; st_imms := [];
     st_l0 := [{| t_fid := 1; t_recs := [mkr "a" max_u64 "1" 0 1; mkr "ab" max_u64 "2" 0 2] |}];
     st_lvls := []; st_maxfid := 9 |}.

Lemma ex_db_hyps :
  iter_inv s_db /\ content_ok s_db w_db /\ seq_functional w_db /\
  (forall w, In w w_db -> wf_key w = true /\ r_ver w <= max_u64) /\ simple_stream (fstream s_db) = true.
Proof.
  assert (Hb : tier_inv_b s_db = true) by (vm_compute; reflexivity).
  destruct (tier_inv_b_sound s_db Hb) as [H1 H2].
  split; [constructor; assumption|]. split; [split|split; [|split]].
  - intros x Hx. vm_compute in Hx |- *. intuition.
  - intros w Hw. exists w. split; [vm_compute in Hw |- *; intuition|].
    split; [reflexivity|]. split; [reflexivity | apply geq_refl].
  - intros x y Hx Hy E. vm_compute in Hx, Hy.
    repeat (destruct Hx as [<-|Hx]; [repeat (destruct Hy as [<-|Hy]; [first [reflexivity | vm_compute in E; discriminate]|]); contradiction|]).
    contradiction.
  - intros w Hw. vm_compute in Hw. repeat (destruct Hw as [<-|Hw]; [split; [reflexivity | vm_compute; discriminate]|]). contradiction.
  - vm_compute. reflexivity.
Qed.

Lemma ex_rev_hyp : no_repeat (filter (visible max_u64) (fstream s_db)) = true.
Proof. vm_compute. reflexivity. Qed.

(** C06-G1 (before its repair): a committed empty value read back from a table *)
Definition s_g1 : state :=
  {| st_mem := []; st_memid := 9; st_imms := [];
     st_l0 := [{| t_fid := 1; t_recs := [{| r_key := sbase [x61]; r_ver := 1; r_val := []; r_meta := 0; r_exp := 0; r_seq := 1 |}] |}];
     st_lvls := []; st_maxfid := 9 |}.
Definition w_g1 : list rec := [{| r_key := sbase [x61]; r_ver := 1; r_val := []; r_meta := 0; r_exp := 0; r_seq := 1 |}].
Lemma g1_refuted :
  tier_inv_b s_g1 = true /\ txn_get legacy 100 s_g1 1 [] (sbase [x61]) = None /\ spec_get 100 w_g1 [] 1 [x61] = Some [] /\
  txn_get current 100 s_g1 1 [] (sbase [x61]) = Some [] /\
  map item_sitem (txn_list current 100 s_g1 1 [] (plain_opts false false) ARewind) = [ {| s_key := [x61]; s_ver := 1; s_val := [] |} ].
Proof. vm_compute. auto. Qed.

(** pending writes on the example state: ab is overwritten, the deleted b is written again *)
Definition pw_ex : list rec := [mkr "b" 3 "q" 0 0; mkr "ab" 3 "p" 0 0].
Lemma ex_pending :
  pw_ex <> [] /\ NoDup (map r_key pw_ex) /\ (forall p, In p pw_ex -> r_ver p = 3) /\
  (forall w, In w (w_ex ++ pw_ex) -> wf_key w = true) /\
  map item_sitem (txn_list current 100 s_ex 3 pw_ex (plain_opts false false) ARewind)
  = [ {| s_key := of_string "a"; s_ver := 3; s_val := of_string "y" |};
      {| s_key := of_string "ab"; s_ver := 3; s_val := of_string "p" |};
      {| s_key := of_string "b"; s_ver := 3; s_val := of_string "q" |} ].
Proof.
  split; [discriminate|]. split.
  - constructor; [intros [H|[]]; vm_compute in H; discriminate|]. constructor; [intros []|constructor].
  - split; [intros p [<-|[<-|[]]]; reflexivity|]. split; [|vm_compute; reflexivity].
    intros w Hw. vm_compute in Hw. repeat (destruct Hw as [<-|Hw]; [reflexivity|]). contradiction.
Qed.

(** Proofs for C22 / C23 (command pipeline, leader check, linearizable reads). *)
From Coq Require Import List NArith Bool Lia ZifyN ZifyNat ZifyBool Sorted.
From NoKV Require Import Base.Bytes Spec.SerialSpec Spec.Linearizable Model.CmdPipeline Spec.ClusterSpec.
Import ListNotations.
Local Open Scope N_scope.

(** * The pipeline of one store *)
Section Store.
  Context {cmd resp sm : Type}.
  Notation W := N.
  Variable applier : sm -> cmd -> sm * option resp.
  Notation store := (store cmd resp sm W).
  Notation entry := (entry cmd).

  Lemma lookup_remove_other (l : list (N * W)) id id' :
    id' <> id -> lookup id' (remove id l) = lookup id' l.
  Proof.
    intros Hne. induction l as [|[i w] l IH]; cbn [lookup remove]; [reflexivity|].
    destruct (i =? id) eqn:E1.
    - apply N.eqb_eq in E1. subst i. rewrite IH.
      destruct (id =? id') eqn:E2; [apply N.eqb_eq in E2; congruence|reflexivity].
    - cbn [lookup]. rewrite IH. reflexivity.
  Qed.

  Lemma lookup_remove_same (l : list (N * W)) id : lookup id (remove id l) = None.
  Proof.
    induction l as [|[i w] l IH]; cbn [lookup remove]; [reflexivity|].
    destruct (i =? id) eqn:E1; [exact IH|]. cbn [lookup]. rewrite E1. exact IH.
  Qed.

  Lemma lookup_remove_sub (l : list (N * W)) id id' w :
    lookup id' (remove id l) = Some w -> lookup id' l = Some w.
  Proof.
    destruct (N.eq_dec id' id) as [->|Hne].
    - rewrite lookup_remove_same. discriminate.
    - rewrite lookup_remove_other by exact Hne. auto.
  Qed.

  (** [completeProposal] hands the result to the waiter registered under the
      id, and only once: the waiter is gone afterwards. *)
  Lemma complete_some region id (p p' : pipe W) w :
    complete region id p = (p', Some w) ->
    lookup (pkey region id) (p_props p) = Some w /\ lookup (pkey region id) (p_props p') = None /\ p_seq p' = p_seq p /\
    (forall id' w', lookup id' (p_props p') = Some w' -> lookup id' (p_props p) = Some w').
  Proof.
    unfold complete. destruct (id =? 0); [discriminate|].
    destruct (lookup (pkey region id) (p_props p)) as [w0|] eqn:E; [|discriminate].
    intros H. inversion H; subst; clear H. cbn [p_props p_seq].
    repeat split; auto using lookup_remove_same. intros id' w'. apply lookup_remove_sub.
  Qed.

  Lemma complete_none region id (p p' : pipe W) : complete region id p = (p', None) -> p' = p.
  Proof.
    unfold complete. destruct (id =? 0); [congruence|].
    destruct (lookup (pkey region id) (p_props p)); [discriminate|congruence].
  Qed.

  (** ** [apply_one] *)
  Lemma apply_one_spec (e : entry) region id c (s s' : store) ok :
    apply_one applier e region id c s = (s', ok) ->
    let a := {| ap_index := e_index e; ap_term := e_term e; ap_region := region; ap_reqid := id; ap_cmd := c;
                ap_res := match snd (applier (s_sm s) c) with Some x => ROk x | None => RErr end |} in
    s_sm s' = fst (applier (s_sm s) c) /\ s_log s' = a :: s_log s /\
    ok = (match snd (applier (s_sm s) c) with Some _ => true | None => false end) /\
    p_seq (s_pipe s') = p_seq (s_pipe s) /\ s_mark s' = s_mark s /\
    (forall id' w', lookup id' (p_props (s_pipe s')) = Some w' -> lookup id' (p_props (s_pipe s)) = Some w') /\
    (s_done s' = s_done s \/
     exists w, s_done s' = {| k_w := w; k_by := a |} :: s_done s /\ lookup (pkey region id) (p_props (s_pipe s)) = Some w).
  Proof.
    unfold apply_one. destruct (applier (s_sm s) c) as [m' r] eqn:Ea. cbn [fst snd].
    destruct (complete region id (s_pipe s)) as [p' ow] eqn:Ec. intros H. inversion H; subst; clear H.
    cbn [s_sm s_log s_pipe s_mark s_done].
    destruct ow as [w|].
    - apply complete_some in Ec. destruct Ec as (Hl & _ & Hs & Hsub).
      repeat split; auto. right. exists w. split; [reflexivity|exact Hl].
    - apply complete_none in Ec. subst p'. repeat split; auto.
  Qed.

  (** ** C22, same sequence *)
  Hypothesis Htotal : applier_total applier.

  Definition pipe_ok (e : entry) : Prop :=
    match e_kind e, e_data e with
    | ENormal, PGarbage | ENormal, PLegacy | ENormal, PAdmin => False
    | _, _ => True
    end.

  (** The log grows by exactly the commands of the entries, in order, and the
      state is the sequential execution of these commands. *)
  Lemma apply_entries_cmds (es : list entry) : forall s : store,
    Forall pipe_ok es ->
    snd (apply_entries applier es s) = AOk /\
    applied_cmds (fst (apply_entries applier es s)) = applied_cmds s ++ cmds_of es /\
    s_sm (fst (apply_entries applier es s)) = exec_cmds applier (s_sm s) (map snd (cmds_of es)) /\
    s_mark (fst (apply_entries applier es s)) = s_mark s.
  Proof.
    induction es as [|e es IH]; intros s Hok.
    - cbn. unfold applied_cmds. rewrite app_nil_r. auto.
    - inversion Hok as [|? ? He Hes]; subst. unfold pipe_ok in He.
      cbn [apply_entries cmds_of]. destruct (e_kind e); [|apply IH; assumption].
      destruct (e_data e) as [| | | |region id c]; try contradiction; [apply IH; assumption|].
      destruct (apply_one applier e region id c s) as [s1 ok] eqn:E1.
      pose proof (apply_one_spec _ _ _ _ _ _ _ E1) as (Hsm & Hlog & Hokv & _ & Hmk & _ & _).
      assert (ok = true) as ->.
      { rewrite Hokv. specialize (Htotal (s_sm s) c). destruct (snd (applier (s_sm s) c)); congruence. }
      destruct (IH s1 Hes) as (Ho & Hc & Hm & Hk). repeat split; auto.
      + rewrite Hc. unfold applied_cmds. rewrite Hlog. cbn [rev map]. rewrite map_app. cbn [map ap_index ap_reqid ap_cmd].
        rewrite <- app_assoc. reflexivity.
      + rewrite Hm, Hsm. cbn [map snd exec_cmds fold_left]. reflexivity.
      + congruence.
  Qed.

  Lemma to_apply_ok (es : list entry) : Forall (digestible (cmd := cmd)) es -> Forall pipe_ok (to_apply es).
  Proof.
    intros H. unfold to_apply. apply Forall_forall. intros e He. apply filter_In in He. destruct He as [Hin Hf].
    rewrite Forall_forall in H. specialize (H e Hin). unfold digestible in H. unfold pipe_ok.
    destruct (e_kind e), (e_data e); auto; discriminate.
  Qed.

  Lemma cmds_of_to_apply (es : list entry) : cmds_of (to_apply es) = cmds_of es.
  Proof.
    induction es as [|e es IH]; [reflexivity|]. unfold to_apply in *. cbn [filter cmds_of].
    destruct (e_kind e) eqn:Ek, (e_data e) eqn:Ed; cbn [cmds_of]; rewrite ?Ek, ?Ed, ?IH; reflexivity.
  Qed.

  Lemma cmds_of_app (a b : list entry) : cmds_of (a ++ b) = cmds_of a ++ cmds_of b.
  Proof.
    induction a as [|e a IH]; [reflexivity|]. cbn [app cmds_of].
    destruct (e_kind e), (e_data e); rewrite ?IH; reflexivity.
  Qed.

  Lemma exec_cmds_app m (a b : list cmd) : exec_cmds applier m (a ++ b) = exec_cmds applier (exec_cmds applier m a) b.
  Proof. unfold exec_cmds. apply fold_left_app. Qed.

  Theorem same_sequence (bs : list (list entry)) : forall s : store,
    Forall (Forall (digestible (cmd := cmd))) bs ->
    applied_cmds (run_batches applier bs s) = applied_cmds s ++ cmds_of (concat bs) /\
    s_sm (run_batches applier bs s) = exec_cmds applier (s_sm s) (map snd (cmds_of (concat bs))).
  Proof.
    induction bs as [|es bs IH]; intros s Hok.
    - cbn. rewrite app_nil_r. auto.
    - inversion Hok as [|? ? He Hbs]; subst. cbn [run_batches fold_left concat].
      fold (run_batches applier bs (fst (handle_committed applier es s))).
      destruct (IH (fst (handle_committed applier es s)) Hbs) as (Hc & Hm).
      unfold handle_committed in *.
      destruct (apply_entries applier (to_apply es) s) as [s1 out] eqn:E1. cbn [fst] in *.
      pose proof (apply_entries_cmds (to_apply es) s (to_apply_ok es He)) as (_ & Hc1 & Hm1 & _).
      rewrite E1 in Hc1, Hm1. cbn [fst] in Hc1, Hm1. rewrite cmds_of_to_apply in Hc1, Hm1.
      unfold applied_cmds in *. cbn [s_log s_sm] in *.
      rewrite cmds_of_app, map_app, exec_cmds_app, <- Hm1, Hm. split; [|reflexivity].
      rewrite Hc, Hc1, app_assoc. reflexivity.
  Qed.

  (** With raft's ordered delivery of one committed sequence, a fresh
      incarnation has executed a contiguous segment of that sequence; two
      incarnations that start at the same position have executed comparable
      prefixes. *)
  Corollary same_sequence_committed committed first (bs : list (list entry)) m :
    delivery_ok committed first bs -> Forall (Forall (digestible (cmd := cmd))) bs ->
    exists n, applied_cmds (run_batches applier bs (store_init m)) = cmds_of (firstn n (skipn first committed)) /\
              s_sm (run_batches applier bs (store_init m)) =
                exec_cmds applier m (map snd (cmds_of (firstn n (skipn first committed)))).
  Proof.
    intros [n Hn] Hok. exists n. destruct (same_sequence bs (store_init m) Hok) as (Hc & Hm).
    rewrite Hc, Hm, Hn. split; reflexivity.
  Qed.

  (** The apply mark after a batch is at least the index of its last entry. *)
  Lemma handle_committed_mark (es : list entry) (s : store) :
    s_mark (fst (handle_committed applier es s)) = N.max (s_mark (fst (apply_entries applier (to_apply es) s))) (last_index es 0).
  Proof. unfold handle_committed. destruct (apply_entries applier (to_apply es) s); reflexivity. Qed.
End Store.

(** * The id packs a term and a counter *)
Lemma mk_id_inj t1 q1 t2 q2 :
  t1 < 2^32 -> t2 < 2^32 -> q1 < 2^32 -> q2 < 2^32 -> mk_id t1 q1 = mk_id t2 q2 -> t1 = t2 /\ q1 = q2.
Proof.
  unfold mk_id. intros H1 H2 H3 H4.
  change (2^64) with 18446744073709551616. change (2^32) with 4294967296 in *.
  rewrite (N.mod_small (t1 * 4294967296)), (N.mod_small (t2 * 4294967296)), (N.mod_small q1), (N.mod_small q2) by lia.
  intros H. lia.
Qed.

Lemma mk_id_small t q : t < 2^32 -> q < 2^32 -> mk_id t q < 2^64.
Proof.
  unfold mk_id. intros H1 H2. change (2^64) with 18446744073709551616. change (2^32) with 4294967296 in *.
  rewrite (N.mod_small (t * 4294967296)), (N.mod_small q) by lia. lia.
Qed.

(** whatever the counter is - including after it passed 2^32 - the id's upper
    half is the term, so ids handed out in different terms never coincide *)
Lemma mk_id_names_term t q : t < 2^32 -> mk_id t q / 2^32 = t.
Proof.
  unfold mk_id. intros H. change (2^64) with 18446744073709551616. change (2^32) with 4294967296 in *.
  rewrite (N.mod_small (t * 4294967296)) by lia.
  pose proof (N.mod_upper_bound q 4294967296 ltac:(lia)) as Hq.
  rewrite N.div_add_l by lia. rewrite (N.div_small (q mod 4294967296)) by exact Hq. lia.
Qed.

Lemma mk_id_terms_differ t1 q1 t2 q2 :
  t1 < 2^32 -> t2 < 2^32 -> t1 <> t2 -> mk_id t1 q1 <> mk_id t2 q2.
Proof.
  intros H1 H2 Hne E. apply Hne.
  rewrite <- (mk_id_names_term t1 q1 H1), <- (mk_id_names_term t2 q2 H2), E. reflexivity.
Qed.

Lemma next_id_terms_differ (t1 t2 : N) (p1 p2 : pipe N) :
  t1 < 2^32 -> t2 < 2^32 -> t1 <> t2 ->
  fst (next_id t1 p1) <> fst (next_id t2 p2).
Proof. intros H1 H2 Hne. unfold next_id. cbn [fst]. now apply mk_id_terms_differ. Qed.

(** the association-list key is injective on pairs of uint64 *)
Lemma pkey_inj r1 i1 r2 i2 : i1 < 2^64 -> i2 < 2^64 -> pkey r1 i1 = pkey r2 i2 -> r1 = r2 /\ i1 = i2.
Proof. unfold pkey. change (2^64) with 18446744073709551616. intros H1 H2 H. lia. Qed.

(** * The cluster *)
Section ClusterProofs.
  Context {cmd resp sm : Type}.
  Variable applier : sm -> cmd -> sm * option resp.
  Variable init_sm : sm.
  Notation gstate := (gstate cmd resp sm).
  Notation grun := (grun applier init_sm (next_id (W := N))).
  Notation gstep := (gstep applier (next_id (W := N))).
  Notation store := (store cmd resp sm N).

  Definition inc_of (g : gstate) (s : N) : N := fst (g_stores g s).
  Definition st_of (g : gstate) (s : N) : store := snd (g_stores g s).

  Lemma grun_snoc tr e : grun (tr ++ [e]) = gstep (grun tr) e.
  Proof. unfold CmdPipeline.grun. rewrite fold_left_app. reflexivity. Qed.

  (** ** What one call does to a store *)
  Lemma propose_spec v region w (st st' : store) out :
    propose_command (next_id (W := N)) v region 0 w st = (st', out) ->
    s_sm st' = s_sm st /\ s_log st' = s_log st /\ s_done st' = s_done st /\ s_mark st' = s_mark st /\
    ((s_pipe st' = s_pipe st /\ (forall id, out <> OWaiting id)) \/
     (exists term lead, v = VStatus true term lead /\
        p_seq (s_pipe st') = (p_seq (s_pipe st) + 1) mod 2^64 /\
        ((p_props (s_pipe st') = p_props (s_pipe st) /\ (forall id, out <> OWaiting id)) \/
         (exists id, out = OWaiting id /\ id = mk_id term (p_seq (s_pipe st')) /\
                     lookup (pkey region id) (p_props (s_pipe st)) = None /\
                     p_props (s_pipe st') = (pkey region id, w) :: p_props (s_pipe st))))).
  Proof.
    unfold propose_command. destruct v as [|[|] term lead].
    - intros H; inversion H; subst. repeat split; auto. left. split; [reflexivity|discriminate].
    - cbn [N.eqb]. unfold next_id, register. cbn [p_seq p_props].
      set (s1 := (p_seq (s_pipe st) + 1) mod 2^64). set (id := mk_id term s1).
      destruct (id =? 0) eqn:E0.
      + intros H; inversion H; subst; cbn [s_sm s_log s_done s_mark s_pipe p_seq p_props].
        repeat split; auto. right. exists term, lead. repeat split; auto. left. split; [reflexivity|discriminate].
      + destruct (lookup (pkey region id) (p_props (s_pipe st))) eqn:El.
        * intros H; inversion H; subst; cbn [s_sm s_log s_done s_mark s_pipe p_seq p_props].
          repeat split; auto. right. exists term, lead. repeat split; auto. left. split; [reflexivity|discriminate].
        * intros H; inversion H; subst; cbn [s_sm s_log s_done s_mark s_pipe p_seq p_props].
          repeat split; auto. right. exists term, lead. repeat split; auto. right. exists id. repeat split; auto.
    - intros H; inversion H; subst. repeat split; auto. left. split; [reflexivity|discriminate].
  Qed.

  Lemma read_spec v (st st' : store) out :
    read_command_start (next_id (W := N)) v 0 st = (st', out) ->
    s_sm st' = s_sm st /\ s_log st' = s_log st /\ s_done st' = s_done st /\ s_mark st' = s_mark st /\
    p_props (s_pipe st') = p_props (s_pipe st) /\
    (p_seq (s_pipe st') = p_seq (s_pipe st) \/ p_seq (s_pipe st') = (p_seq (s_pipe st) + 1) mod 2^64).
  Proof.
    unfold read_command_start. destruct v as [|[|] term lead]; cbn [N.eqb next_id];
      intros H; inversion H; subst; cbn [s_sm s_log s_done s_mark s_pipe p_seq p_props]; repeat split; auto.
  Qed.

  (** ** What a batch of committed entries does to a store *)
  Lemma apply_entries_inv (es : list (entry cmd)) : forall (s s' : store) out,
    apply_entries applier es s = (s', out) ->
    p_seq (s_pipe s') = p_seq (s_pipe s) /\
    (forall id w, lookup id (p_props (s_pipe s')) = Some w -> lookup id (p_props (s_pipe s)) = Some w) /\
    (forall k, In k (s_done s') -> In k (s_done s) \/
        (lookup (pkey (ap_region (k_by k)) (ap_reqid (k_by k))) (p_props (s_pipe s)) = Some (k_w k) /\
         exists e, In e es /\ e_data e = PCmd (ap_region (k_by k)) (ap_reqid (k_by k)) (ap_cmd (k_by k)))).
  Proof.
    induction es as [|e es IH]; intros s s' out.
    - cbn. intros H; inversion H; subst. auto.
    - cbn [apply_entries]. destruct (e_kind e).
      2:{ intros H. destruct (IH _ _ _ H) as (A & B & C). repeat split; auto.
          intros k Hk. destruct (C k Hk) as [|(L & e0 & He0 & Hd)]; auto. right. split; auto. exists e0. split; [right|]; auto. }
      destruct (e_data e) as [| | | |region id c] eqn:Ed;
        try (intros H; inversion H; subst; auto; fail).
      + intros H. destruct (IH _ _ _ H) as (A & B & C). repeat split; auto.
        intros k Hk. destruct (C k Hk) as [|(L & e0 & He0 & Hd)]; auto. right. split; auto. exists e0. split; [right|]; auto.
      + destruct (apply_one applier e region id c s) as [s1 ok] eqn:E1.
        pose proof (apply_one_spec applier _ _ _ _ _ _ _ E1) as (_ & _ & _ & Hseq & _ & Hsub & Hdone).
        assert (Hd1 : forall k, In k (s_done s1) -> In k (s_done s) \/
                   (lookup (pkey (ap_region (k_by k)) (ap_reqid (k_by k))) (p_props (s_pipe s)) = Some (k_w k) /\
                    e_data e = PCmd (ap_region (k_by k)) (ap_reqid (k_by k)) (ap_cmd (k_by k)))).
        { intros k Hk. destruct Hdone as [Hd|(w & Hd & Hl)]; rewrite Hd in Hk; [auto|].
          destruct Hk as [<-|Hk]; [|auto]. right. cbn [k_by k_w ap_region ap_reqid ap_cmd]. auto. }
        destruct ok.
        * intros H. destruct (IH _ _ _ H) as (A & B & C). repeat split; [congruence|auto|].
          intros k Hk. destruct (C k Hk) as [Hin|(L & e0 & He0 & Hd0)].
          -- destruct (Hd1 k Hin) as [|(L & Hd0)]; auto. right. split; auto. exists e. split; [left|]; auto.
          -- right. split; auto. exists e0. split; [right|]; auto.
        * intros H; inversion H; subst. repeat split; auto.
          intros k Hk. destruct (Hd1 k Hk) as [|(L & Hd0)]; auto. right. split; auto. exists e. split; [left|]; auto.
  Qed.

  Lemma handle_committed_inv (es : list (entry cmd)) (s s' : store) out :
    handle_committed applier es s = (s', out) ->
    p_seq (s_pipe s') = p_seq (s_pipe s) /\
    (forall id w, lookup id (p_props (s_pipe s')) = Some w -> lookup id (p_props (s_pipe s)) = Some w) /\
    (forall k, In k (s_done s') -> In k (s_done s) \/
        (lookup (pkey (ap_region (k_by k)) (ap_reqid (k_by k))) (p_props (s_pipe s)) = Some (k_w k) /\
         exists e, In e es /\ e_data e = PCmd (ap_region (k_by k)) (ap_reqid (k_by k)) (ap_cmd (k_by k)))).
  Proof.
    unfold handle_committed. destruct (apply_entries applier (to_apply es) s) as [s1 o1] eqn:E1.
    intros H; inversion H; subst. cbn [s_pipe s_done].
    destruct (apply_entries_inv _ _ _ _ E1) as (A & B & C). repeat split; auto.
    intros k Hk. destruct (C k Hk) as [|(L & e & He & Hd)]; auto. right. split; auto. exists e. split; auto.
    unfold to_apply in He. apply filter_In in He. tauto.
  Qed.

  (** ** The invariant of the global run *)
  Lemma calls_of_snoc (tr : list (gevent cmd)) e : calls_of tr <= calls_of (tr ++ [e]).
  Proof. unfold calls_of. rewrite filter_app, app_length. lia. Qed.
  Lemma calls_of_call (tr : list (gevent cmd)) e :
    (match e with GPropose _ _ _ _ _ | GRead _ _ _ => true | _ => false end) = true ->
    calls_of (tr ++ [e]) = calls_of tr + 1.
  Proof. intros H. unfold calls_of. rewrite filter_app, app_length. cbn [filter]. rewrite H. cbn [length]. lia. Qed.

  Lemma props_step g e pr : In pr (g_props g) -> In pr (g_props (gstep g e)).
  Proof.
    destruct e as [s|s region w c v|s w v|s es|s region id]; unfold CmdPipeline.gstep, get_store;
      destruct (g_stores g s) as [i0 st0]; cbn [g_props]; auto.
    - destruct (propose_command _ v region 0 w st0) as [st1 out]. cbn [g_props].
      destruct out; auto. destruct v; auto. right; auto.
    - destruct (read_command_start _ v 0 st0). cbn [g_props]. auto.
    - destruct (handle_committed applier es st0). cbn [g_props]. auto.
  Qed.

  Record inv (tr : list (gevent cmd)) (g : gstate) : Prop := {
    i_wait : forall s key w, lookup key (p_props (s_pipe (st_of g s))) = Some w ->
               exists pr, In pr (g_props g) /\ pr_w pr = w /\ pkey (pr_region pr) (pr_id pr) = key /\ pr_store pr = s;
    i_done : forall s k, In k (s_done (st_of g s)) ->
               (exists pr, In pr (g_props g) /\ pr_w pr = k_w k /\ pr_store pr = s /\
                           pkey (pr_region pr) (pr_id pr) = pkey (ap_region (k_by k)) (ap_reqid (k_by k))) /\
               (exists s' es e, In (GDeliver s' es) tr /\ In e es /\
                                e_data e = PCmd (ap_region (k_by k)) (ap_reqid (k_by k)) (ap_cmd (k_by k)));
    i_ids : forall pr, In pr (g_props g) ->
               exists q, pr_id pr = mk_id (pr_term pr) q /\ 0 < q < 2^32 /\
                         pr_inc pr <= inc_of g (pr_store pr) /\
                         (pr_inc pr = inc_of g (pr_store pr) -> q <= p_seq (s_pipe (st_of g (pr_store pr))));
    i_seq : forall s, p_seq (s_pipe (st_of g s)) <= calls_of tr;
    i_nodup : NoDup (map (fun pr => pkey (pr_region pr) (pr_id pr)) (g_props g))
  }.

  Lemma inv_init : inv [] (ginit init_sm).
  Proof.
    split; unfold st_of, inc_of, ginit; cbn.
    - discriminate.
    - contradiction.
    - contradiction.
    - intros _. lia.
    - constructor.
  Qed.

  Ltac upd x s := unfold st_of, inc_of, gset in *; cbn [g_stores g_props fst snd] in *;
                  destruct (N.eqb_spec x s); [subst x|].
  Ltac updp t s := unfold st_of, inc_of, gset in *; cbn [g_stores g_props fst snd] in *;
                   let Hxs := fresh "Hxs" in destruct (N.eqb_spec t s) as [Hxs|Hxs].

  Lemma inv_step tr g e :
    calls_of (tr ++ [e]) < 2^32 - 1 ->
    terms_ok (g_props (gstep g e)) -> election_safe (g_props (gstep g e)) ->
    inv tr g -> inv (tr ++ [e]) (gstep g e).
  Proof.
    intros Hcalls Hterms Hsafe [Hw Hd Hi Hs Hn].
    assert (Hle := calls_of_snoc tr e).
    destruct e as [s|s region w c v|s w v|s es|s region id]; unfold CmdPipeline.gstep, get_store in *;
      destruct (g_stores g s) as [i0 st0] eqn:Eg.
    - (* GStart *)
      split; cbn [g_props].
      + intros x id w. upd x s; cbn [s_pipe pipe_init p_props lookup fst snd]; [discriminate|apply Hw].
      + intros x k. upd x s; cbn [s_done fst snd].
        * intros Hk. specialize (Hd s k). unfold st_of in Hd. rewrite Eg in Hd. destruct (Hd Hk) as (A & s' & es & e & B & C & D).
          split; auto. exists s', es, e. split; [apply in_or_app; left|]; auto.
        * intros Hk. destruct (Hd x k Hk) as (A & s' & es & e & B & C & D).
          split; auto. exists s', es, e. split; [apply in_or_app; left|]; auto.
      + intros pr Hpr. destruct (Hi pr Hpr) as (q & A & B & C & D). exists q. split; [|split]; auto.
        updp (pr_store pr) s; cbn [fst snd s_pipe pipe_init p_seq].
        * rewrite Hxs in *. rewrite Eg in C. cbn [fst] in C. split; lia.
        * auto.
      + intros x. upd x s; cbn [fst snd s_pipe pipe_init p_seq]; [lia|]. specialize (Hs x). unfold st_of in Hs. lia.
      + exact Hn.
    - (* GPropose *)
      destruct (propose_command _ v region 0 w st0) as [st1 out] eqn:Ep.
      pose proof (propose_spec _ _ _ _ _ _ Ep) as (_ & _ & Hdn & _ & Hcase).
      assert (Hcall : calls_of (tr ++ [GPropose s region w c v]) = calls_of tr + 1) by (apply calls_of_call; reflexivity).
      assert (Hs0 : p_seq (s_pipe st0) <= calls_of tr).
      { specialize (Hs s). unfold st_of in Hs. rewrite Eg in Hs. exact Hs. }
      assert (Hseq1 : p_seq (s_pipe st1) <= calls_of tr + 1 /\ p_seq (s_pipe st0) <= p_seq (s_pipe st1)).
      { destruct Hcase as [[E _]|(t & l & _ & E & _)]; [rewrite E; lia|].
        rewrite E. rewrite N.mod_small; [lia|]. change (2^64) with 18446744073709551616. change (2^32) with 4294967296 in *. lia. }
      (* old proposals stay described *)
      assert (Hi' : forall pr, In pr (g_props g) ->
                 exists q, pr_id pr = mk_id (pr_term pr) q /\ 0 < q < 2^32 /\
                   pr_inc pr <= fst (gset s (i0, st1) (g_stores g) (pr_store pr)) /\
                   (pr_inc pr = fst (gset s (i0, st1) (g_stores g) (pr_store pr)) ->
                    q <= p_seq (s_pipe (snd (gset s (i0, st1) (g_stores g) (pr_store pr)))))).
      { intros pr Hpr. destruct (Hi pr Hpr) as (q & A & B & C & D). exists q. split; [|split]; auto.
        unfold gset. unfold inc_of, st_of in C, D. destruct (N.eqb_spec (pr_store pr) s) as [E|E]; cbn [fst snd].
        - rewrite E, Eg in C, D. cbn [fst snd] in C, D. split; [exact C|]. intros X. specialize (D X). lia.
        - auto. }
      assert (Hd' : forall x k, In k (s_done (snd (gset s (i0, st1) (g_stores g) x))) ->
                 (exists pr, In pr (g_props g) /\ pr_w pr = k_w k /\ pr_store pr = x /\
                             pkey (pr_region pr) (pr_id pr) = pkey (ap_region (k_by k)) (ap_reqid (k_by k))) /\
                 (exists s' es e, In (GDeliver s' es) (tr ++ [GPropose s region w c v]) /\ In e es /\
                                  e_data e = PCmd (ap_region (k_by k)) (ap_reqid (k_by k)) (ap_cmd (k_by k)))).
      { intros x k. unfold gset. destruct (N.eqb_spec x s) as [E|E]; cbn [snd]; intros Hk.
        - subst x. rewrite Hdn in Hk. specialize (Hd s k). unfold st_of in Hd. rewrite Eg in Hd.
          destruct (Hd Hk) as (A & s' & es & e & B & C & D). split; auto. exists s', es, e. split; [apply in_or_app; left|]; auto.
        - destruct (Hd x k Hk) as (A & s' & es & e & B & C & D). split; auto. exists s', es, e. split; [apply in_or_app; left|]; auto. }
      destruct Hcase as [[Epipe Hnw]|(t & l & -> & Eseq & [[Eprops Hnw]|(id & -> & Eid & Hnone & Eprops)])].
      + (* rejected / not leader *)
        cbn [g_props g_stores] in *. 
        assert (Eprops2 : match out, v with
                          | OWaiting id, VStatus _ term _ =>
                              {| pr_store := s; pr_inc := i0; pr_region := region; pr_w := w; pr_id := id; pr_cmd := c; pr_term := term |} :: g_props g
                          | _, _ => g_props g end = g_props g).
        { destruct out; auto; try (exfalso; eapply Hnw; reflexivity). }
        split; cbn [g_props g_stores]; rewrite ?Eprops2.
        * intros x id0 w0. upd x s; cbn [snd].
          -- rewrite Epipe. specialize (Hw s id0 w0). rewrite Eg in Hw. exact Hw.
          -- apply Hw.
        * intros x k Hk. apply Hd'. exact Hk.
        * exact Hi'.
        * intros x. upd x s; cbn [snd]; [lia|]. specialize (Hs x). lia.
        * exact Hn.
      + (* leader, but not registered *)
        assert (Eprops2 : match out, VStatus true t l with
                          | OWaiting id, VStatus _ term _ =>
                              {| pr_store := s; pr_inc := i0; pr_region := region; pr_w := w; pr_id := id; pr_cmd := c; pr_term := term |} :: g_props g
                          | _, _ => g_props g end = g_props g).
        { destruct out; auto; try (exfalso; eapply Hnw; reflexivity). }
        split; cbn [g_props g_stores]; rewrite ?Eprops2.
        * intros x id0 w0. upd x s; cbn [snd].
          -- rewrite Eprops. specialize (Hw s id0 w0). rewrite Eg in Hw. exact Hw.
          -- apply Hw.
        * intros x k Hk. apply Hd'. exact Hk.
        * exact Hi'.
        * intros x. upd x s; cbn [snd]; [lia|]. specialize (Hs x). lia.
        * exact Hn.
      + (* registered *)
        set (prn := {| pr_store := s; pr_inc := i0; pr_region := region; pr_w := w; pr_id := id; pr_cmd := c; pr_term := t |}) in *.
        cbn [g_props g_stores] in Hterms, Hsafe.
        assert (Ht : 0 < t < 2^32) by (apply (Hterms prn); left; reflexivity).
        assert (Hq : 0 < p_seq (s_pipe st1) < 2^32).
        { rewrite Eseq in *. rewrite N.mod_small in *; change (2^64) with 18446744073709551616; change (2^32) with 4294967296 in *; lia. }
        split; cbn [g_props g_stores].
        * intros x id0 w0. upd x s; cbn [snd].
          -- rewrite Eprops. cbn [lookup]. destruct (pkey region id =? id0) eqn:E.
             ++ apply N.eqb_eq in E. subst id0. intros X; inversion X; subst. exists prn. split; [left|]; auto.
             ++ intros X. specialize (Hw s id0 w0). rewrite Eg in Hw. destruct (Hw X) as (pr & A & B). exists pr. split; [right|]; auto.
          -- intros X. destruct (Hw x id0 w0 X) as (pr & A & B). exists pr. split; [right|]; auto.
        * intros x k Hk. destruct (Hd' x k Hk) as ((pr & A & B) & C). split; auto. exists pr. split; [right|]; auto.
        * intros pr [<-|Hpr].
          -- exists (p_seq (s_pipe st1)). unfold prn, inc_of, st_of, gset.
             cbn [pr_id pr_term pr_inc pr_store g_stores fst snd]. rewrite N.eqb_refl. cbn [fst snd].
             repeat split; auto; lia.
          -- apply Hi'. exact Hpr.
        * intros x. upd x s; cbn [snd]; [lia|]. specialize (Hs x). lia.
        * cbn [map]. constructor; [|exact Hn].
          intros Hin. apply in_map_iff in Hin. destruct Hin as (pr & Eid' & Hpr).
          destruct (Hi pr Hpr) as (q & A & B & C & D).
          assert (Htp : 0 < pr_term pr < 2^32) by (apply Hterms; right; exact Hpr).
          unfold prn in Eid'. cbn [pr_id pr_region] in Eid'. rewrite A, Eid in Eid'.
          apply pkey_inj in Eid'; [|apply mk_id_small; lia|apply mk_id_small; lia]. destruct Eid' as [Er Eid'].
          apply mk_id_inj in Eid'; try lia. destruct Eid' as [Et Eq].
          destruct (Hsafe pr prn) as [Es Ei]; [right; exact Hpr|left; reflexivity|exact Er|exact Et|].
          unfold prn in Es, Ei. cbn [pr_store pr_inc] in Es, Ei. unfold inc_of, st_of in C, D. rewrite Es, Eg in C, D. cbn [fst snd] in C, D.
          specialize (D Ei). rewrite Eseq in Eq. rewrite N.mod_small in Eq; [lia|].
          change (2^64) with 18446744073709551616. change (2^32) with 4294967296 in *. lia.
    - (* GRead *)
      destruct (read_command_start _ v 0 st0) as [st1 out] eqn:Ep.
      pose proof (read_spec _ _ _ _ Ep) as (_ & _ & Hdn & _ & Eprops & Eseq).
      assert (Hcall : calls_of (tr ++ [GRead s w v]) = calls_of tr + 1) by (apply calls_of_call; reflexivity).
      assert (Hs0 : p_seq (s_pipe st0) <= calls_of tr).
      { specialize (Hs s). unfold st_of in Hs. rewrite Eg in Hs. exact Hs. }
      assert (Hseq1 : p_seq (s_pipe st1) <= calls_of tr + 1 /\ p_seq (s_pipe st0) <= p_seq (s_pipe st1)).
      { destruct Eseq as [E|E]; [rewrite E; lia|].
        rewrite E. rewrite N.mod_small; [lia|]. change (2^64) with 18446744073709551616. change (2^32) with 4294967296 in *. lia. }
      split; cbn [g_props g_stores].
      + intros x id0 w0. upd x s; cbn [snd].
        * rewrite Eprops. specialize (Hw s id0 w0). rewrite Eg in Hw. exact Hw.
        * apply Hw.
      + intros x k. upd x s; cbn [snd]; intros Hk.
        * rewrite Hdn in Hk. specialize (Hd s k). rewrite Eg in Hd.
          destruct (Hd Hk) as (A & s' & es & e & B & C & D). split; auto. exists s', es, e. split; [apply in_or_app; left|]; auto.
        * destruct (Hd x k Hk) as (A & s' & es & e & B & C & D). split; auto. exists s', es, e. split; [apply in_or_app; left|]; auto.
      + intros pr Hpr. destruct (Hi pr Hpr) as (q & A & B & C & D). exists q. split; [|split]; auto.
        updp (pr_store pr) s; cbn [fst snd].
        * rewrite Hxs in *. rewrite Eg in C, D. cbn [fst snd] in C, D. split; [exact C|]. intros X. specialize (D X). lia.
        * auto.
      + intros x. upd x s; cbn [snd]; [lia|]. specialize (Hs x). lia.
      + exact Hn.
    - (* GDeliver *)
      destruct (handle_committed applier es st0) as [st1 out] eqn:Ep.
      destruct (handle_committed_inv _ _ _ _ Ep) as (Eseq & Hsub & Hdone).
      split; cbn [g_props g_stores].
      + intros x id0 w0. upd x s; cbn [snd].
        * intros X. apply Hsub in X. specialize (Hw s id0 w0). rewrite Eg in Hw. exact (Hw X).
        * apply Hw.
      + intros x k. upd x s; cbn [snd]; intros Hk.
        * destruct (Hdone k Hk) as [Hold|(Hl & e & He & Hdat)].
          -- specialize (Hd s k). rewrite Eg in Hd.
             destruct (Hd Hold) as (A & s' & es' & e & B & C & D). split; auto. exists s', es', e. split; [apply in_or_app; left|]; auto.
          -- split.
             ++ specialize (Hw s (pkey (ap_region (k_by k)) (ap_reqid (k_by k))) (k_w k)). rewrite Eg in Hw.
                destruct (Hw Hl) as (pr & A & B & C & D). exists pr. auto.
             ++ exists s, es, e. split; [apply in_or_app; right; left; reflexivity|]. auto.
        * destruct (Hd x k Hk) as (A & s' & es' & e & B & C & D). split; auto. exists s', es', e. split; [apply in_or_app; left|]; auto.
      + intros pr Hpr. destruct (Hi pr Hpr) as (q & A & B & C & D). exists q. split; [|split]; auto.
        updp (pr_store pr) s; cbn [fst snd].
        * rewrite Hxs in *. rewrite Eg in C, D. cbn [fst snd] in C, D. split; [exact C|]. intros X. specialize (D X). lia.
        * auto.
      + intros x. upd x s; cbn [snd]; [|specialize (Hs x); lia]. specialize (Hs s). rewrite Eg in Hs. cbn [snd] in Hs. lia.
      + exact Hn.
    - (* GTimeout *)
      split; cbn [g_props g_stores].
      + intros x id0 w0. upd x s; cbn [snd s_pipe].
        * intros X. specialize (Hw s id0 w0). rewrite Eg in Hw. apply Hw. cbn [snd].
          unfold unregister in X. destruct (id =? 0); [exact X|]. cbn [p_props] in X. eapply lookup_remove_sub; eauto.
        * apply Hw.
      + intros x k. upd x s; cbn [snd s_done]; intros Hk.
        * specialize (Hd s k). rewrite Eg in Hd.
          destruct (Hd Hk) as (A & s' & es & e & B & C & D). split; auto. exists s', es, e. split; [apply in_or_app; left|]; auto.
        * destruct (Hd x k Hk) as (A & s' & es & e & B & C & D). split; auto. exists s', es, e. split; [apply in_or_app; left|]; auto.
      + intros pr Hpr. destruct (Hi pr Hpr) as (q & A & B & C & D). exists q. split; [|split]; auto.
        updp (pr_store pr) s; cbn [fst snd s_pipe].
        * rewrite Hxs in *. rewrite Eg in C, D. cbn [fst snd] in C, D. split; [exact C|]. intros X. specialize (D X).
          unfold unregister. destruct (id =? 0); cbn [p_seq]; lia.
        * auto.
      + intros x. upd x s; cbn [snd s_pipe]; [|specialize (Hs x); lia]. specialize (Hs s). rewrite Eg in Hs. cbn [snd] in Hs.
        unfold unregister. destruct (id =? 0); cbn [p_seq]; lia.
      + exact Hn.
  Qed.

  Lemma props_mono tr e pr : In pr (g_props (grun tr)) -> In pr (g_props (grun (tr ++ [e]))).
  Proof. rewrite grun_snoc. apply props_step. Qed.

  Theorem inv_run tr :
    calls_small tr -> terms_ok (g_props (grun tr)) -> election_safe (g_props (grun tr)) -> inv tr (grun tr).
  Proof.
    induction tr as [|e tr IH] using rev_ind; intros Hc Ht Hs.
    - apply inv_init.
    - rewrite grun_snoc. apply inv_step.
      + exact Hc.
      + rewrite <- grun_snoc. exact Ht.
      + rewrite <- grun_snoc. exact Hs.
      + apply IH.
        * unfold calls_small in *. pose proof (calls_of_snoc tr e). lia.
        * intros p Hp. apply Ht. apply props_mono. exact Hp.
        * intros p1 p2 H1 H2. apply Hs; apply props_mono; assumption.
  Qed.

  Lemma nodup_map_inj {A} (f : A -> N) (l : list A) a b :
    NoDup (map f l) -> In a l -> In b l -> f a = f b -> a = b.
  Proof.
    induction l as [|x l IH]; cbn [map In]; [contradiction|]. intros Hn Ha Hb E. inversion Hn as [|? ? Hx Hl]; subst.
    destruct Ha as [->|Ha], Hb as [->|Hb]; auto.
    - exfalso. apply Hx. rewrite E. apply in_map. exact Hb.
    - exfalso. apply Hx. rewrite <- E. apply in_map. exact Ha.
  Qed.

  (** C22, response matches. *)
  Theorem response_matches_run tr :
    calls_small tr -> terms_ok (g_props (grun tr)) -> election_safe (g_props (grun tr)) ->
    entries_valid applier init_sm (next_id (W := N)) tr ->
    response_matches (grun tr).
  Proof.
    intros Hc Ht Hs Hv. destruct (inv_run tr Hc Ht Hs) as [_ Hd _ _ Hn].
    intros s k Hk. unfold completions in Hk. destruct (Hd s k Hk) as ((pr & A & B & C & D) & s' & es & e & E1 & E2 & E3).
    destruct (Hv s' es _ _ _ e E1 E2 E3) as (pr' & A' & R' & B' & C').
    assert (pr = pr') as <-. { eapply (nodup_map_inj (fun pr => pkey (pr_region pr) (pr_id pr))); eauto. cbn beta. congruence. }
    exists pr. repeat split; auto.
  Qed.

  (** The ids registered in a run are pairwise different. *)
  Theorem ids_unique_run tr :
    calls_small tr -> terms_ok (g_props (grun tr)) -> election_safe (g_props (grun tr)) ->
    NoDup (map (fun pr => (pr_region pr, pr_id pr)) (g_props (grun tr))).
  Proof.
    intros Hc Ht Hs. destruct (inv_run tr Hc Ht Hs) as [_ _ Hi _ Hn].
    assert (Hsmall : forall pr, In pr (g_props (grun tr)) -> pr_id pr < 2^64).
    { intros pr Hpr. destruct (Hi pr Hpr) as (q & A & B & _). rewrite A. apply mk_id_small; [apply Ht; exact Hpr|lia]. }
    revert Hn Hsmall. generalize (g_props (grun tr)). intros l. induction l as [|x l IH]; cbn [map]; intros Hn Hsm; constructor.
    - inversion Hn as [|? ? Hx Hl]; subst. intros Hin. apply Hx. apply in_map_iff in Hin. destruct Hin as (y & E & Hy).
      apply in_map_iff. exists y. split; [|exact Hy]. inversion E. reflexivity.
    - inversion Hn; subst. apply IH; auto. intros pr Hpr. apply Hsm. right. exact Hpr.
  Qed.

  (** C23, not leader: nothing but the answer. *)
  Lemma not_leader_propose nid term lead region given w (s : store) :
    propose_command nid (VStatus false term lead) region given w s = (s, ONotLeader lead).
  Proof. reflexivity. Qed.
  Lemma not_leader_read nid term lead given (s : store) :
    read_command_start nid (VStatus false term lead) given s = (s, ONotLeader lead).
  Proof. reflexivity. Qed.
  Lemma not_leader_global g s region w c term lead :
    let g' := gstep g (GPropose s region w c (VStatus false term lead)) in
    (forall x, snd (g_stores g' x) = snd (g_stores g x)) /\ g_props g' = g_props g /\
    g_outs g' = (w, ONotLeader lead) :: g_outs g.
  Proof.
    unfold CmdPipeline.gstep, get_store. destruct (g_stores g s) as [i0 st0] eqn:E. cbn [propose_command g_stores g_props g_outs].
    repeat split; auto. intros x. unfold gset. destruct (N.eqb_spec x s); [subst; rewrite E|]; reflexivity.
  Qed.
End ClusterProofs.

(** * C23: a served read reflects every acknowledged write *)
Section Reads.
  Context {cmd resp sm : Type}.
  Variable applier : sm -> cmd -> sm * option resp.
  Notation store := (store cmd resp sm N).
  Notation entry := (entry cmd).

  (** raft log indices are positive and increase along the committed sequence *)
  Definition log_indexed (l : list entry) : Prop :=
    StronglySorted (fun a b => e_index a < e_index b) l /\ Forall (fun e => 0 < e_index e) l.

  Lemma last_index_in (l : list entry) d : last_index l d = d \/ exists e, In e l /\ last_index l d = e_index e.
  Proof.
    revert d. induction l as [|x l IH]; intros d; [left; reflexivity|]. right. cbn [last_index fold_left].
    fold (last_index l (e_index x)). destruct (IH (e_index x)) as [E|(e & He & E)].
    - exists x. split; [left; reflexivity|exact E].
    - exists e. split; [right; exact He|exact E].
  Qed.

  (** the apply mark is 0 or the index of an entry that went through [finishApply] *)
  Lemma run_batches_mark (bs : list (list entry)) : forall (s : store),
    applier_total applier -> Forall (Forall (digestible (cmd := cmd))) bs ->
    s_mark (run_batches applier bs s) = s_mark s \/
    exists e, In e (concat bs) /\ s_mark (run_batches applier bs s) = e_index e.
  Proof.
    induction bs as [|es bs IH]; intros s Ht Hok; [left; reflexivity|].
    inversion Hok as [|? ? He Hbs]; subst. cbn [run_batches fold_left concat].
    fold (run_batches applier bs (fst (handle_committed applier es s))).
    assert (Hm1 : s_mark (fst (handle_committed applier es s)) = N.max (s_mark s) (last_index es 0)).
    { rewrite handle_committed_mark.
      destruct (apply_entries_cmds applier Ht (to_apply es) s (to_apply_ok es He)) as (_ & _ & _ & E). rewrite E. reflexivity. }
    destruct (IH (fst (handle_committed applier es s)) Ht Hbs) as [E|(e & Hin & E)].
    - rewrite E, Hm1. destruct (N.max_spec (s_mark s) (last_index es 0)) as [[Hlt ->]|[_ ->]]; [|left; reflexivity].
      destruct (last_index_in es 0) as [E0|(e & Hin & E0)].
      + rewrite E0 in Hlt. lia.
      + right. exists e. split; [apply in_or_app; left; exact Hin|exact E0].
    - right. exists e. split; [apply in_or_app; right; exact Hin|exact E].
  Qed.

  Lemma sorted_app_lt (a b : list entry) :
    StronglySorted (fun x y => e_index x < e_index y) (a ++ b) ->
    forall x y, In x a -> In y b -> e_index x < e_index y.
  Proof.
    induction a as [|z a IH]; intros Hs x y Hx Hy; [contradiction|].
    cbn [app] in Hs. inversion Hs as [|? ? Hs' Hall]; subst. destruct Hx as [<-|Hx].
    - rewrite Forall_forall in Hall. apply Hall. apply in_or_app. right. exact Hy.
    - apply IH; assumption.
  Qed.

  Theorem read_linearizable (committed : list entry) (bs : list (list entry)) (m : sm) (c : cmd) ridx r n :
    applier_total applier -> Forall (Forall (digestible (cmd := cmd))) bs ->
    log_indexed committed ->
    concat bs = firstn n committed ->
    read_command_serve applier ridx c (run_batches applier bs (store_init m)) = Some r ->
    r = snd (applier (exec_cmds applier m (map snd (cmds_of (firstn n committed)))) c) /\
    (forall acked, (forall e, In e acked -> In e committed /\ e_index e <= ridx) ->
                   forall e, In e acked -> In e (firstn n committed)).
  Proof.
    intros Ht Hok [Hsorted Hpos] Hdel Hserve. unfold read_command_serve in Hserve.
    destruct (wait_applied ridx (run_batches applier bs (store_init m))) eqn:Ew; [|discriminate].
    inversion Hserve; subst r; clear Hserve.
    destruct (same_sequence applier Ht bs (store_init m) Hok) as (_ & Hsm). cbn [store_init s_sm] in Hsm.
    split; [rewrite Hsm, Hdel; reflexivity|].
    intros acked Hack e He. destruct (Hack e He) as [Hin Hle].
    rewrite Forall_forall in Hpos. specialize (Hpos e Hin).
    unfold wait_applied in Ew. apply orb_true_iff in Ew. destruct Ew as [Ew|Ew]; [apply N.eqb_eq in Ew; lia|].
    apply N.leb_le in Ew.
    destruct (run_batches_mark bs (store_init m) Ht Hok) as [E|(ed & Hed & E)].
    - cbn [store_init s_mark] in E. lia.
    - rewrite Hdel in Hed. rewrite <- (firstn_skipn n committed) in Hin, Hsorted.
      apply in_app_or in Hin. destruct Hin as [Hin|Hin]; [exact Hin|].
      pose proof (sorted_app_lt _ _ Hsorted ed e Hed Hin). lia.
  Qed.
End Reads.

(** * Finding F20: before the repair the statement is false *)
Section F20.
  Definition f20_trace : list (gevent rcmd) :=
    [ GPropose 1 1 1 {| c_uid := 1; c_op := RPut 0 1 |} (VStatus true 2 1);   (* store 1, region 1, leader of term 2: first proposal *)
      GPropose 2 1 2 {| c_uid := 2; c_op := RPut 0 2 |} (VStatus true 3 2);   (* store 2, region 1, leader of term 3: first proposal *)
      GDeliver 2 [ {| e_index := 5; e_term := 3; e_kind := ENormal; e_data := PCmd 1 1 {| c_uid := 2; c_op := RPut 0 2 |} |} ];
      GDeliver 1 [ {| e_index := 5; e_term := 3; e_kind := ENormal; e_data := PCmd 1 1 {| c_uid := 2; c_op := RPut 0 2 |} |} ] ].

  Definition run_v0 := CmdPipeline.grun rapply ([] : rsm) (next_id_v0 (W := N)).
  Definition run_v1 := CmdPipeline.grun rapply ([] : rsm) (next_id (W := N)).

  (** With per-store counters both proposals carry id 1; the entry of store 2's
      proposal is the one that commits; when store 1 applies it, the caller of
      proposal 1 is handed the result of command 2.  All assumptions on raft
      hold on this trace. *)
  Lemma f20_refuted :
    exists tr, calls_small tr /\ terms_ok (g_props (run_v0 tr)) /\ election_safe (g_props (run_v0 tr)) /\
               entries_valid rapply ([] : rsm) (next_id_v0 (W := N)) tr /\
               ~ response_matches (run_v0 tr).
  Proof.
    exists f20_trace. split; [|split; [|split; [|split]]].
    - vm_compute. reflexivity.
    - intros p Hp. vm_compute in Hp. destruct Hp as [<-|[<-|[]]]; vm_compute; split; reflexivity.
    - intros p1 p2 H1 H2. vm_compute in H1, H2.
      destruct H1 as [<-|[<-|[]]], H2 as [<-|[<-|[]]]; cbn [pr_term pr_store pr_inc pr_region]; intros R E; auto; discriminate.
    - intros s es region id c e Hin He Hd. cbn [f20_trace In] in Hin.
      destruct Hin as [X|[X|[X|[X|[]]]]]; try discriminate; inversion X; subst; clear X;
        destruct He as [<-|[]]; cbn [e_data] in Hd; inversion Hd; subst;
        (eexists; split; [vm_compute; left; reflexivity|repeat split; reflexivity]).
    - intros H. specialize (H 1 {| k_w := 1; k_by := {| ap_index := 5; ap_term := 3; ap_region := 1; ap_reqid := 1;
                                   ap_cmd := {| c_uid := 2; c_op := RPut 0 2 |}; ap_res := ROk (2, None) |} |}).
      destruct H as (pr & Hin & Hw & _ & _ & _ & Hc); [vm_compute; left; reflexivity|].
      vm_compute in Hin. cbn [k_w k_by ap_cmd] in Hw, Hc.
      destruct Hin as [<-|[<-|[]]]; cbn [pr_w pr_cmd] in Hw, Hc; discriminate.
  Qed.

  (** The assumptions of the repaired theorem are satisfiable on the same
      (non-trivial) scenario, where now the ids differ and the entry applied on
      store 1 carries store 2's id. *)
  Definition f20_trace_fixed : list (gevent rcmd) :=
    [ GPropose 1 1 1 {| c_uid := 1; c_op := RPut 0 1 |} (VStatus true 2 1);
      GPropose 2 1 2 {| c_uid := 2; c_op := RPut 0 2 |} (VStatus true 3 2);
      GDeliver 2 [ {| e_index := 5; e_term := 3; e_kind := ENormal; e_data := PCmd 1 (mk_id 3 1) {| c_uid := 2; c_op := RPut 0 2 |} |} ];
      GDeliver 1 [ {| e_index := 5; e_term := 3; e_kind := ENormal; e_data := PCmd 1 (mk_id 3 1) {| c_uid := 2; c_op := RPut 0 2 |} |} ] ].

  Lemma f20_fixed_hyps :
    calls_small f20_trace_fixed /\ terms_ok (g_props (run_v1 f20_trace_fixed)) /\
    election_safe (g_props (run_v1 f20_trace_fixed)) /\
    entries_valid rapply ([] : rsm) (next_id (W := N)) f20_trace_fixed /\
    completions (run_v1 f20_trace_fixed) 2 <> [] /\ completions (run_v1 f20_trace_fixed) 1 = [].
  Proof.
    split; [|split; [|split; [|split; [|split]]]].
    - vm_compute. reflexivity.
    - intros p Hp. vm_compute in Hp. destruct Hp as [<-|[<-|[]]]; vm_compute; split; reflexivity.
    - intros p1 p2 H1 H2. vm_compute in H1, H2.
      destruct H1 as [<-|[<-|[]]], H2 as [<-|[<-|[]]]; cbn [pr_term pr_store pr_inc pr_region]; intros R E; auto; discriminate.
    - intros s es region id c e Hin He Hd. cbn [f20_trace_fixed In] in Hin.
      destruct Hin as [X|[X|[X|[X|[]]]]]; try discriminate; inversion X; subst; clear X;
        destruct He as [<-|[]]; cbn [e_data] in Hd; inversion Hd; subst;
        (eexists; split; [vm_compute; left; reflexivity|repeat split; reflexivity]).
    - vm_compute. discriminate.
    - vm_compute. reflexivity.
  Qed.

  (** ** The same failure across regions (code of commit b93c45d: waiters keyed
      by the request id alone).  Raft terms are per region: store 1 leading
      region 1 and store 2 leading region 2 in the same term number both hand
      out [mk_id term 1]; store 1, a follower of region 2, applies store 2's
      entry and the waiter of its own region-1 proposal receives the result. *)
  Lemma region_collision_refuted :
    exists (p1 p2 : pipe N) (w : N),
      register_v1 1 (mk_id 2 1) w pipe_init = (RegOk, p1) /\
      complete_v1 2 (mk_id 2 1) p1 = (p2, Some w).
  Proof. eexists _, _, 7. split; vm_compute; reflexivity. Qed.

  (** With the region in the key an entry of another region completes nobody. *)
  Lemma complete_other_region r1 r2 id (w : N) (p p1 : pipe N) :
    r1 <> r2 -> id < 2^64 -> register r1 id w p = (RegOk, p1) ->
    lookup (pkey r2 id) (p_props p) = None -> complete r2 id p1 = (p1, None).
  Proof.
    unfold register, complete. intros Hr Hid. destruct (id =? 0) eqn:E0; [discriminate|].
    destruct (lookup (pkey r1 id) (p_props p)); [discriminate|]. intros H; inversion H; subst; clear H.
    intros Hn. cbn [p_props lookup]. destruct (pkey r1 id =? pkey r2 id) eqn:E.
    - apply N.eqb_eq in E. apply pkey_inj in E; auto. tauto.
    - rewrite Hn. reflexivity.
  Qed.

  (** The two-region scenario on the repaired model: all premises hold (the
      terms coincide, but in different regions), the ids coincide, and store 1's
      caller is not answered by region 2's entry. *)
  Definition two_region_trace : list (gevent rcmd) :=
    [ GPropose 1 1 1 {| c_uid := 1; c_op := RPut 0 1 |} (VStatus true 2 1);   (* store 1 leads region 1 in term 2 *)
      GPropose 2 2 2 {| c_uid := 2; c_op := RPut 2 2 |} (VStatus true 2 2);   (* store 2 leads region 2 in term 2 *)
      GDeliver 2 [ {| e_index := 5; e_term := 2; e_kind := ENormal; e_data := PCmd 2 (mk_id 2 1) {| c_uid := 2; c_op := RPut 2 2 |} |} ];
      GDeliver 1 [ {| e_index := 5; e_term := 2; e_kind := ENormal; e_data := PCmd 2 (mk_id 2 1) {| c_uid := 2; c_op := RPut 2 2 |} |} ] ].

  Lemma two_region_hyps :
    calls_small two_region_trace /\ terms_ok (g_props (run_v1 two_region_trace)) /\
    election_safe (g_props (run_v1 two_region_trace)) /\
    entries_valid rapply ([] : rsm) (next_id (W := N)) two_region_trace /\
    map pr_id (g_props (run_v1 two_region_trace)) = [mk_id 2 1; mk_id 2 1] /\
    completions (run_v1 two_region_trace) 2 <> [] /\ completions (run_v1 two_region_trace) 1 = [].
  Proof.
    split; [|split; [|split; [|split; [|split; [|split]]]]].
    - vm_compute. reflexivity.
    - intros p Hp. vm_compute in Hp. destruct Hp as [<-|[<-|[]]]; vm_compute; split; reflexivity.
    - intros p1 p2 H1 H2. vm_compute in H1, H2.
      destruct H1 as [<-|[<-|[]]], H2 as [<-|[<-|[]]]; cbn [pr_term pr_store pr_inc pr_region]; intros R E; auto; discriminate.
    - intros s es region id c e Hin He Hd. cbn [two_region_trace In] in Hin.
      destruct Hin as [X|[X|[X|[X|[]]]]]; try discriminate; inversion X; subst; clear X;
        destruct He as [<-|[]]; cbn [e_data] in Hd; inversion Hd; subst;
        (eexists; split; [vm_compute; left; reflexivity|repeat split; reflexivity]).
    - vm_compute. reflexivity.
    - vm_compute. discriminate.
    - vm_compute. reflexivity.
  Qed.
End F20.

(** * The observed-trace oracles decide their specifications *)
Lemma agree_b_spec evs : agree_b evs = true <-> agree evs.
Proof.
  unfold agree_b, agree. rewrite forallb_forall. split.
  - intros H s g i id c s' id' c' H1 H2. specialize (H _ H1). rewrite forallb_forall in H. specialize (H _ H2).
    cbn in H. rewrite !N.eqb_refl in H. cbn in H. apply andb_true_iff in H. destruct H as [Hid Hc].
    apply N.eqb_eq in Hid. auto.
  - intros H [[[[s g] i] id] c] H1. rewrite forallb_forall. intros [[[[s' g'] i'] id'] c'] H2.
    destruct (g =? g') eqn:Eg; [|reflexivity]. destruct (i =? i') eqn:E; [|reflexivity].
    apply N.eqb_eq in E, Eg. subst i' g'. cbn [negb orb andb].
    destruct (H _ _ _ _ _ _ _ _ H1 H2) as [-> Hc]. rewrite N.eqb_refl, Hc. reflexivity.
Qed.

(** * The premises of [same_sequence_committed] / [read_linearizable] are satisfiable *)
Definition ex_ap (m : list N) (c : N) : list N * option (list N) := (c :: m, Some m).
Definition ex_e (i c : N) : entry N := {| e_index := i; e_term := 1; e_kind := ENormal; e_data := PCmd 1 i c |}.
Definition ex_committed := [ex_e 1 10; ex_e 2 20; ex_e 3 30].
Definition ex_bs := [[ex_e 1 10]; [ex_e 2 20]].
Example read_linearizable_premises :
  applier_total ex_ap /\ Forall (Forall digestible) ex_bs /\ log_indexed ex_committed /\
  concat ex_bs = firstn 2 ex_committed /\
  read_command_serve ex_ap 2 99 (run_batches ex_ap ex_bs (store_init (W := N) [])) = Some (Some [20; 10]) /\
  applied_cmds (run_batches (resp := list N) ex_ap ex_bs (store_init [])) = cmds_of (firstn 2 ex_committed).
Proof.
  split; [intros m c; discriminate|].
  split; [repeat constructor|].
  split; [split; repeat constructor; cbn; lia|].
  split; [reflexivity|]. split; vm_compute; reflexivity.
Qed.

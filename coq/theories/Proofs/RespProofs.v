(** Proofs for C31 (RESP parser): totality, allocation bound, round trips. *)
From Coq Require Import List NArith ZArith Bool Lia ZifyN ZifyNat ZifyBool.
From Coq Require Import Init.Byte String.
From NoKV Require Import Base.Bytes Model.Resp Spec.RespSpec.
Import ListNotations.
Local Open Scope N_scope.

(** * The unrepaired parser (no caps on declared lengths) violates both halves. *)
Definition is_panic (r : presult) : bool := match r with PPanic _ => true | _ => false end.

(* "*2147483647\r\n": 13 bytes make the parser request 24 * (2^31-1) bytes. *)
Definition f27_alloc_witness : bytes := unhex "2a323134373438333634370d0a"%string.
(* "*9223372036854775807\r\n": make panics (cap out of range); handleConn has no recover. *)
Definition f27_panic_witness : bytes := unhex "2a393232333337323033363835343737353830370d0a"%string.
(* "*1\r\n$2147483647\r\n": a 2 GiB buffer for 17 bytes. *)
Definition f27_bulk_witness : bytes := unhex "2a310d0a24323134373438333634370d0a"%string.

Lemma unrepaired_alloc_refuted :
  exists s, let '(al, r) := parse unrepaired_limits s in
            ~ alloc_bounded (len s) al /\ 51539607528 <= sumN al.
Proof. exists f27_alloc_witness. vm_compute. split; [intro H; apply H; reflexivity | discriminate]. Qed.

Lemma unrepaired_bulk_alloc_refuted :
  exists s, let '(al, r) := parse unrepaired_limits s in ~ alloc_bounded (len s) al.
Proof. exists f27_bulk_witness. vm_compute. intro H; apply H; reflexivity. Qed.

Lemma unrepaired_total_refuted :
  exists s, is_panic (snd (parse unrepaired_limits s)) = true.
Proof. exists f27_panic_witness. vm_compute. reflexivity. Qed.

(** * Basic facts *)
Lemma frev_rev (l : bytes) : frev l = rev l.
Proof. unfold frev. symmetry. apply rev_alt. Qed.

Lemma len_cons b (s : bytes) : len (b :: s) = len s + 1.
Proof. unfold len. cbn [List.length]. lia. Qed.

Lemma len_app (a b : bytes) : len (a ++ b) = len a + len b.
Proof. unfold len. rewrite app_length. lia. Qed.

Lemma len_nil : len [] = 0.
Proof. reflexivity. Qed.

Lemma sumN_cons x a : sumN (x :: a) = x + sumN a.
Proof. reflexivity. Qed.

Lemma sumN_app a b : sumN (a ++ b) = sumN a + sumN b.
Proof. induction a as [|x a IH]; cbn [app]; [reflexivity|]. rewrite !sumN_cons, IH. lia. Qed.

Lemma split_lf_spec s pre rest : split_lf s = Some (pre, rest) -> s = pre ++ LF :: rest.
Proof.
  revert pre rest. induction s as [|b s IH]; intros pre rest H; cbn [split_lf] in H; [discriminate|].
  destruct (byte_eqb b LF) eqn:E.
  - inversion H; subst. apply byte_eqb_eq in E. now subst.
  - destruct (split_lf s) as [[l r]|]; [|discriminate]. inversion H; subst.
    cbn [app]. f_equal. now apply IH.
Qed.

Lemma read_line_ok_len s line rest : read_line s = LOk line rest -> len s = len line + 2 + len rest.
Proof.
  unfold read_line. destruct (split_lf s) as [[pre r]|] eqn:E; [|discriminate].
  apply split_lf_spec in E. rewrite frev_rev.
  destruct (rev pre) as [|c p] eqn:Er; [discriminate|].
  destruct (byte_eqb c CR); [|discriminate]. intro H; inversion H; subst.
  assert (Hp : pre = rev p ++ [c]).
  { rewrite <- (rev_involutive pre), Er. reflexivity. }
  rewrite frev_rev, Hp. rewrite !len_app, !len_cons, len_nil. lia.
Qed.

Lemma read_line_bad_len s rest : read_line s = LBad rest -> len rest < len s.
Proof.
  unfold read_line. destruct (split_lf s) as [[pre r]|] eqn:E; [|discriminate].
  apply split_lf_spec in E. rewrite frev_rev.
  assert (Hl : len r < len s) by (subst s; rewrite len_app, len_cons; lia).
  destruct (rev pre) as [|c p]; [intro H; inversion H; now subst|].
  destruct (byte_eqb c CR); [discriminate|]. intro H; inversion H; now subst.
Qed.

Lemma expect_crlf_len s o r : expect_crlf s = (o, r) -> len r <= len s.
Proof.
  unfold expect_crlf. destruct s as [|b1 s1]; [intro H; inversion H; subst; lia|].
  destruct (negb (byte_eqb b1 CR)); [intro H; inversion H; subst; rewrite len_cons; lia|].
  destruct s1 as [|b2 s2]; [intro H; inversion H; subst; rewrite len_nil; lia|].
  destruct (negb (byte_eqb b2 LF)); intro H; inversion H; subst; rewrite !len_cons; lia.
Qed.

Lemma len_firstn_skipn (n : nat) (s : bytes) : len (skipn n s) <= len s.
Proof. unfold len. rewrite skipn_length. lia. Qed.

Lemma len_skipn_exact (l : N) (s : bytes) : l <= len s -> len (skipn (N.to_nat l) s) = len s - l.
Proof. unfold len. rewrite skipn_length. lia. Qed.

(** * readBulk: allocation sequence *)
Lemma bulk_base fuel l c avail : l <= c -> fst (bulk_allocs fuel l c avail) = [c].
Proof.
  intro H. destruct fuel; cbn [bulk_allocs]; destruct (avail <? c); try reflexivity;
    destruct (l <=? c) eqn:E; try reflexivity; lia.
Qed.

Lemma bulk_no_fuel fuel : forall l c avail,
  l <= c * 2 ^ N.of_nat fuel -> snd (bulk_allocs fuel l c avail) <> BFuel.
Proof.
  induction fuel as [|f IH]; intros l c avail H; cbn [bulk_allocs].
  - destruct (avail <? c); [cbn; discriminate|]. destruct (l <=? c) eqn:E; [cbn; discriminate|].
    cbn in H. lia.
  - destruct (avail <? c); [cbn; discriminate|]. destruct (l <=? c) eqn:E; [cbn; discriminate|].
    specialize (IH l (N.min l (2 * c)) avail).
    destruct (bulk_allocs f l (N.min l (2 * c)) avail) as [a st]. cbn [snd] in *. apply IH.
    rewrite Nat2N.inj_succ, N.pow_succ_r' in H.
    destruct (N.min_spec l (2 * c)) as [[_ ->]|[_ ->]].
    + pose proof (N.pow_nonzero 2 (N.of_nat f)). nia.
    + lia.
Qed.

Lemma bulk_full fuel : forall l c avail,
  l <= avail -> c <= l -> snd (bulk_allocs fuel l c avail) <> BShort.
Proof.
  induction fuel as [|f IH]; intros l c avail Ha Hc; cbn [bulk_allocs].
  - destruct (avail <? c) eqn:E1; [lia|]. destruct (l <=? c); cbn; discriminate.
  - destruct (avail <? c) eqn:E1; [lia|]. destruct (l <=? c); [cbn; discriminate|].
    specialize (IH l (N.min l (2 * c)) avail Ha).
    destruct (bulk_allocs f l (N.min l (2 * c)) avail) as [a st]. cbn [snd] in *. apply IH. lia.
Qed.

(** Every chunk but the failing one was filled from the stream, and chunks
    double: the total is at most four times what the stream delivered. *)
Lemma bulk_sum fuel : forall l c avail,
  c <= l ->
  sumN (fst (bulk_allocs fuel l c avail)) <= N.max c (4 * N.min avail l - c).
Proof.
  induction fuel as [|f IH]; intros l c avail Hc; cbn [bulk_allocs].
  - destruct (avail <? c); [cbn; lia|]. destruct (l <=? c); cbn; lia.
  - destruct (avail <? c) eqn:E1; [cbn; lia|]. destruct (l <=? c) eqn:E2; [cbn; lia|].
    destruct (N.min_spec l (2 * c)) as [[Hm Hmin]|[Hm Hmin]].
    + (* next chunk is the last one: l *)
      pose proof (bulk_base f l (N.min l (2 * c)) avail ltac:(lia)) as Hb.
      destruct (bulk_allocs f l (N.min l (2 * c)) avail) as [a st]. cbn [fst] in *. subst a.
      rewrite sumN_cons. cbn [sumN fold_right]. lia.
    + specialize (IH l (N.min l (2 * c)) avail ltac:(lia)).
      destruct (bulk_allocs f l (N.min l (2 * c)) avail) as [a st]. cbn [fst] in *.
      rewrite sumN_cons. rewrite Hmin in IH. lia.
Qed.

Lemma bulk_full_avail fuel : forall l c avail,
  snd (bulk_allocs fuel l c avail) = BFull -> l <= avail.
Proof.
  induction fuel as [|f IH]; intros l c avail; cbn [bulk_allocs].
  - destruct (avail <? c) eqn:E1; [cbn; discriminate|]. destruct (l <=? c) eqn:E2; cbn; [lia|discriminate].
  - destruct (avail <? c) eqn:E1; [cbn; discriminate|]. destruct (l <=? c) eqn:E2; [cbn; lia|].
    specialize (IH l (N.min l (2 * c)) avail).
    destruct (bulk_allocs f l (N.min l (2 * c)) avail) as [a st]. exact IH.
Qed.

(** * The element loop *)
Definition eres_rest (r : eres) : bytes :=
  match r with EDone s | EFail _ s | EPanic s => s | EFuel => [] end.
Definition eres_slack (r : eres) : N := match r with EDone _ => 0 | _ => 65536 end.

Lemma parse_elems_S f L n s :
  parse_elems (S f) L n s =
  if n =? 0 then ([], [], EDone s) else
  match s with
  | [] => ([], [], EFail EEOF [])
  | b :: s1 =>
      if negb (byte_eqb b DOLLAR) then ([], [], EFail EExpectedBulk s1) else
      match read_line s1 with
      | LEof => ([], [], EFail EEOF [])
      | LBad r => ([], [], EFail EBadTerminator r)
      | LOk line r =>
          match atoi line with
          | None => ([], [], EFail EInvalidBulk r)
          | Some lz =>
              if over (lim_bulk L) lz then ([], [], EFail EInvalidBulk r)
              else if (lz <? 0)%Z then
                let '(al, args, res) := parse_elems f L (n - 1) r in (al, None :: args, res)
              else
                let l := Z.to_N lz in
                let c0 := capped (pre_bulk L) l in
                if max_alloc <? c0 then ([], [], EPanic r) else
                let '(ba, st) := bulk_allocs bulk_fuel l c0 (len r) in
                match st with
                | BFuel => (ba, [], EFuel)
                | BShort => (ba, [], EFail (if len r =? 0 then EEOF else EUnexpectedEOF) [])
                | BFull =>
                    let data := firstn (N.to_nat l) r in
                    let r2 := skipn (N.to_nat l) r in
                    match expect_crlf r2 with
                    | (Some e, r3) => (ba, [], EFail e r3)
                    | (None, r3) =>
                        let '(al, args, res) := parse_elems f L (n - 1) r3 in
                        (ba ++ al, Some data :: args, res)
                    end
                end
          end
      end
  end.
Proof. reflexivity. Qed.

Lemma parse_elems_0 f L s : parse_elems f L 0 s = ([], [], EDone s).
Proof. destruct f; reflexivity. Qed.

Lemma elems_inv fuel : forall n s al args res,
  parse_elems fuel repaired_limits n s = (al, args, res) ->
  (len s < N.of_nat fuel -> res <> EFuel)
  /\ (forall r, res <> EPanic r)
  /\ len (eres_rest res) <= len s
  /\ sumN al + 4 * len (eres_rest res) <= 4 * len s + eres_slack res.
Proof.
  induction fuel as [|f IH]; intros n s al args res H.
  - destruct (n =? 0) eqn:En.
    + apply N.eqb_eq in En; subst n. rewrite parse_elems_0 in H. inversion H; subst.
      cbn [eres_rest eres_slack sumN fold_right]. repeat split; try discriminate; lia.
    + cbn [parse_elems] in H. rewrite En in H. inversion H; subst.
      cbn [eres_rest eres_slack sumN fold_right]. rewrite len_nil.
      repeat split; try discriminate; lia.
  - rewrite parse_elems_S in H.
    destruct (n =? 0) eqn:En.
    { inversion H; subst. cbn [eres_rest eres_slack sumN fold_right]. repeat split; try discriminate; lia. }
    destruct s as [|b s1].
    { inversion H; subst. cbn [eres_rest eres_slack sumN fold_right]. repeat split; try discriminate; lia. }
    rewrite len_cons.
    destruct (negb (byte_eqb b DOLLAR)).
    { inversion H; subst. cbn [eres_rest eres_slack sumN fold_right]. repeat split; try discriminate; lia. }
    destruct (read_line s1) as [line r|r|] eqn:Erl.
    2:{ apply read_line_bad_len in Erl. inversion H; subst.
        cbn [eres_rest eres_slack sumN fold_right]. repeat split; try discriminate; lia. }
    2:{ inversion H; subst. cbn [eres_rest eres_slack sumN fold_right]. rewrite len_nil.
        repeat split; try discriminate; lia. }
    apply read_line_ok_len in Erl.
    destruct (atoi line) as [lz|].
    2:{ inversion H; subst. cbn [eres_rest eres_slack sumN fold_right]. repeat split; try discriminate; lia. }
    destruct (over (lim_bulk repaired_limits) lz) eqn:Eov.
    { inversion H; subst. cbn [eres_rest eres_slack sumN fold_right]. repeat split; try discriminate; lia. }
    cbn [over lim_bulk repaired_limits] in Eov.
    destruct (lz <? 0)%Z eqn:Eneg.
    { destruct (parse_elems f repaired_limits (n - 1) r) as [[al' args'] res'] eqn:Erec.
      inversion H; subst. specialize (IH _ _ _ _ _ Erec) as (I1 & I2 & I3 & I4).
      repeat split; [intro Hf; apply I1; lia | exact I2 | lia | lia]. }
    cbn zeta in H. cbn [capped pre_bulk repaired_limits] in H.
    set (l := Z.to_N lz) in *.
    assert (Hl : l <= 536870912) by lia.
    destruct (max_alloc <? N.min l 65536) eqn:Emax.
    { unfold max_alloc in Emax. lia. }
    pose proof (bulk_no_fuel bulk_fuel l (N.min l 65536) (len r)) as Hnf.
    pose proof (bulk_sum bulk_fuel l (N.min l 65536) (len r) ltac:(lia)) as Hsum.
    pose proof (bulk_full_avail bulk_fuel l (N.min l 65536) (len r)) as Hfa.
    destruct (bulk_allocs bulk_fuel l (N.min l 65536) (len r)) as [ba st]. cbn [fst snd] in *.
    destruct st.
    + (* BFull *)
      specialize (Hfa eq_refl).
      destruct (expect_crlf (skipn (N.to_nat l) r)) as [[e|] r3] eqn:Ecr.
      * apply expect_crlf_len in Ecr. rewrite len_skipn_exact in Ecr by exact Hfa.
        inversion H; subst. cbn [eres_rest eres_slack].
        repeat split; try discriminate; lia.
      * assert (Hr3 : len r3 + 2 = len r - l).
        { unfold expect_crlf in Ecr. pose proof (len_skipn_exact l r Hfa) as Hsk.
          destruct (skipn (N.to_nat l) r) as [|b1 [|b2 s2]].
          - inversion Ecr.
          - destruct (negb (byte_eqb b1 CR)); inversion Ecr.
          - destruct (negb (byte_eqb b1 CR)); [inversion Ecr|].
            destruct (negb (byte_eqb b2 LF)); inversion Ecr; subst.
            rewrite !len_cons in Hsk. lia. }
        destruct (parse_elems f repaired_limits (n - 1) r3) as [[al' args'] res'] eqn:Erec.
        inversion H; subst. specialize (IH _ _ _ _ _ Erec) as (I1 & I2 & I3 & I4).
        rewrite sumN_app.
        repeat split; [intro Hf; apply I1; lia | exact I2 | lia | lia].
    + (* BShort *)
      inversion H; subst. cbn [eres_rest eres_slack]. rewrite len_nil.
      repeat split; try discriminate; lia.
    + (* BFuel *)
      exfalso. apply Hnf; [|reflexivity].
      unfold bulk_fuel. change (2 ^ N.of_nat 40) with 1099511627776.
      destruct (N.min_spec l 65536) as [[_ ->]|[_ ->]]; lia.
Qed.

(** * strings.Fields never returns more fields than bytes *)
Definition pending (cur : bytes) : nat := match cur with [] => 0 | _ => 1 end.

Lemma fields_aux_len s : forall k cur,
  (List.length (fields_aux k cur s) <= List.length s + pending cur)%nat.
Proof.
  induction s as [|b s IH]; intros k cur; cbn [fields_aux].
  - destruct cur; cbn; lia.
  - destruct k as [|k].
    + destruct (ws_len (b :: s)) as [|k'].
      * specialize (IH 0%nat (b :: cur)). cbn [pending List.length] in *. lia.
      * rewrite app_length. specialize (IH k' []). cbn [pending List.length] in *.
        destruct cur; cbn [flush List.length pending] in *; lia.
    + specialize (IH k cur). cbn [List.length]. lia.
Qed.

Lemma fields_len s : (List.length (fields s) <= List.length s)%nat.
Proof. unfold fields. pose proof (fields_aux_len s 0 []). cbn [pending] in *. lia. Qed.

(** * C31: totality and the allocation bound of the parser as it is now *)
Definition presult_rest (r : presult) : bytes :=
  match r with POk _ _ s | PErr _ s | PPanic s => s | POutOfFuel => [] end.

Definition no_panic (r : presult) : Prop :=
  match r with PPanic _ | POutOfFuel => False | _ => True end.

Lemma parse_inv s :
  let '(al, r) := parse repaired_limits s in
  no_panic r /\ len (presult_rest r) <= len s
  /\ alloc_bounded (len s - len (presult_rest r)) al.
Proof.
  unfold parse, alloc_bounded, alloc_c1, alloc_c0.
  destruct s as [|b s1]; [cbn; repeat split; lia|].
  destruct (byte_eqb b STAR).
  - rewrite len_cons.
    destruct (read_line s1) as [line r|r|] eqn:Erl.
    2:{ apply read_line_bad_len in Erl. cbn [no_panic presult_rest sumN fold_right]. repeat split; lia. }
    2:{ cbn [no_panic presult_rest sumN fold_right]. rewrite len_nil. repeat split; lia. }
    apply read_line_ok_len in Erl.
    destruct (atoi line) as [nz|]; [|cbn [no_panic presult_rest sumN fold_right]; repeat split; lia].
    destruct (over (lim_multibulk repaired_limits) nz) eqn:Eov;
      [cbn [no_panic presult_rest sumN fold_right]; repeat split; lia|].
    cbn [over lim_multibulk repaired_limits] in Eov.
    destruct (nz <? 0)%Z; [cbn [no_panic presult_rest sumN fold_right]; repeat split; lia|].
    cbn zeta. cbn [capped pre_multibulk repaired_limits].
    set (n := Z.to_N nz).
    destruct (max_alloc <? 24 * N.min n 1024) eqn:Emax; [unfold max_alloc in Emax; lia|].
    destruct (parse_elems (S (List.length r)) repaired_limits n r) as [[al args] res] eqn:Ee.
    apply elems_inv in Ee as (I1 & I2 & I3 & I4).
    assert (Hfuel : len r < N.of_nat (S (List.length r))) by (unfold len; lia).
    specialize (I1 Hfuel). rewrite sumN_cons.
    destruct res as [rest|e rest|rest|]; cbn [no_panic presult_rest eres_rest eres_slack] in *.
    + repeat split; lia.
    + repeat split; lia.
    + exfalso. eapply I2. reflexivity.
    + congruence.
  - destruct (read_line (b :: s1)) as [line r|r|] eqn:Erl.
    2:{ apply read_line_bad_len in Erl. cbn [no_panic presult_rest sumN fold_right]. repeat split; lia. }
    2:{ cbn [no_panic presult_rest sumN fold_right]. rewrite len_nil. repeat split; lia. }
    apply read_line_ok_len in Erl.
    destruct line as [|c line']; [cbn [no_panic presult_rest sumN fold_right]; repeat split; lia|].
    cbn [no_panic presult_rest]. pose proof (fields_len (c :: line')) as Hf.
    cbn [sumN fold_right]. unfold len in *. repeat split; lia.
Qed.

Theorem parse_total s : no_panic (snd (parse repaired_limits s)).
Proof. pose proof (parse_inv s) as H. destruct (parse repaired_limits s). cbn [snd]. tauto. Qed.

Theorem parse_alloc s :
  let '(al, r) := parse repaired_limits s in
  len (presult_rest r) <= len s /\ alloc_bounded (len s - len (presult_rest r)) al.
Proof. pose proof (parse_inv s) as H. destruct (parse repaired_limits s). tauto. Qed.

Example parse_alloc_nontrivial :
  parse repaired_limits (unhex "2a310d0a243533363837303931320d0a616263"%string)
  = ([24; 65536], PErr EUnexpectedEOF []).
Proof. vm_compute. reflexivity. Qed.

(** * Decimal round trip: Atoi (Itoa n) = n *)
Lemma digit_val_byte d : d < 10 -> digit_val (digit_byte d) = Some d.
Proof.
  intro H. unfold digit_val, digit_byte. rewrite b2n_n2b by lia.
  destruct ((48 <=? 48 + d) && (48 + d <=? 57)) eqn:E; [f_equal; lia | lia].
Qed.

Lemma parse_digits_app a b : forall acc,
  parse_digits acc (a ++ b) =
  match parse_digits acc a with Some q => parse_digits q b | None => None end.
Proof.
  induction a as [|x a IH]; intro acc; cbn [app parse_digits]; [reflexivity|].
  destruct (digit_val x); [apply IH | reflexivity].
Qed.

Lemma digits_rev_value fuel : forall n,
  n < 2 ^ N.of_nat fuel -> parse_digits 0 (rev (digits_rev fuel n)) = Some n.
Proof.
  induction fuel as [|f IH]; intros n H.
  - cbn in H. assert (n = 0) by lia. subst. reflexivity.
  - cbn [digits_rev]. destruct (n <? 10) eqn:E.
    + cbn [rev app parse_digits]. rewrite digit_val_byte by lia. f_equal; lia.
    + cbn [rev]. rewrite parse_digits_app.
      rewrite Nat2N.inj_succ, N.pow_succ_r' in H.
      assert (Hd : n / 10 < 2 ^ N.of_nat f).
      { apply N.div_lt_upper_bound; lia. }
      rewrite (IH _ Hd). cbn [parse_digits].
      assert (n mod 10 < 10) by (apply N.mod_lt; lia).
      rewrite digit_val_byte by lia. f_equal.
      pose proof (N.div_mod' n 10). lia.
Qed.

Definition is_digit_byte (b : byte) : Prop := exists d, d < 10 /\ b = digit_byte d.

Lemma digits_rev_digits fuel : forall n, Forall is_digit_byte (digits_rev fuel n).
Proof.
  induction fuel as [|f IH]; intro n; cbn [digits_rev]; [constructor|].
  destruct (n <? 10) eqn:E.
  - constructor; [|constructor]. exists n. split; [lia|reflexivity].
  - constructor; [|apply IH]. exists (n mod 10). split; [apply N.mod_lt; lia | reflexivity].
Qed.

Lemma itoa_digits n : Forall is_digit_byte (itoa_N n).
Proof. unfold itoa_N. apply Forall_rev. apply digits_rev_digits. Qed.

Lemma itoa_nonempty n : itoa_N n <> [].
Proof.
  unfold itoa_N. cbn [digits_rev]. destruct (n <? 10); cbn [rev]; intro H;
    apply app_eq_nil in H as [_ H]; discriminate.
Qed.

Lemma itoa_value n : parse_digits 0 (itoa_N n) = Some n.
Proof.
  unfold itoa_N. apply digits_rev_value.
  destruct (N.eq_dec n 0) as [->|Hn]; [cbn; lia|].
  rewrite Nat2N.inj_succ, N2Nat.id. apply N.log2_spec. lia.
Qed.

Lemma digit_byte_b2n b : is_digit_byte b -> 48 <= b2n b <= 57.
Proof. intros [d [Hd ->]]. unfold digit_byte. rewrite b2n_n2b by lia. lia. Qed.

Lemma digit_not b c : is_digit_byte b -> (b2n c < 48 \/ 57 < b2n c) -> byte_eqb b c = false.
Proof.
  intros Hb Hc. apply byte_eqb_neq. intro E. subst c. apply digit_byte_b2n in Hb. lia.
Qed.

Lemma atoi_itoa n : n < int64_bound -> atoi (itoa_N n) = Some (Z.of_N n).
Proof.
  intro Hn. pose proof (itoa_digits n) as Hd. pose proof (itoa_nonempty n) as Hne.
  pose proof (itoa_value n) as Hv.
  unfold atoi. destruct (itoa_N n) as [|b s'] eqn:E; [congruence|].
  inversion Hd as [|? ? Hb _]; subst.
  rewrite (digit_not b MINUS Hb) by (left; vm_compute; reflexivity).
  rewrite (digit_not b PLUS Hb) by (left; vm_compute; reflexivity).
  unfold atoi_signed. rewrite Hv.
  destruct (n <? int64_bound) eqn:E2; [reflexivity|lia].
Qed.

(** * readLine on a line without LF *)
Definition no_lf (l : bytes) : Prop := Forall (fun b => byte_eqb b LF = false) l.

Lemma split_lf_line l rest : no_lf l -> split_lf (l ++ CR :: LF :: rest) = Some (l ++ [CR], rest).
Proof.
  induction 1 as [|b l Hb _ IH]; cbn [app split_lf].
  - rewrite byte_eqb_refl. reflexivity.
  - rewrite Hb, IH. reflexivity.
Qed.

Lemma read_line_line l rest : no_lf l -> read_line (l ++ CR :: LF :: rest) = LOk l rest.
Proof.
  intro H. unfold read_line. rewrite (split_lf_line l rest H).
  rewrite frev_rev, rev_app_distr. cbn [rev app]. rewrite byte_eqb_refl.
  rewrite frev_rev, rev_involutive. reflexivity.
Qed.

Lemma itoa_no_lf n : no_lf (itoa_N n).
Proof.
  eapply Forall_impl; [|apply itoa_digits]. intros b Hb. apply digit_not; [exact Hb|].
  left. vm_compute. reflexivity.
Qed.

(** * Round trip: arrays *)
Lemma firstn_len_app (d t : bytes) : firstn (N.to_nat (len d)) (d ++ t) = d.
Proof.
  unfold len. rewrite Nat2N.id. induction d as [|x d IH]; cbn [List.length firstn app]; [now destruct t|].
  now rewrite IH.
Qed.

Lemma skipn_len_app (d t : bytes) : skipn (N.to_nat (len d)) (d ++ t) = t.
Proof.
  unfold len. rewrite Nat2N.id. induction d as [|x d IH]; cbn [List.length skipn app]; [reflexivity|].
  exact IH.
Qed.

Lemma bulk_status_full l avail :
  l <= 536870912 -> l <= avail ->
  snd (bulk_allocs bulk_fuel l (N.min l 65536) avail) = BFull.
Proof.
  intros Hl Ha.
  pose proof (bulk_no_fuel bulk_fuel l (N.min l 65536) avail) as H1.
  pose proof (bulk_full bulk_fuel l (N.min l 65536) avail Ha ltac:(lia)) as H2.
  destruct (snd (bulk_allocs bulk_fuel l (N.min l 65536) avail)); [reflexivity|congruence|].
  exfalso. apply H1; [|reflexivity].
  unfold bulk_fuel. change (2 ^ N.of_nat 40) with 1099511627776.
  destruct (N.min_spec l 65536) as [[_ ->]|[_ ->]]; lia.
Qed.

Lemma enc_bulk_len_pos a : (1 <= List.length (enc_bulk a))%nat.
Proof. destruct a; cbn [enc_bulk List.length]; lia. Qed.

Lemma elems_roundtrip args : forall rest fuel,
  forallb bulk_within args = true ->
  (List.length (List.concat (map enc_bulk args) ++ rest) < fuel)%nat ->
  exists al, parse_elems fuel repaired_limits (N.of_nat (List.length args))
               (List.concat (map enc_bulk args) ++ rest) = (al, args, EDone rest).
Proof.
  induction args as [|a args IH]; intros rest fuel Hw Hf.
  - cbn [List.length map List.concat app N.of_nat]. rewrite parse_elems_0. now exists [].
  - destruct fuel as [|f]; [lia|].
    cbn [forallb] in Hw. apply andb_true_iff in Hw as [Ha Hw].
    cbn [map List.concat] in *. rewrite <- app_assoc in *.
    set (tail := List.concat (map enc_bulk args) ++ rest) in *.
    assert (Hlen : (List.length tail < f)%nat).
    { rewrite app_length in Hf. pose proof (enc_bulk_len_pos a). lia. }
    rewrite parse_elems_S.
    replace (N.of_nat (List.length (a :: args)) =? 0) with false
      by (symmetry; apply N.eqb_neq; cbn [List.length]; lia).
    replace (N.of_nat (List.length (a :: args)) - 1) with (N.of_nat (List.length args))
      by (cbn [List.length]; lia).
    destruct a as [d|].
    + (* Some d *)
      unfold bulk_within in Ha. apply N.leb_le in Ha. unfold max_bulk in Ha.
      unfold enc_bulk, crlf. cbn [app].
      rewrite byte_eqb_refl. cbn [negb].
      replace ((itoa_N (len d) ++ CR :: LF :: d ++ [CR; LF]) ++ tail)
        with (itoa_N (len d) ++ CR :: LF :: (d ++ CR :: LF :: tail))
        by (rewrite <- !app_assoc; cbn [app]; rewrite <- app_assoc; reflexivity).
      rewrite (read_line_line _ _ (itoa_no_lf (len d))).
      rewrite atoi_itoa by (unfold int64_bound; lia).
      cbn [over lim_bulk repaired_limits].
      replace (Z.of_N 536870912 <? Z.of_N (len d))%Z with false by (symmetry; apply Z.ltb_ge; lia).
      replace (Z.of_N (len d) <? 0)%Z with false by (symmetry; apply Z.ltb_ge; lia).
      cbn zeta. rewrite N2Z.id. cbn [capped pre_bulk repaired_limits].
      replace (max_alloc <? N.min (len d) 65536) with false
        by (symmetry; apply N.ltb_ge; unfold max_alloc; lia).
      pose proof (bulk_status_full (len d) (len (d ++ CR :: LF :: tail)) Ha
                    ltac:(rewrite len_app; lia)) as Hst.
      destruct (bulk_allocs bulk_fuel (len d) (N.min (len d) 65536) (len (d ++ CR :: LF :: tail)))
        as [ba st]. cbn [snd] in Hst. subst st.
      rewrite firstn_len_app, skipn_len_app.
      cbn [expect_crlf]. rewrite !byte_eqb_refl. cbn [negb].
      destruct (IH rest f Hw Hlen) as [al Hal].
      fold tail in Hal. rewrite Hal. now exists (ba ++ al).
    + (* nil bulk *)
      unfold enc_bulk, crlf. cbn [app]. rewrite byte_eqb_refl. cbn [negb].
      change (MINUS :: x31 :: CR :: LF :: tail) with ([MINUS; x31] ++ CR :: LF :: tail).
      rewrite read_line_line by (repeat constructor).
      change (atoi [MINUS; x31]) with (Some (-1)%Z).
      cbn [over lim_bulk repaired_limits].
      change (Z.of_N 536870912 <? -1)%Z with false. change (-1 <? 0)%Z with true. cbn iota.
      destruct (IH rest f Hw Hlen) as [al Hal].
      fold tail in Hal. rewrite Hal. now exists al.
Qed.

Theorem parse_array_roundtrip args rest :
  array_within args = true ->
  snd (parse repaired_limits (enc_array args ++ rest)) = POk false args rest.
Proof.
  unfold array_within. intro H. apply andb_true_iff in H as [Hn Hw]. apply N.leb_le in Hn.
  unfold max_multibulk in Hn.
  unfold enc_array, crlf. cbn [app]. unfold parse. rewrite byte_eqb_refl.
  set (cnt := N.of_nat (List.length args)) in *.
  replace ((itoa_N cnt ++ CR :: LF :: List.concat (map enc_bulk args)) ++ rest)
    with (itoa_N cnt ++ CR :: LF :: (List.concat (map enc_bulk args) ++ rest))
    by (rewrite <- app_assoc; reflexivity).
  rewrite (read_line_line _ _ (itoa_no_lf cnt)).
  rewrite atoi_itoa by (unfold int64_bound; lia).
  cbn [over lim_multibulk repaired_limits].
  replace (Z.of_N 1048576 <? Z.of_N cnt)%Z with false by (symmetry; apply Z.ltb_ge; lia).
  replace (Z.of_N cnt <? 0)%Z with false by (symmetry; apply Z.ltb_ge; lia).
  cbn zeta. rewrite N2Z.id. cbn [capped pre_multibulk repaired_limits].
  replace (max_alloc <? 24 * N.min cnt 1024) with false
    by (symmetry; apply N.ltb_ge; unfold max_alloc; lia).
  destruct (elems_roundtrip args rest (S (List.length (List.concat (map enc_bulk args) ++ rest))) Hw
              ltac:(lia)) as [al Hal].
  subst cnt. rewrite Hal. reflexivity.
Qed.

(** * Round trip: inline commands *)
Lemma ws_len_plain b t : plain_byte b = true -> ws_len (b :: t) = 0%nat.
Proof.
  unfold plain_byte, ws_len. intro H. set (a := b2n b) in *.
  destruct (((9 <=? a) && (a <=? 13)) || (a =? 32)) eqn:E1; [lia|].
  destruct (a <? 194) eqn:E2; [reflexivity|].
  destruct t as [|b2 t2]; [reflexivity|].
  destruct (a =? 194) eqn:E3; [lia|].
  destruct t2 as [|b3 t3]; [reflexivity|].
  destruct (a =? 225) eqn:E4; [lia|]. destruct (a =? 226) eqn:E5; [lia|].
  destruct (a =? 227) eqn:E6; [lia|]. reflexivity.
Qed.

Lemma plain_not_lf b : plain_byte b = true -> byte_eqb b LF = false.
Proof.
  intro H. apply byte_eqb_neq. intro E. subst b. vm_compute in H. discriminate.
Qed.

Lemma fields_aux_plain f : forall cur t,
  forallb plain_byte f = true -> fields_aux 0 cur (f ++ t) = fields_aux 0 (rev f ++ cur) t.
Proof.
  induction f as [|b f IH]; intros cur t H; [reflexivity|].
  cbn [forallb] in H. apply andb_true_iff in H as [Hb Hf].
  cbn [app fields_aux]. rewrite (ws_len_plain b (f ++ t) Hb).
  rewrite (IH (b :: cur) t Hf). cbn [rev]. now rewrite <- app_assoc.
Qed.

Lemma flush_nonempty x : x <> [] -> flush x = [rev x].
Proof. destruct x; [congruence|]. intros _. unfold flush. now rewrite frev_rev. Qed.

Lemma plain_field_inv f : plain_field f = true -> f <> [] /\ forallb plain_byte f = true.
Proof. destruct f; cbn [plain_field]; [discriminate|]. intro H. split; [discriminate|exact H]. Qed.

Lemma rev_nonempty (f : bytes) : f <> [] -> rev f <> [].
Proof. destruct f; [congruence|]. intros _ H. cbn [rev] in H. apply app_eq_nil in H as [_ H]. discriminate. Qed.

Lemma fields_join fs : forallb plain_field fs = true -> fields (join_sp fs) = fs.
Proof.
  unfold fields. induction fs as [|f fs IH]; intro H; [reflexivity|].
  cbn [forallb] in H. apply andb_true_iff in H as [Hf Hfs].
  apply plain_field_inv in Hf as [Hne Hp].
  destruct fs as [|g fs'].
  - cbn [join_sp]. rewrite <- (app_nil_r f) at 1. rewrite fields_aux_plain by exact Hp.
    cbn [fields_aux]. rewrite app_nil_r, flush_nonempty by now apply rev_nonempty.
    now rewrite rev_involutive.
  - change (join_sp (f :: g :: fs')) with (f ++ SPACE :: join_sp (g :: fs')).
    rewrite fields_aux_plain by exact Hp. rewrite app_nil_r.
    cbn [fields_aux]. change (ws_len (SPACE :: join_sp (g :: fs'))) with 1%nat. cbn iota.
    rewrite flush_nonempty by now apply rev_nonempty. rewrite rev_involutive.
    cbn [app]. f_equal. destruct (join_sp (g :: fs')) eqn:Ej; apply IH; exact Hfs.
Qed.

Lemma join_no_lf fs : forallb plain_field fs = true -> no_lf (join_sp fs).
Proof.
  induction fs as [|f fs IH]; intro H; [constructor|].
  cbn [forallb] in H. apply andb_true_iff in H as [Hf Hfs].
  apply plain_field_inv in Hf as [_ Hp].
  assert (Hnf : no_lf f).
  { apply Forall_forall. intros b Hb. apply plain_not_lf.
    rewrite forallb_forall in Hp. now apply Hp. }
  destruct fs as [|g fs']; [exact Hnf|].
  change (join_sp (f :: g :: fs')) with (f ++ SPACE :: join_sp (g :: fs')).
  apply Forall_app. split; [exact Hnf|]. constructor; [reflexivity | now apply IH].
Qed.

Theorem parse_inline_roundtrip fs rest :
  inline_ok fs = true ->
  snd (parse repaired_limits (enc_inline fs ++ rest)) = POk false (map Some fs) rest.
Proof.
  unfold inline_ok. destruct fs as [|f fs']; [discriminate|]. intro H.
  apply andb_true_iff in H as [Hp Hstar].
  pose proof (fields_join _ Hp) as Hfields. pose proof (join_no_lf _ Hp) as Hnl.
  assert (Hf : plain_field f = true) by (cbn [forallb] in Hp; now apply andb_true_iff in Hp as [? _]).
  destruct f as [|b f']; [discriminate|].
  unfold enc_inline, crlf. rewrite <- app_assoc. cbn [app].
  assert (Hline : exists t, join_sp ((b :: f') :: fs') = b :: t).
  { destruct fs'; cbn [join_sp app]; eauto. }
  destruct Hline as [t Ht].
  match goal with |- context [join_sp ?x ++ _] => set (line := join_sp x) end.
  change (fields line = (b :: f') :: fs') in Hfields. change (no_lf line) in Hnl.
  change (line = b :: t) in Ht.
  unfold parse. rewrite Ht. cbn [app].
  cbn [is_prefix] in Hstar. rewrite andb_true_r in Hstar. apply negb_true_iff in Hstar.
  assert (Hb : byte_eqb b STAR = false).
  { apply byte_eqb_neq. apply byte_eqb_neq in Hstar. congruence. }
  rewrite Hb.
  change (b :: t ++ CR :: LF :: rest) with ((b :: t) ++ CR :: LF :: rest). rewrite <- Ht.
  rewrite (read_line_line _ _ Hnl). rewrite Ht at 1. rewrite Hfields. reflexivity.
Qed.

(** * The boolean oracle decides the observation predicate *)
Lemma obytes_eqb_eq a b : obytes_eqb a b = true <-> a = b.
Proof.
  destruct a, b; cbn [obytes_eqb]; split; intro H; try congruence; try discriminate.
  - apply bytes_eqb_eq in H. congruence.
  - inversion H; subst. apply bytes_eqb_refl.
Qed.

Lemma args_eqb_eq a : forall b, args_eqb a b = true <-> a = b.
Proof.
  induction a as [|x a IH]; intros [|y b]; cbn [args_eqb]; split; intro H; try congruence; try discriminate.
  - apply andb_true_iff in H as [H1 H2]. apply obytes_eqb_eq in H1. apply IH in H2. congruence.
  - inversion H; subst. apply andb_true_iff. split; [now apply obytes_eqb_eq | now apply IH].
Qed.

Lemma is_ok_with_spec o args consumed :
  is_ok_with o args consumed = true <->
  exists isnil, o_class o = OOk isnil args /\ o_consumed o = consumed.
Proof.
  unfold is_ok_with. destruct (o_class o) as [n a| | | |]; split; intro H;
    try discriminate; try (destruct H as [? [H _]]; discriminate).
  - apply andb_true_iff in H as [H1 H2]. apply args_eqb_eq in H1. apply N.eqb_eq in H2.
    subst. now exists n.
  - destruct H as [n' [H1 H2]]. inversion H1; subst. apply andb_true_iff. split;
      [now apply args_eqb_eq | now apply N.eqb_eq].
Qed.

Lemma frame_ok_b_spec input f o : frame_ok_b input f o = true <-> frame_ok input f o.
Proof.
  unfold frame_ok_b, frame_ok. destruct f as [|args rest|fs rest]; [tauto| |].
  - destruct (array_within args) eqn:Ew; cbn [andb].
    + destruct (bytes_eqb input (enc_array args ++ rest)) eqn:Eb.
      * apply bytes_eqb_eq in Eb. rewrite is_ok_with_spec. tauto.
      * apply bytes_eqb_neq in Eb. split; [intros _ _ E; contradiction | reflexivity].
    + split; [intros _ E; discriminate | reflexivity].
  - destruct (inline_ok fs) eqn:Ew; cbn [andb].
    + destruct (bytes_eqb input (enc_inline fs ++ rest)) eqn:Eb.
      * apply bytes_eqb_eq in Eb. rewrite is_ok_with_spec. tauto.
      * apply bytes_eqb_neq in Eb. split; [intros _ _ E; contradiction | reflexivity].
    + split; [intros _ E; discriminate | reflexivity].
Qed.

Lemma no_crash_b_spec o : no_crash_b o = true <-> o_class o <> OPanic /\ o_class o <> OCrash.
Proof.
  unfold no_crash_b. destruct (o_class o); split; intro H; try (split; discriminate); try reflexivity;
    try discriminate; destruct H as [H1 H2]; congruence.
Qed.

Theorem obs_ok_b_spec input f o : obs_ok_b input f o = true <-> obs_ok input f o.
Proof.
  unfold obs_ok_b, obs_ok. rewrite !andb_true_iff, frame_ok_b_spec, !N.leb_le, no_crash_b_spec. tauto.
Qed.

(** The parser as it is now satisfies the observation predicate whenever the
    measured allocation is within the measurement slack of the [make]
    requests: what the correspondence check compares is what the theorems
    talk about. *)
Theorem model_obs_ok input f :
  let '(al, r) := parse repaired_limits input in
  match r with
  | POk isnil args rest =>
      forall alloc, alloc <= sumN al + 64 * len input + 16384 ->
      len input <= len rest + len input ->
      frame_ok input f {| o_class := OOk isnil args; o_consumed := len input - len rest; o_alloc := alloc |}
  | _ => True
  end.
Proof.
  destruct (parse repaired_limits input) as [al r] eqn:E. destruct r; try exact I.
  intros alloc _ _. unfold frame_ok. destruct f as [|a rest0|fs rest0]; [exact I| |]; intros Hw Hin; cbn.
  - pose proof (parse_array_roundtrip a rest0 Hw) as H. rewrite <- Hin, E in H. cbn in H.
    inversion H; subst. eauto.
  - pose proof (parse_inline_roundtrip fs rest0 Hw) as H. rewrite <- Hin, E in H. cbn in H.
    inversion H; subst. eauto.
Qed.

(** Proofs for C14: the CRC-32C register step is injective, hence any change
    confined to one byte (in particular any single-bit flip) changes the
    checksum, for messages of every length. *)
From Coq Require Import List NArith ZArith Bool Lia ZifyN ZifyNat ZifyBool.
From Coq Require Import Init.Byte.
From NoKV Require Import Base.Bytes Base.Num Base.Crc32c Model.WalCodec Spec.WalSpec Spec.CorruptSpec Proofs.WalProofs.
Import ListNotations.
Local Open Scope N_scope.

Lemma lxor_cancel_r a b c : N.lxor a c = N.lxor b c -> a = b.
Proof.
  intro H.
  assert (Ea : a = N.lxor (N.lxor a c) c) by now rewrite N.lxor_assoc, N.lxor_nilpotent, N.lxor_0_r.
  assert (Eb : b = N.lxor (N.lxor b c) c) by now rewrite N.lxor_assoc, N.lxor_nilpotent, N.lxor_0_r.
  rewrite Ea, Eb, H. reflexivity.
Qed.

Lemma lxor_cancel_l a b c : N.lxor c a = N.lxor c b -> a = b.
Proof. rewrite !(N.lxor_comm c). apply lxor_cancel_r. Qed.

Lemma testbit31_small x : x < 2147483648 -> N.testbit x 31 = false.
Proof.
  intro H. destruct (N.testbit x 31) eqn:E; [|reflexivity].
  pose proof (N.testbit_spec' x 31) as S. rewrite E in S. cbn [N.b2n] in S.
  change (2 ^ 31) with 2147483648 in S. rewrite N.div_small in S by exact H. discriminate.
Qed.

Lemma testbit31_poly : N.testbit crc_poly 31 = true.
Proof. reflexivity. Qed.

Lemma div2_lt31 c : c < two32c -> N.div2 c < 2147483648.
Proof. intro H. rewrite N.div2_div. unfold two32c in H. zdm. Qed.

Lemma odd_div2 c : c = 2 * N.div2 c + N.b2n (N.odd c).
Proof. rewrite N.div2_odd at 1. reflexivity. Qed.

Lemma crc_shift_inj a b : a < two32c -> b < two32c -> crc_shift a = crc_shift b -> a = b.
Proof.
  intros Ha Hb H. unfold crc_shift in H.
  pose proof (div2_lt31 a Ha) as Da. pose proof (div2_lt31 b Hb) as Db.
  destruct (N.odd a) eqn:Oa; destruct (N.odd b) eqn:Ob.
  - apply lxor_cancel_r in H. rewrite (odd_div2 a), (odd_div2 b), Oa, Ob, H. reflexivity.
  - exfalso. assert (T : N.testbit (N.lxor (N.div2 a) crc_poly) 31 = N.testbit (N.div2 b) 31) by now rewrite H.
    rewrite N.lxor_spec, testbit31_poly, !testbit31_small in T by assumption. discriminate.
  - exfalso. assert (T : N.testbit (N.div2 a) 31 = N.testbit (N.lxor (N.div2 b) crc_poly) 31) by now rewrite H.
    rewrite N.lxor_spec, testbit31_poly, !testbit31_small in T by assumption. discriminate.
  - rewrite (odd_div2 a), (odd_div2 b), Oa, Ob, H. reflexivity.
Qed.

Lemma crc_shift8_inj a b : a < two32c -> b < two32c -> crc_shift8 a = crc_shift8 b -> a = b.
Proof.
  intros Ha Hb H. unfold crc_shift8 in H.
  repeat (apply crc_shift_inj in H; [|repeat apply crc_shift_lt; assumption|repeat apply crc_shift_lt; assumption]).
  exact H.
Qed.

Lemma byte_lt32 b : b2n b < two32c.
Proof. pose proof (b2n_lt b). unfold two32c. lia. Qed.

(** absorbing the same byte is injective in the register *)
Lemma crc_byte_inj_reg c d b : c < two32c -> d < two32c -> crc_byte c b = crc_byte d b -> c = d.
Proof.
  intros Hc Hd H. unfold crc_byte in H.
  apply crc_shift8_inj in H; [|apply lxor_lt32; [assumption|apply byte_lt32]..].
  now apply lxor_cancel_r in H.
Qed.

(** absorbing different bytes from the same register gives different registers *)
Lemma crc_byte_inj_byte c x y : c < two32c -> crc_byte c x = crc_byte c y -> x = y.
Proof.
  intros Hc H. unfold crc_byte in H.
  apply crc_shift8_inj in H; [|apply lxor_lt32; [assumption|apply byte_lt32]..].
  apply lxor_cancel_l in H. now apply b2n_inj.
Qed.

Lemma crc_update_inj_reg bs : forall c d, c < two32c -> d < two32c -> crc_update c bs = crc_update d bs -> c = d.
Proof.
  unfold crc_update. induction bs as [|b bs IH]; intros c d Hc Hd H; [exact H|].
  cbn [fold_left] in H. apply IH in H; [|now apply crc_byte_lt..].
  now apply crc_byte_inj_reg in H.
Qed.

Lemma crc_one_byte a b : one_byte_diff a b -> crc32c a <> crc32c b.
Proof.
  intros [pre [x [y [suf [-> [-> Hxy]]]]]] H. unfold crc32c in H. apply lxor_cancel_r in H.
  rewrite !crc_update_app in H.
  assert (Hm : crc_mask < two32c) by (unfold crc_mask, two32c; lia).
  pose proof (crc_update_lt pre crc_mask Hm) as Hr.
  change (x :: suf) with ([x] ++ suf) in H. change (y :: suf) with ([y] ++ suf) in H.
  rewrite !crc_update_app in H.
  apply crc_update_inj_reg in H; [|apply crc_update_lt; exact Hr..].
  unfold crc_update in H. cbn [fold_left] in H. apply crc_byte_inj_byte in H; [contradiction|exact Hr].
Qed.

(** single-bit flips are one-byte differences *)
Lemma flip_byte_neq x k : k < 8 -> flip_byte x k <> x.
Proof.
  intros Hk H. unfold flip_byte in H.
  assert (Hp : 2 ^ k < 2 ^ 8) by (apply N.pow_lt_mono_r; lia).
  assert (Hl : N.lxor (b2n x) (2 ^ k) < 256).
  { change 256 with (2 ^ 8). apply lxor_lt; [apply b2n_lt|exact Hp]. }
  rewrite <- (n2b_b2n x) in H at 2. apply n2b_inj in H; [|exact Hl|apply b2n_lt].
  rewrite <- (N.lxor_0_r (b2n x)) in H at 2. apply lxor_cancel_l in H.
  apply N.pow_nonzero in H; [exact H|lia].
Qed.

Lemma flip_bit_nat_diff k : k < 8 -> forall m i, (i < length m)%nat -> one_byte_diff m (flip_bit_nat i k m).
Proof.
  intros Hk m. induction m as [|x m IH]; intros i Hi; [simpl in Hi; lia|].
  destruct i as [|i]; cbn [flip_bit_nat].
  - exists [], x, (flip_byte x k), m. repeat split. intro E. symmetry in E. now apply flip_byte_neq in E.
  - destruct (IH i) as [pre [a [b [suf [E1 [E2 Hab]]]]]]; [simpl in Hi; lia|].
    exists (x :: pre), a, b, suf. cbn [app]. rewrite <- E1, <- E2. auto.
Qed.

Lemma flip_bit_diff m i : i < 8 * blen m -> one_byte_diff m (flip_bit i m).
Proof.
  intro H. unfold flip_bit. apply flip_bit_nat_diff.
  - apply N.mod_lt. lia.
  - unfold blen in H. zdm.
Qed.

(** crc_single_bit: for messages of every length *)
Lemma crc_single_bit m i : i < 8 * blen m -> crc32c (flip_bit i m) <> crc32c m.
Proof. intros H E. symmetry in E. revert E. apply crc_one_byte. now apply flip_bit_diff. Qed.

Lemma one_byte_diff_length a b : one_byte_diff a b -> blen a = blen b.
Proof. intros [pre [x [y [suf [-> [-> _]]]]]]. rewrite !blen_app, !blen_cons. reflexivity. Qed.

(** ** WAL: a change inside one byte of type ++ payload, or of the stored
    checksum, makes DecodeRecord report a checksum error (never Ok) *)
Lemma wal_body_corrupt r body' rest :
  rec_ok r -> one_byte_diff (fst r :: snd r) body' ->
  decode_record (be32 (blen (snd r) + 1) ++ body' ++ be32 (crc32c (fst r :: snd r)) ++ rest) = DBadCrc.
Proof.
  destruct r as [ty p]. unfold rec_ok. cbn [fst snd]. intros Hok Hd.
  pose proof (one_byte_diff_length _ _ Hd) as Hl. rewrite blen_cons in Hl.
  unfold decode_record. rewrite rd_be32_be32, N.mod_small by exact Hok.
  destruct (blen p + 1 =? 0) eqn:E0; [lia|]. rewrite drop4_be32.
  destruct (blen (body' ++ be32 (crc32c (ty :: p)) ++ rest) <? blen p + 1) eqn:E1.
  { rewrite blen_app in E1. lia. }
  replace (blen p + 1) with (blen body') by lia.
  rewrite take_app_exact, drop_app_exact, rd_be32_be32, crc_mod.
  destruct (crc32c (ty :: p) =? crc32c body') eqn:E2; [|reflexivity].
  apply N.eqb_eq in E2. exfalso. revert E2. now apply crc_one_byte.
Qed.

Lemma wal_crc_corrupt r crc' rest :
  rec_ok r -> one_byte_diff (be32 (crc32c (fst r :: snd r))) crc' ->
  decode_record (be32 (blen (snd r) + 1) ++ (fst r :: snd r) ++ crc' ++ rest) = DBadCrc.
Proof.
  destruct r as [ty p]. unfold rec_ok. cbn [fst snd]. intros Hok Hd.
  pose proof (one_byte_diff_length _ _ Hd) as Hl. rewrite blen_be32 in Hl.
  unfold decode_record. rewrite rd_be32_be32, N.mod_small by exact Hok.
  destruct (blen p + 1 =? 0) eqn:E0; [lia|]. rewrite drop4_be32.
  assert (Hb : blen (ty :: p) = blen p + 1) by (rewrite blen_cons; lia).
  destruct (blen ((ty :: p) ++ crc' ++ rest) <? blen p + 1) eqn:E1.
  { rewrite blen_app in E1. lia. }
  rewrite <- Hb, take_app_exact, drop_app_exact.
  destruct crc' as [|a [|b [|c [|d [|e t]]]]]; try (cbn in Hl; lia).
  cbn [app rd_be32].
  destruct (be32_val a b c d =? crc32c (ty :: p)) eqn:E2; [|reflexivity].
  apply N.eqb_eq in E2. exfalso.
  destruct Hd as [pre [x [y [suf [E3 [E4 Hxy]]]]]].
  assert (E5 : be32 (crc32c (ty :: p)) = [a; b; c; d]) by (rewrite <- E2; apply be32_be32_val).
  rewrite E5 in E3. rewrite E3 in E4. apply app_inv_head in E4. inversion E4. contradiction.
Qed.

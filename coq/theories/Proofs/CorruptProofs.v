(** Proofs for C14: the CRC-32C register step is injective, hence any change
    confined to one byte (in particular any single-bit flip) changes the
    checksum, for messages of every length. *)
From Coq Require Import List NArith ZArith Bool Lia ZifyN ZifyNat ZifyBool.
From Coq Require Import Init.Byte.
From NoKV Require Import Base.Bytes Base.Num Base.Crc32c Model.WalCodec Spec.WalSpec Spec.CorruptSpec Proofs.WalProofs.
Import ListNotations.
Local Open Scope N_scope.

Lemma lxor_cancel_r a b c : N.lxor a c = N.lxor b c -> a = b.
Proof.
  intro H.
  assert (Ea : a = N.lxor (N.lxor a c) c) by now rewrite N.lxor_assoc, N.lxor_nilpotent, N.lxor_0_r.
  assert (Eb : b = N.lxor (N.lxor b c) c) by now rewrite N.lxor_assoc, N.lxor_nilpotent, N.lxor_0_r.
  rewrite Ea, Eb, H. reflexivity.
Qed.

Lemma lxor_cancel_l a b c : N.lxor c a = N.lxor c b -> a = b.
Proof. rewrite !(N.lxor_comm c). apply lxor_cancel_r. Qed.

Lemma testbit31_small x : x < 2147483648 -> N.testbit x 31 = false.
Proof.
  intro H. destruct (N.testbit x 31) eqn:E; [|reflexivity].
  pose proof (N.testbit_spec' x 31) as S. rewrite E in S. cbn [N.b2n] in S.
  change (2 ^ 31) with 2147483648 in S. rewrite N.div_small in S by exact H. discriminate.
Qed.

Lemma testbit31_poly : N.testbit crc_poly 31 = true.
Proof. reflexivity. Qed.

Lemma div2_lt31 c : c < two32c -> N.div2 c < 2147483648.
Proof. intro H. rewrite N.div2_div. unfold two32c in H. zdm. Qed.

Lemma odd_div2 c : c = 2 * N.div2 c + N.b2n (N.odd c).
Proof. rewrite N.div2_odd at 1. reflexivity. Qed.

Lemma crc_shift_inj a b : a < two32c -> b < two32c -> crc_shift a = crc_shift b -> a = b.
Proof.
  intros Ha Hb H. unfold crc_shift in H.
  pose proof (div2_lt31 a Ha) as Da. pose proof (div2_lt31 b Hb) as Db.
  destruct (N.odd a) eqn:Oa; destruct (N.odd b) eqn:Ob.
  - apply lxor_cancel_r in H. rewrite (odd_div2 a), (odd_div2 b), Oa, Ob, H. reflexivity.
  - exfalso. assert (T : N.testbit (N.lxor (N.div2 a) crc_poly) 31 = N.testbit (N.div2 b) 31) by now rewrite H.
    rewrite N.lxor_spec, testbit31_poly, !testbit31_small in T by assumption. discriminate.
  - exfalso. assert (T : N.testbit (N.div2 a) 31 = N.testbit (N.lxor (N.div2 b) crc_poly) 31) by now rewrite H.
    rewrite N.lxor_spec, testbit31_poly, !testbit31_small in T by assumption. discriminate.
  - rewrite (odd_div2 a), (odd_div2 b), Oa, Ob, H. reflexivity.
Qed.

Lemma crc_shift8_inj a b : a < two32c -> b < two32c -> crc_shift8 a = crc_shift8 b -> a = b.
Proof.
  intros Ha Hb H. unfold crc_shift8 in H.
  repeat (apply crc_shift_inj in H; [|repeat apply crc_shift_lt; assumption|repeat apply crc_shift_lt; assumption]).
  exact H.
Qed.

Lemma byte_lt32 b : b2n b < two32c.
Proof. pose proof (b2n_lt b). unfold two32c. lia. Qed.

(** absorbing the same byte is injective in the register *)
Lemma crc_byte_inj_reg c d b : c < two32c -> d < two32c -> crc_byte c b = crc_byte d b -> c = d.
Proof.
  intros Hc Hd H. unfold crc_byte in H.
  apply crc_shift8_inj in H; [|apply lxor_lt32; [assumption|apply byte_lt32]..].
  now apply lxor_cancel_r in H.
Qed.

(** absorbing different bytes from the same register gives different registers *)
Lemma crc_byte_inj_byte c x y : c < two32c -> crc_byte c x = crc_byte c y -> x = y.
Proof.
  intros Hc H. unfold crc_byte in H.
  apply crc_shift8_inj in H; [|apply lxor_lt32; [assumption|apply byte_lt32]..].
  apply lxor_cancel_l in H. now apply b2n_inj.
Qed.

Lemma crc_update_inj_reg bs : forall c d, c < two32c -> d < two32c -> crc_update c bs = crc_update d bs -> c = d.
Proof.
  unfold crc_update. induction bs as [|b bs IH]; intros c d Hc Hd H; [exact H|].
  cbn [fold_left] in H. apply IH in H; [|now apply crc_byte_lt..].
  now apply crc_byte_inj_reg in H.
Qed.

Lemma crc_one_byte a b : one_byte_diff a b -> crc32c a <> crc32c b.
Proof.
  intros [pre [x [y [suf [-> [-> Hxy]]]]]] H. unfold crc32c in H. apply lxor_cancel_r in H.
  rewrite !crc_update_app in H.
  assert (Hm : crc_mask < two32c) by (unfold crc_mask, two32c; lia).
  pose proof (crc_update_lt pre crc_mask Hm) as Hr.
  change (x :: suf) with ([x] ++ suf) in H. change (y :: suf) with ([y] ++ suf) in H.
  rewrite !crc_update_app in H.
  apply crc_update_inj_reg in H; [|apply crc_update_lt; exact Hr..].
  unfold crc_update in H. cbn [fold_left] in H. apply crc_byte_inj_byte in H; [contradiction|exact Hr].
Qed.

(** single-bit flips are one-byte differences *)
Lemma flip_byte_neq x k : k < 8 -> flip_byte x k <> x.
Proof.
  intros Hk H. unfold flip_byte in H.
  assert (Hp : 2 ^ k < 2 ^ 8) by (apply N.pow_lt_mono_r; lia).
  assert (Hl : N.lxor (b2n x) (2 ^ k) < 256).
  { change 256 with (2 ^ 8). apply lxor_lt; [apply b2n_lt|exact Hp]. }
  rewrite <- (n2b_b2n x) in H at 2. apply n2b_inj in H; [|exact Hl|apply b2n_lt].
  rewrite <- (N.lxor_0_r (b2n x)) in H at 2. apply lxor_cancel_l in H.
  apply N.pow_nonzero in H; [exact H|lia].
Qed.

Lemma flip_bit_nat_diff k : k < 8 -> forall m i, (i < length m)%nat -> one_byte_diff m (flip_bit_nat i k m).
Proof.
  intros Hk m. induction m as [|x m IH]; intros i Hi; [simpl in Hi; lia|].
  destruct i as [|i]; cbn [flip_bit_nat].
  - exists [], x, (flip_byte x k), m. repeat split. intro E. symmetry in E. now apply flip_byte_neq in E.
  - destruct (IH i) as [pre [a [b [suf [E1 [E2 Hab]]]]]]; [simpl in Hi; lia|].
    exists (x :: pre), a, b, suf. cbn [app]. rewrite <- E1, <- E2. auto.
Qed.

Lemma flip_bit_diff m i : i < 8 * blen m -> one_byte_diff m (flip_bit i m).
Proof.
  intro H. unfold flip_bit. apply flip_bit_nat_diff.
  - apply N.mod_lt. lia.
  - unfold blen in H. zdm.
Qed.

(** crc_single_bit: for messages of every length *)
Lemma crc_single_bit m i : i < 8 * blen m -> crc32c (flip_bit i m) <> crc32c m.
Proof. intros H E. symmetry in E. revert E. apply crc_one_byte. now apply flip_bit_diff. Qed.

Lemma one_byte_diff_length a b : one_byte_diff a b -> blen a = blen b.
Proof. intros [pre [x [y [suf [-> [-> _]]]]]]. rewrite !blen_app, !blen_cons. reflexivity. Qed.

(** ** WAL: a change inside one byte of type ++ payload, or of the stored
    checksum, makes DecodeRecord report a checksum error (never Ok) *)
Lemma wal_body_corrupt r body' rest :
  rec_ok r -> one_byte_diff (fst r :: snd r) body' ->
  decode_record (be32 (blen (snd r) + 1) ++ body' ++ be32 (crc32c (fst r :: snd r)) ++ rest) = DBadCrc.
Proof.
  destruct r as [ty p]. unfold rec_ok. cbn [fst snd]. intros Hok Hd.
  pose proof (one_byte_diff_length _ _ Hd) as Hl. rewrite blen_cons in Hl.
  unfold decode_record. rewrite rd_be32_be32, N.mod_small by exact Hok.
  destruct (blen p + 1 =? 0) eqn:E0; [lia|]. rewrite drop4_be32.
  destruct (blen (body' ++ be32 (crc32c (ty :: p)) ++ rest) <? blen p + 1) eqn:E1.
  { rewrite blen_app in E1. lia. }
  replace (blen p + 1) with (blen body') by lia.
  rewrite take_app_exact, drop_app_exact, rd_be32_be32, crc_mod.
  destruct (crc32c (ty :: p) =? crc32c body') eqn:E2; [|reflexivity].
  apply N.eqb_eq in E2. exfalso. revert E2. now apply crc_one_byte.
Qed.

Lemma wal_crc_corrupt r crc' rest :
  rec_ok r -> one_byte_diff (be32 (crc32c (fst r :: snd r))) crc' ->
  decode_record (be32 (blen (snd r) + 1) ++ (fst r :: snd r) ++ crc' ++ rest) = DBadCrc.
Proof.
  destruct r as [ty p]. unfold rec_ok. cbn [fst snd]. intros Hok Hd.
  pose proof (one_byte_diff_length _ _ Hd) as Hl. rewrite blen_be32 in Hl.
  unfold decode_record. rewrite rd_be32_be32, N.mod_small by exact Hok.
  destruct (blen p + 1 =? 0) eqn:E0; [lia|]. rewrite drop4_be32.
  assert (Hb : blen (ty :: p) = blen p + 1) by (rewrite blen_cons; lia).
  destruct (blen ((ty :: p) ++ crc' ++ rest) <? blen p + 1) eqn:E1.
  { rewrite blen_app in E1. lia. }
  rewrite <- Hb, take_app_exact, drop_app_exact.
  destruct crc' as [|a [|b [|c [|d [|e t]]]]]; try (cbn in Hl; lia).
  cbn [app rd_be32].
  destruct (be32_val a b c d =? crc32c (ty :: p)) eqn:E2; [|reflexivity].
  apply N.eqb_eq in E2. exfalso.
  destruct Hd as [pre [x [y [suf [E3 [E4 Hxy]]]]]].
  assert (E5 : be32 (crc32c (ty :: p)) = [a; b; c; d]) by (rewrite <- E2; apply be32_be32_val).
  rewrite E5 in E3. rewrite E3 in E4. apply app_inv_head in E4. inversion E4. contradiction.
Qed.

(** ** C14_len_field_partial: whatever bytes DecodeRecord is given (after any
    corruption, in particular of the length word), it accepts only a span that
    is exactly a well-formed frame whose stored checksum matches its content *)
Lemma decode_record_ok_inv bs ty p len rest :
  decode_record bs = DOk ty p len rest ->
  bs = be32 len ++ (ty :: p) ++ be32 (crc32c (ty :: p)) ++ rest /\ len = blen p + 1 /\ len < two32.
Proof.
  unfold decode_record. destruct bs as [|a [|b [|c [|d r]]]]; try discriminate.
  cbn [rd_be32]. set (L := be32_val a b c d).
  destruct (L =? 0) eqn:E0; [discriminate|].
  change (drop 4 (a :: b :: c :: d :: r)) with r.
  destruct (blen r <? L) eqn:E1; [discriminate|].
  destruct (rd_be32 (drop L r)) as [crc|] eqn:E2; [|discriminate].
  destruct (crc =? crc32c (take L r)) eqn:E3; [|discriminate].
  destruct (take L r) as [|t q] eqn:E4; [discriminate|].
  intro H. inversion H; subst ty p len rest. clear H.
  assert (HL : blen (take L r) = L) by (apply blen_take; lia).
  rewrite E4, blen_cons in HL.
  apply N.eqb_eq in E3.
  destruct (drop L r) as [|e [|f [|g [|h r2]]]] eqn:E5; try discriminate.
  cbn [rd_be32] in E2. inversion E2 as [E6].
  assert (Hr : r = (t :: q) ++ e :: f :: g :: h :: r2) by (rewrite <- E4, <- E5; symmetry; apply take_drop).
  assert (Hc : be32 (crc32c (t :: q)) = [e; f; g; h]).
  { first [rewrite <- E3, <- E6 | rewrite <- E4, <- E3, <- E6]. apply be32_be32_val. }
  split; [|split; [lia|unfold L; apply be32_val_lt]].
  unfold L. rewrite be32_be32_val, Hc, Hr. cbn [app]. repeat f_equal; try (now rewrite <- app_assoc).
Qed.

(** ** value-log / WAL-payload entry record *)
From NoKV Require Import Base.Varint Model.EntryCodec Proofs.CodecProofs Proofs.ManifestCodecProofs Proofs.CodecRtProofs.

Lemma one_byte_diff_prefix p a b : one_byte_diff a b -> one_byte_diff (p ++ a) (p ++ b).
Proof.
  intros [pre [x [y [suf [-> [-> H]]]]]]. exists (p ++ pre), x, y, suf. now rewrite <- !app_assoc.
Qed.

(** a one-byte change inside key ++ value (lengths unchanged): ErrBadChecksum *)
Lemma entry_body_corrupt e key' val' rest :
  entry_ok e -> blen key' = blen (e_key e) -> blen val' = blen (e_val e) ->
  one_byte_diff (e_key e ++ e_val e) (key' ++ val') ->
  decode_entry_from (enc_header (blen (e_key e)) (blen (e_val e)) (e_meta e) (e_exp e) ++ key' ++ val' ++
                     be32 (crc32c (enc_entry_body e)) ++ rest) = EdBadCrc.
Proof.
  intros (Hk & Hv & Hm & Hx) Hlk Hlv Hd. destruct e as [key val meta exp]. cbn [e_key e_val e_meta e_exp] in *.
  unfold enc_entry_body. cbn [e_key e_val e_meta e_exp]. rewrite !u32_small by assumption.
  set (hd := enc_header (blen key) (blen val) meta exp).
  set (crc := crc32c (hd ++ key ++ val)).
  set (bs := hd ++ key' ++ val' ++ be32 crc ++ rest).
  assert (Hbs : bs = put_uvarint (blen key) ++ put_uvarint (blen val) ++ put_uvarint meta ++ put_uvarint exp ++
                     key' ++ val' ++ be32 crc ++ rest).
  { unfold bs, hd, enc_header. now rewrite <- !app_assoc. }
  assert (H64 : forall x, x < two32 -> x < two64) by (intros; unfold two32, two64 in *; lia).
  assert (Hh : decode_header_from bs = inr ((blen key, blen val, meta, exp), key' ++ val' ++ be32 crc ++ rest)).
  { unfold decode_header_from. rewrite Hbs.
    rewrite rd_var_put by auto. rewrite rd_var_put by auto.
    assert (Hm64 : meta < two64) by (unfold two64; lia).
    rewrite rd_var_put by exact Hm64.
    destruct (255 <? meta) eqn:E; [lia|]. rewrite rd_var_put by exact Hx.
    now rewrite !u32_small by assumption. }
  unfold decode_entry_from. rewrite Hh.
  assert (Hhl : blen bs - blen (key' ++ val' ++ be32 crc ++ rest) = blen hd).
  { unfold bs. rewrite !blen_app. lia. }
  rewrite Hhl, <- Hlk, <- Hlv.
  destruct (blen (key' ++ val' ++ be32 crc ++ rest) <? blen key') eqn:E1; [rewrite blen_app in E1; lia|].
  rewrite take_app_exact, drop_app_exact.
  destruct (blen (val' ++ be32 crc ++ rest) <? blen val') eqn:E2; [rewrite blen_app in E2; lia|].
  rewrite take_app_exact, drop_app_exact, rd_be32_be32.
  assert (Hb : blen hd + blen key' + blen val' = blen (hd ++ key' ++ val')) by (rewrite !blen_app; lia).
  rewrite Hb. unfold bs.
  replace (hd ++ key' ++ val' ++ be32 crc ++ rest) with ((hd ++ key' ++ val') ++ be32 crc ++ rest)
    by now rewrite <- !app_assoc.
  rewrite take_app_exact.
  rewrite N.mod_small by (pose proof (crc32c_lt (hd ++ key ++ val)); unfold crc, two32c, two32 in *; lia).
  destruct (crc =? crc32c (hd ++ key' ++ val')) eqn:E3; [|reflexivity].
  apply N.eqb_eq in E3. exfalso. revert E3. unfold crc. apply crc_one_byte.
  now apply one_byte_diff_prefix.
Qed.

(** a one-byte change of the stored checksum: ErrBadChecksum *)
Lemma entry_crc_corrupt e crc' rest :
  entry_ok e -> one_byte_diff (be32 (crc32c (enc_entry_body e))) crc' ->
  decode_entry_from (enc_entry_body e ++ crc' ++ rest) = EdBadCrc.
Proof.
  intros Hok Hd. pose proof Hok as (Hk & Hv & Hm & Hx).
  pose proof (one_byte_diff_length _ _ Hd) as Hl. rewrite blen_be32 in Hl.
  destruct crc' as [|a [|b [|c [|d [|x t]]]]]; try (cbn in Hl; lia).
  (* decoding with the stored word be32_val a b c d *)
  destruct e as [key val meta exp]. cbn [e_key e_val e_meta e_exp] in *.
  unfold enc_entry_body in *. cbn [e_key e_val e_meta e_exp] in *. rewrite !u32_small in * by assumption.
  set (hd := enc_header (blen key) (blen val) meta exp) in *.
  set (bs := (hd ++ key ++ val) ++ [a; b; c; d] ++ rest).
  assert (Hbs : bs = put_uvarint (blen key) ++ put_uvarint (blen val) ++ put_uvarint meta ++ put_uvarint exp ++
                     key ++ val ++ [a; b; c; d] ++ rest).
  { unfold bs, hd, enc_header. now rewrite <- !app_assoc. }
  assert (H64 : forall x, x < two32 -> x < two64) by (intros; unfold two32, two64 in *; lia).
  assert (Hh : decode_header_from bs = inr ((blen key, blen val, meta, exp), key ++ val ++ [a; b; c; d] ++ rest)).
  { unfold decode_header_from. rewrite Hbs.
    rewrite rd_var_put by auto. rewrite rd_var_put by auto.
    assert (Hm64 : meta < two64) by (unfold two64; lia).
    rewrite rd_var_put by exact Hm64.
    destruct (255 <? meta) eqn:E; [lia|]. rewrite rd_var_put by exact Hx.
    now rewrite !u32_small by assumption. }
  unfold decode_entry_from. rewrite Hh.
  assert (Hhl : blen bs - blen (key ++ val ++ [a; b; c; d] ++ rest) = blen hd).
  { unfold bs. rewrite !blen_app. lia. }
  rewrite Hhl.
  destruct (blen (key ++ val ++ [a; b; c; d] ++ rest) <? blen key) eqn:E1; [rewrite blen_app in E1; lia|].
  rewrite take_app_exact, drop_app_exact.
  destruct (blen (val ++ [a; b; c; d] ++ rest) <? blen val) eqn:E2; [rewrite blen_app in E2; lia|].
  rewrite take_app_exact, drop_app_exact. cbn [app rd_be32].
  assert (Hb : blen hd + blen key + blen val = blen (hd ++ key ++ val)) by (rewrite !blen_app; lia).
  rewrite Hb. unfold bs. rewrite take_app_exact.
  destruct (be32_val a b c d =? crc32c (hd ++ key ++ val)) eqn:E3; [|reflexivity].
  apply N.eqb_eq in E3. exfalso.
  destruct Hd as [pre [x [y [suf [E4 [E5 Hxy]]]]]].
  assert (E6 : be32 (crc32c (hd ++ key ++ val)) = [a; b; c; d]) by (rewrite <- E3; apply be32_be32_val).
  rewrite E6 in E4. rewrite E4 in E5. apply app_inv_head in E5. inversion E5. contradiction.
Qed.

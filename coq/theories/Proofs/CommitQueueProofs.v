(** C34: every schedule of [Model.CommitQueue] yields a linearizable history,
    with the memtable insert (writes), the lookup (reads) and the rejection
    (failed writes) as linearization points. *)
From Coq Require Import List NArith Bool Permutation Lia ZifyN ZifyBool.
From NoKV Require Import Base.Bytes Base.Sched Spec.SerialSpec Spec.Linearizable Model.CommitQueue
                         Proofs.TxnStoreLemmas.
Import ListNotations.
Local Open Scope N_scope.

Definition kind_apply (st : kvs) (k : lkind) : kvs :=
  match k with LWrite key v true => (key, v) :: st | _ => st end.
Definition kind_legal (st : kvs) (k : lkind) : bool :=
  match k with LWrite _ _ _ => true | LRead key res => obytes_eqb (sm_read st key) res end.

Fixpoint lin_state (L : list lrec) : kvs :=
  match L with [] => [] | e :: L' => kind_apply (lin_state L') (lr_kind e) end.
Fixpoint lin_legal (L : list lrec) : Prop :=
  match L with [] => True | e :: L' => kind_legal (lin_state L') (lr_kind e) = true /\ lin_legal L' end.
Fixpoint lin_sorted (L : list lrec) : Prop :=
  match L with [] => True | e :: L' => (forall e', In e' L' -> lr_lin e' < lr_lin e) /\ lin_sorted L' end.

Definition stamps_ok (now : N) (e : lrec) : Prop :=
  lr_call e < lr_lin e /\ lr_lin e < now /\
  match lr_ret e with Some r => lr_lin e < r /\ r < now | None => True end.

Definition busy (pc : cpc) : Prop := match pc with PLin _ _ _ | PWait _ _ => True | _ => False end.
Definition pc_call_ok (now : N) (pc : cpc) : Prop :=
  match pc with PIdle => True | PStart _ c | PSend _ c | PWait _ c | PLin _ c _ => c < now end.

Definition reqs (g : gstate) : list req := map fst (g_pipe g).

Record Inv34 (g : gstate) : Prop := {
  v_mem : g_mem g = lin_state (g_lin g);
  v_legal : lin_legal (g_lin g);
  v_stamps : Forall (stamps_ok (g_clock g)) (g_lin g);
  v_sorted : lin_sorted (g_lin g);
  v_busy : forall e, In e (g_lin g) -> lr_ret e = None -> busy (c_pc (g_clients g (lr_tid e)));
  v_reqs : forall r, In r (reqs g) -> exists o, c_pc (g_clients g (r_tid r)) = PWait o (r_call r);
  v_nodup : NoDup (map r_tid (reqs g));
  v_calls : forall t, pc_call_ok (g_clock g) (c_pc (g_clients g t)) }.

Lemma stamps_weaken now e : stamps_ok now e -> stamps_ok (now + 1) e.
Proof. unfold stamps_ok. destruct (lr_ret e); intros (H1 & H2 & H3); repeat split; try lia; tauto. Qed.

Lemma stamps_weaken_all now L : Forall (stamps_ok now) L -> Forall (stamps_ok (now + 1)) L.
Proof. intro H. eapply Forall_impl; [|exact H]. intros e. apply stamps_weaken. Qed.

Lemma pc_call_weaken now pc : pc_call_ok now pc -> pc_call_ok (now + 1) pc.
Proof. destruct pc; cbn; lia. Qed.

Lemma sorted_cons now e L :
  Forall (stamps_ok now) L -> lr_lin e = now -> lin_sorted L -> lin_sorted (e :: L).
Proof.
  intros Hs He Hl. cbn. split; [|exact Hl]. intros e' He'. rewrite Forall_forall in Hs.
  destruct (Hs e' He') as (_ & H & _). lia.
Qed.

Lemma split_stage_spec s p a r b : split_stage s p = Some (a, r, b) -> p = a ++ (r, s) :: b.
Proof.
  revert a r b; induction p as [|x p IH]; intros a r b H; cbn [split_stage] in H; [discriminate|].
  destruct (is_stage s x) eqn:E.
  - inversion H; subst. destruct x as [r0 s0]. cbn in *. unfold is_stage in E. cbn in E.
    destruct s0, s; try discriminate; reflexivity.
  - destruct (split_stage s p) as [[[a' r'] b']|] eqn:E2; [|discriminate].
    inversion H; subst. cbn. f_equal. now apply IH.
Qed.

Lemma pop_batch_reqs n p : map fst (pop_batch n p) = map fst p.
Proof.
  revert n; induction p as [|[r s] p IH]; intros n; destruct n; cbn; try reflexivity.
  destruct s; cbn; f_equal; apply IH.
Qed.

(** [set_ret] keeps everything but the return stamps *)
Definition upd_ret (t now : N) (e : lrec) : lrec :=
  if (lr_tid e =? t) && match lr_ret e with None => true | Some _ => false end
  then {| lr_tid := lr_tid e; lr_call := lr_call e; lr_lin := lr_lin e; lr_ret := Some now; lr_kind := lr_kind e |}
  else e.
Lemma set_ret_cons t now e L : set_ret t now (e :: L) = upd_ret t now e :: set_ret t now L.
Proof. reflexivity. Qed.
Lemma upd_ret_kind t now e : lr_kind (upd_ret t now e) = lr_kind e.
Proof. unfold upd_ret. destruct (_ && _); reflexivity. Qed.
Lemma upd_ret_lin t now e : lr_lin (upd_ret t now e) = lr_lin e.
Proof. unfold upd_ret. destruct (_ && _); reflexivity. Qed.
Lemma set_ret_state t now L : lin_state (set_ret t now L) = lin_state L.
Proof.
  induction L as [|e L IH]; [reflexivity|]. rewrite set_ret_cons. cbn [lin_state].
  now rewrite IH, upd_ret_kind.
Qed.
Lemma set_ret_legal t now L : lin_legal L -> lin_legal (set_ret t now L).
Proof.
  induction L as [|e L IH]; [cbn; tauto|]. rewrite set_ret_cons. cbn [lin_legal]. intros [H1 H2].
  rewrite set_ret_state, upd_ret_kind. split; auto.
Qed.
Lemma set_ret_in t now L e' :
  In e' (set_ret t now L) ->
  exists e, In e L /\ lr_tid e' = lr_tid e /\ lr_call e' = lr_call e /\ lr_lin e' = lr_lin e /\
            lr_kind e' = lr_kind e /\
            ((lr_ret e' = lr_ret e /\ (lr_tid e = t -> lr_ret e <> None)) \/
             (lr_tid e = t /\ lr_ret e = None /\ lr_ret e' = Some now)).
Proof.
  unfold set_ret. intro H. apply in_map_iff in H as [e [<- Hin]]. exists e. split; [exact Hin|].
  destruct (lr_tid e =? t) eqn:Et; cbn [andb].
  - apply N.eqb_eq in Et. destruct (lr_ret e) eqn:Er; cbn.
    + do 4 (split; [reflexivity|]). left. split; [now rewrite Er | intros _; congruence].
    + do 4 (split; [reflexivity|]). right. auto.
  - apply N.eqb_neq in Et. do 4 (split; [reflexivity|]). left. split; [reflexivity | intro; contradiction].
Qed.
Lemma set_ret_sorted t now L : lin_sorted L -> lin_sorted (set_ret t now L).
Proof.
  induction L as [|e L IH]; [cbn; tauto|]. rewrite set_ret_cons. cbn [lin_sorted]. intros [H1 H2].
  split; [|now apply IH].
  intros e' He'. apply set_ret_in in He' as [e0 (Hin & _ & _ & Hl & _)]. rewrite Hl, upd_ret_lin.
  exact (H1 e0 Hin).
Qed.

Section Steps.
  Lemma inv_tick_same g cl :
    Inv34 g ->
    (forall e, In e (g_lin g) -> lr_ret e = None -> busy (c_pc (cl (lr_tid e)))) ->
    (forall r, In r (reqs g) -> exists o, c_pc (cl (r_tid r)) = PWait o (r_call r)) ->
    (forall t, pc_call_ok (g_clock g + 1) (c_pc (cl t))) ->
    Inv34 (tick g (g_mem g) (g_pipe g) cl (g_lin g)).
  Proof.
    intros HI Hb Hr Hc. constructor; cbn [tick g_mem g_lin g_clock g_clients g_pipe reqs].
    - apply (v_mem g HI).
    - apply (v_legal g HI).
    - apply stamps_weaken_all, (v_stamps g HI).
    - apply (v_sorted g HI).
    - exact Hb.
    - exact Hr.
    - apply (v_nodup g HI).
    - exact Hc.
  Qed.

  (** a client that is not waiting owns no request *)
  Lemma not_waiting_no_req g t :
    Inv34 g -> (forall o c, c_pc (g_clients g t) <> PWait o c) -> ~ In t (map r_tid (reqs g)).
  Proof.
    intros HI Hn Hin. apply in_map_iff in Hin as [r [<- Hr]].
    destruct (v_reqs g HI r Hr) as [o Ho]. exact (Hn _ _ Ho).
  Qed.

  (** a client step that changes only its own pc (to a pc with a call stamp below the clock) *)
  Lemma inv_client_pc g t prog pc L :
    Inv34 g ->
    (forall o c, c_pc (g_clients g t) <> PWait o c) ->
    (forall o c, pc <> PWait o c) ->
    pc_call_ok (g_clock g + 1) pc ->
    (L = g_lin g /\ (busy pc \/ forall e, In e (g_lin g) -> lr_tid e = t -> lr_ret e <> None)
     \/ exists e, L = e :: g_lin g /\ lr_tid e = t /\ lr_lin e = g_clock g /\ lr_call e < g_clock g /\
                  lr_ret e = None /\ busy pc /\ kind_legal (g_mem g) (lr_kind e) = true /\
                  kind_apply (g_mem g) (lr_kind e) = g_mem g) ->
    Inv34 (tick g (g_mem g) (g_pipe g) (set_pc g t prog pc) L).
  Proof.
    intros HI Hnw Hpc Hcall HL.
    pose proof (not_waiting_no_req g t HI Hnw) as Hnr.
    assert (Hother : forall j, j <> t -> set_pc g t prog pc j = g_clients g j).
    { intros j Hj. unfold set_pc, set_client. apply N.eqb_neq in Hj. now rewrite Hj. }
    assert (Hself : c_pc (set_pc g t prog pc t) = pc).
    { unfold set_pc, set_client. now rewrite N.eqb_refl. }
    assert (Hreqs : forall r, In r (reqs g) -> exists o, c_pc (set_pc g t prog pc (r_tid r)) = PWait o (r_call r)).
    { intros r Hr. rewrite Hother; [now apply (v_reqs g HI)|].
      intro E. apply Hnr. rewrite <- E. now apply in_map. }
    assert (Hcalls : forall j, pc_call_ok (g_clock g + 1) (c_pc (set_pc g t prog pc j))).
    { intros j. destruct (N.eq_dec j t) as [->|Hj]; [now rewrite Hself|].
      rewrite Hother by exact Hj. apply pc_call_weaken, (v_calls g HI). }
    destruct HL as [[-> Hb]|[e (-> & Het & Hel & Hec & Her & Hbusy & Hleg & Happ)]].
    - apply inv_tick_same; auto.
      intros e He Hr. destruct (N.eq_dec (lr_tid e) t) as [E|E].
      + rewrite E, Hself. destruct Hb as [Hb|Hb]; [exact Hb | exfalso; exact (Hb e He E Hr)].
      + rewrite Hother by exact E. now apply (v_busy g HI).
    - constructor; cbn [tick g_mem g_lin g_clock g_clients g_pipe reqs lin_state lin_legal].
      + rewrite <- (v_mem g HI). now rewrite Happ.
      + split; [now rewrite <- (v_mem g HI) | apply (v_legal g HI)].
      + constructor; [|apply stamps_weaken_all, (v_stamps g HI)].
        unfold stamps_ok. rewrite Her, Hel. repeat split; lia.
      + apply (sorted_cons (g_clock g)); [apply (v_stamps g HI) | exact Hel | apply (v_sorted g HI)].
      + intros e' [<-|He'] Hr.
        * now rewrite Het, Hself.
        * destruct (N.eq_dec (lr_tid e') t) as [E|E]; [rewrite E, Hself; exact Hbusy|].
          rewrite Hother by exact E. now apply (v_busy g HI).
      + exact Hreqs.
      + apply (v_nodup g HI).
      + exact Hcalls.
  Qed.
End Steps.

Lemma inv_frame g g' :
  g_mem g' = g_mem g -> map fst (g_pipe g') = reqs g -> g_clients g' = g_clients g -> g_lin g' = g_lin g ->
  g_clock g' = g_clock g + 1 -> Inv34 g -> Inv34 g'.
Proof.
  intros Hm Hp Hc Hl Hk HI. constructor; unfold reqs; rewrite ?Hm, ?Hp, ?Hc, ?Hl, ?Hk.
  - apply (v_mem g HI).
  - apply (v_legal g HI).
  - apply stamps_weaken_all, (v_stamps g HI).
  - apply (v_sorted g HI).
  - apply (v_busy g HI).
  - apply (v_reqs g HI).
  - apply (v_nodup g HI).
  - intros t. apply pc_call_weaken, (v_calls g HI).
Qed.

Lemma set_pc_other g t prog pc j : j <> t -> set_pc g t prog pc j = g_clients g j.
Proof. intros Hj. unfold set_pc, set_client. apply N.eqb_neq in Hj. now rewrite Hj. Qed.
Lemma set_pc_self g t prog pc : c_pc (set_pc g t prog pc t) = pc.
Proof. unfold set_pc, set_client. now rewrite N.eqb_refl. Qed.

Lemma inv_client_return g t prog o call r :
  Inv34 g -> c_pc (g_clients g t) = PLin o call r ->
  Inv34 (tick g (g_mem g) (g_pipe g) (set_pc g t prog PIdle) (set_ret t (g_clock g) (g_lin g))).
Proof.
  intros HI Hpc.
  assert (Hnw : forall o' c', c_pc (g_clients g t) <> PWait o' c') by (intros; rewrite Hpc; discriminate).
  pose proof (not_waiting_no_req g t HI Hnw) as Hnr.
  constructor; cbn [tick g_mem g_lin g_clock g_clients g_pipe reqs].
  - rewrite set_ret_state. apply (v_mem g HI).
  - apply set_ret_legal, (v_legal g HI).
  - apply Forall_forall. intros e' He'. apply set_ret_in in He' as [e (Hin & _ & Hc & Hl & _ & Hr)].
    pose proof (proj1 (Forall_forall _ _) (v_stamps g HI) e Hin) as (S1 & S2 & S3).
    unfold stamps_ok. rewrite Hc, Hl. destruct Hr as [[Hr _]|(_ & Hn & Hr)]; rewrite Hr.
    + destruct (lr_ret e); repeat split; try lia; destruct S3; lia.
    + repeat split; lia.
  - apply set_ret_sorted, (v_sorted g HI).
  - intros e' He' Hn. apply set_ret_in in He' as [e (Hin & Ht & _ & _ & _ & Hr)].
    destruct Hr as [[Hr Hne]|(_ & _ & Hr)]; [|congruence]. rewrite Hr in Hn. rewrite Ht.
    destruct (N.eq_dec (lr_tid e) t) as [E|E]; [exfalso; exact (Hne E Hn)|].
    + rewrite set_pc_other by exact E. now apply (v_busy g HI).
  - intros r0 Hr0. rewrite set_pc_other; [now apply (v_reqs g HI)|].
    intro E. apply Hnr. rewrite <- E. now apply in_map.
  - apply (v_nodup g HI).
  - intros j. destruct (N.eq_dec j t) as [->|Hj]; [rewrite set_pc_self; exact I|].
    rewrite set_pc_other by exact Hj. apply pc_call_weaken, (v_calls g HI).
Qed.

(** Round trip of the manifest edit record: [read_edit (enc_edit e ++ rest) = ReOk (cn e) rest]. *)
From Coq Require Import List Arith NArith ZArith Bool Lia ZifyN ZifyNat ZifyBool.
From Coq Require Import Init.Byte.
From NoKV Require Import Base.Bytes Base.Num Base.Varint Model.PercoCodec Model.ManifestCodec Proofs.CodecProofs.
Import ListNotations.
Local Open Scope N_scope.

(** [data] read up to [pos], [suf] still to be read *)
Definition cursor (data : bytes) (pos : N) (suf : bytes) : Prop :=
  exists pre, data = pre ++ suf /\ blen pre = pos.

Lemma cursor_len data pos suf : cursor data pos suf -> blen data = pos + blen suf.
Proof. intros [pre [-> <-]]. apply blen_app. Qed.

Lemma cursor_drop data pos suf : cursor data pos suf -> drop pos data = suf.
Proof. intros [pre [-> <-]]. apply drop_app_exact. Qed.

Lemma cursor_adv data pos a suf : cursor data pos (a ++ suf) -> cursor data (pos + blen a) suf.
Proof.
  intros [pre [-> <-]]. exists (pre ++ a). split; [now rewrite <- app_assoc|apply blen_app].
Qed.

Lemma uv_at_cursor data pos x rest :
  cursor data pos (put_uvarint x ++ rest) -> x < two64 ->
  uv_at data pos = (x, pos + blen (put_uvarint x)) /\ cursor data (pos + blen (put_uvarint x)) rest.
Proof.
  intros Hc Hx. split; [|now apply cursor_adv].
  unfold uv_at. pose proof (cursor_len _ _ _ Hc) as Hl.
  destruct (blen data <? pos) eqn:E; [lia|].
  rewrite (cursor_drop _ _ _ Hc), uvarint_put by exact Hx. reflexivity.
Qed.

Lemma blen_put_bytes b : blen (put_bytes b) = blen (put_uvarint (blen b)) + blen b.
Proof. unfold put_bytes. apply blen_app. Qed.

Lemma bytes_at_cursor data pos b rest :
  cursor data pos (put_bytes b ++ rest) -> blen b < two64 ->
  bytes_at data pos = (b, pos + blen (put_bytes b)) /\ cursor data (pos + blen (put_bytes b)) rest.
Proof.
  intros Hc Hb. split; [|now apply cursor_adv].
  unfold bytes_at. pose proof (cursor_len _ _ _ Hc) as Hl.
  destruct (blen data <? pos) eqn:E; [lia|].
  rewrite (cursor_drop _ _ _ Hc). unfold put_bytes. rewrite <- app_assoc, uvarint_put by exact Hb.
  rewrite !blen_app.
  destruct (blen (put_uvarint (blen b)) + (blen b + blen rest) - blen (put_uvarint (blen b)) <? blen b) eqn:E2; [lia|].
  rewrite drop_app_exact, take_app_exact. f_equal. lia.
Qed.

Lemma byte_at_cursor data pos x rest :
  cursor data pos (x :: rest) ->
  byte_at data pos = Some x /\ pos < blen data /\ cursor data (pos + 1) rest.
Proof.
  intro Hc. pose proof (cursor_len _ _ _ Hc) as Hl. rewrite blen_cons in Hl.
  split; [|split; [lia|]].
  - unfold byte_at. now rewrite (cursor_drop _ _ _ Hc).
  - change (x :: rest) with ([x] ++ rest) in Hc. apply cursor_adv in Hc. exact Hc.
Qed.

Lemma opt_flag_cursor data pos f rest :
  cursor data pos (flag f :: rest) ->
  opt_flag data pos = DVal (f, pos + 1) /\ cursor data (pos + 1) rest.
Proof.
  intro Hc. destruct (byte_at_cursor _ _ _ _ Hc) as [Hb [Hl Hc']]. split; [|exact Hc'].
  unfold opt_flag. destruct (pos <? blen data) eqn:E; [|lia]. rewrite Hb. now destruct f.
Qed.

Lemma cursor_end data pos : cursor data pos [] -> pos = blen data.
Proof. intro Hc. apply cursor_len in Hc. rewrite blen_nil in Hc. lia. Qed.

(** ** ranges *)
Definition file_ok (f : file_meta) : Prop :=
  fm_level f < two64 /\ fm_id f < two64 /\ fm_size f < two64 /\ fm_created f < two64 /\ fm_vsize f < two64 /\
  blen (fm_smallest f) < two64 /\ blen (fm_largest f) < two64.
Definition vlog_ok (m : vlog_meta) : Prop := vl_bucket m < two32 /\ vl_fid m < two32 /\ vl_offset m < two64.
Definition raft_ok (r : raft_ptr) : Prop :=
  rp_group r < two64 /\ rp_segment r < two32 /\ rp_offset r < two64 /\ rp_applied_idx r < two64 /\
  rp_applied_term r < two64 /\ rp_committed r < two64 /\ rp_snap_idx r < two64 /\ rp_snap_term r < two64 /\
  rp_trunc_idx r < two64 /\ rp_trunc_term r < two64 /\ rp_seg_idx r < two64 /\ rp_trunc_off r < two64.
Definition region_ok (m : region_meta) : Prop :=
  rg_id m < two64 /\ rg_ver m < two64 /\ rg_confver m < two64 /\ rg_state m < 256 /\
  blen (rg_start m) < two64 /\ blen (rg_end m) < two64 /\
  N.of_nat (length (rg_peers m)) < two64 /\ Forall (fun p => fst p < two64 /\ snd p < two64) (rg_peers m).

Definition body_ok (e : edit) : Prop :=
  match e with
  | EAddFile f | EDeleteFile f => file_ok f
  | ELogPointer s o => s < two32 /\ o < two64
  | EVlogHead (Some m) | EVlogDelete (Some m) | EVlogUpdate (Some m) => vlog_ok m
  | ERaftPointer (Some r) => raft_ok r
  | ERegion (Some r) => region_ok (re_meta r)
  | EUnknown t => 8 <= t < 256
  | _ => True
  end.

(** [edit_ok]: fields fit their Go types and the payload fits the 32-bit length prefix *)
Definition edit_ok (e : edit) : Prop := body_ok e /\ blen (enc_edit_payload e) < two32.

(** what the decoder returns for the encoding of [e] *)
Definition cn (e : edit) : edit :=
  match e with
  | EVlogHead (Some m) =>
      EVlogHead (Some {| vl_bucket := vl_bucket m; vl_fid := vl_fid m; vl_offset := vl_offset m; vl_valid := true |})
  | EVlogDelete (Some m) =>
      EVlogDelete (Some {| vl_bucket := vl_bucket m; vl_fid := vl_fid m; vl_offset := 0; vl_valid := false |})
  | ERegion (Some r) =>
      if re_delete r then ERegion (Some {| re_meta := empty_region (rg_id (re_meta r)); re_delete := true |}) else e
  | _ => e
  end.

Lemma u32_small x : x < two32 -> u32 x = x.
Proof. intro H. unfold u32. now apply N.mod_small. Qed.

(** one decoding step: rewrite the call at the cursor and advance it *)
Ltac uvs Hc :=
  match type of Hc with
  | cursor ?d ?p (put_uvarint ?x ++ ?r) =>
      let E := fresh "E" in let Hn := fresh "Hc" in
      destruct (uv_at_cursor d p x r Hc) as [E Hn]; [first [assumption|lia]|]; rewrite E; clear E Hc; rename Hn into Hc
  end.
Ltac bys Hc :=
  match type of Hc with
  | cursor ?d ?p (put_bytes ?x ++ ?r) =>
      let E := fresh "E" in let Hn := fresh "Hc" in
      destruct (bytes_at_cursor d p x r Hc) as [E Hn]; [first [assumption|lia]|]; rewrite E; clear E Hc; rename Hn into Hc
  end.

Lemma payload_cursor ty body :
  cursor (magic ++ n2b ty :: body) 5 body.
Proof. exists (magic ++ [n2b ty]). split; [now rewrite <- app_assoc|reflexivity]. Qed.

Lemma dec_file_enc ty f :
  file_ok f -> dec_file (magic ++ n2b ty :: enc_file f) = DVal f.
Proof.
  intros (H1 & H2 & H3 & H4 & H5 & H6 & H7). destruct f as [lv id sz sm lg cr vs ing].
  cbn [fm_level fm_id fm_size fm_smallest fm_largest fm_created fm_vsize fm_ingest] in *.
  pose proof (payload_cursor ty (enc_file {| fm_level := lv; fm_id := id; fm_size := sz; fm_smallest := sm;
    fm_largest := lg; fm_created := cr; fm_vsize := vs; fm_ingest := ing |})) as Hc.
  set (data := magic ++ n2b ty :: enc_file _) in *.
  unfold enc_file in Hc. cbn [fm_level fm_id fm_size fm_smallest fm_largest fm_created fm_vsize fm_ingest] in Hc.
  unfold dec_file. uvs Hc. uvs Hc. uvs Hc. bys Hc. bys Hc. uvs Hc.
  pose proof (cursor_len _ _ _ Hc) as Hl. pose proof (blen_put vs) as Hv. rewrite blen_app in Hl.
  match goal with |- context [if ?p <? blen data then _ else _] => destruct (p <? blen data) eqn:Ep; [|lia] end.
  uvs Hc.
  destruct (opt_flag_cursor _ _ _ _ Hc) as [Ef Hc']. rewrite Ef.
  apply cursor_end in Hc'. rewrite <- Hc'.
  match goal with |- context [?a <? ?a] => replace (a <? a) with false by lia end.
  reflexivity.
Qed.

Lemma dec_vlog_enc_head m :
  vlog_ok m ->
  dec_vlog (magic ++ n2b 3 :: enc_edit_body (EVlogHead (Some m))) 3 =
  DVal (Some {| vl_bucket := vl_bucket m; vl_fid := vl_fid m; vl_offset := vl_offset m; vl_valid := true |}).
Proof.
  intros (H1 & H2 & H3).
  pose proof (payload_cursor 3 (enc_edit_body (EVlogHead (Some m)))) as Hc.
  set (data := magic ++ n2b 3 :: _) in *. cbn [enc_edit_body] in Hc.
  pose proof (cursor_len _ _ _ Hc) as Hl. pose proof (blen_put (vl_bucket m)). rewrite blen_app in Hl.
  unfold dec_vlog. destruct (5 <? blen data) eqn:E5; [|lia].
  assert (H1' : vl_bucket m < two64) by (unfold two32, two64 in *; lia).
  assert (H2' : vl_fid m < two64) by (unfold two32, two64 in *; lia).
  uvs Hc. uvs Hc. cbn [N.eqb Pos.eqb].
  rewrite <- (app_nil_r (put_uvarint (vl_offset m))) in Hc. uvs Hc.
  apply cursor_end in Hc. rewrite <- Hc.
  match goal with |- context [?a <? ?a] => replace (a <? a) with false by lia end.
  now rewrite !u32_small by assumption.
Qed.

Lemma dec_vlog_enc_delete m :
  vlog_ok m ->
  dec_vlog (magic ++ n2b 4 :: enc_edit_body (EVlogDelete (Some m))) 4 =
  DVal (Some {| vl_bucket := vl_bucket m; vl_fid := vl_fid m; vl_offset := 0; vl_valid := false |}).
Proof.
  intros (H1 & H2 & H3).
  pose proof (payload_cursor 4 (enc_edit_body (EVlogDelete (Some m)))) as Hc.
  set (data := magic ++ n2b 4 :: _) in *. cbn [enc_edit_body] in Hc.
  pose proof (cursor_len _ _ _ Hc) as Hl. pose proof (blen_put (vl_bucket m)). rewrite blen_app in Hl.
  unfold dec_vlog. destruct (5 <? blen data) eqn:E5; [|lia].
  assert (H1' : vl_bucket m < two64) by (unfold two32, two64 in *; lia).
  assert (H2' : vl_fid m < two64) by (unfold two32, two64 in *; lia).
  uvs Hc. rewrite <- (app_nil_r (put_uvarint (vl_fid m))) in Hc. uvs Hc. cbn [N.eqb Pos.eqb].
  apply cursor_end in Hc. rewrite <- Hc.
  match goal with |- context [?a <? ?a] => replace (a <? a) with false by lia end.
  now rewrite !u32_small by assumption.
Qed.

Lemma dec_vlog_enc_update m :
  vlog_ok m ->
  dec_vlog (magic ++ n2b 5 :: enc_edit_body (EVlogUpdate (Some m))) 5 = DVal (Some m).
Proof.
  intros (H1 & H2 & H3). destruct m as [b f o v]. cbn [vl_bucket vl_fid vl_offset vl_valid] in *.
  pose proof (payload_cursor 5 (enc_edit_body (EVlogUpdate (Some {| vl_bucket := b; vl_fid := f; vl_offset := o; vl_valid := v |})))) as Hc.
  set (data := magic ++ n2b 5 :: _) in *. cbn [enc_edit_body vl_bucket vl_fid vl_offset vl_valid] in Hc.
  pose proof (cursor_len _ _ _ Hc) as Hl. pose proof (blen_put b). rewrite blen_app in Hl.
  unfold dec_vlog. destruct (5 <? blen data) eqn:E5; [|lia].
  assert (H1' : b < two64) by (unfold two32, two64 in *; lia).
  assert (H2' : f < two64) by (unfold two32, two64 in *; lia).
  uvs Hc. uvs Hc. cbn [N.eqb Pos.eqb]. uvs Hc.
  pose proof (cursor_len _ _ _ Hc) as Hl2. rewrite blen_cons, blen_nil in Hl2.
  match goal with |- context [blen data <? ?p] => replace (blen data <? p) with false by lia end.
  destruct (opt_flag_cursor _ _ _ _ Hc) as [Ef _]. rewrite Ef.
  now rewrite !u32_small by assumption.
Qed.

Lemma opt_uv_cursor data pos x rest :
  cursor data pos (put_uvarint x ++ rest) -> x < two64 ->
  opt_uv data pos = Some (x, pos + blen (put_uvarint x)) /\ cursor data (pos + blen (put_uvarint x)) rest.
Proof.
  intros Hc Hx. pose proof (cursor_len _ _ _ Hc) as Hl. rewrite blen_app in Hl. pose proof (blen_put x).
  destruct (uv_at_cursor _ _ _ _ Hc Hx) as [E Hc']. split; [|exact Hc'].
  unfold opt_uv. destruct (pos <? blen data) eqn:Ep; [|lia]. rewrite E.
  destruct (blen data <? pos + blen (put_uvarint x)) eqn:E2; [lia|reflexivity].
Qed.

Ltac ous Hc :=
  match type of Hc with
  | cursor ?d ?p (put_uvarint ?x ++ ?r) =>
      let E := fresh "E" in let Hn := fresh "Hc" in
      destruct (opt_uv_cursor d p x r Hc) as [E Hn]; [first [assumption|lia]|]; rewrite E; clear E Hc; rename Hn into Hc
  end.

Lemma dec_raft_enc r :
  raft_ok r -> dec_raft (magic ++ n2b 6 :: enc_edit_body (ERaftPointer (Some r))) = DVal (Some r).
Proof.
  intros (H1 & H2 & H3 & H4 & H5 & H6 & H7 & H8 & H9 & H10 & H11 & H12).
  destruct r as [a b c d e f g h i j k l].
  cbn [rp_group rp_segment rp_offset rp_applied_idx rp_applied_term rp_committed rp_snap_idx rp_snap_term
       rp_trunc_idx rp_trunc_term rp_seg_idx rp_trunc_off] in *.
  match goal with |- dec_raft (magic ++ n2b 6 :: ?body) = _ => pose proof (payload_cursor 6 body) as Hc end.
  set (data := magic ++ n2b 6 :: _) in *.
  cbn [enc_edit_body rp_group rp_segment rp_offset rp_applied_idx rp_applied_term rp_committed rp_snap_idx rp_snap_term
       rp_trunc_idx rp_trunc_term rp_seg_idx rp_trunc_off] in Hc.
  pose proof (cursor_len _ _ _ Hc) as Hl. pose proof (blen_put a). rewrite blen_app in Hl.
  unfold dec_raft. destruct (5 <? blen data) eqn:E5; [|lia]. cbn [negb].
  assert (H2' : b < two64) by (unfold two32, two64 in *; lia).
  uvs Hc. uvs Hc. uvs Hc. uvs Hc. uvs Hc. uvs Hc. uvs Hc. uvs Hc.
  pose proof (cursor_len _ _ _ Hc) as Hl2.
  match goal with |- context [blen data <? ?p] => replace (blen data <? p) with false by lia end.
  ous Hc. ous Hc. ous Hc.
  rewrite <- (app_nil_r (put_uvarint l)) in Hc. ous Hc.
  now rewrite u32_small by assumption.
Qed.

Lemma blen_enc_peers ps : 2 * N.of_nat (length ps) <= blen (enc_peers ps).
Proof.
  induction ps as [|[s i] ps IH]; [cbn; lia|].
  unfold enc_peers in *. cbn [map concat fst snd]. rewrite !blen_app.
  pose proof (blen_put s). pose proof (blen_put i). cbn [length]. lia.
Qed.

Lemma dec_peers_enc ps : forall data pos,
  cursor data pos (enc_peers ps) ->
  Forall (fun p => fst p < two64 /\ snd p < two64) ps ->
  dec_peers (length ps) data pos = Some ps.
Proof.
  induction ps as [|[s i] ps IH]; intros data pos Hc Hok; [reflexivity|].
  inversion Hok as [|? ? [Hs Hi] Hps]; subst. cbn [fst snd] in *.
  unfold enc_peers in Hc. cbn [map concat fst snd] in Hc. rewrite <- app_assoc in Hc.
  fold (enc_peers ps) in Hc.
  cbn [length dec_peers]. uvs Hc. uvs Hc.
  pose proof (cursor_len _ _ _ Hc) as Hl.
  match goal with |- context [blen data <? ?p] => replace (blen data <? p) with false by lia end.
  now rewrite (IH _ _ Hc Hps).
Qed.

Lemma dec_region_enc r :
  region_ok (re_meta r) ->
  dec_region (magic ++ n2b 7 :: enc_edit_body (ERegion (Some r))) =
  DVal (match cn (ERegion (Some r)) with ERegion x => x | _ => None end).
Proof.
  intros (H1 & H2 & H3 & H4 & H5 & H6 & H7 & H8). destruct r as [[id st en ver cv state peers] del].
  cbn [re_meta re_delete rg_id rg_start rg_end rg_ver rg_confver rg_state rg_peers] in *.
  match goal with |- dec_region (magic ++ n2b 7 :: ?body) = _ => pose proof (payload_cursor 7 body) as Hc end.
  set (data := magic ++ n2b 7 :: _) in *.
  cbn [enc_edit_body re_meta re_delete rg_id rg_start rg_end rg_ver rg_confver rg_state rg_peers] in Hc.
  pose proof (cursor_len _ _ _ Hc) as Hl. pose proof (blen_put id). rewrite blen_app in Hl.
  unfold dec_region. destruct (5 <? blen data) eqn:E5; [|lia]. cbn [negb].
  uvs Hc. pose proof (cursor_len _ _ _ Hc) as Hl2.
  match goal with |- context [blen data <? ?p] => replace (blen data <? p) with false by lia end.
  destruct del.
  - change [x01] with (flag true :: []) in Hc.
    destruct (opt_flag_cursor _ _ _ _ Hc) as [Ef _]. rewrite Ef. reflexivity.
  - change (x00 :: ?r) with (flag false :: r) in Hc.
    destruct (opt_flag_cursor _ _ _ _ Hc) as [Ef Hc']. rewrite Ef. clear Hc. rename Hc' into Hc.
    bys Hc. bys Hc. uvs Hc. uvs Hc.
    pose proof (cursor_len _ _ _ Hc) as Hl3. rewrite blen_cons in Hl3.
    match goal with |- context [blen data <? ?p] => replace (blen data <? p) with false by lia end.
    destruct (byte_at_cursor _ _ _ _ Hc) as [Eb [Hlt Hc']]. clear Hc. rename Hc' into Hc.
    match goal with |- context [if ?p <? blen data then _ else _] => replace (p <? blen data) with true by lia end.
    rewrite Eb. rewrite b2n_n2b by exact H4.
    pose proof (cursor_len _ _ _ Hc) as Hl4. rewrite blen_app in Hl4.
    pose proof (blen_put (N.of_nat (length peers))) as Hp.
    match goal with |- context [if ?p <? blen data then _ else _] => replace (p <? blen data) with true by lia end.
    uvs Hc.
    pose proof (cursor_len _ _ _ Hc) as Hl5. pose proof (blen_enc_peers peers) as Hpe.
    match goal with |- context [blen data <? ?p] => replace (blen data <? p) with false by lia end.
    match goal with |- context [(?a - ?b) / 2 <? ?c] => replace ((a - b) / 2 <? c) with false by (symmetry; apply N.ltb_ge; zdm) end.
    rewrite Nat2N.id, (dec_peers_enc _ _ _ Hc H8). reflexivity.
Qed.

Lemma blen_payload e : blen (enc_edit_payload e) = 5 + blen (enc_edit_body e).
Proof. unfold enc_edit_payload, magic. cbn [app]. rewrite !blen_cons. lia. Qed.

Lemma edit_type_lt e : body_ok e -> edit_type e < 256.
Proof. destruct e; cbn; intros; lia. Qed.

Lemma decode_edit_enc e : body_ok e -> decode_edit (enc_edit_payload e) = DVal (cn e).
Proof.
  intro Hok. pose proof (edit_type_lt e Hok) as Ht.
  unfold decode_edit. rewrite blen_payload.
  destruct (5 + blen (enc_edit_body e) <? 5) eqn:E5; [lia|].
  assert (Hm : take 4 (enc_edit_payload e) = magic) by reflexivity. rewrite Hm, bytes_eqb_refl. cbn [negb].
  assert (Hb : byte_at (enc_edit_payload e) 4 = Some (n2b (edit_type e))) by reflexivity. rewrite Hb.
  rewrite b2n_n2b by exact Ht. unfold enc_edit_payload.
  destruct e as [f|f|s o|[m|]|[m|]|[m|]|[r|]|[r|]|t]; cbn [edit_type N.eqb Pos.eqb body_ok cn] in *; try change (enc_edit_body (EAddFile f)) with (enc_file f); try change (enc_edit_body (EDeleteFile f)) with (enc_file f).
  - rewrite (dec_file_enc 0 f Hok). reflexivity.
  - rewrite (dec_file_enc 1 f Hok). reflexivity.
  - destruct Hok as [Hs Ho].
    pose proof (payload_cursor 2 (enc_edit_body (ELogPointer s o))) as Hc. cbn [enc_edit_body] in *.
    set (data := magic ++ n2b 2 :: _) in *.
    assert (Hs' : s < two64) by (unfold two32, two64 in *; lia).
    uvs Hc. rewrite <- (app_nil_r (put_uvarint o)) in Hc. uvs Hc.
    clear Hc. rewrite blen_app.
    match goal with |- context [?a <? ?b] => replace (a <? b) with false by lia end.
    now rewrite u32_small.
  - rewrite (dec_vlog_enc_head m Hok). reflexivity.
  - reflexivity.
  - rewrite (dec_vlog_enc_delete m Hok). reflexivity.
  - reflexivity.
  - rewrite (dec_vlog_enc_update m Hok). reflexivity.
  - reflexivity.
  - rewrite (dec_raft_enc r Hok). reflexivity.
  - reflexivity.
  - pose proof (dec_region_enc r Hok) as Hr. cbn [cn] in Hr. rewrite Hr.
    destruct (re_delete r); reflexivity.
  - reflexivity.
  - repeat match goal with |- context [if ?t =? ?k then _ else _] => replace (t =? k) with false by lia end.
    reflexivity.
Qed.

(** ** rt_edit *)
Lemma rt_edit e rest : edit_ok e -> read_edit (enc_edit e ++ rest) = ReOk (cn e) rest.
Proof.
  intros [Hb Hl]. unfold read_edit, enc_edit. rewrite <- app_assoc, rd_le32_le32, N.mod_small by exact Hl.
  change (drop 4 (le32 ?n ++ ?r)) with r.
  destruct (blen (enc_edit_payload e ++ rest) <? blen (enc_edit_payload e)) eqn:E; [rewrite blen_app in E; lia|].
  rewrite take_app_exact, drop_app_exact, decode_edit_enc by exact Hb. reflexivity.
Qed.

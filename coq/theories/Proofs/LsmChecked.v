(** Histories with every kind of maintenance step, checked by booleans: if
    each write is admissible ([put_okb]), and each compaction starts from a
    state that passes the ordering checker ([tier_inv_b]) with an admissible
    plan ([plan_okb]: level exists, upper tables from one ingest shard, cut
    counts cover the merged stream, fresh ids, ...), then the state holds
    exactly the history ([content_ok]); if moreover the final state passes
    [tier_inv_b], every read returns the latest acknowledged write. *)
From Coq Require Import String List Arith NArith Bool Lia Sorting.Sorted.
From NoKV Require Import Base.Bytes Model.Lsm Spec.MvccSpec Proofs.LsmOrder Spec.LsmSpec
     Proofs.LsmRead Proofs.LsmGet Proofs.LsmMain Proofs.LsmInv Proofs.LsmWitness Proofs.LsmPreserve
     Spec.LsmInvB Proofs.LsmCompact.
Import ListNotations.
Local Open Scope N_scope.

(** * Boolean plan conditions *)
Definition is_nil {A} (l : list A) : bool := match l with [] => true | _ => false end.
Lemma is_nil_spec {A} (l : list A) : is_nil l = true -> l = [].
Proof. destruct l; [reflexivity | discriminate]. Qed.

Definition lvl_inb (s : state) (lvl : N) : bool := Nat.ltb (lvl_idx lvl) (length (st_lvls s)).
Lemma lvl_inb_spec s lvl : lvl_inb s lvl = true -> lvl_in s lvl.
Proof. apply Nat.ltb_lt. Qed.

Definition shards_roomb (ts : list table) (sh : list (list table)) : bool :=
  forallb (fun t => Nat.ltb (shard_of t) (length (four_shards sh))) ts.
Lemma shards_roomb_spec ts sh : shards_roomb ts sh = true -> shards_room ts sh.
Proof. unfold shards_roomb. rewrite forallb_forall. intros H t Ht. apply Nat.ltb_lt. now apply H. Qed.

Definition fresh_idsb (top : list N) (added : list (N * N)) : bool :=
  forallb (fun p => negb (existsb (N.eqb (fst p)) top)) added.
Lemma fresh_idsb_spec top added : fresh_idsb top added = true -> fresh_ids top added.
Proof. unfold fresh_idsb. rewrite forallb_forall. intros H p Hp. apply negb_true_iff. now apply H. Qed.

Fixpoint one_shardb (top : list N) (shards : list (list table)) : bool :=
  match shards with
  | [] => false
  | sh :: rest => is_nil (pick top (concat rest)) || (is_nil (pick top sh) && one_shardb top rest)
  end.
Lemma one_shardb_spec top shards : one_shardb top shards = true -> one_shard top shards.
Proof.
  induction shards as [|sh rest IH]; cbn [one_shardb]; [discriminate|]. intro H.
  apply orb_true_iff in H as [H|H].
  - exists [], sh, rest. split; [reflexivity|]. split; [reflexivity | now apply is_nil_spec].
  - apply andb_true_iff in H as [H1 H2]. destruct (IH H2) as (pre & sh' & post & E & Hpre & Hpost).
    exists (sh :: pre), sh', post. split; [now rewrite E|]. split; [|exact Hpost].
    cbn [concat]. unfold pick in *. now rewrite filter_app, Hpre, (is_nil_spec _ H1).
Qed.

Definition plan_okb (s : state) (k : kind) (lvl : N) (top bot : list N) (added : list (N * N)) : bool :=
  let lv := get_level s lvl in
  match k with
  | KMove => lvl_inb s lvl && shards_roomb (pick top (st_l0 s)) (lv_shards lv)
  | KL0L0 => cut_okb (compact_stream (pick top (st_l0 s)) []) added && fresh_idsb top added
  | KDrain =>
      lvl_inb s lvl && one_shardb top (lv_shards lv)
      && cut_okb (compact_stream (pick top (shards_all (lv_shards lv))) (pick bot (lv_main lv))) added
  | KKeep =>
      let stream := compact_stream (pick top (shards_all (lv_shards lv))) (pick bot (lv_main lv)) in
      lvl_inb s lvl && one_shardb top (lv_shards lv) && cut_okb stream added
      && shards_roomb (cut stream added) (shards_drop top (lv_shards lv))
  | KRegular =>
      (1 <=? lvl) && Nat.ltb (S (lvl_idx lvl)) (length (st_lvls s))
      && is_nil (pick top (shards_all (lv_shards lv)))
      && cut_okb (compact_stream (pick top (lv_main lv)) (pick bot (lv_main (get_level s (lvl + 1))))) added
  end.

Theorem plan_ok_content s ws k lvl top bot added :
  tier_inv_b s = true -> plan_okb s k lvl top bot added = true ->
  content_ok s ws -> content_ok (compact s k lvl top bot added) ws.
Proof.
  intros Hb Hp Hc. apply tier_inv_b_sound in Hb as [Hs Ht].
  destruct k; cbn [plan_okb] in Hp; repeat (apply andb_true_iff in Hp as [Hp ?]).
  - apply compact_move_content_ok; [exact Hc | now apply lvl_inb_spec | now apply shards_roomb_spec].
  - apply compact_l0l0_content_ok; [exact Ht | exact Hc | now apply cut_okb_spec | now apply fresh_idsb_spec].
  - apply compact_drain_content_ok;
      [exact Ht | exact Hc | now apply lvl_inb_spec | now apply one_shardb_spec | now apply cut_okb_spec].
  - apply compact_keep_content_ok;
      [exact Ht | exact Hc | now apply lvl_inb_spec | now apply one_shardb_spec | now apply cut_okb_spec
       | now apply shards_roomb_spec].
  - apply compact_regular_content_ok;
      [exact Hs | exact Ht | exact Hc | now apply N.leb_le | now apply Nat.ltb_lt | now apply is_nil_spec
       | now apply cut_okb_spec].
Qed.

(** The same at the level of records: nothing is invented, and every record
    stays represented by one of its internal key that is at least as recent. *)
Theorem plan_ok_refines s k lvl top bot added :
  tier_inv_b s = true -> plan_okb s k lvl top bot added = true ->
  refines (contents (compact s k lvl top bot added)) (contents s).
Proof.
  intros Hb Hp. apply tier_inv_b_sound in Hb as [Hs Ht].
  destruct k; cbn [plan_okb] in Hp; repeat (apply andb_true_iff in Hp as [Hp ?]).
  - apply compact_move_refines; [now apply lvl_inb_spec | now apply shards_roomb_spec].
  - apply compact_l0l0_refines; [now apply l0_merge_order | now apply cut_okb_spec | now apply fresh_idsb_spec].
  - apply compact_drain_refines; [now apply lvl_inb_spec | | now apply cut_okb_spec].
    apply ingest_merge_order; [exact Ht | now apply lvl_inb_spec | now apply one_shardb_spec].
  - apply compact_keep_refines; [now apply lvl_inb_spec | | now apply cut_okb_spec | now apply shards_roomb_spec].
    apply ingest_merge_order; [exact Ht | now apply lvl_inb_spec | now apply one_shardb_spec].
  - apply compact_regular_refines;
      [now apply N.leb_le | now apply Nat.ltb_lt | now apply is_nil_spec | | now apply cut_okb_spec].
    apply regular_merge_order; [exact Hs | exact Ht | now apply N.leb_le | now apply Nat.ltb_lt].
Qed.

Theorem plan_ok_records s k lvl top bot added :
  tier_inv_b s = true -> plan_okb s k lvl top bot added = true ->
  let s' := compact s k lvl top bot added in
  (forall x, In x (all_recs (tiers_of s')) -> In x (all_recs (tiers_of s))) /\
  (forall y, In y (all_recs (tiers_of s)) ->
     exists x, In x (all_recs (tiers_of s')) /\ r_key x = r_key y /\ r_ver x = r_ver y /\ r_seq y <= r_seq x).
Proof.
  intros Hb Hp s'. destruct (plan_ok_refines s k lvl top bot added Hb Hp) as [H1 H2]. fold s' in H1, H2. split.
  - intros x Hx. apply all_recs_contents, H1, all_recs_contents, Hx.
  - intros y Hy. destruct (H2 y (proj1 (all_recs_contents s y) Hy)) as (x & Hx & Hr).
    exists x. split; [now apply all_recs_contents | exact Hr].
Qed.

(** * reopen keeps the contents (in any state) *)
Lemma in_concat_map_map {A B} (g : A -> A) (f : A -> list B) l x :
  (forall a y, In y (f (g a)) <-> In y (f a)) ->
  In x (concat (map f (map g l))) <-> In x (concat (map f l)).
Proof.
  intro H. rewrite map_map, !in_concat. split; intros (y & Hy & Hx); apply in_map_iff in Hy as (a & <- & Ha).
  - exists (f a). split; [now apply in_map | now apply H].
  - exists (f (g a)). split; [apply in_map_iff; now exists a | now apply H].
Qed.

Lemma reopen_contents s x : In x (contents (reopen s)) <-> In x (contents s).
Proof.
  unfold contents, reopen. cbn [st_mem st_imms st_l0 st_lvls]. rewrite !in_app_iff.
  assert (E1 : In x (concat (map t_recs (isort fid_leb (st_l0 s)))) <-> In x (concat (map t_recs (st_l0 s)))).
  { apply (trecs_ext _ _ x). apply isort_in. }
  rewrite E1.
  rewrite (in_concat_map_map
    (fun lv => {| lv_shards := map (isort min_leb) (lv_shards lv); lv_main := isort min_leb (lv_main lv) |})
    level_recs (st_lvls s) x); [tauto|].
  intros lv y. rewrite !level_recs_eq. cbn [lv_shards lv_main]. rewrite !in_app_iff.
  rewrite (trecs_ext (isort min_leb (lv_main lv)) (lv_main lv) y (isort_in _ _)).
  rewrite (trecs_ext (shards_all (map (isort min_leb) (lv_shards lv))) (shards_all (lv_shards lv)) y
             (fun t => concat_map_isort_in min_leb (lv_shards lv) t)). tauto.
Qed.

Lemma reopen_content_ok s ws : content_ok s ws -> content_ok (reopen s) ws.
Proof. apply content_ok_refines. apply refines_same. apply reopen_contents. Qed.

(** * Checked runs *)
Fixpoint run_checked (s : state) (ws : list rec) (ops : list op) : bool :=
  match ops with
  | [] => true
  | o :: ops' =>
      match o with
      | OPut r => put_okb ws r && run_checked (put s r) (ws ++ [r]) ops'
      | OCompact k lvl top bot added =>
          tier_inv_b s && plan_okb s k lvl top bot added && run_checked (apply s o) ws ops'
      | _ => run_checked (apply s o) ws ops'
      end
  end.

Lemma run_checked_content ops : forall s ws,
  content_ok s ws -> seq_functional ws -> run_checked s ws ops = true ->
  content_ok (run s ops) (ws ++ writes ops) /\ seq_functional (ws ++ writes ops).
Proof.
  induction ops as [|o ops IH]; intros s ws Hc Hf Hr.
  - cbn [run fold_left writes map concat]. now rewrite app_nil_r.
  - rewrite writes_cons. change (run s (o :: ops)) with (run (apply s o) ops).
    destruct o as [r| | |k lvl top bot added|]; cbn [run_checked apply] in *.
    + apply andb_true_iff in Hr as [Hp Hr]. apply put_okb_spec in Hp as (P1 & P2).
      rewrite app_assoc. apply IH; [now apply put_content_ok_gen | now apply seq_functional_snoc | exact Hr].
    + apply IH; [|exact Hf | exact Hr]. eapply content_ok_same; [apply all_recs_rotate | exact Hc].
    + apply IH; [|exact Hf | exact Hr]. eapply content_ok_same; [apply all_recs_flush | exact Hc].
    + apply andb_true_iff in Hr as [Hr Hr3]. apply andb_true_iff in Hr as [Hr1 Hr2].
      apply IH; [|exact Hf | exact Hr3]. now apply plan_ok_content.
    + apply IH; [|exact Hf | exact Hr]. now apply reopen_content_ok.
Qed.

(** Reads after a checked run whose final state passes the ordering checker. *)
Theorem checked_run_reads m ops :
  run_checked (init m) [] ops = true -> tier_inv_b (run (init m) ops) = true ->
  forall k v, get (run (init m) ops) k v = latest_at (writes ops) k v.
Proof.
  intros Hr Hb k v. apply tier_inv_b_sound in Hb as [Hs Ht].
  destruct (run_checked_content ops (init m) [] (j_content _ _ (J_init m)) (j_seq _ _ (J_init m)) Hr) as [Hc Hf].
  now apply get_latest.
Qed.

(** The contents are never lost along a checked run (whatever the order of the tiers). *)
Theorem checked_run_contents m ops :
  run_checked (init m) [] ops = true -> content_ok (run (init m) ops) (writes ops).
Proof.
  intros Hr.
  exact (proj1 (run_checked_content ops (init m) [] (j_content _ _ (J_init m)) (j_seq _ _ (J_init m)) Hr)).
Qed.

(** A history through every kind of step satisfies the checks. *)
Definition checked_example : list op :=
  cx_ops ++ [OCompact KMove 5 [1; 2] [] []; OPut (mk "b" mx "b1" 4); OReopen;
             OCompact KKeep 5 [1] [] [(6, 2)];
             OCompact KDrain 5 [6; 2] [] [(7, 2)]; ORotate; OFlush;
             OCompact KRegular 5 [7] [] [(8, 2)]; OCompact KL0L0 0 [3] [] [(9, 1)];
             OPut (mk "k" mx "v3" 5)].

Example checked_example_ok :
  run_checked (init 1) [] checked_example = true /\
  tier_inv_b (run (init 1) checked_example) = true /\
  option_map r_val (get (run (init 1) checked_example) (of_string "k") mx) = Some (of_string "v3").
Proof. vm_compute. repeat split; reflexivity. Qed.

(** The refuted history passes the step checks (its contents are intact) but
    its final state fails the ordering checker. *)
Example ingest_tie_checked :
  run_checked (init 1) [] ingest_tie = true /\ tier_inv_b (run (init 1) ingest_tie) = false.
Proof. vm_compute. split; reflexivity. Qed.

(** A second way to lose recency (besides the ingest ordering of
    [ingest_tie]): a regular compaction L5 -> L6 puts the newer record into
    the main tables of L6 while the ingest buffer of L6, which is searched
    first, still holds the older one of the same internal key.  Every step is
    admissible and the contents are intact; the final state fails the checker
    and the read returns the older value. *)
Definition regular_under_ingest : list op :=
  [OPut (mk "k" mx "v1" 1); ORotate; OFlush; OCompact KMove 6 [1] [] [];
   OPut (mk "k" mx "v2" 2); ORotate; OFlush; OCompact KMove 5 [2] [] [];
   OCompact KDrain 5 [2] [] [(7, 1)]; OCompact KRegular 5 [7] [] [(8, 1)]].

Example regular_under_ingest_values :
  run_checked (init 1) [] regular_under_ingest = true /\
  tier_inv_b (run (init 1) regular_under_ingest) = false /\
  option_map r_val (get (run (init 1) regular_under_ingest) (of_string "k") mx) = Some (of_string "v1") /\
  option_map r_val (latest_at (writes regular_under_ingest) (of_string "k") mx) = Some (of_string "v2").
Proof. vm_compute. repeat split; reflexivity. Qed.

Lemma regular_under_ingest_refuted :
  exists ops k v, run_checked (init 1) [] ops = true /\
                  option_map r_val (get (run (init 1) ops) k v)
                  <> option_map r_val (latest_at (writes ops) k v).
Proof.
  exists regular_under_ingest, (of_string "k"), mx. split; [vm_compute; reflexivity|].
  vm_compute. discriminate.
Qed.

(** Compositional characterisations of the ordering invariant of
    Spec/LsmSpec.v: [within_ok], [cross_ok] and [tier_inv] over [::] and [++],
    the records of [tiers_of s] as the records of [contents s], and the
    generic tier surgeries used by the maintenance steps (merging two adjacent
    tiers, dropping a tier, prepending an empty tier). *)
From Coq Require Import List NArith Bool Lia Sorting.Sorted.
From NoKV Require Import Base.Bytes Model.Lsm Spec.MvccSpec Proofs.LsmOrder Spec.LsmSpec Proofs.LsmRead.
Import ListNotations.
Local Open Scope N_scope.

(** [src_before A B]: equal internal keys in [A] are at least as recent as in [B]. *)
Definition src_before (A B : list rec) : Prop :=
  forall x y, In x A -> In y B -> r_key x = r_key y -> r_ver x = r_ver y -> r_seq y <= r_seq x.
(** [recs_geq A B]: everything in [A] is at least as recent as anything of the same key in [B]. *)
Definition recs_geq (A B : list rec) : Prop :=
  forall x y, In x A -> In y B -> r_key x = r_key y -> geq x y.

Lemma recs_geq_src_before A B : recs_geq A B -> src_before A B.
Proof. intros H x y Hx Hy Hk Hv. destruct (H x y Hx Hy Hk) as [Hl|[_ Hl]]; lia. Qed.

Lemma src_before_mono A A' B B' :
  (forall x, In x A' -> In x A) -> (forall x, In x B' -> In x B) -> src_before A B -> src_before A' B'.
Proof. intros HA HB H x y Hx Hy. apply H; auto. Qed.

Lemma recs_geq_mono A A' B B' :
  (forall x, In x A' -> In x A) -> (forall x, In x B' -> In x B) -> recs_geq A B -> recs_geq A' B'.
Proof. intros HA HB H x y Hx Hy. apply H; auto. Qed.

Lemma recs_geq_nil_l B : recs_geq [] B.
Proof. intros x y []. Qed.
Lemma recs_geq_nil_r A : recs_geq A [].
Proof. intros x y _ []. Qed.
Lemma src_before_nil_l B : src_before [] B.
Proof. intros x y []. Qed.
Lemma src_before_nil_r A : src_before A [].
Proof. intros x y _ []. Qed.

Lemma recs_geq_app_l A1 A2 B : recs_geq (A1 ++ A2) B <-> recs_geq A1 B /\ recs_geq A2 B.
Proof.
  split.
  - intro H. split; intros x y Hx Hy; apply H; auto; apply in_or_app; auto.
  - intros [H1 H2] x y Hx Hy. apply in_app_or in Hx as [Hx|Hx]; auto.
Qed.
Lemma recs_geq_app_r A B1 B2 : recs_geq A (B1 ++ B2) <-> recs_geq A B1 /\ recs_geq A B2.
Proof.
  split.
  - intro H. split; intros x y Hx Hy; apply H; auto; apply in_or_app; auto.
  - intros [H1 H2] x y Hx Hy. apply in_app_or in Hy as [Hy|Hy]; auto.
Qed.
Lemma src_before_app_l A1 A2 B : src_before (A1 ++ A2) B <-> src_before A1 B /\ src_before A2 B.
Proof.
  split.
  - intro H. split; intros x y Hx Hy; apply H; auto; apply in_or_app; auto.
  - intros [H1 H2] x y Hx Hy. apply in_app_or in Hx as [Hx|Hx]; auto.
Qed.
Lemma src_before_app_r A B1 B2 : src_before A (B1 ++ B2) <-> src_before A B1 /\ src_before A B2.
Proof.
  split.
  - intro H. split; intros x y Hx Hy; apply H; auto; apply in_or_app; auto.
  - intros [H1 H2] x y Hx Hy. apply in_app_or in Hy as [Hy|Hy]; auto.
Qed.

(** * [within_ok] *)
Lemma within_ok_nil : within_ok [].
Proof. intros l1 l2 E x y Hx. destruct l1; [contradiction | discriminate]. Qed.

Lemma within_ok_cons a T : within_ok (a :: T) <-> src_before a (concat T) /\ within_ok T.
Proof.
  split.
  - intro H. split.
    + intros x y Hx Hy. apply (H [a] T eq_refl); [cbn; now rewrite app_nil_r | exact Hy].
    + intros l1 l2 E x y Hx Hy. apply (H (a :: l1) l2); [now rewrite E | | exact Hy].
      cbn [concat]. apply in_or_app. now right.
  - intros [H1 H2] l1 l2 E x y Hx Hy. destruct l1 as [|b l1]; [contradiction|].
    cbn [app] in E. injection E as <- ->. cbn [concat] in Hx. apply in_app_or in Hx as [Hx|Hx].
    + apply H1; [exact Hx|]. rewrite concat_app. apply in_or_app. now right.
    + now apply (H2 l1 l2 eq_refl).
Qed.

Lemma within_ok_single a : within_ok [a].
Proof. apply within_ok_cons. split; [apply src_before_nil_r | apply within_ok_nil]. Qed.

Lemma within_ok_app A B : within_ok (A ++ B) <-> within_ok A /\ within_ok B /\ src_before (concat A) (concat B).
Proof.
  induction A as [|a A IH]; cbn [app concat].
  - split; [intro H; split; [apply within_ok_nil | split; [exact H | apply src_before_nil_l]] | tauto].
  - rewrite !within_ok_cons, IH, concat_app, src_before_app_r, src_before_app_l. tauto.
Qed.

(** * [cross_ok] *)
Lemma cross_ok_nil : cross_ok [].
Proof. intros l1 l2 E x y Hx. destruct l1; [contradiction | discriminate]. Qed.

Lemma cross_ok_cons t R : cross_ok (t :: R) <-> recs_geq (concat t) (all_recs R) /\ cross_ok R.
Proof.
  split.
  - intro H. split.
    + intros x y Hx Hy. apply (H [t] R eq_refl); [now apply all_recs_single | exact Hy].
    + intros l1 l2 E x y Hx Hy. apply (H (t :: l1) l2); [now rewrite E | | exact Hy].
      apply all_recs_cons. now right.
  - intros [H1 H2] l1 l2 E x y Hx Hy. destruct l1 as [|b l1]; [contradiction|].
    cbn [app] in E. injection E as <- ->. apply (proj1 (all_recs_cons _ _ _)) in Hx as [Hx|Hx].
    + apply H1; [exact Hx|]. apply all_recs_app. now right.
    + now apply (H2 l1 l2 eq_refl).
Qed.

Lemma all_recs_app_eq A B : all_recs (A ++ B) = all_recs A ++ all_recs B.
Proof. unfold all_recs. now rewrite !concat_app. Qed.
Lemma all_recs_cons_eq t R : all_recs (t :: R) = concat t ++ all_recs R.
Proof. unfold all_recs. cbn [concat]. now rewrite concat_app. Qed.
Lemma all_recs_nil : all_recs [] = [].
Proof. reflexivity. Qed.

Lemma cross_ok_app A B : cross_ok (A ++ B) <-> cross_ok A /\ cross_ok B /\ recs_geq (all_recs A) (all_recs B).
Proof.
  induction A as [|t A IH]; cbn [app].
  - split; [intro H; split; [apply cross_ok_nil | split; [exact H | apply recs_geq_nil_l]] | tauto].
  - rewrite !cross_ok_cons, IH, all_recs_app_eq, all_recs_cons_eq, recs_geq_app_r, recs_geq_app_l. tauto.
Qed.

(** * [tier_inv] *)
(** One tier satisfies the scan invariant of Spec/LsmSpec.v. *)
Notation tier_ok := scan_inv (only parsing).

Lemma tier_inv_nil : tier_inv [].
Proof.
  constructor; [constructor | intros x [] | constructor | apply cross_ok_nil].
Qed.

Lemma tier_inv_cons t R :
  tier_inv (t :: R) <-> tier_ok t /\ recs_geq (concat t) (all_recs R) /\ tier_inv R.
Proof.
  unfold scan_inv. split.
  - intros [Hs Hp Hw Hc]. apply cross_ok_cons in Hc as [Hc1 Hc2].
    inversion Hs; subst. inversion Hw; subst.
    split; [split; [assumption | split; [|assumption]]|].
    + intros x Hx. apply Hp. apply all_recs_cons. now left.
    + split; [exact Hc1|]. constructor; try assumption.
      intros x Hx. apply Hp. apply all_recs_cons. now right.
  - intros ((Hs & Hp & Hw) & Hc & [Hs' Hp' Hw' Hc']). constructor.
    + now constructor.
    + intros x Hx. apply (proj1 (all_recs_cons _ _ _)) in Hx as [Hx|Hx]; auto.
    + now constructor.
    + apply cross_ok_cons. now split.
Qed.

Lemma tier_inv_app A B :
  tier_inv (A ++ B) <-> tier_inv A /\ tier_inv B /\ recs_geq (all_recs A) (all_recs B).
Proof.
  induction A as [|t A IH]; cbn [app].
  - split; [intro H; split; [apply tier_inv_nil | split; [exact H | apply recs_geq_nil_l]] | tauto].
  - rewrite !tier_inv_cons, IH, all_recs_app_eq, all_recs_cons_eq, recs_geq_app_r, recs_geq_app_l. tauto.
Qed.

Lemma tier_ok_single a : sorted a -> (forall x, In x a -> 0 < r_ver x) -> tier_ok [a].
Proof.
  intros Hs Hp. split; [now constructor|]. split; [|apply within_ok_single].
  intros x Hx. cbn in Hx. rewrite app_nil_r in Hx. auto.
Qed.

Lemma tier_ok_app A B :
  tier_ok (A ++ B) <-> tier_ok A /\ tier_ok B /\ src_before (concat A) (concat B).
Proof.
  unfold scan_inv. rewrite Forall_app, within_ok_app, concat_app. split.
  - intros ((H1 & H2) & Hp & H3 & H4 & H5). repeat split; auto; intros x Hx; apply Hp, in_or_app; auto.
  - intros ((H1 & Hp1 & H3) & (H2 & Hp2 & H4) & H5). repeat split; auto.
    intros x Hx. apply in_app_or in Hx as [Hx|Hx]; auto.
Qed.

(** * [scan_inv] of a flat source list *)
Lemma scan_inv_nil : scan_inv [].
Proof. split; [constructor|]. split; [intros x [] | apply within_ok_nil]. Qed.

Lemma scan_inv_cons a T :
  scan_inv (a :: T) <->
  (sorted a /\ (forall x, In x a -> 0 < r_ver x)) /\ src_before a (concat T) /\ scan_inv T.
Proof.
  change (a :: T) with ([a] ++ T). rewrite tier_ok_app. cbn [concat]. rewrite app_nil_r. split.
  - intros ((Hs & Hp & _) & HT & Hb). split; [|tauto]. split; [now inversion Hs|].
    intros x Hx. apply Hp. cbn. now rewrite app_nil_r.
  - intros ((Hs & Hp) & Hb & HT). split; [now apply tier_ok_single | tauto].
Qed.

(** The tiered invariant of the old read path implies the scan invariant. *)
Lemma tier_inv_scan_inv tiers : tier_inv tiers -> scan_inv (concat tiers).
Proof.
  induction tiers as [|t R IH]; intro H; [apply scan_inv_nil|].
  apply tier_inv_cons in H as (Ht & Hg & HR). cbn [concat]. apply tier_ok_app.
  split; [exact Ht|]. split; [now apply IH|]. now apply recs_geq_src_before.
Qed.

(** * Generic surgeries *)

(** Two adjacent tiers may be scanned as one. *)
Lemma tier_inv_merge P t1 t2 Q :
  tier_inv (P ++ t1 :: t2 :: Q) -> tier_inv (P ++ (t1 ++ t2) :: Q).
Proof.
  rewrite !tier_inv_app, !tier_inv_cons, !all_recs_cons_eq, tier_ok_app, concat_app.
  rewrite !recs_geq_app_r, !recs_geq_app_l.
  intros (HP & (H1 & (G12 & G1Q) & H2 & G2Q & HQ) & GP1 & GP2 & GPQ).
  pose proof (recs_geq_src_before _ _ G12). tauto.
Qed.

(** A tier may be dropped (its records disappear). *)
Lemma tier_inv_drop P t Q : tier_inv (P ++ t :: Q) -> tier_inv (P ++ Q).
Proof.
  rewrite !tier_inv_app, !tier_inv_cons, !all_recs_cons_eq, !recs_geq_app_r. tauto.
Qed.

(** A tier without records may be inserted anywhere. *)
Lemma tier_inv_insert_empty P Q : tier_inv (P ++ Q) -> tier_inv (P ++ [[]] :: Q).
Proof.
  rewrite !tier_inv_app, !tier_inv_cons, !all_recs_cons_eq, !recs_geq_app_r. cbn [concat app].
  intros (HP & HQ & G).
  assert (E : tier_ok [[]]) by (apply tier_ok_single; [constructor | intros x []]).
  pose proof (recs_geq_nil_l (all_recs Q)). pose proof (recs_geq_nil_r (all_recs P)). tauto.
Qed.

(** A source without records may be removed from / added to a tier. *)
Lemma tier_ok_drop_src A a B : tier_ok (A ++ a :: B) -> tier_ok (A ++ B).
Proof.
  change (a :: B) with ([a] ++ B). rewrite !tier_ok_app, !concat_app, !src_before_app_r. tauto.
Qed.

(** * Records of [tiers_of s] = [contents s] (as sets) *)
Lemma in_concat_map_rev {A B} (f : A -> list B) l x : In x (concat (map f (rev l))) <-> In x (concat (map f l)).
Proof.
  rewrite !in_concat. split; intros (y & Hy & Hx); exists y; (split; [|exact Hx]);
    apply in_map_iff in Hy as (z & <- & Hz); apply in_map_iff; exists z; (split; [reflexivity|]);
    [now apply in_rev | now apply -> in_rev].
Qed.

Lemma in_concat_concat_map_rev {A} (l : list (list A)) x :
  In x (concat (map (@rev A) l)) <-> In x (concat l).
Proof.
  rewrite !in_concat. split.
  - intros (y & Hy & Hx). apply in_map_iff in Hy as (z & <- & Hz). exists z. split; [exact Hz | now apply in_rev].
  - intros (y & Hy & Hx). exists (rev y). split; [now apply in_map | now apply -> in_rev].
Qed.

Lemma in_concat_map_ext {A B} (f : A -> list B) l1 l2 x :
  (forall y, In y l1 <-> In y l2) -> In x (concat (map f l1)) <-> In x (concat (map f l2)).
Proof.
  intro H. rewrite !in_concat. split; intros (y & Hy & Hx); exists y; (split; [|exact Hx]);
    apply in_map_iff in Hy as (z & <- & Hz); apply in_map_iff; exists z; (split; [reflexivity|]); now apply H.
Qed.

Lemma level_srcs_recs lv x : In x (concat (level_srcs lv)) <-> In x (level_recs lv).
Proof.
  unfold level_srcs, level_recs. rewrite map_app, concat_app, !in_app_iff.
  assert (E : In x (concat (map t_recs (concat (map (@rev table) (lv_shards lv)))))
              <-> In x (concat (map t_recs (concat (lv_shards lv))))).
  { apply in_concat_map_ext. intro y. apply in_concat_concat_map_rev. }
  tauto.
Qed.

Lemma all_recs_map_single {A} (f : A -> list rec) l x :
  In x (all_recs (map (fun m => [f m]) l)) <-> In x (concat (map f l)).
Proof.
  induction l as [|m l IH]; [reflexivity|]. cbn [map]. rewrite all_recs_cons_eq. cbn [concat].
  rewrite app_nil_r, !in_app_iff, IH. tauto.
Qed.

Lemma all_recs_levels lvls x :
  In x (all_recs (map level_srcs lvls)) <-> In x (concat (map level_recs lvls)).
Proof.
  induction lvls as [|lv l IH]; [reflexivity|]. cbn [map]. rewrite all_recs_cons_eq. cbn [concat].
  rewrite !in_app_iff, IH, level_srcs_recs. tauto.
Qed.

Lemma all_recs_contents s x : In x (all_recs (tiers_of s)) <-> In x (contents s).
Proof.
  unfold tiers_of, contents. rewrite !all_recs_app_eq, !in_app_iff.
  rewrite all_recs_levels. rewrite (all_recs_map_single snd (rev (st_imms s))).
  rewrite (in_concat_map_rev snd (st_imms s)).
  rewrite !all_recs_single. rewrite (in_concat_map_rev t_recs (st_l0 s)). cbn [concat]. rewrite app_nil_r. tauto.
Qed.

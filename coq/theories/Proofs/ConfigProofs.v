From Coq Require Import List NArith Bool Lia.
From Coq Require Import String.
From NoKV Require Import Base.Bytes Model.Config Spec.ConfigSpec.
Import ListNotations.
Local Open Scope N_scope.

Lemma mem_In x l : mem x l = true <-> In x l.
Proof.
  unfold mem. rewrite existsb_exists. split.
  - intros [y [Hy E]]. apply N.eqb_eq in E. now subst.
  - intro H. exists x. split; [exact H | apply N.eqb_refl].
Qed.

Lemma mem_not_In x l : mem x l = false <-> ~ In x l.
Proof.
  rewrite <- mem_In. destruct (mem x l); split; congruence.
Qed.

Lemma tmpl_bad_false t : tmpl_bad t = false <-> tmpl_ok t.
Proof.
  unfold tmpl_bad, tmpl_ok. rewrite andb_false_iff, !negb_false_iff, contains_spec. tauto.
Qed.

Lemma check_stores_none seen l :
  check_stores seen l = None <->
  Forall (fun s => s <> 0) l /\ NoDup l /\ (forall x, In x l -> ~ In x seen).
Proof.
  revert seen; induction l as [|s l IH]; intro seen; cbn [check_stores].
  - split; [intros _; repeat split; [constructor | constructor | intros x []] | reflexivity].
  - destruct (N.eqb_spec s 0) as [E|E].
    + split; [discriminate|]. intros [H _]. inversion H; subst. congruence.
    + destruct (mem s seen) eqn:Em.
      * split; [discriminate|]. intros (_ & _ & H). apply mem_In in Em.
        exfalso. apply (H s); [now left | exact Em].
      * apply mem_not_In in Em. rewrite IH. split.
        -- intros (H1 & H2 & H3). repeat split.
           ++ constructor; assumption.
           ++ constructor; [|assumption]. intro Hin. apply (H3 s Hin). now left.
           ++ intros x [->|Hx]; [exact Em|]. intro Hs. apply (H3 x Hx). now right.
        -- intros (H1 & H2 & H3). inversion H1; subst. inversion H2; subst. repeat split; try assumption.
           intros x Hx [->|Hs]; [contradiction|]. apply (H3 x); [now right | exact Hs].
Qed.

Lemma check_peers_none stores ps :
  check_peers stores ps = None <-> Forall (peer_ok stores) ps.
Proof.
  induction ps as [|p ps IH]; cbn [check_peers].
  - split; [constructor | reflexivity].
  - destruct (N.eqb_spec (p_store p) 0) as [E1|E1]; cbn [orb].
    + split; [discriminate|]. intro H. inversion H as [|? ? [H1 _] _]; subst. congruence.
    + destruct (N.eqb_spec (p_id p) 0) as [E2|E2].
      * split; [discriminate|]. intro H. inversion H as [|? ? (_ & H2 & _) _]; subst. congruence.
      * destruct (mem (p_store p) stores) eqn:Em; cbn [negb].
        -- apply mem_In in Em. rewrite IH. split.
           ++ intro H. constructor; [now repeat split | exact H].
           ++ intro H. now inversion H.
        -- apply mem_not_In in Em. split; [discriminate|].
           intro H. inversion H as [|? ? (_ & _ & H3) _]; subst. contradiction.
Qed.

Lemma check_region_none stores r :
  check_region stores r = None <-> region_ok stores r.
Proof.
  unfold check_region, region_ok.
  destruct (N.eqb_spec (r_id r) 0) as [E|E].
  - split; [discriminate | intros [H _]; congruence].
  - destruct (N.eqb_spec (r_leader r) 0) as [El|El]; cbn [negb andb].
    + rewrite check_peers_none. tauto.
    + destruct (mem (r_leader r) stores) eqn:Em; cbn [negb].
      * apply mem_In in Em. rewrite check_peers_none. tauto.
      * apply mem_not_In in Em. split; [discriminate|]. intros (_ & [H|H] & _); contradiction.
Qed.

Lemma check_regions_none stores rs :
  check_regions stores rs = None <-> Forall (region_ok stores) rs.
Proof.
  induction rs as [|r rs IH]; cbn [check_regions].
  - split; [constructor | reflexivity].
  - destruct (check_region stores r) eqn:E.
    + split; [discriminate|]. intro H. inversion H as [|? ? H1 _]; subst.
      apply check_region_none in H1. congruence.
    + apply check_region_none in E. rewrite IH. split.
      * intro H. now constructor.
      * intro H. now inversion H.
Qed.

Theorem validate_iff f : validate f = None <-> well_formed f.
Proof.
  unfold validate, well_formed.
  destruct (tmpl_bad (f_tmpl f)) eqn:E1.
  { split; [discriminate|]. intros [H _]. apply tmpl_bad_false in H. congruence. }
  destruct (tmpl_bad (f_dtmpl f)) eqn:E2.
  { split; [discriminate|]. intros (_ & H & _). apply tmpl_bad_false in H. congruence. }
  apply tmpl_bad_false in E1, E2.
  destruct (check_stores [] (f_stores f)) eqn:E3.
  { split; [discriminate|]. intros (_ & _ & H1 & H2 & _).
    assert (H : check_stores [] (f_stores f) = None).
    { apply check_stores_none. repeat split; try assumption. intros x _ []. }
    congruence. }
  apply check_stores_none in E3 as (H1 & H2 & _).
  rewrite check_regions_none. tauto.
Qed.

(** The rejected topologies are exactly those with one of the listed defects,
    and the error reported names a defect that is really present. *)
Definition err_present (f : file) (e : err) : Prop :=
  match e with
  | ErrTmpl => ~ tmpl_ok (f_tmpl f)
  | ErrDockerTmpl => ~ tmpl_ok (f_dtmpl f)
  | ErrStoreZero => In 0 (f_stores f)
  | ErrStoreDup => ~ NoDup (f_stores f)
  | ErrRegionZero => exists r, In r (f_regions f) /\ r_id r = 0
  | ErrLeaderMissing => exists r, In r (f_regions f) /\ r_leader r <> 0 /\ ~ In (r_leader r) (f_stores f)
  | ErrPeerZero => exists r p, In r (f_regions f) /\ In p (r_peers r) /\ (p_store p = 0 \/ p_id p = 0)
  | ErrPeerUnknown => exists r p, In r (f_regions f) /\ In p (r_peers r) /\ ~ In (p_store p) (f_stores f)
  end.

Lemma check_stores_some seen l e :
  check_stores seen l = Some e ->
  (e = ErrStoreZero /\ In 0 l) \/ (e = ErrStoreDup /\ (~ NoDup l \/ exists x, In x l /\ In x seen)).
Proof.
  revert seen; induction l as [|s l IH]; intro seen; cbn [check_stores]; [discriminate|].
  destruct (N.eqb_spec s 0) as [E|E].
  - intro H; inversion H; subst. left. split; [reflexivity | now left].
  - destruct (mem s seen) eqn:Em.
    + intro H; inversion H; subst. apply mem_In in Em. right. split; [reflexivity|].
      right. exists s. split; [now left | exact Em].
    + intro H. apply IH in H as [[-> H]|[-> [H|[x [H1 [->|H2]]]]]].
      * left. split; [reflexivity | now right].
      * right. split; [reflexivity|]. left. intro Hn. inversion Hn; subst. contradiction.
      * right. split; [reflexivity|]. left. intro Hn. inversion Hn; subst. contradiction.
      * right. split; [reflexivity|]. right. exists x. split; [now right | exact H2].
Qed.

Lemma check_peers_some stores ps e :
  check_peers stores ps = Some e ->
  (e = ErrPeerZero /\ exists p, In p ps /\ (p_store p = 0 \/ p_id p = 0)) \/
  (e = ErrPeerUnknown /\ exists p, In p ps /\ ~ In (p_store p) stores).
Proof.
  induction ps as [|p ps IH]; cbn [check_peers]; [discriminate|].
  destruct (N.eqb_spec (p_store p) 0) as [E1|E1]; cbn [orb].
  { intro H; inversion H; subst. left. split; [reflexivity|]. exists p. split; [now left | now left]. }
  destruct (N.eqb_spec (p_id p) 0) as [E2|E2].
  { intro H; inversion H; subst. left. split; [reflexivity|]. exists p. split; [now left | now right]. }
  destruct (mem (p_store p) stores) eqn:Em; cbn [negb].
  - intro H. apply IH in H as [[-> [q [Hq Hz]]]|[-> [q [Hq Hz]]]].
    + left. split; [reflexivity|]. exists q. split; [now right | exact Hz].
    + right. split; [reflexivity|]. exists q. split; [now right | exact Hz].
  - apply mem_not_In in Em. intro H; inversion H; subst. right. split; [reflexivity|].
    exists p. split; [now left | exact Em].
Qed.

Lemma check_regions_some stores rs e :
  check_regions stores rs = Some e ->
  match e with
  | ErrRegionZero => exists r, In r rs /\ r_id r = 0
  | ErrLeaderMissing => exists r, In r rs /\ r_leader r <> 0 /\ ~ In (r_leader r) stores
  | ErrPeerZero => exists r p, In r rs /\ In p (r_peers r) /\ (p_store p = 0 \/ p_id p = 0)
  | ErrPeerUnknown => exists r p, In r rs /\ In p (r_peers r) /\ ~ In (p_store p) stores
  | _ => False
  end.
Proof.
  induction rs as [|r rs IH]; cbn [check_regions]; [discriminate|].
  destruct (check_region stores r) eqn:Er.
  - intro H; inversion H; subst. unfold check_region in Er.
    destruct (N.eqb_spec (r_id r) 0) as [E|E].
    { inversion Er; subst. exists r. split; [now left | exact E]. }
    destruct (N.eqb_spec (r_leader r) 0) as [El|El]; cbn [negb andb] in Er.
    + apply check_peers_some in Er as [[-> [p [Hp Hz]]]|[-> [p [Hp Hz]]]];
        exists r, p; (split; [now left | split; assumption]).
    + destruct (mem (r_leader r) stores) eqn:Em; cbn [negb] in Er.
      * apply check_peers_some in Er as [[-> [p [Hp Hz]]]|[-> [p [Hp Hz]]]];
          exists r, p; (split; [now left | split; assumption]).
      * inversion Er; subst. apply mem_not_In in Em. exists r. split; [now left | split; assumption].
  - intro H. apply IH in H. destruct e; try contradiction.
    + destruct H as [q [Hq Hz]]. exists q. split; [now right | exact Hz].
    + destruct H as [q [Hq Hz]]. exists q. split; [now right | exact Hz].
    + destruct H as [q [p [Hq Hz]]]. exists q, p. split; [now right | exact Hz].
    + destruct H as [q [p [Hq Hz]]]. exists q, p. split; [now right | exact Hz].
Qed.

Theorem validate_error_sound f e : validate f = Some e -> err_present f e.
Proof.
  unfold validate.
  destruct (tmpl_bad (f_tmpl f)) eqn:E1.
  { intro H; inversion H; subst. cbn. intro Hok. apply tmpl_bad_false in Hok. congruence. }
  destruct (tmpl_bad (f_dtmpl f)) eqn:E2.
  { intro H; inversion H; subst. cbn. intro Hok. apply tmpl_bad_false in Hok. congruence. }
  destruct (check_stores [] (f_stores f)) eqn:E3.
  { intro H; inversion H; subst. apply check_stores_some in E3 as [[-> H0]|[-> [Hn|[x [_ []]]]]]; cbn; assumption. }
  intro H. apply check_regions_some in H. destruct e; cbn; try contradiction; exact H.
Qed.

Example wf_example :
  well_formed {| f_tmpl := of_string " /data/{id} "%string; f_dtmpl := [];
                 f_stores := [1; 2];
                 f_regions := [{| r_id := 7; r_leader := 2; r_peers := [{| p_store := 1; p_id := 3 |}] |}] |}.
Proof. apply validate_iff. vm_compute. reflexivity. Qed.

Example bad_example :
  validate {| f_tmpl := of_string "x"%string; f_dtmpl := []; f_stores := []; f_regions := [] |} = Some ErrTmpl.
Proof. vm_compute. reflexivity. Qed.

(** The boolean oracle decides the specification. *)
Lemma existsb_eqb_In x l : existsb (N.eqb x) l = true <-> In x l.
Proof. exact (mem_In x l). Qed.

Lemma nodup_b_spec l : nodup_b l = true <-> NoDup l.
Proof.
  induction l as [|x l IH]; cbn [nodup_b].
  - split; [constructor | reflexivity].
  - rewrite andb_true_iff, negb_true_iff, IH. split.
    + intros [H1 H2]. constructor; [|exact H2]. intro Hin. apply existsb_eqb_In in Hin. congruence.
    + intro H. inversion H; subst. split; [|assumption].
      destruct (existsb (N.eqb x) l) eqn:E; [apply existsb_eqb_In in E; contradiction | reflexivity].
Qed.

Lemma well_formed_b_spec f : well_formed_b f = true <-> well_formed f.
Proof.
  unfold well_formed_b, well_formed.
  rewrite !andb_true_iff, !forallb_forall, nodup_b_spec, !Forall_forall.
  unfold tmpl_ok_b, tmpl_ok. rewrite !orb_true_iff, !contains_spec.
  assert (Hr : forall r, region_ok_b (f_stores f) r = true <-> region_ok (f_stores f) r).
  { intro r. unfold region_ok_b, region_ok.
    rewrite !andb_true_iff, orb_true_iff, negb_true_iff, forallb_forall, Forall_forall, N.eqb_neq, N.eqb_eq, existsb_eqb_In.
    assert (Hp : forall p, peer_ok_b (f_stores f) p = true <-> peer_ok (f_stores f) p).
    { intro p. unfold peer_ok_b, peer_ok.
      rewrite !andb_true_iff, !negb_true_iff, !N.eqb_neq, existsb_eqb_In. tauto. }
    split.
    - intros [[H1 H2] H3]. split; [exact H1 | split; [exact H2 |]]. intros p Hp'. apply Hp. now apply H3.
    - intros (H1 & H2 & H3). split; [split; [exact H1 | exact H2] |]. intros p Hp'. apply Hp. now apply H3. }
  split.
  - intros [[[[H1 H2] H3] H4] H5].
    split; [exact H1 | split; [exact H2 | split; [| split; [exact H4 |]]]].
    + intros s Hs. specialize (H3 s Hs). now apply negb_true_iff, N.eqb_neq in H3.
    + intros r Hin. apply Hr. now apply H5.
  - intros (H1 & H2 & H3 & H4 & H5).
    split; [split; [split; [split; [exact H1 | exact H2] |] | exact H4] |].
    + intros s Hs. apply negb_true_iff, N.eqb_neq. now apply H3.
    + intros r Hin. apply Hr. now apply H5.
Qed.

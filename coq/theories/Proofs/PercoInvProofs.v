(** Protocol invariants on the logical state (C18, C19): every request acts on
    a key only through four labelled per-key transitions; the invariants and
    the persistence facts are proved for those and lifted to histories. *)
From Coq Require Import List NArith Bool Lia ZifyN ZifyNat ZifyBool Sorted Relations.
From NoKV Require Import Base.Bytes Model.Percolator Model.KvApply Spec.PercoSpec Proofs.PercoProofs.
Import ListNotations.
Local Open Scope N_scope.

Inductive klabel := KPrewrite (start : N) | KCommit (start cv : N) | KRollback (start : N) | KPush (start : N)
                   | KFinish (start : N).   (* status check removing the lock a committed transaction left behind *)

Definition push_min_commit (l : llock) (mc : N) : llock :=
  {| ll_rec := {| l_primary := l_primary (ll_rec l); l_ts := l_ts (ll_rec l); l_ttl := l_ttl (ll_rec l);
                  l_kind := l_kind (ll_rec l); l_min_commit := mc |};
     ll_val := ll_val l |}.

Inductive ktrans : klabel -> kstate -> kstate -> Prop :=
| KT_prewrite ks primary start ttl mc m ks' :
    l_prewrite_key ks primary start ttl mc m = (ks', None) -> ktrans (KPrewrite start) ks ks'
| KT_commit ks k l cv ks' :
    ks_lock ks = Some l -> l_ts (ll_rec l) <= cv -> l_commit_key ks k l cv = (ks', None) ->
    ktrans (KCommit (l_ts (ll_rec l)) cv) ks ks'
| KT_rollback ks start : ktrans (KRollback start) ks (l_rollback_key ks start)
| KT_push ks l mc :
    ks_lock ks = Some l ->
    ktrans (KPush (l_ts (ll_rec l))) ks {| ks_lock := Some (push_min_commit l mc); ks_recs := ks_recs ks |}
| KT_finish ks l r :
    ks_lock ks = Some l -> find_start (ks_recs ks) (l_ts (ll_rec l)) = Some r -> lr_kind r <> OpRollback ->
    ktrans (KFinish (l_ts (ll_rec l))) ks {| ks_lock := None; ks_recs := ks_recs ks |}.

Definition label_ok (r : request) (lab : klabel) : Prop :=
  match r, lab with
  | RPrewrite _ _ s _ _, KPrewrite s' => s' = s
  | RCommit _ s cv, KCommit s' cv' => s' = s /\ cv' = cv
  | RRollback _ s, KRollback s' => s' = s
  | RResolve _ s cv, KCommit s' cv' => s' = s /\ cv' = cv /\ cv <> 0
  | RResolve _ s cv, KRollback s' => s' = s /\ cv = 0
  | RCheck _ lts _ _ _, KRollback s' => s' = lts
  | RCheck _ lts _ _ _, KPush s' => s' = lts
  | RCheck _ lts _ _ _, KFinish s' => s' = lts
  | _, _ => False
  end.

Definition kstep1 (r : request) (x y : kstate) : Prop := exists lab, label_ok r lab /\ ktrans lab x y.
Definition kreach (r : request) : kstate -> kstate -> Prop := clos_refl_trans kstate (kstep1 r).

Definition areach (r : request) (a a' : lstate) : Prop := forall k, kreach r (ls_at a k) (ls_at a' k).

Lemma areach_refl r a : areach r a a.
Proof. intro k. apply rt_refl. Qed.
Lemma areach_trans r a b c : areach r a b -> areach r b c -> areach r a c.
Proof. intros H1 H2 k. eapply rt_trans; [apply H1 | apply H2]. Qed.
Lemma areach_lupd r a k ks' : kstep1 r (ls_at a k) ks' -> areach r a (lupd a k ks').
Proof.
  intros H k'. rewrite ls_at_lupd. beq k' k.
  - subst. now apply rt_step.
  - apply rt_refl.
Qed.

(** ** every request is a sequence of labelled per-key transitions *)
Lemma l_prewrite_reach ms0 ms : forall a primary start ttl mc,
  areach (RPrewrite ms0 primary start ttl mc) a (fst (l_prewrite a primary start ttl mc ms)).
Proof.
  induction ms as [|m ms IH]; intros a primary start ttl mc; cbn [l_prewrite].
  - apply areach_refl.
  - destruct (is_nil (m_key m)).
    + specialize (IH a primary start ttl mc). destruct (l_prewrite a primary start ttl mc ms). exact IH.
    + destruct (l_prewrite_key (ls_at a (m_key m)) primary start ttl mc m) as [ks1 [e|]] eqn:Hp.
      * specialize (IH a primary start ttl mc). destruct (l_prewrite a primary start ttl mc ms). exact IH.
      * specialize (IH (lupd a (m_key m) ks1) primary start ttl mc).
        destruct (l_prewrite (lupd a (m_key m) ks1) primary start ttl mc ms) as [a2 es]. cbn [fst] in *.
        eapply areach_trans; [|exact IH]. apply areach_lupd.
        exists (KPrewrite start). split; [reflexivity|]. econstructor; exact Hp.
Qed.

Lemma l_commit_reach keys0 keys : forall a start cv,
  start <= cv ->
  areach (RCommit keys0 start cv) a (fst (l_commit a keys start cv)).
Proof.
  induction keys as [|k keys IH]; intros a start cv Hle; cbn [l_commit].
  - apply areach_refl.
  - destruct (is_nil k); [apply areach_refl|].
    destruct (ks_lock (ls_at a k)) as [l|] eqn:Hl.
    + destruct (l_ts (ll_rec l) =? start) eqn:Hts; [|apply areach_refl].
      destruct (l_commit_key (ls_at a k) k l cv) as [ks1 [e|]] eqn:Hc; [apply areach_refl|].
      eapply areach_trans; [|apply IH; exact Hle]. apply areach_lupd.
      exists (KCommit (l_ts (ll_rec l)) cv). split; [cbn; lia|].
      eapply KT_commit; [exact Hl | lia | exact Hc].
    + destruct (find_start (ks_recs (ls_at a k)) start) as [r|]; [|apply areach_refl].
      destruct (op_eqb (lr_kind r) OpRollback); [apply areach_refl | now apply IH].
Qed.

Lemma l_batch_rollback_reach keys0 keys : forall a start,
  areach (RRollback keys0 start) a (fst (l_batch_rollback a keys start)).
Proof.
  induction keys as [|k keys IH]; intros a start; cbn [l_batch_rollback].
  - apply areach_refl.
  - destruct (is_nil k); [apply areach_refl|].
    eapply areach_trans; [|apply IH]. apply areach_lupd.
    exists (KRollback start). split; [reflexivity | constructor].
Qed.

Lemma l_resolve_reach keys0 keys : forall a start cv n,
  (cv = 0 \/ start <= cv) ->
  areach (RResolve keys0 start cv) a (fst (fst (l_resolve a keys start cv n))).
Proof.
  induction keys as [|k keys IH]; intros a start cv n Hle; cbn [l_resolve].
  - apply areach_refl.
  - destruct (is_nil k); [now apply IH|].
    unfold own_lock. destruct (ks_lock (ls_at a k)) as [l|] eqn:Hl; [|now apply IH].
    destruct (l_ts (ll_rec l) =? start) eqn:Hts; [|now apply IH].
    destruct (cv =? 0) eqn:Hcv.
    + eapply areach_trans; [|apply IH; exact Hle]. apply areach_lupd.
      exists (KRollback start). split; [cbn; lia | constructor].
    + destruct (l_commit_key (ls_at a k) k l cv) as [ks1 [e|]] eqn:Hc; [apply areach_refl|].
      eapply areach_trans; [|apply IH; exact Hle]. apply areach_lupd.
      exists (KCommit (l_ts (ll_rec l)) cv). split; [cbn; lia|].
      eapply KT_commit; [exact Hl | lia | exact Hc].
Qed.

Lemma l_check_reach a primary lts cur caller rb :
  areach (RCheck primary lts cur caller rb) a (fst (l_check a primary lts cur caller rb)).
Proof.
  unfold l_check. destruct (ks_lock (ls_at a primary)) as [l|] eqn:Hl.
  - destruct (negb (l_ts (ll_rec l) =? lts)) eqn:Hts; [apply areach_refl|].
    destruct (find_start (ks_recs (ls_at a primary)) lts) as [rf|] eqn:Hff;
      [destruct (op_eqb (lr_kind rf) OpRollback) eqn:Hkf|].
    2: { apply areach_lupd. exists (KFinish (l_ts (ll_rec l))). split; [cbn; lia|].
         apply (KT_finish _ l rf Hl); [assert (E : l_ts (ll_rec l) = lts) by lia; now rewrite E|].
         intro E. rewrite E in Hkf. discriminate. }
    all: destruct (lock_expired (ll_rec l) cur);
      [ apply areach_lupd; exists (KRollback lts); split; [reflexivity | constructor]
      | destruct ((0 <? caller) && (l_min_commit (ll_rec l) <? wrap64 (caller + 1))); [|apply areach_refl];
        apply areach_lupd; exists (KPush (l_ts (ll_rec l))); split; [cbn; lia|];
        apply (KT_push _ l (wrap64 (caller + 1)) Hl) ].
  - destruct (find_start (ks_recs (ls_at a primary)) lts) as [r|].
    + destruct (op_eqb (lr_kind r) OpRollback); apply areach_refl.
    + destruct rb; [|apply areach_refl].
      apply areach_lupd. exists (KRollback lts). split; [reflexivity | constructor].
Qed.

Theorem lstep_reach a r : req_ok r = true -> areach r a (fst (lstep a r)).
Proof.
  intro Hok. destruct r; cbn [lstep req_ok] in *.
  - pose proof (l_prewrite_reach muts muts a primary start ttl min_commit) as H.
    destruct (l_prewrite a primary start ttl min_commit muts). exact H.
  - apply andb_true_iff in Hok as [_ Hlt].
    pose proof (l_commit_reach keys keys a start commit_version ltac:(lia)) as H.
    destruct (l_commit a keys start commit_version). exact H.
  - pose proof (l_batch_rollback_reach keys keys a start) as H.
    destruct (l_batch_rollback a keys start). exact H.
  - apply andb_true_iff in Hok as [_ Hlt].
    pose proof (l_resolve_reach keys keys a start commit_version 0 ltac:(lia)) as H.
    destruct (l_resolve a keys start commit_version 0) as [[a1 n] e]. exact H.
  - pose proof (l_check_reach a primary lock_ts current_ts caller_start rollback_if_not_exist) as H.
    destruct (l_check a primary lock_ts current_ts caller_start rollback_if_not_exist). exact H.
  - apply areach_refl.
  - destruct (lscan a start_key include_start limit version). apply areach_refl.
Qed.

(** ** protocol invariants of one key *)
Record ks_inv2 (ks : kstate) : Prop := {
  J_le : forall r, In r (ks_recs ks) -> lr_start r <= lr_ts r;
  J_rb : forall r, In r (ks_recs ks) -> lr_kind r = OpRollback -> lr_ts r = lr_start r;
  J_nodup : forall r1 r2, In r1 (ks_recs ks) -> In r2 (ks_recs ks) -> lr_start r1 = lr_start r2 -> r1 = r2;
  J_lock_fresh : forall l r, ks_lock ks = Some l -> In r (ks_recs ks) -> lr_start r <> l_ts (ll_rec l);
  J_lock_above : forall l r, ks_lock ks = Some l -> In r (ks_recs ks) -> lr_kind r <> OpRollback ->
                   lr_ts r < l_ts (ll_rec l);
  J_lock_kind : forall l, ks_lock ks = Some l -> l_kind (ll_rec l) <> OpRollback;
  J_disjoint : forall r1 r2, In r1 (ks_recs ks) -> In r2 (ks_recs ks) ->
                 lr_kind r1 <> OpRollback -> lr_kind r2 <> OpRollback -> lr_start r1 <> lr_start r2 ->
                 lr_ts r1 < lr_start r2 \/ lr_ts r2 < lr_start r1 }.

Lemma ks_inv2_empty : ks_inv2 ks_empty.
Proof. constructor; cbn; intros; try contradiction; discriminate. Qed.

Lemma In_add_rec_other rs r x : In x rs -> lr_ts x <> lr_ts r -> In x (add_rec rs r).
Proof.
  induction rs as [|r0 rs IH]; cbn [add_rec]; [intros []|].
  intros [->|Hin] Hne.
  - destruct (lr_ts x <? lr_ts r); [now right; left|].
    destruct (lr_ts x =? lr_ts r) eqn:E; [lia | now left].
  - destruct (lr_ts r0 <? lr_ts r); [now right; right|].
    destruct (lr_ts r0 =? lr_ts r); [now right | right; now apply IH].
Qed.

Lemma prewrite_key_success ks primary start ttl mc m ks' :
  l_prewrite_key ks primary start ttl mc m = (ks', None) ->
  (forall r, In r (ks_recs ks) -> lr_ts r < start) /\ m_op m <> OpRollback /\
  (forall l, ks_lock ks = Some l -> l_ts (ll_rec l) = start) /\
  ks_recs ks' = ks_recs ks /\
  exists l, ks_lock ks' = Some l /\ l_ts (ll_rec l) = start /\ l_kind (ll_rec l) = m_op m.
Proof.
  unfold l_prewrite_key, foreign_lock. intro H.
  assert (Hf : forall l, ks_lock ks = Some l -> l_ts (ll_rec l) = start).
  { intros l Hl. rewrite Hl in H. destruct (l_ts (ll_rec l) =? start) eqn:E; [lia | discriminate]. }
  assert (H' : match (match newest_any (ks_recs ks) with
                      | Some r => if start <=? lr_ts r then Some r else None | None => None end) with
               | Some r => (ks, Some (KEConflict (m_key m) primary (lr_ts r) (lr_start r) start))
               | None => match m_op m with
                         | OpRollback => (ks, Some (KEAbort AbUnsupportedOp))
                         | o => ({| ks_lock := Some {| ll_rec := {| l_primary := primary; l_ts := start; l_ttl := ttl;
                                                                   l_kind := o; l_min_commit := mc |};
                                                      ll_val := match o with OpPut => m_val m | _ => [] end |};
                                   ks_recs := ks_recs ks |}, None)
                         end
               end = (ks', None)).
  { destruct (ks_lock ks) as [l|]; [|exact H]. destruct (l_ts (ll_rec l) =? start); [exact H | discriminate]. }
  clear H. destruct (newest_any (ks_recs ks)) as [r0|] eqn:Hn.
  - destruct (start <=? lr_ts r0) eqn:Hc; [discriminate|].
    apply newest_any_max in Hn as [_ Hmax].
    split; [intros r Hr; specialize (Hmax r Hr); lia|].
    destruct (m_op m) eqn:Hop; try discriminate; inversion H'; subst ks'; cbn;
      (split; [discriminate|]; split; [exact Hf|]; split; [reflexivity|]; eexists; repeat split).
  - apply newest_any_none in Hn. split; [intros r Hr; rewrite Hn in Hr; destruct Hr|].
    destruct (m_op m) eqn:Hop; try discriminate; inversion H'; subst ks'; cbn;
      (split; [discriminate|]; split; [exact Hf|]; split; [reflexivity|]; eexists; repeat split).
Qed.

Lemma ktrans_inv2 lab x y : ktrans lab x y -> ks_inv2 x -> ks_inv2 y.
Proof.
  intros T HJ. destruct T as [ks primary start ttl mc m ks' Hp | ks k l cv ks' Hl Hle Hc | ks start | ks l mc Hl | ks l rf Hl Hff Hkf].
  - apply prewrite_key_success in Hp as (Hbelow & Hop & _ & Hrecs & l' & Hl' & Hts & Hkind).
    constructor; rewrite ?Hrecs.
    + apply (J_le _ HJ).
    + apply (J_rb _ HJ).
    + apply (J_nodup _ HJ).
    + intros l0 r E Hr. rewrite Hl' in E. inversion E; subst l0. rewrite Hts.
      pose proof (J_le _ HJ r Hr). specialize (Hbelow r Hr). lia.
    + intros l0 r E Hr _. rewrite Hl' in E. inversion E; subst l0. rewrite Hts. now apply Hbelow.
    + intros l0 E. rewrite Hl' in E. inversion E; subst l0. now rewrite Hkind.
    + apply (J_disjoint _ HJ).
  - unfold l_commit_key in Hc.
    destruct (cv <? l_min_commit (ll_rec l)); [discriminate|].
    destruct (find_start (ks_recs ks) (l_ts (ll_rec l))) as [r|] eqn:Hf.
    + destruct (op_eqb (lr_kind r) OpRollback); [discriminate|].
      inversion Hc; subst ks'.
      constructor; cbn [ks_lock ks_recs]; try discriminate;
        [apply (J_le _ HJ) | apply (J_rb _ HJ) | apply (J_nodup _ HJ) | apply (J_disjoint _ HJ)].
    + inversion Hc; subst ks'. clear Hc.
      set (nr := {| lr_ts := cv; lr_kind := l_kind (ll_rec l); lr_start := l_ts (ll_rec l); lr_val := ll_val l |}).
      pose proof (J_lock_kind _ HJ l Hl) as Hkind.
      constructor; cbn [ks_lock ks_recs]; try discriminate.
      * intros r Hr. apply In_add_rec in Hr as [->|Hr]; [exact Hle | now apply (J_le _ HJ)].
      * intros r Hr Hk. apply In_add_rec in Hr as [->|Hr]; [contradiction | now apply (J_rb _ HJ)].
      * intros r1 r2 H1 H2 E. apply In_add_rec in H1 as [->|H1]; apply In_add_rec in H2 as [->|H2].
        -- reflexivity.
        -- exfalso. apply (J_lock_fresh _ HJ l r2 Hl H2). now rewrite <- E.
        -- exfalso. apply (J_lock_fresh _ HJ l r1 Hl H1). now rewrite E.
        -- now apply (J_nodup _ HJ).
      * intros r1 r2 H1 H2 K1 K2 E. apply In_add_rec in H1 as [->|H1]; apply In_add_rec in H2 as [->|H2].
        -- contradiction.
        -- right. cbn [nr lr_start]. now apply (J_lock_above _ HJ l r2 Hl H2).
        -- left. cbn [nr lr_start]. now apply (J_lock_above _ HJ l r1 Hl H1).
        -- now apply (J_disjoint _ HJ).
  - unfold l_rollback_key. destruct (find_start (ks_recs ks) start) as [r|] eqn:Hf; [exact HJ|].
    set (nr := {| lr_ts := start; lr_kind := OpRollback; lr_start := start; lr_val := [] |}).
    assert (Hlock : forall l, match own_lock ks start with Some _ => None | None => ks_lock ks end = Some l ->
                              ks_lock ks = Some l /\ l_ts (ll_rec l) <> start).
    { intros l E. unfold own_lock in E. destruct (ks_lock ks) as [l0|]; [|discriminate].
      destruct (l_ts (ll_rec l0) =? start) eqn:Hts; [discriminate|]. inversion E; subst. split; [reflexivity | lia]. }
    constructor; cbn [ks_lock ks_recs].
    * intros r Hr. apply In_add_rec in Hr as [->|Hr]; [cbn; lia | now apply (J_le _ HJ)].
    * intros r Hr Hk. apply In_add_rec in Hr as [->|Hr]; [reflexivity | now apply (J_rb _ HJ)].
    * intros r1 r2 H1 H2 E. apply In_add_rec in H1 as [->|H1]; apply In_add_rec in H2 as [->|H2].
      -- reflexivity.
      -- exfalso. apply (find_start_none _ _ r2 Hf H2). now rewrite <- E.
      -- exfalso. apply (find_start_none _ _ r1 Hf H1). now rewrite E.
      -- now apply (J_nodup _ HJ).
    * intros l r E Hr. apply Hlock in E as [E Hne]. apply In_add_rec in Hr as [->|Hr].
      -- cbn [nr lr_start]. congruence.
      -- now apply (J_lock_fresh _ HJ l r E).
    * intros l r E Hr Hk. apply Hlock in E as [E Hne]. apply In_add_rec in Hr as [->|Hr].
      -- cbn [nr lr_kind] in Hk. contradiction.
      -- now apply (J_lock_above _ HJ l r E).
    * intros l E. apply Hlock in E as [E _]. now apply (J_lock_kind _ HJ).
    * intros r1 r2 H1 H2 K1 K2 E. apply In_add_rec in H1 as [->|H1]; [cbn [nr lr_kind] in K1; contradiction|].
      apply In_add_rec in H2 as [->|H2]; [cbn [nr lr_kind] in K2; contradiction|].
      now apply (J_disjoint _ HJ).
  - constructor; cbn [ks_lock ks_recs];
      [apply (J_le _ HJ) | apply (J_rb _ HJ) | apply (J_nodup _ HJ) | | | | apply (J_disjoint _ HJ)].
    + intros l0 r E Hr. inversion E; subst l0. cbn. now apply (J_lock_fresh _ HJ l r Hl).
    + intros l0 r E Hr Hk. inversion E; subst l0. cbn. now apply (J_lock_above _ HJ l r Hl).
    + intros l0 E. inversion E; subst l0. cbn. now apply (J_lock_kind _ HJ l Hl).
  - constructor; cbn [ks_lock ks_recs]; try discriminate;
      [apply (J_le _ HJ) | apply (J_rb _ HJ) | apply (J_nodup _ HJ) | apply (J_disjoint _ HJ)].
Qed.

Definition Inv2 (a : lstate) : Prop := forall k, ks_inv2 (ls_at a k).

Lemma kreach_inv2 r x y : kreach r x y -> ks_inv2 x -> ks_inv2 y.
Proof.
  induction 1 as [x y [lab [_ T]] | x | x y z _ IH1 _ IH2]; intro HJ.
  - eapply ktrans_inv2; eauto.
  - exact HJ.
  - auto.
Qed.

Lemma lstep_inv2 a r : req_ok r = true -> Inv2 a -> Inv2 (fst (lstep a r)).
Proof. intros Hok HJ k. eapply kreach_inv2; [apply (lstep_reach a r Hok k) | apply HJ]. Qed.

Lemma lrun_from_inv2 h : forall a, forallb req_ok h = true -> Inv2 a -> Inv2 (lrun_from a h).
Proof.
  induction h as [|r h IH]; intros a Hok HJ; cbn [lrun_from]; [exact HJ|].
  cbn [forallb] in Hok. apply andb_true_iff in Hok as [Hr Hh]. apply IH; [exact Hh | now apply lstep_inv2].
Qed.

Theorem lrun_inv2 h : forallb req_ok h = true -> Inv2 (lrun h).
Proof. intro Hok. apply lrun_from_inv2; [exact Hok | intro k; apply ks_inv2_empty]. Qed.

(** ** persistence of outcomes *)
Definition rolled_back (ks : kstate) (s : N) : Prop :=
  exists r, In r (ks_recs ks) /\ lr_start r = s /\ lr_kind r = OpRollback.

Lemma rb_persist lab x y s :
  ks_inv2 x -> ktrans lab x y -> rolled_back x s ->
  (forall s' cv, lab = KCommit s' cv -> cv <> s) -> rolled_back y s.
Proof.
  intros HJ T [r (Hr & Hs & Hk)] Hlab.
  destruct T as [ks primary start ttl mc m ks' Hp | ks k l cv ks' Hl Hle Hc | ks start | ks l mc Hl | ks l rf Hl Hff Hkf].
  - apply prewrite_key_success in Hp as (_ & _ & _ & Hrecs & _). exists r. now rewrite Hrecs.
  - unfold l_commit_key in Hc. destruct (cv <? l_min_commit (ll_rec l)); [discriminate|].
    destruct (find_start (ks_recs ks) (l_ts (ll_rec l))) as [r0|].
    + destruct (op_eqb (lr_kind r0) OpRollback); [discriminate|].
      inversion Hc; subst ks'; exists r; auto.
    + inversion Hc; subst ks'. exists r. cbn [ks_recs]. split; [|auto].
      apply In_add_rec_other; [exact Hr|]. cbn [lr_ts].
      rewrite (J_rb _ HJ r Hr Hk), Hs. intro E. now apply (Hlab _ _ eq_refl).
  - unfold l_rollback_key. destruct (find_start (ks_recs ks) start) as [r0|] eqn:Hf; [exists r; auto|].
    exists r. cbn [ks_recs]. split; [|auto]. apply In_add_rec_other; [exact Hr|]. cbn [lr_ts].
    rewrite (J_rb _ HJ r Hr Hk), Hs. intro E. subst start. now apply (find_start_none _ _ r Hf Hr).
  - exists r. auto.
  - exists r. auto.
Qed.

Lemma rec_persist lab x y r :
  ks_inv2 x -> ktrans lab x y -> In r (ks_recs x) ->
  (forall s' cv, lab = KCommit s' cv -> cv = lr_ts r -> s' = lr_start r) ->
  (forall s', lab = KRollback s' -> s' <> lr_ts r \/ s' = lr_start r) -> In r (ks_recs y).
Proof.
  intros HJ T Hr Hc1 Hc2.
  destruct T as [ks primary start ttl mc m ks' Hp | ks k l cv ks' Hl Hle Hc | ks start | ks l mc Hl | ks l rf Hl Hff Hkf].
  - apply prewrite_key_success in Hp as (_ & _ & _ & Hrecs & _). now rewrite Hrecs.
  - unfold l_commit_key in Hc. destruct (cv <? l_min_commit (ll_rec l)); [discriminate|].
    destruct (find_start (ks_recs ks) (l_ts (ll_rec l))) as [r0|] eqn:Hf.
    + destruct (op_eqb (lr_kind r0) OpRollback); [discriminate|].
      inversion Hc; subst ks'; exact Hr.
    + inversion Hc; subst ks'. cbn [ks_recs]. apply In_add_rec_other; [exact Hr|]. cbn [lr_ts].
      intro E. symmetry in E. specialize (Hc1 _ _ eq_refl E).
      apply (find_start_none _ _ r Hf Hr). now rewrite Hc1.
  - unfold l_rollback_key. destruct (find_start (ks_recs ks) start) as [r0|] eqn:Hf; [exact Hr|].
    cbn [ks_recs]. apply In_add_rec_other; [exact Hr|]. cbn [lr_ts]. intro E.
    destruct (Hc2 _ eq_refl) as [H|H]; [congruence|]. apply (find_start_none _ _ r Hf Hr). congruence.
  - exact Hr.
  - exact Hr.
Qed.

Definition req_no_commit_at (s : N) (r : request) : Prop := forall c s', In (c, s') (commits_of r) -> c <> s.
(** [r] does not reuse the commit version [c] of transaction [s] for another transaction, nor as a start version *)
Definition req_keeps (c s : N) (r : request) : Prop :=
  (forall s', In (c, s') (commits_of r) -> s' = s) /\ (forall s', In s' (starts_of r) -> s' <> c \/ s' = s).

Lemma label_commit r s' cv : label_ok r (KCommit s' cv) -> In (cv, s') (commits_of r).
Proof.
  destruct r; cbn; try contradiction.
  - intros [-> ->]. now left.
  - intros (-> & -> & H). destruct (commit_version =? 0) eqn:E; [lia | now left].
Qed.
Lemma label_rollback r s' : label_ok r (KRollback s') -> In s' (starts_of r).
Proof.
  destruct r; cbn; try contradiction.
  - intros ->. now left.
  - intros [-> _]. now left.
  - intros ->. now left.
Qed.

Lemma kreach_rb r x y s :
  kreach r x y -> ks_inv2 x -> req_no_commit_at s r -> rolled_back x s -> rolled_back y s.
Proof.
  intros H. induction H as [x y [lab [Hl T]] | x | x y z H1 IH1 H2 IH2]; intros HJ Hno Hrb.
  - eapply rb_persist; eauto. intros s' cv ->. apply label_commit in Hl. exact (Hno _ _ Hl).
  - exact Hrb.
  - apply IH2; [eapply kreach_inv2; eauto | exact Hno | now apply IH1].
Qed.

Lemma kreach_rec r x y c s rc :
  kreach r x y -> ks_inv2 x -> req_keeps c s r -> lr_ts rc = c -> lr_start rc = s ->
  In rc (ks_recs x) -> In rc (ks_recs y).
Proof.
  intros H. induction H as [x y [lab [Hl T]] | x | x y z H1 IH1 H2 IH2]; intros HJ [Hk1 Hk2] Hc Hs Hin.
  - eapply rec_persist; eauto.
    + intros s' cv -> E. apply label_commit in Hl. rewrite Hs. apply Hk1. congruence.
    + intros s' ->. apply label_rollback in Hl. rewrite Hc, Hs. now apply Hk2.
  - exact Hin.
  - apply IH2; [eapply kreach_inv2; eauto | split; auto | exact Hc | exact Hs | now apply IH1].
Qed.

Lemma lrun_app h1 h2 : lrun (h1 ++ h2) = lrun_from (lrun h1) h2.
Proof.
  unfold lrun. generalize lempty. induction h1 as [|r h1 IH]; intro a; cbn [app lrun_from]; [reflexivity | apply IH].
Qed.
Lemma apply_all_app c h1 h2 : apply_all c (h1 ++ h2) = apply_all_from c (apply_all c h1) h2.
Proof.
  unfold apply_all. generalize empty_store. induction h1 as [|r h1 IH]; intro s; cbn [app apply_all_from]; [reflexivity | apply IH].
Qed.

Lemma lrun_from_rb h : forall a k s,
  forallb req_ok h = true -> Inv2 a -> Forall (req_no_commit_at s) h ->
  rolled_back (ls_at a k) s -> rolled_back (ls_at (lrun_from a h) k) s.
Proof.
  induction h as [|r h IH]; intros a k s Hok HJ Hno Hrb; cbn [lrun_from]; [exact Hrb|].
  cbn [forallb] in Hok. apply andb_true_iff in Hok as [Hr Hh]. inversion Hno; subst.
  apply IH; [exact Hh | now apply lstep_inv2 | assumption |].
  eapply kreach_rb; [apply (lstep_reach a r Hr k) | apply HJ | assumption | exact Hrb].
Qed.

Lemma lrun_from_rec h : forall a k c s rc,
  forallb req_ok h = true -> Inv2 a -> Forall (req_keeps c s) h -> lr_ts rc = c -> lr_start rc = s ->
  In rc (ks_recs (ls_at a k)) -> In rc (ks_recs (ls_at (lrun_from a h) k)).
Proof.
  induction h as [|r h IH]; intros a k c s rc Hok HJ Hkeep Hc Hs Hin; cbn [lrun_from]; [exact Hin|].
  cbn [forallb] in Hok. apply andb_true_iff in Hok as [Hr Hh]. inversion Hkeep; subst.
  eapply IH; [exact Hh | now apply lstep_inv2 | eassumption | reflexivity | reflexivity |].
  eapply kreach_rec; [apply (lstep_reach a r Hr k) | apply HJ | eassumption | reflexivity | reflexivity | exact Hin].
Qed.

(** ** C18: a rolled-back transaction cannot commit the key any more *)
Lemma rolled_back_find ks s :
  ks_inv2 ks -> rolled_back ks s ->
  exists r, find_start (ks_recs ks) s = Some r /\ lr_kind r = OpRollback.
Proof.
  intros HJ [r (Hr & Hs & Hk)].
  destruct (find_start (ks_recs ks) s) as [r0|] eqn:Hf.
  - apply find_start_some in Hf as [H1 H2]. exists r0. split; [reflexivity|].
    assert (r0 = r) by (apply (J_nodup _ HJ); auto; congruence). now subst.
  - exfalso. now apply (find_start_none _ _ r Hf Hr).
Qed.

Lemma l_commit_rolled_back k s cv keys : forall a,
  Inv2 a -> s <= cv -> rolled_back (ls_at a k) s -> In k keys -> keys_ok keys = true ->
  exists e, snd (l_commit a keys s cv) = Some e.
Proof.
  induction keys as [|k0 keys IH]; intros a HJ Hle Hrb Hin Hok; [destruct Hin|].
  unfold keys_ok in Hok. cbn [forallb] in Hok. apply andb_true_iff in Hok as [Hk0 Hks].
  apply negb_true_iff in Hk0. cbn [l_commit]. rewrite Hk0.
  destruct (bytes_eqb k0 k) eqn:Ek.
  - apply bytes_eqb_eq in Ek. subst k0.
    destruct (rolled_back_find _ s (HJ k) Hrb) as (r & Hf & Hkind).
    destruct (ks_lock (ls_at a k)) as [l|] eqn:Hl.
    + destruct (l_ts (ll_rec l) =? s) eqn:Hts; [|eexists; reflexivity].
      exfalso. apply find_start_some in Hf as [H1 H2].
      apply (J_lock_fresh _ (HJ k) l r Hl H1). lia.
    + rewrite Hf, Hkind. cbn. eexists; reflexivity.
  - apply bytes_eqb_neq in Ek. destruct Hin as [E|Hin]; [congruence|].
    destruct (ks_lock (ls_at a k0)) as [l|] eqn:Hl.
    + destruct (l_ts (ll_rec l) =? s) eqn:Hts; [|eexists; reflexivity].
      destruct (l_commit_key (ls_at a k0) k0 l cv) as [ks1 [e|]] eqn:Hc; [eexists; reflexivity|].
      apply IH; [| exact Hle | | exact Hin | exact Hks].
      * intro k'. rewrite ls_at_lupd. beq k' k0; [|apply HJ]. subst k'.
        eapply ktrans_inv2; [|apply (HJ k0)]. eapply (KT_commit _ k0 l cv); [exact Hl | lia | exact Hc].
      * rewrite ls_at_lupd.
        destruct (bytes_eqb k k0) eqn:E2; [apply bytes_eqb_eq in E2; congruence | exact Hrb].
    + destruct (find_start (ks_recs (ls_at a k0)) s) as [r|]; [|eexists; reflexivity].
      destruct (op_eqb (lr_kind r) OpRollback); [eexists; reflexivity|]. now apply IH.
Qed.

Theorem rollback_final_spec h1 h2 k s :
  forallb req_ok (h1 ++ h2) = true ->
  rolled_back (ls_at (lrun h1) k) s -> Forall (req_no_commit_at s) h2 ->
  let a := lrun (h1 ++ h2) in
  rolled_back (ls_at a k) s /\
  (forall r, In r (ks_recs (ls_at a k)) -> lr_start r = s -> lr_kind r = OpRollback) /\
  (forall keys cv, In k keys -> keys_ok keys = true -> s <= cv -> exists e, snd (l_commit a keys s cv) = Some e).
Proof.
  intros Hok Hrb Hno a.
  assert (HJ : Inv2 a) by (apply lrun_inv2; exact Hok).
  rewrite forallb_app in Hok. apply andb_true_iff in Hok as [Hok1 Hok2].
  assert (Hrb' : rolled_back (ls_at a k) s).
  { unfold a. rewrite lrun_app. apply lrun_from_rb; auto. now apply lrun_inv2. }
  split; [exact Hrb'|]. split.
  - intros r Hr Hs. destruct Hrb' as [r0 (H0 & Hs0 & Hk0)].
    assert (r = r0) by (apply (J_nodup _ (HJ k)); auto; congruence). now subst.
  - intros keys cv Hin Hkeys Hle. now apply (l_commit_rolled_back k s cv keys a HJ Hle Hrb' Hin Hkeys).
Qed.

(** the same for the model's Commit response *)
Theorem rollback_final h1 h2 k s keys cv :
  forallb req_ok (h1 ++ h2) = true ->
  rolled_back (ls_at (lrun h1) k) s -> Forall (req_no_commit_at s) h2 ->
  In k keys -> keys_ok keys = true -> s < cv ->
  exists e, snd (apply_req current (apply_all current (h1 ++ h2)) (RCommit keys s cv)) = PCommit (Some e).
Proof.
  intros Hok Hrb Hno Hin Hkeys Hlt.
  destruct (rollback_final_spec h1 h2 k s Hok Hrb Hno) as (_ & _ & H).
  destruct (H keys cv Hin Hkeys ltac:(lia)) as [e He].
  destruct (refines (h1 ++ h2) Hok) as [HR HI].
  assert (Hrq : req_ok (RCommit keys s cv) = true) by (cbn; apply andb_true_iff; split; [exact Hkeys | lia]).
  pose proof (step_ok _ _ _ HR HI Hrq) as S.
  destruct (apply_req current (apply_all current (h1 ++ h2)) (RCommit keys s cv)) as [s1 p].
  cbn [lstep] in S. destruct (l_commit (lrun (h1 ++ h2)) keys s cv) as [a1 e1]. cbn [snd] in *.
  destruct S as (_ & _ & S). rewrite (S eq_refl). subst e1. now exists e.
Qed.

(** ** C18: a committed record is final *)
Theorem commit_final h1 h2 k rc :
  forallb req_ok (h1 ++ h2) = true ->
  In rc (ks_recs (ls_at (lrun h1) k)) ->
  Forall (req_keeps (lr_ts rc) (lr_start rc)) h2 ->
  let ks := ls_at (lrun (h1 ++ h2)) k in
  In rc (ks_recs ks) /\
  l_rollback_key ks (lr_start rc) = ks /\
  (forall t, committed_data rc = true -> lr_ts rc <= t ->
     exists x, newest_committed (ks_recs ks) t = Some x /\ lr_ts rc <= lr_ts x).
Proof.
  intros Hok Hin Hkeep ks.
  rewrite forallb_app in Hok. apply andb_true_iff in Hok as [Hok1 Hok2].
  assert (Hin' : In rc (ks_recs ks)).
  { unfold ks. rewrite lrun_app. eapply lrun_from_rec; eauto. now apply lrun_inv2. }
  split; [exact Hin'|]. split.
  - unfold l_rollback_key. destruct (find_start (ks_recs ks) (lr_start rc)) eqn:Hf; [reflexivity|].
    exfalso. now apply (find_start_none _ _ rc Hf Hin').
  - intros t Hd Hle. pose proof (newest_committed_spec (ks_recs ks) t) as S.
    assert (Hv : visible_at t rc = true) by (unfold visible_at; rewrite Hd; cbn; lia).
    destruct (newest_committed (ks_recs ks) t) as [x|].
    + exists x. split; [reflexivity|]. destruct S as (_ & _ & S). now apply S.
    + rewrite (S rc Hin') in Hv. discriminate.
Qed.

(** ** C18: committed transactions on a key have disjoint [start, commit] intervals *)
Theorem no_overlap h k r1 r2 :
  forallb req_ok h = true ->
  In r1 (ks_recs (ls_at (lrun h) k)) -> In r2 (ks_recs (ls_at (lrun h) k)) ->
  lr_kind r1 <> OpRollback -> lr_kind r2 <> OpRollback -> lr_start r1 <> lr_start r2 ->
  lr_ts r1 < lr_start r2 \/ lr_ts r2 < lr_start r1.
Proof. intros Hok. apply (J_disjoint _ (lrun_inv2 h Hok k)). Qed.

(** ** timestamps: what [uniq_ts] gives to the two theorems above *)
Lemma uniq_no_commit_at h1 h2 s :
  uniq_ts (h1 ++ h2) -> In s (flat_map starts_of h1) -> Forall (req_no_commit_at s) h2.
Proof.
  intros [U1 _] Hs. apply Forall_forall. intros r Hr c s' Hc.
  apply (U1 c s' s).
  - rewrite flat_map_app. apply in_or_app. right. apply in_flat_map. now exists r.
  - rewrite flat_map_app. apply in_or_app. now left.
Qed.
Lemma uniq_keeps h1 h2 c s :
  uniq_ts (h1 ++ h2) -> In (c, s) (flat_map commits_of h1) -> Forall (req_keeps c s) h2.
Proof.
  intros [U1 U2] Hc. apply Forall_forall. intros r Hr. split.
  - intros s' H. symmetry. apply (U2 c s s').
    + rewrite flat_map_app. apply in_or_app. now left.
    + rewrite flat_map_app. apply in_or_app. right. apply in_flat_map. now exists r.
  - intros s' H. left. intro E. subst s'. apply (U1 c s c); [| |reflexivity].
    + rewrite flat_map_app. apply in_or_app. now left.
    + rewrite flat_map_app. apply in_or_app. right. apply in_flat_map. now exists r.
Qed.

(** ** C19: lock lifetime *)
(** a held lock stays (same transaction) until a record of its transaction is on the key *)
Lemma lock_until_finished lab x y l :
  ktrans lab x y -> ks_lock x = Some l ->
  (exists l', ks_lock y = Some l' /\ l_ts (ll_rec l') = l_ts (ll_rec l)) \/
  (ks_lock y = None /\ exists r, In r (ks_recs y) /\ lr_start r = l_ts (ll_rec l) /\
                                 (lab = KRollback (l_ts (ll_rec l)) \/ (exists cv, lab = KCommit (l_ts (ll_rec l)) cv) \/
                                  lab = KFinish (l_ts (ll_rec l)))).
Proof.
  intros T Hl.
  destruct T as [ks primary start ttl mc m ks' Hp | ks k l0 cv ks' Hl0 Hle Hc | ks start | ks l0 mc Hl0 | ks l0 rf Hl0 Hff Hkf].
  - apply prewrite_key_success in Hp as (_ & _ & Hown & _ & l' & Hl' & Hts & _).
    left. exists l'. split; [exact Hl'|]. rewrite Hts. symmetry. now apply Hown.
  - rewrite Hl in Hl0. inversion Hl0; subst l0. unfold l_commit_key in Hc.
    destruct (cv <? l_min_commit (ll_rec l)); [discriminate|].
    destruct (find_start (ks_recs ks) (l_ts (ll_rec l))) as [r0|] eqn:Hf.
    + destruct (op_eqb (lr_kind r0) OpRollback); [discriminate|].
      apply find_start_some in Hf as [H1 H2].
      inversion Hc; subst ks'.
      right. split; [reflexivity|]. exists r0. cbn [ks_recs]. repeat split; eauto.
    + inversion Hc; subst ks'. right. split; [reflexivity|]. eexists. cbn [ks_recs].
      split; [apply In_add_rec_new|]. split; [reflexivity | eauto].
  - unfold l_rollback_key. destruct (find_start (ks_recs ks) start) as [r0|] eqn:Hf.
    + left. exists l. auto.
    + unfold own_lock. rewrite Hl. cbn [ks_lock ks_recs]. destruct (l_ts (ll_rec l) =? start) eqn:Hts.
      * right. split; [reflexivity|]. eexists. split; [apply In_add_rec_new|]. cbn [lr_start].
        assert (start = l_ts (ll_rec l)) by lia. subst start. auto.
      * left. exists l. auto.
  - rewrite Hl in Hl0. inversion Hl0; subst l0. left. eexists. split; [reflexivity|]. reflexivity.
  - rewrite Hl in Hl0. inversion Hl0; subst l0. right. split; [reflexivity|].
    apply find_start_some in Hff as [H1 H2]. exists rf. cbn [ks_recs]. repeat split; auto.
Qed.

(** a lock appears only through a prewrite of its transaction *)
Lemma lock_only_by_prewrite lab x y l' :
  ktrans lab x y -> ks_lock y = Some l' ->
  (exists l, ks_lock x = Some l /\ l_ts (ll_rec l) = l_ts (ll_rec l')) \/ lab = KPrewrite (l_ts (ll_rec l')).
Proof.
  intros T Hl'.
  destruct T as [ks primary start ttl mc m ks' Hp | ks k l0 cv ks' Hl0 Hle Hc | ks start | ks l0 mc Hl0 | ks l0 rf Hl0 Hff Hkf].
  - apply prewrite_key_success in Hp as (_ & _ & _ & _ & l1 & Hl1 & Hts & _).
    rewrite Hl1 in Hl'. inversion Hl'; subst l1. right. now rewrite Hts.
  - unfold l_commit_key in Hc. destruct (cv <? l_min_commit (ll_rec l0)); [discriminate|].
    destruct (find_start (ks_recs ks) (l_ts (ll_rec l0))) as [r0|].
    + destruct (op_eqb (lr_kind r0) OpRollback); [discriminate|].
      inversion Hc; subst ks'. discriminate.
    + inversion Hc; subst ks'. discriminate.
  - unfold l_rollback_key in Hl'. destruct (find_start (ks_recs ks) start); [left; exists l'; auto|].
    cbn [ks_lock] in Hl'. unfold own_lock in Hl'. destruct (ks_lock ks) as [l|]; [|discriminate].
    destruct (l_ts (ll_rec l) =? start); [discriminate|]. left. exists l. split; congruence.
  - cbn [ks_lock] in Hl'. inversion Hl'; subst l'. left. exists l0. auto.
  - cbn [ks_lock] in Hl'. discriminate.
Qed.

(** in every reachable state the transaction holding a lock has no record on the key yet
    (so once it has one -- committed or rolled back -- its lock is not there) *)
Theorem lock_not_finished h k l r :
  forallb req_ok h = true ->
  ks_lock (ls_at (lrun h) k) = Some l -> In r (ks_recs (ls_at (lrun h) k)) -> lr_start r <> l_ts (ll_rec l).
Proof. intros Hok. apply (J_lock_fresh _ (lrun_inv2 h Hok k)). Qed.

(** ** C19: TTL and min-commit-ts *)
Theorem ttl_rule s primary l lts cur caller rb :
  get_lock s primary = Some l -> l_ts l = lts -> get_write_by_start_ts s primary lts = None ->
  (cr_action (snd (check_txn_status current s primary lts cur caller rb)) = ActTTLExpireRollback <->
   l_ttl l <> 0 /\ wrap64 (l_ts l + l_ttl l) <= cur).
Proof.
  intros Hl Hts Hnw. unfold check_txn_status. rewrite Hl.
  assert (E : negb (l_ts l =? lts) = false) by (apply negb_false_iff; lia). rewrite E, Hnw.
  unfold is_lock_expired. destruct (l_ttl l =? 0) eqn:Ht.
  - destruct ((0 <? caller) && (l_min_commit l <? wrap64 (caller + 1))); cbn; split; try discriminate; lia.
  - destruct (wrap64 (l_ts l + l_ttl l) <=? cur) eqn:Hc.
    + unfold rollback_key. rewrite Hnw. cbn. split; auto; lia.
    + destruct ((0 <? caller) && (l_min_commit l <? wrap64 (caller + 1))); cbn; split; try discriminate; lia.
Qed.

(** on reachable states the expired primary lock is removed and the transaction is rolled back *)
Theorem ttl_rollback_effect h primary l lts cur caller rb :
  forallb req_ok h = true ->
  ks_lock (ls_at (lrun h) primary) = Some l -> l_ts (ll_rec l) = lts -> lock_expired (ll_rec l) cur = true ->
  let a' := fst (l_check (lrun h) primary lts cur caller rb) in
  ks_lock (ls_at a' primary) = None /\ rolled_back (ls_at a' primary) lts.
Proof.
  intros Hok Hl Hts Hexp a'. unfold a', l_check. rewrite Hl.
  assert (E : negb (l_ts (ll_rec l) =? lts) = false) by (apply negb_false_iff; lia). rewrite E.
  destruct (find_start (ks_recs (ls_at (lrun h) primary)) lts) as [r|] eqn:Hf.
  - exfalso. apply find_start_some in Hf as [H1 H2].
    apply (J_lock_fresh _ (lrun_inv2 h Hok primary) l r Hl H1). lia.
  - rewrite Hexp. cbn [fst]. rewrite ls_at_lupd, bytes_eqb_refl. unfold l_rollback_key. rewrite Hf.
    cbn [ks_lock ks_recs]. unfold own_lock. rewrite Hl.
    assert (E2 : (l_ts (ll_rec l) =? lts) = true) by lia. rewrite E2. split; [reflexivity|].
    eexists. split; [apply In_add_rec_new|]. auto.
Qed.

Theorem min_commit_rule s k keys l start cv :
  is_nil k = false -> get_lock s k = Some l -> l_ts l = start -> cv < l_min_commit l ->
  commit current s (k :: keys) start cv = (s, Some (KECommitTsExpired k cv (l_min_commit l))).
Proof.
  intros Hk Hl Hts Hlt. cbn [commit]. rewrite Hk, Hl.
  assert (E : (l_ts l =? start) = true) by lia. rewrite E. unfold commit_key.
  assert (E2 : (cv <? l_min_commit l) = true) by lia. now rewrite E2.
Qed.

Theorem min_commit_push s primary l lts cur caller rb :
  get_lock s primary = Some l -> l_ts l = lts -> get_write_by_start_ts s primary lts = None ->
  is_lock_expired l cur = false ->
  0 < caller -> l_min_commit l < wrap64 (caller + 1) ->
  let '(s', r) := check_txn_status current s primary lts cur caller rb in
  cr_action r = ActMinCommitPushed /\
  exists l', get_lock s' primary = Some l' /\ l_ts l' = l_ts l /\ l_min_commit l' = wrap64 (caller + 1).
Proof.
  intros Hl Hts Hnw Hexp Hc Hm. unfold check_txn_status. rewrite Hl.
  assert (E : negb (l_ts l =? lts) = false) by (apply negb_false_iff; lia). rewrite E, Hnw, Hexp.
  assert (E2 : (0 <? caller) && (l_min_commit l <? wrap64 (caller + 1)) = true) by lia. rewrite E2.
  split; [reflexivity|]. eexists. split; [apply get_lock_put_lock|]. split; reflexivity.
Qed.

(** ** the hypotheses of the theorems above are satisfiable (non-vacuity) *)
Example rollback_final_nonvacuous :
  let h1 := wit_f18 in let h2 := [RCommit [B1 97] 10 20; RGet (B1 97) 30] in
  forallb req_ok (h1 ++ h2) = true /\ rolled_back (ls_at (lrun h1) (B1 97)) 10 /\
  Forall (req_no_commit_at 10) h2 /\ uniq_ts (h1 ++ h2).
Proof.
  cbn zeta. split; [reflexivity|]. split.
  - eexists. vm_compute. split; [left; reflexivity | split; reflexivity].
  - split.
    + repeat constructor; intros c s' H; cbn in H; try contradiction.
      destruct H as [H|[]]. inversion H. lia.
    + split.
      * intros c s s' H1 H2. cbn in H1, H2. destruct H1 as [H1|[]]. inversion H1; subst.
        destruct H2 as [H2|[H2|[H2|[]]]]; lia.
      * intros c s s' H1 H2. cbn in H1, H2. destruct H1 as [H1|[]], H2 as [H2|[]]. congruence.
Qed.

Definition wit_committed : list request := wit_put 97 1 10 20.
Definition wit_committed_rec : lrec := {| lr_ts := 20; lr_kind := OpPut; lr_start := 10; lr_val := B1 1 |}.
Example commit_final_nonvacuous :
  let h2 := [RRollback [B1 97] 10; RResolve [B1 97] 10 0; RCheck (B1 97) 10 1000 0 true] in
  forallb req_ok (wit_committed ++ h2) = true /\
  In wit_committed_rec (ks_recs (ls_at (lrun wit_committed) (B1 97))) /\
  Forall (req_keeps 20 10) h2.
Proof.
  cbn zeta. split; [reflexivity|]. split; [vm_compute; now left|].
  repeat (apply Forall_cons || apply Forall_nil); split; cbn; intros; try contradiction; intuition (try lia; try congruence).
Qed.

(** Proofs for C15 (partial): reload = fold of apply, given the round trip of
    the edit record as an explicit premise on the codec model. *)
From Coq Require Import List Arith NArith Bool Lia.
From NoKV Require Import Base.Bytes Base.Num Model.ManifestCodec Model.Manifest Spec.ManifestSpec.
Import ListNotations.
Local Open Scope N_scope.

Section Reload.
  (** [ok e]: the edits the premise speaks about; [cn e]: the value the decoder
      returns for the encoding of [e] (uint32 truncations, nil sub-structs). *)
  Variable ok : edit -> Prop.
  Variable cn : edit -> edit.
  Hypothesis rt_edit : forall e rest, ok e -> read_edit (enc_edit e ++ rest) = ReOk (cn e) rest.

  Definition enc_all (es : list edit) : bytes := concat (map enc_edit es).

  Lemma replay_bytes_enc es : forall fuel v tail,
    Forall ok es -> (length es < fuel)%nat ->
    replay_bytes fuel v (enc_all es ++ tail) = replay_bytes (fuel - length es) (apply_all v (map cn es)) tail.
  Proof.
    induction es as [|e es IH]; intros fuel v tail Hok Hf.
    - cbn. now rewrite Nat.sub_0_r.
    - inversion Hok as [|? ? He Hes]; subst. destruct fuel as [|f]; [simpl in Hf; lia|].
      unfold enc_all. cbn [map concat]. rewrite <- app_assoc. cbn [replay_bytes]. rewrite rt_edit by exact He.
      fold (enc_all es). rewrite IH by (auto; simpl in Hf; lia). reflexivity.
  Qed.

  (** every appended edit is at least 4 bytes, so the fuel of [replay_manifest] suffices *)
  Lemma length_enc_all es : (length es <= length (enc_all es))%nat.
  Proof.
    induction es as [|e es IH]; [simpl; lia|].
    unfold enc_all in *. cbn [map concat]. rewrite app_length. unfold enc_edit at 1. rewrite app_length.
    cbn [le32 be32 rev app length]. simpl length. lia.
  Qed.

  Lemma reload es :
    Forall ok es -> replay_manifest (enc_all es) = RpOk (apply_all empty_version (map cn es)).
  Proof.
    intro Hok. unfold replay_manifest. rewrite <- (app_nil_r (enc_all es)) at 2.
    pose proof (length_enc_all es) as Hl.
    rewrite replay_bytes_enc by (auto; lia).
    destruct (S (length (enc_all es)) - length es)%nat eqn:E; [lia|]. reflexivity.
  Qed.

  (** a torn last write: any proper prefix of the next record is ignored or rejected, never applied *)
  Lemma reload_then_eof es : Forall ok es ->
    forall tail, read_edit tail = ReEof ->
    replay_manifest (enc_all es ++ tail) = RpOk (apply_all empty_version (map cn es)).
  Proof.
    intros Hok tail Ht. unfold replay_manifest.
    pose proof (length_enc_all es) as Hl.
    rewrite replay_bytes_enc by (auto; rewrite app_length; lia).
    destruct (S (length (enc_all es ++ tail)) - length es)%nat eqn:E; [rewrite app_length in E; lia|].
    cbn [replay_bytes]. now rewrite Ht.
  Qed.
End Reload.

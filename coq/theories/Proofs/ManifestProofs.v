(** Proofs for C15. *)
From Coq Require Import List Arith NArith ZArith Bool Lia ZifyN ZifyNat ZifyBool.
From NoKV Require Import Base.Bytes Base.Num Base.Varint Model.PercoCodec Model.ManifestCodec Model.Manifest
  Spec.ManifestSpec Proofs.CodecProofs Proofs.ManifestCodecProofs Proofs.AssocProofs.
Import ListNotations.
Local Open Scope N_scope.

(** * 1. Replay of a file that holds encoded edits *)

Lemma enc_all_app a b : enc_all (a ++ b) = enc_all a ++ enc_all b.
Proof. unfold enc_all. now rewrite map_app, concat_app. Qed.

Lemma enc_all_cons e es : enc_all (e :: es) = enc_edit e ++ enc_all es.
Proof. reflexivity. Qed.

Lemma apply_cn v e : apply v (cn e) = apply v e.
Proof.
  destruct e as [f|f|s o|[m|]|[m|]|[m|]|[r|]|[r|]|t]; try reflexivity.
  cbn [cn]. destruct (re_delete r) eqn:E; [|reflexivity].
  cbn [apply re_delete re_meta empty_region rg_id]. now rewrite E.
Qed.

Lemma apply_all_cn es : forall v, apply_all v (map cn es) = apply_all v es.
Proof.
  unfold apply_all. induction es as [|e es IH]; intro v; [reflexivity|].
  cbn [map fold_left]. now rewrite apply_cn, IH.
Qed.

Lemma apply_all_app v a b : apply_all v (a ++ b) = apply_all (apply_all v a) b.
Proof. unfold apply_all. apply fold_left_app. Qed.

Lemma replay_bytes_enc es : forall fuel v tail,
  Forall edit_ok es -> (length es < fuel)%nat ->
  replay_bytes fuel v (enc_all es ++ tail) = replay_bytes (fuel - length es) (apply_all v es) tail.
Proof.
  induction es as [|e es IH]; intros fuel v tail Hok Hf.
  - cbn. now rewrite Nat.sub_0_r.
  - inversion Hok as [|? ? He Hes]; subst. destruct fuel as [|f]; [simpl in Hf; lia|].
    rewrite enc_all_cons, <- app_assoc. cbn [replay_bytes]. rewrite rt_edit by exact He.
    rewrite IH by (auto; simpl in Hf; lia). cbn [apply_all fold_left length Nat.sub]. now rewrite apply_cn.
Qed.

Lemma length_enc_all es : (length es <= length (enc_all es))%nat.
Proof.
  induction es as [|e es IH]; [simpl; lia|].
  rewrite enc_all_cons, app_length. unfold enc_edit at 1. rewrite app_length.
  cbn [le32 be32 rev app length]. simpl length. lia.
Qed.

Lemma replay_enc es : Forall edit_ok es -> replay_manifest (enc_all es) = RpOk (apply_all empty_version es).
Proof.
  intro Hok. unfold replay_manifest. rewrite <- (app_nil_r (enc_all es)) at 2.
  pose proof (length_enc_all es) as Hl.
  rewrite replay_bytes_enc by (auto; lia).
  destruct (S (length (enc_all es)) - length es)%nat eqn:E; [lia|]. reflexivity.
Qed.

(** * 2. Files of one level: sorting by id, removal *)

Definition ids (l : list file_meta) : list N := map fm_id l.

Lemma insert_comm a f l :
  fm_id a <> fm_id f -> insert_file a (insert_file f l) = insert_file f (insert_file a l).
Proof.
  intro Hne. induction l as [|g l IH]; cbn [insert_file].
  - destruct (fm_id a <? fm_id f) eqn:E1; destruct (fm_id f <? fm_id a) eqn:E2; try reflexivity; lia.
  - destruct (fm_id f <? fm_id g) eqn:Ef; destruct (fm_id a <? fm_id g) eqn:Ea; cbn [insert_file];
      rewrite ?Ef, ?Ea.
    + destruct (fm_id a <? fm_id f) eqn:E1; destruct (fm_id f <? fm_id a) eqn:E2; try reflexivity; lia.
    + destruct (fm_id a <? fm_id f) eqn:E1; [lia|reflexivity].
    + destruct (fm_id f <? fm_id a) eqn:E2; [lia|reflexivity].
    + now rewrite IH.
Qed.

Lemma in_insert x f l : In x (insert_file f l) <-> x = f \/ In x l.
Proof.
  induction l as [|g l IH]; cbn [insert_file].
  - cbn. intuition.
  - destruct (fm_id f <? fm_id g); cbn [In]; [intuition|]. rewrite IH. intuition.
Qed.

Lemma in_sort x l : In x (sort_files l) <-> In x l.
Proof.
  unfold sort_files. induction l as [|g l IH]; cbn [fold_right In]; [reflexivity|].
  rewrite in_insert, IH. intuition.
Qed.

Lemma sort_snoc l f :
  ~ In (fm_id f) (ids l) -> sort_files (l ++ [f]) = insert_file f (sort_files l).
Proof.
  unfold sort_files. induction l as [|g l IH]; intro Hn; [reflexivity|].
  cbn [app fold_right]. rewrite IH.
  - apply insert_comm. intro E. apply Hn. left. exact E.
  - intro H. apply Hn. right. exact H.
Qed.

(** non-strictly sorted by id *)
Fixpoint fsorted (l : list file_meta) : Prop :=
  match l with
  | [] => True
  | g :: l' => Forall (fun h => fm_id g <= fm_id h) l' /\ fsorted l'
  end.

Lemma fsorted_insert f l : fsorted l -> fsorted (insert_file f l).
Proof.
  induction l as [|g l IH]; intro Hs; cbn [insert_file].
  - cbn. split; [constructor|exact I].
  - destruct Hs as [Hg Hs]. destruct (fm_id f <? fm_id g) eqn:E.
    + cbn [fsorted]. split; [|split; assumption].
      constructor; [lia|]. rewrite Forall_forall in *. intros h Hh. specialize (Hg h Hh). lia.
    + cbn [fsorted]. split; [|auto].
      rewrite Forall_forall in *. intros h Hh. apply in_insert in Hh. destruct Hh as [->|Hh]; [lia|auto].
Qed.

Lemma fsorted_sort l : fsorted (sort_files l).
Proof. unfold sort_files. induction l; cbn [fold_right]; [exact I|now apply fsorted_insert]. Qed.

Lemma insert_head f l : fsorted l -> Forall (fun h => fm_id f < fm_id h) l -> insert_file f l = f :: l.
Proof.
  destruct l as [|g l]; intros Hs Hf; cbn [insert_file]; [reflexivity|].
  inversion Hf; subst. destruct (fm_id f <? fm_id g) eqn:E; [reflexivity|lia].
Qed.

Lemma sort_sorted l : fsorted l -> NoDup (ids l) -> sort_files l = l.
Proof.
  unfold sort_files. induction l as [|g l IH]; intros Hs Hn; [reflexivity|].
  destruct Hs as [Hg Hs]. inversion Hn as [|? ? Hni Hn']; subst. cbn [fold_right]. rewrite IH by assumption.
  apply insert_head; [exact Hs|].
  rewrite Forall_forall in *. intros h Hh. specialize (Hg h Hh).
  assert (fm_id g <> fm_id h) by (intro E; apply Hni; rewrite E; now apply in_map). lia.
Qed.

Lemma ids_insert x f l : In x (ids (insert_file f l)) <-> x = fm_id f \/ In x (ids l).
Proof.
  unfold ids. rewrite !in_map_iff. split.
  - intros [h [E Hh]]. apply in_insert in Hh. destruct Hh as [->|Hh]; [now left|right; eauto].
  - intros [->|[h [E Hh]]]; [exists f; split; [reflexivity|apply in_insert; now left]|].
    exists h. split; [exact E|apply in_insert; now right].
Qed.

Lemma ids_sort x l : In x (ids (sort_files l)) <-> In x (ids l).
Proof.
  unfold ids. rewrite !in_map_iff. split; intros [h [E Hh]]; exists h; (split; [exact E|]); now apply in_sort.
Qed.

Lemma nodup_insert f l : NoDup (ids l) -> ~ In (fm_id f) (ids l) -> NoDup (ids (insert_file f l)).
Proof.
  induction l as [|g l IH]; intros Hn Hf; cbn [insert_file].
  - cbn. constructor; [auto|constructor].
  - destruct (fm_id f <? fm_id g); [cbn [ids map]; constructor; assumption|].
    inversion Hn as [|? ? Hg Hn']; subst. cbn [ids map]. constructor.
    + fold (ids (insert_file f l)). rewrite ids_insert. intros [E|H]; [apply Hf; left; now symmetry|contradiction].
    + apply IH; [exact Hn'|]. intro H. apply Hf. now right.
Qed.

Lemma nodup_sort l : NoDup (ids l) -> NoDup (ids (sort_files l)).
Proof.
  unfold sort_files. induction l as [|g l IH]; intro Hn; cbn [fold_right]; [constructor|].
  inversion Hn; subst. apply nodup_insert; [auto|]. fold (sort_files l). now rewrite ids_sort.
Qed.

Lemma remove_file_notin id l : ~ In id (ids l) -> remove_file id l = l.
Proof.
  induction l as [|g l IH]; intro Hn; cbn [remove_file]; [reflexivity|].
  destruct (fm_id g =? id) eqn:E; [exfalso; apply Hn; left; lia|].
  rewrite IH; [reflexivity|]. intro H. apply Hn. now right.
Qed.

Lemma remove_insert_same id g l : ~ In id (ids l) -> fm_id g = id -> remove_file id (insert_file g l) = l.
Proof.
  intros Hn Hg. induction l as [|h l IH]; cbn [insert_file remove_file].
  - replace (fm_id g =? id) with true by lia. reflexivity.
  - destruct (fm_id g <? fm_id h); cbn [remove_file].
    + replace (fm_id g =? id) with true by lia. reflexivity.
    + destruct (fm_id h =? id) eqn:E; [exfalso; apply Hn; left; lia|].
      rewrite IH; [reflexivity|]. intro H. apply Hn. now right.
Qed.

Lemma remove_insert_other id g l :
  fsorted l -> NoDup (ids l) -> ~ In (fm_id g) (ids l) -> fm_id g <> id ->
  remove_file id (insert_file g l) = insert_file g (remove_file id l).
Proof.
  intros Hs Hn Hgi Hg. induction l as [|h l IH]; cbn [insert_file remove_file].
  - replace (fm_id g =? id) with false by lia. reflexivity.
  - destruct Hs as [Hh Hs]. inversion Hn as [|? ? Hhi Hn']; subst.
    destruct (fm_id g <? fm_id h) eqn:E1; cbn [remove_file].
    + replace (fm_id g =? id) with false by lia.
      destruct (fm_id h =? id) eqn:E2.
      * symmetry. apply insert_head; [exact Hs|].
        rewrite Forall_forall in *. intros k Hk. specialize (Hh k Hk). lia.
      * cbn [insert_file]. now rewrite E1.
    + destruct (fm_id h =? id) eqn:E2; [reflexivity|].
      cbn [insert_file]. rewrite E1. f_equal. apply IH; auto.
      intro H. apply Hgi. now right.
Qed.

Lemma sort_remove id l : NoDup (ids l) -> sort_files (remove_file id l) = remove_file id (sort_files l).
Proof.
  unfold sort_files. induction l as [|g l IH]; intro Hn; [reflexivity|].
  inversion Hn as [|? ? Hg Hn']; subst. cbn [remove_file fold_right].
  destruct (fm_id g =? id) eqn:E.
  - symmetry. apply remove_insert_same; [|lia]. fold (sort_files l). rewrite ids_sort.
    replace id with (fm_id g) by lia. exact Hg.
  - cbn [fold_right]. rewrite IH by exact Hn'. symmetry.
    apply remove_insert_other; [apply fsorted_sort|now apply nodup_sort| |lia].
    fold (sort_files l). now rewrite ids_sort.
Qed.

Lemma ids_remove x id l : In x (ids (remove_file id l)) -> In x (ids l).
Proof.
  induction l as [|g l IH]; cbn [remove_file]; [auto|].
  destruct (fm_id g =? id); [intro; now right|]. cbn [ids map In]. intros [H|H]; [now left|right; auto].
Qed.

Lemma nodup_remove id l : NoDup (ids l) -> NoDup (ids (remove_file id l)).
Proof.
  induction l as [|g l IH]; intro Hn; cbn [remove_file]; [constructor|].
  inversion Hn as [|? ? Hg Hn']; subst. destruct (fm_id g =? id); [exact Hn'|].
  cbn [ids map]. constructor; [|auto]. intro H. apply Hg. now apply ids_remove in H.
Qed.

Lemma in_remove_file x id l : In x (remove_file id l) -> In x l.
Proof.
  induction l as [|g l IH]; cbn [remove_file]; [auto|].
  destruct (fm_id g =? id); [intro; now right|]. intros [H|H]; [now left|right; auto].
Qed.

Lemma existsb_ids id l : existsb (fun g => fm_id g =? id) l = true <-> In id (ids l).
Proof.
  rewrite existsb_exists. unfold ids. rewrite in_map_iff. split; intros [g [H1 H2]]; exists g.
  - split; [lia|exact H1].
  - split; [exact H2|lia].
Qed.

(** * 3. Key orders, level files after an edit *)

Lemma Neqb_spec a b : N.eqb a b = true <-> a = b. Proof. apply N.eqb_eq. Qed.
Lemma Nltb_irrefl a : N.ltb a a = false. Proof. apply N.ltb_irrefl. Qed.
Lemma Nltb_trans a b c : N.ltb a b = true -> N.ltb b c = true -> N.ltb a c = true. Proof. lia. Qed.
Lemma Nltb_total a b : N.ltb a b = false -> N.eqb a b = false -> N.ltb b a = true. Proof. lia. Qed.

Lemma Peqb_spec a b : pair_eqb a b = true <-> a = b.
Proof. destruct a, b. unfold pair_eqb. cbn [fst snd]. split; [intro H; f_equal; lia|intro H; inversion H; lia]. Qed.
Lemma Pltb_irrefl a : pair_ltb a a = false. Proof. destruct a. unfold pair_ltb. cbn [fst snd]. lia. Qed.
Lemma Pltb_trans a b c : pair_ltb a b = true -> pair_ltb b c = true -> pair_ltb a c = true.
Proof. destruct a, b, c. unfold pair_ltb. cbn [fst snd]. lia. Qed.
Lemma Pltb_total a b : pair_ltb a b = false -> pair_eqb a b = false -> pair_ltb b a = true.
Proof. destruct a, b. unfold pair_ltb, pair_eqb. cbn [fst snd]. lia. Qed.

Notation Nlookup_upsert := (lookup_upsert N.ltb N.eqb Neqb_spec).
Notation Plookup_upsert := (lookup_upsert pair_ltb pair_eqb Peqb_spec).
Notation Nsorted := (sorted N.ltb).
Notation Psorted := (sorted pair_ltb).

Lemma level_files_add v f lv :
  level_files (apply v (EAddFile f)) lv =
  if lv =? fm_level f then level_files v lv ++ [f] else level_files v lv.
Proof.
  unfold level_files at 1. cbn [apply set_levels v_levels]. rewrite Nlookup_upsert.
  destruct (lv =? fm_level f) eqn:E; [|reflexivity]. apply N.eqb_eq in E. now subst.
Qed.

Lemma level_files_del v f lv :
  level_files (apply v (EDeleteFile f)) lv =
  if lv =? fm_level f then remove_file (fm_id f) (level_files v lv) else level_files v lv.
Proof.
  cbn [apply]. unfold level_files at 2 3.
  destruct (lookup N.eqb (fm_level f) (v_levels v)) as [fs|] eqn:El.
  - destruct (existsb (fun g => fm_id g =? fm_id f) fs) eqn:Ex.
    + unfold level_files. cbn [set_levels v_levels]. rewrite Nlookup_upsert.
      destruct (lv =? fm_level f) eqn:E; [|reflexivity]. apply N.eqb_eq in E. subst. now rewrite El.
    + unfold level_files. destruct (lv =? fm_level f) eqn:E; [|reflexivity]. apply N.eqb_eq in E. subst.
      rewrite El. symmetry. apply remove_file_notin. intro H. apply existsb_ids in H. congruence.
  - unfold level_files. destruct (lv =? fm_level f) eqn:E; [|reflexivity]. apply N.eqb_eq in E. subst.
    now rewrite El.
Qed.

Definition is_file_edit (e : edit) : bool := match e with EAddFile _ | EDeleteFile _ => true | _ => false end.

Lemma level_files_other v e lv : is_file_edit e = false -> level_files (apply v e) lv = level_files v lv.
Proof.
  destruct e as [f|f|s o|[m|]|[m|]|[m|]|[r|]|[r|]|t]; cbn [is_file_edit]; intro H; try discriminate; reflexivity.
Qed.

(** the non-level part of a version *)
Definition rest_of (v : version) := (v_logseg v, v_logoff v, v_vlogs v, v_heads v, v_rafts v, v_regions v).

Lemma rest_file_edit v e : is_file_edit e = true -> rest_of (apply v e) = rest_of v.
Proof.
  destruct e as [f|f|s o|[m|]|[m|]|[m|]|[r|]|[r|]|t]; cbn [is_file_edit]; intro H; try discriminate.
  - reflexivity.
  - cbn [apply]. destruct (lookup N.eqb (fm_level f) (v_levels v)); [|reflexivity].
    destruct (existsb _ _); reflexivity.
Qed.

Lemma rest_congr a b e : rest_of a = rest_of b -> rest_of (apply a e) = rest_of (apply b e).
Proof.
  intro H. destruct (is_file_edit e) eqn:Ef; [now rewrite !rest_file_edit|].
  unfold rest_of in H. inversion H as [[H1 H2 H3 H4 H5 H6]].
  destruct e as [f|f|s o|[m|]|[m|]|[m|]|[r|]|[r|]|t]; try discriminate; unfold rest_of;
    cbn [apply set_vlog v_logseg v_logoff v_vlogs v_heads v_rafts v_regions]; unfold head_is;
    rewrite ?H1, ?H2, ?H3, ?H4, ?H5, ?H6; reflexivity.
Qed.

(** * 4. version_eq is preserved by every edit *)

Definition lnodup (v : version) : Prop := forall lv, NoDup (ids (level_files v lv)).

Definition fresh (v : version) (e : edit) : Prop :=
  match e with EAddFile f => ~ In (fm_id f) (ids (level_files v (fm_level f))) | _ => True end.

Lemma nodup_snoc (l : list N) x : NoDup l -> ~ In x l -> NoDup (l ++ [x]).
Proof.
  induction l as [|y l IH]; intros Hn Hx; cbn [app]; [constructor; [auto|constructor]|].
  inversion Hn as [|? ? Hy Hn']; subst. constructor.
  - rewrite in_app_iff. intros [H|[H|[]]]; [contradiction|]. apply Hx. left. now symmetry.
  - apply IH; [exact Hn'|]. intro H. apply Hx. now right.
Qed.

Lemma lnodup_apply v e : lnodup v -> fresh v e -> lnodup (apply v e).
Proof.
  intros Hn Hf lv. destruct (is_file_edit e) eqn:Ef; [|rewrite level_files_other by exact Ef; apply Hn].
  destruct e as [f|f|s o|[m|]|[m|]|[m|]|[r|]|[r|]|t]; try discriminate.
  - rewrite level_files_add. destruct (lv =? fm_level f) eqn:E; [|apply Hn]. apply N.eqb_eq in E. subst.
    unfold ids. rewrite map_app. cbn [map]. fold (ids (level_files v (fm_level f))).
    apply nodup_snoc; [apply Hn|exact Hf].
  - rewrite level_files_del. destruct (lv =? fm_level f); [apply nodup_remove|]; apply Hn.
Qed.

Lemma version_eq_alt a b :
  version_eq a b <-> (forall lv, sort_files (level_files a lv) = sort_files (level_files b lv)) /\ rest_of a = rest_of b.
Proof.
  unfold version_eq, rest_of. split.
  - intros (H0 & H1 & H2 & H3 & H4 & H5 & H6). split; [exact H0|]. now rewrite H1, H2, H3, H4, H5, H6.
  - intros [H0 H]. inversion H. repeat split; assumption.
Qed.

Lemma version_eq_refl a : version_eq a a.
Proof. apply version_eq_alt. split; reflexivity. Qed.

Lemma version_eq_trans a b c : version_eq a b -> version_eq b c -> version_eq a c.
Proof.
  rewrite !version_eq_alt. intros [H1 H2] [H3 H4]. split; [intro lv; now rewrite H1|congruence].
Qed.

Lemma fresh_eq a b e : version_eq a b -> fresh a e -> fresh b e.
Proof.
  intros Hq Hf. destruct e; try exact I. cbn [fresh] in *. destruct Hq as [H0 _].
  rewrite <- ids_sort, <- H0, ids_sort. exact Hf.
Qed.

Lemma version_eq_apply a b e :
  version_eq a b -> lnodup a -> lnodup b -> fresh a e -> version_eq (apply a e) (apply b e).
Proof.
  intros Hq Ha Hb Hf. pose proof (fresh_eq _ _ _ Hq Hf) as Hfb.
  apply version_eq_alt in Hq. destruct Hq as [H0 Hr]. apply version_eq_alt.
  split; [|now apply rest_congr]. intro lv.
  destruct (is_file_edit e) eqn:Ef; [|now rewrite !level_files_other].
  destruct e as [f|f|s o|[m|]|[m|]|[m|]|[r|]|[r|]|t]; try discriminate.
  - rewrite !level_files_add. destruct (lv =? fm_level f) eqn:E; [|apply H0]. apply N.eqb_eq in E. subst.
    cbn [fresh] in *. rewrite !sort_snoc by assumption. now rewrite H0.
  - rewrite !level_files_del. destruct (lv =? fm_level f); [|apply H0].
    rewrite !sort_remove by (apply Ha || apply Hb). now rewrite H0.
Qed.

(** histories: every edit fits its Go types and AddFile never re-adds a file id that is in the level *)
Fixpoint hist_ok (v : version) (es : list edit) : Prop :=
  match es with
  | [] => True
  | e :: es' => edit_ok e /\ fresh v e /\ hist_ok (apply v e) es'
  end.

Lemma hist_ok_edits v es : hist_ok v es -> Forall edit_ok es.
Proof. revert v. induction es as [|e es IH]; intros v H; [constructor|]. destruct H as (H1 & _ & H3). constructor; eauto. Qed.

Lemma hist_ok_app v a b : hist_ok v (a ++ b) <-> hist_ok v a /\ hist_ok (apply_all v a) b.
Proof.
  revert v. induction a as [|e a IH]; intro v; cbn [app hist_ok apply_all fold_left]; [tauto|].
  rewrite IH. unfold apply_all. tauto.
Qed.

Lemma lnodup_apply_all es : forall v, lnodup v -> hist_ok v es -> lnodup (apply_all v es).
Proof.
  induction es as [|e es IH]; intros v Hn Hh; [exact Hn|].
  destruct Hh as (_ & Hf & Hh). cbn [apply_all fold_left]. apply IH; [now apply lnodup_apply|exact Hh].
Qed.

Lemma version_eq_apply_all es : forall a b,
  version_eq a b -> lnodup a -> lnodup b -> hist_ok a es ->
  version_eq (apply_all a es) (apply_all b es) /\ hist_ok b es.
Proof.
  induction es as [|e es IH]; intros a b Hq Ha Hb Hh; [split; [exact Hq|exact I]|].
  destruct Hh as (Hok & Hf & Hh). cbn [apply_all fold_left hist_ok].
  pose proof (fresh_eq _ _ _ Hq Hf) as Hfb.
  destruct (IH (apply a e) (apply b e)) as [Hq' Hh'];
    [now apply version_eq_apply|now apply lnodup_apply|now apply lnodup_apply|exact Hh|].
  split; [exact Hq'|split; [exact Hok|split; [exact Hfb|exact Hh']]].
Qed.

Lemma lnodup_empty : lnodup empty_version.
Proof. intro lv. cbn. constructor. Qed.

(** * 5. Well-formed versions *)

Record winv (v : version) : Prop := {
  wi_ls : Nsorted (v_levels v);
  wi_lf : forall lv fs, lookup N.eqb lv (v_levels v) = Some fs ->
          Forall (fun f => fm_level f = lv /\ edit_ok (EAddFile f)) fs;
  wi_log : v_logseg v < two32 /\ v_logoff v < two64;
  wi_vs : Psorted (v_vlogs v);
  wi_vl : forall k m, lookup pair_eqb k (v_vlogs v) = Some m -> k = (vl_bucket m, vl_fid m) /\ vlog_ok m;
  wi_hs : Nsorted (v_heads v);
  wi_hd : forall b m, lookup N.eqb b (v_heads v) = Some m ->
          b = vl_bucket m /\ vl_valid m = true /\ lookup pair_eqb (vl_bucket m, vl_fid m) (v_vlogs v) = Some m;
  wi_rs : Nsorted (v_rafts v);
  wi_rf : forall g r, lookup N.eqb g (v_rafts v) = Some r -> g = rp_group r /\ raft_ok r;
  wi_gs : Nsorted (v_regions v);
  wi_rg : forall i m, lookup N.eqb i (v_regions v) = Some m ->
          i = rg_id m /\ edit_ok (ERegion (Some {| re_meta := m; re_delete := false |}))
}.

Lemma winv_empty : winv empty_version.
Proof.
  constructor; cbn; try exact I; try (intros; discriminate). unfold two32, two64. lia.
Qed.

Notation Nsorted_upsert := (sorted_upsert N.ltb N.eqb Neqb_spec Nltb_trans Nltb_total).
Notation Psorted_upsert := (sorted_upsert pair_ltb pair_eqb Peqb_spec Pltb_trans Pltb_total).
Notation Nsorted_remove := (sorted_remove N.ltb N.eqb).
Notation Nlookup_remove := (lookup_remove N.ltb N.eqb Neqb_spec Nltb_irrefl).

Lemma level_files_lookup v lv :
  Forall (fun f => fm_level f = lv /\ edit_ok (EAddFile f)) (level_files v lv) <->
  (forall fs, lookup N.eqb lv (v_levels v) = Some fs -> Forall (fun f => fm_level f = lv /\ edit_ok (EAddFile f)) fs).
Proof.
  unfold level_files. destruct (lookup N.eqb lv (v_levels v)) as [fs|].
  - split; [intros H fs' E; now inversion E; subst|intro H; now apply H].
  - split; [intros _ fs E; discriminate|intros _; constructor].
Qed.

Lemma head_is_spec v b f :
  head_is v b f = true <-> exists h, lookup N.eqb b (v_heads v) = Some h /\ vl_fid h = f.
Proof.
  unfold head_is. destruct (lookup N.eqb b (v_heads v)) as [h|].
  - split; [intro H; exists h; split; [reflexivity|lia]|intros [h' [E1 E2]]; inversion E1; subst; lia].
  - split; [discriminate|intros [h [E _]]; discriminate].
Qed.

(** heads stay consistent when the value-log entry [key] is overwritten and no
    surviving head points at [key] *)
Lemma heads_keep v key m' heads' :
  winv v ->
  (forall b h, lookup N.eqb b heads' = Some h ->
     lookup N.eqb b (v_heads v) = Some h /\ (vl_bucket h, vl_fid h) <> key) ->
  forall b h, lookup N.eqb b heads' = Some h ->
    b = vl_bucket h /\ vl_valid h = true /\
    lookup pair_eqb (vl_bucket h, vl_fid h) (upsert pair_ltb pair_eqb key m' (v_vlogs v)) = Some h.
Proof.
  intros Hw Hk b h Hl. destruct (Hk b h Hl) as [Ho Hne].
  destruct (wi_hd v Hw b h Ho) as (H1 & H2 & H3). repeat split; try assumption.
  rewrite Plookup_upsert. destruct (pair_eqb (vl_bucket h, vl_fid h) key) eqn:E; [|exact H3].
  apply Peqb_spec in E. contradiction.
Qed.

Lemma winv_apply v e : winv v -> edit_ok e -> winv (apply v e).
Proof.
  intros Hw [Hb Hlen].
  destruct e as [f|f|s o|[m|]|[m|]|[m|]|[r|]|[r|]|t]; try exact Hw; cbn [body_ok] in Hb.
  - (* AddFile *)
    destruct Hw. constructor; cbn [apply set_levels v_levels v_logseg v_logoff v_vlogs v_heads v_rafts v_regions]; try assumption.
    + now apply Nsorted_upsert.
    + intros lv fs. rewrite Nlookup_upsert. destruct (lv =? fm_level f) eqn:E; [|apply wi_lf0].
      apply N.eqb_eq in E. subst lv. intro H. inversion H; subst. apply Forall_app. split.
      * apply level_files_lookup. apply wi_lf0.
      * constructor; [|constructor]. split; [reflexivity|]. split; assumption.
  - (* DeleteFile *)
    cbn [apply]. destruct (lookup N.eqb (fm_level f) (v_levels v)) as [fs|] eqn:El; [|exact Hw].
    destruct (existsb _ fs); [|exact Hw].
    destruct Hw. constructor; cbn [set_levels v_levels v_logseg v_logoff v_vlogs v_heads v_rafts v_regions]; try assumption.
    + now apply Nsorted_upsert.
    + intros lv fs'. rewrite Nlookup_upsert. destruct (lv =? fm_level f) eqn:E; [|apply wi_lf0].
      apply N.eqb_eq in E. subst lv. intro H. inversion H; subst.
      specialize (wi_lf0 _ _ El). rewrite Forall_forall in *. intros x Hx. apply wi_lf0. now apply in_remove_file in Hx.
  - (* LogPointer *)
    destruct Hw. constructor; cbn [apply v_levels v_logseg v_logoff v_vlogs v_heads v_rafts v_regions]; assumption.
  - (* VlogHead *)
    destruct Hb as (B1 & B2 & B3).
    set (m' := {| vl_bucket := vl_bucket m; vl_fid := vl_fid m; vl_offset := vl_offset m; vl_valid := true |}).
    pose proof Hw as Hw0. destruct Hw.
    constructor; cbn [apply set_vlog v_levels v_logseg v_logoff v_vlogs v_heads v_rafts v_regions]; fold m'; try assumption.
    + now apply Psorted_upsert.
    + intros k x. rewrite Plookup_upsert. destruct (pair_eqb k (vl_bucket m, vl_fid m)) eqn:E; [|apply wi_vl0].
      apply Peqb_spec in E. intro H. inversion H; subst. split; [reflexivity|]. repeat split; assumption.
    + now apply Nsorted_upsert.
    + intros b h. rewrite Nlookup_upsert. destruct (b =? vl_bucket m) eqn:E.
      * apply N.eqb_eq in E. intro H. inversion H; subst. repeat split.
        rewrite Plookup_upsert.
        assert (Ek : pair_eqb (vl_bucket m', vl_fid m') (vl_bucket m, vl_fid m) = true) by (apply Peqb_spec; reflexivity).
        now rewrite Ek.
      * intro H. destruct (wi_hd0 b h H) as (H1 & H2 & H3). repeat split; try assumption.
        rewrite Plookup_upsert. destruct (pair_eqb (vl_bucket h, vl_fid h) (vl_bucket m, vl_fid m)) eqn:E2; [|exact H3].
        apply Peqb_spec in E2. inversion E2. lia.
  - (* VlogDelete *)
    destruct Hb as (B1 & B2 & B3).
    set (m' := {| vl_bucket := vl_bucket m; vl_fid := vl_fid m; vl_offset := 0; vl_valid := false |}).
    pose proof Hw as Hw0. destruct Hw.
    constructor; cbn [apply set_vlog v_levels v_logseg v_logoff v_vlogs v_heads v_rafts v_regions]; fold m'; try assumption.
    + now apply Psorted_upsert.
    + intros k x. rewrite Plookup_upsert. destruct (pair_eqb k (vl_bucket m, vl_fid m)) eqn:E; [|apply wi_vl0].
      apply Peqb_spec in E. intro H. inversion H; subst. split; [reflexivity|].
      unfold vlog_ok. cbn. repeat split; try assumption; try (unfold two64; lia).
    + destruct (head_is v (vl_bucket m) (vl_fid m)); [now apply Nsorted_remove|assumption].
    + apply (heads_keep v _ m' _ Hw0). intros b h Hl.
      destruct (head_is v (vl_bucket m) (vl_fid m)) eqn:Eh.
      * rewrite Nlookup_remove in Hl by assumption. destruct (b =? vl_bucket m) eqn:E; [discriminate|].
        split; [exact Hl|]. destruct (wi_hd0 b h Hl) as (H1 & _). intro F. inversion F. lia.
      * split; [exact Hl|]. intro F. inversion F as [[F1 F2]].
        destruct (wi_hd0 b h Hl) as (H1 & _).
        assert (head_is v (vl_bucket m) (vl_fid m) = true) by (apply head_is_spec; exists h; split; congruence).
        congruence.
  - (* VlogUpdate *)
    destruct Hb as (B1 & B2 & B3).
    pose proof Hw as Hw0. destruct Hw.
    constructor; cbn [apply set_vlog v_levels v_logseg v_logoff v_vlogs v_heads v_rafts v_regions]; try assumption.
    + now apply Psorted_upsert.
    + intros k x. rewrite Plookup_upsert. destruct (pair_eqb k (vl_bucket m, vl_fid m)) eqn:E; [|apply wi_vl0].
      apply Peqb_spec in E. intro H. inversion H; subst. split; [reflexivity|]. repeat split; assumption.
    + destruct (head_is v (vl_bucket m) (vl_fid m)); [|assumption].
      destruct (vl_valid m); [now apply Nsorted_upsert|now apply Nsorted_remove].
    + destruct (head_is v (vl_bucket m) (vl_fid m)) eqn:Eh; [destruct (vl_valid m) eqn:Ev|].
      * intros b h. rewrite Nlookup_upsert. destruct (b =? vl_bucket m) eqn:E.
        -- apply N.eqb_eq in E. intro H. inversion H; subst. repeat split; [exact Ev|].
           rewrite Plookup_upsert.
           replace (pair_eqb (vl_bucket h, vl_fid h) (vl_bucket h, vl_fid h)) with true; [reflexivity|].
           symmetry. now apply Peqb_spec.
        -- intro H. destruct (wi_hd0 b h H) as (H1 & H2 & H3). repeat split; try assumption.
           rewrite Plookup_upsert. destruct (pair_eqb (vl_bucket h, vl_fid h) (vl_bucket m, vl_fid m)) eqn:E2; [|exact H3].
           apply Peqb_spec in E2. inversion E2. lia.
      * apply (heads_keep v _ m _ Hw0). intros b h Hl.
        rewrite Nlookup_remove in Hl by assumption. destruct (b =? vl_bucket m) eqn:E; [discriminate|].
        split; [exact Hl|]. destruct (wi_hd0 b h Hl) as (H1 & _). intro F. inversion F. lia.
      * apply (heads_keep v _ m _ Hw0). intros b h Hl.
        split; [exact Hl|]. intro F. inversion F as [[F1 F2]].
        destruct (wi_hd0 b h Hl) as (H1 & _).
        assert (head_is v (vl_bucket m) (vl_fid m) = true) by (apply head_is_spec; exists h; split; congruence).
        congruence.
  - (* RaftPointer *)
    destruct Hw. constructor; cbn [apply v_levels v_logseg v_logoff v_vlogs v_heads v_rafts v_regions]; try assumption.
    + now apply Nsorted_upsert.
    + intros g x. rewrite Nlookup_upsert. destruct (g =? rp_group r) eqn:E; [|apply wi_rf0].
      apply N.eqb_eq in E. intro H. inversion H; subst. split; [reflexivity|exact Hb].
  - (* Region *)
    destruct Hw. constructor; cbn [apply v_levels v_logseg v_logoff v_vlogs v_heads v_rafts v_regions]; try assumption.
    + destruct (re_delete r); [now apply Nsorted_remove|now apply Nsorted_upsert].
    + destruct (re_delete r) eqn:Ed.
      * intros i x. rewrite Nlookup_remove by assumption. destruct (i =? rg_id (re_meta r)); [discriminate|apply wi_rg0].
      * intros i x. rewrite Nlookup_upsert. destruct (i =? rg_id (re_meta r)) eqn:E; [|apply wi_rg0].
        apply N.eqb_eq in E. intro H. inversion H; subst. split; [reflexivity|].
        destruct r as [rm rd]. cbn [re_delete re_meta] in *. subst rd. split; assumption.
Qed.

Lemma winv_apply_all es : forall v, winv v -> Forall edit_ok es -> winv (apply_all v es).
Proof.
  induction es as [|e es IH]; intros v Hw Hok; [exact Hw|].
  inversion Hok; subst. cbn [apply_all fold_left]. apply IH; [now apply winv_apply|assumption].
Qed.

(** * 6. The snapshot rebuilds the version *)

Lemma apply_all_cons v e es : apply_all v (e :: es) = apply_all (apply v e) es.
Proof. reflexivity. Qed.

Lemma adds_level_files fs : forall A k lv,
  Forall (fun f => fm_level f = k) fs ->
  level_files (apply_all A (map EAddFile fs)) lv = (if lv =? k then level_files A lv ++ fs else level_files A lv)
  /\ rest_of (apply_all A (map EAddFile fs)) = rest_of A.
Proof.
  induction fs as [|f fs IH]; intros A k lv Hk.
  - cbn [map apply_all fold_left]. split; [destruct (lv =? k); [now rewrite app_nil_r|reflexivity]|reflexivity].
  - inversion Hk as [|? ? Hf Hfs]; subst. cbn [map]. rewrite apply_all_cons.
    destruct (IH (apply A (EAddFile f)) (fm_level f) lv Hfs) as [H1 H2]. rewrite H1, H2. split.
    + rewrite level_files_add. destruct (lv =? fm_level f); [now rewrite <- app_assoc|reflexivity].
    + now apply rest_file_edit.
Qed.

Definition files_of (L : list (N * list file_meta)) (lv : N) : list file_meta :=
  concat (map (fun lf => if fst lf =? lv then sort_files (snd lf) else []) L).

Definition level_adds (L : list (N * list file_meta)) : list edit :=
  concat (map (fun lf => map EAddFile (sort_files (snd lf))) L).

Lemma level_adds_files L : forall A lv,
  (forall k fs, In (k, fs) L -> Forall (fun f => fm_level f = k) fs) ->
  level_files (apply_all A (level_adds L)) lv = level_files A lv ++ files_of L lv
  /\ rest_of (apply_all A (level_adds L)) = rest_of A.
Proof.
  induction L as [|[k fs] L IH]; intros A lv Hk.
  - cbn. now rewrite app_nil_r.
  - unfold level_adds, files_of. cbn [map concat fst snd]. rewrite apply_all_app.
    fold (level_adds L). fold (files_of L lv).
    assert (Hs : Forall (fun f => fm_level f = k) (sort_files fs)).
    { rewrite Forall_forall. intros x Hx. apply (proj1 (in_sort x fs)) in Hx.
      specialize (Hk k fs (or_introl eq_refl)). rewrite Forall_forall in Hk. exact (Hk x Hx). }
    destruct (adds_level_files (sort_files fs) A k lv Hs) as [H1 H2].
    destruct (IH (apply_all A (map EAddFile (sort_files fs))) lv) as [H3 H4].
    { intros k' fs' Hi. apply (Hk k' fs'). now right. }
    rewrite H3, H4, H1, H2. split; [|reflexivity].
    rewrite (N.eqb_sym k lv). destruct (lv =? k); [now rewrite <- app_assoc|reflexivity].
Qed.

Lemma files_of_above L lv : above N.ltb lv L -> files_of L lv = [].
Proof.
  unfold files_of. induction L as [|[k fs] L IH]; intro Ha; [reflexivity|].
  inversion Ha as [|? ? H1 H2]; subst. cbn [map concat fst snd] in *.
  replace (k =? lv) with false by lia. now rewrite IH.
Qed.

Lemma files_of_sorted L lv :
  Nsorted L -> files_of L lv = sort_files (match lookup N.eqb lv L with Some fs => fs | None => [] end).
Proof.
  induction L as [|[k fs] L IH]; intro Hs; [reflexivity|]. destruct Hs as [Ha Hs].
  unfold files_of. cbn [map concat fst snd lookup]. fold (files_of L lv).
  rewrite (N.eqb_sym k lv). destruct (lv =? k) eqn:E.
  - apply N.eqb_eq in E. subst. rewrite files_of_above by exact Ha. now rewrite app_nil_r.
  - cbn [app]. now apply IH.
Qed.

Lemma level_files_nonfile es : forall v lv,
  forallb (fun e => negb (is_file_edit e)) es = true -> level_files (apply_all v es) lv = level_files v lv.
Proof.
  induction es as [|e es IH]; intros v lv H; [reflexivity|]. cbn [forallb] in H. apply andb_true_iff in H as [H1 H2].
  rewrite apply_all_cons, IH by exact H2. apply level_files_other. now destruct (is_file_edit e).
Qed.

Lemma rest_congr_all es : forall a b, rest_of a = rest_of b -> rest_of (apply_all a es) = rest_of (apply_all b es).
Proof.
  induction es as [|e es IH]; intros a b H; [exact H|]. rewrite !apply_all_cons. apply IH. now apply rest_congr.
Qed.

Definition upd_edit (x : (N * N) * vlog_meta) : edit := EVlogUpdate (Some (snd x)).
Definition head_edit (x : N * vlog_meta) : edit := EVlogHead (Some (snd x)).
Definition raft_edit (x : N * raft_ptr) : edit := ERaftPointer (Some (snd x)).
Definition region_edit_of (x : N * region_meta) : edit := ERegion (Some {| re_meta := snd x; re_delete := false |}).

Notation Pupsert_append := (upsert_append pair_ltb pair_eqb Peqb_spec Pltb_irrefl Pltb_trans).
Notation Nupsert_append := (upsert_append N.ltb N.eqb Neqb_spec Nltb_irrefl Nltb_trans).

Lemma apply_upds S : forall X,
  v_heads X = [] -> Psorted (v_vlogs X ++ S) ->
  (forall k m, In (k, m) S -> k = (vl_bucket m, vl_fid m)) ->
  apply_all X (map upd_edit S) = set_vlog X (v_vlogs X ++ S) [].
Proof.
  induction S as [|[k m] S IH]; intros X Hh Hs Hk.
  - cbn [map apply_all fold_left]. rewrite app_nil_r. destruct X. cbn in *. now subst.
  - cbn [map]. rewrite apply_all_cons. unfold upd_edit at 1. cbn [snd].
    assert (Ek : k = (vl_bucket m, vl_fid m)) by (apply Hk; now left).
    assert (Ea : apply X (EVlogUpdate (Some m)) = set_vlog X (v_vlogs X ++ [(k, m)]) []).
    { cbn [apply]. unfold head_is. rewrite Hh. cbn [lookup]. rewrite <- Ek.
      rewrite Pupsert_append; [reflexivity|]. eapply sorted_app_below. exact Hs. }
    rewrite Ea, IH.
    + unfold set_vlog. cbn. now rewrite <- app_assoc.
    + reflexivity.
    + cbn [set_vlog v_vlogs]. now rewrite <- app_assoc.
    + intros k' m' Hi. apply Hk. now right.
Qed.

Lemma apply_heads S : forall X,
  Psorted (v_vlogs X) -> Nsorted (v_heads X ++ S) ->
  (forall b h, In (b, h) S -> b = vl_bucket h /\ vl_valid h = true /\
                              lookup pair_eqb (vl_bucket h, vl_fid h) (v_vlogs X) = Some h) ->
  apply_all X (map head_edit S) = set_vlog X (v_vlogs X) (v_heads X ++ S).
Proof.
  induction S as [|[b h] S IH]; intros X Hv Hs Hk.
  - cbn [map apply_all fold_left]. rewrite app_nil_r. now destruct X.
  - cbn [map]. rewrite apply_all_cons. unfold head_edit at 1. cbn [snd].
    destruct (Hk b h (or_introl eq_refl)) as (E1 & E2 & E3).
    assert (Eh : {| vl_bucket := vl_bucket h; vl_fid := vl_fid h; vl_offset := vl_offset h; vl_valid := true |} = h).
    { destruct h. cbn in *. now subst. }
    assert (Ea : apply X (EVlogHead (Some h)) = set_vlog X (v_vlogs X) (v_heads X ++ [(b, h)])).
    { cbn [apply]. rewrite Eh.
      rewrite (upsert_same pair_ltb pair_eqb Peqb_spec Pltb_irrefl Pltb_trans _ _ _ Hv E3).
      rewrite <- E1. rewrite Nupsert_append; [reflexivity|]. eapply sorted_app_below. exact Hs. }
    rewrite Ea, IH.
    + unfold set_vlog. cbn. now rewrite <- app_assoc.
    + exact Hv.
    + cbn [set_vlog v_heads]. now rewrite <- app_assoc.
    + intros b' h' Hi. cbn [set_vlog v_vlogs]. apply Hk. now right.
Qed.

Definition set_rafts (v : version) r := {| v_levels := v_levels v; v_logseg := v_logseg v; v_logoff := v_logoff v;
  v_vlogs := v_vlogs v; v_heads := v_heads v; v_rafts := r; v_regions := v_regions v |}.
Definition set_regions (v : version) r := {| v_levels := v_levels v; v_logseg := v_logseg v; v_logoff := v_logoff v;
  v_vlogs := v_vlogs v; v_heads := v_heads v; v_rafts := v_rafts v; v_regions := r |}.

Lemma apply_rafts S : forall X,
  Nsorted (v_rafts X ++ S) -> (forall g r, In (g, r) S -> g = rp_group r) ->
  apply_all X (map raft_edit S) = set_rafts X (v_rafts X ++ S).
Proof.
  induction S as [|[g r] S IH]; intros X Hs Hk.
  - cbn [map apply_all fold_left]. rewrite app_nil_r. now destruct X.
  - cbn [map]. rewrite apply_all_cons. unfold raft_edit at 1. cbn [snd].
    assert (Eg : g = rp_group r) by (apply Hk; now left).
    assert (Ea : apply X (ERaftPointer (Some r)) = set_rafts X (v_rafts X ++ [(g, r)])).
    { cbn [apply]. rewrite <- Eg. rewrite Nupsert_append; [reflexivity|]. eapply sorted_app_below. exact Hs. }
    rewrite Ea, IH.
    + unfold set_rafts. cbn. now rewrite <- app_assoc.
    + cbn [set_rafts v_rafts]. now rewrite <- app_assoc.
    + intros g' r' Hi. apply Hk. now right.
Qed.

Lemma apply_regions S : forall X,
  Nsorted (v_regions X ++ S) -> (forall i m, In (i, m) S -> i = rg_id m) ->
  apply_all X (map region_edit_of S) = set_regions X (v_regions X ++ S).
Proof.
  induction S as [|[i m] S IH]; intros X Hs Hk.
  - cbn [map apply_all fold_left]. rewrite app_nil_r. now destruct X.
  - cbn [map]. rewrite apply_all_cons. unfold region_edit_of at 1. cbn [snd].
    assert (Ei : i = rg_id m) by (apply Hk; now left).
    assert (Ea : apply X (ERegion (Some {| re_meta := m; re_delete := false |})) = set_regions X (v_regions X ++ [(i, m)])).
    { cbn [apply re_delete re_meta]. rewrite <- Ei. rewrite Nupsert_append; [reflexivity|]. eapply sorted_app_below. exact Hs. }
    rewrite Ea, IH.
    + unfold set_regions. cbn. now rewrite <- app_assoc.
    + cbn [set_regions v_regions]. now rewrite <- app_assoc.
    + intros i' m' Hi. apply Hk. now right.
Qed.

Notation Nin_lookup := (in_lookup N.ltb N.eqb Neqb_spec Nltb_irrefl).
Notation Pin_lookup := (in_lookup pair_ltb pair_eqb Peqb_spec Pltb_irrefl).

Lemma snapshot_edits_shape v :
  snapshot_edits v = level_adds (v_levels v) ++ [ELogPointer (v_logseg v) (v_logoff v)] ++
    map upd_edit (v_vlogs v) ++ map head_edit (v_heads v) ++ map raft_edit (v_rafts v) ++ map region_edit_of (v_regions v).
Proof. reflexivity. Qed.

(** replaying the snapshot of [v] gives [v] with every level sorted by id *)
Lemma snapshot_rebuilds v :
  winv v ->
  let v' := apply_all empty_version (snapshot_edits v) in
  (forall lv, level_files v' lv = sort_files (level_files v lv)) /\ rest_of v' = rest_of v.
Proof.
  intro Hw. cbn zeta. rewrite snapshot_edits_shape, apply_all_app.
  set (A1 := apply_all empty_version (level_adds (v_levels v))).
  set (R := [ELogPointer (v_logseg v) (v_logoff v)] ++ map upd_edit (v_vlogs v) ++ map head_edit (v_heads v) ++
            map raft_edit (v_rafts v) ++ map region_edit_of (v_regions v)).
  assert (HL : forall k fs, In (k, fs) (v_levels v) -> Forall (fun f => fm_level f = k) fs).
  { intros k fs Hi. apply (Nin_lookup _ _ _ (wi_ls v Hw)) in Hi. pose proof (wi_lf v Hw k fs Hi) as Hf.
    rewrite Forall_forall in *. intros x Hx. now apply Hf. }
  split.
  - intro lv. rewrite level_files_nonfile.
    + unfold A1. destruct (level_adds_files (v_levels v) empty_version lv HL) as [H1 _]. rewrite H1.
      cbn [level_files empty_version v_levels lookup app]. rewrite files_of_sorted by apply (wi_ls v Hw). reflexivity.
    + unfold R. rewrite !forallb_app. cbn [forallb is_file_edit negb andb].
      repeat (apply andb_true_iff; split); apply forallb_forall; intros x Hx; apply in_map_iff in Hx;
        destruct Hx as [y [<- _]]; reflexivity.
  - assert (Hr1 : rest_of A1 = rest_of empty_version).
    { unfold A1. now destruct (level_adds_files (v_levels v) empty_version 0 HL) as [_ H2]. }
    rewrite (rest_congr_all R _ _ Hr1). unfold R. clear Hr1 A1 R HL.
    rewrite apply_all_app. cbn [apply_all fold_left apply empty_version v_levels v_vlogs v_heads v_rafts v_regions].
    set (E1 := {| v_levels := []; v_logseg := v_logseg v; v_logoff := v_logoff v; v_vlogs := []; v_heads := [];
                  v_rafts := []; v_regions := [] |}).
    fold (apply_all E1 (map upd_edit (v_vlogs v) ++ map head_edit (v_heads v) ++ map raft_edit (v_rafts v) ++
                         map region_edit_of (v_regions v))).
    rewrite apply_all_app, apply_upds; [|reflexivity|apply (wi_vs v Hw)|].
    2:{ intros k m Hi. apply (Pin_lookup _ _ _ (wi_vs v Hw)) in Hi. now destruct (wi_vl v Hw k m Hi). }
    rewrite apply_all_app, apply_heads; cbn [set_vlog v_vlogs v_heads E1 app]; [|apply (wi_vs v Hw)|apply (wi_hs v Hw)|].
    2:{ intros b h Hi. apply (Nin_lookup _ _ _ (wi_hs v Hw)) in Hi. exact (wi_hd v Hw b h Hi). }
    rewrite apply_all_app, apply_rafts; cbn [set_vlog set_rafts v_rafts app]; [|apply (wi_rs v Hw)|].
    2:{ intros g r Hi. apply (Nin_lookup _ _ _ (wi_rs v Hw)) in Hi. now destruct (wi_rf v Hw g r Hi). }
    rewrite apply_regions; cbn [set_vlog set_rafts set_regions v_regions app]; [|apply (wi_gs v Hw)|].
    2:{ intros i m Hi. apply (Nin_lookup _ _ _ (wi_gs v Hw)) in Hi. now destruct (wi_rg v Hw i m Hi). }
    reflexivity.
Qed.

(** * 7. Snapshot edits are encodable; C15_snapshot *)

Lemma version_eq_sym a b : version_eq a b -> version_eq b a.
Proof. rewrite !version_eq_alt. intros [H1 H2]. split; [intro lv; now rewrite H1|congruence]. Qed.

Lemma small_payload e n : blen (enc_edit_body e) <= n -> n < 4294967000 -> blen (enc_edit_payload e) < two32.
Proof. intros H1 H2. rewrite blen_payload. unfold two32. lia. Qed.

Ltac putb := repeat match goal with |- context [blen (put_uvarint ?x)] =>
  let H := fresh "Hp" in pose proof (blen_put x) as H; generalize dependent (blen (put_uvarint x)); intros end.

Lemma snapshot_edits_ok v : winv v -> Forall edit_ok (snapshot_edits v).
Proof.
  intro Hw. rewrite snapshot_edits_shape. repeat (apply Forall_app; split).
  - unfold level_adds. rewrite Forall_forall. intros e He. apply in_concat in He. destruct He as [l [Hl He]].
    apply in_map_iff in Hl. destruct Hl as [[k fs] [<- Hi]]. apply in_map_iff in He. destruct He as [f [<- Hf]].
    cbn [snd] in Hf. apply (proj1 (in_sort f fs)) in Hf.
    apply (Nin_lookup _ _ _ (wi_ls v Hw)) in Hi. pose proof (wi_lf v Hw k fs Hi) as HF.
    rewrite Forall_forall in HF. now destruct (HF f Hf).
  - constructor; [|constructor]. destruct (wi_log v Hw) as [H1 H2]. split; [split; assumption|].
    apply (small_payload _ 20); [|lia]. cbn [enc_edit_body]. rewrite blen_app. putb. lia.
  - rewrite Forall_forall. intros e He. apply in_map_iff in He. destruct He as [[k m] [<- Hi]].
    apply (Pin_lookup _ _ _ (wi_vs v Hw)) in Hi. destruct (wi_vl v Hw k m Hi) as [_ Hok].
    split; [exact Hok|]. apply (small_payload _ 31); [|lia]. unfold upd_edit. cbn [snd enc_edit_body].
    rewrite !blen_app, blen_cons, blen_nil. putb. lia.
  - rewrite Forall_forall. intros e He. apply in_map_iff in He. destruct He as [[b h] [<- Hi]].
    apply (Nin_lookup _ _ _ (wi_hs v Hw)) in Hi. destruct (wi_hd v Hw b h Hi) as (_ & _ & Hl).
    destruct (wi_vl v Hw _ h Hl) as [_ Hok].
    split; [exact Hok|]. apply (small_payload _ 30); [|lia]. unfold head_edit. cbn [snd enc_edit_body].
    rewrite !blen_app. putb. lia.
  - rewrite Forall_forall. intros e He. apply in_map_iff in He. destruct He as [[g r] [<- Hi]].
    apply (Nin_lookup _ _ _ (wi_rs v Hw)) in Hi. destruct (wi_rf v Hw g r Hi) as [_ Hok].
    split; [exact Hok|]. apply (small_payload _ 120); [|lia]. unfold raft_edit. cbn [snd enc_edit_body].
    rewrite !blen_app. putb. lia.
  - rewrite Forall_forall. intros e He. apply in_map_iff in He. destruct He as [[i m] [<- Hi]].
    apply (Nin_lookup _ _ _ (wi_gs v Hw)) in Hi. now destruct (wi_rg v Hw i m Hi).
Qed.

Lemma snapshot_version_eq v :
  winv v -> lnodup v ->
  version_eq (apply_all empty_version (snapshot_edits v)) v /\ lnodup (apply_all empty_version (snapshot_edits v)).
Proof.
  intros Hw Hn. destruct (snapshot_rebuilds v Hw) as [H1 H2]. split.
  - apply version_eq_alt. split; [|exact H2]. intro lv. rewrite H1.
    apply sort_sorted; [apply fsorted_sort|apply nodup_sort, Hn].
  - intro lv. rewrite H1. apply nodup_sort, Hn.
Qed.

(** C15_snapshot *)
Lemma snapshot_reload v :
  winv v -> lnodup v ->
  exists v', replay_manifest (enc_all (snapshot_edits v)) = RpOk v' /\ version_eq v' v.
Proof.
  intros Hw Hn. exists (apply_all empty_version (snapshot_edits v)). split.
  - apply replay_enc. now apply snapshot_edits_ok.
  - now apply snapshot_version_eq.
Qed.

(** * 8. The manager: reload after any number of rewrites *)

Lemma man_get_set fs id b id' : man_get (man_set fs id b) id' = if id' =? id then Some b else man_get fs id'.
Proof. unfold man_get, man_set. cbn [f_man]. apply Nlookup_upsert. Qed.

Record minv (m : mgr) (E : list edit) : Prop := {
  mi_cur : f_current (m_fs m) = Some (m_cur m);
  mi_sorted : Nsorted (f_man (m_fs m));
  mi_ds : exists ds, man_get (m_fs m) (m_cur m) = Some (enc_all ds) /\ Forall edit_ok ds /\
                     version_eq (apply_all empty_version ds) (m_ver m) /\ lnodup (apply_all empty_version ds);
  mi_ver : m_ver m = state_after E;
  mi_hist : hist_ok empty_version E;
  mi_free : forall id, m_next m <= id -> man_get (m_fs m) id = None;
  mi_lt : m_cur m < m_next m
}.

Lemma minv_create thr : minv (create_new thr) [].
Proof.
  constructor; cbn; try reflexivity; try exact I.
  - split; [constructor|exact I].
  - exists []. split; [reflexivity|split; [constructor|split; [apply version_eq_refl|apply lnodup_empty]]].
  - intros id H. unfold man_get. cbn. destruct (id =? 1) eqn:E; [lia|reflexivity].
Qed.

Lemma state_winv E : hist_ok empty_version E -> winv (state_after E) /\ lnodup (state_after E).
Proof.
  intro H. split.
  - apply winv_apply_all; [apply winv_empty|eapply hist_ok_edits; eauto].
  - apply lnodup_apply_all; [apply lnodup_empty|exact H].
Qed.

Lemma minv_appended m E batch :
  minv m E -> hist_ok (m_ver m) batch -> minv (appended m batch) (E ++ batch).
Proof.
  intros Hm Hh. destruct Hm as [Hc Hs [ds (Hg & Hok & Hq & Hn)] Hv Hhist Hfree Hlt].
  assert (HhE : hist_ok empty_version (E ++ batch)).
  { apply hist_ok_app. split; [exact Hhist|]. fold (state_after E). now rewrite <- Hv. }
  destruct (state_winv E Hhist) as [HwV HnV]. rewrite <- Hv in HwV, HnV.
  destruct (version_eq_apply_all batch (m_ver m) (apply_all empty_version ds)
              (version_eq_sym _ _ Hq) HnV Hn Hh) as [Hq' Hh'].
  constructor; cbn [appended m_fs m_cur m_next m_ver]; try assumption.
  - now apply Nsorted_upsert.
  - exists (ds ++ batch). rewrite man_get_set, N.eqb_refl. unfold cur_bytes. rewrite Hg, enc_all_app.
    split; [reflexivity|]. split; [apply Forall_app; split; [exact Hok|eapply hist_ok_edits; eauto]|].
    rewrite apply_all_app. split; [now apply version_eq_sym|]. now apply lnodup_apply_all.
  - rewrite Hv. unfold state_after. now rewrite apply_all_app.
  - intros id Hid. rewrite man_get_set. destruct (id =? m_cur m) eqn:E1; [lia|now apply Hfree].
Qed.

Lemma new_id_next m E : minv m E -> new_id m = m_next m.
Proof.
  intro Hm. unfold new_id. cbn [next_free]. now rewrite (mi_free m E Hm (m_next m)) by lia.
Qed.

Lemma minv_rewritten m E : minv m E -> minv (rewritten m) E.
Proof.
  intro Hm. pose proof (new_id_next m E Hm) as Hid. destruct Hm as [Hc Hs [ds (Hg & Hok & Hq & Hn)] Hv Hhist Hfree Hlt].
  destruct (state_winv E Hhist) as [HwV HnV]. rewrite <- Hv in HwV, HnV.
  unfold rewritten. rewrite Hid.
  constructor; cbn [m_fs m_cur m_next m_ver man_del set_tmp set_current man_set f_current f_man f_tmp]; try assumption.
  - reflexivity.
  - apply Nsorted_remove. now apply Nsorted_upsert.
  - exists (snapshot_edits (m_ver m)). unfold man_get, man_del, set_tmp, set_current, man_set. cbn [f_man f_current f_tmp].
    rewrite Nlookup_remove by now apply Nsorted_upsert.
    replace (m_next m =? m_cur m) with false by lia. rewrite Nlookup_upsert, N.eqb_refl.
    split; [reflexivity|]. split; [now apply snapshot_edits_ok|]. now apply snapshot_version_eq.
  - intros id H. unfold man_get, man_del, set_tmp, set_current, man_set. cbn [f_man f_current f_tmp]. rewrite Nlookup_remove by now apply Nsorted_upsert.
    destruct (id =? m_cur m); [reflexivity|]. rewrite Nlookup_upsert.
    replace (id =? m_next m) with false by lia. apply Hfree. lia.
  - lia.
Qed.

Lemma minv_log_edits m E batch :
  minv m E -> hist_ok (m_ver m) batch -> minv (log_edits m batch) (E ++ batch).
Proof.
  intros Hm Hh. unfold log_edits. pose proof (minv_appended m E batch Hm Hh) as H1.
  destruct (needs_rewrite (appended m batch)); [now apply minv_rewritten|exact H1].
Qed.

(** histories given as batches (one LogEdits call each) *)
Lemma minv_log_all batches : forall m E,
  minv m E -> hist_ok (m_ver m) (concat batches) -> minv (log_all m batches) (E ++ concat batches).
Proof.
  induction batches as [|b bs IH]; intros m E Hm Hh.
  - cbn. now rewrite app_nil_r.
  - cbn [concat] in Hh. apply hist_ok_app in Hh as [Hb Hbs].
    cbn [log_all fold_left concat]. rewrite app_assoc. apply IH.
    + now apply minv_log_edits.
    + pose proof (minv_log_edits m E b Hm Hb) as H1. rewrite (mi_ver _ _ H1). unfold state_after.
      rewrite apply_all_app. fold (state_after E). now rewrite <- (mi_ver _ _ Hm).
Qed.

(** C15_reload *)
Lemma reload_eq thr batches :
  hist_ok empty_version (concat batches) ->
  let m := log_all (create_new thr) batches in
  m_ver m = state_after (concat batches) /\
  exists v', reload (m_fs m) = RpOk v' /\ version_eq v' (m_ver m).
Proof.
  intro Hh. cbn zeta.
  pose proof (minv_log_all batches (create_new thr) [] (minv_create thr) Hh) as Hm. cbn [app] in Hm.
  split; [exact (mi_ver _ _ Hm)|].
  destruct (mi_ds _ _ Hm) as [ds (Hg & Hok & Hq & _)].
  exists (apply_all empty_version ds). split; [|exact Hq].
  unfold reload. rewrite (mi_cur _ _ Hm), Hg. now apply replay_enc.
Qed.

(** * 9. Crash states *)

(** a torn tail: nothing, or a proper non-empty prefix of one record *)
Definition torn (tail : bytes) : Prop :=
  tail = [] \/ exists e k, edit_ok e /\ 0 < k < blen (enc_edit e) /\ tail = take k (enc_edit e).

Lemma take_app_le' n (a b : bytes) : n <= blen a -> take n (a ++ b) = take n a.
Proof.
  unfold take, blen. intro H. rewrite firstn_app.
  replace (N.to_nat n - length a)%nat with 0%nat by lia. simpl. now rewrite app_nil_r.
Qed.

Lemma take_app_ge' n (a b : bytes) : blen a <= n -> take n (a ++ b) = a ++ take (n - blen a) b.
Proof.
  unfold take, blen. intro H. rewrite firstn_app. rewrite firstn_all2 by lia. f_equal. f_equal. lia.
Qed.

Lemma take_nil n : take n (@nil Init.Byte.byte) = [].
Proof. unfold take. apply firstn_nil. Qed.

Lemma take_enc_all es : forall c,
  Forall edit_ok es ->
  exists j tail, (j <= length es)%nat /\ take c (enc_all es) = enc_all (firstn j es) ++ tail /\ torn tail.
Proof.
  induction es as [|e es IH]; intros c Hok.
  - exists 0%nat, []. split; [simpl; lia|]. split; [apply take_nil|now left].
  - inversion Hok as [|? ? He Hes]; subst. rewrite enc_all_cons.
    destruct (blen (enc_edit e) <=? c) eqn:E.
    + rewrite take_app_ge' by lia. destruct (IH (c - blen (enc_edit e)) Hes) as [j [tail (Hj & Ht & Htorn)]].
      exists (S j), tail. split; [simpl; lia|]. split; [|exact Htorn].
      cbn [firstn]. rewrite enc_all_cons, Ht. now rewrite app_assoc.
    + rewrite take_app_le' by lia. destruct (N.eq_dec c 0) as [->|Hc].
      * exists 0%nat, []. split; [simpl; lia|]. split; [reflexivity|now left].
      * exists 0%nat, (take c (enc_edit e)). split; [simpl; lia|]. split; [reflexivity|].
        right. exists e, c. split; [exact He|]. split; [lia|reflexivity].
Qed.

Lemma rd_le32_short bs : (length bs < 4)%nat -> rd_le32 bs = None.
Proof. destruct bs as [|a [|b [|c [|d bs]]]]; simpl; intro H; try reflexivity; lia. Qed.

Lemma blen_enc_edit e : blen (enc_edit e) = 4 + blen (enc_edit_payload e).
Proof. unfold enc_edit. now rewrite blen_app. Qed.

Lemma verify_scan_tail fuel off tail : torn tail -> verify_scan (S fuel) off tail = Some off.
Proof.
  intros [->|[e [k (He & Hk & ->)]]]; [reflexivity|]. destruct He as [Hb Hl].
  cbn [verify_scan]. rewrite blen_enc_edit in Hk.
  destruct (k <? 4) eqn:E4.
  - rewrite rd_le32_short; [reflexivity|].
    assert (H : blen (take k (enc_edit e)) = k) by (apply blen_take; rewrite blen_enc_edit; lia).
    unfold blen in H. lia.
  - unfold enc_edit. rewrite take_app_ge' by (cbn; lia). rewrite rd_le32_le32, N.mod_small by exact Hl.
    change (drop 4 (le32 ?n ++ ?r)) with r. change (blen (le32 _)) with 4.
    rewrite blen_take by lia.
    destruct (k - 4 <? blen (enc_edit_payload e)) eqn:E; [reflexivity|lia].
Qed.

Lemma verify_scan_enc es : forall fuel off tail,
  Forall edit_ok es -> (length es < fuel)%nat -> torn tail ->
  verify_scan fuel off (enc_all es ++ tail) = Some (off + blen (enc_all es)).
Proof.
  induction es as [|e es IH]; intros fuel off tail Hok Hf Ht.
  - destruct fuel as [|f]; [simpl in Hf; lia|]. cbn [enc_all map concat app]. rewrite blen_nil, N.add_0_r.
    now apply verify_scan_tail.
  - inversion Hok as [|? ? He Hes]; subst. destruct fuel as [|f]; [simpl in Hf; lia|].
    destruct He as [Hb Hl]. rewrite enc_all_cons, <- app_assoc. unfold enc_edit at 1. rewrite <- app_assoc.
    cbn [verify_scan]. rewrite rd_le32_le32, N.mod_small by exact Hl.
    change (drop 4 (le32 ?n ++ ?r)) with r.
    destruct (blen (enc_edit_payload e ++ enc_all es ++ tail) <? blen (enc_edit_payload e)) eqn:E;
      [rewrite blen_app in E; lia|].
    rewrite take_app_exact, drop_app_exact, decode_edit_enc by exact Hb.
    rewrite IH by (auto; simpl in Hf; lia). f_equal. rewrite blen_app, blen_enc_edit. lia.
Qed.

Lemma verify_bytes_enc es tail :
  Forall edit_ok es -> torn tail -> verify_bytes (enc_all es ++ tail) = Some (enc_all es).
Proof.
  intros Hok Ht. unfold verify_bytes. destruct (enc_all es ++ tail) as [|x l] eqn:E.
  - apply app_eq_nil in E as [-> _]. reflexivity.
  - rewrite <- E. rewrite verify_scan_enc; [|exact Hok| |exact Ht].
    + rewrite N.add_0_l. now rewrite take_app_exact.
    + rewrite app_length. pose proof (length_enc_all es). lia.
Qed.

Lemma recover_enc fs id es tail :
  f_current fs = Some id -> man_get fs id = Some (enc_all es ++ tail) -> Forall edit_ok es -> torn tail ->
  recover fs = RpOk (apply_all empty_version es).
Proof.
  intros Hc Hg Hok Ht. unfold recover. rewrite Hc, Hg, verify_bytes_enc by assumption. now apply replay_enc.
Qed.

Lemma hist_ok_firstn v es j : hist_ok v es -> hist_ok v (firstn j es).
Proof.
  intro H. rewrite <- (firstn_skipn j es) in H. now apply hist_ok_app in H as [H _].
Qed.

(** C15_crash_prefix, one LogEdits call after an arbitrary crash-free history *)
Lemma crash_prefix_step m E batch fsc :
  minv m E -> hist_ok (m_ver m) batch -> crash_fs m batch fsc ->
  exists j v', (length E <= j <= length (E ++ batch))%nat /\
               recover fsc = RpOk v' /\ version_eq v' (state_after (firstn j (E ++ batch))).
Proof.
  intros Hm Hh Hcr.
  pose proof (minv_appended m E batch Hm Hh) as Hm1.
  pose proof (new_id_next _ _ Hm1) as Hid.
  assert (Hfull : forall fs, f_current fs = Some (m_cur m) ->
            man_get fs (m_cur m) = man_get (m_fs (appended m batch)) (m_cur m) ->
            exists j v', (length E <= j <= length (E ++ batch))%nat /\
               recover fs = RpOk v' /\ version_eq v' (state_after (firstn j (E ++ batch)))).
  { intros fs Hc Hg. destruct (mi_ds _ _ Hm1) as [ds (Hg1 & Hok & Hq & _)].
    exists (length (E ++ batch)), (apply_all empty_version ds). split; [rewrite app_length; lia|]. split.
    - eapply recover_enc with (id := m_cur m) (tail := []); [exact Hc| |exact Hok|now left].
      rewrite Hg, app_nil_r. exact Hg1.
    - rewrite firstn_all. rewrite <- (mi_ver _ _ Hm1). exact Hq. }
  destruct (mi_ds _ _ Hm) as [ds (Hg & Hok & Hq & Hn)].
  destruct (state_winv E (mi_hist _ _ Hm)) as [HwV HnV]. rewrite <- (mi_ver _ _ Hm) in HwV, HnV.
  inversion Hcr as [c|c Hr|t Hr|Hr|Hr]; subst fsc.
  - (* torn append *)
    destruct (take_enc_all batch c (hist_ok_edits _ _ Hh)) as [j [tail (Hj & Ht & Htorn)]].
    exists (length E + j)%nat, (apply_all empty_version (ds ++ firstn j batch)).
    split; [rewrite app_length; lia|]. split.
    + eapply recover_enc with (id := m_cur m) (tail := tail).
      * exact (mi_cur _ _ Hm).
      * rewrite man_get_set, N.eqb_refl. unfold cur_bytes. rewrite Hg, Ht, enc_all_app. now rewrite app_assoc.
      * apply Forall_app. split; [exact Hok|]. eapply hist_ok_edits. apply hist_ok_firstn. exact Hh.
      * exact Htorn.
    + rewrite firstn_app_2. unfold state_after. rewrite !apply_all_app. fold (state_after E).
      rewrite <- (mi_ver _ _ Hm).
      destruct (version_eq_apply_all (firstn j batch) (m_ver m) (apply_all empty_version ds)
                  (version_eq_sym _ _ Hq) HnV Hn (hist_ok_firstn _ _ j Hh)) as [Hq' _].
      now apply version_eq_sym.
  - (* snapshot being written: CURRENT still names the old manifest *)
    apply Hfull.
    + cbn [man_set f_current]. exact (mi_cur _ _ Hm1).
    + rewrite man_get_set. rewrite Hid. cbn [appended m_next m_cur]. pose proof (mi_lt _ _ Hm).
      replace (m_cur m =? m_next m) with false by lia. reflexivity.
  - (* CURRENT.tmp written *)
    apply Hfull.
    + cbn [set_tmp man_set f_current]. exact (mi_cur _ _ Hm1).
    + unfold man_get at 1. cbn [set_tmp f_man]. fold (man_get (man_set (m_fs (appended m batch)) (new_id (appended m batch))
        (enc_all (snapshot_edits (m_ver (appended m batch))))) (m_cur m)).
      rewrite man_get_set. rewrite Hid. cbn [appended m_next m_cur]. pose proof (mi_lt _ _ Hm).
      replace (m_cur m =? m_next m) with false by lia. reflexivity.
  - (* renamed: CURRENT names the snapshot *)
    destruct (state_winv (E ++ batch) (mi_hist _ _ Hm1)) as [Hw1 Hn1]. rewrite <- (mi_ver _ _ Hm1) in Hw1, Hn1.
    exists (length (E ++ batch)), (apply_all empty_version (snapshot_edits (m_ver (appended m batch)))).
    split; [rewrite app_length; lia|]. split.
    + eapply recover_enc with (id := new_id (appended m batch)) (tail := []).
      * reflexivity.
      * unfold man_get at 1. cbn [set_tmp set_current f_man].
        fold (man_get (man_set (m_fs (appended m batch)) (new_id (appended m batch))
               (enc_all (snapshot_edits (m_ver (appended m batch))))) (new_id (appended m batch))).
        rewrite man_get_set, N.eqb_refl, app_nil_r. reflexivity.
      * now apply snapshot_edits_ok.
      * now left.
    + rewrite firstn_all, <- (mi_ver _ _ Hm1). now apply snapshot_version_eq.
  - (* old manifest removed *)
    pose proof (minv_rewritten _ _ Hm1) as Hm2.
    destruct (mi_ds _ _ Hm2) as [ds2 (Hg2 & Hok2 & Hq2 & _)].
    exists (length (E ++ batch)), (apply_all empty_version ds2). split; [rewrite app_length; lia|]. split.
    + eapply recover_enc with (id := m_cur (rewritten (appended m batch))) (tail := []).
      * exact (mi_cur _ _ Hm2).
      * now rewrite app_nil_r.
      * exact Hok2.
      * now left.
    + rewrite firstn_all, <- (mi_ver _ _ Hm2). exact Hq2.
Qed.

(** C15_crash_prefix from a fresh directory *)
Lemma crash_prefix thr batches batch fsc :
  hist_ok empty_version (concat batches ++ batch) ->
  crash_fs (log_all (create_new thr) batches) batch fsc ->
  exists j v', (length (concat batches) <= j <= length (concat batches ++ batch))%nat /\
               recover fsc = RpOk v' /\ version_eq v' (state_after (firstn j (concat batches ++ batch))).
Proof.
  intros Hh Hcr. apply hist_ok_app in Hh as [H1 H2].
  pose proof (minv_log_all batches (create_new thr) [] (minv_create thr) H1) as Hm. cbn [app] in Hm.
  eapply crash_prefix_step; eauto. rewrite (mi_ver _ _ Hm). exact H2.
Qed.

(** non-vacuity: a history with a rewrite *)
Lemma manifest_example :
  let f := {| fm_level := 0; fm_id := 7; fm_size := 100; fm_smallest := []; fm_largest := []; fm_created := 1;
              fm_vsize := 0; fm_ingest := false |} in
  let bs := [[EAddFile f; ELogPointer 3 9]; [ELogPointer 4 10]] in
  needs_rewrite (appended (create_new 20) (hd [] bs)) = true /\
  reload (m_fs (log_all (create_new 20) bs)) = RpOk (m_ver (log_all (create_new 20) bs)).
Proof. cbn zeta. split; vm_compute; reflexivity. Qed.

(** * 10. I/O errors during LogEdits *)

Lemma man_get_tmp fs t id : man_get (set_tmp fs t) id = man_get fs id.
Proof. reflexivity. Qed.

Lemma minv_faulted m E f : minv m E -> minv (faulted m f) E.
Proof.
  intro Hm. pose proof (new_id_next m E Hm) as Hid.
  destruct Hm as [Hc Hs [ds (Hg & Hok & Hq & Hn)] Hv Hhist Hfree Hlt].
  unfold faulted. rewrite Hid.
  assert (Hget : forall bs id, id <> m_next m -> man_get (man_set (m_fs m) (m_next m) bs) id = man_get (m_fs m) id).
  { intros bs id Hne. rewrite man_get_set. destruct (id =? m_next m) eqn:E1; [lia|reflexivity]. }
  constructor; cbn [m_fs m_cur m_next m_ver]; try assumption; try lia.
  - destruct f; cbn [set_tmp man_set f_current]; exact Hc.
  - destruct f; cbn [set_tmp man_set f_man]; try exact Hs; now apply Nsorted_upsert.
  - exists ds. split; [|auto]. destruct f; rewrite ?man_get_tmp, ?Hget by lia; exact Hg.
  - intros id Hge. destruct f; rewrite ?man_get_tmp, ?Hget by lia; apply Hfree; lia.
Qed.

(** the edits that were applied: those of the calls whose batch write did not fail *)
Fixpoint applied (steps : list (list edit * fault)) : list edit :=
  match steps with
  | [] => []
  | (b, FAppendWrite) :: steps' => applied steps'
  | (b, _) :: steps' => b ++ applied steps'
  end.

Lemma minv_log_edits_f m E b f :
  minv m E -> (f <> FAppendWrite -> hist_ok (m_ver m) b) ->
  minv (fst (log_edits_f m b f)) (E ++ applied [(b, f)]).
Proof.
  intros Hm Hh. destruct f; cbn [log_edits_f applied fst]; rewrite ?app_nil_r;
    try (pose proof (minv_appended m E b Hm (Hh ltac:(discriminate))) as H1).
  - apply minv_log_edits; [exact Hm|apply Hh; discriminate].
  - exact Hm.
  - destruct (needs_rewrite (appended m b)); cbn [fst]; [now apply minv_faulted|exact H1].
  - destruct (needs_rewrite (appended m b)); cbn [fst]; [now apply minv_faulted|exact H1].
  - destruct (needs_rewrite (appended m b)); cbn [fst]; [now apply minv_faulted|exact H1].
  - destruct (needs_rewrite (appended m b)); cbn [fst]; [now apply minv_faulted|exact H1].
  - destruct (needs_rewrite (appended m b)); cbn [fst]; [now apply minv_faulted|exact H1].
Qed.

Lemma applied_cons b f steps : applied ((b, f) :: steps) = applied [(b, f)] ++ applied steps.
Proof. destruct f; cbn [applied app]; rewrite ?app_nil_r; reflexivity. Qed.

Lemma minv_log_all_f steps : forall m E,
  minv m E -> hist_ok (m_ver m) (applied steps) -> minv (fst (log_all_f m steps)) (E ++ applied steps).
Proof.
  induction steps as [|[b f] steps IH]; intros m E Hm Hh.
  - cbn. now rewrite app_nil_r.
  - rewrite applied_cons in *. apply hist_ok_app in Hh as [Hb Hrest].
    cbn [log_all_f]. destruct (log_edits_f m b f) as [m1 e] eqn:E1.
    destruct (log_all_f m1 steps) as [m2 es] eqn:E2. cbn [fst].
    assert (Hm1 : minv m1 (E ++ applied [(b, f)])).
    { replace m1 with (fst (log_edits_f m b f)) by now rewrite E1.
      apply minv_log_edits_f; [exact Hm|]. intro Hne. destruct f; cbn [applied] in Hb; rewrite ?app_nil_r in Hb; try exact Hb. contradiction. }
    rewrite app_assoc. replace m2 with (fst (log_all_f m1 steps)) by now rewrite E2.
    apply IH; [exact Hm1|]. rewrite (mi_ver _ _ Hm1). unfold state_after. rewrite apply_all_app.
    fold (state_after E). now rewrite <- (mi_ver _ _ Hm).
Qed.

(** C15_reload_faults: with I/O errors injected into any of the calls, memory is the fold of
    the applied edits and a reopened manager reads an equal version *)
Lemma reload_faults thr steps :
  hist_ok empty_version (applied steps) ->
  let m := fst (log_all_f (create_new thr) steps) in
  m_ver m = state_after (applied steps) /\
  exists v', reload (m_fs m) = RpOk v' /\ version_eq v' (m_ver m).
Proof.
  intro Hh. cbn zeta.
  pose proof (minv_log_all_f steps (create_new thr) [] (minv_create thr) Hh) as Hm. cbn [app] in Hm.
  split; [exact (mi_ver _ _ Hm)|].
  destruct (mi_ds _ _ Hm) as [ds (Hg & Hok & Hq & _)].
  exists (apply_all empty_version ds). split; [|exact Hq].
  unfold reload. rewrite (mi_cur _ _ Hm), Hg. now apply replay_enc.
Qed.

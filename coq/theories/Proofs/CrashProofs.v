(** Proofs for the crash family (C09, C10, C11): the boolean oracles decide their
    specifications; refutation witnesses; the structural invariant of the write
    path and its consequences for recovery. *)
From Coq Require Import List NArith Bool Lia ZifyN ZifyNat ZifyBool.
From NoKV Require Import Model.Fs Model.Recovery Spec.CrashSpec.
Import ListNotations.
Local Open Scope N_scope.

(** * The oracles decide the specifications *)

Lemma obsv_eqb_spec : forall a b, obsv_eqb a b = true <-> a = b.
Proof.
  intros a b; destruct a, b; cbn [obsv_eqb]; split; intro H; try congruence; try reflexivity.
  - apply N.eqb_eq in H; congruence.
  - inversion H; apply N.eqb_refl.
Qed.

Lemma prefix_at_b_spec : forall bs keys rd j,
  prefix_at_b bs keys rd j = true <-> forall k, In k keys -> rd k = spec_get (firstn j bs) k.
Proof.
  intros bs keys rd j; unfold prefix_at_b; rewrite forallb_forall; split; intros H k Hk.
  - apply obsv_eqb_spec, H, Hk.
  - apply obsv_eqb_spec, H, Hk.
Qed.

Lemma prefix_consistent_b_spec : forall bs keys rd,
  prefix_consistent_b bs keys rd = true <-> prefix_consistent bs keys rd.
Proof.
  intros bs keys rd; unfold prefix_consistent_b, prefix_consistent; rewrite existsb_exists; split.
  - intros [j [Hj Hp]]; exists j; split.
    + apply in_seq in Hj; lia.
    + apply prefix_at_b_spec, Hp.
  - intros [j [Hj Hp]]; exists j; split.
    + apply in_seq; lia.
    + apply prefix_at_b_spec, Hp.
Qed.

Lemma in_skipn_nth : forall (A : Type) (l : list A) n x,
  In x (skipn n l) <-> exists i, (n <= i)%nat /\ nth_error l i = Some x.
Proof.
  intros A l; induction l as [|a l IH]; intros n x.
  - rewrite skipn_nil; split; [intros []|intros [i [_ H]]; destruct i; discriminate].
  - destruct n as [|n]; cbn [skipn].
    + split.
      * intro H; apply In_nth_error in H; destruct H as [i Hi]; exists i; split; [lia|exact Hi].
      * intros [i [_ Hi]]; eapply nth_error_In; exact Hi.
    + rewrite IH; split.
      * intros [i [Hle Hi]]; exists (S i); split; [lia|exact Hi].
      * intros [i [Hle Hi]]; destruct i as [|i]; [lia|]; exists i; split; [lia|exact Hi].
Qed.

Lemma later_write_b_spec : forall bs acked k o,
  later_write_b bs acked k o = true <-> later_write bs acked k o.
Proof.
  intros bs acked k o; unfold later_write_b, later_write; rewrite existsb_exists; split.
  - intros [b [Hb Hex]]; apply existsb_exists in Hex; destruct Hex as [[k' w] [Hin Hc]].
    cbn [fst snd] in Hc; apply andb_true_iff in Hc; destruct Hc as [Hk Ho].
    apply N.eqb_eq in Hk; subst k'; apply obsv_eqb_spec in Ho.
    apply in_skipn_nth in Hb; destruct Hb as [i [Hle Hi]]; exists i, b, w; auto.
  - intros [i [b [w [Hle [Hi [Hin Ho]]]]]]; exists b; split.
    + apply in_skipn_nth; exists i; auto.
    + apply existsb_exists; exists (k, w); split; [exact Hin|].
      cbn [fst snd]; rewrite N.eqb_refl; cbn [andb]; apply obsv_eqb_spec, Ho.
Qed.

Lemma acked_durable_b_spec : forall bs acked keys rd,
  acked_durable_b bs acked keys rd = true <-> acked_durable bs acked keys rd.
Proof.
  intros bs acked keys rd; unfold acked_durable_b, acked_durable; rewrite forallb_forall; split; intros H k Hk.
  - specialize (H k Hk); apply orb_true_iff in H; destruct H as [H|H].
    + left; apply obsv_eqb_spec, H.
    + right; apply later_write_b_spec, H.
  - apply orb_true_iff; destruct (H k Hk) as [H'|H'].
    + left; apply obsv_eqb_spec, H'.
    + right; apply later_write_b_spec, H'.
Qed.

Lemma stable_b_spec : forall keys r0 stages,
  stable_b keys r0 stages = true <-> stable keys r0 stages.
Proof.
  intros keys r0 stages; unfold stable_b, stable; rewrite forallb_forall; split; intros H st Hst.
  - intros k Hk; specialize (H st Hst); rewrite forallb_forall in H; apply obsv_eqb_spec, H, Hk.
  - apply forallb_forall; intros k Hk; apply obsv_eqb_spec, H; assumption.
Qed.

(** * Refutation witnesses *)

(** F13: a transaction of two entries whose second entry finds the memtable full: the
    rotation flushes the first entry's WAL record; a crash right after it recovers half of
    the transaction. *)
Definition w13 : list step :=
  [SB [Build_entry 1 1 false 0 false false false 1; Build_entry 2 2 false 0 true false false 1] [] []].

Lemma c10_refuted_b :
  prefix_consistent_b (client_batches w13) [1; 2]
    (get (recover (crash (state_at 3 (compile true w13) (init 1 1))))) = false.
Proof. vm_compute. reflexivity. Qed.

Lemma c10_refuted :
  exists sync seg nb w p keys,
    ~ prefix_consistent (client_batches w) keys (get (recover (crash (state_at p (compile sync w) (init seg nb))))).
Proof.
  exists true, 1, 1%nat, w13, 3%nat, [1; 2]; intro H.
  apply prefix_consistent_b_spec in H.
  pose proof c10_refuted_b as Hb. congruence.
Qed.

(** F4 through GC: key 1 is written to the value log (version 1) and flushed, then
    overwritten inline (version 2); a later write rotates the value-log file.  GC of the
    sealed file finds the version-1 record still in the LSM tree, writes it back into the
    newest memtable, and the read of key 1 returns the overwritten value. *)
Definition w11 : list step :=
  [SB [Build_entry 1 1 false 1 false false false 1] [0] [0]; SRot; SFl;
   SB [Build_entry 1 2 false 0 false false false 2] [] [];
   SB [Build_entry 2 3 false 1 false false true 3] [0] [0]].

Definition s11 : rstore := recover (crash (exec_all (compile true w11) (init 1 1))).

Lemma c11_before : get s11 1 = OV 2.
Proof. vm_compute. reflexivity. Qed.

Lemma c11_after : get (maint_all [MtFlushAll; MtGc 0 0] s11) 1 = OV 1.
Proof. vm_compute. reflexivity. Qed.

Lemma c11_refuted :
  exists sync seg nb w ms k,
    let s := recover (crash (exec_all (compile sync w) (init seg nb))) in
    get (maint_all ms s) k <> get s k.
Proof.
  exists true, 1, 1%nat, w11, [MtFlushAll; MtGc 0 0], 1.
  change (get (maint_all [MtFlushAll; MtGc 0 0] s11) 1 <> get s11 1).
  rewrite c11_after, c11_before. discriminate.
Qed.

(** Proofs for the crash family (C09, C10, C11): the boolean oracles decide their
    specifications; refutation witnesses; the structural invariant of the write
    path and its consequences for recovery. *)
From Coq Require Import List NArith Arith Bool Lia ZifyN ZifyNat ZifyBool.
From NoKV Require Import Model.Fs Model.Recovery Spec.CrashSpec.
Import ListNotations.
Local Open Scope N_scope.

(** * The oracles decide the specifications *)

Lemma obsv_eqb_spec : forall a b, obsv_eqb a b = true <-> a = b.
Proof.
  intros a b; destruct a, b; cbn [obsv_eqb]; split; intro H; try congruence; try reflexivity.
  - apply N.eqb_eq in H; congruence.
  - inversion H; apply N.eqb_refl.
Qed.

Lemma prefix_at_b_spec : forall bs keys rd j,
  prefix_at_b bs keys rd j = true <-> forall k, In k keys -> rd k = spec_get (firstn j bs) k.
Proof.
  intros bs keys rd j; unfold prefix_at_b; rewrite forallb_forall; split; intros H k Hk.
  - apply obsv_eqb_spec, H, Hk.
  - apply obsv_eqb_spec, H, Hk.
Qed.

Lemma prefix_consistent_b_spec : forall bs keys rd,
  prefix_consistent_b bs keys rd = true <-> prefix_consistent bs keys rd.
Proof.
  intros bs keys rd; unfold prefix_consistent_b, prefix_consistent; rewrite existsb_exists; split.
  - intros [j [Hj Hp]]; exists j; split.
    + apply in_seq in Hj; lia.
    + apply prefix_at_b_spec, Hp.
  - intros [j [Hj Hp]]; exists j; split.
    + apply in_seq; lia.
    + apply prefix_at_b_spec, Hp.
Qed.

Lemma in_skipn_nth : forall (A : Type) (l : list A) n x,
  In x (skipn n l) <-> exists i, (n <= i)%nat /\ nth_error l i = Some x.
Proof.
  intros A l; induction l as [|a l IH]; intros n x.
  - rewrite skipn_nil; split; [intros []|intros [i [_ H]]; destruct i; discriminate].
  - destruct n as [|n]; cbn [skipn].
    + split.
      * intro H; apply In_nth_error in H; destruct H as [i Hi]; exists i; split; [lia|exact Hi].
      * intros [i [_ Hi]]; eapply nth_error_In; exact Hi.
    + rewrite IH; split.
      * intros [i [Hle Hi]]; exists (S i); split; [lia|exact Hi].
      * intros [i [Hle Hi]]; destruct i as [|i]; [lia|]; exists i; split; [lia|exact Hi].
Qed.

Lemma later_write_b_spec : forall bs acked k o,
  later_write_b bs acked k o = true <-> later_write bs acked k o.
Proof.
  intros bs acked k o; unfold later_write_b, later_write; rewrite existsb_exists; split.
  - intros [b [Hb Hex]]; apply existsb_exists in Hex; destruct Hex as [[k' w] [Hin Hc]].
    cbn [fst snd] in Hc; apply andb_true_iff in Hc; destruct Hc as [Hk Ho].
    apply N.eqb_eq in Hk; subst k'; apply obsv_eqb_spec in Ho.
    apply in_skipn_nth in Hb; destruct Hb as [i [Hle Hi]]; exists i, b, w; auto.
  - intros [i [b [w [Hle [Hi [Hin Ho]]]]]]; exists b; split.
    + apply in_skipn_nth; exists i; auto.
    + apply existsb_exists; exists (k, w); split; [exact Hin|].
      cbn [fst snd]; rewrite N.eqb_refl; cbn [andb]; apply obsv_eqb_spec, Ho.
Qed.

Lemma acked_durable_b_spec : forall bs acked keys rd,
  acked_durable_b bs acked keys rd = true <-> acked_durable bs acked keys rd.
Proof.
  intros bs acked keys rd; unfold acked_durable_b, acked_durable; rewrite forallb_forall; split; intros H k Hk.
  - specialize (H k Hk); apply orb_true_iff in H; destruct H as [H|H].
    + left; apply obsv_eqb_spec, H.
    + right; apply later_write_b_spec, H.
  - apply orb_true_iff; destruct (H k Hk) as [H'|H'].
    + left; apply obsv_eqb_spec, H'.
    + right; apply later_write_b_spec, H'.
Qed.

Lemma stable_b_spec : forall keys r0 stages,
  stable_b keys r0 stages = true <-> stable keys r0 stages.
Proof.
  intros keys r0 stages; unfold stable_b, stable; rewrite forallb_forall; split; intros H st Hst.
  - intros k Hk; specialize (H st Hst); rewrite forallb_forall in H; apply obsv_eqb_spec, H, Hk.
  - apply forallb_forall; intros k Hk; apply obsv_eqb_spec, H; assumption.
Qed.

Lemma second_ok_b_spec : forall keys r1 bs2 r2,
  second_ok_b keys r1 bs2 r2 = true <-> second_ok keys r1 bs2 r2.
Proof.
  intros keys r1 bs2 r2; unfold second_ok_b, second_ok; rewrite forallb_forall; split; intros H k Hk.
  - apply obsv_eqb_spec, H, Hk.
  - apply obsv_eqb_spec, H, Hk.
Qed.

Lemma prefix_b_spec : forall a b, prefix_b a b = true <-> exists rest, b = a ++ rest.
Proof.
  induction a as [|x a IH]; intro b; cbn [prefix_b].
  - split; [intros _; exists b; reflexivity|reflexivity].
  - destruct b as [|y b].
    + split; [discriminate|intros [rest H]; discriminate].
    + rewrite andb_true_iff, IH, N.eqb_eq. split.
      * intros [E [rest H]]; subst; exists rest; reflexivity.
      * intros [rest H]; inversion H; subst; split; [reflexivity|exists rest; reflexivity].
Qed.

Lemma wal_acked_durable_b_spec : forall appended acked replayed,
  wal_acked_durable_b appended acked replayed = true <-> wal_acked_durable appended acked replayed.
Proof.
  intros; unfold wal_acked_durable_b, wal_acked_durable.
  rewrite andb_true_iff, prefix_b_spec, Nat.leb_le. reflexivity.
Qed.

(** * Refutation witnesses *)

(** F13: a transaction of two entries whose second entry finds the memtable full: the
    rotation flushes the first entry's WAL record; a crash right after it recovers half of
    the transaction. *)
Definition w13 : list step :=
  [SB [Build_entry 1 1 false 0 false false false 1; Build_entry 2 2 false 0 true false false 1] [] []].

Lemma c10_refuted_b :
  prefix_consistent_b (client_batches w13) [1; 2]
    (get (recover (crash (state_at 3 (compile true w13) (init 1 1))))) = false.
Proof. vm_compute. reflexivity. Qed.

Lemma c10_refuted :
  exists sync seg nb w p keys,
    ~ prefix_consistent (client_batches w) keys (get (recover (crash (state_at p (compile sync w) (init seg nb))))).
Proof.
  exists true, 1, 1%nat, w13, 3%nat, [1; 2]; intro H.
  apply prefix_consistent_b_spec in H.
  pose proof c10_refuted_b as Hb. congruence.
Qed.

(** The former F4-through-GC witness (repaired by 2f52ea0): key 1 is written to the value log
    (version 1) and flushed, then overwritten inline (version 2); a later write rotates the
    value-log file.  GC of the sealed file writes the version-1 record back into the newest
    memtable; the lookup keeps the greatest version over all sources, so the read is unchanged. *)
Definition w11 : list step :=
  [SB [Build_entry 1 1 false 1 false false false 1] [0] [0]; SRot; SFl;
   SB [Build_entry 1 2 false 0 false false false 2] [] [];
   SB [Build_entry 2 3 false 1 false false true 3] [0] [0]].

Definition s11 : rstore := recover (crash (exec_all (compile true w11) (init 1 1))).

Lemma c11_gc_example :
  (get s11 1 = OV 2) /\ (get (maint_all [MtFlushAll; MtGc 0 0] s11) 1 = OV 2) /\
  (length (hd (@nil rec) (s_src (maint_all [MtFlushAll; MtGc 0 0] s11))) = 1%nat).
Proof. repeat split; vm_compute; reflexivity. Qed.

(** The lost-write scenario (repaired by fixes/C11-gc-live-pointer-equality.md): transaction 2
    stores a new value of key 1 in value-log file 0, rotates, logs the head, and crashes before
    its WAL records reach the file.  File 0 is sealed and holds the unreferenced record; GC of
    it writes back only the version-1 record the store points at. *)
Definition w_lost : list step :=
  [SB [Build_entry 1 1 false 1 false false false 1] [0] [0];
   SB [Build_entry 1 2 false 1 false false false 2; Build_entry 2 3 false 1 false false true 2;
       Build_entry 3 4 false 1 false false false 2] [0] [0]].

Definition s_lost : rstore := recover (crash (state_at 9 (compile true w_lost) (init 1 1))).

Lemma c11_lost_write_example :
  (fget pair_eqb (0, 0) (s_vlog s_lost) =
    Some [{| v_key := 1; v_ver := 1; v_vid := 1 |}; {| v_key := 1; v_ver := 2; v_vid := 2 |}]) /\
  (get s_lost 1 = OV 1) /\ (get (maint_all [MtFlushAll; MtGc 0 0] s_lost) 1 = OV 1).
Proof. repeat split; vm_compute; reflexivity. Qed.

(** * The structural invariant of the write path *)


(** strictly increasing lists of ids *)
Fixpoint chain (l : list N) : Prop :=
  match l with
  | x :: ((y :: _) as l') => x < y /\ chain l'
  | _ => True
  end.

Arguments chain : simpl never.

Lemma chain_cons : forall x l, chain (x :: l) <-> (forall y, In y l -> x < y) /\ chain l.
Proof.
  intros x l; revert x; induction l as [|y l IH]; intro x.
  - cbn; split; [intros _; split; [intros y []|exact I]|intros _; exact I].
  - change (chain (x :: y :: l)) with (x < y /\ chain (y :: l)). rewrite (IH y). split.
    + intros [Hxy [Hy Hc]]; split; [|split; assumption].
      intros z [Hz|Hz]; [subst; assumption|]. specialize (Hy z Hz); lia.
    + intros [Hall [Hy Hc]]; split; [apply Hall; left; reflexivity|split; assumption].
Qed.

Lemma chain_app : forall l1 l2,
  chain (l1 ++ l2) <-> chain l1 /\ chain l2 /\ (forall a b, In a l1 -> In b l2 -> a < b).
Proof.
  induction l1 as [|x l1 IH]; intro l2.
  - cbn [app]; split; [intro H; split; [exact I|split; [exact H|intros a b []]]|intros [_ [H _]]; exact H].
  - cbn [app]. rewrite !chain_cons, IH. split.
    + intros [Hx [H1 [H2 H12]]]. split; [split; [|exact H1]|split; [exact H2|]].
      * intros y Hy; apply Hx, in_or_app; left; exact Hy.
      * intros a b [Ha|Ha] Hb; [subst; apply Hx, in_or_app; right; exact Hb|apply H12; assumption].
    + intros [[Hx H1] [H2 H12]]. split; [|split; [exact H1|split; [exact H2|]]].
      * intros y Hy; apply in_app_or in Hy; destruct Hy as [Hy|Hy]; [apply Hx, Hy|apply H12; [left; reflexivity|exact Hy]].
      * intros a b Ha Hb; apply H12; [right; exact Ha|exact Hb].
Qed.

(** association-list facts *)
Section AL.
  Context {V : Type}.
  Implicit Types m : list (N * V).

  Lemma fget_app_notin : forall m k v, ~ In k (map fst m) -> fget N.eqb k (m ++ [(k, v)]) = Some v.
  Proof.
    induction m as [|[k' v'] m IH]; intros k v Hn; cbn.
    - rewrite N.eqb_refl; reflexivity.
    - destruct (k =? k') eqn:E; [apply N.eqb_eq in E; subst; exfalso; apply Hn; left; reflexivity|].
      apply IH; intro H; apply Hn; right; exact H.
  Qed.

  Lemma fput_app_notin : forall m k v v', ~ In k (map fst m) -> fput N.eqb k v' (m ++ [(k, v)]) = m ++ [(k, v')].
  Proof.
    induction m as [|[k' w] m IH]; intros k v v' Hn; cbn.
    - rewrite N.eqb_refl; reflexivity.
    - destruct (k =? k') eqn:E; [apply N.eqb_eq in E; subst; exfalso; apply Hn; left; reflexivity|].
      f_equal; apply IH; intro H; apply Hn; right; exact H.
  Qed.

  Lemma fput_new : forall m k v, ~ In k (map fst m) -> fput N.eqb k v m = m ++ [(k, v)].
  Proof.
    induction m as [|[k' w] m IH]; intros k v Hn; cbn; [reflexivity|].
    destruct (k =? k') eqn:E; [apply N.eqb_eq in E; subst; exfalso; apply Hn; left; reflexivity|].
    f_equal; apply IH; intro H; apply Hn; right; exact H.
  Qed.

  Lemma fdel_notin : forall m k, ~ In k (map fst m) -> fdel N.eqb k m = m.
  Proof.
    induction m as [|[k' w] m IH]; intros k Hn; cbn; [reflexivity|].
    destruct (k =? k') eqn:E; [apply N.eqb_eq in E; subst; exfalso; apply Hn; left; reflexivity|].
    f_equal; apply IH; intro H; apply Hn; right; exact H.
  Qed.
End AL.


Definition pending (t : rt) : list (N * list rec) := if t_fl t =? 3 then tl (t_imm t) else t_imm t.
Definition ids (l : list (N * list rec)) : list N := map fst l.
Definition recs (l : list (N * list rec)) : list rec := concat (map snd l).
Definition inprog (t : rt) : list (N * option (list rec)) :=
  match t_imm t with
  | (s, rs) :: _ => if t_fl t =? 1 then [(s, None)] else if t_fl t =? 2 then [(s, Some rs)] else []
  | [] => []
  end.
Definition last_id (l : list (N * list rec)) : N := last (ids l) 0.
Definition done_files (l : list (N * list rec)) : list (N * option (list rec)) := map (fun c => (fst c, Some (snd c))) l.

Definition stage_ok (t : rt) : Prop :=
  (t_fl t = 0) \/
  ((t_fl t = 1 \/ t_fl t = 2) /\ exists s r rs imm', t_imm t = (s, r :: rs) :: imm') \/
  (t_fl t = 3 /\ exists s r rs imm' done', t_imm t = (s, r :: rs) :: imm' /\ t_done t = done' ++ [(s, r :: rs)]).

Record Inv (d : disk) (t : rt) : Prop := mkInv {
  i_wal : exists fl, d_wal d = t_imm t ++ [(t_act t, fl)] /\ fl ++ t_buf t = t_mem t;
  i_chain : chain (0 :: ids (t_done t) ++ ids (pending t) ++ [t_act t]);
  i_max : t_act t <= t_maxfid t;
  i_stage : stage_ok t;
  i_log : t_log t = recs (t_done t) ++ recs (pending t) ++ t_mem t;
  i_lp : m_logseg (mapply_all (d_man d)) = last_id (t_done t);
  i_ssts : forall x, mem_b x (m_ssts (mapply_all (d_man d))) = mem_b x (ids (t_done t));
  i_sst : d_sst d = done_files (t_done t) ++ inprog t
}.

Lemma mapply_all_app : forall l es, mapply_all (l ++ es) = fold_left mapply es (mapply_all l).
Proof. intros; unfold mapply_all; apply fold_left_app. Qed.

Lemma recs_app : forall a b, recs (a ++ b) = recs a ++ recs b.
Proof. intros; unfold recs; rewrite map_app, concat_app; reflexivity. Qed.

Lemma ids_app : forall a b, ids (a ++ b) = ids a ++ ids b.
Proof. intros; unfold ids; apply map_app. Qed.

Lemma mem_b_app : forall x a b, mem_b x (a ++ b) = mem_b x a || mem_b x b.
Proof. intros; unfold mem_b; apply existsb_app. Qed.

Lemma mem_b_In : forall x l, mem_b x l = true <-> In x l.
Proof.
  intros x l; unfold mem_b; rewrite existsb_exists; split.
  - intros [y [Hy E]]; apply N.eqb_eq in E; subst; exact Hy.
  - intro H; exists x; split; [exact H|apply N.eqb_refl].
Qed.

(** ids of the imm list are all below the active id, and pairwise distinct *)
Lemma imm_ids_facts : forall d t, Inv d t ->
  (forall x, In x (ids (t_imm t)) -> x < t_act t) /\
  (forall x, In x (ids (t_done t)) -> x < t_act t).
Proof.
  intros d t I. pose proof (i_chain _ _ I) as C. pose proof (i_stage _ _ I) as S.
  apply chain_cons in C; destruct C as [_ C].
  apply chain_app in C; destruct C as [Cd [Cr Hdr]].
  apply chain_app in Cr; destruct Cr as [Cp [_ Hpa]].
  assert (Hd : forall x, In x (ids (t_done t)) -> x < t_act t).
  { intros x Hx; apply Hdr; [exact Hx|apply in_or_app; right; left; reflexivity]. }
  split; [|exact Hd].
  intros x Hx. unfold pending in *.
  destruct (t_fl t =? 3) eqn:E.
  - apply N.eqb_eq in E. destruct S as [S|[[[S|S] _]|[_ S]]]; try lia.
    destruct S as [s [r [rs [imm' [done' [Hi Hdn]]]]]]. rewrite Hi in Hx, Hpa; cbn in Hx, Hpa.
    destruct Hx as [Hx|Hx].
    + subst x. apply Hd. rewrite Hdn, ids_app. apply in_or_app; right; left; reflexivity.
    + apply Hpa; [exact Hx|left; reflexivity].
  - apply Hpa; [exact Hx|left; reflexivity].
Qed.


Lemma act_notin_imm : forall d t, Inv d t -> ~ In (t_act t) (map fst (t_imm t)).
Proof.
  intros d t I H. destruct (imm_ids_facts _ _ I) as [Hi _]. specialize (Hi _ H). lia.
Qed.

(** flushing the first k buffered records *)
Lemma inv_flush_k : forall k d t, Inv d t ->
  Inv (fst (fst (flush_k k d t))) (snd (fst (flush_k k d t))).
Proof.
  intros k d t I. destruct k as [|k]; [exact I|].
  cbn [flush_k fst snd].
  pose proof (act_notin_imm _ _ I) as Hn.
  destruct I as [[fl [Hw Hm]] C M SG L P SS ST].
  constructor; cbn; try assumption.
  exists (fl ++ firstn (S k) (t_buf t)). split.
  - unfold fappend. rewrite Hw, (fget_app_notin _ _ _ Hn). apply fput_app_notin, Hn.
  - rewrite <- app_assoc, firstn_skipn. exact Hm.
Qed.

Lemma inv_vlog_only : forall d t v, Inv d t -> Inv (set_vlog d v) t.
Proof. intros d t v [W C M SG L P SS ST]; constructor; cbn; assumption. Qed.

Lemma inv_with_vact : forall d t v, Inv d t -> Inv d (with_vact t v).
Proof. intros d t v [W C M SG L P SS ST]; constructor; cbn; assumption. Qed.

Lemma inv_with_ptrs : forall d t v, Inv d t -> Inv d (with_ptrs t v).
Proof. intros d t v [W C M SG L P SS ST]; constructor; cbn; assumption. Qed.

Lemma inv_with_logged : forall d t v, Inv d t -> Inv d (with_logged t v).
Proof. intros d t v [W C M SG L P SS ST]; constructor; cbn; assumption. Qed.

(** manifest edits that touch neither the table set nor the log pointer *)
Definition neutral (v v' : mver) : Prop :=
  m_logseg v' = m_logseg v /\ forall x, mem_b x (m_ssts v') = mem_b x (m_ssts v).

Lemma inv_man_neutral : forall d t es, Inv d t ->
  neutral (mapply_all (d_man d)) (fold_left mapply es (mapply_all (d_man d))) ->
  Inv (set_man d (d_man d ++ es)) t.
Proof.
  intros d t es [W C M SG L P SS ST] [N1 N2]; constructor; cbn [set_man d_wal d_man d_sst d_vlog]; try assumption.
  - rewrite mapply_all_app, N1; exact P.
  - intro x; rewrite mapply_all_app, N2; apply SS.
Qed.

Lemma mem_b_remove_add : forall x f l, mem_b f l = true -> mem_b x (remove_first f l ++ [f]) = mem_b x l.
Proof.
  unfold mem_b. intros x f l; induction l as [|y l IH]; intro H; [discriminate|].
  cbn [remove_first]. destruct (f =? y) eqn:E.
  - apply N.eqb_eq in E; subst y. rewrite existsb_app. cbn [existsb]. rewrite orb_false_r. apply orb_comm.
  - cbn [existsb] in H. rewrite E in H. cbn [orb] in H.
    change ((y :: remove_first f l) ++ [f]) with (y :: (remove_first f l ++ [f])).
    cbn [existsb]. rewrite (IH H). reflexivity.
Qed.

Lemma move_neutral : forall fids lvl v0 v,
  neutral v0 v -> neutral v0 (fold_left mapply (move_edits v0 fids lvl) v).
Proof.
  intros fids lvl v0; unfold move_edits. induction fids as [|f fids IH]; intros v Hn; [exact Hn|].
  cbn [flat_map]. rewrite fold_left_app. apply IH.
  destruct (mem_b f (m_ssts v0)) eqn:E; [|exact Hn].
  destruct Hn as [N1 N2]. unfold neutral. cbn [fold_left mapply m_logseg m_ssts]. split; [exact N1|].
  intro x. rewrite mem_b_remove_add; [apply N2|]. rewrite N2; exact E.
Qed.


Lemma pending_cases : forall t, stage_ok t ->
  (t_fl t <> 3 /\ pending t = t_imm t) \/
  (t_fl t = 3 /\ exists s r rs imm' done', t_imm t = (s, r :: rs) :: imm' /\ t_done t = done' ++ [(s, r :: rs)] /\ pending t = imm').
Proof.
  intros t S. unfold pending. destruct S as [S|[[[S|S] _]|[S H]]]; try (left; rewrite S; cbn; split; [lia|reflexivity]).
  right. split; [exact S|]. destruct H as [s [r [rs [imm' [done' [Hi Hd]]]]]].
  exists s, r, rs, imm', done'. rewrite S, Hi. cbn. auto.
Qed.

(** MBuf *)
Lemma inv_buf : forall d t r p s',
  Inv d t ->
  Inv d {| t_act := t_act t; t_buf := t_buf t ++ [r]; t_mem := t_mem t ++ [r]; t_imm := t_imm t; t_fl := t_fl t;
           t_maxfid := t_maxfid t; t_vact := t_vact t; t_logged := t_logged t; t_ptrs := p; t_seq := s';
           t_acked := t_acked t; t_log := t_log t ++ [r]; t_done := t_done t; t_ackpos := t_ackpos t |}.
Proof.
  intros d t r p s' [[fl [Hw Hm]] C M SG L P SS ST].
  constructor; cbn [t_act t_buf t_mem t_imm t_fl t_maxfid t_log t_done]; try assumption.
  - exists fl; split; [exact Hw|]. rewrite app_assoc, Hm; reflexivity.
  - rewrite L. unfold pending; cbn [t_fl t_imm]. rewrite !app_assoc. reflexivity.
Qed.

(** MAck and the bookkeeping part of MSyncAck *)
Lemma inv_ack : forall d t p a k,
  Inv d t ->
  Inv d {| t_act := t_act t; t_buf := t_buf t; t_mem := t_mem t; t_imm := t_imm t; t_fl := t_fl t;
           t_maxfid := t_maxfid t; t_vact := t_vact t; t_logged := t_logged t; t_ptrs := p; t_seq := t_seq t;
           t_acked := a; t_log := t_log t; t_done := t_done t; t_ackpos := k |}.
Proof. intros d t p a k [W C M SG L P SS ST]; constructor; cbn; assumption. Qed.

(** MNewSeg *)
Lemma inv_newseg : forall d t, Inv d t -> t_buf t = [] ->
  Inv (set_wal d (fput N.eqb (t_maxfid t + 1) [] (d_wal d)))
      {| t_act := t_maxfid t + 1; t_buf := []; t_mem := []; t_imm := t_imm t ++ [(t_act t, t_mem t)]; t_fl := t_fl t;
         t_maxfid := t_maxfid t + 1; t_vact := t_vact t; t_logged := t_logged t; t_ptrs := t_ptrs t; t_seq := t_seq t;
         t_acked := t_acked t; t_log := t_log t; t_done := t_done t; t_ackpos := t_ackpos t |}.
Proof.
  intros d t I Hb. destruct (imm_ids_facts _ _ I) as [Himm Hdone].
  destruct I as [[fl [Hw Hm]] C M SG L P SS ST].
  rewrite Hb, app_nil_r in Hm. subst fl.
  assert (Hpend : pending {| t_act := t_maxfid t + 1; t_buf := []; t_mem := []; t_imm := t_imm t ++ [(t_act t, t_mem t)]; t_fl := t_fl t;
         t_maxfid := t_maxfid t + 1; t_vact := t_vact t; t_logged := t_logged t; t_ptrs := t_ptrs t; t_seq := t_seq t;
         t_acked := t_acked t; t_log := t_log t; t_done := t_done t; t_ackpos := t_ackpos t |} = pending t ++ [(t_act t, t_mem t)]).
  { unfold pending; cbn [t_fl t_imm]. destruct (pending_cases t SG) as [[Hne _]|[He [s [r [rs [imm' [done' [Hi _]]]]]]]].
    - destruct (t_fl t =? 3) eqn:E; [apply N.eqb_eq in E; lia|reflexivity].
    - rewrite He, Hi; reflexivity. }
  constructor; cbn [t_act t_buf t_mem t_imm t_fl t_maxfid t_log t_done set_wal d_wal d_man d_sst d_vlog]; try assumption.
  - exists []. split; [|reflexivity].
    rewrite Hw, fput_new.
    + rewrite <- app_assoc; reflexivity.
    + rewrite map_app; cbn [map fst]. intro H; apply in_app_or in H; destruct H as [H|[H|[]]].
      * specialize (Himm _ H); lia.
      * lia.
  - rewrite Hpend, ids_app. cbn [ids map fst].
    replace (0 :: ids (t_done t) ++ (ids (pending t) ++ [t_act t]) ++ [t_maxfid t + 1])
      with ((0 :: ids (t_done t) ++ ids (pending t) ++ [t_act t]) ++ [t_maxfid t + 1])
      by (cbn [app]; rewrite <- !app_assoc; reflexivity).
    apply (proj2 (chain_app _ _)). split; [exact C|split; [exact I|]].
    intros a b Ha [Hb'|[]]; subst b.
    cbn [app] in Ha. destruct Ha as [Ha|Ha]; [lia|].
    apply in_app_or in Ha; destruct Ha as [Ha|Ha].
    + specialize (Hdone _ Ha); lia.
    + apply in_app_or in Ha; destruct Ha as [Ha|[Ha|[]]]; [|lia].
      assert (In a (ids (t_imm t))).
      { unfold pending in Ha. destruct (t_fl t =? 3); [|exact Ha]. destruct (t_imm t); [destruct Ha|right; exact Ha]. }
      specialize (Himm _ H); lia.
  - lia.
  - destruct SG as [SG|[[SG [s [r [rs [imm' Hi]]]]]|[SG [s [r [rs [imm' [done' [Hi Hd]]]]]]]]].
    + left; exact SG.
    + right; left; split; [exact SG|]. exists s, r, rs, (imm' ++ [(t_act t, t_mem t)]). rewrite Hi; reflexivity.
    + right; right; split; [exact SG|]. exists s, r, rs, (imm' ++ [(t_act t, t_mem t)]), done'. rewrite Hi; split; [reflexivity|exact Hd].
  - rewrite Hpend, recs_app, L.
    assert (E : recs [(t_act t, t_mem t)] = t_mem t) by (unfold recs; cbn [map snd concat]; apply app_nil_r).
    rewrite E, app_nil_r. reflexivity.
  - rewrite ST. f_equal. unfold inprog; cbn [t_imm t_fl].
    destruct (t_imm t) as [|[s rs] imm'] eqn:Ei; cbn [app]; [|reflexivity].
    destruct SG as [SG|[[SG [s [r [rs [imm' Hi]]]]]|[SG [s [r [rs [imm' [done' [Hi Hd]]]]]]]]]; try congruence.
    rewrite SG; reflexivity.
Qed.


Lemma done_files_keys : forall l, map fst (done_files l) = ids l.
Proof. intro l; unfold done_files, ids; rewrite map_map; reflexivity. Qed.

(** the head of the sealed list, while it is not yet in the manifest, is not a done id *)
Lemma head_notin_done : forall d t s rs imm', Inv d t -> t_fl t <> 3 -> t_imm t = (s, rs) :: imm' ->
  ~ In s (ids (t_done t)).
Proof.
  intros d t s rs imm' I Hne Hi Hin. pose proof (i_chain _ _ I) as C.
  apply chain_cons in C; destruct C as [_ C]. apply chain_app in C; destruct C as [_ [_ H]].
  assert (Hp : pending t = t_imm t).
  { unfold pending. destruct (t_fl t =? 3) eqn:E; [apply N.eqb_eq in E; contradiction|reflexivity]. }
  specialize (H s s Hin). rewrite Hp, Hi in H. cbn in H. specialize (H (or_introl eq_refl)). lia.
Qed.

Lemma inv_sst_create : forall d t s r rs imm', Inv d t -> t_fl t = 0 -> t_imm t = (s, r :: rs) :: imm' ->
  Inv (set_sst d (fput N.eqb s None (d_sst d))) (with_imm t (t_imm t) 1).
Proof.
  intros d t s r rs imm' I H0 Hi. pose proof (head_notin_done _ _ _ _ _ I ltac:(lia) Hi) as Hn.
  destruct I as [W C M SG L P SS ST].
  assert (Hp : pending (with_imm t (t_imm t) 1) = pending t) by (unfold pending; cbn; rewrite H0; reflexivity).
  constructor; cbn [with_imm set_sst t_act t_buf t_mem t_imm t_fl t_maxfid t_log t_done d_wal d_man d_sst d_vlog]; try assumption.
  - rewrite Hp; exact C.
  - right; left; split; [left; reflexivity|]. exists s, r, rs, imm'; exact Hi.
  - rewrite Hp; exact L.
  - rewrite ST. unfold inprog; cbn [with_imm t_imm t_fl]. rewrite Hi, H0. cbn [N.eqb app].
    rewrite app_nil_r. apply fput_new. rewrite done_files_keys. exact Hn.
Qed.

Lemma inv_sst_fill : forall d t s r rs imm', Inv d t -> t_fl t = 1 -> t_imm t = (s, r :: rs) :: imm' ->
  Inv (set_sst d (fput N.eqb s (Some (r :: rs)) (d_sst d))) (with_imm t (t_imm t) 2).
Proof.
  intros d t s r rs imm' I H1 Hi. pose proof (head_notin_done _ _ _ _ _ I ltac:(lia) Hi) as Hn.
  destruct I as [W C M SG L P SS ST].
  assert (Hp : pending (with_imm t (t_imm t) 2) = pending t) by (unfold pending; cbn; rewrite H1; reflexivity).
  constructor; cbn [with_imm set_sst t_act t_buf t_mem t_imm t_fl t_maxfid t_log t_done d_wal d_man d_sst d_vlog]; try assumption.
  - rewrite Hp; exact C.
  - right; left; split; [right; reflexivity|]. exists s, r, rs, imm'; exact Hi.
  - rewrite Hp; exact L.
  - rewrite ST. unfold inprog; cbn [with_imm t_imm t_fl]. rewrite Hi, H1. cbn [N.eqb Pos.eqb app].
    apply fput_app_notin. rewrite done_files_keys. exact Hn.
Qed.

Lemma last_id_app : forall l s rs, last_id (l ++ [(s, rs)]) = s.
Proof. intros; unfold last_id; rewrite ids_app; cbn [ids map fst]. apply last_last. Qed.

Lemma inv_flush_man : forall d t s r rs imm', Inv d t -> t_fl t = 2 -> t_imm t = (s, r :: rs) :: imm' ->
  Inv (set_man d (d_man d ++ [AF s 0; LP s]))
      {| t_act := t_act t; t_buf := t_buf t; t_mem := t_mem t; t_imm := t_imm t; t_fl := 3;
         t_maxfid := t_maxfid t; t_vact := t_vact t; t_logged := t_logged t; t_ptrs := t_ptrs t; t_seq := t_seq t;
         t_acked := t_acked t; t_log := t_log t; t_done := t_done t ++ [(s, r :: rs)]; t_ackpos := t_ackpos t |}.
Proof.
  intros d t s r rs imm' I H2 Hi. destruct I as [W C M SG L P SS ST].
  assert (Hp0 : pending t = (s, r :: rs) :: imm') by (unfold pending; rewrite H2, Hi; reflexivity).
  constructor; cbn [set_man t_act t_buf t_mem t_imm t_fl t_maxfid t_log t_done d_wal d_man d_sst d_vlog]; try assumption.
  - unfold pending; cbn [t_fl t_imm N.eqb Pos.eqb]. rewrite Hi; cbn [tl].
    rewrite ids_app. cbn [ids map fst]. rewrite Hp0 in C. cbn [ids map fst] in C.
    rewrite <- app_assoc. exact C.
  - right; right; split; [reflexivity|]. exists s, r, rs, imm', (t_done t). split; [exact Hi|reflexivity].
  - unfold pending; cbn [t_fl t_imm N.eqb Pos.eqb]. rewrite Hi; cbn [tl].
    rewrite L, Hp0, recs_app.
    change (recs ((s, r :: rs) :: imm')) with ((r :: rs) ++ recs imm').
    change (recs [(s, r :: rs)]) with ((r :: rs) ++ []).
    rewrite app_nil_r, <- !app_assoc. reflexivity.
  - rewrite mapply_all_app. cbn [fold_left mapply m_logseg]. rewrite last_id_app; reflexivity.
  - intro x. rewrite mapply_all_app. cbn [fold_left mapply m_ssts]. rewrite ids_app, !mem_b_app, SS. reflexivity.
  - rewrite ST. unfold inprog, done_files; cbn [t_imm t_fl]. rewrite Hi, H2. cbn [N.eqb Pos.eqb].
    rewrite map_app. cbn [map fst snd]. rewrite app_nil_r. reflexivity.
Qed.

Lemma chain_drop_mid : forall a x b, chain (a ++ x :: b) -> chain (a ++ b).
Proof.
  intros a x b H. apply chain_app in H. destruct H as [Ha [Hb Hab]].
  apply chain_cons in Hb. destruct Hb as [Hxb Hb].
  apply (proj2 (chain_app _ _)). split; [exact Ha|split; [exact Hb|]].
  intros p q Hp Hq; apply Hab; [exact Hp|right; exact Hq].
Qed.

Lemma inv_wal_rm : forall d t s rs imm', Inv d t -> t_imm t = (s, rs) :: imm' ->
  (t_fl t = 3 \/ (t_fl t = 0 /\ rs = [])) ->
  Inv (set_wal d (fdel N.eqb s (d_wal d))) (with_imm t imm' 0).
Proof.
  intros d t s rs imm' I Hi Hc. pose proof (i_chain _ _ I) as C0.
  destruct I as [[fl [Hw Hm]] C M SG L P SS ST].
  assert (Hp : pending (with_imm t imm' 0) = imm') by reflexivity.
  assert (Hnotin : ~ In s (map fst (imm' ++ [(t_act t, fl)]))).
  { (* ids of the sealed list are strictly increasing and below the active id *)
    destruct Hc as [H3|[H0 _]].
    - destruct SG as [SG|[[[SG|SG] _]|[_ [s0 [r0 [rs0 [i0 [dn [Hi0 Hd]]]]]]]]]; try lia.
      rewrite Hi in Hi0; inversion Hi0; subst s0 rs i0.
      unfold pending in C. rewrite H3, Hi in C. cbn [N.eqb Pos.eqb tl] in C.
      rewrite Hd, ids_app in C. cbn [ids map fst] in C.
      apply chain_cons in C; destruct C as [_ C]. rewrite <- app_assoc in C. apply chain_app in C. destruct C as [_ [C _]].
      cbn [app] in C. apply chain_cons in C. destruct C as [C _].
      intro H. rewrite map_app in H. specialize (C s H). lia.
    - unfold pending in C. rewrite H0, Hi in C. cbn [N.eqb] in C. cbn [ids map fst] in C.
      apply chain_cons in C; destruct C as [_ C]. apply chain_app in C. destruct C as [_ [C _]].
      cbn [app] in C. apply chain_cons in C. destruct C as [C _].
      intro H. rewrite map_app in H. specialize (C s H). lia. }
  constructor; cbn [with_imm set_wal t_act t_buf t_mem t_imm t_fl t_maxfid t_log t_done d_wal d_man d_sst d_vlog]; try assumption.
  - exists fl. split; [|exact Hm]. rewrite Hw, Hi. cbn [app fdel]. rewrite N.eqb_refl. apply fdel_notin, Hnotin.
  - rewrite Hp. destruct Hc as [H3|[H0 _]].
    + unfold pending in C. rewrite H3, Hi in C. exact C.
    + unfold pending in C. rewrite H0, Hi in C. cbn [N.eqb ids map fst] in C.
      rewrite app_comm_cons in C. apply chain_drop_mid in C. exact C.
  - left; reflexivity.
  - rewrite Hp, L. destruct Hc as [H3|[H0 Hr]].
    + unfold pending. rewrite H3, Hi. reflexivity.
    + unfold pending. rewrite H0, Hi. subst rs. reflexivity.
  - rewrite ST. f_equal. unfold inprog. cbn [with_imm t_imm t_fl]. rewrite Hi.
    destruct Hc as [H3|[H0 _]]; [rewrite H3|rewrite H0]; cbn [N.eqb Pos.eqb]; destruct imm' as [|[? ?] ?]; reflexivity.
Qed.


Definition InvS (st : mstate) : Prop := Inv (fst st) (snd st).

Lemma neutral_refl : forall v, neutral v v.
Proof. intro v; split; [reflexivity|intro; reflexivity]. Qed.

Lemma exec_inv : forall st m, InvS st -> InvS (fst (exec st m)).
Proof.
  intros [d t] m I. unfold InvS in *. cbn [fst snd] in I.
  destruct m; cbn [exec].
  - (* MVRot *) cbn [fst snd]. apply inv_vlog_only, inv_with_vact, I.
  - (* MVApp *) cbn [fst snd]. apply inv_vlog_only, inv_with_ptrs, I.
  - (* MHead *)
    destruct (match fget N.eqb b (t_logged t) with Some g => g =? vact_of t b | None => false end); cbn [fst snd]; [exact I|].
    apply inv_man_neutral; [apply inv_with_logged, I|]. cbn [fold_left mapply]. split; [reflexivity|intro; reflexivity].
  - (* MFlushBuf *) apply inv_flush_k, I.
  - (* MNewSeg *)
    destruct (t_buf t) eqn:Eb; cbn [fst snd]; [|exact I].
    pose proof (inv_newseg d t I Eb) as H. exact H.
  - (* MBuf *)
    destruct (if e_loc e =? 0 then (None, t_ptrs t) else take_ptr (e_key e, e_vid e) (t_ptrs t)) as [p ptrs'].
    cbn [fst snd]. apply inv_buf, I.
  - (* MSpill *) apply inv_flush_k, I.
  - (* MSync *) apply inv_flush_k, I.
  - (* MAck *) cbn [fst snd]. apply inv_ack, I.
  - (* MSyncAck *)
    pose proof (inv_flush_k (length (t_buf t)) d t I) as H.
    destruct (flush_k (length (t_buf t)) d t) as [[d' t'] oe]. cbn [fst snd] in *. apply inv_ack, H.
  - (* MSstCreate *)
    destruct (t_imm t) as [|[s [|r rs]] imm'] eqn:Ei; cbn [fst snd]; try exact I.
    destruct (t_fl t) as [|p] eqn:Ef; cbn [fst snd]; [|exact I].
    rewrite <- Ei. eapply inv_sst_create; eauto.
  - (* MSstFill *)
    destruct (t_imm t) as [|[s [|r rs]] imm'] eqn:Ei; cbn [fst snd]; try exact I.
    destruct (t_fl t) as [|[p|p|]] eqn:Ef; cbn [fst snd]; try exact I.
    rewrite <- Ei. eapply inv_sst_fill; eauto.
  - (* MFlushMan *)
    destruct (t_imm t) as [|[s [|r rs]] imm'] eqn:Ei; cbn [fst snd]; try exact I.
    destruct (t_fl t) as [|[p|[p|p|]|]] eqn:Ef; cbn [fst snd]; try exact I.
    rewrite <- Ei. eapply inv_flush_man; eauto.
  - (* MFlushWalRm *)
    destruct (t_imm t) as [|[s [|r rs]] imm'] eqn:Ei; cbn [fst snd]; try exact I.
    + destruct (t_fl t) as [|p] eqn:Ef; cbn [fst snd]; [|exact I].
      eapply inv_wal_rm; eauto.
    + destruct (t_fl t) as [|[[p|p|]|p|]] eqn:Ef; cbn [fst snd]; try exact I.
      eapply inv_wal_rm; eauto.
  - (* MMove *) cbn [fst snd]. apply inv_man_neutral; [exact I|]. apply move_neutral, neutral_refl.
  - (* MVlogDel *) cbn [fst snd]. apply inv_man_neutral; [exact I|]. cbn [fold_left mapply]. split; [reflexivity|intro; reflexivity].
  - (* MVlogRm *) cbn [fst snd]. apply inv_vlog_only, I.
Qed.

Lemma init_inv : forall seg nb, 0 < seg -> InvS (init seg nb).
Proof.
  intros seg nb Hs. unfold InvS, init; cbn [fst snd]. constructor; cbn.
  - exists []; split; reflexivity.
  - unfold chain; cbn. split; [exact Hs|exact I].
  - lia.
  - left; reflexivity.
  - reflexivity.
  - reflexivity.
  - intro; reflexivity.
  - reflexivity.
Qed.

Lemma exec_all_inv : forall ms st, InvS st -> InvS (exec_all ms st).
Proof.
  induction ms as [|m ms IH]; intros st I; [exact I|].
  unfold exec_all; cbn [fold_left]. apply IH, exec_inv, I.
Qed.

Lemma state_at_inv : forall p ms seg nb, 0 < seg -> InvS (state_at p ms (init seg nb)).
Proof. intros; unfold state_at; apply exec_all_inv, init_inv; assumption. Qed.


(** the records recovery loads, oldest source first *)
Definition recovered_log (s : rstore) : list rec := concat (rev (s_src s)).

Lemma concat_rev_src : forall (W S : list (list rec)),
  concat (rev ((match rev W with [] => [[]] | _ => rev W end) ++ rev S)) = concat S ++ concat W.
Proof.
  intros W S. rewrite rev_app_distr, rev_involutive, concat_app. f_equal.
  destruct (rev W) eqn:E.
  - assert (W = []) by (rewrite <- (rev_involutive W), E; reflexivity). subst W. reflexivity.
  - rewrite <- E, rev_involutive. reflexivity.
Qed.

Lemma last_cons_default : forall (l : list N) x d, last (x :: l) d = last l x.
Proof.
  induction l as [|y l IH]; intros x d; [reflexivity|].
  change (last (x :: y :: l) d) with (last (y :: l) d). rewrite (IH y d), (IH y x). reflexivity.
Qed.

Lemma chain_last_lt : forall a b z x, chain (z :: a ++ b) -> In x b -> last a z < x.
Proof.
  induction a as [|y a IH]; intros b z x C Hx.
  - cbn [app last]. apply chain_cons in C. destruct C as [C _]. apply C, Hx.
  - cbn [app] in C. apply chain_cons in C. destruct C as [_ C].
    rewrite last_cons_default.
    apply (IH b y x C Hx).
Qed.

Section Chunks.
  Variable lp : N.
  Definition wchunk (sr : N * list rec) : list (list rec) :=
    if lp <? fst sr then match snd sr with [] => [] | rs => [rs] end else [].

  Lemma concat_wchunk_live : forall l, (forall x, In x (ids l) -> lp < x) -> concat (flat_map wchunk l) = recs l.
  Proof.
    induction l as [|[s rs] l IH]; intro H; [reflexivity|].
    cbn [flat_map]. rewrite concat_app, IH by (intros x Hx; apply H; right; exact Hx).
    unfold wchunk; cbn [fst snd]. assert (E : lp <? s = true) by (apply N.ltb_lt, H; left; reflexivity).
    rewrite E. change (recs ((s, rs) :: l)) with (rs ++ recs l). destruct rs; cbn; [reflexivity|rewrite app_nil_r; reflexivity].
  Qed.
End Chunks.

Lemma sst_chunks_done : forall dn v extra,
  (forall x, In x (ids dn) -> mem_b x (m_ssts v) = true) ->
  (forall x, In x extra -> match snd x with Some _ => mem_b (fst x) (m_ssts v) = false | None => True end) ->
  flat_map (fun x => match snd x with
                     | Some rs => if mem_b (fst x) (m_ssts v) then [rs] else []
                     | None => []
                     end) (done_files dn ++ extra) = map snd dn.
Proof.
  intros dn v extra Hd He. rewrite flat_map_app.
  assert (E2 : flat_map (fun x => match snd x with
                     | Some rs => if mem_b (fst x) (m_ssts v) then [rs] else []
                     | None => [] end) extra = []).
  { induction extra as [|[k [rs|]] ex IH]; [reflexivity| |].
    - cbn [flat_map fst snd]. pose proof (He (k, Some rs) (or_introl eq_refl)) as H; cbn [fst snd] in H. rewrite H. cbn [app].
      apply IH; intros x Hx; apply He; right; exact Hx.
    - cbn [flat_map fst snd app]. apply IH; intros x Hx; apply He; right; exact Hx. }
  rewrite E2, app_nil_r. clear E2 He.
  induction dn as [|[s rs] dn IH]; [reflexivity|].
  cbn [done_files map flat_map fst snd]. rewrite (Hd s (or_introl eq_refl)). cbn [app]. f_equal.
  apply IH; intros x Hx; apply Hd; right; exact Hx.
Qed.

Theorem recover_log : forall d t, Inv d t -> recovered_log (recover d) ++ t_buf t = t_log t.
Proof.
  intros d t I. pose proof I as I0. destruct I as [[fl [Hw Hm]] C M SG L P SS ST].
  unfold recovered_log, recover; cbn [s_src].
  rewrite concat_rev_src.
  (* tables *)
  assert (Es : sst_chunks d (mapply_all (d_man d)) = map snd (t_done t)).
  { unfold sst_chunks. rewrite ST. apply sst_chunks_done.
    - intros x Hx. rewrite SS. apply mem_b_In, Hx.
    - intros [k o] Hx. unfold inprog in Hx. destruct (t_imm t) as [|[s rs] imm'] eqn:Ei; [destruct Hx|].
      destruct (t_fl t =? 1) eqn:E1; [destruct Hx as [Hx|[]]; inversion Hx; exact I|].
      destruct (t_fl t =? 2) eqn:E2; [|destruct Hx].
      destruct Hx as [Hx|[]]; inversion Hx; subst k o. cbn [fst snd].
      rewrite SS. apply N.eqb_eq in E2.
      destruct (mem_b s (ids (t_done t))) eqn:Em; [|reflexivity].
      apply mem_b_In in Em. exfalso. eapply (head_notin_done d t); eauto. lia. }
  (* WAL segments *)
  assert (Ew : concat (wal_chunks d (mapply_all (d_man d))) = recs (pending t) ++ fl).
  { unfold wal_chunks. rewrite Hw, flat_map_app, concat_app, P.
    assert (Hlt : forall x, In x (ids (pending t) ++ [t_act t]) -> last_id (t_done t) < x).
    { intros x Hx. unfold last_id. eapply chain_last_lt; [exact C|exact Hx]. }
    f_equal.
    - destruct (pending_cases t SG) as [[Hne Hp]|[He [s [r [rs [imm' [done' [Hi [Hd Hp]]]]]]]]].
      + rewrite <- Hp. apply (concat_wchunk_live (last_id (t_done t))). intros x Hx; apply Hlt, in_or_app; left; exact Hx.
      + assert (Els : last_id (t_done t) = s) by (rewrite Hd; apply last_id_app).
        rewrite Hi, Hp, Els in *. cbn [flat_map]. rewrite concat_app. cbn [fst snd]. rewrite N.ltb_irrefl. cbn [concat app].
        apply (concat_wchunk_live s). intros x Hx; apply Hlt, in_or_app; left; exact Hx.
    - cbn [flat_map fst snd]. assert (E : last_id (t_done t) <? t_act t = true).
      { apply N.ltb_lt, Hlt, in_or_app; right; left; reflexivity. }
      rewrite E, app_nil_r. destruct fl; cbn; [reflexivity|rewrite app_nil_r; reflexivity]. }
  rewrite Es, Ew, L. fold (recs (t_done t)). rewrite <- Hm, <- !app_assoc. reflexivity.
Qed.


(** every acknowledged record has left the userland buffer (SyncWrites: the acknowledgement
    is [MSyncAck], never a bare [MAck]) *)
Definition AckInv (st : mstate) : Prop :=
  (N.to_nat (t_ackpos (snd st)) + length (t_buf (snd st)) <= length (t_log (snd st)))%nat.

Definition not_plain_ack (m : mop) : bool := match m with MAck => false | _ => true end.

Lemma flush_k_buf : forall k d t, (k <= length (t_buf t))%nat ->
  (length (t_buf (snd (fst (flush_k k d t)))) <= length (t_buf t))%nat /\
  t_log (snd (fst (flush_k k d t))) = t_log t /\ t_ackpos (snd (fst (flush_k k d t))) = t_ackpos t /\
  (k = length (t_buf t) -> t_buf (snd (fst (flush_k k d t))) = []).
Proof.
  intros k d t Hk. destruct k as [|k]; cbn [flush_k fst snd].
  - repeat split; try lia. intro H. symmetry in H. apply length_zero_iff_nil in H. exact H.
  - cbn [with_buf t_buf t_log t_ackpos]. repeat split.
    + rewrite skipn_length; lia.
    + intro H. rewrite H. apply skipn_all.
Qed.

Lemma exec_ackinv : forall st m, not_plain_ack m = true -> AckInv st -> AckInv (fst (exec st m)).
Proof.
  intros [d t] m Hm A. unfold AckInv in *. cbn [fst snd] in A.
  destruct m; try discriminate; cbn [exec]; cbn [fst snd with_vact with_ptrs with_logged with_imm t_buf t_log t_ackpos]; try exact A.
  - (* MHead *) destruct (match fget N.eqb b (t_logged t) with Some g => g =? vact_of t b | None => false end); cbn [fst snd with_logged t_buf t_log t_ackpos]; exact A.
  - (* MFlushBuf *) destruct (flush_k_buf (length (t_buf t)) d t (le_n _)) as [H1 [H2 [H3 _]]]. rewrite H2, H3. eapply Nat.le_trans; [apply Nat.add_le_mono_l, H1|exact A].
  - (* MNewSeg *) destruct (t_buf t) eqn:E; cbn [fst snd t_buf t_log t_ackpos]; [exact A|rewrite E; exact A].
  - (* MBuf *)
    destruct (if e_loc e =? 0 then (None, t_ptrs t) else take_ptr (e_key e, e_vid e) (t_ptrs t)) as [p ptrs'].
    cbn [fst snd t_buf t_log t_ackpos]. rewrite !app_length. cbn [length]. lia.
  - (* MSpill *) destruct (flush_k_buf (pred (length (t_buf t))) d t (Nat.le_pred_l _)) as [H1 [H2 [H3 _]]]. rewrite H2, H3. eapply Nat.le_trans; [apply Nat.add_le_mono_l, H1|exact A].
  - (* MSync *) destruct (flush_k_buf (length (t_buf t)) d t (le_n _)) as [H1 [H2 [H3 _]]]. rewrite H2, H3. eapply Nat.le_trans; [apply Nat.add_le_mono_l, H1|exact A].
  - (* MSyncAck *)
    destruct (flush_k_buf (length (t_buf t)) d t (le_n _)) as [H1 [H2 [H3 H4]]].
    destruct (flush_k (length (t_buf t)) d t) as [[d' t'] oe]. cbn [fst snd] in *.
    cbn [t_buf t_log t_ackpos]. rewrite (H4 eq_refl). cbn [length]. lia.
  - (* MSstCreate *) destruct (t_imm t) as [|[s [|r rs]] imm']; cbn [fst snd]; try exact A. destruct (t_fl t); cbn [fst snd]; exact A.
  - (* MSstFill *) destruct (t_imm t) as [|[s [|r rs]] imm']; cbn [fst snd]; try exact A. destruct (t_fl t) as [|[p|p|]]; cbn [fst snd]; exact A.
  - (* MFlushMan *) destruct (t_imm t) as [|[s [|r rs]] imm']; cbn [fst snd]; try exact A. destruct (t_fl t) as [|[p|[p|p|]|]]; cbn [fst snd t_buf t_log t_ackpos]; exact A.
  - (* MFlushWalRm *) destruct (t_imm t) as [|[s [|r rs]] imm']; cbn [fst snd]; try exact A.
    + destruct (t_fl t); cbn [fst snd]; exact A.
    + destruct (t_fl t) as [|[[p|p|]|p|]]; cbn [fst snd]; exact A.
Qed.

Lemma exec_all_ackinv : forall ms st, forallb not_plain_ack ms = true -> AckInv st -> AckInv (exec_all ms st).
Proof.
  induction ms as [|m ms IH]; intros st Hf A; [exact A|].
  cbn [forallb] in Hf. apply andb_true_iff in Hf. destruct Hf as [Hm Hf].
  unfold exec_all; cbn [fold_left]. apply IH; [exact Hf|]. apply exec_ackinv; assumption.
Qed.

Lemma forallb_firstn : forall (A : Type) (f : A -> bool) n l, forallb f l = true -> forallb f (firstn n l) = true.
Proof.
  intros A f n; induction n as [|n IH]; intros l H; [reflexivity|].
  destruct l as [|a l]; [reflexivity|]. cbn [forallb firstn] in *. apply andb_true_iff in H. destruct H as [H1 H2].
  rewrite H1. cbn [andb]. apply IH, H2.
Qed.

Lemma forallb_flat_map : forall (A B : Type) (f : B -> bool) (g : A -> list B) l,
  (forall a, forallb f (g a) = true) -> forallb f (flat_map g l) = true.
Proof.
  intros A B f g l H; induction l as [|a l IH]; [reflexivity|]. cbn [flat_map]. rewrite forallb_app, H, IH. reflexivity.
Qed.

Lemma vlog_phase_no_ack : forall es border, forallb not_plain_ack (vlog_phase es border) = true.
Proof.
  intros. unfold vlog_phase. apply forallb_flat_map; intro b. apply forallb_flat_map; intro e.
  destruct (e_loc e =? b + 1); [|reflexivity]. destruct (e_vrot e); reflexivity.
Qed.

Lemma heads_no_ack : forall l, forallb not_plain_ack (map MHead l) = true.
Proof. induction l; [reflexivity|assumption]. Qed.

Lemma apply_phase_no_ack : forall es, forallb not_plain_ack (apply_phase es) = true.
Proof.
  intros. unfold apply_phase. apply forallb_flat_map; intro e. destruct (e_mrot e), (e_spill e); reflexivity.
Qed.

Lemma request_no_ack : forall sync es border hord, forallb not_plain_ack (request_mops sync es border hord) = true.
Proof.
  intros. unfold request_mops. rewrite !forallb_app, vlog_phase_no_ack, heads_no_ack, apply_phase_no_ack.
  destruct sync; reflexivity.
Qed.

Lemma compile_sync_no_ack : forall w, forallb not_plain_ack (compile true w) = true.
Proof.
  intro w. unfold compile. apply forallb_flat_map. intros [es border hord|rs| | |fids lvl|b f es border hord|]; cbn [compile_step]; try reflexivity.
  - unfold client_request_mops. rewrite !forallb_app, vlog_phase_no_ack, heads_no_ack, apply_phase_no_ack. reflexivity.
  - rewrite !forallb_app. apply andb_true_iff; split; [|apply andb_true_iff; split].
    + apply forallb_flat_map; intro q; apply vlog_phase_no_ack.
    + apply forallb_flat_map; intro q. rewrite forallb_app, heads_no_ack, apply_phase_no_ack. reflexivity.
    + induction rs as [|q rs IH]; [reflexivity|exact IH].
  - rewrite forallb_app, request_no_ack. destruct es; reflexivity.
Qed.

Lemma firstn_app_le : forall (A : Type) n (a b : list A), (n <= length a)%nat -> firstn n (a ++ b) = firstn n a.
Proof.
  intros A n a b H. rewrite firstn_app. replace (n - length a)%nat with 0%nat by lia. cbn [firstn]. apply app_nil_r.
Qed.

(** C09 at record granularity *)
Theorem acked_recovered : forall w p seg nb, 0 < seg ->
  let st := state_at p (compile true w) (init seg nb) in
  let n := N.to_nat (t_ackpos (snd st)) in
  (n <= length (recovered_log (recover (crash st))))%nat /\
  firstn n (recovered_log (recover (crash st))) = firstn n (t_log (snd st)).
Proof.
  intros w p seg nb Hs st n.
  assert (I : InvS st) by (apply state_at_inv, Hs).
  assert (A : AckInv st).
  { unfold st, state_at. apply exec_all_ackinv; [apply forallb_firstn, compile_sync_no_ack|].
    unfold AckInv, init; cbn. lia. }
  pose proof (recover_log _ _ I) as R. unfold crash. unfold AckInv in A. fold n in A.
  assert (Hlen : (n <= length (recovered_log (recover (fst st))))%nat).
  { apply (f_equal (@length rec)) in R. rewrite app_length in R. lia. }
  split; [exact Hlen|]. rewrite <- R. symmetry. apply firstn_app_le, Hlen.
Qed.

(** C10 at record granularity: for every sequence of micro-operations *)
Theorem recovered_log_prefix : forall ms p seg nb, 0 < seg ->
  let st := state_at p ms (init seg nb) in
  recovered_log (recover (crash st)) ++ t_buf (snd st) = t_log (snd st).
Proof. intros ms p seg nb Hs st. apply recover_log. apply (state_at_inv p ms seg nb Hs). Qed.

(** C11 without GC: flushes and the L0 move keep every read *)
Definition is_gc (m : maint) : bool := match m with MtGc _ _ | MtSeal _ => true | _ => false end.

Theorem maint_no_gc_stable : forall ms s k, forallb (fun m => negb (is_gc m)) ms = true -> get (maint_all ms s) k = get s k.
Proof.
  induction ms as [|m ms IH]; intros s k H; [reflexivity|].
  cbn [forallb] in H. apply andb_true_iff in H. destruct H as [Hm H].
  unfold maint_all; cbn [fold_left]. fold (maint_all ms (maint_step s m)). rewrite (IH _ _ H).
  destruct m; try discriminate; reflexivity.
Qed.

(** non-vacuity: after the whole F13 workload both records are acknowledged and recovered;
    at the crash point of the refutation one record is recovered and none acknowledged *)
Lemma acked_example :
  let st := state_at 6 (compile true w13) (init 1 1) in
  (t_ackpos (snd st), length (recovered_log (recover (crash st)))) = (2, 2%nat).
Proof. vm_compute. reflexivity. Qed.

Lemma prefix_example :
  let st := state_at 3 (compile true w13) (init 1 1) in
  (length (recovered_log (recover (crash st))), length (t_buf (snd st)), length (t_log (snd st))) = (1%nat, 0%nat, 1%nat).
Proof. vm_compute. reflexivity. Qed.

Lemma maint_example :
  get (maint_all [MtFlushAll; MtMove] s11) 1 = OV 2 /\ forallb (fun m => negb (is_gc m)) [MtFlushAll; MtMove] = true.
Proof. split; vm_compute; reflexivity. Qed.

(** * Value-log GC on a recovered store *)

(** what [best] returns is its accumulator or a matching record of the source *)
Lemma best_in : forall k ver s acc r, best k ver s acc = Some r ->
  acc = Some r \/ (In r s /\ r_key r = k /\ r_ver r <= ver).
Proof.
  induction s as [|x s IH]; intros acc r H; cbn [best] in H; [left; exact H|].
  destruct ((r_key x =? k) && (r_ver x <=? ver)) eqn:E.
  - apply IH in H. destruct H as [H|[Hin Hr]]; [|right; split; [right; exact Hin|exact Hr]].
    apply andb_true_iff in E. destruct E as [Ek Ev]. apply N.eqb_eq in Ek. apply N.leb_le in Ev.
    destruct acc as [a|].
    + destruct (rk_ltb a x); inversion H as [Hx]; [subst r; right; split; [left; reflexivity|split; assumption]|left; reflexivity].
    + inversion H as [Hx]; subst r. right; split; [left; reflexivity|split; assumption].
  - apply IH in H. destruct H as [H|[Hin Hr]]; [left; exact H|right; split; [right; exact Hin|exact Hr]].
Qed.

Lemma lookup_acc_in : forall k ver srcs acc r, lookup_acc k ver srcs acc = Some r ->
  acc = Some r \/ exists s, In s srcs /\ In r s /\ r_key r = k /\ r_ver r <= ver.
Proof.
  induction srcs as [|s t IH]; intros acc r H; cbn [lookup_acc] in H; [left; exact H|].
  apply IH in H. destruct H as [H|[s' [Hs' Hr]]]; [|right; exists s'; split; [right; exact Hs'|exact Hr]].
  destruct (best k ver s None) as [b|] eqn:Eb; [|left; exact H].
  assert (Hb : In b s /\ r_key b = k /\ r_ver b <= ver).
  { apply best_in in Eb. destruct Eb as [Eb|Eb]; [discriminate|exact Eb]. }
  destruct acc as [a|].
  - destruct (r_ver a <? r_ver b); [|left; exact H].
    inversion H as [Hx]; subst r. right; exists s; split; [left; reflexivity|exact Hb].
  - inversion H as [Hx]; subst r. right; exists s; split; [left; reflexivity|exact Hb].
Qed.

Lemma lookup_src_in : forall k ver srcs r, lookup_src k ver srcs = Some r ->
  exists s, In s srcs /\ In r s /\ r_key r = k /\ r_ver r <= ver.
Proof.
  intros k ver srcs r H. apply lookup_acc_in in H. destruct H as [H|H]; [discriminate|exact H].
Qed.

Lemma gc_scan_spec : forall s b f vrs i0 vr, In vr (gc_scan s b f i0 vrs) ->
  exists j, nth_error vrs j = Some vr /\ gc_live s b f (i0 + N.of_nat j) vr = true.
Proof.
  induction vrs as [|x vrs IH]; intros i0 vr H; [destruct H|].
  cbn [gc_scan] in H. apply in_app_or in H. destruct H as [H|H].
  - destruct (gc_live s b f i0 x) eqn:E; [|destruct H]. destruct H as [H|[]]; subst x.
    exists 0%nat. split; [reflexivity|]. rewrite N.add_0_r. exact E.
  - apply IH in H. destruct H as [j [Hn Hl]]. exists (S j). split; [exact Hn|].
    replace (i0 + N.of_nat (S j)) with (i0 + 1 + N.of_nat j) by lia. exact Hl.
Qed.

(** every record GC writes back is the target of the value pointer of a record of the store
    that is not a tombstone and carries the same key: bytes that no logged record refers to
    (the leftovers of a request that crashed between its value-log write and the WAL) are
    never written back *)
Theorem gc_writes_back_referenced : forall s b f vrs vr,
  fget pair_eqb (b, f) (s_vlog s) = Some vrs ->
  In vr (gc_scan s b f 0 vrs) ->
  exists src r j,
    In src (s_src s) /\ In r src /\ r_key r = v_key vr /\ r_ver r <= v_ver vr /\ r_del r = false /\
    r_ptr r = Some {| p_b := b; p_f := f; p_slot := N.of_nat j |} /\ nth_error vrs j = Some vr.
Proof.
  intros s b f vrs vr Hf Hin. apply gc_scan_spec in Hin. destruct Hin as [j [Hn Hl]].
  unfold gc_live in Hl. destruct (lookup_src (v_key vr) (v_ver vr) (s_src s)) as [r|] eqn:El; [|discriminate].
  apply andb_true_iff in Hl. destruct Hl as [Hd Hp].
  destruct (r_ptr r) as [p|] eqn:Ep; [|discriminate].
  apply andb_true_iff in Hp. destruct Hp as [Hp Hs]. apply andb_true_iff in Hp. destruct Hp as [Hb Hff].
  apply N.eqb_eq in Hb, Hff, Hs. rewrite N.add_0_l in Hs.
  apply lookup_src_in in El. destruct El as [src [Hsrc [Hr [Hk Hv]]]].
  assert (Epp : r_ptr r = Some {| p_b := b; p_f := f; p_slot := N.of_nat j |}).
  { rewrite Ep. destruct p as [pb pf ps]; cbn in *; subst; reflexivity. }
  exists src, r, j. repeat split; try assumption.
  destruct (r_del r); [discriminate|reflexivity].
Qed.

(** a GC that writes nothing back only deletes the file *)
Lemma gc_file_sources : forall s b f vrs,
  fget pair_eqb (b, f) (s_vlog s) = Some vrs -> gc_scan s b f 0 vrs = [] ->
  s_src (gc_file s b f) = s_src s.
Proof. intros s b f vrs Hf Hg. unfold gc_file. rewrite Hf, Hg. reflexivity. Qed.

(** C37: operations and Close always finish — deadlock freedom, a ranking
    function, and the fate of calls issued after Close, over [Model.CommitQueue]. *)
From Coq Require Import List NArith Bool Lia ZifyN ZifyNat ZifyBool PeanoNat.
Local Open Scope N_scope.
From NoKV Require Import Base.Bytes Base.Sched Spec.SerialSpec Spec.Linearizable Model.CommitQueue
                         Proofs.CommitQueueProofs Proofs.CommitQueueLin.
Import ListNotations.

(** * Reachable-state invariant *)
Definition is_set (o : cop) : Prop := match o with CSet _ _ _ _ => True | CGet _ => False end.

Record Inv37 (g : gstate) : Prop := {
  q_34 : Inv34 g;
  q_wdone : g_wdone g = true -> closed_b (g_close g) = true /\ g_pipe g = [];
  q_waited : (g_close g = ClWaited \/ g_close g = ClDone) -> g_wdone g = true;
  q_wait : forall t o call, c_pc (g_clients g t) = PWait o call -> In t (map r_tid (reqs g));
  q_send : forall t o call, c_pc (g_clients g t) = PSend o call -> is_set o }.

Lemma set_client_pc_other f t c j : j <> t -> set_client f t c j = f j.
Proof. intro H. unfold set_client. apply N.eqb_neq in H. now rewrite H. Qed.
Lemma set_client_pc_self f t c : set_client f t c t = c.
Proof. unfold set_client. now rewrite N.eqb_refl. Qed.

Lemma inv37_init cap bmax progs : Inv37 (g_init cap bmax progs).
Proof.
  constructor; cbn; try (intros; discriminate).
  - apply inv34_init.
  - intros [H|H]; discriminate.
Qed.

Lemma closed_mono g t g' : tstep g t = Some g' -> closed_b (g_close g) = true -> closed_b (g_close g') = true.
Proof.
  unfold tstep. destruct (t =? 0).
  { unfold worker_step. destruct (g_wdone g); [discriminate|].
    destruct (split_stage Batched (g_pipe g)) as [[[a r] b]|]; [intro H; inversion H; subst; cbn; auto|].
    destruct (split_stage Applied (g_pipe g)) as [[[a r] b]|]; [intro H; inversion H; subst; cbn; auto|].
    destruct (existsb _ _); [intro H; inversion H; subst; cbn; auto|].
    destruct (closed_b (g_close g)) eqn:Ec; [|discriminate]. intro H; inversion H; subst; cbn; auto. }
  destruct (t =? 1). { unfold env_step. destruct (g_close g); intro H; inversion H; subst; cbn; auto. }
  destruct (t =? 2).
  { unfold closer_step. destruct (g_close g); try destruct (g_wdone g); intro H; inversion H; subst; cbn; auto. }
  unfold client_step, fail_write. destruct (c_pc (g_clients g t)) as [|o call|o call|o call|o call r].
  - destruct (c_prog _); [discriminate|]. intro H; inversion H; subst; cbn; auto.
  - destruct o as [k v hot big|k]; [destruct hot|]; intro H; inversion H; subst; cbn; auto.
  - destruct o as [k v hot big|k]; [|discriminate].
    destruct (g_blocked g); [destruct (closed_b (g_close g)) eqn:Ec; [|discriminate]; intro H; inversion H; subst; cbn; auto|].
    destruct big; [intro H; inversion H; subst; cbn; auto|].
    destruct (closed_b (g_close g)) eqn:Ec; [intro H; inversion H; subst; cbn; auto|].
    destruct (Nat.leb _ _); [discriminate|]. intro H; inversion H; subst; cbn; intros; discriminate.
  - discriminate.
  - intro H; inversion H; subst; cbn; auto.
Qed.

Lemma pipe_nonempty_work (p : list (req * stage)) :
  p <> [] -> split_stage Batched p = None -> split_stage Applied p = None ->
  existsb (is_stage Queued) p = true.
Proof.
  destruct p as [|[r s] p]; [congruence|]. intros _ H1 H2. destruct s; cbn in *; try discriminate. reflexivity.
Qed.

Theorem tstep_inv37 g t g' : Inv37 g -> tstep g t = Some g' -> Inv37 g'.
Proof.
  intros HI Hs. pose proof (tstep_inv34 g t g' (q_34 g HI) Hs) as H34.
  revert Hs. unfold tstep. destruct (t =? 0).
  { unfold worker_step. destruct (g_wdone g) eqn:Ew; [discriminate|].
    assert (Hnw : (g_close g = ClWaited \/ g_close g = ClDone) -> false = true).
    { intro Hc. rewrite (q_waited g HI Hc) in Ew. discriminate. }
    destruct (split_stage Batched (g_pipe g)) as [[[a r] b]|] eqn:E1.
    { intro H; inversion H; subst; clear H. apply split_stage_spec in E1.
      constructor; cbn [tick g_wdone g_close g_pipe g_clients]; auto.
      - rewrite Ew. discriminate.
      - rewrite Ew. exact Hnw.
      - intros t0 o call Hpc. pose proof (q_wait g HI t0 o call Hpc) as Hin. unfold reqs in *. cbn [tick g_pipe].
        rewrite E1 in Hin. rewrite !map_app in *. exact Hin.
      - apply (q_send g HI). }
    destruct (split_stage Applied (g_pipe g)) as [[[a r] b]|] eqn:E2.
    { intro H; inversion H; subst; clear H. apply split_stage_spec in E2.
      assert (Hq : reqs g = map fst a ++ r :: map fst b) by (unfold reqs; rewrite E2, map_app; reflexivity).
      assert (Hr : In r (reqs g)) by (rewrite Hq; apply in_or_app; right; now left).
      destruct (v_reqs g (q_34 g HI) r Hr) as [o Ho]. rewrite Ho.
      constructor; cbn [tick g_wdone g_close g_pipe g_clients]; auto.
      - rewrite Ho in H34. exact H34.
      - rewrite Ew. discriminate.
      - rewrite Ew. exact Hnw.
      - intros t0 o0 call Hpc. unfold set_pc in Hpc.
        destruct (N.eq_dec t0 (r_tid r)) as [->|Hne]; [rewrite set_client_pc_self in Hpc; discriminate|].
        rewrite set_client_pc_other in Hpc by exact Hne.
        pose proof (q_wait g HI t0 o0 call Hpc) as Hin. unfold reqs in *. cbn [tick g_pipe].
        rewrite E2 in Hin. rewrite !map_app in *. cbn [map fst] in Hin.
        apply in_app_or in Hin as [Hin|[Hin|Hin]]; [apply in_or_app; now left | congruence | apply in_or_app; now right].
      - intros t0 o0 call Hpc. unfold set_pc in Hpc.
        destruct (N.eq_dec t0 (r_tid r)) as [->|Hne]; [rewrite set_client_pc_self in Hpc; discriminate|].
        rewrite set_client_pc_other in Hpc by exact Hne. now apply (q_send g HI t0 o0 call). }
    destruct (existsb (is_stage Queued) (g_pipe g)) eqn:E3.
    { intro H; inversion H; subst; clear H.
      constructor; cbn [tick g_wdone g_close g_pipe g_clients]; auto.
      - rewrite Ew. discriminate.
      - rewrite Ew. exact Hnw.
      - intros t0 o call Hpc. unfold reqs. cbn [tick g_pipe]. rewrite pop_batch_reqs. now apply (q_wait g HI t0 o call).
      - apply (q_send g HI). }
    destruct (closed_b (g_close g)) eqn:Ec; [|discriminate].
    intro H; inversion H; subst; clear H.
    constructor; cbn [g_wdone g_close g_pipe g_clients]; auto.
    - intros _. split; [exact Ec|].
      destruct (g_pipe g) as [|x p] eqn:Ep; [reflexivity|]. exfalso.
      assert (Hne : x :: p <> []) by discriminate.
      rewrite (pipe_nonempty_work (x :: p) Hne E1 E2) in E3. discriminate.
    - apply (q_wait g HI).
    - apply (q_send g HI). }
  destruct (t =? 1).
  { unfold env_step. destruct (g_close g) eqn:Ec; intro H; inversion H; subst; clear H;
      (constructor; cbn [set_flags g_wdone g_close g_pipe g_clients]; auto;
       [intro Hw; destruct (q_wdone g HI Hw) as [A B]; rewrite Ec in A; auto
       | intro Hc; apply (q_waited g HI); rewrite Ec; exact Hc
       | apply (q_wait g HI) | apply (q_send g HI)]). }
  destruct (t =? 2).
  { unfold closer_step. destruct (g_close g) eqn:Ec.
    - intro H; inversion H; subst; clear H.
      constructor; cbn [set_flags g_wdone g_close g_pipe g_clients closed_b]; auto.
      + intro Hw. destruct (q_wdone g HI Hw) as [Hc _]. rewrite Ec in Hc. discriminate.
      + intros [Hc|Hc]; discriminate.
      + apply (q_wait g HI).
      + apply (q_send g HI).
    - destruct (g_wdone g) eqn:Ew; [|discriminate]. intro H; inversion H; subst; clear H.
      constructor; cbn [set_flags g_wdone g_close g_pipe g_clients closed_b]; auto.
      + intros _. split; [reflexivity | apply (q_wdone g HI Ew)].
      + apply (q_wait g HI).
      + apply (q_send g HI).
    - intro H; inversion H; subst; clear H.
      constructor; cbn [set_flags g_wdone g_close g_pipe g_clients closed_b]; auto.
      + intros Hw. split; [reflexivity | apply (q_wdone g HI Hw)].
      + intros _. apply (q_waited g HI). left. exact Ec.
      + apply (q_wait g HI).
      + apply (q_send g HI).
    - discriminate. }
  (* clients *)
  assert (Hw1 : forall cl pipe' mem' lin', g_wdone g = true -> closed_b (g_close g) = true /\ g_pipe g = [] ->
                  pipe' = g_pipe g -> closed_b (g_close (tick g mem' pipe' cl lin')) = true /\ g_pipe (tick g mem' pipe' cl lin') = []).
  { intros cl pipe' mem' lin' _ [H1 H2] ->. cbn. auto. }
  unfold client_step, fail_write. destruct (c_pc (g_clients g t)) as [|o call|o call|o call|o call r] eqn:Epc.
  - destruct (c_prog (g_clients g t)) as [|o rest]; [discriminate|]. intro H; inversion H; subst; clear H.
    constructor; cbn [tick g_wdone g_close g_pipe g_clients]; auto; try apply (q_wdone g HI); try apply (q_waited g HI).
    + intros t0 o0 call Hpc. unfold set_pc in Hpc. destruct (N.eq_dec t0 t) as [->|Hne];
        [rewrite set_client_pc_self in Hpc; discriminate | rewrite set_client_pc_other in Hpc by exact Hne].
      now apply (q_wait g HI t0 o0 call).
    + intros t0 o0 call Hpc. unfold set_pc in Hpc. destruct (N.eq_dec t0 t) as [->|Hne];
        [rewrite set_client_pc_self in Hpc; discriminate | rewrite set_client_pc_other in Hpc by exact Hne].
      now apply (q_send g HI t0 o0 call).
  - assert (Hgen : forall pc' lin', (forall o0 c0, pc' <> PWait o0 c0) -> (forall o0 c0, pc' = PSend o0 c0 -> is_set o0) ->
                     Inv34 (tick g (g_mem g) (g_pipe g) (set_pc g t (c_prog (g_clients g t)) pc') lin') ->
                     Inv37 (tick g (g_mem g) (g_pipe g) (set_pc g t (c_prog (g_clients g t)) pc') lin')).
    { intros pc' lin' Hnw Hset Hi. constructor; cbn [tick g_wdone g_close g_pipe g_clients]; auto;
        try apply (q_wdone g HI); try apply (q_waited g HI).
      + intros t0 o0 c0 Hpc. unfold set_pc in Hpc. destruct (N.eq_dec t0 t) as [->|Hne].
        * rewrite set_client_pc_self in Hpc. cbn in Hpc. exfalso. exact (Hnw _ _ Hpc).
        * rewrite set_client_pc_other in Hpc by exact Hne. now apply (q_wait g HI t0 o0 c0).
      + intros t0 o0 c0 Hpc. unfold set_pc in Hpc. destruct (N.eq_dec t0 t) as [->|Hne].
        * rewrite set_client_pc_self in Hpc. cbn in Hpc. now apply (Hset o0 c0).
        * rewrite set_client_pc_other in Hpc by exact Hne. now apply (q_send g HI t0 o0 c0). }
    destruct o as [k v hot big|k]; [destruct hot|]; intro H; inversion H; subst; clear H; apply Hgen; auto;
      try discriminate; try (intros o0 c0 E; inversion E; subst; exact I).
  - pose proof (q_send g HI t o call Epc) as Hset. destruct o as [k v hot big|k]; [|contradiction].
    assert (Hgen : forall pc' lin', (forall o0 c0, pc' <> PWait o0 c0) -> (forall o0 c0, pc' <> PSend o0 c0) ->
                     Inv34 (tick g (g_mem g) (g_pipe g) (set_pc g t (c_prog (g_clients g t)) pc') lin') ->
                     Inv37 (tick g (g_mem g) (g_pipe g) (set_pc g t (c_prog (g_clients g t)) pc') lin')).
    { intros pc' lin' Hnw Hns Hi. constructor; cbn [tick g_wdone g_close g_pipe g_clients]; auto;
        try apply (q_wdone g HI); try apply (q_waited g HI).
      + intros t0 o0 c0 Hpc. unfold set_pc in Hpc. destruct (N.eq_dec t0 t) as [->|Hne].
        * rewrite set_client_pc_self in Hpc. cbn in Hpc. exfalso. exact (Hnw _ _ Hpc).
        * rewrite set_client_pc_other in Hpc by exact Hne. now apply (q_wait g HI t0 o0 c0).
      + intros t0 o0 c0 Hpc. unfold set_pc in Hpc. destruct (N.eq_dec t0 t) as [->|Hne].
        * rewrite set_client_pc_self in Hpc. cbn in Hpc. exfalso. exact (Hns _ _ Hpc).
        * rewrite set_client_pc_other in Hpc by exact Hne. now apply (q_send g HI t0 o0 c0). }
    destruct (g_blocked g).
    { destruct (closed_b (g_close g)); [|discriminate]. intro H; inversion H; subst; clear H. apply Hgen; auto; discriminate. }
    destruct big; [intro H; inversion H; subst; clear H; apply Hgen; auto; discriminate|].
    destruct (closed_b (g_close g)) eqn:Ec; [intro H; inversion H; subst; clear H; apply Hgen; auto; discriminate|].
    destruct (Nat.leb _ _); [discriminate|]. intro H; inversion H; subst; clear H.
    constructor; cbn [tick g_wdone g_close g_pipe g_clients]; auto.
    + intro Hw. destruct (q_wdone g HI Hw) as [Hc _]. rewrite Hc in Ec. discriminate.
    + apply (q_waited g HI).
    + intros t0 o0 c0 Hpc. unfold reqs. cbn [tick g_pipe]. rewrite !map_app. cbn [map fst r_tid]. apply in_or_app.
      unfold set_pc in Hpc. destruct (N.eq_dec t0 t) as [->|Hne]; [right; now left|].
      rewrite set_client_pc_other in Hpc by exact Hne. left. now apply (q_wait g HI t0 o0 c0).
    + intros t0 o0 c0 Hpc. unfold set_pc in Hpc. destruct (N.eq_dec t0 t) as [->|Hne];
        [rewrite set_client_pc_self in Hpc; discriminate | rewrite set_client_pc_other in Hpc by exact Hne].
      now apply (q_send g HI t0 o0 c0).
  - discriminate.
  - intro H; inversion H; subst; clear H.
    constructor; cbn [tick g_wdone g_close g_pipe g_clients]; auto; try apply (q_wdone g HI); try apply (q_waited g HI).
    + intros t0 o0 c0 Hpc. unfold set_pc in Hpc. destruct (N.eq_dec t0 t) as [->|Hne];
        [rewrite set_client_pc_self in Hpc; discriminate | rewrite set_client_pc_other in Hpc by exact Hne].
      now apply (q_wait g HI t0 o0 c0).
    + intros t0 o0 c0 Hpc. unfold set_pc in Hpc. destruct (N.eq_dec t0 t) as [->|Hne];
        [rewrite set_client_pc_self in Hpc; discriminate | rewrite set_client_pc_other in Hpc by exact Hne].
      now apply (q_send g HI t0 o0 c0).
Qed.

Theorem reachable_inv37 cap bmax progs g : reachable tstep (g_init cap bmax progs) g -> Inv37 g.
Proof. apply (inv_reachable tstep Inv37); [apply inv37_init | intros; eapply tstep_inv37; eauto]. Qed.

(** * Deadlock freedom *)
Lemma worker_enabled g :
  g_wdone g = false -> (g_pipe g <> [] \/ closed_b (g_close g) = true) -> worker_step g <> None.
Proof.
  intros Hw Hc. unfold worker_step. rewrite Hw.
  destruct (split_stage Batched (g_pipe g)) as [[[a r] b]|] eqn:E1; [discriminate|].
  destruct (split_stage Applied (g_pipe g)) as [[[a r] b]|] eqn:E2; [discriminate|].
  destruct (existsb (is_stage Queued) (g_pipe g)) eqn:E3; [discriminate|].
  destruct Hc as [Hne|Hc]; [rewrite (pipe_nonempty_work _ Hne E1 E2) in E3; discriminate|].
  rewrite Hc. discriminate.
Qed.

Definition finished (c : client) : Prop := c_pc c = PIdle /\ c_prog c = [].
Definition waits_for_worker (g : gstate) (c : client) : Prop :=
  (exists o call, c_pc c = PWait o call) \/
  (exists o call, c_pc c = PSend o call /\ (g_cap g <= length (filter (is_stage Queued) (g_pipe g)))%nat).
Definition waits_for_throttle (g : gstate) (c : client) : Prop :=
  (exists o call, c_pc c = PSend o call) /\ g_blocked g = true /\ closed_b (g_close g) = false.

(** In every reachable state every client is finished, or can take a step
    itself, or waits for the commit worker which can take a step, or waits
    (by design) for the L0 throttle to be released; and a Close waiting for
    the worker is never stuck. *)
Theorem no_stuck_state cap bmax progs g :
  (1 <= cap)%nat ->
  reachable tstep (g_init cap bmax progs) g ->
  (forall t, 3 <= t ->
     let c := g_clients g t in
     finished c \/ tstep g t <> None \/ (waits_for_worker g c /\ tstep g 0 <> None) \/ waits_for_throttle g c) /\
  (g_close g = ClClosed -> tstep g 2 <> None \/ tstep g 0 <> None) /\
  (g_close g = ClNot \/ g_close g = ClWaited -> tstep g 2 <> None).
Proof.
  intros Hcap Hr. pose proof (reachable_inv37 cap bmax progs g Hr) as HI.
  assert (Hcapg : g_cap g = cap).
  { clear HI. induction Hr as [|g1 t1 g2 _ IH Hs]; [reflexivity|]. rewrite <- IH. clear IH.
    revert Hs. unfold tstep. destruct (t1 =? 0).
    { unfold worker_step. destruct (g_wdone g1); [discriminate|].
      destruct (split_stage Batched _) as [[[a r] b]|]; [intro H; inversion H; reflexivity|].
      destruct (split_stage Applied _) as [[[a r] b]|]; [intro H; inversion H; reflexivity|].
      destruct (existsb _ _); [intro H; inversion H; reflexivity|].
      destruct (closed_b _); [|discriminate]. intro H; inversion H; reflexivity. }
    destruct (t1 =? 1). { unfold env_step. destruct (g_close g1); intro H; inversion H; reflexivity. }
    destruct (t1 =? 2).
    { unfold closer_step. destruct (g_close g1); try destruct (g_wdone g1); intro H; inversion H; reflexivity. }
    unfold client_step, fail_write. destruct (c_pc (g_clients g1 t1)) as [|o call|o call|o call|o call r].
    - destruct (c_prog _); [discriminate|]. intro H; inversion H; reflexivity.
    - destruct o as [k v hot big|k]; [destruct hot|]; intro H; inversion H; reflexivity.
    - destruct o as [k v hot big|k]; [|discriminate].
      destruct (g_blocked g1); [destruct (closed_b _); [|discriminate]; intro H; inversion H; reflexivity|].
      destruct big; [intro H; inversion H; reflexivity|].
      destruct (closed_b _); [intro H; inversion H; reflexivity|].
      destruct (Nat.leb _ _); [discriminate|]. intro H; inversion H; reflexivity.
    - discriminate.
    - intro H; inversion H; reflexivity. }
  assert (Hworker : g_pipe g <> [] -> tstep g 0 <> None).
  { intros Hne. change (tstep g 0) with (worker_step g). apply worker_enabled; [|now left].
    destruct (g_wdone g) eqn:Ew; [|reflexivity]. destruct (q_wdone g HI Ew) as [_ Hp]. congruence. }
  split; [|split].
  - intros t Ht c.
    assert (Hts : tstep g t = client_step g t).
    { unfold tstep. replace (t =? 0) with false by (symmetry; apply N.eqb_neq; lia).
      replace (t =? 1) with false by (symmetry; apply N.eqb_neq; lia).
      replace (t =? 2) with false by (symmetry; apply N.eqb_neq; lia). reflexivity. }
    rewrite Hts. unfold client_step. fold c. destruct (c_pc c) as [|o call|o call|o call|o call r] eqn:Epc.
    + destruct (c_prog c) eqn:Ep; [left; split; auto | right; left; discriminate].
    + right; left. destruct o as [k v hot big|k]; [destruct hot|]; discriminate.
    + pose proof (q_send g HI t o call Epc) as Hset. destruct o as [k v hot big|k]; [|contradiction].
      destruct (g_blocked g) eqn:Eb.
      { destruct (closed_b (g_close g)) eqn:Ec; [right; left; discriminate|].
        right; right; right. split; [exists (CSet k v hot big), call; exact Epc | auto]. }
      destruct big; [right; left; discriminate|].
      destruct (closed_b (g_close g)); [right; left; discriminate|].
      destruct (Nat.leb (g_cap g) (length (filter (is_stage Queued) (g_pipe g)))) eqn:El; [|right; left; discriminate].
      right; right; left. apply Nat.leb_le in El. split.
      * right. eexists. eexists. split; [exact Epc | exact El].
      * apply Hworker. intro Hp. rewrite Hp in El. cbn in El. lia.
    + right; right; left. split; [left; exists o, call; exact Epc|].
      apply Hworker. pose proof (q_wait g HI t o call Epc) as Hin. unfold reqs in Hin. intro Hp. rewrite Hp in Hin. exact Hin.
    + right; left. discriminate.
  - intros Hc. change (tstep g 2) with (closer_step g). change (tstep g 0) with (worker_step g).
    unfold closer_step. rewrite Hc. destruct (g_wdone g) eqn:Ew; [left; discriminate|].
    right. apply worker_enabled; [exact Ew | right; now rewrite Hc].
  - intros [Hc|Hc]; change (tstep g 2) with (closer_step g); unfold closer_step; rewrite Hc; discriminate.
Qed.

(** * Ranking function *)
Definition pc_rank (pc : cpc) : nat :=
  match pc with PIdle => 0 | PStart _ _ => 3 | PSend _ _ => 2 | PWait _ _ => 1 | PLin _ _ _ => 1 end.
Definition client_rank (c : client) : nat := 4 * length (c_prog c) + pc_rank (c_pc c).
Definition stage_rank (p : req * stage) : nat := match snd p with Queued => 3 | Batched => 2 | Applied => 1 end.
Definition pipe_rank (p : list (req * stage)) : nat := list_sum (map stage_rank p).
Definition close_rank (c : closepc) : nat :=
  match c with ClNot => 3 | ClClosed => 2 | ClWaited => 1 | ClDone => 0 end.
Definition sum_ranks (cl : N -> client) (cids : list N) : nat := list_sum (map (fun t => client_rank (cl t)) cids).

Definition rank (cids : list N) (g : gstate) : nat :=
  sum_ranks (g_clients g) cids + pipe_rank (g_pipe g) + close_rank (g_close g) + (if g_wdone g then 0 else 1).

Lemma pipe_rank_app a b : pipe_rank (a ++ b) = (pipe_rank a + pipe_rank b)%nat.
Proof. unfold pipe_rank. now rewrite map_app, list_sum_app. Qed.

Lemma pipe_rank_cons x p : pipe_rank (x :: p) = (stage_rank x + pipe_rank p)%nat.
Proof. reflexivity. Qed.

Lemma pop_batch_rank n p :
  (1 <= n)%nat -> existsb (is_stage Queued) p = true -> (pipe_rank (pop_batch n p) < pipe_rank p)%nat.
Proof.
  intros Hn. assert (Hle : forall m q, (pipe_rank (pop_batch m q) <= pipe_rank q)%nat).
  { intros m q; revert m; induction q as [|[r s] q IH]; intros m; destruct m; cbn [pop_batch]; try lia.
    pose proof (IH m) as I1. pose proof (IH (S m)) as I2.
    destruct s; unfold pipe_rank, list_sum in *; cbn [map fold_right stage_rank snd] in *; lia. }
  revert n Hn; induction p as [|[r s] p IH]; intros n Hn He; [discriminate|].
  destruct n as [|n]; [lia|]. cbn [pop_batch]. destruct s.
  - specialize (Hle n p). unfold pipe_rank, list_sum in *. cbn [map fold_right stage_rank snd]. lia.
  - cbn in He. specialize (IH (S n) Hn He). unfold pipe_rank, list_sum in *. cbn [map fold_right stage_rank snd]. lia.
  - cbn in He. specialize (IH (S n) Hn He). unfold pipe_rank, list_sum in *. cbn [map fold_right stage_rank snd]. lia.
Qed.

Lemma sum_ranks_ext cl cl' cids :
  (forall t, client_rank (cl' t) = client_rank (cl t)) -> sum_ranks cl' cids = sum_ranks cl cids.
Proof. intros H. unfold sum_ranks. f_equal. apply map_ext. intros t. apply H. Qed.

Lemma sum_ranks_update cl t c' cids :
  NoDup cids -> In t cids -> (client_rank c' < client_rank (cl t))%nat ->
  (sum_ranks (set_client cl t c') cids < sum_ranks cl cids)%nat.
Proof.
  intros Hnd Hin Hlt. induction cids as [|x cids IH]; [contradiction|].
  inversion Hnd as [|x0 l0 Hx Hnd']; subst. unfold sum_ranks, list_sum in *. cbn [map fold_right].
  destruct Hin as [->|Hin].
  - rewrite set_client_pc_self.
    assert (E : map (fun t0 => client_rank (set_client cl t c' t0)) cids = map (fun t0 => client_rank (cl t0)) cids).
    { apply map_ext_in. intros y Hy. rewrite set_client_pc_other; [reflexivity|]. intros ->. contradiction. }
    rewrite E. lia.
  - specialize (IH Hnd' Hin). rewrite set_client_pc_other by (intros ->; contradiction). lia.
Qed.

(** the system after Close began, without the throttle thread *)
Definition tstep_c (cids : list N) (g : gstate) (t : N) : option gstate :=
  if t =? 1 then None
  else if negb (closed_b (g_close g)) then None
  else if (t =? 0) || (t =? 2) || existsb (N.eqb t) cids then tstep g t else None.

Theorem rank_decreases cids g t g' :
  NoDup cids -> (forall x, In x cids -> 3 <= x) -> (1 <= g_bmax g)%nat ->
  tstep_c cids g t = Some g' -> (rank cids g' < rank cids g)%nat.
Proof.
  intros Hnd Hge Hb. unfold tstep_c. destruct (t =? 1) eqn:E1; [discriminate|].
  destruct (closed_b (g_close g)) eqn:Ec; cbn [negb]; [|discriminate].
  destruct ((t =? 0) || (t =? 2) || existsb (N.eqb t) cids) eqn:Et; [|discriminate].
  unfold tstep. destruct (t =? 0) eqn:E0.
  { unfold worker_step. destruct (g_wdone g) eqn:Ew; [discriminate|].
    destruct (split_stage Batched (g_pipe g)) as [[[a r] b]|] eqn:S1.
    { intro H; inversion H; subst; clear H. apply split_stage_spec in S1. unfold rank. cbn [tick g_clients g_pipe g_close g_wdone].
      rewrite S1, Ew, !pipe_rank_app, !pipe_rank_cons. cbn [stage_rank snd]. lia. }
    destruct (split_stage Applied (g_pipe g)) as [[[a r] b]|] eqn:S2.
    { intro H; inversion H; subst; clear H. apply split_stage_spec in S2. unfold rank. cbn [tick g_clients g_pipe g_close g_wdone].
      rewrite S2, Ew, !pipe_rank_app, !pipe_rank_cons. cbn [stage_rank snd].
      assert (E : sum_ranks (match c_pc (g_clients g (r_tid r)) with
                             | PWait o call => set_pc g (r_tid r) (c_prog (g_clients g (r_tid r))) (PLin o call ROk)
                             | _ => g_clients g end) cids = sum_ranks (g_clients g) cids).
      { apply sum_ranks_ext. intros x. destruct (c_pc (g_clients g (r_tid r))) eqn:Epc; try reflexivity.
        unfold set_pc. destruct (N.eq_dec x (r_tid r)) as [->|Hne].
        - rewrite set_client_pc_self. unfold client_rank. cbn. rewrite Epc. reflexivity.
        - now rewrite set_client_pc_other. }
      rewrite E. lia. }
    destruct (existsb (is_stage Queued) (g_pipe g)) eqn:S3.
    { intro H; inversion H; subst; clear H. unfold rank. cbn [tick g_clients g_pipe g_close g_wdone].
      pose proof (pop_batch_rank (g_bmax g) (g_pipe g) Hb S3). lia. }
    rewrite Ec. intro H; inversion H; subst; clear H. unfold rank. cbn [g_clients g_pipe g_close g_wdone]. rewrite Ew. lia. }
  rewrite E1. destruct (t =? 2) eqn:E2.
  { unfold closer_step. destruct (g_close g) eqn:Eg; try discriminate.
    - destruct (g_wdone g); [|discriminate]. intro H; inversion H; subst; clear H. unfold rank. cbn [set_flags g_clients g_pipe g_close g_wdone]. rewrite Eg. cbn [close_rank]. lia.
    - intro H; inversion H; subst; clear H. unfold rank. cbn [set_flags g_clients g_pipe g_close g_wdone]. rewrite Eg. cbn [close_rank]. lia. }
  cbn [orb] in Et. apply existsb_exists in Et as [x [Hx Ex]]. apply N.eqb_eq in Ex. subst x.
  unfold client_step, fail_write.
  assert (Hupd : forall prog pc mem pipe lin,
             pipe = g_pipe g ->
             (client_rank {| c_prog := prog; c_pc := pc |} < client_rank (g_clients g t))%nat ->
             (rank cids (tick g mem pipe (set_pc g t prog pc) lin) < rank cids g)%nat).
  { intros prog pc mem pipe lin -> Hlt. unfold rank. cbn [tick g_clients g_pipe g_close g_wdone]. unfold set_pc.
    pose proof (sum_ranks_update (g_clients g) t {| c_prog := prog; c_pc := pc |} cids Hnd Hx Hlt). lia. }
  destruct (c_pc (g_clients g t)) as [|o call|o call|o call|o call r] eqn:Epc.
  - destruct (c_prog (g_clients g t)) as [|o rest] eqn:Ep; [discriminate|]. intro H; inversion H; subst; clear H.
    apply Hupd; [reflexivity|]. unfold client_rank. rewrite Epc, Ep. cbn. lia.
  - destruct o as [k v hot big|k]; [destruct hot|]; intro H; inversion H; subst; clear H;
      (apply Hupd; [reflexivity|]; unfold client_rank; rewrite Epc; cbn; lia).
  - destruct o as [k v hot big|k]; [|discriminate].
    destruct (g_blocked g).
    { rewrite Ec. intro H; inversion H; subst; clear H. apply Hupd; [reflexivity|]. unfold client_rank; rewrite Epc; cbn; lia. }
    destruct big; [intro H; inversion H; subst; clear H; apply Hupd; [reflexivity|]; unfold client_rank; rewrite Epc; cbn; lia|].
    rewrite Ec. intro H; inversion H; subst; clear H. apply Hupd; [reflexivity|]. unfold client_rank; rewrite Epc; cbn; lia.
  - discriminate.
  - intro H; inversion H; subst; clear H. apply Hupd; [reflexivity|]. unfold client_rank; rewrite Epc; cbn; lia.
Qed.

Lemma bmax_const cids g t g' : tstep_c cids g t = Some g' -> g_bmax g' = g_bmax g.
Proof.
  unfold tstep_c. destruct (t =? 1); [discriminate|]. destruct (negb _); [discriminate|]. destruct (_ || _); [|discriminate].
  unfold tstep. destruct (t =? 0).
  { unfold worker_step. destruct (g_wdone g); [discriminate|].
    destruct (split_stage Batched _) as [[[a r] b]|]; [intro H; inversion H; reflexivity|].
    destruct (split_stage Applied _) as [[[a r] b]|]; [intro H; inversion H; reflexivity|].
    destruct (existsb _ _); [intro H; inversion H; reflexivity|].
    destruct (closed_b _); [|discriminate]. intro H; inversion H; reflexivity. }
  destruct (t =? 1). { unfold env_step. destruct (g_close g); intro H; inversion H; reflexivity. }
  destruct (t =? 2).
  { unfold closer_step. destruct (g_close g); try destruct (g_wdone g); intro H; inversion H; reflexivity. }
  unfold client_step, fail_write. destruct (c_pc (g_clients g t)) as [|o call|o call|o call|o call r].
  - destruct (c_prog _); [discriminate|]. intro H; inversion H; reflexivity.
  - destruct o as [k v hot big|k]; [destruct hot|]; intro H; inversion H; reflexivity.
  - destruct o as [k v hot big|k]; [|discriminate].
    destruct (g_blocked g); [destruct (closed_b _); [|discriminate]; intro H; inversion H; reflexivity|].
    destruct big; [intro H; inversion H; reflexivity|].
    destruct (closed_b _); [intro H; inversion H; reflexivity|].
    destruct (Nat.leb _ _); [discriminate|]. intro H; inversion H; reflexivity.
  - discriminate.
  - intro H; inversion H; reflexivity.
Qed.

(** Once Close has begun, every execution of the worker, the closing goroutine
    and the clients [cids] (the throttle left aside: its steps do not change
    the rank) has at most [rank] steps: with weak fairness every call returns
    and Close returns. *)
Theorem progress_after_close cids sched : forall g g',
  NoDup cids -> (forall x, In x cids -> 3 <= x) -> (1 <= g_bmax g)%nat ->
  exec (tstep_c cids) g sched = Some g' -> (length sched + rank cids g' <= rank cids g)%nat.
Proof.
  induction sched as [|t s IH]; intros g g' Hnd Hge Hb H; cbn in *.
  - inversion H; subst. lia.
  - destruct (tstep_c cids g t) as [g1|] eqn:E; [|discriminate].
    pose proof (rank_decreases cids g t g1 Hnd Hge Hb E) as Hd.
    pose proof (bmax_const cids g t g1 E) as Hbm.
    specialize (IH g1 g' Hnd Hge ltac:(lia) H). lia.
Qed.

Theorem throttle_keeps_rank cids g g' : tstep g 1 = Some g' -> rank cids g' = rank cids g.
Proof.
  change (tstep g 1) with (env_step g). unfold env_step. destruct (g_close g) eqn:Ec; intro H; inversion H; subst;
    unfold rank; cbn [set_flags g_clients g_pipe g_close g_wdone]; rewrite Ec; reflexivity.
Qed.

Theorem worker_decreases_rank cids g g' :
  (1 <= g_bmax g)%nat -> tstep g 0 = Some g' -> (rank cids g' < rank cids g)%nat.
Proof.
  intros Hb. change (tstep g 0) with (worker_step g). unfold worker_step. destruct (g_wdone g) eqn:Ew; [discriminate|].
  destruct (split_stage Batched (g_pipe g)) as [[[a r] b]|] eqn:S1.
  { intro H; inversion H; subst; clear H. apply split_stage_spec in S1. unfold rank. cbn [tick g_clients g_pipe g_close g_wdone].
    rewrite S1, Ew, !pipe_rank_app, !pipe_rank_cons. cbn [stage_rank snd]. lia. }
  destruct (split_stage Applied (g_pipe g)) as [[[a r] b]|] eqn:S2.
  { intro H; inversion H; subst; clear H. apply split_stage_spec in S2. unfold rank. cbn [tick g_clients g_pipe g_close g_wdone].
    rewrite S2, Ew, !pipe_rank_app, !pipe_rank_cons. cbn [stage_rank snd].
    assert (E : sum_ranks (match c_pc (g_clients g (r_tid r)) with
                           | PWait o call => set_pc g (r_tid r) (c_prog (g_clients g (r_tid r))) (PLin o call ROk)
                           | _ => g_clients g end) cids = sum_ranks (g_clients g) cids).
    { apply sum_ranks_ext. intros x. destruct (c_pc (g_clients g (r_tid r))) eqn:Epc; try reflexivity.
      unfold set_pc. destruct (N.eq_dec x (r_tid r)) as [->|Hne].
      - rewrite set_client_pc_self. unfold client_rank. cbn. rewrite Epc. reflexivity.
      - now rewrite set_client_pc_other. }
    rewrite E. lia. }
  destruct (existsb (is_stage Queued) (g_pipe g)) eqn:S3.
  { intro H; inversion H; subst; clear H. unfold rank. cbn [tick g_clients g_pipe g_close g_wdone].
    pose proof (pop_batch_rank (g_bmax g) (g_pipe g) Hb S3). lia. }
  destruct (closed_b (g_close g)); [|discriminate]. intro H; inversion H; subst; clear H. unfold rank. cbn [g_clients g_pipe g_close g_wdone]. rewrite Ew. lia.
Qed.

(** * Calls issued after Close *)
Theorem after_close g t :
  closed_b (g_close g) = true -> 3 <= t ->
  let c := g_clients g t in
  (forall k v hot big call, c_pc c = PStart (CSet k v hot big) call ->
     exists g', tstep g t = Some g' /\
       (c_pc (g_clients g' t) = PSend (CSet k v hot big) call \/
        c_pc (g_clients g' t) = PLin (CSet k v hot big) call (RFail WHot)) /\ g_mem g' = g_mem g) /\
  (forall k v hot big call, c_pc c = PSend (CSet k v hot big) call ->
     exists g' e, tstep g t = Some g' /\ c_pc (g_clients g' t) = PLin (CSet k v hot big) call (RFail e) /\
                  g_mem g' = g_mem g /\ g_pipe g' = g_pipe g) /\
  (forall o call r, c_pc c = PLin o call r -> exists g', tstep g t = Some g' /\ c_pc (g_clients g' t) = PIdle).
Proof.
  intros Hc Ht c.
  assert (Hts : tstep g t = client_step g t).
  { unfold tstep. replace (t =? 0) with false by (symmetry; apply N.eqb_neq; lia).
    replace (t =? 1) with false by (symmetry; apply N.eqb_neq; lia).
    replace (t =? 2) with false by (symmetry; apply N.eqb_neq; lia). reflexivity. }
  rewrite Hts. unfold client_step, fail_write. fold c. repeat split.
  - intros k v hot big call Epc. rewrite Epc. destruct hot; eexists; (split; [reflexivity|]); cbn [tick g_clients g_mem];
      unfold set_pc; rewrite set_client_pc_self; cbn; auto.
  - intros k v hot big call Epc. rewrite Epc, Hc.
    destruct (g_blocked g); [|destruct big]; eexists; eexists; (split; [reflexivity|]); cbn [tick g_clients g_mem g_pipe];
      unfold set_pc; rewrite set_client_pc_self; cbn; auto.
  - intros o call r Epc. rewrite Epc. eexists. split; [reflexivity|]. cbn [tick g_clients].
    unfold set_pc. rewrite set_client_pc_self. reflexivity.
Qed.

(** non-vacuity: a write enqueued before Close, Close started; afterwards the
    worker, the client and the closing goroutine run to completion within the
    rank (11 steps, rank 11: the bound is tight). *)
From Coq Require Import String.
Definition ex_progs (t : N) : list cop :=
  if t =? 3 then [CSet (unhex "6b"%string) (Some (unhex "01"%string)) false false; CSet (unhex "6b"%string) None false false] else [].
Definition ex_g1 : gstate := run tstep (g_init 4 2 ex_progs) [3; 3; 3; 2].

Example progress_example :
  closed_b (g_close ex_g1) = true /\ rank [3] ex_g1 = 11%nat /\
  exists g', exec (tstep_c [3]) ex_g1 [0; 0; 0; 0; 3; 3; 3; 3; 3; 2; 2] = Some g' /\
             g_close g' = ClDone /\ finished (g_clients g' 3) /\ rank [3] g' = 0%nat.
Proof.
  split; [reflexivity|]. split; [vm_compute; reflexivity|]. eexists. split; [vm_compute; reflexivity|].
  split; [reflexivity|]. split; [split; reflexivity | reflexivity].
Qed.

(** LSM.MaxVersion bounds every stored version, so the commit timestamp that
    Open seeds from it ([next_ts_after_open]) is larger than every version
    acknowledged before the close — for histories of the transactional API
    (no plain-API sentinel version 2^64-1). *)
From Coq Require Import String List Arith NArith Bool Lia.
From NoKV Require Import Base.Bytes Model.Lsm Spec.MvccSpec Proofs.LsmOrder Spec.LsmSpec
     Proofs.LsmRead Proofs.LsmGet Proofs.LsmMain Proofs.LsmInv Proofs.LsmWitness Proofs.LsmPreserve
     Proofs.LsmCompact Proofs.LsmChecked.
Import ListNotations.
Local Open Scope N_scope.

Lemma fold_max_mono (l : list N) : forall m, m <= fold_left N.max l m.
Proof. induction l as [|a l IH]; intro m; cbn [fold_left]; [lia|]. specialize (IH (N.max m a)). lia. Qed.

Lemma fold_max_in (l : list N) a : In a l -> forall m, a <= fold_left N.max l m.
Proof.
  induction l as [|b l IH]; intros Ha m; [contradiction|]. cbn [fold_left].
  destruct Ha as [->|Ha]; [|now apply IH]. pose proof (fold_max_mono l (N.max m a)). lia.
Qed.

Lemma fold_max_le (l : list N) b : (forall a, In a l -> a <= b) -> forall m, m <= b -> fold_left N.max l m <= b.
Proof.
  induction l as [|a l IH]; intros H m Hm; cbn [fold_left]; [exact Hm|].
  apply IH; [intros c Hc; apply H; now right|]. specialize (H a (or_introl eq_refl)). lia.
Qed.

Lemma recs_maxver_ge l x : In x l -> r_ver x <= recs_maxver l.
Proof.
  unfold recs_maxver. generalize 0. induction l as [|r l IH]; intros m Hx; [contradiction|].
  cbn [fold_left]. destruct Hx as [<-|Hx]; [|now apply IH].
  pose proof (fold_max_ge l (N.max m (r_ver r))). lia.
Qed.

Lemma recs_maxver_le l b : (forall x, In x l -> r_ver x <= b) -> recs_maxver l <= b.
Proof.
  unfold recs_maxver. assert (H0 : 0 <= b) by lia. revert H0. generalize 0.
  induction l as [|r l IH]; intros m Hm H; cbn [fold_left]; [exact Hm|].
  apply IH; [|intros x Hx; apply H; now right]. specialize (H r (or_introl eq_refl)). lia.
Qed.

Lemma t_maxver_eq t : t_maxver t = recs_maxver (t_recs t).
Proof. reflexivity. Qed.

(** The list of per-source maxima that [max_version] folds. *)
Definition source_maxima (s : state) : list N :=
  recs_maxver (st_mem s) :: map (fun m => recs_maxver (snd m)) (st_imms s)
  ++ map t_maxver (st_l0 s)
  ++ concat (map (fun lv => map t_maxver (lv_main lv) ++ map t_maxver (concat (lv_shards lv))) (st_lvls s)).

Lemma max_version_eq s : max_version s = fold_left N.max (source_maxima s) 0.
Proof. reflexivity. Qed.

Lemma contents_source s x :
  In x (contents s) -> exists l, In x l /\ In (recs_maxver l) (source_maxima s).
Proof.
  unfold contents, source_maxima. rewrite !in_app_iff. intros [H|[H|[H|H]]].
  - exists (st_mem s). split; [exact H | now left].
  - apply in_concat in H as (l & Hl & Hx). apply in_map_iff in Hl as (m & <- & Hm).
    exists (snd m). split; [exact Hx|]. right. apply in_or_app. left.
    apply in_map_iff. exists m. split; [reflexivity | exact Hm].
  - apply in_concat in H as (l & Hl & Hx). apply in_map_iff in Hl as (t & <- & Ht).
    exists (t_recs t). split; [exact Hx|]. right. apply in_or_app. right. apply in_or_app. left.
    apply in_map_iff. exists t. split; [reflexivity | exact Ht].
  - apply in_concat in H as (l & Hl & Hx). apply in_map_iff in Hl as (lv & <- & Hlv).
    unfold level_recs in Hx. apply in_app_or in Hx as [Hx|Hx];
      apply in_concat in Hx as (l' & Hl' & Hx); apply in_map_iff in Hl' as (t & <- & Ht);
      exists (t_recs t); (split; [exact Hx|]); right; apply in_or_app; right; apply in_or_app; right;
      apply in_concat; exists (map t_maxver (lv_main lv) ++ map t_maxver (concat (lv_shards lv)));
      (split; [apply in_map_iff; exists lv; split; [reflexivity | exact Hlv]|]); apply in_or_app.
    + right. apply in_map_iff. exists t. split; [reflexivity | exact Ht].
    + left. apply in_map_iff. exists t. split; [reflexivity | exact Ht].
Qed.

Lemma source_maxima_from s a :
  In a (source_maxima s) -> exists l, a = recs_maxver l /\ forall x, In x l -> In x (contents s).
Proof.
  unfold contents, source_maxima. cbn [In]. rewrite !in_app_iff. intros [<-|[H|[H|H]]].
  - exists (st_mem s). split; [reflexivity|]. intros x Hx. apply in_or_app. now left.
  - apply in_map_iff in H as (m & <- & Hm). exists (snd m). split; [reflexivity|].
    intros x Hx. apply in_or_app. right. apply in_or_app. left. apply in_concat. exists (snd m).
    split; [now apply in_map | exact Hx].
  - apply in_map_iff in H as (t & <- & Ht). exists (t_recs t). split; [reflexivity|].
    intros x Hx. apply in_or_app. right. apply in_or_app. right. apply in_or_app. left.
    apply in_concat. exists (t_recs t). split; [now apply in_map | exact Hx].
  - apply in_concat in H as (l & Hl & Ha). apply in_map_iff in Hl as (lv & <- & Hlv).
    apply in_app_or in Ha as [Ha|Ha]; apply in_map_iff in Ha as (t & <- & Ht);
      exists (t_recs t); (split; [reflexivity|]); intros x Hx;
      apply in_or_app; right; apply in_or_app; right; apply in_or_app; right;
      apply in_concat; exists (level_recs lv); (split; [now apply in_map|]); unfold level_recs; apply in_or_app.
    + right. apply in_concat. exists (t_recs t). split; [now apply in_map | exact Hx].
    + left. apply in_concat. exists (t_recs t). split; [now apply in_map | exact Hx].
Qed.

Theorem max_version_ge s x : In x (contents s) -> r_ver x <= max_version s.
Proof.
  intro Hx. destruct (contents_source s x Hx) as (l & Hl & Hm). rewrite max_version_eq.
  pose proof (fold_max_in _ _ Hm 0). pose proof (recs_maxver_ge l x Hl). lia.
Qed.

Theorem max_version_le s b : (forall x, In x (contents s) -> r_ver x <= b) -> max_version s <= b.
Proof.
  intro H. rewrite max_version_eq. apply fold_max_le; [|lia].
  intros a Ha. destruct (source_maxima_from s a Ha) as (l & -> & Hl). apply recs_maxver_le. auto.
Qed.

(** After close + reopen the next commit timestamp exceeds every acknowledged
    version (transactional histories: no version reaches 2^64-1). *)
Theorem next_ts_after_reopen_above s ws :
  content_ok s ws -> (forall w, In w ws -> r_ver w < 18446744073709551615) ->
  forall w, In w ws -> r_ver w < next_ts_after_open (reopen s).
Proof.
  intros Hc Hb w Hw. apply reopen_content_ok in Hc. destruct Hc as [C1 C2].
  set (s' := reopen s) in *.
  destruct (C2 w Hw) as (x & Hx & _ & Ev & _). apply all_recs_contents in Hx.
  pose proof (max_version_ge s' x Hx) as Hge.
  assert (Hle : max_version s' <= 18446744073709551614).
  { apply max_version_le. intros y Hy. apply all_recs_contents, C1, Hb in Hy. lia. }
  unfold next_ts_after_open. destruct (max_version s' =? 0) eqn:E0.
  - apply N.eqb_eq in E0. lia.
  - rewrite N.mod_small by lia. lia.
Qed.

(** The same for any state, without reopen. *)
Theorem next_ts_above s ws :
  content_ok s ws -> (forall w, In w ws -> r_ver w < 18446744073709551615) ->
  forall w, In w ws -> r_ver w < next_ts_after_open s.
Proof.
  intros [C1 C2] Hb w Hw. destruct (C2 w Hw) as (x & Hx & _ & Ev & _). apply all_recs_contents in Hx.
  pose proof (max_version_ge s x Hx) as Hge.
  assert (Hle : max_version s <= 18446744073709551614).
  { apply max_version_le. intros y Hy. apply all_recs_contents, C1, Hb in Hy. lia. }
  unfold next_ts_after_open. destruct (max_version s =? 0) eqn:E0.
  - apply N.eqb_eq in E0. lia.
  - rewrite N.mod_small by lia. lia.
Qed.

(** The hypotheses hold on a transactional history; the seeded timestamp is 8
    after versions 3, 7 and 5. *)
Definition ts_example : list op :=
  [OPut (mk "a" 3 "a3" 1); ORotate; OFlush; OPut (mk "a" 7 "a7" 2); OPut (mk "b" 5 "b5" 3)].

Example ts_example_ok :
  content_ok (run (init 1) ts_example) (writes ts_example) /\
  (forall w, In w (writes ts_example) -> r_ver w < 18446744073709551615) /\
  next_ts_after_open (reopen (run (init 1) ts_example)) = 8.
Proof.
  split; [|split].
  - apply (j_content _ _ (run_J ts_example (init 1) [] (J_init 1) eq_refl eq_refl)).
  - intros w Hw. cbn in Hw. destruct Hw as [<-|[<-|[<-|[]]]]; reflexivity.
  - vm_compute. reflexivity.
Qed.

(** C17, scans: [handleScan] of the working-tree code equals the point reads
    of the specification over the keys that have at least one record
    ([lscan_blind]); it equals the full specification [lscan] exactly when no
    key is blocked by the lock of a first-ever prewrite (known finding C17-F1). *)
From Coq Require Import List NArith Bool Lia ZifyN ZifyNat ZifyBool Sorted.
From NoKV Require Import Base.Bytes Model.Percolator Model.KvApply Spec.PercoSpec Proofs.PercoProofs.
Import ListNotations.
Local Open Scope N_scope.

(** * Strictly ascending key lists *)
Definition kasc (l : list bytes) : Prop := StronglySorted (fun a b => bytes_ltb a b = true) l.

Lemma bytes_ltb_neq a b : bytes_ltb a b = true -> a <> b.
Proof. intros H E. subst. rewrite bytes_ltb_irrefl in H. discriminate. Qed.

Lemma bytes_ltb_cmp a b : bytes_ltb a b = true <-> bytes_cmp a b = Lt.
Proof. unfold bytes_ltb. destruct (bytes_cmp a b); split; congruence. Qed.

Lemma kasc_eq l1 : forall l2, kasc l1 -> kasc l2 -> (forall k, In k l1 <-> In k l2) -> l1 = l2.
Proof.
  induction l1 as [|a l1 IH]; intros [|b l2] H1 H2 Hm.
  - reflexivity.
  - exfalso. apply (proj2 (Hm b)). now left.
  - exfalso. apply (proj1 (Hm a)). now left.
  - inversion H1 as [|? ? S1 F1]; inversion H2 as [|? ? S2 F2]; subst.
    assert (a = b).
    { destruct (proj1 (Hm a) (or_introl eq_refl)) as [E|Ha]; [now symmetry|].
      destruct (proj2 (Hm b) (or_introl eq_refl)) as [E|Hb]; [exact E|].
      pose proof (proj1 (Forall_forall _ _) F2 a Ha) as L1.
      pose proof (proj1 (Forall_forall _ _) F1 b Hb) as L2. cbn in L1, L2.
      pose proof (bytes_ltb_trans _ _ _ L1 L2) as L3. rewrite bytes_ltb_irrefl in L3. discriminate. }
    subst b. f_equal. apply IH; auto. intro k. split; intro Hk.
    + destruct (proj1 (Hm k) (or_intror Hk)) as [E|H]; [|exact H].
      subst k. exfalso. apply (bytes_ltb_neq a a); [|reflexivity]. now apply (proj1 (Forall_forall _ _) F1).
    + destruct (proj2 (Hm k) (or_intror Hk)) as [E|H]; [|exact H].
      subst k. exfalso. apply (bytes_ltb_neq a a); [|reflexivity]. now apply (proj1 (Forall_forall _ _) F2).
Qed.

(** * The write CF: keys strictly ascending, no empty group *)
Section WfVMap.
  Context {A : Type}.
  Definition wfm (m : vmap A) : Prop := kasc (map fst m) /\ Forall (fun g => snd g <> []) m.

  Lemma vm_has_In (m : vmap A) k : vm_has m k = true <-> In k (map fst m).
  Proof.
    induction m as [|[k0 rs] m IH]; cbn; [split; [discriminate | intros []]|].
    rewrite orb_true_iff, IH. split.
    - intros [E|H]; [left; apply bytes_eqb_eq in E; now subst | now right].
    - intros [E|H]; [left; subst; apply bytes_eqb_refl | now right].
  Qed.

  Lemma map_fst_replace (m : vmap A) k f : map fst (vm_replace m k f) = map fst m.
  Proof.
    induction m as [|[k0 rs] m IH]; cbn; [reflexivity|].
    destruct (bytes_eqb k k0); cbn; [reflexivity | now rewrite IH].
  Qed.

  Lemma In_vm_insert (m : vmap A) k rs x : In x (map fst (vm_insert m k rs)) <-> x = k \/ In x (map fst m).
  Proof.
    induction m as [|[k0 rs0] m IH]; cbn; [intuition|].
    destruct (bytes_ltb k k0); cbn; [intuition|]. rewrite IH. intuition.
  Qed.

  Lemma vm_insert_kasc (m : vmap A) k rs :
    kasc (map fst m) -> ~ In k (map fst m) -> kasc (map fst (vm_insert m k rs)).
  Proof.
    unfold kasc. induction m as [|[k0 rs0] m IH]; cbn; intros H Hn.
    - constructor; constructor.
    - inversion H as [|? ? S F]; subst. destruct (bytes_ltb k k0) eqn:E; cbn.
      + constructor; [exact H|]. constructor; [exact E|].
        eapply Forall_impl; [|exact F]. cbn. intros a Ha. eapply bytes_ltb_trans; eauto.
      + constructor; [apply IH; [exact S | intro Hi; apply Hn; now right]|].
        apply Forall_forall. intros y Hy. apply In_vm_insert in Hy as [->|Hy].
        * destruct (bytes_ltb k0 k) eqn:E2; [reflexivity|].
          exfalso. apply Hn. left. now apply bytes_ltb_total.
        * now apply (proj1 (Forall_forall _ _) F).
  Qed.

  Lemma vm_upd_wfm (m : vmap A) k f :
    wfm m -> (forall rs, f rs <> []) -> wfm (vm_upd m k f).
  Proof.
    intros [H1 H2] Hf. unfold vm_upd. destruct (vm_has m k) eqn:Hh.
    - split; [now rewrite map_fst_replace|].
      clear H1 Hh. induction m as [|[k0 rs] m IH]; cbn; [constructor|].
      inversion H2; subst. destruct (bytes_eqb k k0); constructor; auto. cbn. apply Hf.
    - split.
      + apply vm_insert_kasc; [exact H1|]. intro Hi. apply vm_has_In in Hi. congruence.
      + clear H1 Hh. induction m as [|[k0 rs] m IH]; cbn; [constructor; [apply Hf|constructor]|].
        inversion H2; subst. destruct (bytes_ltb k k0); constructor; auto. cbn. apply Hf.
  Qed.

  Lemma rows_set_nonempty (rs : rows A) v e : rows_set rs v e <> [].
  Proof.
    destruct rs as [|[v0 e0] rs]; cbn; [discriminate|].
    destruct (v0 <? v); [discriminate|]. destruct (v0 =? v); discriminate.
  Qed.

  (** with distinct keys a map is the table of its lookups *)
  Lemma vm_rows_table (m : vmap A) :
    kasc (map fst m) -> m = map (fun k => (k, vm_rows m k)) (map fst m).
  Proof.
    unfold kasc. induction m as [|[k0 rs] m IH]; cbn; intro H; [reflexivity|].
    inversion H as [|? ? S F]; subst. rewrite bytes_eqb_refl. f_equal.
    rewrite (IH S) at 1. apply map_ext_in. intros k Hk.
    assert (E : bytes_eqb k k0 = false).
    { apply bytes_eqb_neq. intro E. subst. apply (bytes_ltb_neq k0 k0); [|reflexivity].
      now apply (proj1 (Forall_forall _ _) F). }
    now rewrite E.
  Qed.
End WfVMap.

Definition wfw (s : store) : Prop := wfm (s_write s).

Lemma wfw_put_write s k v w : wfw s -> wfw (put_write s k v w).
Proof.
  unfold wfw, put_write, set_versioned; cbn. intro H. apply vm_upd_wfm; [exact H|].
  intro rs. apply rows_set_nonempty.
Qed.

Lemma wfw_prewrite_mutation s primary start ttl mc m :
  wfw s -> wfw (fst (prewrite_mutation s primary start ttl mc m)).
Proof.
  intro H. unfold prewrite_mutation.
  destruct (is_nil (m_key m)); [exact H|].
  destruct (match get_lock s (m_key m) with Some l => if l_ts l =? start then None else Some l | None => None end); [exact H|].
  destruct (match most_recent_write s (m_key m) with Some (w, ct) => if start <=? ct then Some (w, ct) else None | None => None end) as [[w ct]|]; [exact H|].
  destruct (m_op m); exact H.
Qed.

Lemma wfw_commit_key s k l cv : wfw s -> wfw (fst (commit_key s k l cv)).
Proof.
  intro H. unfold commit_key. destruct (cv <? l_min_commit l); [exact H|].
  destruct (get_write_by_start_ts s k (l_ts l)) as [[w ct]|].
  - destruct (op_eqb (w_kind w) OpRollback); exact H.
  - cbn [fst]. unfold wfw. cbn [del_lock s_write]. now apply wfw_put_write.
Qed.

Lemma wfw_rollback_key c s k start : wfw s -> wfw (fst (rollback_key c s k start)).
Proof.
  intro H. unfold rollback_key. destruct (get_write_by_start_ts s k start); [exact H|].
  cbn [fst]. apply wfw_put_write. unfold wfw. cbn [del_default s_write].
  destruct (fix_rollback c); [|exact H].
  destruct (get_lock s k) as [l|]; [|exact H]. destruct (l_ts l =? start); exact H.
Qed.

Lemma wfw_apply_req s r : wfw s -> wfw (fst (apply_req current s r)).
Proof.
  intro H. destruct r; cbn [apply_req].
  - revert s H. induction muts as [|m ms IH]; intros s H; cbn [prewrite]; [exact H|].
    pose proof (wfw_prewrite_mutation s primary start ttl min_commit m H) as H1.
    destruct (prewrite_mutation s primary start ttl min_commit m) as [s1 e]. cbn [fst] in H1.
    specialize (IH s1 H1). destruct (prewrite s1 primary start ttl min_commit ms) as [s2 es]. exact IH.
  - assert (G : forall keys s, wfw s -> wfw (fst (commit current s keys start commit_version))).
    { induction keys0 as [|k ks IH]; intros s0 H0; cbn [commit]; [exact H0|].
      destruct (is_nil k); [exact H0|]. destruct (get_lock s0 k) as [l|].
      - destruct (l_ts l =? start); [|exact H0].
        pose proof (wfw_commit_key s0 k l commit_version H0) as H1.
        destruct (commit_key s0 k l commit_version) as [s1 [e|]]; [exact H1 | now apply IH].
      - destruct (get_write_by_start_ts s0 k start) as [[w ct]|]; [|exact H0].
        destruct (fix_commit current && op_eqb (w_kind w) OpRollback); [exact H0 | now apply IH]. }
    specialize (G keys s H). destruct (commit current s keys start commit_version). exact G.
  - assert (G : forall keys s, wfw s -> wfw (fst (batch_rollback current s keys start))).
    { induction keys0 as [|k ks IH]; intros s0 H0; cbn [batch_rollback]; [exact H0|].
      destruct (is_nil k); [exact H0|].
      pose proof (wfw_rollback_key current s0 k start H0) as H1.
      destruct (rollback_key current s0 k start) as [s1 [e|]]; [exact H1 | now apply IH]. }
    specialize (G keys s H). destruct (batch_rollback current s keys start). exact G.
  - assert (G : forall keys s n, wfw s -> wfw (fst (fst (resolve_lock current s keys start commit_version n)))).
    { induction keys0 as [|k ks IH]; intros s0 n H0; cbn [resolve_lock]; [exact H0|].
      destruct (is_nil k); [now apply IH|]. destruct (get_lock s0 k) as [l|]; [|now apply IH].
      destruct (l_ts l =? start); [|now apply IH].
      destruct (commit_version =? 0).
      - pose proof (wfw_rollback_key current s0 k start H0) as H1.
        destruct (rollback_key current s0 k start) as [s1 [e|]]; [exact H1 | now apply IH].
      - pose proof (wfw_commit_key s0 k l commit_version H0) as H1.
        destruct (commit_key s0 k l commit_version) as [s1 [e|]]; [exact H1 | now apply IH]. }
    specialize (G keys s 0 H). destruct (resolve_lock current s keys start commit_version 0) as [[s1 n] e]. exact G.
  - unfold check_txn_status. destruct (get_lock s primary) as [l|].
    + destruct (negb (l_ts l =? lock_ts)); [exact H|].
      destruct (match get_write_by_start_ts s primary lock_ts with
                | Some (w, ct) => if op_eqb (w_kind w) OpRollback then None else Some ct
                | None => None
                end); [exact H|].
      destruct (is_lock_expired l current_ts).
      * pose proof (wfw_rollback_key current s primary lock_ts H) as H1.
        destruct (rollback_key current s primary lock_ts) as [s1 [e|]]; exact H1.
      * destruct ((0 <? caller_start) && (l_min_commit l <? wrap64 (caller_start + 1))); exact H.
    + destruct (get_write_by_start_ts s primary lock_ts) as [[w ct]|].
      * destruct (op_eqb (w_kind w) OpRollback); exact H.
      * destruct rollback_if_not_exist; [|exact H].
        pose proof (wfw_rollback_key current s primary lock_ts H) as H1.
        destruct (rollback_key current s primary lock_ts) as [s1 [e|]]; exact H1.
  - exact H.
  - destruct (handle_scan current s start_key include_start limit version). exact H.
Qed.

Lemma wfw_apply_all h : wfw (apply_all current h).
Proof.
  unfold apply_all. assert (H : wfw empty_store) by (split; constructor).
  revert H. generalize empty_store. induction h as [|r h IH]; intros s H; cbn [apply_all_from]; [exact H|].
  apply IH. now apply wfw_apply_req.
Qed.

(** * The specification's key list: strictly ascending, contains every key with a record *)
Lemma In_key_insert L k x : In x (key_insert L k) <-> x = k \/ In x L.
Proof.
  induction L as [|k0 L IH]; cbn; [intuition|].
  destruct (bytes_cmp k k0) eqn:E; cbn.
  - apply bytes_cmp_eq in E. subst. intuition.
  - intuition.
  - rewrite IH. intuition.
Qed.

Lemma key_insert_kasc L k : kasc L -> kasc (key_insert L k).
Proof.
  unfold kasc. induction L as [|k0 L IH]; cbn; intro H; [constructor; constructor|].
  inversion H as [|? ? S F]; subst. destruct (bytes_cmp k k0) eqn:E.
  - exact H.
  - constructor; [exact H|]. constructor; [now apply bytes_ltb_cmp|].
    eapply Forall_impl; [|exact F]. cbn. intros a Ha. eapply bytes_ltb_trans; [|exact Ha]. now apply bytes_ltb_cmp.
  - constructor; [now apply IH|]. apply Forall_forall. intros y Hy. apply In_key_insert in Hy as [->|Hy].
    + apply bytes_ltb_cmp. now apply bytes_cmp_gt_lt.
    + now apply (proj1 (Forall_forall _ _) F).
Qed.

Definition KInv (a : lstate) : Prop :=
  kasc (ls_keys a) /\ forall k, ks_recs (ls_at a k) <> [] -> In k (ls_keys a).

Lemma KInv_lupd a k ks : KInv a -> KInv (lupd a k ks).
Proof.
  intros [H1 H2]. split; cbn [lupd ls_keys ls_at].
  - now apply key_insert_kasc.
  - intros k'. beq k' k; intro Hne; apply In_key_insert; [now left | right; now apply H2].
Qed.

Inductive lreach : lstate -> lstate -> Prop :=
| LR0 a : lreach a a
| LR1 a k ks a' : lreach (lupd a k ks) a' -> lreach a a'.

Lemma KInv_lreach a a' : lreach a a' -> KInv a -> KInv a'.
Proof. induction 1 as [a|a k ks a' Hr IH]; intro HK; [exact HK | apply IH; now apply KInv_lupd]. Qed.

Lemma lstep_lreach a r : lreach a (fst (lstep a r)).
Proof.
  destruct r; cbn [lstep].
  - revert a. induction muts as [|m ms IH]; intro a; cbn [l_prewrite]; [apply LR0|].
    destruct (is_nil (m_key m)).
    + specialize (IH a). destruct (l_prewrite a primary start ttl min_commit ms). exact IH.
    + destruct (l_prewrite_key (ls_at a (m_key m)) primary start ttl min_commit m) as [ks1 [e|]].
      * specialize (IH a). destruct (l_prewrite a primary start ttl min_commit ms). exact IH.
      * specialize (IH (lupd a (m_key m) ks1)).
        destruct (l_prewrite (lupd a (m_key m) ks1) primary start ttl min_commit ms). cbn [fst] in *.
        eapply LR1; exact IH.
  - assert (G : forall ks a0, lreach a0 (fst (l_commit a0 ks start commit_version))).
    { induction ks as [|k ks IH]; intro a0; cbn [l_commit]; [apply LR0|].
      destruct (is_nil k); [apply LR0|]. destruct (ks_lock (ls_at a0 k)) as [l|].
      - destruct (l_ts (ll_rec l) =? start); [|apply LR0].
        destruct (l_commit_key (ls_at a0 k) k l commit_version) as [ks1 [e|]]; [apply LR0|].
        eapply LR1; apply IH.
      - destruct (find_start (ks_recs (ls_at a0 k)) start) as [r|]; [|apply LR0].
        destruct (op_eqb (lr_kind r) OpRollback); [apply LR0 | apply IH]. }
    specialize (G keys a). destruct (l_commit a keys start commit_version). exact G.
  - assert (G : forall ks a0, lreach a0 (fst (l_batch_rollback a0 ks start))).
    { induction ks as [|k ks IH]; intro a0; cbn [l_batch_rollback]; [apply LR0|].
      destruct (is_nil k); [apply LR0|]. eapply LR1; apply IH. }
    specialize (G keys a). destruct (l_batch_rollback a keys start). exact G.
  - assert (G : forall ks a0 n, lreach a0 (fst (fst (l_resolve a0 ks start commit_version n)))).
    { induction ks as [|k ks IH]; intros a0 n; cbn [l_resolve]; [apply LR0|].
      destruct (is_nil k); [apply IH|]. destruct (own_lock (ls_at a0 k) start) as [l|]; [|apply IH].
      destruct (commit_version =? 0); [eapply LR1; apply IH|].
      destruct (l_commit_key (ls_at a0 k) k l commit_version) as [ks1 [e|]]; [apply LR0|].
      eapply LR1; apply IH. }
    specialize (G keys a 0). destruct (l_resolve a keys start commit_version 0) as [[a1 n] e]. exact G.
  - unfold l_check. destruct (ks_lock (ls_at a primary)) as [l|].
    + destruct (negb (l_ts (ll_rec l) =? lock_ts)); [apply LR0|].
      destruct (match find_start (ks_recs (ls_at a primary)) lock_ts with
                | Some r => if op_eqb (lr_kind r) OpRollback then None else Some r
                | None => None
                end); [eapply LR1; apply LR0|].
      destruct (lock_expired (ll_rec l) current_ts); [eapply LR1; apply LR0|].
      destruct ((0 <? caller_start) && (l_min_commit (ll_rec l) <? wrap64 (caller_start + 1)));
        [eapply LR1; apply LR0 | apply LR0].
    + destruct (find_start (ks_recs (ls_at a primary)) lock_ts) as [r|].
      * destruct (op_eqb (lr_kind r) OpRollback); apply LR0.
      * destruct rollback_if_not_exist; [eapply LR1; apply LR0 | apply LR0].
  - apply LR0.
  - destruct (lscan a start_key include_start limit version). apply LR0.
Qed.

Lemma KInv_lrun h : KInv (lrun h).
Proof.
  unfold lrun. assert (H : KInv lempty) by (split; [constructor | intros k Hk; now elim Hk]).
  revert H. generalize lempty. induction h as [|r h IH]; intros a H; cbn [lrun_from]; [exact H|].
  apply IH. eapply KInv_lreach; [apply lstep_lreach | exact H].
Qed.

(** * The groups the scan iterates over *)
Notation has_recs := has_records.
Definition rec_ver (r : lrec) : N * writerec := (lr_ts r, rec_w r).

Lemma live_rows_map rs : live_rows (map rec_row rs) = map rec_ver rs.
Proof.
  unfold live_rows. induction rs as [|r rs IH]; [reflexivity|].
  cbn [map flat_map rec_row app]. now rewrite IH.
Qed.

Lemma filter_kasc P L : kasc L -> kasc (filter P L).
Proof.
  unfold kasc. induction L as [|k L IH]; cbn; intro H; [constructor|].
  inversion H as [|? ? S F]; subst. destruct (P k); [|now apply IH].
  constructor; [now apply IH|]. apply Forall_forall. intros y Hy. apply filter_In in Hy as [Hy _].
  now apply (proj1 (Forall_forall _ _) F).
Qed.

Lemma wfm_rows_In {A} (m : vmap A) k : wfm m -> (In k (map fst m) <-> vm_rows m k <> []).
Proof.
  intros Hw. split.
  - induction m as [|[k0 rs] m IH]; intro Hin; [destruct Hin|].
    destruct Hw as [H1 H2]. cbn in *. inversion H1; inversion H2; subst.
    beq k k0; [subst; assumption|]. destruct Hin as [E'|Hin]; [congruence|].
    apply IH; [split; assumption | exact Hin].
  - intro Hne. apply vm_has_In. destruct (vm_has m k) eqn:E; [reflexivity|].
    now rewrite (vm_has_false_rows m k E) in Hne.
Qed.

Lemma write_keys s a :
  R s a -> wfw s -> KInv a -> map fst (s_write s) = filter (has_recs a) (ls_keys a).
Proof.
  intros HR Hw [K1 K2]. apply kasc_eq; [apply Hw | now apply filter_kasc|].
  intro k. rewrite (wfm_rows_In _ k Hw), (Rk_rows _ _ _ (HR k)), filter_In. unfold has_records.
  destruct (ks_recs (ls_at a k)) as [|r rs] eqn:E; cbn.
  - split; [congruence | intros [_ H]; discriminate].
  - split; [intros _; split; [apply K2; rewrite E; discriminate | reflexivity] | discriminate].
Qed.

Lemma write_groups s a :
  R s a -> wfw s -> KInv a ->
  vm_groups (s_write s) = map (fun k => (k, map rec_ver (ks_recs (ls_at a k)))) (filter (has_recs a) (ls_keys a)).
Proof.
  intros HR Hw HK. unfold vm_groups. rewrite (vm_rows_table (s_write s)) at 1 by apply Hw.
  rewrite map_map, (write_keys s a HR Hw HK). apply map_ext. intro k.
  now rewrite (Rk_rows _ _ _ (HR k)), live_rows_map.
Qed.

(** * collectVisibleValue is the read rule *)
Lemma newest_of_keep p rs : forall b,
  Forall (fun r => lr_ts r < lr_ts b) rs -> newest_of p rs (Some b) = Some b.
Proof.
  induction rs as [|r rs IH]; intros b H; cbn; [reflexivity|]. inversion H; subst.
  assert (E : (lr_ts b <? lr_ts r) = false) by lia. rewrite E, andb_false_r. now apply IH.
Qed.

Lemma newest_of_sorted p rs : recs_sorted rs -> newest_of p rs None = find p rs.
Proof.
  unfold recs_sorted. induction rs as [|r rs IH]; intro H; cbn; [reflexivity|].
  inversion H as [|? ? S F]; subst. destruct (p r); cbn.
  - apply newest_of_keep. eapply Forall_impl; [|exact F]. cbn. intros; lia.
  - now apply IH.
Qed.

Lemma collect_visible_ok s k ks t :
  Rk s k ks -> ks_inv ks ->
  collect_visible current s k (map rec_ver (ks_recs ks)) t = read_value (ks_recs ks) t.
Proof.
  intros HR HI. unfold read_value, newest_committed.
  rewrite (newest_of_sorted _ _ (inv_sorted _ HI)).
  assert (G : forall rs, (forall r, In r rs -> In r (ks_recs ks)) ->
            collect_visible current s k (map rec_ver rs) t =
            match find (visible_at t) rs with
            | Some r => match lr_kind r with OpPut => Some (lr_val r) | _ => None end
            | None => None
            end).
  { induction rs as [|r rs IH]; intro Hsub; [reflexivity|].
    cbn [map rec_ver collect_visible find]. rewrite visible_at_kind.
    specialize (IH (fun r' H => Hsub r' (or_intror H))).
    destruct (t <? lr_ts r) eqn:Ht.
    - assert (E : (lr_ts r <=? t) = false) by lia. rewrite E. destruct (lr_kind r); exact IH.
    - assert (E : (lr_ts r <=? t) = true) by lia. rewrite E. cbn [rec_w w_kind w_start current fix_read].
      destruct (lr_kind r) eqn:Hk.
      + pose proof (Hsub r (or_introl eq_refl)) as Hin.
        rewrite (Rk_val _ _ _ HR r Hin Hk), Hk.
        pose proof (proj1 (Forall_forall _ _) (inv_val _ HI) r Hin Hk) as Hne.
        destruct (lr_val r); [congruence | reflexivity].
      + now rewrite Hk.
      + exact IH.
      + exact IH. }
  apply G. auto.
Qed.

(** * The scan loop *)
Lemma lscan_keys_0 a L t : lscan_keys a L t 0 = ([], None).
Proof. destruct L; reflexivity. Qed.

Lemma in_range_after start incl k k' :
  in_range start incl k = true -> bytes_ltb k k' = true -> in_range start incl k' = true.
Proof.
  unfold in_range. intros H Hlt.
  destruct (bytes_cmp k start) eqn:E1; [| discriminate |].
  - apply bytes_cmp_eq in E1. subst. apply bytes_ltb_cmp in Hlt.
    rewrite (bytes_cmp_antisym start k'), Hlt. reflexivity.
  - apply bytes_cmp_gt_lt in E1. apply bytes_ltb_cmp in Hlt.
    pose proof (bytes_cmp_lt_trans _ _ _ E1 Hlt) as E3.
    rewrite (bytes_cmp_antisym start k'), E3. reflexivity.
Qed.

Lemma scan_loop_ok s a start incl t : R s a -> Inv a ->
  forall KS started room,
  kasc KS -> (forall k, In k KS -> has_recs a k = true) ->
  (started = true -> forall k, In k KS -> in_range start incl k = true) ->
  (started = false -> start <> []) ->
  scan_loop current s (map (fun k => (k, map rec_ver (ks_recs (ls_at a k)))) KS) start incl started t room =
  lscan_keys a (filter (in_range start incl) KS) t room.
Proof.
  intros HR HI. induction KS as [|k KS IH]; intros started room Hasc Hrecs Hst Hnil.
  - now destruct room.
  - inversion Hasc as [|? ? Sd F]; subst.
    assert (IH' : forall st rm, (st = true -> forall k0, In k0 KS -> in_range start incl k0 = true) ->
              (st = false -> start <> []) ->
              scan_loop current s (map (fun k => (k, map rec_ver (ks_recs (ls_at a k)))) KS) start incl st t rm =
              lscan_keys a (filter (in_range start incl) KS) t rm).
    { intros st rm H1 H2. apply IH; auto. intros k0 Hk0. apply Hrecs. now right. }
    destruct room as [|n]; [now rewrite lscan_keys_0|].
    cbn [map scan_loop filter].
    assert (Hne : map rec_ver (ks_recs (ls_at a k)) <> []).
    { pose proof (Hrecs k (or_introl eq_refl)) as Hk. unfold has_records in Hk.
      destruct (ks_recs (ls_at a k)); [discriminate | cbn; discriminate]. }
    destruct (map rec_ver (ks_recs (ls_at a k))) as [|v0 vs0] eqn:Evs; [contradiction|]. rewrite <- Evs. clear Hne.
    assert (Hlater : in_range start incl k = true -> forall k0, In k0 KS -> in_range start incl k0 = true).
    { intros Hin k0 Hk0. eapply in_range_after; [exact Hin|]. now apply (proj1 (Forall_forall _ _) F). }
    assert (Hcase : (negb started &&
              match bytes_cmp k start with Lt => true | Eq => negb incl | Gt => false end) = negb (in_range start incl k)).
    { destruct started.
      - cbn. symmetry. apply negb_false_iff. apply (Hst eq_refl). now left.
      - cbn. unfold in_range. destruct (bytes_cmp k start); try reflexivity.
        destruct start; [exfalso; now apply (Hnil eq_refl)|]. cbn. now rewrite orb_false_r. }
    rewrite Hcase. destruct (in_range start incl k) eqn:Hin; cbn [negb].
    + (* in range *)
      cbn [lscan_keys]. unfold lget. rewrite (Rk_lock _ _ _ (HR k)).
      rewrite (collect_visible_ok s k _ t (HR k) (HI k)).
      destruct (ks_lock (ls_at a k)) as [l|]; cbn [option_map].
      * destruct (l_ts (ll_rec l) <=? t); [reflexivity|].
        destruct (read_value (ks_recs (ls_at a k)) t) as [v|].
        -- rewrite (IH' true n (fun _ => Hlater eq_refl) (fun E => ltac:(discriminate))). reflexivity.
        -- apply (IH' true (S n) (fun _ => Hlater eq_refl)). discriminate.
      * destruct (read_value (ks_recs (ls_at a k)) t) as [v|].
        -- rewrite (IH' true n (fun _ => Hlater eq_refl) (fun E => ltac:(discriminate))). reflexivity.
        -- apply (IH' true (S n) (fun _ => Hlater eq_refl)). discriminate.
    + (* before the range: only possible while not started *)
      destruct started.
      * rewrite (Hst eq_refl k (or_introl eq_refl)) in Hin. discriminate.
      * apply (IH' false (S n)); [discriminate | exact Hnil].
Qed.

(** * C17: scans *)
Lemma filter_filter {A} (P Q : A -> bool) L : filter P (filter Q L) = filter (fun x => P x && Q x) L.
Proof.
  induction L as [|x L IH]; cbn; [reflexivity|].
  destruct (Q x); cbn; [destruct (P x); cbn; now rewrite IH | now rewrite andb_false_r].
Qed.

Lemma handle_scan_blind s a start incl limit version :
  R s a -> Inv a -> wfw s -> KInv a ->
  handle_scan current s start incl limit version = lscan_blind a start incl limit version.
Proof.
  intros HR HI Hw HK. unfold handle_scan, lscan_blind.
  rewrite (write_groups s a HR Hw HK).
  rewrite (scan_loop_ok s a start incl (scan_read_ts version) HR HI).
  - now rewrite filter_filter.
  - apply filter_kasc, HK.
  - intros k Hk. now apply filter_In in Hk.
  - intros Hn k _. destruct start; [|discriminate]. unfold in_range.
    destruct (bytes_cmp k []) eqn:E; [now rewrite orb_true_r | | reflexivity].
    destruct k; discriminate.
  - intros Hn E. subst. discriminate.
Qed.

Lemma lscan_keys_skip a t Q : forall L room,
  (forall k, In k L -> Q k = false -> lget a k t = GNotFound) ->
  lscan_keys a (filter Q L) t room = lscan_keys a L t room.
Proof.
  induction L as [|k L IH]; intros room H; [reflexivity|].
  destruct room as [|n]; [now rewrite !lscan_keys_0|].
  cbn [filter]. destruct (Q k) eqn:E.
  - cbn [lscan_keys]. destruct (lget a k t); [|now apply IH; intros; apply H; auto; right | reflexivity].
    rewrite (IH n); [reflexivity|]. intros k0 Hk0. apply H. now right.
  - cbn [lscan_keys]. rewrite (H k (or_introl eq_refl) E). apply IH. intros k0 Hk0. apply H. now right.
Qed.

Lemma lscan_blind_full a start incl limit version :
  scan_sees_all_locks a start incl version = true ->
  lscan_blind a start incl limit version = lscan a start incl limit version.
Proof.
  intro H. unfold lscan_blind, lscan, scan_sees_all_locks in *. rewrite forallb_forall in H.
  assert (E : filter (fun x => in_range start incl x && has_records a x) (ls_keys a) =
              filter (has_records a) (filter (in_range start incl) (ls_keys a))).
  { rewrite filter_filter. apply filter_ext. intro x. apply andb_comm. }
  rewrite E. apply lscan_keys_skip.
  intros k Hk Hq. apply filter_In in Hk as [Hk Hin]. specialize (H k Hk).
  rewrite Hin, Hq in H. cbn in H. unfold blocked_at in H. unfold lget. unfold has_records in Hq.
  destruct (ks_recs (ls_at a k)); [|discriminate]. cbn.
  destruct (ks_lock (ls_at a k)) as [l|]; [|reflexivity].
  apply negb_true_iff in H. now rewrite H.
Qed.

Theorem scan_refines_blind h start incl limit version :
  forallb req_ok h = true ->
  handle_scan current (apply_all current h) start incl limit version =
  lscan_blind (lrun h) start incl limit version.
Proof.
  intro Hok. destruct (refines h Hok) as [HR HI].
  apply handle_scan_blind; [exact HR | exact HI | apply wfw_apply_all | apply KInv_lrun].
Qed.

Theorem scan_eq_get_partial h start incl limit version :
  forallb req_ok h = true ->
  scan_sees_all_locks (lrun h) start incl version = true ->
  handle_scan current (apply_all current h) start incl limit version =
  lscan (lrun h) start incl limit version.
Proof.
  intros Hok H. rewrite (scan_refines_blind h start incl limit version Hok). now apply lscan_blind_full.
Qed.

(** the finding: a first-ever prewrite is invisible to scans *)
Definition wit_scan : list request :=
  [RPrewrite [{| m_op := OpPut; m_key := B1 98; m_val := B1 1 |}] (B1 98) 10 100 0].
Lemma scan_refuted :
  forallb req_ok wit_scan = true /\
  handle_scan current (apply_all current wit_scan) [] true 10 15 = ([], None) /\
  handle_get current (apply_all current wit_scan) (B1 98) 15 =
    GLocked (B1 98) {| l_primary := B1 98; l_ts := 10; l_ttl := 100; l_kind := OpPut; l_min_commit := 0 |} /\
  lscan (lrun wit_scan) [] true 10 15 =
    ([], Some (KELocked (B1 98) {| l_primary := B1 98; l_ts := 10; l_ttl := 100; l_kind := OpPut; l_min_commit := 0 |})) /\
  scan_sees_all_locks (lrun wit_scan) [] true 15 = false.
Proof. vm_compute. repeat split. Qed.

Example scan_partial_nonvacuous :
  forallb req_ok (wit_put 97 1 10 20) = true /\ scan_sees_all_locks (lrun (wit_put 97 1 10 20)) [] true 25 = true /\
  lscan (lrun (wit_put 97 1 10 20)) [] true 10 25 = ([(B1 97, B1 1)], None).
Proof. vm_compute. repeat split. Qed.

(** Proofs for C32 (watermark). *)
From Coq Require Import List NArith ZArith Bool Arith Lia ZifyN ZifyNat ZifyBool.
From NoKV Require Import Base.Sched Model.SchedLib Model.Watermark Spec.WatermarkSpec Proofs.SchedLibProofs.
Import ListNotations.
Local Open Scope N_scope.

(** * the mark never decreases (both step orders, rebuilds included) *)
Ltac head_cases H :=
  repeat match type of H with
         | (if ?x then _ else _) = Some _ => destruct x eqn:?
         | (match ?x with _ => _ end) = Some _ => destruct x eqn:?
         | None = Some _ => discriminate
         end.

Lemma thread_step_monotone fixed g t ops o p g' :
  thread_step fixed g t ops o p = Some g' -> g_done g <= g_done g'.
Proof.
  intros H. destruct p; unfold thread_step in H; cbv zeta in H; head_cases H;
    inversion H; subst; unfold to, goto, upd; cbn [g_done]; lia.
Qed.

Lemma step_monotone fixed g t g' : tstep fixed g t = Some g' -> g_done g <= g_done g'.
Proof.
  unfold tstep. destruct (nth_error (g_threads g) t) as [th|]; [|discriminate].
  destruct (th_ops th) as [|o r]; [discriminate|]. intros H. eapply thread_step_monotone. exact H.
Qed.

Theorem watermark_monotone fixed g0 g :
  reachable (tstep fixed) g0 g -> g_done g0 <= g_done g.
Proof.
  induction 1 as [|g t g' _ IH Hs]; [lia|]. apply step_monotone in Hs. lia.
Qed.

Corollary watermark_monotone_run fixed g sched : g_done g <= g_done (run (tstep fixed) g sched).
Proof. apply (watermark_monotone fixed), run_reachable. Qed.

(** * the order before the repair: lastIndex published before the slot is counted (F6) *)
Definition f6_progs : list (list op) := [[Begin 1; Done 1]; [Begin 2; Done 2]].
Definition f6_schedule : list nat := ([0; 0; 0] ++ repeat 1 10)%nat.

Theorem watermark_unfixed_refuted :
  exists size progs sched, safe_b (run (tstep false) (init size progs) sched) = false.
Proof. exists 4%nat, f6_progs, f6_schedule. vm_compute. reflexivity. Qed.

Example watermark_fixed_on_f6 : safe_b (run (tstep true) (init 4 f6_progs) f6_schedule) = true.
Proof. vm_compute. reflexivity. Qed.

(** * the code as it is now: an Add on the old window after a rebuild copied it is lost (F28) *)
Definition f28_progs : list (list op) := [[Begin 2; Done 2]; [Begin 6; Done 6]].
Definition f28_schedule : list nat := ([0; 0] ++ repeat 1 11 ++ repeat 0 5 ++ repeat 1 13)%nat.

Theorem watermark_safe_refuted :
  exists size progs sched,
    let g := run (tstep true) (init size progs) sched in
    g_tracked g = [(6, 1%nat); (2, 0%nat)] /\ g_done g = 2 /\ safe_b g = false.
Proof. exists 4%nat, f28_progs, f28_schedule. vm_compute. repeat split; reflexivity. Qed.

(** * oracles *)
Lemma obs_safe_b_spec o : obs_safe_b o = true <-> obs_safe o.
Proof.
  unfold obs_safe_b, obs_safe. rewrite forallb_forall, Forall_forall.
  split; intros H x Hx; specialize (H x Hx); lia.
Qed.

Lemma trace_safe_b_spec tr : trace_safe_b tr = true <-> trace_safe tr.
Proof.
  unfold trace_safe_b, trace_safe. rewrite forallb_forall, Forall_forall.
  split; intros H x Hx; apply obs_safe_b_spec; auto.
Qed.

Lemma monotone_from_b_spec tr : forall d, monotone_from_b d tr = true <-> monotone_from d tr.
Proof.
  induction tr as [|o r IH]; intros d; cbn; [tauto|].
  rewrite andb_true_iff, IH, N.leb_le. tauto.
Qed.

(** Proofs for C36 (Model/WalGc.v against Spec/WalGcSpec.v). *)
From Coq Require Import List NArith Bool Lia ZifyN ZifyNat ZifyBool Sorted.
From NoKV Require Import Model.RaftStore Spec.RaftStoreSpec Model.WalGc Spec.WalGcSpec.
Import ListNotations.
Local Open Scope N_scope.

(** ** the oracle decides the specification *)
Lemma existsb_eqb_In id l : existsb (N.eqb id) l = true <-> In id l.
Proof.
  rewrite existsb_exists. split.
  - intros [x [Hin He]]. apply N.eqb_eq in He. subst. exact Hin.
  - intros H. exists id. split; [exact H|apply N.eqb_refl].
Qed.

Lemma lsm_of_nonempty rs : lsm_of rs <> [] <-> exists k v q, In (WLsm k v q) rs.
Proof.
  induction rs as [|r rs IH]; cbn [lsm_of flat_map].
  - split; [congruence|intros (k & v & q & H); destruct H].
  - destruct r as [k v q|g f es|g h]; cbn [app].
    + split; [intros _; exists k, v, q; left; reflexivity|discriminate].
    + fold (lsm_of rs). rewrite IH. split; intros (k & v & q & H); exists k, v, q.
      * right. exact H.
      * destruct H as [H|H]; [discriminate|exact H].
    + fold (lsm_of rs). rewrite IH. split; intros (k & v & q & H); exists k, v, q.
      * right. exact H.
      * destruct H as [H|H]; [discriminate|exact H].
Qed.

Lemma seg_has_lsm_b_spec s id : seg_has_lsm_b s id = true <-> seg_has_lsm s id.
Proof.
  unfold seg_has_lsm_b, seg_has_lsm. destruct (seg_recs (s_segs s) id) as [rs|].
  - split.
    + intros H. assert (Hne : lsm_of rs <> []) by (destruct (lsm_of rs); [discriminate|discriminate]).
      apply lsm_of_nonempty in Hne. destruct Hne as (k & v & q & Hin). exists rs, k, v, q. auto.
    + intros (rs' & k & v & q & Heq & Hin). inversion Heq; subst rs'.
      assert (Hne : lsm_of rs <> []) by (apply lsm_of_nonempty; exists k, v, q; exact Hin).
      destruct (lsm_of rs); [congruence|reflexivity].
  - split; [discriminate|intros (rs' & k & v & q & Heq & _); discriminate].
Qed.

Lemma lsm_needed_b_spec pre post id : lsm_needed_b pre post id = true <-> lsm_needed pre post id.
Proof.
  unfold lsm_needed_b, lsm_needed. rewrite andb_true_iff, orb_true_iff, N.eqb_eq, existsb_eqb_In,
    seg_has_lsm_b_spec. tauto.
Qed.

Lemma raft_needed_b_spec s id : raft_needed_b s id = true <-> raft_needed s id.
Proof.
  unfold raft_needed_b, raft_needed. rewrite existsb_exists. split.
  - intros (g & Hin & H). exists g. split; [exact Hin|].
    apply orb_true_iff in H. destruct H as [H|H].
    + left. apply existsb_exists in H. destruct H as ([i sg] & Hin' & He). cbn in He.
      apply N.eqb_eq in He. subst. exists i. exact Hin'.
    + right. apply andb_true_iff in H. destruct H as [H1 H2]. split; [apply N.eqb_eq; exact H1|].
      apply negb_true_iff, N.eqb_neq in H2. exact H2.
  - intros (g & Hin & H). exists g. split; [exact Hin|]. apply orb_true_iff.
    destruct H as [[i Hi]|[H1 H2]].
    + left. apply existsb_exists. exists (i, id). split; [exact Hi|apply N.eqb_refl].
    + right. apply andb_true_iff. split; [apply N.eqb_eq; exact H1|].
      apply negb_true_iff, N.eqb_neq. exact H2.
Qed.

Theorem needed_b_spec pre post id : needed_b pre post id = true <-> needed pre post id.
Proof.
  unfold needed_b, needed. rewrite orb_true_iff, lsm_needed_b_spec, raft_needed_b_spec. tauto.
Qed.

(** ** refutations on the faithful model *)
Definition st0 : st := init [1] 1.
Definition e1 (l : list N) : list entry := map (fun d => (1, d)) l.

(** class 1: nothing truncated yet; the flush consults the pointers, which only
    protect the group's *latest* segment *)
Definition w1 : list wop :=
  [WPut 0 1; WAppend 1 1 (e1 [5; 6]); WRotate 2; WSetHs 1 (HS 1 1 0)].
(** class 2: the watchdog removes the segment of a memtable that is not flushed *)
Definition w2 : list wop :=
  [WPut 0 1; WAppend 1 1 (e1 [5]); WRotate 2; WAppend 1 2 (e1 [6]); WCompact 1 2].
(** class 3: a memtable without LSM writes is "flushed" by deleting its segment *)
Definition w3 : list wop := [WAppend 1 1 (e1 [5]); WSetHs 1 (HS 1 2 0); WRotate 2].
(** the latest hard state lives below SegmentIndex *)
Definition w1b : list wop :=
  [WPut 0 1; WSetHs 1 (HS 3 2 0); WRotate 2; WAppend 1 1 (e1 [5; 6]); WCompact 1 1].

Lemma safe_refuted_flush : ~ safe_step (run st0 w1) WFlush.
Proof.
  intros H. apply (H 1); [vm_compute; auto|]. apply needed_b_spec. vm_compute. reflexivity.
Qed.
Lemma safe_refuted_watchdog : ~ safe_step (run st0 w2) WWatchdog.
Proof.
  intros H. apply (H 1); [vm_compute; auto|]. apply needed_b_spec. vm_compute. reflexivity.
Qed.
Lemma safe_refuted_empty_flush : ~ safe_step (run st0 w3) WFlush.
Proof.
  intros H. apply (H 1); [vm_compute; auto|]. apply needed_b_spec. vm_compute. reflexivity.
Qed.
Lemma safe_refuted_hs_below_segidx : ~ safe_step (run st0 w1b) WFlush.
Proof.
  intros H. apply (H 1); [vm_compute; auto|]. apply needed_b_spec. vm_compute. reflexivity.
Qed.
Lemma safe_refuted_watchdog_is_lsm : lsm_needed (run st0 w2) (fst (step (run st0 w2) WWatchdog)) 1.
Proof. apply lsm_needed_b_spec. vm_compute. reflexivity. Qed.

(** recovery: a removal that respected every pointer (only truncated entries
    and a superseded hard state went away) still leaves a log that
    OpenWALStorage cannot replay; and a needed removal loses the log *)
Definition w4 : list wop :=
  [WPut 0 1; WSetHs 1 (HS 1 1 0); WAppend 1 1 (e1 [5; 6]); WRotate 2; WSetHs 1 (HS 1 1 2);
   WAppend 1 3 (e1 [7; 8]); WCompact 1 3; WFlush].
Lemma recover_refuted_legit_removal :
  (forall id, In id (snd (step (run st0 (removelast w4)) WFlush)) ->
     ~ needed (run st0 (removelast w4)) (run st0 w4) id) /\
  snd (step (run st0 (removelast w4)) WFlush) = [1] /\
  ~ raft_recovered_ok 1 w4 (recovered_raft (run st0 w4) 1).
Proof.
  split; [|split].
  - intros id Hin Hn. apply needed_b_spec in Hn. vm_compute in Hin. destruct Hin as [<-|[]].
    vm_compute in Hn. discriminate.
  - vm_compute. reflexivity.
  - intros H. destruct (H _ _ eq_refl) as (o & Ho & _). vm_compute in Ho. discriminate.
Qed.
Lemma recover_refuted_lost_log :
  ~ raft_recovered_ok 1 (w1 ++ [WFlush]) (recovered_raft (run st0 (w1 ++ [WFlush])) 1).
Proof.
  intros H. destruct (H _ _ eq_refl) as (o & Ho & _ & Hlast & _). vm_compute in Ho.
  inversion Ho; subst o. vm_compute in Hlast. discriminate.
Qed.
Lemma recover_refuted_lost_write :
  recovered_get (run st0 (w2 ++ [WWatchdog])) 0 <> expect_get (w2 ++ [WWatchdog]) 0 None.
Proof. vm_compute. discriminate. Qed.

(** a flushed segment that the raft pointers retain is replayed on reopen: the
    overwritten value of key 0 comes back *)
Definition w5 : list wop :=
  [WAppend 1 1 (e1 [10; 52]); WPut 0 1; WRotate 2; WPut 0 2; WRotate 3; WFlush;
   WSetHs 1 (HS 2 1 0); WFlush; WCompact 1 1].
Lemma recover_refuted_stale_replay :
  expect_get w5 0 None = Some 2 /\ recovered_get (run st0 w5) 0 = Some 1.
Proof. vm_compute. split; reflexivity. Qed.

(** ** what does hold: the LSM side of the flush remover and of the recovery
    cleanup, and everything when no raft group shares the WAL *)

Record InvL (s : st) : Prop := {
  il_sorted : StronglySorted N.lt (s_imms s ++ [s_active s]);
  il_logptr : Forall (N.lt (s_logptr s)) (s_imms s ++ [s_active s]) }.

Lemma sorted_snoc l a n :
  StronglySorted N.lt (l ++ [a]) -> a < n -> StronglySorted N.lt ((l ++ [a]) ++ [n]).
Proof.
  induction l as [|x l IH]; intros Hs Han; cbn [app] in *.
  - constructor; [constructor; [constructor|constructor]|constructor; [exact Han|constructor]].
  - inversion Hs as [|? ? Hs' Hall]; subst. constructor; [apply IH; assumption|].
    apply Forall_app. split; [exact Hall|]. constructor; [|constructor].
    apply Forall_app in Hall. destruct Hall as [_ Ha]. inversion Ha; subst. lia.
Qed.

Lemma flush_shape s :
  (fst (flush s) = s /\ snd (flush s) = [] /\ s_imms s = []) \/
  exists id rest, s_imms s = id :: rest /\ s_imms (fst (flush s)) = rest /\
    s_active (fst (flush s)) = s_active s /\ s_groups (fst (flush s)) = s_groups s /\
    (s_logptr (fst (flush s)) = s_logptr s \/ s_logptr (fst (flush s)) = id) /\
    (forall x, In x (snd (flush s)) -> x = id).
Proof.
  unfold flush. destruct (s_imms s) as [|id rest]; [left; auto|]. right. exists id, rest.
  destruct (mem_get (s_mems s) id) as [|e kvs]; cbn [fst snd s_imms s_active s_groups s_logptr].
  - repeat split; auto. intros x Hx. destruct (seg_exists (s_segs s) id); [destruct Hx as [<-|[]]; reflexivity|destruct Hx].
  - repeat split; auto. intros x Hx.
    destruct (can_remove (s_groups s) id && seg_exists (s_segs s) id); [destruct Hx as [<-|[]]; reflexivity|destruct Hx].
Qed.

Lemma raft_append_lsm s g first es :
  s_imms (raft_append s g first es) = s_imms s /\ s_active (raft_append s g first es) = s_active s /\
  s_logptr (raft_append s g first es) = s_logptr s.
Proof.
  unfold raft_append. destruct es; [auto|]. destruct (mem_append _ _ _); cbn; auto.
Qed.
Lemma raft_set_hs_lsm s g h :
  s_imms (raft_set_hs s g h) = s_imms s /\ s_active (raft_set_hs s g h) = s_active s /\
  s_logptr (raft_set_hs s g h) = s_logptr s.
Proof. unfold raft_set_hs. destruct (hs_is_empty h); cbn; auto. Qed.
Lemma raft_compact_lsm s g idx :
  s_imms (raft_compact s g idx) = s_imms s /\ s_active (raft_compact s g idx) = s_active s /\
  s_logptr (raft_compact s g idx) = s_logptr s.
Proof.
  unfold raft_compact. destruct ((idx =? 0) || _); [auto|].
  destruct (mem_term _ _) as [t|[]]; auto; destruct (gp_seg _ =? 0); cbn; auto.
Qed.

Lemma raft_reopen_lsm s g :
  s_imms (fst (raft_reopen s g)) = s_imms s /\ s_active (fst (raft_reopen s g)) = s_active s /\
  s_logptr (fst (raft_reopen s g)) = s_logptr s.
Proof.
  unfold raft_reopen. destruct (negb _ && negb _); [auto|]. destruct (greplay _ _ _); cbn; auto.
Qed.

Lemma invl_same s s' :
  s_imms s' = s_imms s -> s_active s' = s_active s -> s_logptr s' = s_logptr s -> InvL s -> InvL s'.
Proof. intros H1 H2 H3 [Ha Hb]. constructor; rewrite ?H1, ?H2, ?H3; assumption. Qed.

Lemma step_invl s o : InvL s -> fresh_rotations (s_active s) [o] -> InvL (fst (step s o)).
Proof.
  intros HI Hf. destruct o as [k v|n| |g first es|g h|g idx| |g]; cbn [step fst].
  - apply (invl_same s); auto.
  - destruct HI as [Ha Hb]. cbn in Hf. destruct Hf as [Hlt _]. constructor; cbn [s_imms s_active s_logptr].
    + apply sorted_snoc; assumption.
    + apply Forall_app. split; [exact Hb|]. constructor; [|constructor].
      apply Forall_app in Hb. destruct Hb as [_ Hb]. inversion Hb; subst. lia.
  - destruct (flush_shape s) as [[-> _]|(id & rest & Him & Him' & Hact & _ & Hlog & _)]; [exact HI|].
    destruct HI as [Ha Hb]. rewrite Him in Ha, Hb. cbn [app] in Ha, Hb.
    inversion_clear Ha as [|? ? Ha' Hall]. inversion_clear Hb as [|? ? Hid Hb'].
    constructor; rewrite Him', Hact; [exact Ha'|]. destruct Hlog as [->| ->]; assumption.
  - destruct (raft_append_lsm s g first es) as (H1 & H2 & H3). apply (invl_same s); auto.
  - destruct (raft_set_hs_lsm s g h) as (H1 & H2 & H3). apply (invl_same s); auto.
  - destruct (raft_compact_lsm s g idx) as (H1 & H2 & H3). apply (invl_same s); auto.
  - apply (invl_same s); auto.
  - destruct (raft_reopen_lsm s g) as (H1 & H2 & H3). apply (invl_same s); auto.
Qed.

Lemma step_active s o :
  s_active (fst (step s o)) = match o with WRotate n => n | _ => s_active s end.
Proof.
  destruct o as [k v|n| |g first es|g h|g idx| |g]; cbn [step fst]; try reflexivity.
  - destruct (flush_shape s) as [[-> _]|(id & rest & _ & _ & Hact & _)]; auto.
  - apply raft_append_lsm.
  - apply raft_set_hs_lsm.
  - apply raft_compact_lsm.
  - apply raft_reopen_lsm.
Qed.

Lemma run_invl ops : forall s, InvL s -> fresh_rotations (s_active s) ops -> InvL (run s ops).
Proof.
  induction ops as [|o ops IH]; intros s HI Hf; cbn [run]; [exact HI|].
  apply IH.
  - apply step_invl; [exact HI|]. destruct o; cbn in *; tauto.
  - rewrite step_active. destruct o; cbn in *; tauto.
Qed.

Lemma invl_init ids act : 0 < act -> InvL (init ids act).
Proof.
  intros H. constructor; cbn.
  - constructor; constructor.
  - constructor; [exact H|constructor].
Qed.

(** the flush remover never takes a segment the LSM still needs *)
Lemma flush_lsm_safe s :
  InvL s -> forall id, In id (snd (step s WFlush)) -> ~ lsm_needed s (fst (step s WFlush)) id.
Proof.
  intros [Ha _] id Hin [Hmem _]. cbn [step] in *.
  destruct (flush_shape s) as [(_ & Hnil & _)|(id0 & rest & Him & Him' & Hact & _ & _ & Hrm)].
  - rewrite Hnil in Hin. destruct Hin.
  - apply Hrm in Hin. subst id0. rewrite Him', Hact in Hmem. rewrite Him in Ha. cbn [app] in Ha.
    inversion_clear Ha as [|? ? _ Hall]. rewrite Forall_forall in Hall.
    assert (Hlt : id < id); [|lia].
    apply Hall. apply in_or_app. destruct Hmem as [->|Hr]; [right; left; reflexivity|left; exact Hr].
Qed.

(** nor does the cleanup of a reopening DB *)
Lemma recovery_lsm_safe s :
  InvL s -> forall id, In id (recovery_removed s) -> ~ lsm_needed s s id.
Proof.
  intros [_ Hb] id Hin [Hmem _]. unfold recovery_removed in Hin.
  destruct (s_logptr s =? 0); [destruct Hin|]. apply filter_In in Hin. destruct Hin as [_ Hc].
  apply andb_true_iff in Hc. destruct Hc as [Hle _]. rewrite Forall_forall in Hb.
  assert (Hlt : s_logptr s < id); [|lia].
  apply Hb. apply in_or_app. destruct Hmem as [->|Hr]; [right; left; reflexivity|left; exact Hr].
Qed.

(** without raft groups *)
Lemma step_groups_nil s o : is_raft_op o = false -> s_groups s = [] -> s_groups (fst (step s o)) = [].
Proof.
  intros Ho Hg. destruct o as [k v|n| |g first es|g h|g idx| |g]; cbn [step fst s_groups]; try discriminate; auto.
  destruct (flush_shape s) as [[-> _]|(id & rest & _ & _ & _ & Hgr & _)]; [exact Hg|]. rewrite Hgr. exact Hg.
Qed.

Lemma run_groups_nil ops : forall s, no_raft ops = true -> s_groups s = [] -> s_groups (run s ops) = [].
Proof.
  induction ops as [|o ops IH]; intros s Hn Hg; cbn [run]; [exact Hg|].
  cbn [no_raft forallb] in Hn. apply andb_true_iff in Hn. destruct Hn as [Ho Hn].
  apply IH; [exact Hn|]. apply step_groups_nil; [|exact Hg]. apply negb_true_iff. exact Ho.
Qed.

Lemma raft_needed_nil s id : s_groups s = [] -> ~ raft_needed s id.
Proof. intros Hg (g & Hin & _). rewrite Hg in Hin. destruct Hin. Qed.

Lemma step_removed_only o s id :
  In id (snd (step s o)) -> o = WFlush \/ o = WWatchdog.
Proof. destruct o; cbn [step snd]; auto; intros []. Qed.

Lemma safe_no_raft s o :
  InvL s -> s_groups s = [] -> is_raft_op o = false -> safe_step s o.
Proof.
  intros HI Hg Ho id Hin [Hl|Hr].
  - destruct (step_removed_only o s id Hin) as [->| ->].
    + exact (flush_lsm_safe s HI id Hin Hl).
    + cbn [step snd watchdog] in Hin. unfold removable in Hin. rewrite Hg in Hin. cbn in Hin. destruct Hin.
  - apply (raft_needed_nil _ id (step_groups_nil s o Ho Hg)). exact Hr.
Qed.

Lemma safe_recovery_no_raft s : InvL s -> s_groups s = [] -> safe_recovery s.
Proof.
  intros HI Hg id Hin [Hl|Hr].
  - exact (recovery_lsm_safe s HI id Hin Hl).
  - exact (raft_needed_nil s id Hg Hr).
Qed.

Theorem safe_partial ids act ops :
  0 < act -> fresh_rotations act ops ->
  let s := run (init ids act) ops in
  (forall id, In id (snd (step s WFlush)) -> ~ lsm_needed s (fst (step s WFlush)) id) /\
  (forall id, In id (recovery_removed s) -> ~ lsm_needed s s id) /\
  (no_raft ops = true -> (forall o, is_raft_op o = false -> safe_step s o) /\ safe_recovery s).
Proof.
  intros Hact Hf s.
  assert (HI : InvL s) by (apply run_invl; [apply invl_init; exact Hact|exact Hf]).
  split; [exact (flush_lsm_safe s HI)|]. split; [exact (recovery_lsm_safe s HI)|].
  intros Hn. assert (Hg : s_groups s = []) by (apply run_groups_nil; [exact Hn|reflexivity]).
  split; [intros o Ho; apply safe_no_raft; assumption|apply safe_recovery_no_raft; assumption].
Qed.

(** non-vacuity: a standalone history with rotations, flushes and watchdog runs *)
Definition w0 : list wop :=
  [WPut 0 1; WRotate 2; WPut 0 2; WPut 1 3; WFlush; WRotate 3; WWatchdog; WFlush].
Example w0_ok : fresh_rotations 1 w0 /\ no_raft w0 = true /\ seg_ids (s_segs (run (init [1] 1) w0)) = [3].
Proof. cbn. repeat split; lia. Qed.
Example w1_fresh : fresh_rotations 1 [WPut 0 1; WAppend 1 1 [(1, 5); (1, 6)]; WRotate 2; WSetHs 1 (HS 1 1 0)].
Proof. cbn. lia. Qed.

(** Proofs for C36 (Model/WalGc.v against Spec/WalGcSpec.v). *)
From Coq Require Import List NArith Bool Lia ZifyN ZifyNat ZifyBool.
From NoKV Require Import Model.RaftStore Spec.RaftStoreSpec Model.WalGc Spec.WalGcSpec.
Import ListNotations.
Local Open Scope N_scope.

(** ** the oracle decides the specification *)
Lemma existsb_eqb_In id l : existsb (N.eqb id) l = true <-> In id l.
Proof.
  rewrite existsb_exists. split.
  - intros [x [Hin He]]. apply N.eqb_eq in He. subst. exact Hin.
  - intros H. exists id. split; [exact H|apply N.eqb_refl].
Qed.

Lemma lsm_of_nonempty rs : lsm_of rs <> [] <-> exists k v q, In (WLsm k v q) rs.
Proof.
  induction rs as [|r rs IH]; cbn [lsm_of flat_map].
  - split; [congruence|intros (k & v & q & H); destruct H].
  - destruct r as [k v q|g f es|g h]; cbn [app].
    + split; [intros _; exists k, v, q; left; reflexivity|discriminate].
    + fold (lsm_of rs). rewrite IH. split; intros (k & v & q & H); exists k, v, q.
      * right. exact H.
      * destruct H as [H|H]; [discriminate|exact H].
    + fold (lsm_of rs). rewrite IH. split; intros (k & v & q & H); exists k, v, q.
      * right. exact H.
      * destruct H as [H|H]; [discriminate|exact H].
Qed.

Lemma seg_has_lsm_b_spec s id : seg_has_lsm_b s id = true <-> seg_has_lsm s id.
Proof.
  unfold seg_has_lsm_b, seg_has_lsm. destruct (seg_recs (s_segs s) id) as [rs|].
  - split.
    + intros H. assert (Hne : lsm_of rs <> []) by (destruct (lsm_of rs); [discriminate|discriminate]).
      apply lsm_of_nonempty in Hne. destruct Hne as (k & v & q & Hin). exists rs, k, v, q. auto.
    + intros (rs' & k & v & q & Heq & Hin). inversion Heq; subst rs'.
      assert (Hne : lsm_of rs <> []) by (apply lsm_of_nonempty; exists k, v, q; exact Hin).
      destruct (lsm_of rs); [congruence|reflexivity].
  - split; [discriminate|intros (rs' & k & v & q & Heq & _); discriminate].
Qed.

Lemma lsm_needed_b_spec pre post id : lsm_needed_b pre post id = true <-> lsm_needed pre post id.
Proof.
  unfold lsm_needed_b, lsm_needed. rewrite andb_true_iff, orb_true_iff, N.eqb_eq, existsb_eqb_In,
    seg_has_lsm_b_spec. tauto.
Qed.

Lemma raft_needed_b_spec s id : raft_needed_b s id = true <-> raft_needed s id.
Proof.
  unfold raft_needed_b, raft_needed. rewrite existsb_exists. split.
  - intros (g & Hin & H). exists g. split; [exact Hin|].
    apply orb_true_iff in H. destruct H as [H|H].
    + left. apply existsb_exists in H. destruct H as ([i sg] & Hin' & He). cbn in He.
      apply N.eqb_eq in He. subst. exists i. exact Hin'.
    + right. apply andb_true_iff in H. destruct H as [H1 H2]. split; [apply N.eqb_eq; exact H1|].
      apply negb_true_iff, N.eqb_neq in H2. exact H2.
  - intros (g & Hin & H). exists g. split; [exact Hin|]. apply orb_true_iff.
    destruct H as [[i Hi]|[H1 H2]].
    + left. apply existsb_exists. exists (i, id). split; [exact Hi|apply N.eqb_refl].
    + right. apply andb_true_iff. split; [apply N.eqb_eq; exact H1|].
      apply negb_true_iff, N.eqb_neq. exact H2.
Qed.

Theorem needed_b_spec pre post id : needed_b pre post id = true <-> needed pre post id.
Proof.
  unfold needed_b, needed. rewrite orb_true_iff, lsm_needed_b_spec, raft_needed_b_spec. tauto.
Qed.

(** ** refutations on the faithful model *)
Definition st0 : st := init [1] 1.
Definition e1 (l : list N) : list entry := map (fun d => (1, d)) l.

(** class 1: nothing truncated yet; the flush consults the pointers, which only
    protect the group's *latest* segment *)
Definition w1 : list wop :=
  [WPut 0 1; WAppend 1 1 (e1 [5; 6]); WRotate 2; WSetHs 1 (HS 1 1 0)].
(** class 2: the watchdog removes the segment of a memtable that is not flushed *)
Definition w2 : list wop :=
  [WPut 0 1; WAppend 1 1 (e1 [5]); WRotate 2; WAppend 1 2 (e1 [6]); WCompact 1 2].
(** class 3: a memtable without LSM writes is "flushed" by deleting its segment *)
Definition w3 : list wop := [WAppend 1 1 (e1 [5]); WSetHs 1 (HS 1 2 0); WRotate 2].
(** the latest hard state lives below SegmentIndex *)
Definition w1b : list wop :=
  [WPut 0 1; WSetHs 1 (HS 3 2 0); WRotate 2; WAppend 1 1 (e1 [5; 6]); WCompact 1 1].

Lemma safe_refuted_flush : ~ safe_step (run st0 w1) WFlush.
Proof.
  intros H. apply (H 1); [vm_compute; auto|]. apply needed_b_spec. vm_compute. reflexivity.
Qed.
Lemma safe_refuted_watchdog : ~ safe_step (run st0 w2) WWatchdog.
Proof.
  intros H. apply (H 1); [vm_compute; auto|]. apply needed_b_spec. vm_compute. reflexivity.
Qed.
Lemma safe_refuted_empty_flush : ~ safe_step (run st0 w3) WFlush.
Proof.
  intros H. apply (H 1); [vm_compute; auto|]. apply needed_b_spec. vm_compute. reflexivity.
Qed.
Lemma safe_refuted_hs_below_segidx : ~ safe_step (run st0 w1b) WFlush.
Proof.
  intros H. apply (H 1); [vm_compute; auto|]. apply needed_b_spec. vm_compute. reflexivity.
Qed.
Lemma safe_refuted_watchdog_is_lsm : lsm_needed (run st0 w2) (fst (step (run st0 w2) WWatchdog)) 1.
Proof. apply lsm_needed_b_spec. vm_compute. reflexivity. Qed.

(** recovery: a removal that respected every pointer (only truncated entries
    and a superseded hard state went away) still leaves a log that
    OpenWALStorage cannot replay; and a needed removal loses the log *)
Definition w4 : list wop :=
  [WPut 0 1; WSetHs 1 (HS 1 1 0); WAppend 1 1 (e1 [5; 6]); WRotate 2; WSetHs 1 (HS 1 1 2);
   WAppend 1 3 (e1 [7; 8]); WCompact 1 3; WFlush].
Lemma recover_refuted_legit_removal :
  (forall id, In id (snd (step (run st0 (removelast w4)) WFlush)) ->
     ~ needed (run st0 (removelast w4)) (run st0 w4) id) /\
  snd (step (run st0 (removelast w4)) WFlush) = [1] /\
  ~ raft_recovered_ok 1 w4 (recovered_raft (run st0 w4) 1).
Proof.
  split; [|split].
  - intros id Hin Hn. apply needed_b_spec in Hn. vm_compute in Hin. destruct Hin as [<-|[]].
    vm_compute in Hn. discriminate.
  - vm_compute. reflexivity.
  - intros H. destruct (H _ _ eq_refl) as (o & Ho & _). vm_compute in Ho. discriminate.
Qed.
Lemma recover_refuted_lost_log :
  ~ raft_recovered_ok 1 (w1 ++ [WFlush]) (recovered_raft (run st0 (w1 ++ [WFlush])) 1).
Proof.
  intros H. destruct (H _ _ eq_refl) as (o & Ho & _ & Hlast & _). vm_compute in Ho.
  inversion Ho; subst o. vm_compute in Hlast. discriminate.
Qed.
Lemma recover_refuted_lost_write :
  recovered_get (run st0 (w2 ++ [WWatchdog])) 0 <> expect_get (w2 ++ [WWatchdog]) 0 None.
Proof. vm_compute. discriminate. Qed.

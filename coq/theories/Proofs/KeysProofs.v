(** Facts about the internal key layout (Model/Keys.v).  Other families
    import this file for [compare_keys_enc], [split_enc_ikey], [ikey_compare_*]. *)
From Coq Require Import List NArith ZArith Bool Lia ZifyN ZifyNat ZifyBool.
From Coq Require Import Init.Byte.
From NoKV Require Import Base.Bytes Base.Num Model.Keys.
Import ListNotations.
Local Open Scope N_scope.

Lemma bytes_cmp_app_eqlen (a1 b1 a2 b2 : bytes) :
  length a1 = length b1 ->
  bytes_cmp (a1 ++ a2) (b1 ++ b2) =
  match bytes_cmp a1 b1 with Eq => bytes_cmp a2 b2 | c => c end.
Proof.
  revert b1. induction a1 as [|x a1 IH]; intros [|y b1] H; simpl in H; try discriminate.
  - reflexivity.
  - cbn [app bytes_cmp]. destruct (N.compare (b2n x) (b2n y)); auto.
Qed.

Lemma bytes_cmp_app_same (p a b : bytes) : bytes_cmp (p ++ a) (p ++ b) = bytes_cmp a b.
Proof. rewrite bytes_cmp_app_eqlen by reflexivity. now rewrite bytes_cmp_refl. Qed.

Lemma cmp_digits a3 a2 a1 a0 b3 b2 b1 b0 :
  a3 < 256 -> a2 < 256 -> a1 < 256 -> a0 < 256 -> b3 < 256 -> b2 < 256 -> b1 < 256 -> b0 < 256 ->
  match a3 ?= b3 with
  | Eq => match a2 ?= b2 with
          | Eq => match a1 ?= b1 with
                  | Eq => a0 ?= b0
                  | c => c
                  end
          | c => c
          end
  | c => c
  end = (a3 * 16777216 + a2 * 65536 + a1 * 256 + a0 ?= b3 * 16777216 + b2 * 65536 + b1 * 256 + b0).
Proof.
  intros.
  destruct (N.compare_spec a3 b3); [destruct (N.compare_spec a2 b2); [destruct (N.compare_spec a1 b1);
    [destruct (N.compare_spec a0 b0)|..]|..]|..];
  symmetry; first [apply N.compare_eq_iff; lia | apply N.compare_lt_iff; lia | apply N.compare_gt_iff; lia].
Qed.

Lemma bytes_cmp_be32 x y : bytes_cmp (be32 x) (be32 y) = (x mod two32 ?= y mod two32).
Proof.
  unfold be32. cbn [bytes_cmp]. rewrite !b2n_n2b_mod.
  rewrite <- (be32_val_be32 x), <- (be32_val_be32 y). unfold be32_val. rewrite !b2n_n2b_mod.
  unfold two24, two16, two8.
  assert (Hm : forall n, n mod 256 < 256) by (intro n; apply N.mod_lt; lia).
  rewrite <- cmp_digits by apply Hm.
  repeat match goal with |- context [match ?c with _ => _ end] => destruct c end; reflexivity.
Qed.

Lemma bytes_cmp_be64 x y : x < two64 -> y < two64 -> bytes_cmp (be64 x) (be64 y) = (x ?= y).
Proof.
  intros Hx Hy. unfold be64. rewrite bytes_cmp_app_eqlen by reflexivity.
  rewrite !bytes_cmp_be32.
  assert (E1 : (x / two32) mod two32 = x / two32) by (unfold two32, two64 in *; zdm).
  assert (E2 : (y / two32) mod two32 = y / two32) by (unfold two32, two64 in *; zdm).
  rewrite E1, E2.
  destruct (N.compare_spec (x / two32) (y / two32)) as [E|E|E].
  - destruct (N.compare_spec (x mod two32) (y mod two32)) as [F|F|F]; symmetry;
      [apply N.compare_eq_iff | apply N.compare_lt_iff | apply N.compare_gt_iff];
      unfold two32 in *; zdm.
  - symmetry. apply N.compare_lt_iff. unfold two32 in *. zdm.
  - symmetry. apply N.compare_gt_iff. unfold two32 in *. zdm.
Qed.

(** * shape of an encoded key *)

Lemma blen_key_with_ts k ts : blen (key_with_ts k ts) = blen k + 8.
Proof. unfold key_with_ts. now rewrite blen_app, blen_be64. Qed.

Lemma take_key_with_ts k ts : take (blen (key_with_ts k ts) - 8) (key_with_ts k ts) = k.
Proof.
  rewrite blen_key_with_ts. replace (blen k + 8 - 8) with (blen k) by lia.
  unfold key_with_ts. apply take_app_exact.
Qed.

Lemma drop_key_with_ts k ts :
  drop (blen (key_with_ts k ts) - 8) (key_with_ts k ts) = be64 (max_u64 - ts).
Proof.
  rewrite blen_key_with_ts. replace (blen k + 8 - 8) with (blen k) by lia.
  unfold key_with_ts. apply drop_app_exact.
Qed.

Lemma parse_key_with_ts k ts : parse_key (key_with_ts k ts) = k.
Proof.
  unfold parse_key. destruct (blen (key_with_ts k ts) <? 8) eqn:E.
  - rewrite blen_key_with_ts in E. lia.
  - apply take_key_with_ts.
Qed.

Lemma parse_ts_key_with_ts k ts : ts < two64 -> 0 < blen k -> parse_ts (key_with_ts k ts) = ts.
Proof.
  intros Hts Hk. unfold parse_ts. destruct (blen (key_with_ts k ts) <=? 8) eqn:E.
  - rewrite blen_key_with_ts in E. lia.
  - rewrite drop_key_with_ts. rewrite <- (app_nil_r (be64 _)), rd_be64_be64.
    unfold max_u64, two64 in *. rewrite N.mod_small by lia. lia.
Qed.

Lemma norm_cf_le cf : norm_cf cf <= 2.
Proof. unfold norm_cf, cf_valid, cf_default. destruct (cf <=? 2) eqn:E; lia. Qed.

Lemma norm_cf_id cf : cf <= 2 -> norm_cf cf = cf.
Proof. unfold norm_cf, cf_valid. intro H. destruct (cf <=? 2) eqn:E; [reflexivity|lia]. Qed.

Lemma decode_enc_cf_key cf u : decode_key_cf (enc_cf_key cf u) = (norm_cf cf, u, true).
Proof.
  unfold enc_cf_key, cf_marker. cbn [app decode_key_cf].
  rewrite !byte_eqb_refl. cbn [andb].
  pose proof (norm_cf_le cf) as H. rewrite b2n_n2b by lia.
  unfold cf_valid. destruct (norm_cf cf <=? 2) eqn:E; [reflexivity|lia].
Qed.

Lemma blen_enc_cf_key cf u : blen (enc_cf_key cf u) = blen u + 4.
Proof. unfold enc_cf_key, cf_marker. cbn [app]. rewrite !blen_cons. lia. Qed.

(** SplitInternalKey (InternalKey cf k ts) = (cf, k, ts) *)
Lemma split_enc_ikey k : ikey_wf k -> split_ikey (enc_ikey k) = k.
Proof.
  destruct k as [cf u v]. unfold ikey_wf, enc_ikey, split_ikey. cbn [ik_cf ik_ukey ik_ver]. intros [Hc Hv].
  rewrite parse_key_with_ts, decode_enc_cf_key, norm_cf_id by exact Hc.
  rewrite parse_ts_key_with_ts; [reflexivity|exact Hv|rewrite blen_enc_cf_key; lia].
Qed.

(** an invalid column family is stored as the default one *)
Lemma enc_ikey_norm k :
  enc_ikey k = enc_ikey {| ik_cf := norm_cf (ik_cf k); ik_ukey := ik_ukey k; ik_ver := ik_ver k |}.
Proof.
  unfold enc_ikey, enc_cf_key. cbn [ik_cf ik_ukey ik_ver].
  now rewrite (norm_cf_id (norm_cf (ik_cf k))) by apply norm_cf_le.
Qed.

Lemma blen_enc_ikey k : blen (enc_ikey k) = blen (ik_ukey k) + 12.
Proof. unfold enc_ikey. rewrite blen_key_with_ts, blen_enc_cf_key. lia. Qed.

(** * C16_key_order *)
Lemma compare_keys_enc a b :
  ikey_wf a -> ikey_wf b ->
  compare_keys (enc_ikey a) (enc_ikey b) = Some (ikey_compare a b).
Proof.
  intros [Hca Hva] [Hcb Hvb]. unfold compare_keys.
  destruct ((blen (enc_ikey a) <=? 8) || (blen (enc_ikey b) <=? 8)) eqn:E.
  { rewrite !blen_enc_ikey in E. lia. }
  unfold enc_ikey. rewrite !take_key_with_ts, !drop_key_with_ts.
  unfold enc_cf_key. rewrite bytes_cmp_app_same. cbn [bytes_cmp].
  rewrite !norm_cf_id by assumption. rewrite !b2n_n2b by lia.
  unfold ikey_compare.
  destruct (ik_cf a ?= ik_cf b); try reflexivity.
  destruct (bytes_cmp (ik_ukey a) (ik_ukey b)); try reflexivity.
  f_equal. rewrite bytes_cmp_be64 by (unfold max_u64, two64 in *; lia).
  destruct (N.compare_spec (ik_ver b) (ik_ver a)) as [F|F|F];
    [apply N.compare_eq_iff | apply N.compare_lt_iff | apply N.compare_gt_iff];
    unfold max_u64, two64 in *; lia.
Qed.

(** CompareKeys never panics on encoded keys *)
Lemma compare_keys_enc_total a b : compare_keys (enc_ikey a) (enc_ikey b) <> None.
Proof.
  unfold compare_keys.
  destruct ((blen (enc_ikey a) <=? 8) || (blen (enc_ikey b) <=? 8)) eqn:E.
  { rewrite !blen_enc_ikey in E. lia. }
  destruct (bytes_cmp _ _); discriminate.
Qed.

(** * the logical order is a strict total order on well-formed keys *)
Lemma ikey_compare_refl a : ikey_compare a a = Eq.
Proof. unfold ikey_compare. now rewrite !N.compare_refl, bytes_cmp_refl. Qed.

Lemma ikey_compare_eq a b : ikey_compare a b = Eq -> a = b.
Proof.
  destruct a as [c1 u1 v1], b as [c2 u2 v2]. unfold ikey_compare. cbn [ik_cf ik_ukey ik_ver].
  destruct (N.compare_spec c1 c2) as [Ec|Ec|Ec]; try discriminate.
  destruct (bytes_cmp u1 u2) eqn:E; try discriminate.
  apply bytes_cmp_eq in E. intro Hv. apply N.compare_eq_iff in Hv. now subst.
Qed.

Lemma ikey_compare_antisym a b : ikey_compare b a = CompOpp (ikey_compare a b).
Proof.
  unfold ikey_compare. rewrite (N.compare_antisym (ik_cf a) (ik_cf b)).
  destruct (ik_cf a ?= ik_cf b); simpl; try reflexivity.
  rewrite (bytes_cmp_antisym (ik_ukey a) (ik_ukey b)).
  destruct (bytes_cmp (ik_ukey a) (ik_ukey b)); simpl; try reflexivity.
  apply N.compare_antisym.
Qed.

Lemma ikey_compare_lt_trans a b c :
  ikey_compare a b = Lt -> ikey_compare b c = Lt -> ikey_compare a c = Lt.
Proof.
  destruct a as [c1 u1 v1], b as [c2 u2 v2], c as [c3 u3 v3].
  unfold ikey_compare. cbn [ik_cf ik_ukey ik_ver].
  destruct (N.compare_spec c1 c2) as [E1|E1|E1]; try discriminate;
  destruct (N.compare_spec c2 c3) as [E2|E2|E2]; try discriminate; intros H1 H2.
  - subst. rewrite N.compare_refl.
    destruct (bytes_cmp u1 u2) eqn:F1; try discriminate;
    destruct (bytes_cmp u2 u3) eqn:F2; try discriminate.
    + apply bytes_cmp_eq in F1, F2. subst. rewrite bytes_cmp_refl.
      rewrite N.compare_lt_iff in H1, H2. apply N.compare_lt_iff. lia.
    + apply bytes_cmp_eq in F1. subst. now rewrite F2.
    + apply bytes_cmp_eq in F2. subst. now rewrite F1.
    + now rewrite (bytes_cmp_lt_trans _ _ _ F1 F2).
  - subst. assert (E : c2 ?= c3 = Lt) by now apply N.compare_lt_iff. now rewrite E.
  - subst. assert (E : c1 ?= c3 = Lt) by now apply N.compare_lt_iff. now rewrite E.
  - assert (E : c1 ?= c3 = Lt) by (apply N.compare_lt_iff; lia). now rewrite E.
Qed.

(** SameKey on encoded keys = same column family and user key *)
Lemma same_key_enc a b :
  ikey_wf a -> ikey_wf b ->
  same_key (enc_ikey a) (enc_ikey b) = (ik_cf a =? ik_cf b) && bytes_eqb (ik_ukey a) (ik_ukey b).
Proof.
  intros [Hca _] [Hcb _]. unfold same_key. rewrite !blen_enc_ikey.
  unfold enc_ikey. rewrite !parse_key_with_ts. unfold enc_cf_key, cf_marker.
  cbn [app bytes_eqb]. rewrite !byte_eqb_refl. cbn [andb]. rewrite !norm_cf_id by assumption.
  destruct (ik_cf a =? ik_cf b) eqn:Ec.
  - apply N.eqb_eq in Ec. rewrite Ec, byte_eqb_refl. cbn [andb].
    destruct (bytes_eqb (ik_ukey a) (ik_ukey b)) eqn:Eu.
    + apply bytes_eqb_eq in Eu. rewrite Eu, N.eqb_refl. reflexivity.
    + apply andb_false_r.
  - assert (Hb : byte_eqb (n2b (ik_cf a)) (n2b (ik_cf b)) = false).
    { apply byte_eqb_neq. intro H. apply n2b_inj in H; [|lia|lia]. apply N.eqb_neq in Ec. contradiction. }
    rewrite Hb. cbn [andb]. apply andb_false_r.
Qed.

(** CompareUserKeys on encoded keys orders by (cf, user key) *)
Lemma compare_user_keys_enc a b :
  ikey_wf a -> ikey_wf b ->
  compare_user_keys (enc_ikey a) (enc_ikey b) =
  match ik_cf a ?= ik_cf b with Eq => bytes_cmp (ik_ukey a) (ik_ukey b) | c => c end.
Proof.
  intros [Hca _] [Hcb _]. unfold compare_user_keys, enc_ikey. rewrite !parse_key_with_ts.
  unfold enc_cf_key. rewrite bytes_cmp_app_same. cbn [bytes_cmp].
  rewrite !norm_cf_id by assumption. now rewrite !b2n_n2b by lia.
Qed.

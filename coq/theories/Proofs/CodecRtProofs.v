(** Remaining round trips of C16: write record, raft entry batch, entry record. *)
From Coq Require Import List Arith NArith ZArith Bool Lia ZifyN ZifyNat ZifyBool.
From Coq Require Import Init.Byte.
From NoKV Require Import Base.Bytes Base.Num Base.Varint Base.Crc32c Model.EntryCodec Model.PercoCodec Model.RaftCodec
  Proofs.CodecProofs Proofs.ManifestCodecProofs.
Import ListNotations.
Local Open Scope N_scope.

(** * write record *)
Lemma at_var_cursor data pos x rest :
  cursor data pos (put_uvarint x ++ rest) -> x < two64 ->
  at_var data pos = DVal (x, pos + blen (put_uvarint x)) /\ cursor data (pos + blen (put_uvarint x)) rest.
Proof.
  intros Hc Hx. split; [|now apply cursor_adv].
  unfold at_var. pose proof (cursor_len _ _ _ Hc) as Hl.
  destruct (blen data <? pos) eqn:E; [lia|].
  rewrite (cursor_drop _ _ _ Hc), uvarint_put by exact Hx. reflexivity.
Qed.

Definition write_ok (w : write) : Prop := w_kind w < 256 /\ w_start w < two64 /\ blen (w_short w) < two64.

Lemma rt_write w : write_ok w -> decode_write (enc_write w) = DVal w.
Proof.
  intros (Hk & Hs & Hl). destruct w as [kind st sv]. cbn [w_kind w_start w_short] in *.
  unfold enc_write. cbn [w_kind w_start w_short].
  set (tl := if 0 <? blen sv then x01 :: put_uvarint (blen sv) ++ sv else [x00]).
  assert (Hc : cursor (x01 :: n2b kind :: put_uvarint st ++ tl) 2 (put_uvarint st ++ tl)).
  { exists [x01; n2b kind]. split; reflexivity. }
  set (data := x01 :: n2b kind :: put_uvarint st ++ tl) in *.
  pose proof (blen_put st) as Hps.
  assert (Htl : 1 <= blen tl) by (unfold tl; destruct (0 <? blen sv); rewrite blen_cons; lia).
  unfold decode_write.
  assert (Hshape : exists a b c d, data = a :: b :: c :: d /\ a = x01 /\ b = n2b kind).
  { unfold data. destruct (put_uvarint st ++ tl) as [|c d] eqn:E.
    - exfalso. assert (blen (put_uvarint st ++ tl) = 0) by now rewrite E. rewrite blen_app in H. lia.
    - exists x01, (n2b kind), c, d. auto. }
  destruct Hshape as [a [b [c [d (Ed & -> & ->)]]]]. rewrite Ed. rewrite <- Ed.
  rewrite byte_eqb_refl. cbn [negb].
  destruct (at_var_cursor _ _ _ _ Hc Hs) as [E1 Hc1]. rewrite E1.
  pose proof (cursor_len _ _ _ Hc1) as Hl1.
  destruct (blen data <=? 2 + blen (put_uvarint st)) eqn:E2; [lia|].
  rewrite (cursor_drop _ _ _ Hc1). rewrite b2n_n2b by exact Hk.
  unfold tl in *. destruct (0 <? blen sv) eqn:E0.
  - rewrite byte_eqb_refl.
    assert (Hc1' : cursor data (2 + blen (put_uvarint st) + 1) (put_uvarint (blen sv) ++ sv ++ [])).
    { rewrite app_nil_r. change (x01 :: put_uvarint (blen sv) ++ sv) with ([x01] ++ put_uvarint (blen sv) ++ sv) in Hc1.
      apply cursor_adv in Hc1. exact Hc1. }
    destruct (at_var_cursor _ _ _ _ Hc1' Hl) as [E3 Hc2]. rewrite E3.
    pose proof (cursor_len _ _ _ Hc2) as Hl2. rewrite blen_app, blen_nil in Hl2.
    match goal with |- context [blen data - ?p <? blen sv] => replace (blen data - p <? blen sv) with false by lia end.
    rewrite (cursor_drop _ _ _ Hc2), take_app_exact. reflexivity.
  - assert (sv = []) by (destruct sv; [reflexivity|rewrite blen_cons in E0; lia]). subst sv. reflexivity.
Qed.

(** * raft entry batch *)
Lemma ix_var_cursor data pos x rest :
  cursor data pos (put_uvarint x ++ rest) -> x < two64 ->
  ix_var data pos = Some (x, pos + blen (put_uvarint x)) /\ cursor data (pos + blen (put_uvarint x)) rest.
Proof.
  intros Hc Hx. split; [|now apply cursor_adv].
  unfold ix_var. pose proof (cursor_len _ _ _ Hc) as Hl. rewrite blen_app in Hl. pose proof (blen_put x).
  destruct (blen data <=? pos) eqn:E; [lia|].
  rewrite (cursor_drop _ _ _ Hc), uvarint_put by exact Hx. reflexivity.
Qed.

Definition enc_bodies (bodies : list bytes) : bytes := concat (map (fun b => put_uvarint (blen b) ++ b) bodies).

Lemma dec_bodies_enc bodies : forall data pos,
  cursor data pos (enc_bodies bodies) -> Forall (fun b => blen b < two64) bodies ->
  dec_bodies (length bodies) data pos = Some bodies.
Proof.
  induction bodies as [|b bs IH]; intros data pos Hc Hok; [reflexivity|].
  inversion Hok as [|? ? Hb Hbs]; subst.
  unfold enc_bodies in Hc. cbn [map concat] in Hc. rewrite <- app_assoc in Hc. fold (enc_bodies bs) in Hc.
  cbn [length dec_bodies].
  destruct (ix_var_cursor _ _ _ _ Hc Hb) as [E1 Hc1]. rewrite E1.
  pose proof (cursor_len _ _ _ Hc1) as Hl1. rewrite blen_app in Hl1.
  match goal with |- context [blen data - ?p <? blen b] => replace (blen data - p <? blen b) with false by lia end.
  rewrite (cursor_drop _ _ _ Hc1), take_app_exact.
  apply cursor_adv in Hc1. now rewrite (IH _ _ Hc1 Hbs).
Qed.

Lemma blen_enc_bodies bodies : N.of_nat (length bodies) <= blen (enc_bodies bodies).
Proof.
  induction bodies as [|b bs IH]; [cbn; lia|].
  unfold enc_bodies in *. cbn [map concat length]. rewrite !blen_app. pose proof (blen_put (blen b)). lia.
Qed.

Lemma rt_raft_entries gid bodies :
  gid < two64 -> N.of_nat (length bodies) < two64 -> Forall (fun b => blen b < two64) bodies ->
  decode_raft_entries (enc_raft_entries gid bodies) = Some (gid, bodies).
Proof.
  intros Hg Hn Hok. unfold enc_raft_entries. fold (enc_bodies bodies).
  set (data := put_uvarint gid ++ put_uvarint (N.of_nat (length bodies)) ++ enc_bodies bodies).
  assert (Hc : cursor data 0 (put_uvarint gid ++ put_uvarint (N.of_nat (length bodies)) ++ enc_bodies bodies)).
  { exists []. split; reflexivity. }
  unfold decode_raft_entries.
  destruct (ix_var_cursor _ _ _ _ Hc Hg) as [E1 Hc1]. rewrite E1.
  destruct (ix_var_cursor _ _ _ _ Hc1 Hn) as [E2 Hc2]. rewrite E2.
  pose proof (cursor_len _ _ _ Hc2) as Hl. pose proof (blen_enc_bodies bodies).
  destruct (blen data <? N.of_nat (length bodies)) eqn:E3; [lia|].
  rewrite Nat2N.id, (dec_bodies_enc _ _ _ Hc2 Hok). reflexivity.
Qed.

(** * entry record *)
Definition entry_ok (e : entry) : Prop :=
  blen (e_key e) < two32 /\ blen (e_val e) < two32 /\ e_meta e < 256 /\ e_exp e < two64.

Lemma rd_var_put first x rest :
  x < two64 -> rd_var first (put_uvarint x ++ rest) = inr (x, rest).
Proof.
  intro H. unfold rd_var. rewrite read_uvarint_put by exact H. now rewrite drop_app_exact.
Qed.

Lemma rt_entry e rest :
  entry_ok e ->
  decode_entry_from (enc_entry e ++ rest) = EdOk e (u32 (blen (enc_entry e))) rest.
Proof.
  intros (Hk & Hv & Hm & Hx). destruct e as [key val meta exp]. cbn [e_key e_val e_meta e_exp] in *.
  unfold enc_entry, enc_entry_body. cbn [e_key e_val e_meta e_exp].
  rewrite !u32_small by assumption.
  set (hd := enc_header (blen key) (blen val) meta exp).
  set (body := hd ++ key ++ val).
  set (bs := (body ++ be32 (crc32c body)) ++ rest).
  assert (Hbs : bs = put_uvarint (blen key) ++ put_uvarint (blen val) ++ put_uvarint meta ++ put_uvarint exp ++
                     key ++ val ++ be32 (crc32c body) ++ rest).
  { unfold bs, body, hd, enc_header. now rewrite <- !app_assoc. }
  assert (H64 : forall x, x < two32 -> x < two64) by (intros; unfold two32, two64 in *; lia).
  assert (Hh : decode_header_from bs = inr ((blen key, blen val, meta, exp), key ++ val ++ be32 (crc32c body) ++ rest)).
  { unfold decode_header_from. rewrite Hbs.
    rewrite rd_var_put by auto. rewrite rd_var_put by auto.
    assert (Hm64 : meta < two64) by (unfold two64; lia).
    rewrite rd_var_put by exact Hm64.
    destruct (255 <? meta) eqn:E; [lia|]. rewrite rd_var_put by exact Hx.
    now rewrite !u32_small by assumption. }
  unfold decode_entry_from. rewrite Hh.
  assert (Hhl : blen bs - blen (key ++ val ++ be32 (crc32c body) ++ rest) = blen hd).
  { unfold bs, body. rewrite !blen_app. lia. }
  rewrite Hhl.
  destruct (blen (key ++ val ++ be32 (crc32c body) ++ rest) <? blen key) eqn:E1; [rewrite blen_app in E1; lia|].
  rewrite take_app_exact, drop_app_exact.
  destruct (blen (val ++ be32 (crc32c body) ++ rest) <? blen val) eqn:E2; [rewrite blen_app in E2; lia|].
  rewrite take_app_exact, drop_app_exact, rd_be32_be32.
  assert (Hb : blen hd + blen key + blen val = blen body) by (unfold body; rewrite !blen_app; lia).
  rewrite Hb. unfold bs at 1. rewrite <- app_assoc, take_app_exact.
  rewrite N.mod_small by (pose proof (crc32c_lt body); unfold two32c, two32 in *; lia).
  rewrite N.eqb_refl. change (drop 4 (be32 ?n ++ ?r)) with r.
  f_equal. f_equal. rewrite blen_app. change (blen (be32 _)) with 4. reflexivity.
Qed.

(** Proofs for C08 (value log): record round trip, pointer stability under
    appends and rotation, the read-your-writes invariant of the DB layer, GC. *)
From Coq Require Import List Arith NArith ZArith Bool Lia ZifyN ZifyNat ZifyBool.
From Coq Require Import Init.Byte.
From NoKV Require Import Base.Bytes Base.Num Base.Varint Base.Crc32c Model.EntryCodec Model.Lsm Model.Vlog
     Spec.MvccSpec Spec.VlogSpec Spec.LsmSpec Proofs.LsmRead Proofs.LsmMain Proofs.LsmPreserve.
Import ListNotations.
Local Open Scope N_scope.

(** * One record: DecodeValueSlice (EncodeEntry e) returns e's value *)
Definition entry_ok (e : entry) : Prop :=
  blen (e_key e) < two32 /\ blen (e_val e) < two32 /\ e_meta e < 256 /\ e_exp e < two64.

Lemma u32_small' x : x < two32 -> u32 x = x.
Proof. intro H. unfold u32. now apply N.mod_small. Qed.

Lemma rd_be32_be32' n : rd_be32 (be32 n) = Some (n mod two32).
Proof. rewrite <- (app_nil_r (be32 n)). apply rd_be32_be32. Qed.

Lemma sl_var_at pre x rest :
  x < two64 ->
  sl_var (pre ++ put_uvarint x ++ rest) (blen pre) = Some (x, blen pre + blen (put_uvarint x)).
Proof.
  intro H. unfold sl_var. pose proof (put_uvarint_len x) as Hl.
  destruct (blen (pre ++ put_uvarint x ++ rest) <=? blen pre) eqn:E.
  - rewrite !blen_app in E. lia.
  - rewrite drop_app_exact, uvarint_put by exact H. reflexivity.
Qed.

Lemma rt_value_slice e :
  entry_ok e ->
  decode_value_slice (enc_entry e) = VsOk (e_val e) (blen (e_key e)) (blen (e_val e)) (e_meta e) (e_exp e).
Proof.
  intros (Hk & Hv & Hm & Hx). destruct e as [key val meta exp]. cbn [e_key e_val e_meta e_exp] in *.
  assert (H64 : forall x, x < two32 -> x < two64) by (intros; unfold two32, two64 in *; lia).
  assert (Hm64 : meta < two64) by (unfold two64; lia).
  unfold enc_entry, enc_entry_body. cbn [e_key e_val e_meta e_exp].
  rewrite !u32_small' by assumption.
  set (pk := put_uvarint (blen key)). set (pv := put_uvarint (blen val)).
  set (pm := put_uvarint meta). set (px := put_uvarint exp).
  set (body := enc_header (blen key) (blen val) meta exp ++ key ++ val).
  set (bs := body ++ be32 (crc32c body)).
  assert (Hbody : body = pk ++ pv ++ pm ++ px ++ key ++ val).
  { unfold body, enc_header. now rewrite <- !app_assoc. }
  assert (H1 : sl_var bs 0 = Some (blen key, blen pk)).
  { unfold bs. rewrite Hbody, <- !app_assoc.
    change (sl_var (pk ++ ?r) 0) with (sl_var ([] ++ pk ++ r) (blen [])).
    unfold pk. rewrite sl_var_at by auto. reflexivity. }
  assert (H2 : sl_var bs (blen pk) = Some (blen val, blen pk + blen pv)).
  { unfold bs. rewrite Hbody, <- !app_assoc. unfold pv. rewrite sl_var_at by auto; reflexivity. }
  assert (H3 : sl_var bs (blen pk + blen pv) = Some (meta, blen pk + blen pv + blen pm)).
  { unfold bs. rewrite Hbody, <- !app_assoc. rewrite <- blen_app.
    rewrite (app_assoc pk pv). unfold pm. rewrite sl_var_at by auto; reflexivity. }
  assert (H4 : sl_var bs (blen pk + blen pv + blen pm) = Some (exp, blen pk + blen pv + blen pm + blen px)).
  { unfold bs. rewrite Hbody, <- !app_assoc. rewrite <- !blen_app.
    rewrite (app_assoc pk pv), (app_assoc (pk ++ pv) pm). unfold px. rewrite sl_var_at by auto.
    f_equal. f_equal. rewrite !blen_app. reflexivity. }
  assert (Hh : decode_header bs = inr ((blen key, blen val, meta, exp), blen pk + blen pv + blen pm + blen px)).
  { unfold decode_header. rewrite H1, H2, H3.
    destruct (255 <? meta) eqn:E; [lia|]. rewrite H4. now rewrite !u32_small' by assumption. }
  unfold decode_value_slice. rewrite Hh.
  set (hl := blen pk + blen pv + blen pm + blen px).
  assert (Hhl : hl + blen key + blen val = blen body).
  { unfold hl. rewrite Hbody, !blen_app. lia. }
  assert (Hbs : blen bs = blen body + 4).
  { unfold bs. rewrite blen_app. reflexivity. }
  rewrite Hhl. destruct (blen bs <? blen body + 4) eqn:E; [lia|].
  unfold bs at 1 2. rewrite drop_app_exact, take_app_exact, rd_be32_be32'.
  rewrite N.mod_small by (pose proof (crc32c_lt body); unfold two32c, two32 in *; lia).
  rewrite N.eqb_refl. f_equal.
  assert (Hd : Num.drop (hl + blen key) bs = val ++ be32 (crc32c body)).
  { assert (Hpre : bs = (pk ++ pv ++ pm ++ px ++ key) ++ val ++ be32 (crc32c body)).
    { unfold bs. rewrite Hbody at 1. now rewrite <- !app_assoc. }
    assert (Hl : hl + blen key = blen (pk ++ pv ++ pm ++ px ++ key)).
    { unfold hl. rewrite !blen_app. lia. }
    rewrite Hl, Hpre. apply drop_app_exact. }
  rewrite Hd. apply take_app_exact.
Qed.

(** * Looking a pointer up *)
Definition f_lookup (f : vfile) (off len : N) : option vrec :=
  match find (fun v => vr_off v =? off) (vf_recs f) with
  | Some v => if vr_len v =? len then Some v else None
  | None => None
  end.
Definition b_lookup (b : bucket) (fid off len : N) : option vrec :=
  match find_file b fid with Some f => f_lookup f off len | None => None end.
Definition vl_lookup (vl : list bucket) (p : vptr) : option vrec :=
  match nth_error vl (N.to_nat (p_bucket p)) with
  | Some b => b_lookup b (p_fid p) (p_off p) (p_len p)
  | None => None
  end.

Definition rec_ok (r : rec) : Prop := entry_ok (entry_of r).

Lemma vl_read_lookup vl p v :
  vl_lookup vl p = Some v -> rec_ok (vr_rec v) -> vl_read vl p = Some (r_val (vr_rec v)).
Proof.
  unfold vl_lookup, b_lookup, f_lookup, vl_read. intros H Hok.
  destruct (nth_error vl (N.to_nat (p_bucket p))) as [b|]; [|discriminate].
  destruct (find_file b (p_fid p)) as [f|]; [|discriminate].
  destruct (find (fun v0 => vr_off v0 =? p_off p) (vf_recs f)) as [v0|]; [|discriminate].
  destruct (vr_len v0 =? p_len p); [|discriminate]. inversion H; subst v0.
  rewrite (rt_value_slice _ Hok). reflexivity.
Qed.

Lemma find_app_l {A} (f : A -> bool) l l' x : find f l = Some x -> find f (l ++ l') = Some x.
Proof. induction l as [|a l IH]; cbn; [discriminate|]. destruct (f a); auto. Qed.

Lemma find_app_r {A} (f : A -> bool) l l' : (forall a, In a l -> f a = false) -> find f (l ++ l') = find f l'.
Proof.
  induction l as [|a l IH]; cbn; intro H; [reflexivity|].
  rewrite (H a) by auto. apply IH. intros; apply H; auto.
Qed.

Lemma rec_len_pos r : 4 <= rec_len r.
Proof. unfold rec_len. lia. Qed.

(** records of one reservation: found at their offsets *)
Lemma place_off start rs v : In v (place start rs) -> start <= vr_off v.
Proof.
  revert start. induction rs as [|r rs IH]; intros start H; cbn in H; [contradiction|].
  destruct H as [<-|H]; cbn; [lia|]. specialize (IH _ H). pose proof (rec_len_pos r). lia.
Qed.

Lemma place_find start rs v :
  In v (place start rs) -> find (fun x => vr_off x =? vr_off v) (place start rs) = Some v.
Proof.
  revert start. induction rs as [|r rs IH]; intros start H; cbn in H; [contradiction|].
  cbn [place find]. destruct H as [<-|H]; cbn [vr_off].
  - now rewrite N.eqb_refl.
  - pose proof (place_off _ _ _ H). pose proof (rec_len_pos r).
    destruct (start =? vr_off v) eqn:E; [lia|]. now apply IH.
Qed.

Lemma place_spec start rs :
  Forall2 (fun r v => vr_rec v = r /\ vr_len v = rec_len r) rs (place start rs).
Proof. revert start. induction rs as [|r rs IH]; intro start; cbn; constructor; auto. Qed.

(** * Well-formed buckets *)
Record bwf (b : bucket) : Prop := {
  bw_le : forall f, In f (b_files b) -> vf_fid f <= b_active b;
  bw_act : exists f, In f (b_files b) /\ vf_fid f = b_active b;
  bw_off : forall f v, In f (b_files b) -> vf_fid f = b_active b -> In v (vf_recs f) -> vr_off v < b_off b }.

Lemma find_file_some b fid f : find_file b fid = Some f -> In f (b_files b) /\ vf_fid f = fid.
Proof. unfold find_file. intro H. apply find_some in H as [H1 H2]. split; [exact H1|]. now apply N.eqb_eq. Qed.

Lemma find_file_active b : bwf b -> exists f, find_file b (b_active b) = Some f.
Proof.
  intros [_ (f & Hin & Hf) _]. unfold find_file.
  destruct (find (fun f0 => vf_fid f0 =? b_active b) (b_files b)) eqn:E; [eauto|].
  eapply find_none in E; [|exact Hin]. cbn in E. rewrite Hf, N.eqb_refl in E. discriminate.
Qed.

Lemma empty_bucket_wf : bwf empty_bucket.
Proof.
  constructor; cbn.
  - intros f [<-|[]]. cbn. lia.
  - eexists; split; [left; reflexivity | reflexivity].
  - intros f v [<-|[]] _ [].
Qed.

(** rotation keeps every lookup *)
Lemma rotate_lookup b fid off len v : bwf b -> b_lookup b fid off len = Some v -> b_lookup (rotate_b b) fid off len = Some v.
Proof.
  intros _ H. unfold b_lookup, find_file in *. cbn [rotate_b b_files].
  destruct (find (fun f => vf_fid f =? fid) (b_files b)) as [f|] eqn:E; [|discriminate].
  now rewrite (find_app_l _ _ _ _ E).
Qed.

Lemma rotate_wf b : bwf b -> bwf (rotate_b b).
Proof.
  intros [H1 H2 H3]. constructor; cbn [rotate_b b_files b_active b_off].
  - intros f Hf. apply in_app_or in Hf as [Hf|[<-|[]]]; [specialize (H1 _ Hf); lia | cbn; lia].
  - eexists. split; [apply in_or_app; right; left; reflexivity | reflexivity].
  - intros f v Hf Hfid Hv. apply in_app_or in Hf as [Hf|[<-|[]]].
    + specialize (H1 _ Hf). lia.
    + cbn in Hv. contradiction.
Qed.

(** adding records to the active file *)
Lemma find_file_add b fid vs fid' f :
  find_file b fid' = Some f -> find_file (add_recs b fid vs) fid' = Some (add_to_file fid vs f).
Proof.
  unfold find_file, add_recs. cbn [b_files]. induction (b_files b) as [|a l IH]; cbn; [discriminate|].
  assert (Hfid : vf_fid (add_to_file fid vs a) = vf_fid a) by (unfold add_to_file; destruct (vf_fid a =? fid); reflexivity).
  rewrite Hfid. destruct (vf_fid a =? fid'); [intro H; now inversion H | exact IH].
Qed.

Lemma find_file_add_none b fid vs fid' :
  find_file b fid' = None -> find_file (add_recs b fid vs) fid' = None.
Proof.
  unfold find_file, add_recs. cbn [b_files]. induction (b_files b) as [|a l IH]; cbn; [reflexivity|].
  assert (Hfid : vf_fid (add_to_file fid vs a) = vf_fid a) by (unfold add_to_file; destruct (vf_fid a =? fid); reflexivity).
  rewrite Hfid. destruct (vf_fid a =? fid'); [discriminate | exact IH].
Qed.

Lemma add_lookup_old b fid vs fid' off len v :
  b_lookup b fid' off len = Some v -> b_lookup (add_recs b fid vs) fid' off len = Some v.
Proof.
  unfold b_lookup. destruct (find_file b fid') as [f|] eqn:E; [|discriminate].
  rewrite (find_file_add _ _ _ _ _ E). unfold f_lookup, add_to_file.
  destruct (vf_fid f =? fid); [|auto]. cbn [vf_recs].
  destruct (find (fun v0 => vr_off v0 =? off) (vf_recs f)) as [v0|] eqn:E2; [|discriminate].
  now rewrite (find_app_l _ _ _ _ E2).
Qed.

(** new records placed at or beyond the write offset are found *)
Lemma add_lookup_new b start rs v :
  bwf b -> b_off b <= start -> In v (place start rs) ->
  b_lookup (add_recs b (b_active b) (place start rs)) (b_active b) (vr_off v) (vr_len v) = Some v.
Proof.
  intros Hwf Hs Hv. destruct (find_file_active _ Hwf) as [f Hf].
  unfold b_lookup. rewrite (find_file_add _ _ _ _ _ Hf).
  destruct (find_file_some _ _ _ Hf) as [Hin Hfid].
  unfold f_lookup, add_to_file. rewrite Hfid, N.eqb_refl. cbn [vf_recs].
  rewrite find_app_r.
  - rewrite (place_find _ _ _ Hv). now rewrite N.eqb_refl.
  - intros a Ha. pose proof (bw_off _ Hwf f a Hin Hfid Ha). pose proof (place_off _ _ _ Hv).
    destruct (vr_off a =? vr_off v) eqn:E; [lia | reflexivity].
Qed.


Lemma place_bound start rs v : In v (place start rs) -> vr_off v + 4 <= start + total_len rs.
Proof.
  revert start. induction rs as [|r rs IH]; intros start H; cbn in H; [contradiction|].
  cbn [total_len fold_right]. fold (total_len rs). pose proof (rec_len_pos r).
  destruct H as [<-|H]; cbn [vr_off]; [lia|]. specialize (IH _ H). lia.
Qed.

Lemma in_add_recs b fid vs f :
  In f (b_files (add_recs b fid vs)) -> exists f0, In f0 (b_files b) /\ f = add_to_file fid vs f0.
Proof. unfold add_recs. cbn [b_files]. intro H. apply in_map_iff in H as (f0 & <- & H). eauto. Qed.

Lemma add_to_file_fid fid vs f : vf_fid (add_to_file fid vs f) = vf_fid f.
Proof. unfold add_to_file. destruct (vf_fid f =? fid); reflexivity. Qed.

Lemma add_wf b start rs :
  bwf b -> b_off b <= start ->
  bwf {| b_files := b_files (add_recs b (b_active b) (place start rs)); b_active := b_active b; b_off := start + total_len rs |}.
Proof.
  intros [H1 (fa & Ha & Hfa) H3] Hs. constructor; cbn [b_files b_active b_off].
  - intros f Hf. apply in_add_recs in Hf as (f0 & H0 & ->). rewrite add_to_file_fid. auto.
  - exists (add_to_file (b_active b) (place start rs) fa). split; [|now rewrite add_to_file_fid].
    unfold add_recs. cbn [b_files]. now apply in_map.
  - intros f v Hf Hfid Hv. apply in_add_recs in Hf as (f0 & H0 & ->). rewrite add_to_file_fid in Hfid.
    unfold add_to_file in Hv. rewrite Hfid, N.eqb_refl in Hv. cbn [vf_recs] in Hv.
    apply in_app_or in Hv as [Hv|Hv].
    + specialize (H3 _ _ H0 Hfid Hv). lia.
    + pose proof (place_bound _ _ _ Hv). lia.
Qed.

(** what one reservation + placement achieves *)
Definition keeps (b b' : bucket) : Prop :=
  forall fid off len v, b_lookup b fid off len = Some v -> b_lookup b' fid off len = Some v.

Lemma keeps_refl b : keeps b b. Proof. intros ? ? ? ? H; exact H. Qed.
Lemma keeps_trans a b c : keeps a b -> keeps b c -> keeps a c.
Proof. intros H1 H2 ? ? ? ? H. auto. Qed.

Definition placed (bk : N) (b' : bucket) (r : rec) (p : vptr) : Prop :=
  p_bucket p = bk /\ exists v, b_lookup b' (p_fid p) (p_off p) (p_len p) = Some v /\ vr_rec v = r.

Lemma reserve_spec c b sz :
  bwf b ->
  exists b0, bwf b0 /\ keeps b b0 /\
    reserve c b sz = ({| b_files := b_files b0; b_active := b_active b0; b_off := b_off b0 + sz |}, b_active b0, b_off b0).
Proof.
  intro Hwf. unfold reserve.
  set (b0 := if b_off b <? vl_header then {| b_files := b_files b; b_active := b_active b; b_off := vl_header |} else b).
  assert (Hwf0 : bwf b0 /\ keeps b b0).
  { unfold b0. destruct (b_off b <? vl_header) eqn:E; [|split; [exact Hwf | apply keeps_refl]].
    split; [|intros ? ? ? ? H; exact H].
    destruct Hwf as [H1 H2 H3]. constructor; cbn; auto. intros f v Hf Hfid Hv. specialize (H3 _ _ Hf Hfid Hv). lia. }
  destruct Hwf0 as [Hwf0 Hk0].
  destruct (c_max c <? b_off b0 + sz).
  - exists (rotate_b b0). split; [now apply rotate_wf|]. split; [|reflexivity].
    eapply keeps_trans; [exact Hk0|]. intros ? ? ? ? H. now apply rotate_lookup.
  - exists b0. split; [exact Hwf0|]. split; [exact Hk0 | reflexivity].
Qed.

(** one reservation followed by consecutive placement *)
Lemma placed_all bk B fid rs vs :
  Forall2 (fun r v => vr_rec v = r /\ vr_len v = rec_len r) rs vs ->
  (forall v, In v vs -> b_lookup B fid (vr_off v) (vr_len v) = Some v) ->
  Forall2 (placed bk B) rs (map (ptr_of bk fid) vs).
Proof.
  induction 1 as [|r v rs' vs' [Hr Hl] _ IH]; intro Hall; cbn [map]; constructor.
  - split; [reflexivity|]. exists v. cbn [ptr_of p_fid p_off p_len]. split; [apply Hall; now left | exact Hr].
  - apply IH. intros v' Hv'. apply Hall. now right.
Qed.

Lemma reserve_place_spec c bk b rs b1 fid start :
  bwf b -> reserve c b (total_len rs) = (b1, fid, start) ->
  bwf (add_recs b1 fid (place start rs)) /\ keeps b (add_recs b1 fid (place start rs)) /\
  Forall2 (placed bk (add_recs b1 fid (place start rs))) rs (map (ptr_of bk fid) (place start rs)).
Proof.
  intros Hwf Hres. destruct (reserve_spec c b (total_len rs) Hwf) as (b0 & Hwf0 & Hk & Heq).
  rewrite Heq in Hres. inversion Hres; subst b1 fid start. clear Hres Heq.
  set (vs := place (b_off b0) rs).
  set (B := add_recs {| b_files := b_files b0; b_active := b_active b0; b_off := b_off b0 + total_len rs |} (b_active b0) vs).
  assert (HB : B = {| b_files := b_files (add_recs b0 (b_active b0) vs); b_active := b_active b0; b_off := b_off b0 + total_len rs |})
    by reflexivity.
  assert (Hwf' : bwf B) by (rewrite HB; apply add_wf; [exact Hwf0 | lia]).
  assert (Hold : keeps b0 B).
  { intros fid off len v H. apply (add_lookup_old b0 (b_active b0) vs) in H. exact H. }
  split; [exact Hwf'|]. split; [eapply keeps_trans; eassumption|].
  apply placed_all; [apply place_spec|].
  intros v Hv. pose proof (add_lookup_new b0 (b_off b0) rs v Hwf0 (N.le_refl _) Hv) as H. exact H.
Qed.

Lemma placed_keeps bk b b' r p : keeps b b' -> placed bk b r p -> placed bk b' r p.
Proof. intros Hk [Hb (v & Hl & Hr)]. split; [exact Hb|]. exists v. split; [now apply Hk | exact Hr]. Qed.

Lemma append_each_spec c bk rs : forall b b' ps,
  bwf b -> append_each c bk b rs = (b', ps) ->
  bwf b' /\ keeps b b' /\ Forall2 (placed bk b') rs ps.
Proof.
  induction rs as [|r rs IH]; intros b b' ps Hwf H; cbn [append_each] in H.
  - inversion H; subst. split; [exact Hwf|]. split; [apply keeps_refl | constructor].
  - destruct (reserve c b (rec_len r)) as [[b1 fid] start] eqn:Er.
    destruct (append_each c bk (add_recs b1 fid [{| vr_off := start; vr_len := rec_len r; vr_rec := r |}]) rs) as [b2 ps'] eqn:Ea.
    inversion H; subst b' ps. clear H.
    assert (Et : total_len [r] = rec_len r) by (cbn; lia).
    rewrite <- Et in Er.
    destruct (reserve_place_spec c bk b [r] b1 fid start Hwf Er) as (Hwf1 & Hk1 & Hp1).
    cbn [place map] in Hwf1, Hk1, Hp1.
    destruct (IH _ _ _ Hwf1 Ea) as (Hwf2 & Hk2 & Hp2).
    split; [exact Hwf2|]. split; [eapply keeps_trans; eassumption|].
    constructor; [|exact Hp2]. inversion Hp1; subst. eapply placed_keeps; eassumption.
Qed.

Lemma append_entries_spec c bk b rs b' ps :
  bwf b -> append_entries c bk b rs = (b', ps) ->
  bwf b' /\ keeps b b' /\ Forall2 (placed bk b') rs ps.
Proof.
  intros Hwf H. unfold append_entries in H. destruct rs as [|r0 rs0].
  - inversion H; subst. split; [exact Hwf|]. split; [apply keeps_refl | constructor].
  - set (rs := r0 :: rs0) in *.
    destruct ((0 <? c_max c) && (c_max c <? total_len rs)).
    + now apply (append_each_spec c bk rs b).
    + destruct (reserve c b (total_len rs)) as [[b1 fid] start] eqn:Er.
      inversion H; subst b' ps. now apply (reserve_place_spec c bk b rs b1 fid start).
Qed.

(** * The DB layer: one write request *)
Inductive aligned (c : cfg) (batch : list rec) : N -> list bucket -> list (list vptr) -> Prop :=
| aligned_nil bk : aligned c batch bk [] []
| aligned_cons bk b ps vl pss :
    Forall2 (placed bk b) (group c bk batch) ps -> aligned c batch (bk + 1) vl pss ->
    aligned c batch bk (b :: vl) (ps :: pss).

Definition vkeeps (vl vl' : list bucket) : Prop :=
  forall p v, vl_lookup vl p = Some v -> vl_lookup vl' p = Some v.

Lemma write_buckets_spec c batch : forall vl bk vl' pss,
  Forall bwf vl -> write_buckets c bk vl batch = (vl', pss) ->
  Forall bwf vl' /\ Forall2 keeps vl vl' /\ aligned c batch bk vl' pss.
Proof.
  induction vl as [|b vl IH]; intros bk vl' pss Hwf H; cbn [write_buckets] in H.
  - inversion H; subst. repeat split; constructor.
  - destruct (append_entries c bk b (group c bk batch)) as [b' ps] eqn:Ea.
    destruct (write_buckets c (bk + 1) vl batch) as [vl'' pss'] eqn:Ew.
    inversion H; subst vl' pss. clear H. inversion Hwf as [|? ? Hb Hvl]; subst.
    destruct (append_entries_spec _ _ _ _ _ _ Hb Ea) as (Hb' & Hk & Hp).
    destruct (IH _ _ _ Hvl Ew) as (Hvl' & Hks & Hal).
    repeat split; constructor; auto.
Qed.

Lemma keeps_vkeeps vl vl' : Forall2 keeps vl vl' -> vkeeps vl vl'.
Proof.
  intros H p v. unfold vl_lookup. generalize (N.to_nat (p_bucket p)) as n.
  induction H as [|b b' vl vl' Hk _ IH]; intros [|n]; cbn; try discriminate; auto.
Qed.

Lemma group_cons_other c bk r batch :
  (is_big c r && (bucket_of c (r_key r) =? bk)) = false -> group c bk (r :: batch) = group c bk batch.
Proof. intro H. unfold group. cbn [filter]. now rewrite H. Qed.

Lemma group_cons_same c bk r batch :
  is_big c r = true -> bucket_of c (r_key r) = bk -> group c bk (r :: batch) = r :: group c bk batch.
Proof. intros H1 H2. unfold group. cbn [filter]. now rewrite H1, H2, N.eqb_refl. Qed.

(** entries that are not large leave every queue aligned *)
Lemma aligned_skip c r batch : is_big c r = false -> forall bk vl pss,
  aligned c (r :: batch) bk vl pss -> aligned c batch bk vl pss.
Proof.
  intros Hb bk vl pss H. induction H as [|bk b ps vl pss Hp _ IH]; constructor; [|exact IH].
  rewrite group_cons_other in Hp by (now rewrite Hb). exact Hp.
Qed.

Lemma aligned_pop c r batch : is_big c r = true -> forall n bk vl pss,
  aligned c (r :: batch) bk vl pss -> bucket_of c (r_key r) = bk + N.of_nat n -> (n < length vl)%nat ->
  exists p pss' b, pop_nth n pss = (Some p, pss') /\ nth_error vl n = Some b /\
                   placed (bk + N.of_nat n) b r p /\ aligned c batch bk vl pss'.
Proof.
  intros Hbig. induction n as [|n IH]; intros bk vl pss H Hbk Hn.
  - inversion H as [|? b ps vl0 pss0 Hp Hrest]; subst; [cbn in Hn; lia|].
    rewrite N.add_0_r in Hbk. rewrite (group_cons_same _ _ _ _ Hbig Hbk) in Hp.
    inversion Hp as [|? p ? ps' Hrp Hps]; subst. exists p, (ps' :: pss0), b.
    cbn [pop_nth nth_error]. rewrite N.add_0_r.
    split; [reflexivity|]. split; [reflexivity|]. split; [exact Hrp|].
    constructor; [exact Hps|].
    clear - Hrest Hbig. remember (bucket_of c (r_key r) + 1) as bk1 eqn:E.
    assert (Hne : forall j, bk1 <= j -> bucket_of c (r_key r) <> j) by (intros; lia).
    clear E. induction Hrest as [|bk2 b2 ps2 vl2 pss2 Hp2 _ IH2]; constructor.
    + rewrite group_cons_other in Hp2; [exact Hp2|].
      destruct (bucket_of c (r_key r) =? bk2) eqn:E; [|now rewrite andb_false_r].
      apply N.eqb_eq in E. exfalso. apply (Hne bk2); [lia | exact E].
    + apply IH2. intros j Hj. apply Hne. lia.
  - inversion H as [|? b ps vl0 pss0 Hp Hrest]; subst; [cbn in Hn; lia|].
    cbn [length] in Hn.
    destruct (IH (bk + 1) vl0 pss0 Hrest) as (p & pss' & b' & Hpop & Hnth & Hpl & Hal); [lia | lia |].
    exists p, (ps :: pss'), b'. cbn [pop_nth nth_error]. rewrite Hpop.
    replace (bk + N.of_nat (S n)) with (bk + 1 + N.of_nat n) by lia.
    split; [reflexivity|]. split; [exact Hnth|]. split; [exact Hpl|]. constructor; [|exact Hal].
    rewrite group_cons_other in Hp; [exact Hp|].
    destruct (bucket_of c (r_key r) =? bk) eqn:E; [|now rewrite andb_false_r]. apply N.eqb_eq in E. lia.
Qed.

Definition stored (c : cfg) (vl : list bucket) (r x : rec) : Prop :=
  if is_big c r
  then exists p v, x = set_val_meta r (enc_vptr p) (N.lor (r_meta r) bit_vptr) /\
                   vl_lookup vl p = Some v /\ vr_rec v = r /\ p = ptr_of (p_bucket p) (p_fid p) v
  else x = set_val_meta r (r_val r) (N.ldiff (r_meta r) bit_vptr).

Lemma lsm_entries_spec c vl : forall batch pss,
  aligned c batch 0 vl pss ->
  (forall r, In r batch -> (N.to_nat (bucket_of c (r_key r)) < length vl)%nat) ->
  Forall2 (stored c vl) batch (lsm_entries c batch pss).
Proof.
  induction batch as [|r batch IH]; intros pss Hal Hb; cbn [lsm_entries]; [constructor|].
  destruct (is_big c r) eqn:Ebig.
  - destruct (aligned_pop c r batch Ebig (N.to_nat (bucket_of c (r_key r))) 0 vl pss Hal) as (p & pss' & b & Hpop & Hnth & Hpl & Hal');
      [lia | apply Hb; now left |].
    rewrite Hpop. constructor; [|apply IH; [exact Hal' | intros; apply Hb; now right]].
    unfold stored. rewrite Ebig. destruct Hpl as [Hbk (v & Hl & Hr)].
    exists p, v. split; [reflexivity|]. split; [|split; [exact Hr|]].
    + unfold vl_lookup. rewrite Hbk. replace (N.to_nat (0 + N.of_nat (N.to_nat (bucket_of c (r_key r))))) with (N.to_nat (bucket_of c (r_key r))) by lia.
      now rewrite Hnth.
    + unfold b_lookup, f_lookup in Hl. destruct (find_file b (p_fid p)); [|discriminate].
      destruct (find (fun v0 => vr_off v0 =? p_off p) (vf_recs v0)) as [v1|] eqn:Ef; [|discriminate].
      destruct (vr_len v1 =? p_len p) eqn:El; [|discriminate]. inversion Hl; subst v1.
      apply find_some in Ef as [_ Eo]. apply N.eqb_eq in Eo, El. destruct p; cbn in *. unfold ptr_of. now subst.
  - constructor; [|apply IH; [now apply (aligned_skip c r batch Ebig) | intros; apply Hb; now right]].
    unfold stored. now rewrite Ebig.
Qed.

(** * No 32-bit overflow: what makes a pointer survive its 16-byte encoding *)
Definition bsmall (b : bucket) : Prop :=
  b_active b < two32 /\ forall f v, In f (b_files b) -> In v (vf_recs f) -> vr_off v < two32 /\ vr_len v < two32.
Definition vsmall (vl : list bucket) : Prop := N.of_nat (length vl) <= two32 /\ Forall bsmall vl.

Lemma lookup_small vl p v :
  vsmall vl -> Forall bwf vl -> vl_lookup vl p = Some v -> p = ptr_of (p_bucket p) (p_fid p) v ->
  p_len p < two32 /\ p_off p < two32 /\ p_fid p < two32 /\ p_bucket p < two32.
Proof.
  intros [Hlen Hs] Hwf Hl Hp. unfold vl_lookup in Hl.
  destruct (nth_error vl (N.to_nat (p_bucket p))) as [b|] eqn:En; [|discriminate].
  assert (Hn : (N.to_nat (p_bucket p) < length vl)%nat) by (apply nth_error_Some; congruence).
  apply nth_error_In in En. rewrite Forall_forall in Hs, Hwf. destruct (Hs _ En) as [Ha Hr]. specialize (Hwf _ En).
  unfold b_lookup in Hl. destruct (find_file b (p_fid p)) as [f|] eqn:Ef; [|discriminate].
  destruct (find_file_some _ _ _ Ef) as [Hin Hfid]. unfold f_lookup in Hl.
  destruct (find (fun v0 => vr_off v0 =? p_off p) (vf_recs f)) as [v0|] eqn:E0; [|discriminate].
  destruct (vr_len v0 =? p_len p); [|discriminate]. inversion Hl; subst v0.
  apply find_some in E0 as [Hv _]. destruct (Hr _ _ Hin Hv) as [Ho Hl'].
  pose proof (bw_le _ Hwf _ Hin). rewrite Hp. cbn [ptr_of p_len p_off p_fid p_bucket].
  repeat split; lia.
Qed.

Lemma rt_vptr' p :
  p_len p < two32 -> p_off p < two32 -> p_fid p < two32 -> p_bucket p < two32 ->
  decode_vptr (enc_vptr p) = p.
Proof.
  destruct p as [a b c d]. cbn [p_len p_off p_fid p_bucket]. intros Ha Hb Hc Hd.
  unfold decode_vptr, enc_vptr. cbn [p_len p_off p_fid p_bucket].
  rewrite rd_be32_be32.
  change (Num.drop 4 (be32 a ++ be32 b ++ be32 c ++ be32 d)) with (be32 b ++ be32 c ++ be32 d).
  change (Num.drop 8 (be32 a ++ be32 b ++ be32 c ++ be32 d)) with (be32 c ++ be32 d).
  change (Num.drop 12 (be32 a ++ be32 b ++ be32 c ++ be32 d)) with (be32 d ++ []).
  rewrite !rd_be32_be32. now rewrite !N.mod_small by assumption.
Qed.

Definition norm (w : rec) : rec := set_val_meta w (r_val w) (N.ldiff (r_meta w) bit_vptr).

Lemma ldiff_lor_2 m : N.ldiff (N.lor m 2) 2 = N.ldiff m 2.
Proof.
  apply N.bits_inj. intro i. rewrite !N.ldiff_spec, N.lor_spec.
  destruct (N.testbit m i), (N.testbit 2 i); reflexivity.
Qed.

Lemma stored_resolve c vl w x :
  vsmall vl -> Forall bwf vl -> rec_ok w -> stored c vl w x -> resolve vl x = GVal (norm w).
Proof.
  intros Hs Hwf Hok H. unfold stored in H. unfold resolve, is_ptr. destruct (is_big c w).
  - destruct H as (p & v & -> & Hl & Hr & Hp). cbn [set_val_meta r_meta r_val].
    assert (Hb : N.testbit (N.lor (r_meta w) bit_vptr) 1 = true).
    { rewrite N.lor_spec. change (N.testbit bit_vptr 1) with true. apply orb_true_r. }
    rewrite Hb. destruct (lookup_small _ _ _ Hs Hwf Hl Hp) as (P1 & P2 & P3 & P4).
    rewrite rt_vptr' by assumption. rewrite (vl_read_lookup _ _ _ Hl) by (now rewrite Hr). rewrite Hr.
    unfold norm, set_val_meta. cbn. f_equal. f_equal. apply ldiff_lor_2.
  - subst x. cbn [set_val_meta r_meta].
    assert (Hb : N.testbit (N.ldiff (r_meta w) bit_vptr) 1 = false).
    { rewrite N.ldiff_spec. change (N.testbit bit_vptr 1) with true. apply andb_false_r. }
    rewrite Hb. reflexivity.
Qed.

Lemma stored_image c vl w x : stored c vl w x -> r_key x = r_key w /\ r_ver x = r_ver w /\ r_seq x = r_seq w.
Proof. unfold stored. destruct (is_big c w); [intros (p & v & -> & _) | intros ->]; cbn; auto. Qed.

Lemma stored_keeps c vl vl' w x : vkeeps vl vl' -> stored c vl w x -> stored c vl' w x.
Proof.
  intros Hk. unfold stored. destruct (is_big c w); [|auto].
  intros (p & v & E & Hl & Hr & Hp). exists p, v. repeat split; auto.
Qed.

(** * [latest_at] only looks at key, version and ghost number *)
Definition same_id (w x : rec) : Prop := r_key x = r_key w /\ r_ver x = r_ver w /\ r_seq x = r_seq w.

Definition orel (R : rec -> rec -> Prop) (a b : option rec) : Prop :=
  match a, b with Some w, Some x => R w x | None, None => True | _, _ => False end.

Lemma latest_at_rel (R : rec -> rec -> Prop) ws lws k v :
  (forall w x, R w x -> same_id w x) -> Forall2 R ws lws ->
  orel R (latest_at ws k v) (latest_at lws k v).
Proof.
  intros HR H. unfold latest_at.
  assert (G : forall b b', orel R b b' ->
     orel R (fold_left pick_better (filter (cand k v) ws) b) (fold_left pick_better (filter (cand k v) lws) b')).
  { induction H as [|w x ws lws Hwx _ IH]; intros b b' Hb; cbn [filter fold_left]; [exact Hb|].
    destruct (HR _ _ Hwx) as (Ek & Ev & Es).
    assert (Ec : cand k v x = cand k v w) by (unfold cand; now rewrite Ek, Ev).
    rewrite Ec. destruct (cand k v w); [|now apply IH]. cbn [fold_left]. apply IH.
    destruct b as [bw|], b' as [bx|]; cbn in Hb; try contradiction; cbn [pick_better orel]; [|exact Hwx].
    destruct (HR _ _ Hb) as (Ek' & Ev' & Es').
    assert (Eb : better x bx = better w bw) by (unfold better; now rewrite Ev, Es, Ev', Es').
    rewrite Eb. destruct (better w bw); cbn; assumption. }
  apply G. exact I.
Qed.

(** * The invariant of the DB layer *)
Definition wr_ok (hist : list rec) (r : rec) : Prop :=
  0 < r_ver r /\ (forall y, In y hist -> r_seq y < r_seq r).
Fixpoint chain_ok (hist batch : list rec) : Prop :=
  match batch with [] => True | r :: b => wr_ok hist r /\ chain_ok (hist ++ [r]) b end.

Lemma forall2_in_r {A B} (R : A -> B -> Prop) l l' y : Forall2 R l l' -> In y l' -> exists x, In x l /\ R x y.
Proof.
  induction 1 as [|a b l l' Hab _ IH]; intros Hy; [contradiction|].
  destruct Hy as [<-|Hy]; [exists a; split; [now left | exact Hab]|].
  destruct (IH Hy) as (x & Hx & Hr). exists x. split; [now right | exact Hr].
Qed.

Lemma wr_ok_transfer ws lws r x : Forall2 same_id ws lws -> same_id r x -> wr_ok ws r -> wr_ok lws x.
Proof.
  intros H (Ek & Ev & Es) (H0 & H1). split; [now rewrite Ev|].
  intros y' Hy'. destruct (forall2_in_r _ _ _ _ H Hy') as (y & Hy & (_ & _ & Es')). rewrite Es, Es'. auto.
Qed.

Lemma chain_ok_transfer batch : forall xs ws lws,
  Forall2 same_id ws lws -> Forall2 same_id batch xs -> chain_ok ws batch -> chain_ok lws xs.
Proof.
  induction batch as [|r batch IH]; intros xs ws lws Hh Hb Hc; inversion Hb as [|? x ? xs' Hrx Hb']; subst; cbn in *; [exact I|].
  destruct Hc as [Hw Hc]. split; [eapply wr_ok_transfer; eassumption|].
  apply (IH _ (ws ++ [r])); [|exact Hb' | exact Hc]. apply Forall2_app; [exact Hh | now constructor].
Qed.

Lemma puts_J xs : forall s lws, J s lws -> chain_ok lws xs -> J (fold_left put xs s) (lws ++ xs).
Proof.
  induction xs as [|x xs IH]; intros s lws HJ Hc; cbn [fold_left].
  - now rewrite app_nil_r.
  - destruct Hc as [(H0 & H1) Hc]. replace (lws ++ x :: xs) with ((lws ++ [x]) ++ xs) by (now rewrite <- app_assoc).
    apply IH; [|exact Hc]. now apply put_J.
Qed.

Lemma chain_seq_functional batch : forall ws, seq_functional ws -> chain_ok ws batch -> seq_functional (ws ++ batch).
Proof.
  induction batch as [|r b IH]; intros ws Hf Hc; [now rewrite app_nil_r|].
  destruct Hc as [(_ & H1) Hc]. replace (ws ++ r :: b) with ((ws ++ [r]) ++ b) by (now rewrite <- app_assoc).
  apply IH; [|exact Hc]. now apply seq_functional_snoc.
Qed.

Definition Inv (c : cfg) (d : db) (ws : list rec) : Prop :=
  exists lws, J (d_lsm d) lws /\ Forall2 (stored c (d_vl d)) ws lws /\ Forall bwf (d_vl d) /\ vsmall (d_vl d) /\
              Forall rec_ok ws /\ N.of_nat (length (d_vl d)) = N.max 1 (c_nb c) /\ seq_functional ws.

Lemma bucket_lt c k n : N.of_nat n = N.max 1 (c_nb c) -> (N.to_nat (bucket_of c k) < n)%nat.
Proof.
  intro H. unfold bucket_of. destruct (c_nb c <=? 1) eqn:E; [lia|].
  pose proof (N.mod_lt (match k with [] => 0 | _ :: _ => crc32c k end) (c_nb c)). lia.
Qed.

Lemma forall2_len {A B} (R : A -> B -> Prop) l l' : Forall2 R l l' -> length l = length l'.
Proof. induction 1; cbn; congruence. Qed.

Lemma forall2_impl {A B} (R R' : A -> B -> Prop) l l' : (forall a b, R a b -> R' a b) -> Forall2 R l l' -> Forall2 R' l l'.
Proof. intros H. induction 1; constructor; auto. Qed.

Theorem db_write_Inv c d ws batch :
  Inv c d ws -> chain_ok ws batch -> Forall rec_ok batch -> vsmall (d_vl (db_write c d batch)) ->
  Inv c (db_write c d batch) (ws ++ batch).
Proof.
  intros (lws & HJ & Hst & Hwf & _ & Hok & Hlen & Hsf) Hc Hrb Hsm. unfold db_write in *.
  destruct (write_buckets c 0 (d_vl d) batch) as [vl' pss] eqn:Ew. cbn [d_lsm d_vl] in *.
  destruct (write_buckets_spec c batch _ _ _ _ Hwf Ew) as (Hwf' & Hk & Hal).
  assert (Hlen' : length vl' = length (d_vl d)) by (symmetry; eapply forall2_len; exact Hk).
  assert (Hx : Forall2 (stored c vl') batch (lsm_entries c batch pss)).
  { apply lsm_entries_spec; [exact Hal|]. intros r _. apply bucket_lt. now rewrite Hlen'. }
  exists (lws ++ lsm_entries c batch pss). cbn [d_lsm d_vl]. split; [|split; [|split; [exact Hwf'|split; [exact Hsm|split; [|split]]]]].
  - apply puts_J; [exact HJ|]. eapply chain_ok_transfer; [| |exact Hc].
    + eapply forall2_impl; [|exact Hst]. intros a b. apply stored_image.
    + eapply forall2_impl; [|exact Hx]. intros a b. apply stored_image.
  - apply Forall2_app; [|exact Hx]. eapply forall2_impl; [|exact Hst].
    intros a b. apply stored_keeps. now apply keeps_vkeeps.
  - apply Forall_app. now split.
  - now rewrite Hlen'.
  - now apply chain_seq_functional.
Qed.

Lemma Inv_lsm_step c d ws s' :
  Inv c d ws -> (forall lws, J (d_lsm d) lws -> J s' lws) -> Inv c {| d_lsm := s'; d_vl := d_vl d |} ws.
Proof. intros (lws & HJ & H) Hs. exists lws. split; [now apply Hs | exact H]. Qed.

Theorem Inv_get c d ws k v :
  Inv c d ws ->
  db_get d k v = match latest_at ws k v with Some w => GVal (norm w) | None => GNone end.
Proof.
  intros (lws & HJ & Hst & Hwf & Hsm & Hok & _ & _). unfold db_get. rewrite (J_get_latest _ _ k v HJ).
  pose proof (latest_at_rel (stored c (d_vl d)) ws lws k v (stored_image c (d_vl d)) Hst) as Hr.
  pose proof (latest_at_is_latest ws k v) as Hl.
  destruct (latest_at ws k v) as [w|], (latest_at lws k v) as [x|]; cbn in Hr; try contradiction; [|reflexivity].
  destruct Hl as [Hin _]. rewrite Forall_forall in Hok. exact (stored_resolve c _ _ _ Hsm Hwf (Hok _ Hin) Hr).
Qed.

Lemma init_Inv c m : c_nb c <= two32 -> Inv c (init_db c m) [].
Proof.
  intro Hnb. exists []. unfold init_db. cbn [d_lsm d_vl]. split; [apply J_init|]. split; [constructor|].
  assert (Hl : length (repeat empty_bucket (N.to_nat (N.max 1 (c_nb c)))) = N.to_nat (N.max 1 (c_nb c))) by apply repeat_length.
  assert (Hall : forall b, In b (repeat empty_bucket (N.to_nat (N.max 1 (c_nb c)))) -> b = empty_bucket)
    by (intros b Hb; now apply repeat_spec in Hb).
  split; [|split; [|split; [constructor | split; [rewrite Hl; lia | intros ? ? []]]]].
  - apply Forall_forall. intros b Hb. rewrite (Hall _ Hb). apply empty_bucket_wf.
  - split; [rewrite Hl; unfold two32 in *; lia|].
    apply Forall_forall. intros b Hb. rewrite (Hall _ Hb). split; [cbn; unfold two32; lia|].
    intros f v [<-|[]] [].
Qed.

(** * Histories of write requests and LSM maintenance *)
Inductive vop := VWrite (batch : list rec) | VRotate | VFlush.

Definition with_lsm (d : db) (s : state) : db := {| d_lsm := s; d_vl := d_vl d |}.
Definition vapply (c : cfg) (d : db) (o : vop) : db :=
  match o with
  | VWrite b => db_write c d b
  | VRotate => with_lsm d (rotate (d_lsm d))
  | VFlush => with_lsm d (flush (d_lsm d))
  end.
Definition vrun (c : cfg) (d : db) (ops : list vop) : db := fold_left (vapply c) ops d.
Definition vwrites (ops : list vop) : list rec :=
  concat (map (fun o => match o with VWrite b => b | _ => [] end) ops).

(** boolean side conditions, evaluated along the run *)
Definition rec_okb (r : rec) : bool :=
  (blen (ikey (r_key r) (r_ver r)) <? two32) && (blen (r_val r) <? two32) && (r_meta r <? 256) && (r_exp r <? two64).
Fixpoint chain_okb (hist batch : list rec) : bool :=
  match batch with [] => true | r :: b => put_okb hist r && chain_okb (hist ++ [r]) b end.
Definition bsmallb (b : bucket) : bool :=
  (b_active b <? two32) &&
  forallb (fun f => forallb (fun v => (vr_off v <? two32) && (vr_len v <? two32)) (vf_recs f)) (b_files b).
Definition vsmallb (vl : list bucket) : bool := (N.of_nat (length vl) <=? two32) && forallb bsmallb vl.

Fixpoint ops_okb (c : cfg) (d : db) (hist : list rec) (ops : list vop) : bool :=
  match ops with
  | [] => true
  | VWrite b :: ops' =>
      chain_okb hist b && forallb rec_okb b && vsmallb (d_vl (db_write c d b)) && ops_okb c (db_write c d b) (hist ++ b) ops'
  | o :: ops' => ops_okb c (vapply c d o) hist ops'
  end.

Lemma rec_okb_spec r : rec_okb r = true -> rec_ok r.
Proof.
  unfold rec_okb, rec_ok, entry_ok, entry_of. cbn [e_key e_val e_meta e_exp].
  rewrite !andb_true_iff, !N.ltb_lt. tauto.
Qed.

Lemma chain_okb_spec batch : forall hist, chain_okb hist batch = true -> chain_ok hist batch.
Proof.
  induction batch as [|r b IH]; intros hist H; cbn in *; [exact I|].
  apply andb_true_iff in H as [H1 H2]. split; [|now apply IH]. now apply put_okb_spec.
Qed.

Lemma vsmallb_spec vl : vsmallb vl = true -> vsmall vl.
Proof.
  unfold vsmallb, vsmall. rewrite andb_true_iff, N.leb_le, forallb_forall. intros [H1 H2]. split; [exact H1|].
  apply Forall_forall. intros b Hb. specialize (H2 b Hb). unfold bsmallb in H2.
  apply andb_true_iff in H2 as [Ha Hf]. apply N.ltb_lt in Ha. split; [exact Ha|].
  intros f v Hf' Hv. rewrite forallb_forall in Hf. specialize (Hf f Hf'). rewrite forallb_forall in Hf.
  specialize (Hf v Hv). apply andb_true_iff in Hf as [X Y]. now rewrite !N.ltb_lt in *.
Qed.

Lemma vrun_Inv c ops : forall d hist,
  Inv c d hist -> ops_okb c d hist ops = true -> Inv c (vrun c d ops) (hist ++ vwrites ops).
Proof.
  induction ops as [|o ops IH]; intros d hist HI Hok; cbn [vrun fold_left].
  - unfold vwrites. cbn. now rewrite app_nil_r.
  - change (fold_left (vapply c) ops (vapply c d o)) with (vrun c (vapply c d o) ops).
    unfold vwrites. cbn [map concat]. fold (vwrites ops).
    destruct o as [b| |]; cbn [ops_okb] in Hok.
    + apply andb_true_iff in Hok as [Hok H4]. apply andb_true_iff in Hok as [Hok H3]. apply andb_true_iff in Hok as [H1 H2].
      rewrite app_assoc. apply IH; [|exact H4]. cbn [vapply]. apply db_write_Inv; auto.
      * now apply chain_okb_spec.
      * apply Forall_forall. intros r Hr. rewrite forallb_forall in H2. apply rec_okb_spec. auto.
      * now apply vsmallb_spec.
    + cbn [app]. apply IH; [|exact Hok]. cbn [vapply]. apply Inv_lsm_step; [exact HI|]. intros lws. apply rotate_J.
    + cbn [app]. apply IH; [|exact Hok]. cbn [vapply]. apply Inv_lsm_step; [exact HI|]. intros lws. apply flush_J.
Qed.

Definition gobs (g : gres) : obs :=
  match g with GNone => ONone | GErr => OErr | GVal r => OVal (r_val r) (r_meta r) end.

Lemma dead_norm now w : dead now (norm w) = spec_dead now w.
Proof.
  unfold dead, spec_dead, norm, set_val_meta. cbn [r_meta r_exp]. f_equal.
  rewrite N.ldiff_spec. change (N.testbit bit_vptr 0) with false. cbn. apply andb_true_r.
Qed.

(** Every read API of the model returns what the full-value specification says. *)
Theorem roundtrip c m ops now :
  c_nb c <= two32 -> ops_okb c (init_db c m) [] ops = true ->
  let d := vrun c (init_db c m) ops in
  stores now (fun k v => gobs (db_get d k v)) (fun k v => gobs (db_get_live now d k v)) (vwrites ops).
Proof.
  intros Hnb Hok d k v.
  assert (HI : Inv c d ([] ++ vwrites ops)) by (apply vrun_Inv; [now apply init_Inv | exact Hok]).
  cbn [app] in HI. unfold db_get_live. rewrite (Inv_get _ _ _ k v HI). unfold spec_getv, spec_get.
  destruct (latest_at (vwrites ops) k v) as [w|]; [|split; reflexivity].
  rewrite dead_norm. split; [reflexivity|]. destruct (spec_dead now w); reflexivity.
Qed.

(** The hypotheses of [roundtrip] hold on a history with values on both sides of
    the threshold, two buckets, value-log file rotation (file size 150), an
    oversize record, overwrites, a delete and LSM rotation/flush. *)
Definition ex_val (n : nat) (b : byte) : bytes := repeat b n.
Definition ex_rec (k : byte) (ver : N) (v : bytes) (meta seq : N) : rec :=
  {| r_key := [xff; x43; x46; x00; k]; r_ver := ver; r_val := v; r_meta := meta; r_exp := 0; r_seq := seq |}.
Definition ex_cfg : cfg := {| c_thr := 32; c_max := 150; c_nb := 2 |}.
Definition ex_ops : list vop :=
  [ VWrite [ex_rec x61 max_ver (ex_val 40 x61) 0 1];
    VWrite [ex_rec x62 max_ver (ex_val 3 x62) 0 2];
    VWrite [ex_rec x61 max_ver (ex_val 200 x63) 0 3];
    VRotate;
    VWrite [ex_rec x63 5 (ex_val 33 x64) 0 4; ex_rec x64 5 (ex_val 60 x65) 16 5; ex_rec x65 5 (ex_val 70 x66) 0 6];
    VFlush;
    VWrite [ex_rec x62 max_ver [] 1 7];
    VWrite [ex_rec x63 6 (ex_val 100 x67) 0 8] ].
Example roundtrip_hyp_ex : ops_okb ex_cfg (init_db ex_cfg 1) [] ex_ops = true.
Proof. vm_compute. reflexivity. Qed.
Example roundtrip_rotates_ex :
  map (fun b => length (b_files b)) (d_vl (vrun ex_cfg (init_db ex_cfg 1) ex_ops)) = [3%nat; 3%nat].
Proof. vm_compute. reflexivity. Qed.

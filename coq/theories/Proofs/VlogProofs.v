(** Proofs for C08 (value log): record round trip, pointer stability under
    appends and rotation, the read-your-writes invariant of the DB layer, GC. *)
From Coq Require Import List Arith NArith ZArith Bool Lia ZifyN ZifyNat ZifyBool.
From Coq Require Import Init.Byte.
From NoKV Require Import Base.Bytes Base.Num Base.Varint Base.Crc32c Model.EntryCodec Model.Lsm Model.Vlog
     Spec.MvccSpec Spec.VlogSpec.
Import ListNotations.
Local Open Scope N_scope.

(** * One record: DecodeValueSlice (EncodeEntry e) returns e's value *)
Definition entry_ok (e : entry) : Prop :=
  blen (e_key e) < two32 /\ blen (e_val e) < two32 /\ e_meta e < 256 /\ e_exp e < two64.

Lemma u32_small' x : x < two32 -> u32 x = x.
Proof. intro H. unfold u32. now apply N.mod_small. Qed.

Lemma rd_be32_be32' n : rd_be32 (be32 n) = Some (n mod two32).
Proof. rewrite <- (app_nil_r (be32 n)). apply rd_be32_be32. Qed.

Lemma sl_var_at pre x rest :
  x < two64 ->
  sl_var (pre ++ put_uvarint x ++ rest) (blen pre) = Some (x, blen pre + blen (put_uvarint x)).
Proof.
  intro H. unfold sl_var. pose proof (put_uvarint_len x) as Hl.
  destruct (blen (pre ++ put_uvarint x ++ rest) <=? blen pre) eqn:E.
  - rewrite !blen_app in E. lia.
  - rewrite drop_app_exact, uvarint_put by exact H. reflexivity.
Qed.

Lemma rt_value_slice e :
  entry_ok e ->
  decode_value_slice (enc_entry e) = VsOk (e_val e) (blen (e_key e)) (blen (e_val e)) (e_meta e) (e_exp e).
Proof.
  intros (Hk & Hv & Hm & Hx). destruct e as [key val meta exp]. cbn [e_key e_val e_meta e_exp] in *.
  assert (H64 : forall x, x < two32 -> x < two64) by (intros; unfold two32, two64 in *; lia).
  assert (Hm64 : meta < two64) by (unfold two64; lia).
  unfold enc_entry, enc_entry_body. cbn [e_key e_val e_meta e_exp].
  rewrite !u32_small' by assumption.
  set (pk := put_uvarint (blen key)). set (pv := put_uvarint (blen val)).
  set (pm := put_uvarint meta). set (px := put_uvarint exp).
  set (body := enc_header (blen key) (blen val) meta exp ++ key ++ val).
  set (bs := body ++ be32 (crc32c body)).
  assert (Hbody : body = pk ++ pv ++ pm ++ px ++ key ++ val).
  { unfold body, enc_header. now rewrite <- !app_assoc. }
  assert (H1 : sl_var bs 0 = Some (blen key, blen pk)).
  { unfold bs. rewrite Hbody, <- !app_assoc.
    change (sl_var (pk ++ ?r) 0) with (sl_var ([] ++ pk ++ r) (blen [])).
    unfold pk. rewrite sl_var_at by auto. reflexivity. }
  assert (H2 : sl_var bs (blen pk) = Some (blen val, blen pk + blen pv)).
  { unfold bs. rewrite Hbody, <- !app_assoc. unfold pv. rewrite sl_var_at by auto; reflexivity. }
  assert (H3 : sl_var bs (blen pk + blen pv) = Some (meta, blen pk + blen pv + blen pm)).
  { unfold bs. rewrite Hbody, <- !app_assoc. rewrite <- blen_app.
    rewrite (app_assoc pk pv). unfold pm. rewrite sl_var_at by auto; reflexivity. }
  assert (H4 : sl_var bs (blen pk + blen pv + blen pm) = Some (exp, blen pk + blen pv + blen pm + blen px)).
  { unfold bs. rewrite Hbody, <- !app_assoc. rewrite <- !blen_app.
    rewrite (app_assoc pk pv), (app_assoc (pk ++ pv) pm). unfold px. rewrite sl_var_at by auto.
    f_equal. f_equal. rewrite !blen_app. reflexivity. }
  assert (Hh : decode_header bs = inr ((blen key, blen val, meta, exp), blen pk + blen pv + blen pm + blen px)).
  { unfold decode_header. rewrite H1, H2, H3.
    destruct (255 <? meta) eqn:E; [lia|]. rewrite H4. now rewrite !u32_small' by assumption. }
  unfold decode_value_slice. rewrite Hh.
  set (hl := blen pk + blen pv + blen pm + blen px).
  assert (Hhl : hl + blen key + blen val = blen body).
  { unfold hl. rewrite Hbody, !blen_app. lia. }
  assert (Hbs : blen bs = blen body + 4).
  { unfold bs. rewrite blen_app. reflexivity. }
  rewrite Hhl. destruct (blen bs <? blen body + 4) eqn:E; [lia|].
  unfold bs at 1 2. rewrite drop_app_exact, take_app_exact, rd_be32_be32'.
  rewrite N.mod_small by (pose proof (crc32c_lt body); unfold two32c, two32 in *; lia).
  rewrite N.eqb_refl. f_equal.
  assert (Hd : Num.drop (hl + blen key) bs = val ++ be32 (crc32c body)).
  { assert (Hpre : bs = (pk ++ pv ++ pm ++ px ++ key) ++ val ++ be32 (crc32c body)).
    { unfold bs. rewrite Hbody at 1. now rewrite <- !app_assoc. }
    assert (Hl : hl + blen key = blen (pk ++ pv ++ pm ++ px ++ key)).
    { unfold hl. rewrite !blen_app. lia. }
    rewrite Hl, Hpre. apply drop_app_exact. }
  rewrite Hd. apply take_app_exact.
Qed.

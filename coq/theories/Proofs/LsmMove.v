(** An L0 move keeps the recency order ACROSS tiers when the destination is the first
    level that may hold data (every level between L0 and it is empty — what
    [Proofs/TargetsProofs.base_level_above_data] gives for the planner's base level) and
    what stays in L0 is at least as recent as what is moved. *)
From Coq Require Import String List Arith NArith Bool Lia.
From NoKV Require Import Base.Bytes Model.Lsm Spec.MvccSpec Spec.LsmSpec Proofs.LsmInv Proofs.LsmCompact.
Import ListNotations.
Local Open Scope N_scope.

Lemma in_concat_map_rev {A B} (f : A -> list B) (l : list A) x :
  In x (concat (map f (rev l))) <-> In x (concat (map f l)).
Proof.
  rewrite !in_concat. split; intros (y & Hy & Hx); apply in_map_iff in Hy as (t & <- & Ht);
    exists (f t); (split; [apply in_map_iff; exists t; split; [reflexivity|]|exact Hx]).
  - apply in_rev. exact Ht.
  - apply in_rev in Ht. exact Ht.
Qed.

Lemma in_concat_concat_map_rev {A} (l : list (list A)) x :
  In x (concat (map (@rev A) l)) <-> In x (concat l).
Proof.
  rewrite !in_concat. split.
  - intros (y & Hy & Hx). apply in_map_iff in Hy as (t & <- & Ht). exists t. split; [exact Ht|apply in_rev; exact Hx].
  - intros (t & Ht & Hx). exists (rev t). split; [apply in_map_iff; now exists t|apply in_rev in Hx; exact Hx].
Qed.

Lemma level_srcs_recs lv x : In x (concat (level_srcs lv)) <-> In x (level_recs lv).
Proof.
  unfold level_srcs, level_recs. rewrite map_app, concat_app, !in_app_iff.
  assert (H : In x (concat (map t_recs (concat (map (@rev table) (lv_shards lv))))) <->
              In x (concat (map t_recs (concat (lv_shards lv))))).
  { rewrite !in_concat. split; intros (y & Hy & Hx); apply in_map_iff in Hy as (t & <- & Ht);
      exists (t_recs t); (split; [apply in_map_iff; exists t; split; [reflexivity|]|exact Hx]).
    - apply (proj1 (in_concat_concat_map_rev _ _)). exact Ht.
    - apply (proj2 (in_concat_concat_map_rev _ _)). exact Ht. }
  rewrite H. tauto.
Qed.

Lemma set_level_split_len s lvl :
  lvl_in s lvl -> exists l1 l2, length l1 = lvl_idx lvl /\ st_lvls s = l1 ++ get_level s lvl :: l2 /\
                                forall lv', st_lvls (set_level s lvl lv') = l1 ++ lv' :: l2.
Proof.
  unfold lvl_in, get_level, set_level, lvl_idx. intro H. cbn [st_lvls].
  destruct (nth_split (st_lvls s) {| lv_shards := []; lv_main := [] |} H) as (l1 & l2 & E & El).
  exists l1, l2. split; [exact El|]. split; [exact E|]. intro lv'. rewrite E at 1. rewrite <- El.
  rewrite <- (Nat.add_0_r (length l1)). now rewrite update_nth_app.
Qed.

Definition levels_above_empty (s : state) (lvl : N) : Prop :=
  forall lv0, In lv0 (firstn (lvl_idx lvl) (st_lvls s)) -> level_recs lv0 = [].

Lemma all_recs_levels_empty (ls : list level) :
  (forall lv0, In lv0 ls -> level_recs lv0 = []) -> forall x, ~ In x (all_recs (map level_srcs ls)).
Proof.
  intros H x Hx. unfold all_recs in Hx. apply in_concat in Hx as (src & Hsrc & Hx).
  apply in_concat in Hsrc as (t & Ht & Hsrc). apply in_map_iff in Ht as (lv0 & <- & Hlv).
  assert (Hin : In x (concat (level_srcs lv0))) by (apply in_concat; now exists src).
  apply level_srcs_recs in Hin. rewrite (H lv0 Hlv) in Hin. exact Hin.
Qed.

Theorem move_keeps_cross s lvl top bot added :
  let lv := get_level s lvl in
  lvl_in s lvl -> shards_room (pick top (st_l0 s)) (lv_shards lv) ->
  cross_ok (tiers_of s) ->
  levels_above_empty s lvl ->
  recs_geq (trecs (drop top (st_l0 s))) (trecs (pick top (st_l0 s))) ->
  cross_ok (tiers_of (compact s KMove lvl top bot added)).
Proof.
  intros lv Hin Hroom Hc Hemp Hold. unfold compact. cbn [bump_fid st_l0].
  change (get_level (bump_fid s (map fst added)) lvl) with lv.
  set (s1 := set_l0 (bump_fid s (map fst added)) (drop top (st_l0 s))).
  destruct (set_level_split_len s1 lvl Hin) as (l1 & l2 & Hlen & E & E').
  change (get_level s1 lvl) with lv in E. change (st_lvls s1) with (st_lvls s) in E.
  set (lv' := {| lv_shards := shards_add (pick top (st_l0 s)) (lv_shards lv); lv_main := lv_main lv |}).
  assert (Hl1 : forall lv0, In lv0 l1 -> level_recs lv0 = []).
  { intros lv0 H0. apply Hemp. rewrite E, <- Hlen, firstn_app, Nat.sub_diag, firstn_all. cbn [firstn]. now rewrite app_nil_r. }
  pose proof (all_recs_levels_empty l1 Hl1) as HM.
  (* shape of both tier lists *)
  set (P := [[st_mem s]] ++ map (fun m : N * list rec => [snd m]) (rev (st_imms s))).
  set (M := map level_srcs l1). set (Q := map level_srcs l2).
  assert (Es : tiers_of s = P ++ [map t_recs (rev (st_l0 s))] ++ M ++ [level_srcs lv] ++ Q).
  { unfold tiers_of, P, M, Q. rewrite E, map_app. cbn [map]. now rewrite <- !app_assoc. }
  assert (Es' : tiers_of (set_level s1 lvl lv') = P ++ [map t_recs (rev (drop top (st_l0 s)))] ++ M ++ [level_srcs lv'] ++ Q).
  { unfold tiers_of, P, M, Q. rewrite E'. cbn [set_level s1 set_l0 bump_fid st_mem st_imms st_l0]. rewrite map_app. cbn [map]. now rewrite <- !app_assoc. }
  rewrite Es'. rewrite Es in Hc. clear Es Es'.
  apply cross_ok_app in Hc as (HP & Hrest & HPrest).
  cbn [app] in Hrest. apply cross_ok_cons in Hrest as (H0rest & HMLQ).
  apply cross_ok_app in HMLQ as (HcM & HLQ & _).
  cbn [app] in HLQ. apply cross_ok_cons in HLQ as (HLbQ & HcQ).
  (* membership facts *)
  assert (Hl0 : forall x, In x (concat (map t_recs (rev (st_l0 s)))) <->
                          In x (trecs (pick top (st_l0 s))) \/ In x (trecs (drop top (st_l0 s)))).
  { intro x. rewrite in_concat_map_rev. apply (trecs_pick_drop top (st_l0 s) x). }
  assert (Hl0' : forall x, In x (concat (map t_recs (rev (drop top (st_l0 s))))) <-> In x (trecs (drop top (st_l0 s)))).
  { intro x. apply in_concat_map_rev. }
  assert (Hlb : forall x, In x (concat (level_srcs lv')) <-> In x (trecs (pick top (st_l0 s))) \/ In x (concat (level_srcs lv))).
  { intro x. rewrite !level_srcs_recs, !level_recs_eq. unfold lv'. cbn [lv_shards lv_main].
    rewrite !in_app_iff, (trecs_shards_add _ _ x Hroom). tauto. }
  cbn [app] in HPrest. rewrite all_recs_cons_eq, all_recs_app_eq, all_recs_cons_eq in HPrest.
  rewrite all_recs_app_eq, all_recs_cons_eq in H0rest.
  apply cross_ok_app. split; [exact HP|]. split.
  - cbn [app]. apply cross_ok_cons. split.
    + (* what stays in L0 against everything below *)
      rewrite all_recs_app_eq, all_recs_cons_eq. intros x y Hx Hy Hk.
      apply Hl0' in Hx. rewrite !in_app_iff in Hy. destruct Hy as [Hy|[Hy|Hy]].
      * exfalso. exact (HM y Hy).
      * apply Hlb in Hy as [Hy|Hy]; [now apply (Hold x y)|].
        apply (H0rest x y); [apply Hl0; now right | rewrite !in_app_iff; right; now left | exact Hk].
      * apply (H0rest x y); [apply Hl0; now right | rewrite !in_app_iff; right; now right | exact Hk].
    + apply cross_ok_app. split; [exact HcM|]. split.
      * cbn [app]. apply cross_ok_cons. split; [|exact HcQ].
        intros x y Hx Hy Hk. apply Hlb in Hx as [Hx|Hx]; [|now apply (HLbQ x y)].
        apply (H0rest x y); [apply Hl0; now left | rewrite !in_app_iff; right; now right | exact Hk].
      * intros x y Hx _ _. exfalso. exact (HM x Hx).
  - (* memtables against everything below: the same records as before *)
    cbn [app]. rewrite all_recs_cons_eq, all_recs_app_eq, all_recs_cons_eq.
    intros x y Hx Hy Hk. apply (HPrest x y Hx); [|exact Hk].
    rewrite !in_app_iff in Hy. rewrite !in_app_iff.
    destruct Hy as [Hy|[Hy|[Hy|Hy]]].
    + left. apply Hl0. right. now apply Hl0'.
    + right. now left.
    + apply Hlb in Hy as [Hy|Hy]; [left; apply Hl0; now left | right; right; now left].
    + right. right. now right.
Qed.

(** * With the planner's base level *)
From Coq Require Import ZArith.
From NoKV Require Import Model.Targets Proofs.TargetsProofs Spec.LsmInvB.

(** [sizes] describes the state: a level whose size is not positive holds no record
    (index 0 is L0, index i the level i). *)
Definition sizes_of_state (sizes : list Z) (s : state) : Prop :=
  forall i lv0, nth_error (st_lvls s) i = Some lv0 -> (nth (S i) sizes 0 <= 0)%Z -> level_recs lv0 = [].

Lemma in_firstn_nth {A} n : forall (l : list A) x,
  In x (firstn n l) -> exists i, (i < n)%nat /\ nth_error l i = Some x.
Proof.
  induction n as [|n IH]; intros [|a l] x H; cbn [firstn] in H; try contradiction.
  destruct H as [->|H].
  - exists 0%nat. split; [lia|reflexivity].
  - apply IH in H as (i & Hi & E). exists (S i). split; [lia|exact E].
Qed.

Lemma base_levels_above_empty sizes o s :
  sizes_of_state sizes s ->
  levels_above_empty s (N.of_nat (t_base (build_targets sizes o))).
Proof.
  intros Hs lv0 Hin. unfold lvl_idx in Hin.
  apply in_firstn_nth in Hin as (i & Hi & E).
  apply (Hs i lv0 E). apply (base_level_above_data sizes o).
  rewrite N2Nat.inj_sub, Nat2N.id in Hi. change (N.to_nat 1) with 1%nat in Hi. lia.
Qed.

(** The planner's move: the destination is [build_targets]' base level for sizes that
    describe the state. *)
Theorem move_to_base_keeps_cross s sizes o top bot added :
  let b := N.of_nat (t_base (build_targets sizes o)) in
  sizes_of_state sizes s ->
  lvl_in s b -> shards_room (pick top (st_l0 s)) (lv_shards (get_level s b)) ->
  cross_ok (tiers_of s) ->
  recs_geq (trecs (drop top (st_l0 s))) (trecs (pick top (st_l0 s))) ->
  cross_ok (tiers_of (compact s KMove b top bot added)).
Proof.
  intros b Hs Hin Hroom Hc Hold. apply move_keeps_cross; try assumption.
  now apply base_levels_above_empty.
Qed.

(** Non-vacuity: two L0 tables holding the same plain key; the older one moves to the base
    level of an otherwise empty store. *)
Definition mv_sizes : list Z := [2; 0; 0; 0; 0; 0; 0]%Z.
Definition mv_opt : topt := {| o_base_level_size := 32; o_level_mult := 8; o_base_table := 8; o_table_mult := 2; o_memtable := 1 |}.
Example move_hypotheses_hold :
  t_base (build_targets mv_sizes mv_opt) = 6%nat /\
  sizes_of_state mv_sizes cx_s0 /\ lvl_in cx_s0 6 /\
  shards_room (pick [1] (st_l0 cx_s0)) (lv_shards (get_level cx_s0 6)) /\
  cross_ok (tiers_of cx_s0) /\
  recs_geq (trecs (drop [1] (st_l0 cx_s0))) (trecs (pick [1] (st_l0 cx_s0))) /\
  trecs (pick [1] (st_l0 cx_s0)) <> [] /\ trecs (drop [1] (st_l0 cx_s0)) <> [].
Proof.
  split; [vm_compute; reflexivity|]. split.
  { intros i lv0 E _. do 6 (destruct i as [|i]; [vm_compute in E; injection E as <-; reflexivity|]).
    vm_compute in E. destruct i; discriminate. }
  split; [vm_compute; lia|]. split; [apply shards_room_4; reflexivity|]. split.
  { assert (Hb : tiers_b (tiers_of cx_s0) = true) by (vm_compute; reflexivity).
    exact (ti_cross _ (tiers_b_sound _ Hb)). }
  split; [apply recs_geq_b_sound; vm_compute; reflexivity|].
  split; vm_compute; discriminate.
Qed.

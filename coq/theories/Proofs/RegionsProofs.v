(** Proofs for C24. *)
From Coq Require Import List NArith Bool Lia ZifyN ZifyBool String.
From NoKV Require Import Base.Bytes Model.Pd Spec.PdSpec Proofs.PdProofs Model.Regions Spec.RegionsSpec.
Import ListNotations.
Local Open Scope N_scope.

(** * State transitions *)

Lemma valid_transition_spec cur next : valid_transition cur next = true <-> forward cur next.
Proof.
  unfold valid_transition, forward, known_state.
  destruct (N.eqb_spec cur next) as [E|E]; [split; auto|].
  destruct (N.eqb_spec cur 0) as [E0|E0]; [lia|].
  destruct (N.eqb_spec cur 1) as [E1|E1]; [lia|].
  destruct (N.eqb_spec cur 2) as [E2|E2]; [lia|].
  split; [discriminate | lia].
Qed.

Lemma forward_b_spec cur next : forward_b cur next = true <-> forward cur next.
Proof. unfold forward_b, forward, known_state. lia. Qed.

(** * Association lists *)

Lemma in_rremove x id c : In x (rremove id c) <-> In x c /\ rid x <> id.
Proof. unfold rremove. rewrite filter_In, negb_true_iff, N.eqb_neq. tauto. Qed.

Lemma in_rput x m c : In x (rput m c) <-> x = m \/ (In x c /\ rid x <> rid m).
Proof. unfold rput. cbn [In]. rewrite in_rremove. split; intros [H|H]; auto. Qed.

Lemma rfind_in id c m : rfind id c = Some m -> In m c /\ rid m = id.
Proof.
  induction c as [|x c IH]; cbn [rfind]; [discriminate|].
  destruct (N.eqb_spec (rid x) id) as [E|E].
  - intros H. inversion H; subst. split; [now left | reflexivity].
  - intros H. destruct (IH H) as [H1 H2]. split; [now right | exact H2].
Qed.

Lemma rfind_none id c : rfind id c = None -> forall m, In m c -> rid m <> id.
Proof.
  induction c as [|x c IH]; cbn [rfind]; [intros _ m []|].
  destruct (N.eqb_spec (rid x) id) as [E|E]; [discriminate|].
  intros H m [->|Hin]; [exact E | now apply IH].
Qed.

Lemma in_rfind c m : NoDup (map rid c) -> In m c -> rfind (rid m) c = Some m.
Proof.
  induction c as [|x c IH]; cbn [map rfind]; [intros _ []|].
  intros Hnd [->|Hin].
  - now rewrite N.eqb_refl.
  - inversion Hnd as [|? ? Hnotin Hnd']; subst.
    destruct (N.eqb_spec (rid x) (rid m)) as [E|E].
    + exfalso. apply Hnotin. rewrite E. now apply in_map.
    + now apply IH.
Qed.

Lemma nodup_rremove id c : NoDup (map rid c) -> NoDup (map rid (rremove id c)).
Proof.
  induction c as [|x c IH]; [intros; constructor|].
  cbn [map rremove filter]. intros Hnd. inversion Hnd as [|? ? Hnotin Hnd']; subst.
  destruct (negb (rid x =? id)); [|now apply IH].
  cbn [map]. constructor; [|now apply IH].
  intros Hin. apply Hnotin. apply in_map_iff in Hin as [y [Hy1 Hy2]].
  apply in_rremove in Hy2 as [Hy2 _]. apply in_map_iff. now exists y.
Qed.

Lemma nodup_rput m c : NoDup (map rid c) -> NoDup (map rid (rput m c)).
Proof.
  intros H. unfold rput. cbn [map]. constructor; [|now apply nodup_rremove].
  intros Hin. apply in_map_iff in Hin as [y [Hy1 Hy2]]. apply in_rremove in Hy2 as [_ Hy2]. contradiction.
Qed.

Lemma rremove_rremove id c : rremove id (rremove id c) = rremove id c.
Proof.
  induction c as [|x c IH]; [reflexivity|]. cbn [rremove filter].
  destruct (negb (rid x =? id)) eqn:E; [|exact IH].
  cbn [filter]. rewrite E. f_equal. exact IH.
Qed.

Lemma rremove_rput x id c : rid x = id -> rremove id (rput x c) = rremove id c.
Proof.
  intros <-. unfold rput. cbn [rremove filter]. rewrite N.eqb_refl. cbn [negb]. apply rremove_rremove.
Qed.

(** * What the primitive operations do *)

Lemma update_region_mem s m s' :
  update_region s m = Some s' ->
  exists m', r_reg m' = r_reg m /\ rid m <> 0 /\
             smem s' = rput m' (smem s) /\ sdisk s' = rput m' (sdisk s) /\
             forward (match rfind (rid m) (smem s) with Some e => r_state e | None => 0 end) (r_state m') /\
             r_state m' = (if r_state m =? 0 then 1 else r_state m).
Proof.
  unfold update_region. destruct (N.eqb_spec (rid m) 0) as [E|E]; [discriminate|].
  set (m' := if r_state m =? 0 then set_state m 1 else m).
  assert (Hreg : r_reg m' = r_reg m) by (unfold m'; destruct (r_state m =? 0); reflexivity).
  assert (Hid : rid m' = rid m) by (unfold rid; now rewrite Hreg).
  rewrite Hid.
  destruct (valid_transition _ (r_state m')) eqn:Ev; [|discriminate].
  intros H. inversion H; subst. exists m'. cbn [smem sdisk].
  repeat split; auto; [now apply valid_transition_spec|].
  unfold m'. destruct (r_state m =? 0); reflexivity.
Qed.

Lemma remove_region_mem s id s' :
  remove_region s id = Some s' ->
  exists m, rfind id (smem s) = Some m /\
            smem s' = rremove id (smem s) /\ (sdisk s = smem s -> sdisk s' = smem s').
Proof.
  unfold remove_region. destruct (id =? 0); [discriminate|].
  destruct (rfind id (smem s)) as [m|] eqn:Ef; [|discriminate].
  apply rfind_in in Ef as Hm. destruct Hm as [_ Hid].
  destruct (r_state m =? 3).
  - intros H. inversion H; subst. exists m. cbn [smem sdisk]. repeat split; auto. intros ->. reflexivity.
  - destruct (update_region s (set_state m 3)) as [s1|] eqn:Eu; [|discriminate].
    apply update_region_mem in Eu as (m' & Hreg & _ & Hmem & Hdisk & _ & _).
    intros H. inversion H; subst. exists m. cbn [smem sdisk]. rewrite Hmem, Hdisk.
    assert (Hid' : rid m' = rid m) by (unfold rid; now rewrite Hreg).
    rewrite !(rremove_rput m' (rid m)) by exact Hid'.
    repeat split; auto. intros ->. reflexivity.
Qed.

(** * Gluing two adjacent ranges *)

Lemma glue (a b z : region) :
  g_end a = g_start b -> g_end a <> [] -> wf_range a -> wf_range b ->
  g_start z = g_start a -> g_end z = g_end b ->
  wf_range z /\ disjoint a b /\ (forall k, contains z k <-> contains a k \/ contains b k).
Proof.
  intros Hadj Hne Wa Wb Hs He.
  assert (Hab : bytes_ltb (g_start a) (g_start b) = true).
  { destruct Wa as [Wa|Wa]; [contradiction | now rewrite <- Hadj]. }
  split; [|split].
  - unfold wf_range. rewrite Hs, He. destruct Wb as [Wb|Wb]; [now left | right].
    exact (bytes_ltb_trans _ _ _ Hab Wb).
  - apply before_disjoint; [exact Hne | rewrite Hadj; apply bytes_leb_refl].
  - intros k. unfold contains. rewrite Hs, He. split.
    + intros [H1 H2]. destruct (bytes_ltb k (g_end a)) eqn:E.
      * left. split; [exact H1 | now right].
      * right. split; [rewrite <- Hadj; now apply not_ltb_leb | exact H2].
    + intros [[H1 H2]|[H1 H2]].
      * split; [exact H1|]. destruct H2 as [H2|H2]; [contradiction|].
        destruct Wb as [Wb|Wb]; [now left | right].
        rewrite Hadj in H2. exact (bytes_ltb_trans _ _ _ H2 Wb).
      * split; [|exact H2]. apply ltb_leb. exact (bytes_ltb_leb_trans _ _ _ Hab H1).
Qed.

(** * Partition algebra *)

Lemma partition_wf c m : partition c -> In m c -> wf_range (r_reg m).
Proof. intros (_ & Hall & _) Hin. rewrite Forall_forall in Hall. now apply Hall. Qed.

Lemma nodup_same c a b : NoDup (map rid c) -> In a c -> In b c -> rid a = rid b -> a = b.
Proof.
  intros Hnd Ha Hb E. pose proof (in_rfind c a Hnd Ha) as H1. pose proof (in_rfind c b Hnd Hb) as H2.
  rewrite E in H1. congruence.
Qed.

(** Replace two entries [t], [s] by one entry [u] (under [t]'s id) whose
    range is the union of theirs. *)
Lemma partition_merge c t s u :
  partition c -> In t c -> In s c -> rid t <> rid s -> rid u = rid t ->
  wf_range (r_reg u) ->
  (forall k, contains (r_reg u) k <-> contains (r_reg t) k \/ contains (r_reg s) k) ->
  let c' := rremove (rid s) (rput u c) in
  partition c' /\ same_cover c c'.
Proof.
  intros Hp Ht Hs Hne Hid Hwf Hglue c'. pose proof Hp as (Hnd & Hall & Hpair).
  assert (Hin' : forall x, In x c' <-> x = u \/ (In x c /\ rid x <> rid t /\ rid x <> rid s)).
  { intros x. unfold c'. rewrite in_rremove, in_rput, Hid. split.
    - intros [[->|[H1 H2]] H3]; [now left | right; auto].
    - intros [->|(H1 & H2 & H3)]; [split; [now left | congruence] | split; [right; auto | exact H3]]. }
  split; [split; [|split]|].
  - unfold c'. apply nodup_rremove, nodup_rput, Hnd.
  - apply Forall_forall. intros x Hx. apply Hin' in Hx as [->|(Hx & _)]; [exact Hwf|].
    now apply (partition_wf c).
  - intros a b Ha Hb Hab. apply Hin' in Ha. apply Hin' in Hb.
    assert (Hu : forall x, In x c -> rid x <> rid t -> rid x <> rid s -> disjoint (r_reg u) (r_reg x)).
    { intros x Hx H1 H2 k [Hk1 Hk2]. apply Hglue in Hk1 as [Hk1|Hk1].
      - apply (Hpair t x Ht Hx (fun E => H1 (eq_sym E)) k). now split.
      - apply (Hpair s x Hs Hx (fun E => H2 (eq_sym E)) k). now split. }
    destruct Ha as [->|(Ha & Ha1 & Ha2)]; destruct Hb as [->|(Hb & Hb1 & Hb2)].
    + contradiction.
    + now apply Hu.
    + apply disjoint_sym. now apply Hu.
    + now apply Hpair.
  - intros k. split.
    + intros [x [Hx Hk]]. apply Hin' in Hx as [->|(Hx & _)].
      * apply Hglue in Hk as [Hk|Hk]; [now exists t | now exists s].
      * now exists x.
    + intros [x [Hx Hk]].
      destruct (N.eq_dec (rid x) (rid t)) as [E|E].
      * assert (x = t) by now apply (nodup_same c). subst x.
        exists u. split; [apply Hin'; now left | apply Hglue; now left].
      * destruct (N.eq_dec (rid x) (rid s)) as [E2|E2].
        -- assert (x = s) by now apply (nodup_same c). subst x.
           exists u. split; [apply Hin'; now left | apply Hglue; now right].
        -- exists x. split; [apply Hin'; right; auto | exact Hk].
Qed.

(** Replace one entry [p] by [np] (same id) and a new entry [ch] whose ranges
    split [p]'s. *)
Lemma partition_split c p np ch :
  partition c -> In p c -> rid np = rid p -> rfind (rid ch) c = None ->
  wf_range (r_reg np) -> wf_range (r_reg ch) -> disjoint (r_reg np) (r_reg ch) ->
  (forall k, contains (r_reg p) k <-> contains (r_reg np) k \/ contains (r_reg ch) k) ->
  let c' := rput ch (rput np c) in
  partition c' /\ same_cover c c'.
Proof.
  intros Hp Hin Hid Hfresh Wn Wc Hdis Hglue c'. pose proof Hp as (Hnd & Hall & Hpair).
  assert (Hchp : rid ch <> rid p).
  { intros E. apply (rfind_none _ _ Hfresh p Hin). now symmetry. }
  assert (Hin' : forall x, In x c' <-> x = ch \/ x = np \/ (In x c /\ rid x <> rid p /\ rid x <> rid ch)).
  { intros x. unfold c'. rewrite !in_rput, Hid. split.
    - intros [->|[[->|[H1 H2]] H3]]; auto.
    - intros [->|[->|(H1 & H2 & H3)]]; auto.
      right. split; [now left | congruence]. }
  assert (Hfresh' : forall x, In x c -> rid x <> rid ch) by (intros x Hx; now apply (rfind_none _ _ Hfresh)).
  assert (Hsub : forall x, In x c -> rid x <> rid p -> forall y, (y = np \/ y = ch) -> disjoint (r_reg y) (r_reg x)).
  { intros x Hx Hxp y Hy k [Hk1 Hk2].
    apply (Hpair p x Hin Hx (fun E => Hxp (eq_sym E)) k). split; [|exact Hk2].
    apply Hglue. destruct Hy as [->| ->]; auto. }
  split; [split; [|split]|].
  - unfold c'. apply nodup_rput, nodup_rput, Hnd.
  - apply Forall_forall. intros x Hx. apply Hin' in Hx as [->|[->|(Hx & _)]]; auto.
    now apply (partition_wf c).
  - intros a b Ha Hb Hab. apply Hin' in Ha. apply Hin' in Hb.
    destruct Ha as [->|[->|(Ha & Ha1 & Ha2)]]; destruct Hb as [->|[->|(Hb & Hb1 & Hb2)]].
    + contradiction.
    + now apply disjoint_sym.
    + apply (Hsub b Hb Hb1); auto.
    + exact Hdis.
    + contradiction.
    + apply (Hsub b Hb Hb1); auto.
    + apply disjoint_sym. apply (Hsub a Ha Ha1); auto.
    + apply disjoint_sym. apply (Hsub a Ha Ha1); auto.
    + now apply Hpair.
  - intros k. split.
    + intros [x [Hx Hk]]. apply Hin' in Hx as [->|[->|(Hx & _)]].
      * exists p. split; [exact Hin | apply Hglue; now right].
      * exists p. split; [exact Hin | apply Hglue; now left].
      * now exists x.
    + intros [x [Hx Hk]]. destruct (N.eq_dec (rid x) (rid p)) as [E|E].
      * assert (x = p) by now apply (nodup_same c). subst x.
        apply Hglue in Hk as [Hk|Hk]; [exists np | exists ch]; (split; [apply Hin'; auto | exact Hk]).
      * exists x. split; [apply Hin'; right; right; auto | exact Hk].
Qed.

Lemma partition_rremove c id : partition c -> partition (rremove id c).
Proof.
  intros (Hnd & Hall & Hpair). split; [|split].
  - now apply nodup_rremove.
  - apply Forall_forall. intros x Hx. apply in_rremove in Hx as [Hx _].
    rewrite Forall_forall in Hall. now apply Hall.
  - intros a b Ha Hb. apply in_rremove in Ha as [Ha _]. apply in_rremove in Hb as [Hb _]. now apply Hpair.
Qed.

(** * Merge *)

Lemma merged_meta_glue t s u :
  merged_meta t s = Some u -> wf_range (r_reg t) -> wf_range (r_reg s) ->
  rid u = rid t /\ g_ver (r_reg u) = (g_ver (r_reg t) + 1) mod 2^64 /\ r_state u = r_state t /\
  wf_range (r_reg u) /\ disjoint (r_reg t) (r_reg s) /\
  (forall k, contains (r_reg u) k <-> contains (r_reg t) k \/ contains (r_reg s) k).
Proof.
  unfold merged_meta. intros H Wt Ws.
  destruct (negb (bytes_eqb (g_end (r_reg t)) []) && bytes_eqb (g_end (r_reg t)) (g_start (r_reg s))) eqn:E1.
  - apply andb_true_iff in E1 as [E1 E2]. apply negb_true_iff in E1. apply bytes_eqb_eq in E2.
    inversion H; subst u. clear H.
    assert (Hne : g_end (r_reg t) <> []) by (intros Hn; apply eqb_nil in Hn; congruence).
    destruct (glue (r_reg t) (r_reg s) (r_reg (set_end (bump t) (g_end (r_reg s)))) E2 Hne Wt Ws eq_refl eq_refl)
      as (H1 & H2 & H3).
    exact (conj eq_refl (conj eq_refl (conj eq_refl (conj H1 (conj H2 H3))))).
  - destruct (negb (bytes_eqb (g_end (r_reg s)) []) && bytes_eqb (g_end (r_reg s)) (g_start (r_reg t))) eqn:E2;
      [|discriminate].
    apply andb_true_iff in E2 as [E2 E3]. apply negb_true_iff in E2. apply bytes_eqb_eq in E3.
    inversion H; subst u. clear H.
    assert (Hne : g_end (r_reg s) <> []) by (intros Hn; apply eqb_nil in Hn; congruence).
    destruct (glue (r_reg s) (r_reg t) (r_reg (set_start (bump t) (g_start (r_reg s)))) E3 Hne Ws Wt eq_refl eq_refl)
      as (H1 & H2 & H3).
    refine (conj eq_refl (conj eq_refl (conj eq_refl (conj H1 (conj (disjoint_sym _ _ H2) _))))).
    intros k. rewrite (H3 k). tauto.
Qed.

(** C24_partition (merge), C24_epoch_increases (merge) *)
Lemma merge_partition s target source s' :
  partition (smem s) -> merge s target source = (s', true) ->
  partition (smem s') /\ same_cover (smem s) (smem s') /\
  exists t src t',
    rfind target (smem s) = Some t /\ rfind source (smem s) = Some src /\
    rfind target (smem s') = Some t' /\ rfind source (smem s') = None /\
    g_ver (r_reg t') = (g_ver (r_reg t) + 1) mod 2^64 /\
    forward (r_state t) (r_state t') /\
    forall id, id <> target -> id <> source -> rfind id (smem s') = rfind id (smem s).
Proof.
  intros Hp. unfold merge, merge_with.
  destruct (target =? 0); [intros H; inversion H|].
  destruct (rfind target (smem s)) as [t|] eqn:Et; [|intros H; inversion H].
  destruct (source =? 0); [intros H; inversion H|].
  destruct (rfind source (smem s)) as [src|] eqn:Es; [|intros H; inversion H].
  destruct (N.eqb_spec (rid src) (rid t)) as [Eid|Eid]; [intros H; inversion H|].
  destruct (merged_meta t src) as [u|] eqn:Em; [|intros H; inversion H].
  destruct (update_region s u) as [s1|] eqn:Eu; [|intros H; inversion H].
  destruct (remove_region s1 source) as [s2|] eqn:Er; intros H; inversion H; subst s'. clear H.
  apply rfind_in in Et as Ht. destruct Ht as [Htin Htid].
  apply rfind_in in Es as Hs. destruct Hs as [Hsin Hsid].
  destruct (merged_meta_glue t src u Em (partition_wf _ _ Hp Htin) (partition_wf _ _ Hp Hsin))
    as (Huid & Hver & Hst & Hwf & _ & Hglue).
  apply update_region_mem in Eu as (u' & Hreg & _ & Hmem & _ & Hfw & _).
  apply remove_region_mem in Er as (m & _ & Hmem2 & _).
  assert (Huid' : rid u' = rid t) by (unfold rid in *; now rewrite Hreg).
  assert (Hc' : smem s2 = rremove (rid src) (rput u' (smem s))) by (rewrite Hmem2, Hmem, Hsid; reflexivity).
  assert (Hne : rid t <> rid src) by congruence.
  assert (Hwf' : wf_range (r_reg u')) by now rewrite Hreg.
  assert (Hglue' : forall k, contains (r_reg u') k <-> contains (r_reg t) k \/ contains (r_reg src) k)
    by (intros k; rewrite Hreg; apply Hglue).
  destruct (partition_merge (smem s) t src u' Hp Htin Hsin Hne Huid' Hwf' Hglue') as [Hp' Hcov].
  rewrite Hc'. split; [exact Hp'|]. split; [exact Hcov|].
  destruct Hp' as (Hnd' & _).
  set (c' := rremove (rid src) (rput u' (smem s))) in *.
  assert (G1 : rfind target c' = Some u').
  { rewrite <- Htid, <- Huid'. apply in_rfind; [exact Hnd'|].
    apply in_rremove. split; [apply in_rput; now left | congruence]. }
  assert (G2 : rfind source c' = None).
  { destruct (rfind source c') as [x|] eqn:Ex; [|reflexivity].
    apply rfind_in in Ex as [Hx1 Hx2]. apply in_rremove in Hx1 as [_ Hx1]. congruence. }
  assert (G3 : g_ver (r_reg u') = (g_ver (r_reg t) + 1) mod 2^64) by now rewrite Hreg.
  assert (G4 : forward (r_state t) (r_state u')).
  { assert (Ef : rfind (rid u) (smem s) = Some t) by (rewrite Huid, Htid; exact Et).
    now rewrite Ef in Hfw. }
  assert (G5 : forall id, id <> target -> id <> source -> rfind id c' = rfind id (smem s)).
  { intros id H1 H2. destruct Hp as (Hnd & _).
    destruct (rfind id (smem s)) as [x|] eqn:Ex.
    - apply rfind_in in Ex as [Hx1 Hx2]. rewrite <- Hx2. apply in_rfind; [exact Hnd'|].
      apply in_rremove. split; [apply in_rput; right; split; [exact Hx1 | congruence] | congruence].
    - destruct (rfind id c') as [y|] eqn:Ey; [|reflexivity].
      apply rfind_in in Ey as [Hy1 Hy2]. apply in_rremove in Hy1 as [Hy1 _]. apply in_rput in Hy1 as [->|[Hy1 _]].
      + congruence.
      + exfalso. exact (rfind_none _ _ Ex y Hy1 Hy2). }
  exists t, src, u'. exact (conj eq_refl (conj eq_refl (conj G1 (conj G2 (conj G3 (conj G4 G5)))))).
Qed.

(** * Split *)

(** C24_partition (split), C24_epoch_increases (split) *)
Lemma split_partition s parent key child s' :
  partition (smem s) -> split_wf (smem s) parent child ->
  split s parent key child = (s', true) ->
  partition (smem s') /\ same_cover (smem s) (smem s') /\
  exists p p' ch,
    rfind parent (smem s) = Some p /\ rfind parent (smem s') = Some p' /\
    rfind (rid child) (smem s') = Some ch /\ r_state ch = 1 /\
    g_ver (r_reg p') = (g_ver (r_reg p) + 1) mod 2^64 /\ forward (r_state p) (r_state p').
Proof.
  intros Hp [Hfresh Hend]. unfold split.
  set (child2 := if bytes_eqb (g_start (r_reg (set_state child 1))) [] then set_start (set_state child 1) key
                 else set_state child 1).
  assert (Hcid : rid child2 = rid child) by (unfold child2; destruct (bytes_eqb _ []); reflexivity).
  assert (Hcend : g_end (r_reg child2) = g_end (r_reg child)) by (unfold child2; destruct (bytes_eqb _ []); reflexivity).
  assert (Hcst : r_state child2 = 1) by (unfold child2; destruct (bytes_eqb _ []); reflexivity).
  destruct (parent =? 0); [intros H; inversion H|].
  destruct (rid child2 =? 0); [intros H; inversion H|].
  destruct (bytes_eqb (g_start (r_reg child2)) []) eqn:Esk; [intros H; inversion H|].
  destruct (rfind parent (smem s)) as [p|] eqn:Ep; [|intros H; inversion H].
  destruct (negb (bytes_eqb (g_end (r_reg p)) []) && negb (bytes_ltb (g_start (r_reg child2)) (g_end (r_reg p)))) eqn:E1;
    [intros H; inversion H|].
  destruct (bytes_leb (g_start (r_reg child2)) (g_start (r_reg p))) eqn:E2; [intros H; inversion H|].
  destruct (update_region s (bump (set_end p (g_start (r_reg child2))))) as [s1|] eqn:Eu1; [|intros H; inversion H].
  destruct (update_region s1 child2) as [s2|] eqn:Eu2.
  2:{ destruct (update_region s1 p); intros H; inversion H. }
  intros H. inversion H; subst s'. clear H.
  apply rfind_in in Ep as Hpin. destruct Hpin as [Hpin Hpid].
  apply update_region_mem in Eu1 as (np & Hnreg & _ & Hmem1 & _ & Hfw1 & _).
  apply update_region_mem in Eu2 as (ch & Hcreg & _ & Hmem2 & _ & _ & Hchst).
  set (sk := g_start (r_reg child2)) in *.
  assert (Hnid : rid np = rid p) by (unfold rid; now rewrite Hnreg).
  assert (Hchid : rid ch = rid child) by (unfold rid in *; now rewrite Hcreg).
  assert (Hsk : sk <> []) by (intros Hn; apply eqb_nil in Hn; congruence).
  assert (Wp : wf_range (r_reg p)) by now apply (partition_wf (smem s)).
  assert (Hlt : bytes_ltb (g_start (r_reg p)) sk = true).
  { rewrite bytes_leb_ltb in E2. now destruct (bytes_ltb (g_start (r_reg p)) sk). }
  assert (Wn : wf_range (r_reg np)) by (rewrite Hnreg; right; exact Hlt).
  assert (Wc : wf_range (r_reg ch)).
  { rewrite Hcreg. unfold wf_range. rewrite Hcend, Hend.
    destruct (bytes_eqb (g_end (r_reg p)) []) eqn:Ee; [left; now apply eqb_nil|].
    right. cbn [negb andb] in E1. now apply negb_false_iff in E1. }
  assert (Hadj : g_end (r_reg np) = g_start (r_reg ch)) by (rewrite Hnreg, Hcreg; reflexivity).
  assert (Hne : g_end (r_reg np) <> []) by (rewrite Hnreg; exact Hsk).
  assert (Hzs : g_start (r_reg p) = g_start (r_reg np)) by (rewrite Hnreg; reflexivity).
  assert (Hze : g_end (r_reg p) = g_end (r_reg ch)).
  { rewrite Hcreg, Hcend. now symmetry. }
  destruct (glue (r_reg np) (r_reg ch) (r_reg p) Hadj Hne Wn Wc Hzs Hze) as (_ & Hdis & Hglue).
  assert (Hfr : rfind (rid ch) (smem s) = None) by now rewrite Hchid.
  destruct (partition_split (smem s) p np ch Hp Hpin Hnid Hfr Wn Wc Hdis Hglue) as [Hp' Hcov].
  rewrite Hmem2, Hmem1. split; [exact Hp'|]. split; [exact Hcov|].
  destruct Hp' as (Hnd' & _).
  assert (Hchp : rid ch <> rid p).
  { intros E. apply (rfind_none _ _ Hfr p Hpin). now symmetry. }
  exists p, np, ch. repeat split; auto.
  - rewrite <- Hpid, <- Hnid. apply in_rfind; [exact Hnd'|].
    apply in_rput. right. split; [apply in_rput; now left | congruence].
  - rewrite <- Hchid. apply in_rfind; [exact Hnd'|]. apply in_rput. now left.
  - rewrite Hchst, Hcst. reflexivity.
  - now rewrite Hnreg.
  - assert (Ef : rfind (rid (bump (set_end p sk))) (smem s) = Some p) by (rewrite <- Hpid in Ep; exact Ep).
    now rewrite Ef in Hfw1.
Qed.

(** * Removal *)

Lemma remove_partition s id s' :
  partition (smem s) -> remove_region s id = Some s' ->
  partition (smem s') /\
  exists m, rfind id (smem s) = Some m /\ rfind id (smem s') = None /\
            (forall k, covered (smem s) k <-> covered (smem s') k \/ contains (r_reg m) k) /\
            (forall k, ~ (covered (smem s') k /\ contains (r_reg m) k)).
Proof.
  intros Hp Hr. apply remove_region_mem in Hr as (m & Hf & Hmem & _).
  rewrite Hmem. split; [now apply partition_rremove|].
  pose proof Hp as (Hnd & _ & Hpair). apply rfind_in in Hf as Hm. destruct Hm as [Hmin Hmid].
  exists m. split; [exact Hf|]. split; [|split].
  - destruct (rfind id (rremove id (smem s))) as [x|] eqn:Ex; [|reflexivity].
    apply rfind_in in Ex as [Hx1 Hx2]. apply in_rremove in Hx1 as [_ Hx1]. contradiction.
  - intros k. split.
    + intros [x [Hx Hk]]. destruct (N.eq_dec (rid x) id) as [E|E].
      * right. assert (x = m) by (apply (nodup_same (smem s)); auto; congruence). now subst x.
      * left. exists x. split; [apply in_rremove; auto | exact Hk].
    + intros [[x [Hx Hk]]|Hk].
      * apply in_rremove in Hx as [Hx _]. now exists x.
      * now exists m.
  - intros k [[x [Hx Hk]] Hk2]. apply in_rremove in Hx as [Hx Hne].
    apply (Hpair x m Hx Hmin (fun E => Hne (eq_trans E Hmid)) k). now split.
Qed.

(** * State transitions of [updateRegion] (C24_state_forward) *)

Definition current_state (c : rcatalog) (id : N) : N :=
  match rfind id c with Some e => r_state e | None => 0 end.

Lemma update_region_forward s m s' :
  update_region s m = Some s' ->
  exists m', rfind (rid m) (smem s') = Some m' /\ r_reg m' = r_reg m /\
             forward (current_state (smem s) (rid m)) (r_state m').
Proof.
  intros H. apply update_region_mem in H as (m' & Hreg & _ & Hmem & _ & Hfw & _).
  exists m'. split; [|split; [exact Hreg | exact Hfw]].
  rewrite Hmem. unfold rput. cbn [rfind].
  assert (E : rid m' = rid m) by (unfold rid; now rewrite Hreg). rewrite E, N.eqb_refl. reflexivity.
Qed.

Lemma update_region_rejects_backward s m :
  rid m <> 0 ->
  ~ forward (current_state (smem s) (rid m)) (if r_state m =? 0 then 1 else r_state m) ->
  update_region s m = None.
Proof.
  intros Hid Hnf. unfold update_region. destruct (N.eqb_spec (rid m) 0) as [E|_]; [contradiction|].
  set (m' := if r_state m =? 0 then set_state m 1 else m).
  assert (Hid' : rid m' = rid m) by (unfold m'; destruct (r_state m =? 0); reflexivity).
  assert (Hst : r_state m' = if r_state m =? 0 then 1 else r_state m)
    by (unfold m'; destruct (r_state m =? 0); reflexivity).
  rewrite Hid', Hst. destruct (valid_transition _ _) eqn:Ev; [|reflexivity].
  apply valid_transition_spec in Ev. exfalso. apply Hnf. exact Ev.
Qed.

(** * Reload (C24_reload) *)

Lemma update_region_disk s m s' :
  update_region s m = Some s' -> sdisk s = smem s -> sdisk s' = smem s'.
Proof.
  intros H Hd. apply update_region_mem in H as (m' & _ & _ & Hmem & Hdisk & _). now rewrite Hmem, Hdisk, Hd.
Qed.

Lemma remove_region_disk s id s' :
  remove_region s id = Some s' -> sdisk s = smem s -> sdisk s' = smem s'.
Proof. intros H Hd. apply remove_region_mem in H as (m & _ & _ & Hk). now apply Hk. Qed.

Lemma split_disk s p k ch : sdisk s = smem s -> sdisk (fst (split s p k ch)) = smem (fst (split s p k ch)).
Proof.
  intros Hd. unfold split.
  set (child2 := if bytes_eqb (g_start (r_reg (set_state ch 1))) [] then set_start (set_state ch 1) k
                 else set_state ch 1).
  destruct (p =? 0); [exact Hd|].
  destruct (rid child2 =? 0); [exact Hd|].
  destruct (bytes_eqb (g_start (r_reg child2)) []); [exact Hd|].
  destruct (rfind p (smem s)) as [pm|]; [|exact Hd].
  destruct (negb (bytes_eqb (g_end (r_reg pm)) []) && negb (bytes_ltb (g_start (r_reg child2)) (g_end (r_reg pm))));
    [exact Hd|].
  destruct (bytes_leb (g_start (r_reg child2)) (g_start (r_reg pm))); [exact Hd|].
  destruct (update_region s (bump (set_end pm (g_start (r_reg child2))))) as [s1|] eqn:E1; [|exact Hd].
  pose proof (update_region_disk _ _ _ E1 Hd) as Hd1.
  destruct (update_region s1 child2) as [s2|] eqn:E2; [exact (update_region_disk _ _ _ E2 Hd1)|].
  destruct (update_region s1 pm) as [s3|] eqn:E3; [exact (update_region_disk _ _ _ E3 Hd1) | exact Hd1].
Qed.

Lemma split_unhosted_disk s p k ch :
  sdisk s = smem s -> sdisk (fst (split_unhosted s p k ch)) = smem (fst (split_unhosted s p k ch)).
Proof.
  intros Hd. unfold split_unhosted.
  set (child2 := if bytes_eqb (g_start (r_reg (set_state ch 1))) [] then set_start (set_state ch 1) k
                 else set_state ch 1).
  destruct (p =? 0); [exact Hd|].
  destruct (rid child2 =? 0); [exact Hd|].
  destruct (bytes_eqb (g_start (r_reg child2)) []); [exact Hd|].
  destruct (rfind p (smem s)) as [pm|]; [|exact Hd].
  destruct (negb (bytes_eqb (g_end (r_reg pm)) []) && negb (bytes_ltb (g_start (r_reg child2)) (g_end (r_reg pm))));
    [exact Hd|].
  destruct (bytes_leb (g_start (r_reg child2)) (g_start (r_reg pm))); [exact Hd|].
  destruct (update_region s (bump (set_end pm (g_start (r_reg child2))))) as [s1|] eqn:E1; [|exact Hd].
  pose proof (update_region_disk _ _ _ E1 Hd) as Hd1.
  destruct (update_region s1 pm) as [s3|] eqn:E3; [exact (update_region_disk _ _ _ E3 Hd1) | exact Hd1].
Qed.

Lemma merge_disk s t src : sdisk s = smem s -> sdisk (fst (merge s t src)) = smem (fst (merge s t src)).
Proof.
  intros Hd. unfold merge, merge_with.
  destruct (t =? 0); [exact Hd|].
  destruct (rfind t (smem s)) as [tm|]; [|exact Hd].
  destruct (src =? 0); [exact Hd|].
  destruct (rfind src (smem s)) as [sm|]; [|exact Hd].
  destruct (rid sm =? rid tm); [exact Hd|].
  destruct (merged_meta tm sm) as [u|]; [|exact Hd].
  destruct (update_region s u) as [s1|] eqn:E1; [|exact Hd].
  pose proof (update_region_disk _ _ _ E1 Hd) as Hd1.
  destruct (remove_region s1 src) as [s2|] eqn:E2; [exact (remove_region_disk _ _ _ E2 Hd1) | exact Hd1].
Qed.

Lemma apply_disk s o : sdisk s = smem s -> sdisk (fst (apply s o)) = smem (fst (apply s o)).
Proof.
  intros Hd. destruct o as [m|id st|id|p k ch|p k ch|t src]; cbn [apply].
  - destruct (update_region s m) eqn:E; cbn [of_opt fst]; [now apply (update_region_disk s m) | exact Hd].
  - unfold update_region_state. destruct (id =? 0); [exact Hd|].
    destruct (rfind id (smem s)); [|exact Hd].
    destruct (update_region s _) eqn:E; cbn [of_opt fst]; [now apply (update_region_disk _ _ _ E) | exact Hd].
  - destruct (remove_region s id) eqn:E; cbn [of_opt fst]; [now apply (remove_region_disk s id) | exact Hd].
  - now apply split_disk.
  - now apply split_unhosted_disk.
  - now apply merge_disk.
Qed.

Lemma run_disk ops : forall s, sdisk s = smem s -> sdisk (run s ops) = smem (run s ops).
Proof.
  induction ops as [|o ops IH]; intros s Hd; [exact Hd|].
  cbn [run fold_left]. apply IH. now apply apply_disk.
Qed.

Lemma reload_same ops : smem (reload (run store_init ops)) = smem (run store_init ops).
Proof. cbn [reload smem]. now apply run_disk. Qed.

(** * Oracles *)

Lemma covered_b_spec c k : covered_b c k = true <-> covered c k.
Proof.
  unfold covered_b, covered. rewrite existsb_exists. split; intros [m [H1 H2]]; exists m; split; auto;
    now apply contains_b_spec.
Qed.

Lemma same_cover_b_complete c c' : same_cover c c' -> same_cover_b c c' = true.
Proof.
  intros H. unfold same_cover_b. apply forallb_forall. intros k _.
  destruct (covered_b c k) eqn:E1; destruct (covered_b c' k) eqn:E2; try reflexivity; exfalso.
  - apply covered_b_spec in E1. apply H in E1. apply covered_b_spec in E1. congruence.
  - apply covered_b_spec in E2. apply H in E2. apply covered_b_spec in E2. congruence.
Qed.

Lemma nodup_ids_spec l : nodup_ids l = true <-> NoDup l.
Proof.
  induction l as [|x l IH]; cbn [nodup_ids]; [split; [constructor | reflexivity]|].
  rewrite andb_true_iff, negb_true_iff, IH. split.
  - intros [H1 H2]. constructor; [|exact H2]. intros Hin.
    assert (Hex : existsb (N.eqb x) l = true) by (apply existsb_exists; exists x; split; [exact Hin | apply N.eqb_refl]).
    congruence.
  - intros H. inversion H as [|? ? Hnot Hnd]; subst. split; [|exact Hnd].
    destruct (existsb (N.eqb x) l) eqn:E; [|reflexivity].
    apply existsb_exists in E as [y [Hy1 Hy2]]. apply N.eqb_eq in Hy2. subst y. contradiction.
Qed.

Lemma partition_b_spec c : partition_b c = true <-> partition c.
Proof.
  unfold partition_b, partition. rewrite !andb_true_iff, nodup_ids_spec, !forallb_forall, Forall_forall.
  split.
  - intros [[H1 H2] H3]. split; [exact H1|]. split.
    + intros m Hm. apply wf_range_b_spec. now apply H2.
    + intros a b Ha Hb Hne. specialize (H3 a Ha). rewrite forallb_forall in H3. specialize (H3 b Hb).
      apply orb_true_iff in H3 as [H3|H3]; [apply N.eqb_eq in H3; contradiction|].
      apply negb_true_iff in H3. apply disjoint_not_intersect. intros Hi.
      apply intersect_b_spec in Hi; [congruence | apply wf_range_b_spec; now apply H2 | apply wf_range_b_spec; now apply H2].
  - intros (H1 & H2 & H3). split; [split; [exact H1|]|].
    + intros m Hm. apply wf_range_b_spec. now apply H2.
    + intros a Ha. apply forallb_forall. intros b Hb.
      destruct (N.eqb_spec (rid a) (rid b)) as [E|E]; [reflexivity|]. cbn [orb].
      apply negb_true_iff. destruct (intersect_b (r_reg a) (r_reg b)) eqn:Ei; [|reflexivity].
      exfalso. apply intersect_b_spec in Ei; [|now apply H2|now apply H2].
      apply (disjoint_not_intersect (r_reg a) (r_reg b)); [now apply H3 | exact Ei].
Qed.

(** * The behaviour before the repair *)

Definition mkM (id : N) (s e : string) (v st : N) : rmeta :=
  {| r_reg := {| g_id := id; g_start := unhex s; g_end := unhex e; g_ver := v; g_conf := 1 |}; r_state := st |}.

Definition w_store : store :=
  let c := [mkM 1 "" "6d" 1 1; mkM 2 "6d" "" 1 1] in {| smem := c; sdisk := c |}.
Definition w_lost : bytes := unhex "61".

(** Merging the left neighbour into an unbounded target with the old code
    succeeds, and the key "a" is owned by nobody afterwards. *)
Lemma merge_old_refuted :
  partition (smem w_store) /\
  exists s', merge_old w_store 2 1 = (s', true) /\
             covered (smem w_store) w_lost /\ ~ covered (smem s') w_lost.
Proof.
  split; [apply partition_b_spec; vm_compute; reflexivity|].
  eexists. split; [vm_compute; reflexivity|]. split.
  - apply covered_b_spec. vm_compute. reflexivity.
  - intros H. apply covered_b_spec in H. vm_compute in H. discriminate.
Qed.

(** Non-vacuity: a split and both directions of merge succeed on a partition. *)
Example split_merge_example :
  let s0 := w_store in
  let '(s1, ok1) := split s0 2 (unhex "74") (mkM 3 "" "" 1 0) in
  let '(s2, ok2) := merge s1 2 1 in
  let '(s3, ok3) := merge s2 2 3 in
  (ok1, ok2, ok3) = (true, true, true) /\ partition_b (smem s1) = true /\
  split_wf (smem s0) 2 (mkM 3 "" "" 1 0) /\
  listing (smem s3) = [mkM 2 "" "" 4 1].
Proof. vm_compute. repeat split; reflexivity. Qed.

(** The version counter is a uint64. *)
Lemma ver_increases v : v < 2^64 - 1 -> v < (v + 1) mod 2^64.
Proof. intros H. rewrite N.mod_small by lia. lia. Qed.

(** * Splits whose child cannot be hosted on this store (rollback after the shrink) *)

(** A split that fails because the child cannot be hosted never succeeds, and
    either changes nothing or rewrites the parent's entry with the same region
    (range, epoch) it had: the shrink is undone. *)
Lemma split_unhosted_restores s parent key child s' ok :
  split_unhosted s parent key child = (s', ok) ->
  ok = false /\
  (s' = s \/ exists p p', rfind parent (smem s) = Some p /\ r_reg p' = r_reg p /\
                          forward (r_state p) (r_state p') /\ smem s' = rput p' (smem s)).
Proof.
  unfold split_unhosted.
  set (child2 := if bytes_eqb (g_start (r_reg (set_state child 1))) [] then set_start (set_state child 1) key
                 else set_state child 1).
  destruct (parent =? 0); [intros H; inversion H; auto|].
  destruct (rid child2 =? 0); [intros H; inversion H; auto|].
  destruct (bytes_eqb (g_start (r_reg child2)) []); [intros H; inversion H; auto|].
  destruct (rfind parent (smem s)) as [pm|] eqn:Ef; [|intros H; inversion H; auto].
  destruct (negb (bytes_eqb (g_end (r_reg pm)) []) && negb (bytes_ltb (g_start (r_reg child2)) (g_end (r_reg pm))));
    [intros H; inversion H; auto|].
  destruct (bytes_leb (g_start (r_reg child2)) (g_start (r_reg pm))); [intros H; inversion H; auto|].
  destruct (update_region s (bump (set_end pm (g_start (r_reg child2))))) as [s1|] eqn:E1; [|intros H; inversion H; auto].
  apply rfind_in in Ef as Hin. destruct Hin as [Hin Hpid].
  apply update_region_mem in E1 as (np & Hnreg & Hnz & Hmem1 & _ & _ & Hnst).
  assert (Hnid : rid np = rid pm) by (unfold rid; rewrite Hnreg; reflexivity).
  assert (Hfind1 : rfind (rid pm) (smem s1) = Some np).
  { rewrite Hmem1. unfold rput. cbn [rfind]. rewrite Hnid, N.eqb_refl. reflexivity. }
  destruct (update_region s1 pm) as [s3|] eqn:E3.
  - apply update_region_mem in E3 as (p' & Hreg & _ & Hmem3 & _ & _ & Hst).
    intros H. inversion H; subst s' ok. split; [reflexivity|]. right. exists pm, p'.
    split; [rewrite <- Hpid in *; reflexivity|]. split; [exact Hreg|]. split.
    + rewrite Hst. destruct (N.eqb_spec (r_state pm) 0) as [E0|E0]; [|left; reflexivity].
      right. unfold known_state. rewrite E0. repeat split; lia.
    + rewrite Hmem3, Hmem1. unfold rput at 1 3.
      assert (Hid' : rid p' = rid pm) by (unfold rid; rewrite Hreg; reflexivity).
      rewrite Hid'. f_equal. apply rremove_rput. exact Hnid.
  - exfalso. unfold update_region in E3.
    assert (Hz : rid pm <> 0) by exact Hnz.
    destruct (N.eqb_spec (rid pm) 0) as [Ez|Ez]; [contradiction|].
    assert (Hrid : forall m : rmeta, rid (if r_state pm =? 0 then set_state pm 1 else pm) = rid pm)
      by (intros _; destruct (r_state pm =? 0); reflexivity).
    rewrite (Hrid pm), Hfind1 in E3.
    assert (Hv : valid_transition (r_state np) (r_state (if r_state pm =? 0 then set_state pm 1 else pm)) = true).
    { apply valid_transition_spec. left. rewrite Hnst. cbn [bump set_end r_state].
      destruct (r_state pm =? 0); reflexivity. }
    rewrite Hv in E3. discriminate.
Qed.

Lemma partition_rewrite_same c id p p' :
  partition c -> rfind id c = Some p -> r_reg p' = r_reg p ->
  partition (rput p' c) /\ same_cover c (rput p' c).
Proof.
  intros Hp Hf Hreg. pose proof Hp as (Hnd & Hall & Hpair).
  apply rfind_in in Hf as [Hin Hid].
  assert (Hid' : rid p' = rid p) by (unfold rid; rewrite Hreg; reflexivity).
  split; [split; [|split]|].
  - now apply nodup_rput.
  - apply Forall_forall. intros x Hx. apply in_rput in Hx as [->|[Hx _]].
    + rewrite Hreg. now apply (partition_wf c).
    + now apply (partition_wf c).
  - intros a b Ha Hb Hab.
    apply in_rput in Ha as [->|[Ha Ha']]; apply in_rput in Hb as [->|[Hb Hb']].
    + congruence.
    + rewrite Hreg. apply Hpair; auto. congruence.
    + rewrite Hreg. apply Hpair; auto. congruence.
    + apply Hpair; auto.
  - intros k. unfold covered. split.
    + intros (m & Hm & Hk). apply in_rput in Hm as [->|[Hm _]].
      * exists p. split; [exact Hin | rewrite <- Hreg; exact Hk].
      * exists m. split; assumption.
    + intros (m & Hm & Hk). destruct (N.eq_dec (rid m) (rid p')) as [E|E].
      * exists p'. split; [apply in_rput; now left|].
        assert (m = p) by (apply (nodup_same c); auto; congruence). subst m. rewrite Hreg. exact Hk.
      * exists m. split; [apply in_rput; right; split; assumption | exact Hk].
Qed.

Lemma rfind_rremove_other id id' c : id' <> id -> rfind id (rremove id' c) = rfind id c.
Proof.
  intros Hne. induction c as [|m c IH]; [reflexivity|].
  unfold rremove in *. cbn [filter rfind].
  destruct (N.eqb_spec (rid m) id') as [E|E]; cbn [negb].
  - destruct (N.eqb_spec (rid m) id) as [E'|E']; [congruence | exact IH].
  - cbn [rfind]. destruct (rid m =? id); [reflexivity | exact IH].
Qed.

Lemma split_unhosted_partition s parent key child s' ok :
  partition (smem s) ->
  split_unhosted s parent key child = (s', ok) ->
  ok = false /\ partition (smem s') /\ same_cover (smem s) (smem s') /\
  (forall id, option_map r_reg (rfind id (smem s')) = option_map r_reg (rfind id (smem s))).
Proof.
  intros Hp H. apply split_unhosted_restores in H as [-> [->|(p & p' & Hf & Hreg & _ & Hmem)]].
  - split; [reflexivity|]. split; [exact Hp|]. split; [intros k; reflexivity | reflexivity].
  - destruct (partition_rewrite_same _ _ _ _ Hp Hf Hreg) as [Hp' Hc].
    rewrite Hmem. split; [reflexivity|]. split; [exact Hp'|]. split; [exact Hc|].
    intros id. apply rfind_in in Hf as Hpp. destruct Hpp as [Hin Hid].
    assert (Hid' : rid p' = parent) by (unfold rid in *; rewrite Hreg; exact Hid).
    unfold rput. cbn [rfind]. rewrite Hid'.
    destruct (N.eqb_spec parent id) as [E|E].
    + subst id. rewrite Hf. cbn [option_map]. now rewrite Hreg.
    + rewrite (rfind_rremove_other id parent _ E). reflexivity.
Qed.

Lemma failed_split_example :
  let p := {| r_reg := {| g_id := 1; g_start := [n2b 97]; g_end := [n2b 122]; g_ver := 4; g_conf := 1 |}; r_state := 1 |} in
  let ch := {| r_reg := {| g_id := 2; g_start := []; g_end := [n2b 122]; g_ver := 1; g_conf := 1 |}; r_state := 0 |} in
  let s := {| smem := [p]; sdisk := [p] |} in
  partition_b (smem s) = true /\
  split_unhosted s 1 [n2b 109] ch = (s, false) /\
  fst (split s 1 [n2b 109] ch) <> s.
Proof. vm_compute. repeat split; try reflexivity. discriminate. Qed.

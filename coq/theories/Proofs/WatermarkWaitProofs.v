(** C32: a WaitForMark that returned saw the mark at or above its index
    (all schedules, rebuilds included, repaired Begin order). *)
From Coq Require Import List NArith ZArith Bool Arith Lia ZifyN ZifyNat ZifyBool.
From NoKV Require Import Base.Sched Model.SchedLib Model.Watermark Spec.WatermarkSpec
  Proofs.SchedLibProofs Proofs.WatermarkProofs Proofs.WatermarkSafeProofs.
Import ListNotations.
Local Open Scope N_scope.

Definition wait_th (done : N) (waiters : list (N * nat)) (t : nat) (th : thread) : Prop :=
  match th_pc th with
  | NTLock u | NTClose u => u <= done
  | WSelect => match th_ops th with
               | o :: _ => has_waiter (op_index o) t waiters = true \/ op_index o <= done
               | [] => True
               end
  | _ => True
  end.

Record InvW (g : gstate) : Prop := {
  iw_ret : Forall (fun i => i <= g_done g) (g_waitret g);
  iw_th : forall t th, nth_error (g_threads g) t = Some th -> wait_th (g_done g) (g_waiters g) t th
}.

Lemma has_waiter_filter i u v l :
  has_waiter i u l = true ->
  has_waiter i u (filter (fun x => negb (fst x <=? v)) l) = true \/ i <= v.
Proof.
  induction l as [|[j w] l IH]; cbn [has_waiter filter fst]; [discriminate|].
  intros H. apply orb_true_iff in H as [H|H].
  - apply andb_true_iff in H as [H1 H2]. apply N.eqb_eq in H1. subst j.
    destruct (i <=? v) eqn:E; [right; now apply N.leb_le|].
    left. cbn [negb has_waiter]. rewrite N.eqb_refl, H2. reflexivity.
  - destruct (IH H) as [H'|H']; [|now right]. left.
    destruct (negb (j <=? v)); [cbn [has_waiter]; rewrite H'; apply orb_true_r|exact H'].
Qed.

Lemma wait_th_mono done D W W' u thu :
  done <= D ->
  (forall i, has_waiter i u W = true -> has_waiter i u W' = true \/ i <= D) ->
  wait_th done W u thu -> wait_th D W' u thu.
Proof.
  intros HD HW. unfold wait_th. destruct (th_pc thu); try tauto; try lia.
  destruct (th_ops thu); [tauto|]. intros [H|H]; [destruct (HW _ H); auto|right; lia].
Qed.

Lemma InvW_upd g t th D L W C M WT GH WR th' :
  InvW g -> nth_error (g_threads g) t = Some th ->
  g_done g <= D -> Forall (fun i => i <= D) WR ->
  (forall u i, has_waiter i u (g_waiters g) = true -> has_waiter i u WT = true \/ i <= D) ->
  wait_th D WT t th' ->
  InvW (upd g D L W C M WT GH WR t th').
Proof.
  intros HI Et HD HR HW Hown. constructor; unfold upd; cbn; [exact HR|].
  intros u thu Hn. destruct (Nat.eq_dec t u) as [<-|Hne].
  - erewrite nth_error_set_nth_eq in Hn by eauto. inversion Hn; subst. exact Hown.
  - rewrite nth_error_set_nth_neq in Hn by exact Hne.
    eapply wait_th_mono; [exact HD|apply HW|]. apply (iw_th g HI u thu Hn).
Qed.

Definition quietw (p : pc) : Prop :=
  match p with NTLock _ | NTClose _ | WSelect => False | _ => True end.

Lemma quietw_ok D WT t ops p : quietw p -> wait_th D WT t {| th_ops := ops; th_pc := p |}.
Proof. unfold wait_th, quietw. cbn. destruct p; tauto. Qed.

Ltac quietw_tac :=
  apply quietw_ok;
  first [ exact I
        | unfold add_start, after_add, after_sl, next_op_pc, ew_return; cbv beta iota;
          repeat match goal with |- context [match ?x with _ => _ end] => destruct x end; exact I ].

Lemma Forall_le_mono (l : list N) a b : a <= b -> Forall (fun i => i <= a) l -> Forall (fun i => i <= b) l.
Proof. intros H. apply Forall_impl. intros; lia. Qed.

(** a step that changes neither the mark, the waiters nor the returned waits *)
Ltac plainw HI Et thr :=
  apply (InvW_upd _ _ thr);
  [ exact HI | exact Et | apply N.le_refl | apply (iw_ret _ HI) | intros ? ? H; left; exact H | quietw_tac ].

Lemma InvW_step g t g' : InvW g -> tstep true g t = Some g' -> InvW g'.
Proof.
  intros HI Hs. unfold tstep in Hs.
  destruct (nth_error (g_threads g) t) as [th|] eqn:Et; [|discriminate].
  destruct (th_ops th) as [|o r] eqn:Eo; [discriminate|].
  pose proof (iw_th g HI t th Et) as Hth. unfold wait_th in Hth. rewrite Eo in Hth.
  destruct (th_pc th) as [| |cur|wh|wh|wh|wh k|wh old|wh old nb k acc|wh nb sl|wh|k| |du|du|du k|du|u|u| | | | |] eqn:Epc;
    unfold thread_step in Hs; cbv zeta in Hs.
  - destruct o. all: head_cases Hs; injection Hs as <-; unfold to, goto; plainw HI Et th.
  - head_cases Hs; injection Hs as <-; unfold to, goto; plainw HI Et th.
  - head_cases Hs; injection Hs as <-; unfold to, goto; plainw HI Et th.
  - head_cases Hs; injection Hs as <-; unfold to, goto; plainw HI Et th.
  - head_cases Hs; injection Hs as <-; unfold to, goto; plainw HI Et th.
  - head_cases Hs; injection Hs as <-; unfold to, goto; plainw HI Et th.
  - head_cases Hs; injection Hs as <-; unfold to, goto; plainw HI Et th.
  - head_cases Hs; injection Hs as <-; unfold to, goto; plainw HI Et th.
  - head_cases Hs; injection Hs as <-; unfold to, goto; plainw HI Et th.
  - head_cases Hs; injection Hs as <-; unfold to, goto; plainw HI Et th.
  - head_cases Hs; injection Hs as <-; unfold to, goto; plainw HI Et th.
  - head_cases Hs; injection Hs as <-; unfold to, goto; plainw HI Et th.
  - head_cases Hs; injection Hs as <-; unfold to, goto; plainw HI Et th.
  - head_cases Hs; injection Hs as <-; unfold to, goto; plainw HI Et th.
  - head_cases Hs; injection Hs as <-; unfold to, goto; plainw HI Et th.
  - head_cases Hs; injection Hs as <-; unfold to, goto; plainw HI Et th.
  - (* TACas *)
    head_cases Hs; injection Hs as <-; unfold to, goto; [|plainw HI Et th].
    norm. apply (InvW_upd _ _ th); [exact HI|exact Et|lia| | |].
    + eapply Forall_le_mono; [|apply (iw_ret _ HI)]. lia.
    + intros ? ? H; left; exact H.
    + unfold wait_th. cbn. lia.
  - (* NTLock *)
    head_cases Hs; injection Hs as <-.
    apply (InvW_upd _ _ th); [exact HI|exact Et|apply N.le_refl|apply (iw_ret _ HI)|intros ? ? H; left; exact H|].
    unfold wait_th. cbn. exact Hth.
  - (* NTClose *)
    injection Hs as <-.
    apply (InvW_upd _ _ th); [exact HI|exact Et|apply N.le_refl|apply (iw_ret _ HI)| |quietw_tac].
    intros v i H. destruct (has_waiter_filter i v u _ H) as [H'|H']; [now left|right; lia].
  - (* WFast *)
    head_cases Hs; injection Hs as <-; unfold to, goto; [|plainw HI Et th].
    norm. apply (InvW_upd _ _ th); [exact HI|exact Et|apply N.le_refl| |intros ? ? H; left; exact H|quietw_tac].
    constructor; [assumption|apply (iw_ret _ HI)].
  - (* WLock *) head_cases Hs; injection Hs as <-; unfold to, goto; plainw HI Et th.
  - (* WCheck *)
    head_cases Hs; injection Hs as <-; unfold to, goto.
    + norm. apply (InvW_upd _ _ th); [exact HI|exact Et|apply N.le_refl| |intros ? ? H; left; exact H|quietw_tac].
      constructor; [assumption|apply (iw_ret _ HI)].
    + apply (InvW_upd _ _ th); [exact HI|exact Et|apply N.le_refl|apply (iw_ret _ HI)| |].
      * intros v i H. left. cbn [has_waiter]. rewrite H. apply orb_true_r.
      * unfold wait_th. cbn [th_pc th_ops has_waiter]. left. rewrite N.eqb_refl, Nat.eqb_refl. reflexivity.
  - (* WSelect *)
    head_cases Hs; injection Hs as <-; unfold to, goto.
    apply (InvW_upd _ _ th); [exact HI|exact Et|apply N.le_refl| |intros ? ? H; left; exact H|quietw_tac].
    constructor; [|apply (iw_ret _ HI)]. destruct Hth as [H|H]; [congruence|exact H].
  - discriminate.
Qed.

Lemma InvW_init size progs : InvW (init size progs).
Proof.
  constructor; cbn; [constructor|].
  intros t th Hn. rewrite nth_error_map in Hn. destruct (nth_error progs t) as [p|]; [|discriminate].
  inversion Hn; subst. unfold wait_th. cbn. destruct p; exact I.
Qed.

(** every WaitForMark i that has returned: the mark is at least i *)
Theorem watermark_wait size progs g :
  reachable (tstep true) (init size progs) g -> Forall (fun i => i <= g_done g) (g_waitret g).
Proof.
  intros Hr. apply iw_ret.
  apply (inv_reachable (tstep true) InvW (init size progs)); [apply InvW_init| |exact Hr].
  intros g0 t g1 IH Hs. eapply InvW_step; eauto.
Qed.

(** with the safety theorem: when such a wait has returned, no in-order index at or below i is outstanding *)
Theorem watermark_wait_done size progs g :
  reachable (tstep true) (init size progs) g -> Good g ->
  forall i, In i (g_waitret g) -> forall j t, In (j, t) (g_tracked g) -> i < j.
Proof.
  intros Hr HG i Hi j t Hj.
  pose proof (watermark_wait size progs g Hr) as Hw. rewrite Forall_forall in Hw. specialize (Hw i Hi).
  pose proof (watermark_safe_no_rebuild size progs g Hr HG j t Hj). lia.
Qed.

(** Proofs for C33 (directory lock). *)
From Coq Require Import List NArith Bool Arith Lia ZifyN ZifyNat ZifyBool.
From NoKV Require Import Base.Sched Model.SchedLib Model.DirLock Spec.DirLockSpec Proofs.SchedLibProofs.
Import ListNotations.
Local Open Scope N_scope.

Lemma holder_None i l : holder i l = None <-> ~ In i (map fst l).
Proof.
  induction l as [|[j t] l IH]; cbn; [tauto|].
  destruct (i =? j) eqn:E.
  - apply N.eqb_eq in E. subst. split; [discriminate|]. intros H; exfalso; apply H; now left.
  - apply N.eqb_neq in E. rewrite IH. split; intros H; [intros [H'|H']; [congruence|tauto]|tauto].
Qed.

Lemma fst_unique (l : list (N * nat)) s a b :
  NoDup (map fst l) -> In (s, a) l -> In (s, b) l -> a = b.
Proof.
  induction l as [|[s' t'] l IH]; cbn; [tauto|].
  intros Hd Ha Hb. inversion Hd as [|? ? Hn Hd']; subst.
  destruct Ha as [Ha|Ha], Hb as [Hb|Hb].
  - congruence.
  - inversion Ha; subst. exfalso. apply Hn. apply (in_map fst) in Hb. exact Hb.
  - inversion Hb; subst. exfalso. apply Hn. apply (in_map fst) in Ha. exact Ha.
  - eauto.
Qed.

Lemma In_drop l i t j u :
  NoDup (map fst l) -> (In (j, u) (drop i t l) <-> In (j, u) l /\ ~ (j = i /\ u = t)).
Proof.
  induction l as [|[j2 u2] l IH]; cbn; [tauto|].
  intros Hd. inversion Hd as [|? ? Hn Hd']; subst.
  destruct ((i =? j2) && Nat.eqb t u2) eqn:E.
  - apply andb_true_iff in E as [E1 E2]. apply N.eqb_eq in E1. apply Nat.eqb_eq in E2. subst.
    split.
    + intros H. split; [now right|]. intros [-> ->]. apply Hn. apply (in_map fst) in H. exact H.
    + intros [[H|H] Hne]; [inversion H; subst; tauto|exact H].
  - cbn. rewrite IH by exact Hd'. split.
    + intros [H|[H Hne]]; [|tauto]. inversion H; subst. split; [now left|].
      intros [-> ->]. rewrite N.eqb_refl, Nat.eqb_refl in E. discriminate.
    + intros [[H|H] Hne]; [now left|right; tauto].
Qed.

Lemma NoDup_drop l i t : NoDup (map fst l) -> NoDup (map fst (drop i t l)).
Proof.
  induction l as [|[j2 u2] l IH]; cbn; [auto|].
  intros Hd. inversion Hd as [|? ? Hn Hd']; subst.
  destruct ((i =? j2) && Nat.eqb t u2); [exact Hd'|]. cbn. constructor; [|auto].
  intros Hin. apply Hn. apply in_map_iff in Hin as ([a b] & Hab & Hin). cbn in Hab; subst.
  apply In_drop in Hin as [Hin _]; [|exact Hd']. apply (in_map fst) in Hin. exact Hin.
Qed.

(** inode on which a contender at [p] holds the flock *)
Definition locked_ino (p : pc) : option N :=
  match p with
  | PCheck i | PRetry i | PHold i | PRemove i | PUnlock i => Some i
  | _ => None
  end.

(** contenders that checked the path while holding the lock and have not removed it yet *)
Definition valid_ino (p : pc) : option N :=
  match p with PHold i | PRemove i => Some i | _ => None end.

Record Inv (g : gstate) : Prop := {
  inv_nodup : NoDup (map fst (g_locks g));
  inv_owner : forall i t, In (i, t) (g_locks g) ->
                exists p, nth_error (g_pcs g) t = Some p /\ locked_ino p = Some i;
  inv_locked : forall t p i, nth_error (g_pcs g) t = Some p -> locked_ino p = Some i ->
                In (i, t) (g_locks g);
  inv_valid : forall t p i, nth_error (g_pcs g) t = Some p -> valid_ino p = Some i ->
                g_path g = Some i
}.

Lemma Inv_init n : Inv (init n).
Proof.
  constructor; cbn; [constructor|tauto| |];
    intros t p i Hn; apply nth_error_In, repeat_spec in Hn; subst; discriminate.
Qed.

Lemma valid_locked p i : valid_ino p = Some i -> locked_ino p = Some i.
Proof. destruct p; cbn; congruence. Qed.

Lemma valid_unique g t u p q i j :
  Inv g -> nth_error (g_pcs g) t = Some p -> nth_error (g_pcs g) u = Some q ->
  valid_ino p = Some i -> valid_ino q = Some j -> t = u.
Proof.
  intros [Hd Ho Hl Hv] Ht Hu Hp Hq.
  pose proof (Hv _ _ _ Ht Hp) as E1. pose proof (Hv _ _ _ Hu Hq) as E2.
  rewrite E1 in E2. inversion E2; subst j.
  eapply fst_unique; [exact Hd| |]; eapply Hl; eauto using valid_locked.
Qed.

(** the generic shape of a step: thread [t] goes from [p] to [p'] *)
Lemma Inv_update g t p p' path' next' locks' :
  Inv g -> nth_error (g_pcs g) t = Some p ->
  NoDup (map fst locks') ->
  (forall j u, In (j, u) locks' <->
     (In (j, u) (g_locks g) /\ u <> t) \/ (u = t /\ locked_ino p' = Some j)) ->
  (forall u q i, u <> t -> nth_error (g_pcs g) u = Some q -> valid_ino q = Some i -> path' = Some i) ->
  (forall i, valid_ino p' = Some i -> path' = Some i) ->
  Inv {| g_path := path'; g_next := next'; g_locks := locks'; g_pcs := set_nth t p' (g_pcs g) |}.
Proof.
  intros [Hd Ho Hl Hv] Et Hd' Hlk Hvo Hvt. constructor; cbn.
  - exact Hd'.
  - intros j u Hin. apply Hlk in Hin as [[Hin Hne]|[-> Hp]].
    + destruct (Ho _ _ Hin) as (q & Hn & Hq). exists q.
      rewrite nth_error_set_nth_neq by congruence. auto.
    + exists p'. split; [eapply nth_error_set_nth_eq; eauto|exact Hp].
  - intros u q j Hn Hq. apply Hlk. destruct (Nat.eq_dec t u) as [<-|Hne].
    + erewrite nth_error_set_nth_eq in Hn by eauto. inversion Hn; subst. now right.
    + rewrite nth_error_set_nth_neq in Hn by exact Hne. left. split; [eauto|congruence].
  - intros u q j Hn Hq. destruct (Nat.eq_dec t u) as [<-|Hne].
    + erewrite nth_error_set_nth_eq in Hn by eauto. inversion Hn; subst. auto.
    + rewrite nth_error_set_nth_neq in Hn by exact Hne. eapply Hvo; eauto.
Qed.

Lemma locks_same g t p p' :
  Inv g -> nth_error (g_pcs g) t = Some p -> locked_ino p' = locked_ino p ->
  forall j u, In (j, u) (g_locks g) <->
     (In (j, u) (g_locks g) /\ u <> t) \/ (u = t /\ locked_ino p' = Some j).
Proof.
  intros [Hd Ho Hl Hv] Et E j u. rewrite E. split.
  - intros Hin. destruct (Nat.eq_dec u t) as [->|Hne]; [right|left; auto].
    split; [reflexivity|]. destruct (Ho _ _ Hin) as (q & Hn & Hq). congruence.
  - intros [[H _]|[-> H]]; [exact H|eauto].
Qed.

Lemma locks_add g t p p' i :
  Inv g -> nth_error (g_pcs g) t = Some p -> locked_ino p = None -> locked_ino p' = Some i ->
  forall j u, In (j, u) ((i, t) :: g_locks g) <->
     (In (j, u) (g_locks g) /\ u <> t) \/ (u = t /\ locked_ino p' = Some j).
Proof.
  intros [Hd Ho Hl Hv] Et E E' j u. rewrite E'. cbn. split.
  - intros [Heq|Hin]; [inversion Heq; subst; now right|].
    left. split; [exact Hin|]. intros ->. destruct (Ho _ _ Hin) as (q & Hn & Hq). congruence.
  - intros [[H _]|[-> H]]; [now right|left; congruence].
Qed.

Lemma locks_drop g t p p' i :
  Inv g -> nth_error (g_pcs g) t = Some p -> (locked_ino p = Some i \/ locked_ino p = None) ->
  locked_ino p' = None ->
  forall j u, In (j, u) (drop i t (g_locks g)) <->
     (In (j, u) (g_locks g) /\ u <> t) \/ (u = t /\ locked_ino p' = Some j).
Proof.
  intros [Hd Ho Hl Hv] Et E E' j u. rewrite E'. rewrite In_drop by exact Hd. split.
  - intros [Hin Hne]. left. split; [exact Hin|]. intros ->.
    destruct (Ho _ _ Hin) as (q & Hn & Hq). rewrite Et in Hn. inversion Hn; subst q.
    destruct E as [E|E]; rewrite E in Hq; [|discriminate]. inversion Hq; subst. tauto.
  - intros [[H Hne]|[_ H]]; [|discriminate]. split; [exact H|]. intros [_ ->]. tauto.
Qed.

Section Faulty.
Variable faulty : nat -> bool.

Lemma Inv_step g t g' : Inv g -> tstep true faulty g t = Some g' -> Inv g'.
Proof.
  intros HI Hs. pose proof HI as [Hd Ho Hl Hv]. unfold tstep in Hs.
  destruct (nth_error (g_pcs g) t) as [p|] eqn:Et; [|discriminate].
  assert (Hothers : forall u q i, u <> t -> nth_error (g_pcs g) u = Some q -> valid_ino q = Some i ->
                      g_path g = Some i) by (intros; eapply Hv; eauto).
  destruct p as [|i|i|i|i|i|i|i|r].
  - (* open *)
    destruct (g_path g) as [i|] eqn:Ep; inversion Hs; subst; clear Hs; unfold with_pc.
    + eapply Inv_update; [exact HI|exact Et|exact Hd|eapply locks_same; eauto|(let u := fresh in let q := fresh in let j0 := fresh in intros u q j0 ? ? ?; try rewrite Ep; eapply Hothers; eauto)|discriminate].
    + eapply Inv_update; [exact HI|exact Et|exact Hd|eapply locks_same; eauto| |discriminate].
      intros u q j Hne Hn Hq. specialize (Hothers _ _ _ Hne Hn Hq). congruence.
  - (* flock *)
    destruct (holder i (g_locks g)) eqn:Eh; inversion Hs; subst; clear Hs; unfold with_pc.
    + eapply Inv_update; [exact HI|exact Et|exact Hd|eapply locks_same; eauto|(let u := fresh in let q := fresh in let j0 := fresh in intros u q j0 ? ? ?; try rewrite Ep; eapply Hothers; eauto)|discriminate].
    + eapply Inv_update; [exact HI|exact Et| |eapply locks_add; eauto|(let u := fresh in let q := fresh in let j0 := fresh in intros u q j0 ? ? ?; try rewrite Ep; eapply Hothers; eauto)|discriminate].
      cbn. constructor; [now apply holder_None|exact Hd].
  - (* check *)
    destruct (g_path g) as [j|] eqn:Ep.
    + destruct (i =? j) eqn:E; inversion Hs; subst; clear Hs; unfold with_pc.
      * eapply Inv_update; [exact HI|exact Et|exact Hd|eapply locks_same; eauto|(let u := fresh in let q := fresh in let j0 := fresh in intros u q j0 ? ? ?; try rewrite Ep; eapply Hothers; eauto)|].
        apply N.eqb_eq in E. subst. cbn. intros ? [= <-]. exact Ep.
      * eapply Inv_update; [exact HI|exact Et|exact Hd|eapply locks_same; eauto|(let u := fresh in let q := fresh in let j0 := fresh in intros u q j0 ? ? ?; try rewrite Ep; eapply Hothers; eauto)|discriminate].
    + inversion Hs; subst; clear Hs; unfold with_pc.
      eapply Inv_update; [exact HI|exact Et|exact Hd|eapply locks_same; eauto|(let u := fresh in let q := fresh in let j0 := fresh in intros u q j0 ? ? ?; try rewrite Ep; eapply Hothers; eauto)|discriminate].
  - (* retry: close *)
    inversion Hs; subst; clear Hs.
    eapply Inv_update; [exact HI|exact Et|now apply NoDup_drop|eapply locks_drop; eauto|(let u := fresh in let q := fresh in let j0 := fresh in intros u q j0 ? ? ?; try rewrite Ep; eapply Hothers; eauto)|discriminate].
  - (* hold -> remove *)
    inversion Hs; subst; clear Hs. unfold with_pc.
    eapply Inv_update; [exact HI|exact Et|exact Hd|eapply locks_same; eauto|(let u := fresh in let q := fresh in let j0 := fresh in intros u q j0 ? ? ?; try rewrite Ep; eapply Hothers; eauto)|].
    cbn. intros ? [= <-]. eapply Hv; [exact Et|reflexivity].
  - (* remove *)
    inversion Hs; subst; clear Hs.
    eapply Inv_update; [exact HI|exact Et|exact Hd|eapply locks_same; eauto| |discriminate].
    intros u q j Hne Hn Hq. exfalso. apply Hne. eapply (valid_unique g u t); eauto. reflexivity.
    (* both outcomes of the unlink: no other contender is validated, so nothing depends on the new path *)
  - (* unlock *)
    inversion Hs; subst; clear Hs.
    eapply Inv_update; [exact HI|exact Et|now apply NoDup_drop|eapply locks_drop; eauto|(let u := fresh in let q := fresh in let j0 := fresh in intros u q j0 ? ? ?; try rewrite Ep; eapply Hothers; eauto)|discriminate].
  - (* close *)
    inversion Hs; subst; clear Hs.
    eapply Inv_update; [exact HI|exact Et|now apply NoDup_drop|eapply locks_drop; eauto|(let u := fresh in let q := fresh in let j0 := fresh in intros u q j0 ? ? ?; try rewrite Ep; eapply Hothers; eauto)|discriminate].
  - discriminate.
Qed.

Lemma Inv_reachable n g : reachable (tstep true faulty) (init n) g -> Inv g.
Proof. apply inv_reachable; [apply Inv_init | intros; eapply Inv_step; eauto]. Qed.

(** * C33_exclusive *)
Theorem dirlock_exclusive n g :
  reachable (tstep true faulty) (init n) g ->
  forall t u i j, nth_error (g_pcs g) t = Some (PHold i) -> nth_error (g_pcs g) u = Some (PHold j) -> t = u.
Proof.
  intros Hr t u i j Ht Hu. eapply valid_unique; eauto using Inv_reachable; reflexivity.
Qed.

Lemma holders_from_spec l : forall k t,
  In t (holders_from k l) <-> exists p, nth_error l (t - k) = Some p /\ holding p = true /\ (k <= t)%nat.
Proof.
  induction l as [|p l IH]; intros k t; cbn.
  - split; [tauto|]. intros (p & H & _). destruct (t - k)%nat; discriminate.
  - destruct (holding p) eqn:E; cbn; rewrite IH; split.
    + intros [<-|(q & Hn & Hq & Hle)].
      * exists p. rewrite Nat.sub_diag. cbn. auto.
      * exists q. replace (t - k)%nat with (S (t - S k)) by lia. cbn. split; [exact Hn|]. split; [exact Hq|lia].
    + intros (q & Hn & Hq & Hle). destruct (Nat.eq_dec k t) as [->|Hne]; [now left|right].
      exists q. replace (t - k)%nat with (S (t - S k)) in Hn by lia. cbn in Hn. split; [exact Hn|]. split; [exact Hq|lia].
    + intros (q & Hn & Hq & Hle). exists q. replace (t - k)%nat with (S (t - S k)) by lia. cbn.
      split; [exact Hn|]. split; [exact Hq|lia].
    + intros (q & Hn & Hq & Hle). destruct (Nat.eq_dec k t) as [->|Hne].
      * rewrite Nat.sub_diag in Hn. cbn in Hn. inversion Hn; subst. congruence.
      * exists q. replace (t - k)%nat with (S (t - S k)) in Hn by lia. cbn in Hn.
        split; [exact Hn|]. split; [exact Hq|lia].
Qed.

Lemma holders_from_NoDup l : forall k, NoDup (holders_from k l).
Proof.
  induction l as [|p l IH]; intros k; cbn; [constructor|].
  destruct (holding p); [|apply IH]. constructor; [|apply IH].
  intro Hin. apply holders_from_spec in Hin as (q & _ & _ & Hle). lia.
Qed.

(** the observable form: the list of contenders that have the directory has at most one element *)
Theorem dirlock_exclusive_holders n g :
  reachable (tstep true faulty) (init n) g -> at_most_one (holders g).
Proof.
  intros Hr. unfold at_most_one, holders.
  pose proof (holders_from_NoDup (g_pcs g) 0%nat) as Hnd.
  destruct (holders_from 0 (g_pcs g)) as [|a [|b r]] eqn:E; cbn; try lia.
  exfalso.
  assert (Ha : In a (holders_from 0 (g_pcs g))) by (rewrite E; now left).
  assert (Hb : In b (holders_from 0 (g_pcs g))) by (rewrite E; right; now left).
  apply holders_from_spec in Ha as (p & Hp & Hhp & _). apply holders_from_spec in Hb as (q & Hq & Hhq & _).
  rewrite Nat.sub_0_r in *. destruct p; try discriminate. destruct q; try discriminate.
  assert (a = b) by (eapply dirlock_exclusive; eauto). subst.
  inversion Hnd as [|? ? Hn _]; subst. apply Hn. now left.
Qed.

Theorem dirlock_exclusive_run n sched : at_most_one (holders (run (tstep true faulty) (init n) sched)).
Proof. apply (dirlock_exclusive_holders n), run_reachable. Qed.

End Faulty.

(** * the step order before the repair is refuted by a 3-contender schedule (F29):
      0 acquires and starts to release (unlock); 1 opens the same inode and locks it;
      0 closes and unlinks; 2 creates a fresh LOCK file and locks it. *)
Definition f29_schedule : list nat := [0; 0; 0; 0; 1; 1; 0; 0; 2; 2]%nat.

Theorem dirlock_unfixed_refuted :
  exists n sched, holders (run (tstep false (fun _ => false)) (init n) sched) = [1; 2]%nat.
Proof. exists 3%nat, f29_schedule. vm_compute. reflexivity. Qed.

(** removing before unlocking alone (without the re-check after flock) is refuted too: the model with
    the old acquire path is [tstep false]; the repaired acquire path is needed.  The repaired model
    passes the same schedule: *)
Example dirlock_fixed_on_f29 :
  holders (run (tstep true (fun _ => false)) (init 3) f29_schedule) = [] /\
  holders (run (tstep true (fun _ => false)) (init 3) [0; 0; 0]%nat) = [0%nat].
Proof. split; vm_compute; reflexivity. Qed.

(** oracle *)
Lemma exclusive_trace_b_spec obs : exclusive_trace_b obs = true <-> exclusive_trace obs.
Proof.
  unfold exclusive_trace_b, exclusive_trace. rewrite forallb_forall, Forall_forall.
  unfold at_most_one_b, at_most_one. split; intros H x Hx; specialize (H x Hx).
  - now apply Nat.leb_le.
  - now apply Nat.leb_le.
Qed.

Lemma close_held_b_spec ops : forall released, close_held_b released ops = true <-> close_held released ops.
Proof.
  induction ops as [|[lock intr] r IH]; intros released; cbn; [tauto|].
  rewrite !andb_true_iff, IH. destruct intr, released, lock; cbn; intuition congruence.
Qed.

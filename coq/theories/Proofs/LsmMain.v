(** Reads of an LSM state return the latest acknowledged write, given the
    structural invariant, the recency order of equal internal keys along the
    scan, and that the state holds exactly the history (up to overwritten
    equal internal keys).  No order between versions is assumed. *)
From Coq Require Import List NArith Bool Lia Sorting.Sorted.
From NoKV Require Import Base.Bytes Model.Lsm Spec.MvccSpec Proofs.LsmOrder Spec.LsmSpec Proofs.LsmRead Proofs.LsmGet.
Import ListNotations.
Local Open Scope N_scope.

(** The state holds only acknowledged writes, and every acknowledged write is
    still represented by a record of the same internal key that is at least as
    recent (an overwrite replaces, a merge keeps one copy). *)
Definition content_ok (s : state) (ws : list rec) : Prop :=
  (forall x, In x (all_recs (tiers_of s)) -> In x ws) /\
  (forall w, In w ws -> exists x, In x (all_recs (tiers_of s)) /\ r_key x = r_key w /\ r_ver x = r_ver w /\ geq x w).

Lemma is_latest_transfer s ws k v o :
  content_ok s ws -> is_latest (all_recs (tiers_of s)) k v o -> is_latest ws k v o.
Proof.
  intros [H1 H2]. destruct o as [x|]; cbn [is_latest].
  - intros (Hin & Hc & Hb). split; [auto|]. split; [exact Hc|].
    intros y Hy [Hyk Hyv]. destruct (H2 y Hy) as (x' & Hx' & Ek & Ev & Hg).
    eapply geq_trans; [|exact Hg]. apply Hb; [exact Hx'|]. split; [congruence | lia].
  - intros Hn y Hy [Hyk Hyv]. destruct (H2 y Hy) as (x' & Hx' & Ek & Ev & _).
    apply (Hn x' Hx'). split; [congruence | lia].
Qed.

(** The flat scan returns the latest write of the scanned records. *)
Lemma scan_latest k v srcs : scan_inv srcs -> is_latest (concat srcs) k v (tier_best k v srcs).
Proof.
  intros (Hs & Hp & Hw). pose proof (tier_best_scanned k v srcs Hs Hp Hw) as H.
  destruct (tier_best k v srcs) as [x|]; cbn [scanned is_latest] in *; [|exact H].
  destruct H as (H1 & H2 & _ & H3). auto.
Qed.

Theorem get_latest s ws k v :
  src_inv s -> scan_inv (scan_srcs s) -> content_ok s ws -> seq_functional ws ->
  get s k v = latest_at ws k v.
Proof.
  intros Hs Ht Hc Hf. rewrite (get_is_flat s k v Hs).
  eapply is_latest_unique; [exact Hf | | apply latest_at_is_latest].
  eapply is_latest_transfer; [exact Hc|]. change (all_recs (tiers_of s)) with (concat (scan_srcs s)).
  now apply scan_latest.
Qed.

(** C37 for the transaction layer (call-atomic model [Model.TxnOracle]): every
    exit of Commit after the commit timestamp was issued releases it
    (doneCommit), so the commit watermark always stands at the last issued
    timestamp and NewTransaction never waits in WaitForMark. *)
From Coq Require Import List NArith ZArith Bool Lia ZifyN ZifyBool.
From NoKV Require Import Base.Bytes Spec.SerialSpec Model.TxnOracle Proofs.TxnStoreLemmas Proofs.TxnProofs
                         Proofs.TxnSchedProofs.
Import ListNotations.
Local Open Scope N_scope.

Definition mark_settled (w : wm) : Prop :=
  wm_done w = wm_last w /\ forall j, wm_last w < j -> wm_cnt w j = 0%Z.

Lemma issue_then_done w :
  mark_settled w ->
  let ts := wm_last w + 1 in
  mark_settled (wm_finish ts (wm_begin ts w)) /\ wm_last (wm_finish ts (wm_begin ts w)) = ts.
Proof.
  intros [Hd Hz] ts. set (d := wm_last w) in *.
  assert (E0 : ts =? 0 = false) by (apply N.eqb_neq; unfold ts; lia).
  (* after Begin: last = ts, count of ts = 1, the mark stays at d *)
  set (w1 := wm_begin ts w).
  assert (L1 : wm_last w1 = ts).
  { unfold w1. rewrite wm_last_begin. fold d. apply N.max_r. unfold ts. lia. }
  assert (C1 : forall j, wm_cnt w1 j = if j =? ts then 1%Z else wm_cnt w j).
  { intros j. unfold w1, wm_begin. rewrite wm_cnt_add, E0. cbn [wm_set_last wm_cnt].
    destruct (j =? ts) eqn:E; [|reflexivity]. apply N.eqb_eq in E. subst j. rewrite Hz; [reflexivity | unfold ts; fold d; lia]. }
  assert (D1 : wm_done w1 = d).
  { unfold w1, wm_begin, wm_add. rewrite E0. cbn [wm_try wm_done wm_last wm_cnt wm_set_last].
    match goal with |- wm_advance ?f ?c ?l ?x = _ =>
      pose proof (adv_ge f c l x) as G1; pose proof (adv_stops f c l x ts) as G2 end.
    rewrite Hd in G1, G2 |- *. fold d in G1, G2 |- *.
    assert (G3 : d < ts) by (unfold ts; lia). specialize (G2 G3).
    rewrite N.eqb_refl in G2. rewrite Hz in G2 by (fold d; unfold ts; lia). specialize (G2 ltac:(lia)).
    assert (Ets : ts = d + 1) by reflexivity. clearbody ts. lia. }
  (* after Done: count of ts = 0, one advance reaches ts *)
  unfold wm_finish, wm_add. rewrite E0. unfold wm_try, mark_settled. cbn [wm_done wm_last wm_cnt].
  rewrite L1, D1. replace (N.to_nat (ts - d)) with 1%nat by (unfold ts; lia).
  cbn [wm_advance]. cbv beta. replace (d <? ts) with true by (symmetry; apply N.ltb_lt; unfold ts; lia).
  replace (d + 1) with ts by reflexivity. rewrite N.eqb_refl, C1, N.eqb_refl. cbn [andb Z.add Z.leb Z.compare Pos.compare Pos.compare_cont Z.opp].
  cbn.
  split; [split|reflexivity]; [reflexivity|].
  intros j Hj. replace (j =? ts) with false by (symmetry; apply N.eqb_neq; lia).
  rewrite C1. replace (j =? ts) with false by (symmetry; apply N.eqb_neq; lia). apply Hz. fold d. unfold ts in Hj. lia.
Qed.

Section NoHang.
  Variable fp : bytes -> N.
  Variable c : cfg.

  Lemma cleanup_mark fixed o : o_txnmark (orc_cleanup fixed c o) = o_txnmark o /\ o_next (orc_cleanup fixed c o) = o_next o.
  Proof. unfold orc_cleanup. destruct (negb (cf_detect c)); [auto|]. destruct (_ <=? _); auto. Qed.

  Lemma discard_mark id t o : o_txnmark (discard_orc id t o) = o_txnmark o /\ o_next (discard_orc id t o) = o_next o.
  Proof. unfold discard_orc. destruct (t_doneread t); auto. Qed.

  Theorem step_settled s o :
    Inv fp c s -> mark_settled (o_txnmark (st_orc s)) ->
    mark_settled (o_txnmark (st_orc (fst (step true fp c s o)))).
  Proof.
    intros HI HS. destruct o as [id u|id k|id k v|id|id| | | |k]; cbn [step]; try exact HS.
    - destruct (st_txns s id) as [t|]; [destruct (t_discarded t)|];
        try destruct (wm_done (o_txnmark (st_orc s)) <? read_ts (st_orc s)); exact HS.
    - destruct (st_txns s id) as [t|]; [|exact HS]. destruct (t_discarded t); [exact HS|].
      destruct (if t_update t then kv_get (t_pending t) k else None); exact HS.
    - destruct (st_txns s id) as [t|]; [|exact HS]. destruct (negb (t_update t)); [exact HS|].
      destruct (t_discarded t); [exact HS|]. destruct (_ || _); exact HS.
    - destruct (st_txns s id) as [t|]; [|exact HS]. destruct (t_discarded t); [exact HS|].
      destruct (discard_mark id t (st_orc s)) as [Dm Dn].
      destruct (t_pending t) as [|p ps]; [cbn; now rewrite Dm|].
      destruct (has_conflict (st_orc s) t); [cbn; now rewrite Dm|].
      destruct (cleanup_mark true (discard_orc id t (st_orc s))) as [Cm Cn].
      assert (Hfin : mark_settled (o_txnmark (orc_done_commit (snd (orc_issue c (t_ckeys t) (orc_cleanup true c (discard_orc id t (st_orc s)))))
                                                             (fst (orc_issue c (t_ckeys t) (orc_cleanup true c (discard_orc id t (st_orc s)))))))).
      { unfold orc_issue, orc_done_commit. cbn [fst snd o_txnmark]. rewrite Cm, Cn, Dm, Dn.
        pose proof (i_last fp c s HI) as Hl. pose proof (i_pos fp c s HI) as Hp.
        replace (o_next (st_orc s)) with (wm_last (o_txnmark (st_orc s)) + 1) by lia.
        apply (issue_then_done _ HS). }
      destruct (orc_issue c (t_ckeys t) (orc_cleanup true c (discard_orc id t (st_orc s)))) as [o2 ts].
      cbn [fst snd] in Hfin.
      destruct (_ || _); [exact Hfin|]. destruct (st_closed s); [exact Hfin|]. destruct (st_broken s); exact Hfin.
    - destruct (st_txns s id) as [t|]; [|exact HS]. destruct (t_discarded t); [exact HS|].
      cbn. now rewrite (proj1 (discard_mark id t (st_orc s))).
    - cbn. unfold orc_init. destruct (max_ver (st_store s) =? 0); cbn; (split; [|intros; reflexivity]);
        first [reflexivity | symmetry; apply N.max_r; apply N.le_0_l].
  Qed.

  Theorem reachable_settled ops :
    mark_settled (o_txnmark (st_orc (run_state true fp c st_init ops))).
  Proof.
    assert (H : forall s, Inv fp c s -> mark_settled (o_txnmark (st_orc s)) ->
                          mark_settled (o_txnmark (st_orc (run_state true fp c s ops)))).
    { induction ops as [|o ops IH]; intros s HI HS; [exact HS|]. cbn [run_state fold_left].
      apply IH; [now apply step_inv | now apply step_settled]. }
    apply H; [apply inv_init | cbn; split; intros; reflexivity].
  Qed.

  (** NewTransaction never blocks in WaitForMark, whatever calls came before:
      in particular after commits that were rejected with ErrTxnTooBig, by a
      closed commit queue, or by a failing apply. *)
  Theorem begin_never_waits ops id u :
    snd (step true fp c (run_state true fp c st_init ops) (Begin id u)) <> OErr EHang.
  Proof.
    set (s := run_state true fp c st_init ops).
    destruct (reachable_settled ops) as [Hd _]. fold s in Hd.
    assert (Hlt : (wm_done (o_txnmark (st_orc s)) <? read_ts (st_orc s)) = false).
    { apply N.ltb_ge. unfold read_ts. rewrite Hd. lia. }
    cbn [step]. destruct (st_txns s id) as [t|]; [destruct (t_discarded t)|]; rewrite ?Hlt; cbn; discriminate.
  Qed.
End NoHang.

(** * The first commit after a reopen (C37-F2) *)
Lemma commit_after_open_sentinel : commit_after_open sentinel_version = RcFatal.
Proof. vm_compute. reflexivity. Qed.

Lemma commit_after_open_below_sentinel m :
  m < sentinel_version -> exists ts, commit_after_open m = RcCommits ts /\ m < ts.
Proof.
  intros Hm. unfold commit_after_open, next_after_open. unfold sentinel_version, two64 in Hm.
  destruct (m =? 0) eqn:E0.
  - apply N.eqb_eq in E0. subst m. exists 1. split; [reflexivity | lia].
  - apply N.eqb_neq in E0. rewrite N.mod_small by (unfold two64; lia).
    replace (m <=? m + 1) with true by (symmetry; apply N.leb_le; lia).
    exists (m + 1). split; [reflexivity | lia].
Qed.

Example commit_after_open_hypothesis_satisfiable : 5 < sentinel_version /\ commit_after_open 5 = RcCommits 6.
Proof. split; [vm_compute; reflexivity | vm_compute; reflexivity]. Qed.

Lemma commit_after_open_refuted : exists m, m < two64 /\ commit_after_open m = RcFatal.
Proof. exists sentinel_version. split; [reflexivity | exact commit_after_open_sentinel]. Qed.

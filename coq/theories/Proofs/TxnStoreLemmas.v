(** Facts about the ideal MVCC store and serial replay (used by C03, C04, C05). *)
From Coq Require Import List NArith Bool Lia ZifyN ZifyBool.
From NoKV Require Import Base.Bytes Spec.SerialSpec.
Import ListNotations.
Local Open Scope N_scope.

Lemma latest_at_spec s k v e :
  latest_at s k v = Some e -> In e s /\ se_key e = k /\ se_ver e <= v.
Proof.
  revert e; induction s as [|x s IH]; intros e H; cbn [latest_at] in H; [discriminate|].
  destruct (bytes_eqb (se_key x) k && (se_ver x <=? v)) eqn:Hc.
  - apply andb_true_iff in Hc as [Hk Hv]. apply bytes_eqb_eq in Hk. apply N.leb_le in Hv.
    destruct (latest_at s k v) as [e'|] eqn:Hr.
    + destruct (se_ver e' <=? se_ver x); inversion H; subst.
      * (split; [now left | split; [congruence | assumption]]).
      * destruct (IH _ eq_refl) as (Hi & Hk' & Hv'). (split; [now right | split; [congruence | assumption]]).
    + inversion H; subst. (split; [now left | split; [congruence | assumption]]).
  - destruct (IH _ H) as (Hi & Hk' & Hv'). (split; [now right | split; [congruence | assumption]]).
Qed.

Lemma latest_at_app_above s1 s k v :
  (forall e, In e s1 -> v < se_ver e) -> latest_at (s1 ++ s) k v = latest_at s k v.
Proof.
  induction s1 as [|x s1 IH]; intros H; cbn [app latest_at]; [reflexivity|].
  rewrite IH by (intros e He; apply H; now right).
  assert (Hx : v < se_ver x) by (apply H; now left).
  replace (se_ver x <=? v) with false by (symmetry; apply N.leb_gt; exact Hx).
  now rewrite andb_false_r.
Qed.

Lemma read_at_app_above s1 s k v :
  (forall e, In e s1 -> v < se_ver e) -> read_at (s1 ++ s) k v = read_at s k v.
Proof. intros H. unfold read_at. now rewrite latest_at_app_above. Qed.

(** Raising the bound does not change the answer when no version of the key
    lies in between. *)
Lemma latest_at_bound s k v v' :
  v <= v' -> (forall e, In e s -> se_key e = k -> se_ver e <= v \/ v' < se_ver e) ->
  latest_at s k v = latest_at s k v'.
Proof.
  intros Hle. induction s as [|x s IH]; intros H; cbn [latest_at]; [reflexivity|].
  rewrite IH by (intros e He; apply H; now right).
  destruct (bytes_eqb (se_key x) k) eqn:Hk; cbn [andb]; [|reflexivity].
  apply bytes_eqb_eq in Hk.
  destruct (H x (or_introl eq_refl) Hk) as [Hx|Hx].
  - replace (se_ver x <=? v) with true by (symmetry; apply N.leb_le; exact Hx).
    replace (se_ver x <=? v') with true by (symmetry; apply N.leb_le; lia). reflexivity.
  - replace (se_ver x <=? v) with false by (symmetry; apply N.leb_gt; lia).
    replace (se_ver x <=? v') with false by (symmetry; apply N.leb_gt; lia). reflexivity.
Qed.

Lemma read_at_bound s k v v' :
  v <= v' -> (forall e, In e s -> se_key e = k -> se_ver e <= v \/ v' < se_ver e) ->
  read_at s k v = read_at s k v'.
Proof. intros H1 H2. unfold read_at. now rewrite (latest_at_bound s k v v' H1 H2). Qed.

Lemma kv_get_app a b k :
  kv_get (a ++ b) k = match kv_get a k with Some v => Some v | None => kv_get b k end.
Proof.
  induction a as [|[k' v] a IH]; cbn [app kv_get]; [reflexivity|].
  destruct (bytes_eqb k' k); [reflexivity | exact IH].
Qed.

Lemma sm_read_app a b k :
  sm_read (a ++ b) k = match kv_get a k with Some v => v | None => sm_read b k end.
Proof. unfold sm_read. rewrite kv_get_app. destruct (kv_get a k); reflexivity. Qed.

Definition entries (ts : N) (ws : kvs) : store :=
  map (fun kv => {| se_key := fst kv; se_ver := ts; se_val := snd kv |}) ws.

Lemma entries_ver ts ws e : In e (entries ts ws) -> se_ver e = ts.
Proof. unfold entries. intro H. apply in_map_iff in H as [x [<- _]]. reflexivity. Qed.

(** One commit on top of older versions: the reader sees its write, else the past. *)
Lemma read_at_commit ts ws s k v :
  (forall e, In e s -> se_ver e < ts) -> ts <= v ->
  read_at (entries ts ws ++ s) k v = match kv_get ws k with Some x => x | None => read_at s k v end.
Proof.
  intros Hs Hv. unfold read_at.
  induction ws as [|[k' x] ws IH]; cbn [entries map app latest_at kv_get fst snd se_key se_ver]; [reflexivity|].
  fold (entries ts ws).
  destruct (bytes_eqb k' k) eqn:Hk; cbn [andb].
  - replace (ts <=? v) with true by (symmetry; apply N.leb_le; exact Hv).
    destruct (latest_at (entries ts ws ++ s) k v) as [e'|] eqn:Hr; [|reflexivity].
    apply latest_at_spec in Hr as (Hi & _ & _).
    assert (Hle : se_ver e' <= ts).
    { apply in_app_or in Hi as [Hi|Hi]; [apply entries_ver in Hi; lia | specialize (Hs _ Hi); lia]. }
    replace (se_ver e' <=? ts) with true by (symmetry; apply N.leb_le; exact Hle). reflexivity.
  - exact IH.
Qed.

Lemma replay_app m a b :
  replay m (a ++ b) = match replay m a with Some m' => replay m' b | None => None end.
Proof.
  revert m; induction a as [|r a IH]; intros m; cbn [app replay]; [reflexivity|].
  destruct (reads_ok m (sr_reads r)); [apply IH | reflexivity].
Qed.

Lemma obytes_eqb_refl a : obytes_eqb a a = true.
Proof. destruct a; cbn; [apply bytes_eqb_refl | reflexivity]. Qed.

Lemma obytes_eqb_eq a b : obytes_eqb a b = true <-> a = b.
Proof.
  destruct a, b; cbn; split; intro H; try discriminate; try reflexivity.
  - apply bytes_eqb_eq in H. now subst.
  - inversion H; subst. apply bytes_eqb_refl.
Qed.

Lemma max_ver_ge s e : In e s -> se_ver e <= max_ver s.
Proof.
  induction s as [|x s IH]; intros H; [contradiction|]. cbn [max_ver fold_right].
  destruct H as [->|H]; [lia | specialize (IH H); unfold max_ver in IH; lia].
Qed.

(** Proofs for C07: the skiplist model is the ordered map of the writes; the
    ART model differs from it on a concrete non-radix-safe key set (F11) and
    agrees with it on every key list of a small radix-safe scope. *)
From Coq Require Import List NArith ZArith Bool Lia ZifyN ZifyNat ZifyBool Sorted.
From Coq Require Import Init.Byte.
From NoKV Require Import Base.Bytes Base.Num Model.Keys Model.Sst Spec.SstSpec Proofs.SstProofs
                         Model.MemIndexSkl Model.MemIndexArt Spec.MemIndexSpec.
Import ListNotations.
Local Open Scope N_scope.

(** * The skiplist model *)

Lemma skl_add_in e l x : In x (skl_add e l) -> x = e \/ In x l.
Proof.
  induction l as [|y l IH]; cbn [skl_add]; intro H.
  - destruct H as [<-|[]]. now left.
  - destruct (cmpk (e_key e) (e_key y)).
    + destruct H as [<-|H]; [now left | right; now right].
    + destruct H as [<-|H]; [now left | now right].
    + destruct H as [<-|H]; [right; now left|]. destruct (IH H); [now left | right; now right].
Qed.

Lemma skl_add_sorted e l : sorted l -> sorted (skl_add e l).
Proof.
  unfold sorted. induction l as [|y l IH]; cbn [skl_add]; intro Hs.
  - constructor; constructor.
  - inversion Hs as [|? ? Hs' Hall]; subst.
    destruct (cmpk (e_key e) (e_key y)) eqn:E.
    + apply cmpk_eq in E. constructor; [exact Hs'|].
      eapply Forall_impl; [|exact Hall]. intros z Hz. unfold key_lt in *. now rewrite E.
    + constructor; [exact Hs|]. constructor; [exact E|].
      eapply Forall_impl; [|exact Hall]. intros z Hz. unfold key_lt in *. eauto using cmpk_lt_trans.
    + constructor; [now apply IH|]. apply Forall_forall. intros z Hz.
      apply skl_add_in in Hz as [->|Hz].
      * unfold key_lt. now apply cmpk_gt_lt.
      * rewrite Forall_forall in Hall. now apply Hall.
Qed.

Lemma find_skl_add k e l :
  find (has_key k) (skl_add e l) = if has_key k e then Some e else find (has_key k) l.
Proof.
  induction l as [|y l IH]; cbn [skl_add find]; [reflexivity|].
  destruct (cmpk (e_key e) (e_key y)) eqn:E; cbn [find].
  - apply cmpk_eq in E. assert (Hy : has_key k y = has_key k e) by (unfold has_key; now rewrite E).
    rewrite Hy. destruct (has_key k e); reflexivity.
  - reflexivity.
  - rewrite IH. destruct (has_key k y) eqn:Hy, (has_key k e) eqn:He; try reflexivity.
    unfold has_key in Hy, He. apply bytes_eqb_eq in Hy, He. rewrite Hy, He, cmpk_refl in E. discriminate.
Qed.

Lemma find_app {A} (f : A -> bool) l1 l2 :
  find f (l1 ++ l2) = match find f l1 with Some x => Some x | None => find f l2 end.
Proof. induction l1 as [|x l1 IH]; cbn; [reflexivity|]. destruct (f x); [reflexivity|exact IH]. Qed.

Lemma fold_add_sorted ops : forall l, sorted l -> sorted (fold_left (fun l e => skl_add e l) ops l).
Proof. induction ops as [|e ops IH]; intros l Hl; cbn; [exact Hl|]. apply IH. now apply skl_add_sorted. Qed.

Lemma fold_add_find k ops : forall l,
  find (has_key k) (fold_left (fun l e => skl_add e l) ops l) =
  match find (has_key k) (rev ops) with Some x => Some x | None => find (has_key k) l end.
Proof.
  induction ops as [|e ops IH]; intro l; cbn [fold_left rev]; [reflexivity|].
  rewrite IH, find_app, find_skl_add. cbn [find].
  destruct (find (has_key k) (rev ops)); [reflexivity|]. destruct (has_key k e); reflexivity.
Qed.

Theorem skl_is_map ops : is_map_of ops (skl_of ops).
Proof.
  split.
  - apply fold_add_sorted. constructor.
  - intro k. unfold skl_of, last_write. rewrite fold_add_find. cbn [find].
    destruct (find (has_key k) (rev ops)); reflexivity.
Qed.

(** on a sorted list the skiplist's searches are the specification's filters *)
Lemma skl_ge_filter l q : sorted l -> skl_ge l q = filter (fun e => is_ge (cmpk (e_key e) q)) l.
Proof.
  unfold sorted. induction l as [|x l IH]; intro Hs; cbn [skl_ge filter]; [reflexivity|].
  inversion Hs as [|? ? Hs' Hall]; subst.
  destruct (is_ge (cmpk (e_key x) q)) eqn:E; [|now apply IH].
  f_equal. symmetry. rewrite <- (app_nil_l l) at 1. apply filter_pre_suf; [constructor|].
  eapply Forall_impl; [|exact Hall]. intros y Hy. unfold key_lt in Hy.
  destruct (is_ge (cmpk (e_key y) q)) eqn:E2; [reflexivity|].
  apply is_ge_lt in E2. rewrite (cmpk_lt_trans _ _ _ Hy E2) in E. discriminate.
Qed.

Lemma skl_le_acc_filter l q : sorted l -> forall acc,
  skl_le_acc l q acc = rev (filter (fun e => is_le (cmpk (e_key e) q)) l) ++ acc.
Proof.
  unfold sorted. induction l as [|x l IH]; intros Hs acc; cbn [skl_le_acc filter]; [reflexivity|].
  inversion Hs as [|? ? Hs' Hall]; subst.
  destruct (is_le (cmpk (e_key x) q)) eqn:E.
  - rewrite IH by exact Hs'. cbn [rev]. now rewrite <- app_assoc.
  - assert (Hnone : filter (fun e => is_le (cmpk (e_key e) q)) l = []).
    { rewrite <- (app_nil_l l). apply filter_pre_suf'; [constructor|].
      eapply Forall_impl; [|exact Hall]. intros y Hy. unfold key_lt in Hy.
      apply is_le_gt in E. apply is_le_gt. apply cmpk_gt_lt. apply cmpk_gt_lt in E.
      eauto using cmpk_lt_trans. }
    now rewrite Hnone.
Qed.

Theorem skl_answers l q :
  sorted l ->
  skl_search l q = mi_search_seek l q /\
  (forall asc, skl_seek asc l q = spec_from asc l q) /\
  (forall asc, skl_iter asc l = spec_iter asc l).
Proof.
  intro Hs. split; [|split].
  - unfold skl_search, mi_search_seek, spec_seek, spec_from. rewrite (skl_ge_filter l q Hs).
    destruct (filter _ l); reflexivity.
  - intros [|]; unfold skl_seek, spec_from.
    + now apply skl_ge_filter.
    + rewrite (skl_le_acc_filter l q Hs). now rewrite app_nil_r.
  - intros [|]; reflexivity.
Qed.

Theorem skl_map_theorem ops :
  let l := skl_of ops in
  is_map_of ops l /\
  forall q, skl_search l q = mi_search_seek l q /\
            (forall asc, skl_seek asc l q = spec_from asc l q) /\
            (forall asc, skl_iter asc l = spec_iter asc l).
Proof.
  cbv zeta. split; [apply skl_is_map|]. intro q. apply skl_answers. apply skl_is_map.
Qed.

(** * The ART model on a non-radix-safe key set (F11) *)

Definition f11_ops : list entry :=
  [ {| e_key := key_with_ts [x61] 5; e_vs := {| vs_meta := 0; vs_exp := 0; vs_val := [x01] |} |};
    {| e_key := key_with_ts [x61; x00] 5; e_vs := {| vs_meta := 0; vs_exp := 0; vs_val := [x02] |} |} ].
Definition f11_q : bytes := key_with_ts [x61] max_u64.

Theorem art_refuted :
  exists ops q,
    radix_safe (q :: map e_key ops) = false /\
    (exists e, skl_search (skl_of ops) q = Some e /\ mi_search (skl_of ops) q = Some e) /\
    art_search (art_of ops) q = None /\
    art_iter true (art_of ops) <> skl_iter true (skl_of ops) /\
    art_iter false (art_of ops) <> skl_iter false (skl_of ops).
Proof.
  exists f11_ops, f11_q. split; [vm_compute; reflexivity|].
  split; [eexists; split; vm_compute; reflexivity|].
  split; [vm_compute; reflexivity|]. split; vm_compute; congruence.
Qed.

(** * Small radix-safe scope: the engines agree (checked by computation) *)

Definition agree_on (ops : list entry) (q : bytes) : bool :=
  let sk := skl_of ops in
  let ar := art_of ops in
  opt_eqb entry_eqb (art_search ar q) (skl_search sk q)
  && list_eqb entry_eqb (art_seek true ar q) (skl_seek true sk q)
  && list_eqb entry_eqb (art_seek false ar q) (skl_seek false sk q)
  && list_eqb entry_eqb (art_iter true ar) (skl_iter true sk)
  && list_eqb entry_eqb (art_iter false ar) (skl_iter false sk).

Fixpoint lists_upto {A} (n : nat) (u : list A) : list (list A) :=
  match n with
  | O => [[]]
  | S n' => [] :: flat_map (fun x => map (cons x) (lists_upto n' u)) u
  end.

Lemma lists_upto_complete {A} (u : list A) : forall n l,
  (length l <= n)%nat -> incl l u -> In l (lists_upto n u).
Proof.
  induction n as [|n IH]; intros l Hl Hi.
  - destruct l; [now left | cbn in Hl; lia].
  - destruct l as [|x l]; [now left|]. right. apply in_flat_map. exists x. split.
    + apply Hi. now left.
    + apply in_map. apply IH; [cbn in Hl; lia|]. intros y Hy. apply Hi. now right.
Qed.

Definition mk (uk : bytes) (ver v : N) : entry :=
  {| e_key := key_with_ts uk ver; e_vs := {| vs_meta := 0; vs_exp := 0; vs_val := [n2b v] |} |}.

(** six internal keys of equal length: user keys aa, ab, ba with versions 1 and 2;
    sixteen targets: user keys aa, ab, ba, bb with versions 0..3 *)
Definition scope_entries : list entry :=
  [ mk [x61; x61] 1 1; mk [x61; x61] 2 2; mk [x61; x62] 1 3; mk [x61; x62] 2 4;
    mk [x62; x61] 1 5; mk [x62; x61] 2 6 ].
Definition scope_targets : list bytes :=
  flat_map (fun uk => map (key_with_ts uk) [0; 1; 2; 3])
           [[x61; x61]; [x61; x62]; [x62; x61]; [x62; x62]].

Definition q_ok (ops : list entry) (q : bytes) : bool := radix_safe (q :: map e_key ops) && agree_on ops q.
Definition scope_ok (ops : list entry) : bool := forallb (q_ok ops) scope_targets.

Lemma scope_check_true : forallb scope_ok (lists_upto 4 scope_entries) = true.
Proof. vm_compute. reflexivity. Qed.

Lemma entry_eqb_eq x y : entry_eqb x y = true -> x = y.
Proof.
  destruct x as [kx [mx ex vx]], y as [ky [my ey vy]]. unfold entry_eqb, vs_eqb. cbn.
  intro H. apply andb_true_iff in H as [Hk H]. apply andb_true_iff in H as [H Hv].
  apply andb_true_iff in H as [Hm He].
  apply bytes_eqb_eq in Hk, Hv. apply N.eqb_eq in Hm, He. now subst.
Qed.

Lemma list_eqb_entry_eq : forall a b, list_eqb entry_eqb a b = true -> a = b.
Proof.
  induction a as [|x a IH]; intros [|y b] Hab; cbn in Hab; try discriminate; [reflexivity|].
  apply andb_true_iff in Hab as [Hxy Hab]. f_equal; [now apply entry_eqb_eq | now apply IH].
Qed.

Theorem art_eq_skl_small_scope ops q :
  (length ops <= 4)%nat -> incl ops scope_entries -> In q scope_targets ->
  radix_safe (q :: map e_key ops) = true /\
  art_search (art_of ops) q = skl_search (skl_of ops) q /\
  (forall asc, art_seek asc (art_of ops) q = skl_seek asc (skl_of ops) q) /\
  (forall asc, art_iter asc (art_of ops) = skl_iter asc (skl_of ops)).
Proof.
  intros Hl Hi Hq.
  pose proof (proj1 (forallb_forall scope_ok (lists_upto 4 scope_entries)) scope_check_true ops
                (lists_upto_complete _ _ _ Hl Hi)) as H0.
  pose proof (proj1 (forallb_forall (q_ok ops) scope_targets) H0 q Hq) as H.
  unfold q_ok in H.
  apply andb_true_iff in H as [Hsafe H]. split; [exact Hsafe|].
  unfold agree_on in H. repeat (apply andb_true_iff in H as [H ?]).
  pose proof list_eqb_entry_eq as Hle.
  split; [|split].
  - destruct (art_search (art_of ops) q) as [a|], (skl_search (skl_of ops) q) as [b|]; cbn in H; try discriminate; [|reflexivity].
    f_equal. now apply entry_eqb_eq.
  - intros [|]; now apply Hle.
  - intros [|]; now apply Hle.
Qed.

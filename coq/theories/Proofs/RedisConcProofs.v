(** Proofs for C30: with conflict detection on, no interleaving of INCR /
    SET NX transactions loses an update; with detection off two clients do. *)
From Coq Require Import List NArith ZArith Bool Lia ZifyN ZifyNat ZifyBool.
From NoKV Require Import Base.Sched Model.RedisConc.
Import ListNotations.
Local Open Scope N_scope.

Section Proofs.
  Variable base : option Z.
  Notation value_at := (value_at base).
  Notation latest := (latest base).
  Notation tstepT := (tstep true base).

  (** What every thread's local state knows about the shared history. *)
  Definition thread_ok (h : list (N * Z)) (nx : N) (t : thread) : Prop :=
    match t_pc t with
    | PIdle => True
    | PBegun rts => rts < nx
    | PRead rts cur => rts < nx /\ cur = value_at h rts
    | PWrote rts w =>
        rts < nx /\
        match t_ops t with
        | OIncr d :: _ => w = (num (value_at h rts) + d)%Z
        | OSetNX _ :: _ => value_at h rts = None
        | [] => False
        end
    end.

  Definition hist_ok (h : list (N * Z)) (nx : N) : Prop := Forall (fun p => fst p < nx) h.

  Definition Inv (g : G) : Prop :=
    0 < next g /\ hist_ok (hist g) (next g) /\ Forall (thread_ok (hist g) (next g)) (threads g).

  Lemma value_at_push h nx w rts : rts < nx -> value_at ((nx, w) :: h) rts = value_at h rts.
  Proof. intro H. cbn [RedisConc.value_at]. destruct (nx <=? rts) eqn:E; [lia|reflexivity]. Qed.

  Lemma thread_ok_push h nx w t : thread_ok h nx t -> thread_ok ((nx, w) :: h) (nx + 1) t.
  Proof.
    unfold thread_ok. destruct (t_pc t) as [|rts|rts cur|rts w'].
    - auto.
    - lia.
    - intros [H1 H2]. split; [lia|]. now rewrite value_at_push.
    - intros [H1 H2]. split; [lia|]. rewrite value_at_push by exact H1. exact H2.
  Qed.

  Lemma Forall_set_nth (P : thread -> Prop) l : forall i t,
    Forall P l -> P t -> Forall P (set_nth l i t).
  Proof.
    induction l as [|x l IH]; intros i t Hl Ht; cbn [set_nth]; [constructor|].
    inversion Hl; subst. destruct i; constructor; auto.
  Qed.

  Lemma nth_error_Forall (P : thread -> Prop) l i t : Forall P l -> nth_error l i = Some t -> P t.
  Proof. intros H E. rewrite Forall_forall in H. apply H. eapply nth_error_In; eauto. Qed.

  (** Without a conflict the snapshot the transaction read is still the newest state. *)
  Lemma no_conflict_latest h rts : conflict h rts = false -> value_at h rts = latest h.
  Proof.
    destruct h as [|[ts v] h']; [reflexivity|]. cbn [conflict existsb fst RedisConc.value_at RedisConc.latest].
    intro H. apply orb_false_iff in H as [H _]. cbn in H. destruct (ts <=? rts) eqn:E; [reflexivity|lia].
  Qed.

  Lemma no_conflict_absent h rts : conflict h rts = false -> value_at h rts = None -> h = [].
  Proof.
    destruct h as [|[ts v] h']; [reflexivity|]. cbn [conflict existsb fst RedisConc.value_at].
    intros H. apply orb_false_iff in H as [H _]. cbn in H. destruct (ts <=? rts) eqn:E; [discriminate|lia].
  Qed.

  Lemma Inv_init progs : Inv (init progs).
  Proof.
    unfold Inv, init. cbn [next hist threads]. split; [lia|]. split; [constructor|].
    apply Forall_forall. intros t Ht. apply in_map_iff in Ht as [p [<- _]]. exact I.
  Qed.

  Lemma Inv_step g i g' : Inv g -> tstepT g i = Some g' -> Inv g'.
  Proof.
    intros (Hn & Hh & Ht) Hs. unfold tstep in Hs.
    destruct (nth_error (threads g) i) as [t|] eqn:Et; [|discriminate].
    pose proof (nth_error_Forall _ _ _ _ Ht Et) as Hti.
    destruct (t_ops t) as [|o rest] eqn:Eo; [discriminate|].
    destruct (t_pc t) as [|rts|rts cur|rts w] eqn:Ep.
    - inversion Hs; subst. unfold Inv, with_thread. cbn. repeat split; auto.
      apply Forall_set_nth; [exact Ht|]. unfold thread_ok. cbn. lia.
    - inversion Hs; subst. unfold Inv, with_thread. cbn. repeat split; auto.
      apply Forall_set_nth; [exact Ht|]. unfold thread_ok in *. rewrite Ep in Hti. cbn. auto.
    - unfold thread_ok in Hti. rewrite Ep in Hti. destruct Hti as [H1 H2].
      destruct o as [d|v].
      + inversion Hs; subst. unfold Inv, with_thread. cbn. repeat split; auto.
        apply Forall_set_nth; [exact Ht|]. unfold thread_ok. cbn. try rewrite Eo. auto.
      + destruct cur as [c|].
        * inversion Hs; subst. unfold Inv, with_thread. cbn. repeat split; auto.
          apply Forall_set_nth; [exact Ht|]. exact I.
        * inversion Hs; subst. unfold Inv, with_thread. cbn. repeat split; auto.
          apply Forall_set_nth; [exact Ht|]. unfold thread_ok. cbn. try rewrite Eo. auto.
    - cbn [andb] in Hs. destruct (conflict (hist g) rts) eqn:Ec.
      + inversion Hs; subst. unfold Inv. cbn. repeat split; auto.
        apply Forall_set_nth; [exact Ht|]. exact I.
      + inversion Hs; subst. unfold Inv. cbn. repeat split; [lia| |].
        * constructor; [cbn; lia|]. eapply Forall_impl; [|exact Hh]. cbn. intros; lia.
        * apply Forall_set_nth; [|exact I].
          eapply Forall_impl; [|exact Ht]. intros t0. apply thread_ok_push.
  Qed.

  (** ** Counters: final value = initial value + acknowledged deltas *)
  Definition all_ops (P : op -> bool) (g : G) : Prop :=
    Forall (fun t => forallb P (t_ops t) = true) (threads g).

  Definition CounterInv (g : G) : Prop :=
    Inv g /\ all_ops is_incr g /\ num (latest (hist g)) = (num base + acked g)%Z.

  Lemma all_ops_set_nth P g i t rest :
    all_ops P g -> nth_error (threads g) i = Some t -> forallb P rest = true ->
    forall pc', Forall (fun t => forallb P (t_ops t) = true) (set_nth (threads g) i {| t_ops := rest; t_pc := pc' |}).
  Proof. intros H _ Hr pc'. apply Forall_set_nth; [exact H | exact Hr]. Qed.

  Lemma CounterInv_step g i g' : CounterInv g -> tstepT g i = Some g' -> CounterInv g'.
  Proof.
    intros (HI & Ha & Hc) Hs. split; [eapply Inv_step; eauto|].
    destruct HI as (Hn & Hh & Ht). unfold tstep in Hs.
    destruct (nth_error (threads g) i) as [t|] eqn:Et; [|discriminate].
    pose proof (nth_error_Forall _ _ _ _ Ht Et) as Hti.
    pose proof (nth_error_Forall _ _ _ _ Ha Et) as Hai. cbn in Hai.
    destruct (t_ops t) as [|o rest] eqn:Eo; [discriminate|].
    cbn [forallb] in Hai. apply andb_true_iff in Hai as [Ho Hrest].
    assert (Hfull : forallb is_incr (o :: rest) = true) by (cbn; now rewrite Ho, Hrest).
    destruct (t_pc t) as [|rts|rts cur|rts w] eqn:Ep.
    - inversion Hs; subst. unfold all_ops, with_thread. cbn. split; [|exact Hc].
      apply Forall_set_nth; [exact Ha|]. cbn. now try rewrite Eo.
    - inversion Hs; subst. unfold all_ops, with_thread. cbn. split; [|exact Hc].
      apply Forall_set_nth; [exact Ha|]. cbn. now try rewrite Eo.
    - destruct o as [d|v]; [|discriminate].
      inversion Hs; subst. unfold all_ops, with_thread. cbn. split; [|exact Hc].
      apply Forall_set_nth; [exact Ha|]. cbn. now try rewrite Eo.
    - destruct o as [d|v]; [|discriminate]. cbn [andb] in Hs.
      unfold thread_ok in Hti. rewrite Ep, Eo in Hti. destruct Hti as [H1 H2].
      destruct (conflict (hist g) rts) eqn:Ec.
      + inversion Hs; subst. unfold all_ops. cbn. split; [|exact Hc].
        apply Forall_set_nth; [exact Ha | exact Hrest].
      + inversion Hs; subst. unfold all_ops. cbn. split.
        * apply Forall_set_nth; [exact Ha | exact Hrest].
        * rewrite (no_conflict_latest _ _ Ec) in *. lia.
  Qed.

  Theorem counter_no_lost_update progs sched :
    Forall (fun p => forallb is_incr p = true) progs ->
    let g := final true base progs sched in
    num (latest (hist g)) = (num base + acked g)%Z.
  Proof.
    intros Hp g.
    assert (H : CounterInv g).
    { unfold g, final. apply (inv_run tstepT CounterInv).
      - split; [apply Inv_init|]. split; [|cbn; lia].
        unfold all_ops, init. cbn. apply Forall_forall. intros t Hin.
        apply in_map_iff in Hin as [p [<- Hin]]. cbn. rewrite Forall_forall in Hp. now apply Hp.
      - intros g0 t g1. apply CounterInv_step. }
    exact (proj2 (proj2 H)).
  Qed.

  (** ** SET NX on an absent key: at most one OK *)
  Definition SetnxInv (g : G) : Prop :=
    Inv g /\ all_ops is_setnx g /\ oks g = List.length (hist g) /\ (List.length (hist g) <= 1)%nat.

  Lemma SetnxInv_step g i g' : base = None -> SetnxInv g -> tstepT g i = Some g' -> SetnxInv g'.
  Proof.
    intros Hb (HI & Ha & Hk & Hl) Hs. split; [eapply Inv_step; eauto|].
    destruct HI as (Hn & Hh & Ht). unfold tstep in Hs.
    destruct (nth_error (threads g) i) as [t|] eqn:Et; [|discriminate].
    pose proof (nth_error_Forall _ _ _ _ Ht Et) as Hti.
    pose proof (nth_error_Forall _ _ _ _ Ha Et) as Hai. cbn in Hai.
    destruct (t_ops t) as [|o rest] eqn:Eo; [discriminate|].
    cbn [forallb] in Hai. apply andb_true_iff in Hai as [Ho Hrest].
    destruct (t_pc t) as [|rts|rts cur|rts w] eqn:Ep.
    - inversion Hs; subst. unfold all_ops, with_thread. cbn. repeat split; auto.
      apply Forall_set_nth; [exact Ha|]. cbn. try rewrite Eo. cbn. now rewrite Ho, Hrest.
    - inversion Hs; subst. unfold all_ops, with_thread. cbn. repeat split; auto.
      apply Forall_set_nth; [exact Ha|]. cbn. try rewrite Eo. cbn. now rewrite Ho, Hrest.
    - destruct o as [d|v]; [discriminate|].
      destruct cur as [c|]; inversion Hs; subst; unfold all_ops, with_thread; cbn; repeat split; auto;
        apply Forall_set_nth; try exact Ha; cbn; try exact Hrest.
      all: try (cbn; now rewrite Hrest).
    - destruct o as [d|v]; [discriminate|]. cbn [andb] in Hs.
      unfold thread_ok in Hti. rewrite Ep, Eo in Hti. destruct Hti as [H1 H2].
      destruct (conflict (hist g) rts) eqn:Ec.
      + inversion Hs; subst. unfold all_ops. cbn. repeat split; auto.
        apply Forall_set_nth; [exact Ha | exact Hrest].
      + pose proof (no_conflict_absent _ _ Ec H2) as He.
        inversion Hs; subst. unfold all_ops. cbn. rewrite He in *. cbn in *. repeat split; auto.
        apply Forall_set_nth; [exact Ha | exact Hrest].
  Qed.

  Theorem setnx_at_most_once progs sched :
    base = None ->
    Forall (fun p => forallb is_setnx p = true) progs ->
    (oks (final true base progs sched) <= 1)%nat.
  Proof.
    intros Hb Hp.
    assert (H : SetnxInv (final true base progs sched)).
    { unfold final. apply (inv_run tstepT SetnxInv).
      - split; [apply Inv_init|]. split; [|cbn; auto].
        unfold all_ops, init. cbn. apply Forall_forall. intros t Hin.
        apply in_map_iff in Hin as [p [<- Hin]]. cbn. rewrite Forall_forall in Hp. now apply Hp.
      - intros g0 t g1. now apply SetnxInv_step. }
    destruct H as (_ & _ & Hk & Hl). lia.
  Qed.
End Proofs.

(** * With conflict detection off (the gateway's default before F25 was repaired) *)
Definition two_incr : list (list op) := [[OIncr 1]; [OIncr 1]].
Definition two_setnx : list (list op) := [[OSetNX 1]; [OSetNX 2]].
Definition interleaved : list nat := [0; 1; 0; 1; 0; 1; 0; 1]%nat.

Lemma lost_update_without_detection :
  let g := final false None two_incr interleaved in
  finished g = true /\ acked g = 2%Z /\ latest None (hist g) = Some 1%Z.
Proof. vm_compute. repeat split; reflexivity. Qed.

Lemma setnx_twice_without_detection :
  let g := final false None two_setnx interleaved in finished g = true /\ oks g = 2%nat.
Proof. vm_compute. split; reflexivity. Qed.

(** The same schedule with detection on: the second committer gets ErrConflict. *)
Lemma same_schedule_with_detection :
  let g := final true None two_incr interleaved in
  finished g = true /\ acked g = 1%Z /\ conflicts g = 1%nat /\ latest None (hist g) = Some 1%Z.
Proof. vm_compute. repeat split; reflexivity. Qed.

(** * The raft-backed deployment (F26): the fresh start timestamp hides the
    competitor's commit from the prewrite check, whatever [detect] is. *)
Lemma raft_lost_update :
  let g := final_raft true None two_incr interleaved in
  finished g = true /\ acked g = 2%Z /\ conflicts g = 0%nat /\ latest None (hist g) = Some 1%Z.
Proof. vm_compute. repeat split; reflexivity. Qed.

Lemma raft_setnx_twice :
  let g := final_raft true None two_setnx interleaved in finished g = true /\ oks g = 2%nat.
Proof. vm_compute. split; reflexivity. Qed.


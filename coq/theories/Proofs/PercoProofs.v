(** Proofs for C17 / C18 / C19 (percolator). *)
From Coq Require Import List NArith Bool Lia ZifyN ZifyNat ZifyBool Sorted.
From NoKV Require Import Base.Bytes Model.Percolator Model.KvApply Spec.PercoSpec.
Import ListNotations.
Local Open Scope N_scope.

(** * The read rule picks a maximal visible record *)
Lemma newest_of_spec p rs : forall best,
  (forall b, best = Some b -> p b = true) ->
  match newest_of p rs best with
  | None => best = None /\ forall r, In r rs -> p r = false
  | Some x =>
      p x = true /\ (In x rs \/ best = Some x) /\
      (forall r, In r rs -> p r = true -> lr_ts r <= lr_ts x) /\
      (forall b, best = Some b -> lr_ts b <= lr_ts x)
  end.
Proof.
  induction rs as [|r rs IH]; intros best Hb; simpl.
  - destruct best as [b|]; [|split; [reflexivity|intros ? []]].
    repeat split; [now apply Hb | now right | intros ? [] | intros b' E; inversion E; lia].
  - destruct (p r) eqn:Hp; simpl.
    + destruct best as [b|].
      * destruct (lr_ts b <? lr_ts r) eqn:Hlt.
        -- specialize (IH (Some r)). destruct (newest_of p rs (Some r)) as [x|].
           ++ destruct IH as (H1 & H2 & H3 & H4); [intros ? E; inversion E; subst; exact Hp|].
              repeat split; [exact H1 | | | ].
              ** destruct H2 as [H2|H2]; [left; now right | inversion H2; subst; left; now left].
              ** intros r' [->|Hin] Hpr; [now apply H4 | now apply H3].
              ** intros b' E; inversion E; subst. specialize (H4 r eq_refl). lia.
           ++ destruct IH as [E _]; [intros ? E; inversion E; subst; exact Hp | discriminate].
        -- specialize (IH (Some b)). destruct (newest_of p rs (Some b)) as [x|].
           ++ destruct IH as (H1 & H2 & H3 & H4); [exact Hb|].
              repeat split; [exact H1 | | | exact H4].
              ** destruct H2 as [H2|H2]; [left; now right | now right].
              ** intros r' [->|Hin] Hpr; [specialize (H4 b eq_refl); lia | now apply H3].
           ++ destruct IH as [E _]; [exact Hb | discriminate].
      * specialize (IH (Some r)). destruct (newest_of p rs (Some r)) as [x|].
        -- destruct IH as (H1 & H2 & H3 & H4); [intros ? E; inversion E; subst; exact Hp|].
           repeat split; [exact H1 | | | intros ? E; discriminate].
           ++ destruct H2 as [H2|H2]; [left; now right | inversion H2; subst; left; now left].
           ++ intros r' [->|Hin] Hpr; [now apply H4 | now apply H3].
        -- destruct IH as [E _]; [intros ? E; inversion E; subst; exact Hp | discriminate].
    + specialize (IH best Hb). destruct (newest_of p rs best) as [x|].
      * destruct IH as (H1 & H2 & H3 & H4). repeat split; [exact H1 | | | exact H4].
        -- destruct H2 as [H2|H2]; [left; now right | now right].
        -- intros r' [->|Hin] Hpr; [congruence | now apply H3].
      * destruct IH as [E H]. split; [exact E|]. intros r' [->|Hin]; [exact Hp | now apply H].
Qed.

(** [newest_committed rs t] is a put/delete record of the timeline with commit
    ts <= t, and no such record is newer; it is [None] only if there is none. *)
Lemma newest_committed_spec rs t :
  match newest_committed rs t with
  | None => forall r, In r rs -> visible_at t r = false
  | Some x => In x rs /\ visible_at t x = true /\
              forall r, In r rs -> visible_at t r = true -> lr_ts r <= lr_ts x
  end.
Proof.
  unfold newest_committed.
  pose proof (newest_of_spec (visible_at t) rs None) as H.
  destruct (newest_of (visible_at t) rs None) as [x|].
  - destruct H as (H1 & H2 & H3 & _); [intros ? E; discriminate|].
    destruct H2 as [H2|H2]; [|discriminate]. auto.
  - destruct H as [_ H]; [intros ? E; discriminate|]. exact H.
Qed.

(** * The ideal store interface *)
Ltac beq a b :=
  let E := fresh "E" in
  destruct (bytes_eqb a b) eqn:E; [apply bytes_eqb_eq in E | apply bytes_eqb_neq in E].

Section VMapFacts.
  Context {A : Type}.
  Implicit Types (m : vmap A) (rs : rows A).

  Lemma vm_has_false_rows m k : vm_has m k = false -> vm_rows m k = [].
  Proof.
    induction m as [|[k0 rs] m IH]; simpl; [reflexivity|].
    intro H. apply orb_false_iff in H as [H1 H2]. rewrite H1. now apply IH.
  Qed.

  Lemma vm_rows_replace m k f k' :
    vm_has m k = true ->
    vm_rows (vm_replace m k f) k' = if bytes_eqb k' k then f (vm_rows m k) else vm_rows m k'.
  Proof.
    induction m as [|[k0 rs] m IH]; simpl; [discriminate|].
    intro H. beq k k0.
    - subst k0. simpl. beq k' k; [reflexivity | reflexivity].
    - simpl in H. simpl. beq k' k0.
      + subst k0. beq k' k; [congruence | reflexivity].
      + now apply IH.
  Qed.

  Lemma vm_rows_insert m k rs0 k' :
    vm_has m k = false ->
    vm_rows (vm_insert m k rs0) k' = if bytes_eqb k' k then rs0 else vm_rows m k'.
  Proof.
    induction m as [|[k0 rs] m IH]; simpl; intro H.
    - reflexivity.
    - apply orb_false_iff in H as [H1 H2]. apply bytes_eqb_neq in H1.
      destruct (bytes_ltb k k0); simpl.
      + reflexivity.
      + beq k' k0.
        * subst k0. beq k' k; [congruence | reflexivity].
        * now apply IH.
  Qed.

  Lemma vm_rows_upd m k f k' :
    vm_rows (vm_upd m k f) k' = if bytes_eqb k' k then f (vm_rows m k) else vm_rows m k'.
  Proof.
    unfold vm_upd. destruct (vm_has m k) eqn:H.
    - now apply vm_rows_replace.
    - rewrite vm_rows_insert by exact H. now rewrite (vm_has_false_rows m k H).
  Qed.

  Lemma rows_get_set_same rs v e : rows_get (rows_set rs v e) v = Some (v, e).
  Proof.
    induction rs as [|[v0 e0] rs IH]; simpl.
    - now rewrite N.leb_refl.
    - destruct (v0 <? v) eqn:H1; simpl; [now rewrite N.leb_refl|].
      destruct (v0 =? v) eqn:H2; simpl; [now rewrite N.leb_refl|].
      assert (H3 : (v0 <=? v) = false) by lia. now rewrite H3.
  Qed.

  Lemma rows_get_set_other rs v e v' x :
    v <> v' -> rows_get rs v' = Some (v', x) -> rows_get (rows_set rs v e) v' = Some (v', x).
  Proof.
    intros Hne. induction rs as [|[v0 e0] rs IH]; simpl; [discriminate|].
    intro H. destruct (v0 <=? v') eqn:H0.
    - inversion H; subst v0 e0. clear H.
      destruct (v' <? v) eqn:H1; simpl.
      + assert (H3 : (v <=? v') = false) by lia. now rewrite H3, N.leb_refl.
      + destruct (v' =? v) eqn:H2; [lia|]. simpl. now rewrite N.leb_refl.
    - destruct (v0 <? v) eqn:H1; simpl.
      + assert (H3 : (v <=? v') = false) by lia. now rewrite H3, H0.
      + destruct (v0 =? v) eqn:H2; simpl.
        * assert (H3 : (v <=? v') = false) by lia. now rewrite H3.
        * rewrite H0. now apply IH.
  Qed.
End VMapFacts.

Lemma get_versioned_set_same {A} (m : vmap A) k v a :
  get_versioned (set_versioned m k v a) k v = Some (v, Some a).
Proof.
  unfold get_versioned, set_versioned. rewrite vm_rows_upd, bytes_eqb_refl. apply rows_get_set_same.
Qed.
Lemma get_versioned_delete_same {A} (m : vmap A) k v :
  get_versioned (delete_versioned m k v) k v = Some (v, None).
Proof.
  unfold get_versioned, delete_versioned. rewrite vm_rows_upd, bytes_eqb_refl. apply rows_get_set_same.
Qed.
Lemma get_versioned_upd_other_key {A} (m : vmap A) k f k' v :
  k' <> k -> get_versioned (vm_upd m k f) k' v = get_versioned m k' v.
Proof.
  intro H. unfold get_versioned. rewrite vm_rows_upd.
  apply bytes_eqb_neq in H. now rewrite H.
Qed.
Lemma get_versioned_set_exact {A} (m : vmap A) k v e k' v' x :
  (k', v') <> (k, v) ->
  get_versioned m k' v' = Some (v', x) ->
  get_versioned (vm_upd m k (fun rs => rows_set rs v e)) k' v' = Some (v', x).
Proof.
  intros Hne H. unfold get_versioned in *. rewrite vm_rows_upd. beq k' k.
  - subst. apply rows_get_set_other; [congruence | exact H].
  - exact H.
Qed.

(** * The store represents the logical state *)
Definition rec_w (r : lrec) : writerec := {| w_kind := lr_kind r; w_start := lr_start r |}.
Definition rec_row (r : lrec) : N * option writerec := (lr_ts r, Some (rec_w r)).
Definition rec_wt (r : lrec) : writerec * N := (rec_w r, lr_ts r).

(** per key: lock CF, write CF and the default-CF values of the put records / put lock *)
Record Rk (s : store) (k : bytes) (ks : kstate) : Prop := {
  Rk_lock : get_lock s k = option_map ll_rec (ks_lock ks);
  Rk_rows : vm_rows (s_write s) k = map rec_row (ks_recs ks);
  Rk_val : forall r, In r (ks_recs ks) -> lr_kind r = OpPut ->
             get_versioned (s_default s) k (lr_start r) = Some (lr_start r, Some (lr_val r));
  Rk_lval : forall l, ks_lock ks = Some l -> l_kind (ll_rec l) = OpPut ->
             get_versioned (s_default s) k (l_ts (ll_rec l)) = Some (l_ts (ll_rec l), Some (ll_val l)) }.

Definition R (s : store) (a : lstate) : Prop := forall k, Rk s k (ls_at a k).

(** invariant of the logical state (independent of the store) *)
Definition recs_sorted (rs : list lrec) : Prop := StronglySorted (fun x y => lr_ts y < lr_ts x) rs.
Record ks_inv (ks : kstate) : Prop := {
  inv_start_le : Forall (fun r => lr_start r <= lr_ts r) (ks_recs ks);
  inv_sorted : recs_sorted (ks_recs ks);
  inv_val : Forall (fun r => lr_kind r = OpPut -> lr_val r <> []) (ks_recs ks);
  inv_lval : forall l, ks_lock ks = Some l -> l_kind (ll_rec l) = OpPut -> ll_val l <> [] }.
Definition Inv (a : lstate) : Prop := forall k, ks_inv (ls_at a k).

(** [s'] differs from [s] at key [k] only *)
Definition same_off (k : bytes) (s s' : store) : Prop :=
  forall k', k' <> k ->
    get_lock s' k' = get_lock s k' /\
    vm_rows (s_write s') k' = vm_rows (s_write s) k' /\
    forall v, get_versioned (s_default s') k' v = get_versioned (s_default s) k' v.

Lemma same_off_refl k s : same_off k s s.
Proof. intros k' _. auto. Qed.
Lemma same_off_trans k s1 s2 s3 : same_off k s1 s2 -> same_off k s2 s3 -> same_off k s1 s3.
Proof.
  intros H1 H2 k' Hk. destruct (H1 k' Hk) as (A1 & A2 & A3), (H2 k' Hk) as (B1 & B2 & B3).
  repeat split; [congruence | congruence | intro v; now rewrite B3].
Qed.

Lemma Rk_frame k s s' k' ks : same_off k s s' -> k' <> k -> Rk s k' ks -> Rk s' k' ks.
Proof.
  intros H Hk [H1 H2 H3 H4]. destruct (H k' Hk) as (A1 & A2 & A3).
  constructor; [congruence | congruence | intros; rewrite A3; auto | intros; rewrite A3; auto].
Qed.

Lemma ls_at_lupd a k x k' : ls_at (lupd a k x) k' = if bytes_eqb k' k then x else ls_at a k'.
Proof. reflexivity. Qed.

Lemma R_lupd s s' a k ks' :
  R s a -> same_off k s s' -> Rk s' k ks' -> R s' (lupd a k ks').
Proof.
  intros HR Hoff Hk k'. rewrite ls_at_lupd. beq k' k.
  - now subst.
  - eapply Rk_frame; eauto.
Qed.
Lemma Inv_lupd a k ks' : Inv a -> ks_inv ks' -> Inv (lupd a k ks').
Proof. intros HI Hk k'. rewrite ls_at_lupd. beq k' k; [exact Hk | apply HI]. Qed.

(** ** primitive store operations *)
Lemma get_lock_put_lock s k l : get_lock (put_lock s k l) k = Some l.
Proof. unfold get_lock, put_lock; simpl. now rewrite get_versioned_set_same. Qed.
Lemma get_lock_del_lock s k : get_lock (del_lock s k) k = None.
Proof. unfold get_lock, del_lock; simpl. now rewrite get_versioned_delete_same. Qed.

Lemma same_off_put_lock s k l : same_off k s (put_lock s k l).
Proof.
  intros k' Hk. repeat split; try reflexivity.
  unfold get_lock, put_lock, set_versioned; simpl. now rewrite get_versioned_upd_other_key.
Qed.
Lemma same_off_del_lock s k : same_off k s (del_lock s k).
Proof.
  intros k' Hk. repeat split; try reflexivity.
  unfold get_lock, del_lock, delete_versioned; simpl. now rewrite get_versioned_upd_other_key.
Qed.
Lemma same_off_put_default s k v x : same_off k s (put_default s k v x).
Proof.
  intros k' Hk. repeat split; try reflexivity.
  intro v'. unfold put_default, set_versioned; simpl. now rewrite get_versioned_upd_other_key.
Qed.
Lemma same_off_del_default s k v : same_off k s (del_default s k v).
Proof.
  intros k' Hk. repeat split; try reflexivity.
  intro v'. unfold del_default, delete_versioned; simpl. now rewrite get_versioned_upd_other_key.
Qed.
Lemma same_off_put_write s k v w : same_off k s (put_write s k v w).
Proof.
  intros k' Hk. repeat split; try reflexivity.
  unfold put_write, set_versioned; simpl. rewrite vm_rows_upd.
  apply bytes_eqb_neq in Hk. now rewrite Hk.
Qed.

Lemma rows_put_write s k v w :
  vm_rows (s_write (put_write s k v w)) k = rows_set (vm_rows (s_write s) k) v (Some w).
Proof. unfold put_write, set_versioned; simpl. now rewrite vm_rows_upd, bytes_eqb_refl. Qed.

(** ** the callbacks of scanWrites, on a timeline *)
Lemma most_recent_write_loop_map rs : forall best,
  most_recent_write_loop (map rec_row rs) (option_map rec_wt best) =
  option_map rec_wt (newest_of (fun _ => true) rs best).
Proof.
  induction rs as [|r rs IH]; intro best; simpl; [reflexivity|].
  destruct best as [b|]; simpl.
  - destruct (lr_ts b <? lr_ts r); [apply (IH (Some r)) | apply (IH (Some b))].
  - apply (IH (Some r)).
Qed.

Lemma visible_at_kind t r :
  visible_at t r = match lr_kind r with OpPut | OpDelete => lr_ts r <=? t | _ => false end.
Proof. unfold visible_at, committed_data. now destruct (lr_kind r). Qed.

Lemma get_write_for_read_loop_map rs t : forall best,
  get_write_for_read_loop current (map rec_row rs) t (option_map rec_wt best) =
  option_map rec_wt (newest_of (visible_at t) rs best).
Proof.
  induction rs as [|r rs IH]; intro best; [reflexivity|].
  cbn [map newest_of get_write_for_read_loop rec_row].
  rewrite visible_at_kind. cbn [rec_w w_kind current fix_read andb].
  destruct (lr_kind r) eqn:Hk; cbn [op_eqb orb].
  - destruct (lr_ts r <=? t); cbn [andb]; [|apply IH].
    destruct best as [b|]; cbn [option_map rec_wt snd];
      [destruct (lr_ts b <? lr_ts r); [apply (IH (Some r)) | apply (IH (Some b))] | apply (IH (Some r))].
  - destruct (lr_ts r <=? t); cbn [andb]; [|apply IH].
    destruct best as [b|]; cbn [option_map rec_wt snd];
      [destruct (lr_ts b <? lr_ts r); [apply (IH (Some r)) | apply (IH (Some b))] | apply (IH (Some r))].
  - apply IH.
  - apply IH.
Qed.

Lemma find_start_none_below rs start :
  Forall (fun r => lr_start r <= lr_ts r) rs ->
  Forall (fun r => lr_ts r < start) rs -> find_start rs start = None.
Proof.
  induction rs as [|r rs IH]; intros H1 H2; simpl; [reflexivity|].
  inversion H1; inversion H2; subst.
  assert (E : (lr_start r =? start) = false) by lia. rewrite E. now apply IH.
Qed.

Lemma get_write_by_start_loop_map rs start :
  Forall (fun r => lr_start r <= lr_ts r) rs -> recs_sorted rs ->
  get_write_by_start_loop (map rec_row rs) start = option_map rec_wt (find_start rs start).
Proof.
  induction rs as [|r rs IH]; intros H1 H2; simpl; [reflexivity|].
  inversion H1 as [|? ? Hr H1']; inversion H2 as [|? ? H2' Hlt]; subst.
  destruct (lr_start r =? start) eqn:E; [reflexivity|].
  destruct (lr_ts r <? start) eqn:E2.
  - rewrite find_start_none_below; [reflexivity | exact H1' |].
    eapply Forall_impl; [|exact Hlt]. simpl. intros x Hx. lia.
  - now apply IH.
Qed.

Lemma rows_set_add_rec rs r :
  rows_set (map rec_row rs) (lr_ts r) (Some (rec_w r)) = map rec_row (add_rec rs r).
Proof.
  induction rs as [|r0 rs IH]; simpl; [reflexivity|].
  destruct (lr_ts r0 <? lr_ts r); [reflexivity|].
  destruct (lr_ts r0 =? lr_ts r); [reflexivity|]. simpl. now rewrite IH.
Qed.

(** ** timeline insertion keeps the invariants *)
Lemma In_add_rec rs r x : In x (add_rec rs r) -> x = r \/ In x rs.
Proof.
  induction rs as [|r0 rs IH]; simpl.
  - intros [H|[]]; auto.
  - destruct (lr_ts r0 <? lr_ts r); [intros [H|H]; auto|].
    destruct (lr_ts r0 =? lr_ts r); [intros [H|H]; auto|].
    intros [H|H]; [auto|]. destruct (IH H); auto.
Qed.

Lemma add_rec_Forall (P : lrec -> Prop) rs r : P r -> Forall P rs -> Forall P (add_rec rs r).
Proof.
  intros Hr H. apply Forall_forall. intros x Hx. apply In_add_rec in Hx as [->|Hx]; [exact Hr|].
  now apply (proj1 (Forall_forall _ _) H).
Qed.

Lemma add_rec_sorted rs r : recs_sorted rs -> recs_sorted (add_rec rs r).
Proof.
  unfold recs_sorted. induction rs as [|r0 rs IH]; intro H; simpl.
  - constructor; constructor.
  - inversion H as [|? ? Hs Hlt]; subst.
    destruct (lr_ts r0 <? lr_ts r) eqn:E1.
    + constructor; [exact H|]. constructor; [lia|].
      eapply Forall_impl; [|exact Hlt]. simpl. intros; lia.
    + destruct (lr_ts r0 =? lr_ts r) eqn:E2.
      * constructor; [exact Hs|]. eapply Forall_impl; [|exact Hlt]. simpl. intros; lia.
      * constructor; [now apply IH|]. apply add_rec_Forall; [lia | exact Hlt].
Qed.

Lemma In_add_rec_new rs r : In r (add_rec rs r).
Proof.
  induction rs as [|r0 rs IH]; simpl; [now left|].
  destruct (lr_ts r0 <? lr_ts r); [now left|]. destruct (lr_ts r0 =? lr_ts r); [now left | now right].
Qed.

(** ** reads *)
Lemma newest_any_max rs x :
  newest_any rs = Some x -> In x rs /\ forall r, In r rs -> lr_ts r <= lr_ts x.
Proof.
  unfold newest_any. intro H.
  pose proof (newest_of_spec (fun _ => true) rs None) as S. rewrite H in S.
  destruct S as (_ & H2 & H3 & _); [intros ? E; discriminate|].
  destruct H2 as [H2|H2]; [|discriminate]. split; [exact H2|]. intros r Hr. now apply H3.
Qed.
Lemma newest_any_none rs : newest_any rs = None -> rs = [].
Proof.
  unfold newest_any. intro H.
  pose proof (newest_of_spec (fun _ => true) rs None) as S. rewrite H in S.
  destruct S as [_ S]; [intros ? E; discriminate|].
  destruct rs as [|r rs]; [reflexivity|]. specialize (S r (or_introl eq_refl)). discriminate.
Qed.

Lemma find_start_some rs st r : find_start rs st = Some r -> In r rs /\ lr_start r = st.
Proof.
  unfold find_start. intro H. apply find_some in H as [H1 H2]. split; [exact H1 | lia].
Qed.
Lemma find_start_none rs st r : find_start rs st = None -> In r rs -> lr_start r <> st.
Proof.
  unfold find_start. intros H Hr E. pose proof (find_none _ _ H r Hr) as H1. simpl in H1. lia.
Qed.

Section PerKey.
  Variables (s : store) (k : bytes) (ks : kstate).
  Hypothesis HR : Rk s k ks.
  Hypothesis HI : ks_inv ks.

  Lemma most_recent_write_ok : most_recent_write s k = option_map rec_wt (newest_any (ks_recs ks)).
  Proof.
    unfold most_recent_write, newest_any. rewrite (Rk_rows _ _ _ HR).
    apply (most_recent_write_loop_map (ks_recs ks) None).
  Qed.

  Lemma get_write_by_start_ok st :
    get_write_by_start_ts s k st = option_map rec_wt (find_start (ks_recs ks) st).
  Proof.
    unfold get_write_by_start_ts. rewrite (Rk_rows _ _ _ HR).
    apply get_write_by_start_loop_map; [apply (inv_start_le _ HI) | apply (inv_sorted _ HI)].
  Qed.

  Lemma get_value_ok t : get_value current s k t = read_value (ks_recs ks) t.
  Proof.
    unfold get_value, get_write_for_read, read_value. rewrite (Rk_rows _ _ _ HR).
    change (@None (writerec * N)) with (option_map rec_wt None).
    rewrite (get_write_for_read_loop_map (ks_recs ks) t None). fold (newest_committed (ks_recs ks) t).
    pose proof (newest_committed_spec (ks_recs ks) t) as S.
    destruct (newest_committed (ks_recs ks) t) as [r|]; simpl; [|reflexivity].
    destruct S as (Hin & Hv & _). rewrite visible_at_kind in Hv.
    destruct (lr_kind r) eqn:Hk; try discriminate; [|reflexivity].
    rewrite (Rk_val _ _ _ HR r Hin Hk).
    pose proof (proj1 (Forall_forall _ _) (inv_val _ HI) r Hin Hk) as Hne.
    destruct (lr_val r); [congruence | reflexivity].
  Qed.
End PerKey.

Lemma handle_get_ok s a k t : R s a -> Inv a -> handle_get current s k t = lget a k t.
Proof.
  intros HR HI. unfold handle_get, lget.
  rewrite (Rk_lock _ _ _ (HR k)), (get_value_ok s k _ (HR k) (HI k)).
  destruct (ks_lock (ls_at a k)) as [l|]; simpl; [|reflexivity].
  destruct (l_ts (ll_rec l) <=? t); reflexivity.
Qed.

(** ** per-key protocol steps *)
Lemma is_nil_false_ne (b : bytes) : is_nil b = false -> b <> [].
Proof. destruct b; [discriminate | congruence]. Qed.


Definition conflict_rec (ks : kstate) (start : N) : option lrec :=
  match newest_any (ks_recs ks) with
  | Some r => if start <=? lr_ts r then Some r else None
  | None => None
  end.

Lemma bridge_foreign s k ks start : Rk s k ks ->
  match get_lock s k with Some l => if l_ts l =? start then None else Some l | None => None end
  = option_map ll_rec (foreign_lock ks start).
Proof.
  intro HR. rewrite (Rk_lock _ _ _ HR). unfold foreign_lock.
  destruct (ks_lock ks) as [l|]; simpl; [|reflexivity]. now destruct (l_ts (ll_rec l) =? start).
Qed.

Lemma bridge_conflict s k ks start : Rk s k ks -> ks_inv ks ->
  match most_recent_write s k with Some (w, ct) => if start <=? ct then Some (w, ct) else None | None => None end
  = option_map rec_wt (conflict_rec ks start).
Proof.
  intros HR HI. rewrite (most_recent_write_ok s k ks HR). unfold conflict_rec.
  destruct (newest_any (ks_recs ks)) as [r|]; simpl; [|reflexivity]. now destruct (start <=? lr_ts r).
Qed.

Lemma conflict_none_below ks start : ks_inv ks -> conflict_rec ks start = None ->
  forall r, In r (ks_recs ks) -> lr_start r <> start.
Proof.
  intros HI H r Hr. unfold conflict_rec in H.
  pose proof (proj1 (Forall_forall _ _) (inv_start_le _ HI) r Hr) as Hle. simpl in Hle.
  destruct (newest_any (ks_recs ks)) as [r0|] eqn:Hn.
  - apply newest_any_max in Hn as [_ Hmax]. specialize (Hmax r Hr).
    destruct (start <=? lr_ts r0) eqn:E; [discriminate|]. lia.
  - apply newest_any_none in Hn. rewrite Hn in Hr. destruct Hr.
Qed.

Lemma vd_del_default s k v k' v' x :
  (k', v') <> (k, v) -> get_versioned (s_default s) k' v' = Some (v', x) ->
  get_versioned (s_default (del_default s k v)) k' v' = Some (v', x).
Proof. intros. cbn [del_default s_default]. unfold delete_versioned. now apply get_versioned_set_exact. Qed.
Lemma vd_put_default s k v y k' v' x :
  (k', v') <> (k, v) -> get_versioned (s_default s) k' v' = Some (v', x) ->
  get_versioned (s_default (put_default s k v y)) k' v' = Some (v', x).
Proof. intros. cbn [put_default s_default]. unfold set_versioned. now apply get_versioned_set_exact. Qed.

Lemma ks_inv_set_lock ks l :
  ks_inv ks -> (l_kind (ll_rec l) = OpPut -> ll_val l <> []) ->
  ks_inv {| ks_lock := Some l; ks_recs := ks_recs ks |}.
Proof.
  intros HI Hl. constructor; cbn [ks_lock ks_recs];
    [apply (inv_start_le _ HI) | apply (inv_sorted _ HI) | apply (inv_val _ HI)|].
  intros l0 E. inversion E; subst. exact Hl.
Qed.
Lemma ks_inv_unlock ks : ks_inv ks -> ks_inv {| ks_lock := None; ks_recs := ks_recs ks |}.
Proof.
  intros HI. constructor; cbn [ks_lock ks_recs];
    [apply (inv_start_le _ HI) | apply (inv_sorted _ HI) | apply (inv_val _ HI)|].
  intros l0 E. discriminate.
Qed.

Lemma prewrite_mutation_ok s ks primary start ttl mc m :
  mutation_ok m = true -> Rk s (m_key m) ks -> ks_inv ks ->
  match prewrite_mutation s primary start ttl mc m, l_prewrite_key ks primary start ttl mc m with
  | (s', e), (ks', e') =>
      e = e' /\ same_off (m_key m) s s' /\
      match e with None => Rk s' (m_key m) ks' /\ ks_inv ks' | Some _ => s' = s end
  end.
Proof.
  intros Hok HR HI. unfold prewrite_mutation, l_prewrite_key.
  unfold mutation_ok in Hok. apply andb_true_iff in Hok as [Hk Hv].
  apply negb_true_iff in Hk. rewrite Hk.
  rewrite (bridge_foreign s _ ks start HR).
  destruct (foreign_lock ks start) as [fl|]; cbn [option_map].
  { repeat split. }
  rewrite (bridge_conflict s _ ks start HR HI).
  fold (conflict_rec ks start).
  destruct (conflict_rec ks start) as [r0|] eqn:Hc; cbn [option_map rec_wt rec_w w_start].
  { repeat split. }
  pose proof (conflict_none_below ks start HI Hc) as Hbelow.
  destruct (m_op m) eqn:Hop.
  4: { repeat split. }
  - split; [reflexivity|]. split.
    { eapply same_off_trans; [|apply same_off_put_lock].
      eapply same_off_trans; [apply same_off_del_default | apply same_off_put_default]. }
    split.
    + constructor; cbn [ks_lock ks_recs option_map ll_rec ll_val l_ts l_kind].
      * apply get_lock_put_lock.
      * apply (Rk_rows _ _ _ HR).
      * intros r Hr Hkind. change (s_default (put_lock ?x _ _)) with (s_default x).
        apply vd_put_default; [intro E; inversion E; eapply Hbelow; eauto|].
        apply vd_del_default; [intro E; inversion E; eapply Hbelow; eauto|].
        now apply (Rk_val _ _ _ HR).
      * intros l0 E _. inversion E; subst l0. cbn [ll_rec ll_val l_ts].
        change (s_default (put_lock ?x _ _)) with (s_default x).
        cbn [put_default s_default]. apply get_versioned_set_same.
    + apply ks_inv_set_lock; [exact HI|]. cbn [ll_val]. intros _.
      apply is_nil_false_ne. now apply negb_true_iff in Hv.
  - split; [reflexivity|]. split.
    { eapply same_off_trans; [apply same_off_del_default | apply same_off_put_lock]. }
    split.
    + constructor; cbn [ks_lock ks_recs option_map ll_rec ll_val l_ts l_kind].
      * apply get_lock_put_lock.
      * apply (Rk_rows _ _ _ HR).
      * intros r Hr Hkind. change (s_default (put_lock ?x _ _)) with (s_default x).
        apply vd_del_default; [intro E; inversion E; eapply Hbelow; eauto|].
        now apply (Rk_val _ _ _ HR).
      * intros l0 E Hkind. inversion E; subst l0. discriminate.
    + apply ks_inv_set_lock; [exact HI|]. cbn [ll_rec l_kind]. discriminate.
  - split; [reflexivity|]. split.
    { eapply same_off_trans; [apply same_off_del_default | apply same_off_put_lock]. }
    split.
    + constructor; cbn [ks_lock ks_recs option_map ll_rec ll_val l_ts l_kind].
      * apply get_lock_put_lock.
      * apply (Rk_rows _ _ _ HR).
      * intros r Hr Hkind. change (s_default (put_lock ?x _ _)) with (s_default x).
        apply vd_del_default; [intro E; inversion E; eapply Hbelow; eauto|].
        now apply (Rk_val _ _ _ HR).
      * intros l0 E Hkind. inversion E; subst l0. discriminate.
    + apply ks_inv_set_lock; [exact HI|]. cbn [ll_rec l_kind]. discriminate.
Qed.

Lemma rec_w_kind r : w_kind (rec_w r) = lr_kind r. Proof. reflexivity. Qed.

Lemma commit_key_ok s k ks l cv :
  Rk s k ks -> ks_inv ks -> ks_lock ks = Some l -> l_ts (ll_rec l) <= cv ->
  match commit_key s k (ll_rec l) cv, l_commit_key ks k l cv with
  | (s', e), (ks', e') =>
      e = e' /\ same_off k s s' /\
      match e with None => Rk s' k ks' /\ ks_inv ks' | Some _ => s' = s end
  end.
Proof.
  intros HR HI Hl Hle. unfold commit_key, l_commit_key.
  destruct (cv <? l_min_commit (ll_rec l)).
  { repeat split. }
  rewrite (get_write_by_start_ok s k ks HR HI).
  destruct (find_start (ks_recs ks) (l_ts (ll_rec l))) as [r|] eqn:Hf; cbn [option_map rec_wt].
  - rewrite rec_w_kind. destruct (op_eqb (lr_kind r) OpRollback).
    { repeat split. }
    split; [reflexivity|]. split; [apply same_off_del_lock|]. split.
    + constructor; cbn [ks_lock ks_recs option_map].
      * apply get_lock_del_lock.
      * apply (Rk_rows _ _ _ HR).
      * intros r0 Hr0 Hkind. now apply (Rk_val _ _ _ HR).
      * intros l0 E. discriminate.
    + now apply ks_inv_unlock.
  - set (nr := {| lr_ts := cv; lr_kind := l_kind (ll_rec l); lr_start := l_ts (ll_rec l); lr_val := ll_val l |}).
    split; [reflexivity|]. split.
    { eapply same_off_trans; [apply same_off_put_write | apply same_off_del_lock]. }
    split.
    + constructor; cbn [ks_lock ks_recs option_map].
      * apply get_lock_del_lock.
      * change (s_write (del_lock ?x _)) with (s_write x). rewrite rows_put_write, (Rk_rows _ _ _ HR).
        apply (rows_set_add_rec (ks_recs ks) nr).
      * intros r0 Hr0 Hkind. change (s_default (del_lock (put_write ?x _ _ _) _)) with (s_default x).
        apply In_add_rec in Hr0 as [->|Hr0].
        -- apply (Rk_lval _ _ _ HR l Hl Hkind).
        -- now apply (Rk_val _ _ _ HR).
      * intros l0 E. discriminate.
    + constructor; cbn [ks_lock ks_recs].
      * apply add_rec_Forall; [exact Hle | apply (inv_start_le _ HI)].
      * apply add_rec_sorted, (inv_sorted _ HI).
      * apply add_rec_Forall; [|apply (inv_val _ HI)]. cbn [nr lr_kind lr_val]. apply (inv_lval _ HI l Hl).
      * intros l0 E. discriminate.
Qed.

Lemma rollback_key_ok s k ks start :
  Rk s k ks -> ks_inv ks ->
  match rollback_key current s k start with
  | (s', e) =>
      e = None /\ same_off k s s' /\ Rk s' k (l_rollback_key ks start) /\ ks_inv (l_rollback_key ks start)
  end.
Proof.
  intros HR HI. unfold rollback_key, l_rollback_key.
  rewrite (get_write_by_start_ok s k ks HR HI).
  destruct (find_start (ks_recs ks) start) as [r|] eqn:Hf; cbn [option_map].
  { split; [reflexivity|]. split; [apply same_off_refl|]. split; [exact HR | exact HI]. }
  cbn [current fix_rollback].
  set (nr := {| lr_ts := start; lr_kind := OpRollback; lr_start := start; lr_val := [] |}).
  set (s1 := match get_lock s k with Some l => if l_ts l =? start then del_lock s k else s | None => s end).
  assert (Hoff1 : same_off k s s1).
  { unfold s1. destruct (get_lock s k) as [l|]; [|apply same_off_refl].
    destruct (l_ts l =? start); [apply same_off_del_lock | apply same_off_refl]. }
  assert (Hd1 : s_default s1 = s_default s /\ s_write s1 = s_write s).
  { unfold s1. destruct (get_lock s k) as [l|]; [|auto]. destruct (l_ts l =? start); auto. }
  destruct Hd1 as [Hd1 Hw1].
  assert (Hl1 : get_lock s1 k = option_map ll_rec (match own_lock ks start with Some _ => None | None => ks_lock ks end)).
  { unfold s1, own_lock. rewrite (Rk_lock _ _ _ HR).
    destruct (ks_lock ks) as [l|] eqn:Hl; cbn [option_map]; [|now rewrite (Rk_lock _ _ _ HR), Hl].
    destruct (l_ts (ll_rec l) =? start); [apply get_lock_del_lock | now rewrite (Rk_lock _ _ _ HR), Hl]. }
  split; [reflexivity|]. split.
  { eapply same_off_trans; [exact Hoff1|].
    eapply same_off_trans; [apply same_off_del_default | apply same_off_put_write]. }
  split.
  - constructor; cbn [ks_lock ks_recs].
    + exact Hl1.
    + rewrite rows_put_write. change (s_write (del_default ?x _ _)) with (s_write x).
      rewrite Hw1, (Rk_rows _ _ _ HR). apply (rows_set_add_rec (ks_recs ks) nr).
    + intros r0 Hr0 Hkind. change (s_default (put_write ?x _ _ _)) with (s_default x).
      apply In_add_rec in Hr0 as [->|Hr0]; [discriminate|].
      apply vd_del_default; [intro E; inversion E; eapply (find_start_none _ _ _ Hf); eauto|].
      rewrite Hd1. now apply (Rk_val _ _ _ HR).
    + intros l0 E Hkind. change (s_default (put_write ?x _ _ _)) with (s_default x).
      unfold own_lock in E. destruct (ks_lock ks) as [l|] eqn:Hl; [|discriminate].
      destruct (l_ts (ll_rec l) =? start) eqn:Hts; [discriminate|]. inversion E; subst l0.
      apply vd_del_default; [intro E'; inversion E'; lia|].
      rewrite Hd1. now apply (Rk_lval _ _ _ HR).
  - constructor; cbn [ks_lock ks_recs].
    + apply add_rec_Forall; [cbn; lia | apply (inv_start_le _ HI)].
    + apply add_rec_sorted, (inv_sorted _ HI).
    + apply add_rec_Forall; [discriminate | apply (inv_val _ HI)].
    + intros l0 E. apply (inv_lval _ HI). unfold own_lock in E.
      destruct (ks_lock ks) as [l|]; [|discriminate]. destruct (l_ts (ll_rec l) =? start); [discriminate | exact E].
Qed.

(** ** the request loops *)
Lemma prewrite_ok ms : forall s a primary start ttl mc,
  forallb mutation_ok ms = true -> R s a -> Inv a ->
  match prewrite s primary start ttl mc ms, l_prewrite a primary start ttl mc ms with
  | (s', es), (a', es') => es = es' /\ R s' a' /\ Inv a'
  end.
Proof.
  induction ms as [|m ms IH]; intros s a primary start ttl mc Hok HR HI; cbn [prewrite l_prewrite].
  - auto.
  - cbn [forallb] in Hok. apply andb_true_iff in Hok as [Hm Hms].
    pose proof (prewrite_mutation_ok s (ls_at a (m_key m)) primary start ttl mc m Hm (HR _) (HI _)) as H.
    assert (Hk : is_nil (m_key m) = false).
    { unfold mutation_ok in Hm. apply andb_true_iff in Hm as [Hm _]. now apply negb_true_iff in Hm. }
    rewrite Hk.
    destruct (prewrite_mutation s primary start ttl mc m) as [s1 e].
    destruct (l_prewrite_key (ls_at a (m_key m)) primary start ttl mc m) as [ks1 e1].
    destruct H as (He & Hoff & H). subst e1.
    destruct e as [e|].
    + subst s1. specialize (IH s a primary start ttl mc Hms HR HI).
      destruct (prewrite s primary start ttl mc ms) as [s2 es].
      destruct (l_prewrite a primary start ttl mc ms) as [a2 es2].
      destruct IH as (-> & H1 & H2). auto.
    + destruct H as [H1 H2].
      specialize (IH s1 (lupd a (m_key m) ks1) primary start ttl mc Hms
                     (R_lupd _ _ _ _ _ HR Hoff H1) (Inv_lupd _ _ _ HI H2)).
      destruct (prewrite s1 primary start ttl mc ms) as [s2 es].
      destruct (l_prewrite (lupd a (m_key m) ks1) primary start ttl mc ms) as [a2 es2].
      destruct IH as (-> & H3 & H4). auto.
Qed.

Lemma commit_ok keys : forall s a start cv,
  keys_ok keys = true -> start <= cv -> R s a -> Inv a ->
  match commit current s keys start cv, l_commit a keys start cv with
  | (s', e), (a', e') => e = e' /\ R s' a' /\ Inv a'
  end.
Proof.
  induction keys as [|k keys IH]; intros s a start cv Hok Hle HR HI; cbn [commit l_commit].
  - auto.
  - unfold keys_ok in Hok. cbn [forallb] in Hok. apply andb_true_iff in Hok as [Hk Hks].
    apply negb_true_iff in Hk. rewrite Hk.
    rewrite (Rk_lock _ _ _ (HR k)).
    destruct (ks_lock (ls_at a k)) as [l|] eqn:Hl; cbn [option_map].
    + destruct (l_ts (ll_rec l) =? start) eqn:Hts; [|auto].
      assert (Hle' : l_ts (ll_rec l) <= cv) by lia.
      pose proof (commit_key_ok s k _ l cv (HR k) (HI k) Hl Hle') as H.
      destruct (commit_key s k (ll_rec l) cv) as [s1 e].
      destruct (l_commit_key (ls_at a k) k l cv) as [ks1 e1].
      destruct H as (He & Hoff & H). subst e1. destruct e as [e|].
      * subst s1. auto.
      * destruct H as [H1 H2].
        apply IH; [exact Hks | exact Hle | eapply R_lupd; eauto | now apply Inv_lupd].
    + rewrite (get_write_by_start_ok s k _ (HR k) (HI k)).
      destruct (find_start (ks_recs (ls_at a k)) start) as [r|]; cbn [option_map rec_wt]; [|auto].
      rewrite rec_w_kind. cbn [current fix_commit andb].
      destruct (op_eqb (lr_kind r) OpRollback); [auto|]. now apply IH.
Qed.

Lemma batch_rollback_ok keys : forall s a start,
  keys_ok keys = true -> R s a -> Inv a ->
  match batch_rollback current s keys start, l_batch_rollback a keys start with
  | (s', e), (a', e') => e = e' /\ R s' a' /\ Inv a'
  end.
Proof.
  induction keys as [|k keys IH]; intros s a start Hok HR HI; cbn [batch_rollback l_batch_rollback].
  - auto.
  - unfold keys_ok in Hok. cbn [forallb] in Hok. apply andb_true_iff in Hok as [Hk Hks].
    apply negb_true_iff in Hk. rewrite Hk.
    pose proof (rollback_key_ok s k _ start (HR k) (HI k)) as H.
    destruct (rollback_key current s k start) as [s1 e].
    destruct H as (-> & Hoff & H1 & H2).
    apply IH; [exact Hks | eapply R_lupd; eauto | now apply Inv_lupd].
Qed.

Lemma resolve_ok keys : forall s a start cv n,
  keys_ok keys = true -> (cv = 0 \/ start <= cv) -> R s a -> Inv a ->
  match resolve_lock current s keys start cv n, l_resolve a keys start cv n with
  | (s', n1, e), (a', n2, e') => n1 = n2 /\ e = e' /\ R s' a' /\ Inv a'
  end.
Proof.
  induction keys as [|k keys IH]; intros s a start cv n Hok Hle HR HI; cbn [resolve_lock l_resolve].
  - auto.
  - unfold keys_ok in Hok. cbn [forallb] in Hok. apply andb_true_iff in Hok as [Hk Hks].
    apply negb_true_iff in Hk. rewrite Hk.
    rewrite (Rk_lock _ _ _ (HR k)). unfold own_lock.
    destruct (ks_lock (ls_at a k)) as [l|] eqn:Hl; cbn [option_map]; [|now apply IH].
    destruct (l_ts (ll_rec l) =? start) eqn:Hts; [|now apply IH].
    destruct (cv =? 0) eqn:Hcv.
    + pose proof (rollback_key_ok s k _ start (HR k) (HI k)) as H.
      destruct (rollback_key current s k start) as [s1 e].
      destruct H as (-> & Hoff & H1 & H2).
      apply IH; [exact Hks | exact Hle | eapply R_lupd; eauto | now apply Inv_lupd].
    + assert (Hle' : l_ts (ll_rec l) <= cv) by lia.
      pose proof (commit_key_ok s k _ l cv (HR k) (HI k) Hl Hle') as H.
      destruct (commit_key s k (ll_rec l) cv) as [s1 e].
      destruct (l_commit_key (ls_at a k) k l cv) as [ks1 e1].
      destruct H as (He & Hoff & H). subst e1. destruct e as [e|].
      * subst s1. auto.
      * destruct H as [H1 H2].
        apply IH; [exact Hks | exact Hle | eapply R_lupd; eauto | now apply Inv_lupd].
Qed.

Lemma is_lock_expired_ok l cur : is_lock_expired l cur = lock_expired l cur.
Proof. unfold is_lock_expired, lock_expired. now destruct (l_ttl l =? 0). Qed.

Lemma check_ok s a primary lts cur caller rb :
  R s a -> Inv a ->
  match check_txn_status current s primary lts cur caller rb, l_check a primary lts cur caller rb with
  | (s', r), (a', r') => r = r' /\ R s' a' /\ Inv a'
  end.
Proof.
  intros HR HI. unfold check_txn_status, l_check.
  rewrite (Rk_lock _ _ _ (HR primary)).
  destruct (ks_lock (ls_at a primary)) as [l|] eqn:Hl; cbn [option_map].
  - destruct (negb (l_ts (ll_rec l) =? lts)) eqn:Hts; [auto|].
    rewrite (get_write_by_start_ok s primary _ (HR primary) (HI primary)).
    assert (Hcm : match option_map rec_wt (find_start (ks_recs (ls_at a primary)) lts) with
                  | Some (w, ct) => if op_eqb (w_kind w) OpRollback then None else Some ct
                  | None => None
                  end =
                  option_map lr_ts (match find_start (ks_recs (ls_at a primary)) lts with
                                    | Some r => if op_eqb (lr_kind r) OpRollback then None else Some r
                                    | None => None
                                    end)).
    { destruct (find_start (ks_recs (ls_at a primary)) lts) as [r0|]; cbn; [|reflexivity].
      destruct (op_eqb (lr_kind r0) OpRollback); reflexivity. }
    rewrite Hcm. clear Hcm.
    destruct (match find_start (ks_recs (ls_at a primary)) lts with
              | Some r => if op_eqb (lr_kind r) OpRollback then None else Some r
              | None => None
              end) as [r0|]; cbn [option_map].
    { split; [reflexivity|]. split.
      - eapply R_lupd; [exact HR | apply same_off_del_lock |].
        constructor; cbn [ks_lock ks_recs option_map].
        + apply get_lock_del_lock.
        + apply (Rk_rows _ _ _ (HR primary)).
        + intros r1 Hr1 Hkind. now apply (Rk_val _ _ _ (HR primary)).
        + intros l0 E. discriminate.
      - apply Inv_lupd; [exact HI|]. apply ks_inv_unlock, HI. }
    rewrite is_lock_expired_ok. destruct (lock_expired (ll_rec l) cur).
    + pose proof (rollback_key_ok s primary _ lts (HR primary) (HI primary)) as H.
      destruct (rollback_key current s primary lts) as [s1 e].
      destruct H as (-> & Hoff & H1 & H2).
      split; [reflexivity|]. split; [eapply R_lupd; eauto | now apply Inv_lupd].
    + destruct ((0 <? caller) && (l_min_commit (ll_rec l) <? wrap64 (caller + 1))); [|auto].
      split; [reflexivity|]. split.
      * eapply R_lupd; [exact HR | apply same_off_put_lock |].
        constructor; cbn [ks_lock ks_recs option_map ll_rec ll_val l_ts l_kind].
        -- apply get_lock_put_lock.
        -- apply (Rk_rows _ _ _ (HR primary)).
        -- intros r Hr Hkind. now apply (Rk_val _ _ _ (HR primary)).
        -- intros l0 E Hkind. inversion E; subst l0. cbn [ll_rec ll_val l_ts l_kind] in *.
           now apply (Rk_lval _ _ _ (HR primary) l Hl).
      * apply Inv_lupd; [exact HI|]. apply ks_inv_set_lock; [apply HI|].
        cbn [ll_rec ll_val l_kind]. apply (inv_lval _ (HI primary) l Hl).
  - rewrite (get_write_by_start_ok s primary _ (HR primary) (HI primary)).
    destruct (find_start (ks_recs (ls_at a primary)) lts) as [r|]; cbn [option_map rec_wt].
    + rewrite rec_w_kind. destruct (op_eqb (lr_kind r) OpRollback); auto.
    + destruct rb; [|auto].
      pose proof (rollback_key_ok s primary _ lts (HR primary) (HI primary)) as H.
      destruct (rollback_key current s primary lts) as [s1 e].
      destruct H as (-> & Hoff & H1 & H2).
      split; [reflexivity|]. split; [eapply R_lupd; eauto | now apply Inv_lupd].
Qed.

(** * Refinement: the working-tree code implements the protocol on the logical state *)
Definition is_scan (r : request) : bool := match r with RScan _ _ _ _ => true | _ => false end.

Lemma step_ok s a r :
  R s a -> Inv a -> req_ok r = true ->
  match apply_req current s r, lstep a r with
  | (s', p), (a', p') => R s' a' /\ Inv a' /\ (is_scan r = false -> p = p')
  end.
Proof.
  intros HR HI Hok. destruct r; cbn [apply_req lstep req_ok is_scan] in *.
  - pose proof (prewrite_ok muts s a primary start ttl min_commit Hok HR HI) as H.
    destruct (prewrite s primary start ttl min_commit muts) as [s1 es].
    destruct (l_prewrite a primary start ttl min_commit muts) as [a1 es1].
    destruct H as (-> & H1 & H2). auto.
  - apply andb_true_iff in Hok as [Hk Hlt].
    assert (Hle : start <= commit_version) by lia.
    pose proof (commit_ok keys s a start commit_version Hk Hle HR HI) as H.
    destruct (commit current s keys start commit_version) as [s1 e].
    destruct (l_commit a keys start commit_version) as [a1 e1].
    destruct H as (-> & H1 & H2). auto.
  - pose proof (batch_rollback_ok keys s a start Hok HR HI) as H.
    destruct (batch_rollback current s keys start) as [s1 e].
    destruct (l_batch_rollback a keys start) as [a1 e1].
    destruct H as (-> & H1 & H2). auto.
  - apply andb_true_iff in Hok as [Hk Hlt].
    assert (Hle : commit_version = 0 \/ start <= commit_version) by lia.
    pose proof (resolve_ok keys s a start commit_version 0 Hk Hle HR HI) as H.
    destruct (resolve_lock current s keys start commit_version 0) as [[s1 n1] e].
    destruct (l_resolve a keys start commit_version 0) as [[a1 n2] e1].
    destruct H as (-> & -> & H1 & H2). auto.
  - pose proof (check_ok s a primary lock_ts current_ts caller_start rollback_if_not_exist HR HI) as H.
    destruct (check_txn_status current s primary lock_ts current_ts caller_start rollback_if_not_exist) as [s1 r].
    destruct (l_check a primary lock_ts current_ts caller_start rollback_if_not_exist) as [a1 r1].
    destruct H as (-> & H1 & H2). auto.
  - split; [exact HR|]. split; [exact HI|]. intros _. now rewrite (handle_get_ok s a key version HR HI).
  - destruct (handle_scan current s start_key include_start limit version) as [kvs e].
    destruct (lscan a start_key include_start limit version) as [kvs' e'].
    split; [exact HR|]. split; [exact HI|]. discriminate.
Qed.

Lemma R_empty : R empty_store lempty.
Proof. intro k. constructor; cbn; try reflexivity; intros; contradiction || discriminate. Qed.
Lemma Inv_empty : Inv lempty.
Proof. intro k. constructor; cbn; try constructor; intros; discriminate. Qed.

Lemma run_ok h : forall s a,
  R s a -> Inv a -> forallb req_ok h = true ->
  R (apply_all_from current s h) (lrun_from a h) /\ Inv (lrun_from a h).
Proof.
  induction h as [|r h IH]; intros s a HR HI Hok; cbn [apply_all_from lrun_from].
  - auto.
  - cbn [forallb] in Hok. apply andb_true_iff in Hok as [Hr Hh].
    pose proof (step_ok s a r HR HI Hr) as H.
    destruct (apply_req current s r) as [s1 p]. destruct (lstep a r) as [a1 p1].
    destruct H as (H1 & H2 & _). cbn [fst]. now apply IH.
Qed.

Theorem refines h :
  forallb req_ok h = true -> R (apply_all current h) (lrun h) /\ Inv (lrun h).
Proof. intro Hok. apply run_ok; [apply R_empty | apply Inv_empty | exact Hok]. Qed.

(** every response except those of scans (see the scan theorems) is the protocol's *)
Definition resp_agree (r : request) (p p' : response) : Prop := is_scan r = false -> p = p'.

Fixpoint all_agree (h : list request) (ps ps' : list response) : Prop :=
  match h, ps, ps' with
  | [], [], [] => True
  | r :: h', p :: ps1, p' :: ps1' => resp_agree r p p' /\ all_agree h' ps1 ps1'
  | _, _, _ => False
  end.

Lemma responses_ok h : forall s a,
  R s a -> Inv a -> forallb req_ok h = true ->
  all_agree h (responses_from current s h) (lresponses_from a h).
Proof.
  induction h as [|r h IH]; intros s a HR HI Hok; cbn [responses_from lresponses_from all_agree].
  - exact I.
  - cbn [forallb] in Hok. apply andb_true_iff in Hok as [Hr Hh].
    pose proof (step_ok s a r HR HI Hr) as H.
    destruct (apply_req current s r) as [s1 p]. destruct (lstep a r) as [a1 p1].
    destruct H as (H1 & H2 & H3). cbn [all_agree]. split; [exact H3 | now apply IH].
Qed.

Theorem refines_responses h :
  forallb req_ok h = true -> all_agree h (responses current h) (lresponses h).
Proof. intro Hok. apply responses_ok; [apply R_empty | apply Inv_empty | exact Hok]. Qed.

(** * C17: point reads *)
Theorem get_refines h k t :
  forallb req_ok h = true ->
  handle_get current (apply_all current h) k t = lget (lrun h) k t.
Proof. intro Hok. destruct (refines h Hok) as [HR HI]. now apply handle_get_ok. Qed.

(** the statement of the property text, unfolded *)
Theorem get_spec h k t :
  forallb req_ok h = true ->
  let ks := ls_at (lrun h) k in
  (forall l, ks_lock ks = Some l -> l_ts (ll_rec l) <= t ->
     handle_get current (apply_all current h) k t = GLocked k (ll_rec l)) /\
  ((forall l, ks_lock ks = Some l -> t < l_ts (ll_rec l)) ->
     handle_get current (apply_all current h) k t =
     match newest_committed (ks_recs ks) t with
     | Some r => match lr_kind r with OpPut => GValue (lr_val r) | _ => GNotFound end
     | None => GNotFound
     end).
Proof.
  intros Hok ks. rewrite (get_refines h k t Hok). unfold lget. fold ks. split.
  - intros l Hl Hle. rewrite Hl. assert (E : (l_ts (ll_rec l) <=? t) = true) by lia. now rewrite E.
  - intro Hno. unfold read_value.
    destruct (ks_lock ks) as [l|].
    + specialize (Hno l eq_refl). assert (E : (l_ts (ll_rec l) <=? t) = false) by lia. rewrite E.
      destruct (newest_committed (ks_recs ks) t) as [r|]; [destruct (lr_kind r)|]; reflexivity.
    + destruct (newest_committed (ks_recs ks) t) as [r|]; [destruct (lr_kind r)|]; reflexivity.
Qed.

(** * C19: the lock the reader reports is the logical lock *)
Theorem lock_refines h k :
  forallb req_ok h = true ->
  get_lock (apply_all current h) k = option_map ll_rec (ks_lock (ls_at (lrun h) k)).
Proof. intro Hok. destruct (refines h Hok) as [HR _]. apply (Rk_lock _ _ _ (HR k)). Qed.

(** * Refutation witnesses for the code before the repairs ([legacy]) *)
Definition B1 (n : N) : bytes := [n2b n].
Definition wit_put (k v : N) (start cv : N) : list request :=
  [RPrewrite [{| m_op := OpPut; m_key := B1 k; m_val := B1 v |}] (B1 k) start 100 0; RCommit [B1 k] start cv].

(** F17 (a): a rolled-back transaction above a committed value hides it *)
Definition wit_f17_rollback : list request :=
  wit_put 97 1 10 20 ++
  [RPrewrite [{| m_op := OpPut; m_key := B1 97; m_val := B1 2 |}] (B1 97) 30 100 0; RRollback [B1 97] 30].
(** F17 (b): a lock-only transaction above a committed value hides it from GET; SCAN returns an empty value *)
Definition wit_f17_lockonly : list request :=
  wit_put 98 1 40 45 ++
  [RPrewrite [{| m_op := OpLock; m_key := B1 98; m_val := [] |}] (B1 98) 50 100 0; RCommit [B1 98] 50 55].

Lemma legacy_get_refuted_rollback :
  forallb req_ok wit_f17_rollback = true /\
  handle_get legacy (apply_all legacy wit_f17_rollback) (B1 97) 35 = GNotFound /\
  lget (lrun wit_f17_rollback) (B1 97) 35 = GValue (B1 1).
Proof. vm_compute. repeat split. Qed.

Lemma legacy_get_refuted_lockonly :
  forallb req_ok wit_f17_lockonly = true /\
  handle_get legacy (apply_all legacy wit_f17_lockonly) (B1 98) 60 = GNotFound /\
  lget (lrun wit_f17_lockonly) (B1 98) 60 = GValue (B1 1) /\
  handle_scan legacy (apply_all legacy wit_f17_lockonly) [] true 10 60 = ([(B1 98, [])], None).
Proof. vm_compute. repeat split. Qed.

(** F18: commit after rollback reports success *)
Definition wit_f18 : list request :=
  [RPrewrite [{| m_op := OpPut; m_key := B1 97; m_val := B1 1 |}] (B1 97) 10 100 0; RRollback [B1 97] 10].
Lemma legacy_commit_after_rollback :
  forallb req_ok (wit_f18 ++ [RCommit [B1 97] 10 20]) = true /\
  snd (apply_req legacy (apply_all legacy wit_f18) (RCommit [B1 97] 10 20)) = PCommit None /\
  snd (lstep (lrun wit_f18) (RCommit [B1 97] 10 20)) = PCommit (Some (KEAbort AbRolledBack)).
Proof. vm_compute. repeat split. Qed.

(** rollbackKey without owner check: another transaction's rollback removes the lock *)
Definition wit_foreign : list request :=
  [RPrewrite [{| m_op := OpPut; m_key := B1 107; m_val := B1 1 |}] (B1 107) 10 100 0; RRollback [B1 107] 20].
Lemma legacy_foreign_rollback_removes_lock :
  forallb req_ok wit_foreign = true /\
  get_lock (apply_all legacy wit_foreign) (B1 107) = None /\
  option_map (fun l => l_ts (ll_rec l)) (ks_lock (ls_at (lrun wit_foreign) (B1 107))) = Some 10.
Proof. vm_compute. repeat split. Qed.

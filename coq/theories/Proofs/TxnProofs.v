(** Proofs for C03 / C04 over the call-atomic model [Model.TxnOracle] with the
    repaired oracle ([fixed = true]); refutation witnesses for the oracle as
    it was ([fixed = false]). *)
From Coq Require Import List NArith ZArith Bool Lia ZifyN ZifyBool.
From NoKV Require Import Base.Bytes Spec.SerialSpec Model.TxnOracle Proofs.TxnStoreLemmas.
Import ListNotations.
Local Open Scope N_scope.

(** * Serial replay of a committed history *)
Definition hist_store (h : list hrec) : store := flat_map (fun r => entries (h_ts r) (h_writes r)) h.
Definition to_srec (r : hrec) : srec := {| sr_reads := h_reads r; sr_writes := h_writes r |}.

Inductive desc : list hrec -> Prop :=
| desc_nil : desc []
| desc_cons r h : desc h -> (forall r', In r' h -> h_ts r' < h_ts r) -> desc (r :: h).

Lemma hist_store_ver h e : In e (hist_store h) -> exists r, In r h /\ se_ver e = h_ts r.
Proof.
  unfold hist_store. intro H. apply in_flat_map in H as [r [Hr He]].
  exists r. split; [exact Hr | now apply entries_ver in He].
Qed.

Definition reads_consistent (h : list hrec) : Prop :=
  forall r k v, In r h -> In (k, v) (h_reads r) -> v = read_at (hist_store h) k (h_ts r - 1).

Definition top (h : list hrec) : N := match h with [] => 0 | r :: _ => h_ts r end.

Lemma serial_lemma h :
  desc h -> (forall r, In r h -> 1 <= h_ts r) -> reads_consistent h ->
  exists m, replay [] (rev (map to_srec h)) = Some m /\
            forall k v, top h <= v -> sm_read m k = read_at (hist_store h) k v.
Proof.
  induction h as [|r h IH]; intros Hd Hpos Hc.
  - exists []. split; [reflexivity | intros; reflexivity].
  - inversion Hd as [|r0 h0 Hd' Hlt]; subst.
    assert (Habove : forall e, In e (hist_store h) -> se_ver e < h_ts r).
    { intros e He. apply hist_store_ver in He as [r' [Hr' ->]]. now apply Hlt. }
    assert (Hc' : reads_consistent h).
    { intros r' k v Hr' Hkv. rewrite (Hc r' k v (or_intror Hr') Hkv).
      cbn [hist_store flat_map]. fold (hist_store h). apply read_at_app_above.
      intros e He. apply entries_ver in He. specialize (Hlt _ Hr'). lia. }
    destruct (IH Hd' (fun r' Hr' => Hpos r' (or_intror Hr')) Hc') as [m' [Hrep Hm']].
    exists (h_writes r ++ m'). split.
    + cbn [map rev]. rewrite replay_app, Hrep. cbn [replay to_srec sr_reads sr_writes].
      replace (reads_ok m' (h_reads r)) with true; [reflexivity|].
      symmetry. unfold reads_ok. apply forallb_forall. intros [k v] Hkv. cbn [fst snd].
      apply obytes_eqb_eq.
      rewrite (Hc r k v (or_introl eq_refl) Hkv). cbn [hist_store flat_map]. fold (hist_store h).
      rewrite read_at_app_above by (intros e He; apply entries_ver in He; specialize (Hpos r (or_introl eq_refl)); lia).
      apply Hm'. destruct h as [|r' h']; cbn [top]; [lia|].
      specialize (Hlt r' (or_introl eq_refl)). lia.
    + intros k v Hv. cbn [top] in Hv. cbn [hist_store flat_map]. fold (hist_store h).
      rewrite sm_read_app, (read_at_commit _ _ _ _ _ Habove Hv).
      destruct (kv_get (h_writes r) k); [reflexivity|].
      apply Hm'. destruct h as [|r' h']; cbn [top]; [lia|].
      specialize (Hlt r' (or_introl eq_refl)). lia.
Qed.

(** * The invariant of the call-atomic model (repaired oracle) *)
Lemma wm_last_add i d w : wm_last (wm_add i d w) = wm_last w.
Proof. unfold wm_add. destruct (i =? 0); reflexivity. Qed.
Lemma wm_last_begin i w : wm_last (wm_begin i w) = N.max (wm_last w) i.
Proof. unfold wm_begin. rewrite wm_last_add. reflexivity. Qed.
Lemma wm_last_finish i w : wm_last (wm_finish i w) = wm_last w.
Proof. apply wm_last_add. Qed.

Lemma min_active_le_next o : min_active o <= o_next o - 1.
Proof. unfold min_active. induction (o_active o) as [|e l IH]; cbn [fold_right]; lia. Qed.
Lemma min_active_le o j r : In (j, r) (o_active o) -> min_active o <= r.
Proof.
  unfold min_active. induction (o_active o) as [|e l IH]; cbn [fold_right In]; [contradiction|].
  intros [->|H]; cbn [snd]; [lia | specialize (IH H); lia].
Qed.

Section Inv.
  Variable fp : bytes -> N.
  Variable c : cfg.
  Notation step := (step true fp c).

  Record live_ok (s : state) (id : N) (t : txn) : Prop := {
    l_rts : t_readts t < o_next (st_orc s);
    l_log : forall k v, In (k, v) (t_log t) -> v = read_at (st_store s) k (t_readts t);
    l_reads : t_update t = true -> forall k v, In (k, v) (t_log t) -> In (fp k) (t_reads t);
    l_done : t_doneread t = false;
    l_ro : t_update t = false -> t_pending t = [];
    l_ckeys : cf_detect c = true -> forall k v, In (k, v) (t_pending t) -> In (fp k) (t_ckeys t);
    l_active : In (id, t_readts t) (o_active (st_orc s)) }.

  Record Inv (s : state) : Prop := {
    i_store : st_store s = hist_store (st_hist s);
    i_desc : desc (st_hist s);
    i_next : forall r, In r (st_hist s) -> 1 <= h_ts r < o_next (st_orc s);
    i_pos : 1 <= o_next (st_orc s);
    i_last : wm_last (o_txnmark (st_orc s)) = o_next (st_orc s) - 1;
    i_reads : cf_detect c = true -> forall r k v, In r (st_hist s) -> In (k, v) (h_reads r) ->
                            v = read_at (st_store s) k (h_ts r - 1);
    i_nonempty : forall r, In r (st_hist s) -> h_writes r <> [];
    i_live : forall id t, st_txns s id = Some t -> t_discarded t = false -> live_ok s id t;
    i_active : forall id r, In (id, r) (o_active (st_orc s)) -> o_cleanup (st_orc s) <= r;
    i_cleanup : o_cleanup (st_orc s) <= o_next (st_orc s) - 1;
    i_committed : cf_detect c = true -> forall e, In e (st_store s) -> o_cleanup (st_orc s) < se_ver e ->
         exists ct, In ct (o_committed (st_orc s)) /\ c_ts ct = se_ver e /\ In (fp (se_key e)) (c_keys ct) }.

  Lemma store_below_next s e : Inv s -> In e (st_store s) -> 1 <= se_ver e < o_next (st_orc s).
  Proof.
    intros HI He. rewrite (i_store s HI) in He. apply hist_store_ver in He as [r [Hr ->]].
    now apply (i_next s HI).
  Qed.

  Lemma inv_init : Inv st_init.
  Proof.
    constructor; cbn; try (intros; contradiction); try lia; try constructor.
    all: try (intros; discriminate).
  Qed.

  (** Same store and history; the oracle keeps its counters; one slot changes. *)
  Lemma inv_update s o' id t' :
    Inv s ->
    o_next o' = o_next (st_orc s) ->
    wm_last (o_txnmark o') = wm_last (o_txnmark (st_orc s)) ->
    o_cleanup o' = o_cleanup (st_orc s) ->
    o_committed o' = o_committed (st_orc s) ->
    (forall j r, In (j, r) (o_active o') -> o_cleanup (st_orc s) <= r) ->
    (forall j r, j <> id -> In (j, r) (o_active (st_orc s)) -> In (j, r) (o_active o')) ->
    (t_discarded t' = false -> live_ok (with_orc_txn s o' id t') id t') ->
    Inv (with_orc_txn s o' id t').
  Proof.
    intros HI Hn Hl Hc Hcm Ha Hk Ht.
    constructor; cbn [with_orc_txn st_store st_orc st_txns st_hist st_closed].
    - apply (i_store s HI).
    - apply (i_desc s HI).
    - rewrite Hn. apply (i_next s HI).
    - rewrite Hn. apply (i_pos s HI).
    - rewrite Hl, Hn. apply (i_last s HI).
    - apply (i_reads s HI).
    - apply (i_nonempty s HI).
    - intros j t Hj Hd. unfold set_txn in Hj. destruct (j =? id) eqn:E.
      + apply N.eqb_eq in E. subst j. inversion Hj; subst t. exact (Ht Hd).
      + apply N.eqb_neq in E. destruct (i_live s HI j t Hj Hd) as [H1 H2 H3 H4 H5 H6 H7].
        constructor; cbn [with_orc_txn st_store st_orc]; try assumption.
        * now rewrite Hn.
        * now apply Hk.
    - intros j r Hj. rewrite Hc. now apply (Ha j r).
    - rewrite Hc, Hn. apply (i_cleanup s HI).
    - intros Hdet e He Hv. rewrite Hc in Hv. rewrite Hcm. now apply (i_committed s HI Hdet).
  Qed.

  Lemma discard_orc_facts id t o :
    let o' := discard_orc id t o in
    o_next o' = o_next o /\ wm_last (o_txnmark o') = wm_last (o_txnmark o) /\
    o_cleanup o' = o_cleanup o /\ o_committed o' = o_committed o /\
    (forall j r, In (j, r) (o_active o') -> In (j, r) (o_active o)) /\
    (forall j r, j <> id -> In (j, r) (o_active o) -> In (j, r) (o_active o')).
  Proof.
    unfold discard_orc. destruct (t_doneread t); cbn.
    - repeat split; auto.
    - repeat split; auto.
      + intros j r H. apply filter_In in H. tauto.
      + intros j r Hne H. apply filter_In. split; [exact H|]. cbn. apply negb_true_iff. now apply N.eqb_neq.
  Qed.

  Lemma inv_discard s id t :
    Inv s -> Inv (with_orc_txn s (discard_orc id t (st_orc s)) id dead_txn).
  Proof.
    intros HI. destruct (discard_orc_facts id t (st_orc s)) as (H1 & H2 & H3 & H4 & H5 & H6).
    apply inv_update; auto.
    - intros j r H. apply (i_active s HI j r). now apply H5.
    - cbn. discriminate.
  Qed.

  (** the oracle part of a commit that passed the conflict check *)
  Definition commit_orc (keys : list N) (o : oracle) : oracle * N :=
    let r := orc_issue c keys (orc_cleanup true c o) in (orc_done_commit (snd r) (fst r), snd r).

  Lemma commit_orc_facts keys o :
    (forall j r, In (j, r) (o_active o) -> o_cleanup o <= r) ->
    o_cleanup o <= o_next o - 1 ->
    let o3 := fst (commit_orc keys o) in
    snd (commit_orc keys o) = o_next o /\
    o_next o3 = o_next o + 1 /\
    wm_last (o_txnmark o3) = N.max (wm_last (o_txnmark o)) (o_next o) /\
    o_active o3 = o_active o /\
    o_cleanup o <= o_cleanup o3 /\
    (forall j r, In (j, r) (o_active o) -> o_cleanup o3 <= r) /\
    o_cleanup o3 <= o_next o - 1 /\
    (cf_detect c = true ->
       (forall ct, In ct (o_committed o) -> o_cleanup o3 < c_ts ct -> In ct (o_committed o3)) /\
       In {| c_ts := o_next o; c_keys := keys |} (o_committed o3)).
  Proof.
    intros Ha Hc. unfold commit_orc, orc_cleanup, prune_bound, orc_issue, orc_done_commit.
    destruct (cf_detect c) eqn:Hd; cbn [negb].
    - destruct (min_active o <=? o_cleanup o) eqn:Hm; cbn; rewrite ?Hd; cbn;
        rewrite wm_last_finish, wm_last_begin.
      + repeat split; auto; try lia. all: try (intros ct H _; now right).
      + apply N.leb_gt in Hm. pose proof (min_active_le_next o). repeat split; auto; try lia.
        all: try (intros j r Hj; now apply (min_active_le o j r)).
        all: try (intros ct Hct Hlt; right; apply filter_In; split; [exact Hct | now apply N.ltb_lt]).
    - cbn. rewrite ?Hd. cbn. rewrite wm_last_finish, wm_last_begin.
      repeat split; auto; try lia; try discriminate.
  Qed.

  Definition set_orc (s : state) (o : oracle) : state :=
    {| st_store := st_store s; st_orc := o; st_txns := st_txns s; st_closed := st_closed s; st_broken := st_broken s;
       st_hist := st_hist s |}.

  Lemma inv_commit_fail s keys :
    Inv s -> Inv (set_orc s (fst (commit_orc keys (st_orc s)))).
  Proof.
    intros HI.
    destruct (commit_orc_facts keys (st_orc s) (i_active s HI) (i_cleanup s HI))
      as (H1 & H2 & H3 & H4 & H5 & H6 & H7 & H8).
    set (o3 := fst (commit_orc keys (st_orc s))) in *.
    pose proof (i_pos s HI) as Hp.
    constructor; cbn [set_orc st_store st_orc st_txns st_hist st_closed].
    - apply (i_store s HI).
    - apply (i_desc s HI).
    - intros r Hr. pose proof (i_next s HI r Hr). lia.
    - lia.
    - rewrite H3, H2, (i_last s HI). lia.
    - apply (i_reads s HI).
    - apply (i_nonempty s HI).
    - intros j t Hj Hd. destruct (i_live s HI j t Hj Hd) as [L1 L2 L3 L4 L5 L6 L7].
      constructor; cbn [set_orc st_store st_orc]; try assumption; [lia | now rewrite H4].
    - intros j r Hj. rewrite H4 in Hj. now apply (H6 j r).
    - lia.
    - intros Hdet e He Hv. destruct (H8 Hdet) as [K1 K2].
      assert (Hv' : o_cleanup (st_orc s) < se_ver e) by lia.
      destruct (i_committed s HI Hdet e He Hv') as [ct (Hc1 & Hc2 & Hc3)].
      exists ct. split; [apply K1; [exact Hc1 | lia] | now split].
  Qed.

  Lemma inv_commit_ok s keys ws log :
    Inv s ->
    (cf_detect c = true -> forall k v, In (k, v) ws -> In (fp k) keys) ->
    (cf_detect c = true -> forall k v, In (k, v) log -> v = read_at (st_store s) k (o_next (st_orc s) - 1)) ->
    ws <> [] ->
    let o3 := fst (commit_orc keys (st_orc s)) in
    let ts := o_next (st_orc s) in
    Inv {| st_store := entries ts ws ++ st_store s; st_orc := o3; st_txns := st_txns s;
           st_closed := false; st_broken := false;
           st_hist := {| h_ts := ts; h_reads := log; h_writes := ws |} :: st_hist s |}.
  Proof.
    intros HI Hkeys Hlog Hne o3 ts.
    destruct (commit_orc_facts keys (st_orc s) (i_active s HI) (i_cleanup s HI))
      as (H1 & H2 & H3 & H4 & H5 & H6 & H7 & H8).
    fold o3 in H2, H3, H4, H5, H6, H7, H8. fold ts in H1, H2, H3, H7, H8.
    pose proof (i_pos s HI) as Hp. fold ts in Hp.
    assert (Habove : forall v e, v < ts -> In e (entries ts ws) -> v < se_ver e).
    { intros v e Hv He. apply entries_ver in He. lia. }
    constructor; cbn [st_store st_orc st_txns st_hist st_closed st_broken].
    - cbn [hist_store flat_map h_ts h_writes]. fold (hist_store (st_hist s)). now rewrite <- (i_store s HI).
    - constructor; [apply (i_desc s HI)|]. intros r' Hr'. cbn [h_ts]. pose proof (i_next s HI r' Hr'). fold ts in H. lia.
    - intros r [<-|Hr]; cbn [h_ts]; [lia|]. pose proof (i_next s HI r Hr). fold ts in H. lia.
    - lia.
    - rewrite H3, H2, (i_last s HI). fold ts. lia.
    - intros Hdet r k v [<-|Hr] Hkv; cbn [h_ts h_reads] in *.
      + rewrite read_at_app_above by (intros e He; apply (Habove (ts - 1) e); [lia | exact He]).
        now apply Hlog.
      + pose proof (i_next s HI r Hr) as Hn. fold ts in Hn.
        rewrite read_at_app_above by (intros e He; apply (Habove (h_ts r - 1) e); [lia | exact He]).
        now apply (i_reads s HI Hdet r).
    - intros r [<-|Hr]; cbn [h_writes]; [exact Hne | now apply (i_nonempty s HI)].
    - intros j t Hj Hd. destruct (i_live s HI j t Hj Hd) as [L1 L2 L3 L4 L5 L6 L7]. fold ts in L1.
      constructor; cbn [st_store st_orc]; try assumption; [lia | | now rewrite H4].
      intros k v Hkv. rewrite read_at_app_above by (intros e He; now apply (Habove (t_readts t) e)).
      now apply L2.
    - intros j r Hj. rewrite H4 in Hj. now apply (H6 j r).
    - lia.
    - intros Hdet e He Hv. destruct (H8 Hdet) as [K1 K2]. apply in_app_or in He as [He|He].
      + exists {| c_ts := ts; c_keys := keys |}. split; [exact K2|]. cbn [c_ts c_keys].
        unfold entries in He. apply in_map_iff in He as [[k v] [<- Hin]]. cbn [se_ver se_key fst].
        split; [reflexivity | now apply (Hkeys Hdet k v)].
      + assert (Hv' : o_cleanup (st_orc s) < se_ver e) by lia.
        destruct (i_committed s HI Hdet e He Hv') as [ct (Hc1 & Hc2 & Hc3)].
        exists ct. split; [apply K1; [exact Hc1 | lia] | now split].
  Qed.

  (** ** The conflict check is sound *)
  Lemma no_conflict_sound s id t :
    Inv s -> cf_detect c = true -> st_txns s id = Some t -> t_discarded t = false -> t_update t = true ->
    has_conflict (st_orc s) t = false ->
    forall k v e, In (k, v) (t_log t) -> In e (st_store s) -> se_key e = k -> se_ver e <= t_readts t.
  Proof.
    intros HI Hdet Hid Hd Hu Hnc k v e Hkv He Hk.
    destruct (N.le_gt_cases (se_ver e) (t_readts t)) as [Hle|Hgt]; [exact Hle | exfalso].
    destruct (i_live s HI id t Hid Hd) as [L1 L2 L3 L4 L5 L6 L7].
    pose proof (i_active s HI id _ L7) as Hcl.
    destruct (i_committed s HI Hdet e He ltac:(lia)) as [ct (Hc1 & Hc2 & Hc3)].
    pose proof (L3 Hu k v Hkv) as Hr. rewrite <- Hk in Hr.
    unfold has_conflict in Hnc. destruct (t_reads t) as [|x l] eqn:Er; [contradiction|].
    apply orb_false_iff in Hnc as [_ Hnc].
    assert (Ht : existsb (fun ct0 => (t_readts t <? c_ts ct0) &&
                   existsb (fun ro => mem ro (c_keys ct0)) (x :: l)) (o_committed (st_orc s)) = true).
    { apply existsb_exists. exists ct. split; [exact Hc1|]. apply andb_true_iff. split.
      - apply N.ltb_lt. lia.
      - apply existsb_exists. exists (fp (se_key e)). split; [exact Hr|].
        unfold mem. apply existsb_exists. exists (fp (se_key e)). split; [exact Hc3 | apply N.eqb_refl]. }
    congruence.
  Qed.

  Lemma read_ts_inv s : Inv s -> read_ts (st_orc s) = o_next (st_orc s) - 1.
  Proof. intro HI. unfold read_ts. rewrite (i_last s HI). lia. Qed.

  Lemma inv_begin s id u :
    Inv s ->
    Inv (with_orc_txn s (orc_register true id (read_ts (st_orc s)) (st_orc s)) id
           {| t_update := u; t_readts := read_ts (st_orc s); t_reads := []; t_ckeys := []; t_pending := [];
              t_discarded := false; t_doneread := false; t_count := 1; t_size := 0; t_log := [] |}).
  Proof.
    intros HI. pose proof (read_ts_inv s HI) as Hr. pose proof (i_pos s HI) as Hp.
    apply inv_update; auto.
    - cbn. intros j r [E|H]; [inversion E; subst; pose proof (i_cleanup s HI); lia | now apply (i_active s HI j r)].
    - cbn. intros j r _ H. now right.
    - intros _. constructor; cbn; try (intros; contradiction); try reflexivity; try lia.
      now left.
  Qed.

  Lemma pw_set_in k v p k' v' : In (k', v') (pw_set k v p) -> (k', v') = (k, v) \/ In (k', v') p.
  Proof.
    unfold pw_set. intros [E|H]; [left; now symmetry | right]. apply filter_In in H. tauto.
  Qed.

  Theorem step_inv s o : Inv s -> Inv (fst (step s o)).
  Proof.
    intros HI. destruct o as [id u|id k|id k v|id|id| | | |k]; cbn [step].
    - (* Begin *)
      destruct (st_txns s id) as [t|] eqn:Et.
      + destruct (t_discarded t); [|exact HI].
        destruct (wm_done (o_txnmark (st_orc s)) <? read_ts (st_orc s)); [exact HI|]. now apply inv_begin.
      + destruct (wm_done (o_txnmark (st_orc s)) <? read_ts (st_orc s)); [exact HI|]. now apply inv_begin.
    - (* Get *)
      destruct (st_txns s id) as [t|] eqn:Et; [|exact HI].
      destruct (t_discarded t) eqn:Ed; [exact HI|].
      destruct (if t_update t then kv_get (t_pending t) k else None); [exact HI|]. cbn [fst].
      destruct (i_live s HI id t Et Ed) as [L1 L2 L3 L4 L5 L6 L7].
      apply inv_update; auto.
      * apply (i_active s HI).
      * intros _. constructor; cbn; try assumption.
        -- intros k' v' [E|H]; [inversion E; subst; reflexivity | now apply L2].
        -- intros Hu k' v' [E|H]; rewrite Hu.
           ++ inversion E; subst. now left.
           ++ right. now apply (L3 Hu k' v').
    - (* Put *)
      destruct (st_txns s id) as [t|] eqn:Et; [|exact HI].
      destruct (t_update t) eqn:Eu; cbn [negb]; [|exact HI].
      destruct (t_discarded t) eqn:Ed; [exact HI|].
      destruct ((cf_maxcount c <=? t_count t + 1) || (cf_maxsize c <=? _)); [exact HI|]. cbn [fst].
      destruct (i_live s HI id t Et Ed) as [L1 L2 L3 L4 L5 L6 L7].
      apply inv_update; auto.
      * apply (i_active s HI).
      * intros _. constructor; cbn; try assumption.
        -- intros _. now apply L3.
        -- discriminate.
        -- intros Hdet k' v' H. rewrite Hdet. apply pw_set_in in H as [E|H].
           ++ inversion E; subst. now left.
           ++ right. now apply (L6 Hdet k' v').
    - (* Commit *)
      destruct (st_txns s id) as [t|] eqn:Et; [|exact HI].
      destruct (t_discarded t) eqn:Ed; [exact HI|].
      destruct (t_pending t) as [|p ps] eqn:Ep; [now apply inv_discard|].
      destruct (has_conflict (st_orc s) t) eqn:Ec; [now apply inv_discard|].
      pose proof (inv_discard s id t HI) as HA.
      set (sA := with_orc_txn s (discard_orc id t (st_orc s)) id dead_txn) in *.
      destruct (i_live s HI id t Et Ed) as [L1 L2 L3 L4 L5 L6 L7].
      assert (Hu : t_update t = true).
      { destruct (t_update t) eqn:E; [reflexivity|]. rewrite (L5 eq_refl) in Ep. discriminate. }
      change (orc_cleanup true c (discard_orc id t (st_orc s))) with (orc_cleanup true c (st_orc sA)).
      destruct (orc_issue c (t_ckeys t) (orc_cleanup true c (st_orc sA))) as [o2 ts] eqn:Ei.
      assert (Ho3 : orc_done_commit ts o2 = fst (commit_orc (t_ckeys t) (st_orc sA))).
      { unfold commit_orc. rewrite Ei. reflexivity. }
      assert (Hts : ts = o_next (st_orc s)).
      { destruct (commit_orc_facts (t_ckeys t) (st_orc sA) (i_active sA HA) (i_cleanup sA HA)) as (H1 & _).
        unfold commit_orc in H1. rewrite Ei in H1. cbn in H1. rewrite H1.
        destruct (discard_orc_facts id t (st_orc s)) as (Hn & _). exact Hn. }
      destruct ((cf_maxcount c <=? N.of_nat (length (p :: ps))) || (cf_maxsize c <=? send_size c (p :: ps))).
      { cbn [fst]. rewrite Ho3. exact (inv_commit_fail sA (t_ckeys t) HA). }
      destruct (st_closed s).
      { cbn [fst]. rewrite Ho3. exact (inv_commit_fail sA (t_ckeys t) HA). }
      destruct (st_broken s).
      { cbn [fst]. rewrite Ho3. exact (inv_commit_fail sA (t_ckeys t) HA). }
      cbn [fst]. rewrite Ho3, Hts.
      assert (Hn : o_next (st_orc sA) = o_next (st_orc s)).
      { destruct (discard_orc_facts id t (st_orc s)) as (Hn & _). exact Hn. }
      rewrite <- Hn.
      apply (inv_commit_ok sA (t_ckeys t) (p :: ps) (t_log t) HA).
      * intros Hdet k v Hkv. apply (L6 Hdet k v). now rewrite Ep.
      * intros Hdet k v Hkv. cbn [sA with_orc_txn st_store]. rewrite Hn.
        rewrite (L2 k v Hkv). apply read_at_bound; [lia|].
        intros e He Hk. left. exact (no_conflict_sound s id t HI Hdet Et Ed Hu Ec k v e Hkv He Hk).
      * discriminate.
    - (* Discard *)
      destruct (st_txns s id) as [t|] eqn:Et; [|exact HI].
      destruct (t_discarded t); [exact HI | now apply inv_discard].
    - (* Close *)
      cbn [fst]. destruct HI as [A1 A2 A3 A4 A5 A6 A7 A8 A9 A10 A11].
      constructor; cbn [st_store st_orc st_txns st_hist st_closed]; try assumption.
      intros j t Hj Hd. destruct (A8 j t Hj Hd). constructor; cbn [st_store st_orc]; assumption.
    - (* Reopen *)
      cbn [fst]. pose proof (i_store s HI) as Hst.
      assert (Hmx : forall e, In e (st_store s) -> se_ver e <= max_ver (st_store s)) by (intros; now apply max_ver_ge).
      assert (Hh : forall r, In r (st_hist s) -> 1 <= h_ts r <= max_ver (st_store s)).
      { intros r Hr. split; [apply (i_next s HI r Hr)|].
        pose proof (i_nonempty s HI r Hr) as Hne. destruct (h_writes r) as [|[k v] ws] eqn:Ew; [congruence|].
        apply (Hmx {| se_key := k; se_ver := h_ts r; se_val := v |}).
        rewrite Hst. unfold hist_store. apply in_flat_map. exists r. split; [exact Hr|]. rewrite Ew. now left. }
      unfold orc_init. destruct (max_ver (st_store s) =? 0) eqn:E0.
      + apply N.eqb_eq in E0.
        constructor; cbn; try (intros; contradiction); try lia; try apply HI.
        * intros r Hr. specialize (Hh r Hr). lia.
        * intros; discriminate.
        * intros _ e He Hv. specialize (Hmx e He). lia.
      + apply N.eqb_neq in E0.
        constructor; cbn; try (intros; contradiction); try lia; try apply HI.
        * intros r Hr. specialize (Hh r Hr). lia.
        * intros; discriminate.
        * intros _ e He Hv. specialize (Hmx e He). lia.
    - (* FailWal *)
      cbn [fst]. destruct HI as [A1 A2 A3 A4 A5 A6 A7 A8 A9 A10 A11].
      constructor; cbn [st_store st_orc st_txns st_hist st_closed st_broken]; try assumption.
      intros j t Hj Hd. destruct (A8 j t Hj Hd). constructor; cbn [st_store st_orc]; assumption.
    - (* Dump *) exact HI.
  Qed.

  Theorem run_inv ops s : Inv s -> Inv (run_state true fp c s ops).
  Proof.
    revert s; induction ops as [|o ops IH]; intros s HI; cbn [run_state fold_left]; [exact HI|].
    apply IH. now apply step_inv.
  Qed.

  Corollary reachable_inv ops : Inv (run_state true fp c st_init ops).
  Proof. apply run_inv, inv_init. Qed.
End Inv.

(** * Theorems of C03 *)
Section Theorems.
  Variable fp : bytes -> N.
  Variable c : cfg.
  Notation step := (step true fp c).
  Notation run_state := (run_state true fp c).

  (** A read returns the transaction's own pending write if there is one,
      else the newest committed version at or below its read timestamp
      (tombstone => not found). *)
  Theorem snapshot_read s id k t :
    st_txns s id = Some t -> t_discarded t = false ->
    snd (step s (Get id k)) =
    ORead (match (if t_update t then kv_get (t_pending t) k else None) with
           | Some v => v
           | None => read_at (st_store s) k (t_readts t)
           end).
  Proof.
    intros Et Ed. cbn [step]. rewrite Et, Ed.
    destruct (if t_update t then kv_get (t_pending t) k else None); reflexivity.
  Qed.

  (** No call changes what is visible below the next timestamp. *)
  Lemma step_below s o v k :
    Inv fp c s -> v < o_next (st_orc s) ->
    read_at (st_store (fst (step s o))) k v = read_at (st_store s) k v.
  Proof.
    intros HI Hv. destruct o as [id u|id k0|id k0 v0|id|id| | | |k0]; cbn [step]; try reflexivity.
    - destruct (st_txns s id) as [t|]; [destruct (t_discarded t)|];
        try destruct (wm_done (o_txnmark (st_orc s)) <? read_ts (st_orc s)); reflexivity.
    - destruct (st_txns s id) as [t|]; [|reflexivity]. destruct (t_discarded t); [reflexivity|].
      destruct (if t_update t then kv_get (t_pending t) k0 else None); reflexivity.
    - destruct (st_txns s id) as [t|]; [|reflexivity]. destruct (negb (t_update t)); [reflexivity|].
      destruct (t_discarded t); [reflexivity|]. destruct (_ || _); reflexivity.
    - destruct (st_txns s id) as [t|] eqn:Et; [|reflexivity]. destruct (t_discarded t) eqn:Ed; [reflexivity|].
      destruct (t_pending t) as [|p ps]; [reflexivity|].
      destruct (has_conflict (st_orc s) t); [reflexivity|].
      destruct (orc_issue c (t_ckeys t) (orc_cleanup true c (discard_orc id t (st_orc s)))) as [o2 ts] eqn:Ei.
      destruct (_ || _); [reflexivity|]. destruct (st_closed s); [reflexivity|]. destruct (st_broken s); [reflexivity|].
      cbn [fst st_store].
      apply read_at_app_above. intros e He. apply entries_ver in He. rewrite He.
      unfold orc_issue in Ei. inversion Ei; subst ts.
      replace (o_next (orc_cleanup true c (discard_orc id t (st_orc s)))) with (o_next (st_orc s)); [exact Hv|].
      unfold orc_cleanup, discard_orc. destruct (negb (cf_detect c)), (t_doneread t); cbn;
        try reflexivity; destruct (_ <=? _); reflexivity.
    - destruct (st_txns s id) as [t|]; [|reflexivity]. destruct (t_discarded t); reflexivity.
  Qed.

  (** Repeatable snapshot: as long as a transaction is live, what it can see
      does not change, whatever the other transactions do. *)
  Theorem snapshot_stable ops s id t k :
    Inv fp c s -> st_txns s id = Some t -> t_discarded t = false ->
    Forall (fun o => o <> Reopen) ops ->
    read_at (st_store (run_state s ops)) k (t_readts t) = read_at (st_store s) k (t_readts t).
  Proof.
    intros HI Et Ed. pose proof (l_rts fp c s id t (i_live fp c s HI id t Et Ed)) as Hr.
    clear Et Ed. revert s HI Hr. induction ops as [|o ops IH]; intros s HI Hr Hall; [reflexivity|].
    cbn [TxnOracle.run_state fold_left]. inversion Hall as [|o' l' Ho Hall']; subst.
    change (fold_left (fun s0 o0 => fst (step s0 o0)) ops (fst (step s o))) with (run_state (fst (step s o)) ops).
    rewrite IH; [now apply step_below | now apply step_inv | | exact Hall'].
    (* the timestamp counter does not go back without a reopen *)
    clear IH Hall Hall'. destruct o as [id' u|id' k0|id' k0 v0|id'|id'| | | |k0]; cbn [step]; try exact Hr.
    - destruct (st_txns s id') as [t'|]; [destruct (t_discarded t')|];
        try destruct (wm_done (o_txnmark (st_orc s)) <? read_ts (st_orc s)); exact Hr.
    - destruct (st_txns s id') as [t'|]; [|exact Hr]. destruct (t_discarded t'); [exact Hr|].
      destruct (if t_update t' then kv_get (t_pending t') k0 else None); exact Hr.
    - destruct (st_txns s id') as [t'|]; [|exact Hr]. destruct (negb (t_update t')); [exact Hr|].
      destruct (t_discarded t'); [exact Hr|]. destruct (_ || _); exact Hr.
    - destruct (st_txns s id') as [t'|]; [|exact Hr]. destruct (t_discarded t'); [exact Hr|].
      assert (Hd : o_next (discard_orc id' t' (st_orc s)) = o_next (st_orc s))
        by (unfold discard_orc; destruct (t_doneread t'); reflexivity).
      destruct (t_pending t') as [|p ps]; [cbn; now rewrite Hd|].
      destruct (has_conflict (st_orc s) t'); [cbn; now rewrite Hd|].
      assert (Hc : o_next (orc_cleanup true c (discard_orc id' t' (st_orc s))) = o_next (st_orc s)).
      { rewrite <- Hd. unfold orc_cleanup. destruct (negb (cf_detect c)); [reflexivity|].
        destruct (_ <=? _); reflexivity. }
      unfold orc_issue. destruct (_ || _); [cbn; rewrite Hc; lia|].
      destruct (st_closed s); [cbn; rewrite Hc; lia|]. destruct (st_broken s); cbn; rewrite Hc; lia.
    - destruct (st_txns s id') as [t'|]; [|exact Hr]. destruct (t_discarded t'); [exact Hr|].
      cbn. unfold discard_orc. destruct (t_doneread t'); exact Hr.
    - congruence.
  Qed.

  (** If Commit of a read-write transaction succeeds, no key it read from the
      database has a version above its read timestamp, i.e. none was written by
      a commit that came after its snapshot. *)
  Theorem conflict_sound ops id t s' ts :
    cf_detect c = true ->
    let s := run_state st_init ops in
    st_txns s id = Some t -> t_discarded t = false ->
    step s (Commit id) = (s', OCommitted ts) ->
    forall k v e, In (k, v) (t_log t) -> In e (st_store s) -> se_key e = k -> se_ver e <= t_readts t.
  Proof.
    intros Hdet s Et Ed Hstep. pose proof (reachable_inv fp c ops) as HI. fold s in HI.
    cbn [step] in Hstep. rewrite Et, Ed in Hstep.
    destruct (t_pending t) as [|p ps] eqn:Ep; [inversion Hstep|].
    destruct (has_conflict (st_orc s) t) eqn:Ec; [inversion Hstep|].
    assert (Hu : t_update t = true).
    { destruct (t_update t) eqn:E; [reflexivity|].
      rewrite (l_ro fp c s id t (i_live fp c s HI id t Et Ed) E) in Ep. discriminate. }
    intros k v e. now apply (no_conflict_sound fp c s id t).
  Qed.

  (** Replaying the committed read-write transactions one after the other in
      commit-timestamp order reproduces every read each of them made from the
      database and ends in the store's current contents. *)
  Theorem serializable ops :
    cf_detect c = true ->
    let s := run_state st_init ops in
    serial_execution (rev (map to_srec (st_hist s)))
                     (fun k => read_at (st_store s) k (o_next (st_orc s))).
  Proof.
    intros Hdet s. pose proof (reachable_inv fp c ops) as HI. fold s in HI.
    destruct (serial_lemma (st_hist s) (i_desc fp c s HI)) as [m [Hr Hm]].
    - intros r Hr. apply (i_next fp c s HI r Hr).
    - intros r k v Hr Hkv. rewrite <- (i_store fp c s HI). now apply (i_reads fp c s HI Hdet r).
    - exists m. split; [exact Hr|]. intros k. rewrite (i_store fp c s HI). apply Hm.
      destruct (st_hist s) as [|r h] eqn:Eh; cbn [top]; [lia|].
      pose proof (i_next fp c s HI r) as Hn. rewrite Eh in Hn. specialize (Hn (or_introl eq_refl)). lia.
  Qed.

  (** * Theorems of C04 *)
  Theorem commit_all_or_nothing s id s' x :
    step s (Commit id) = (s', x) ->
    match x with
    | OCommitted ts => exists t, st_txns s id = Some t /\ t_pending t <> [] /\
                                 st_store s' = entries ts (t_pending t) ++ st_store s
    | _ => st_store s' = st_store s
    end.
  Proof.
    cbn [step]. destruct (st_txns s id) as [t|] eqn:Et; [|intro H; inversion H; reflexivity].
    destruct (t_discarded t); [intro H; inversion H; reflexivity|].
    destruct (t_pending t) as [|p ps] eqn:Ep; [intro H; inversion H; reflexivity|].
    destruct (has_conflict (st_orc s) t); [intro H; inversion H; reflexivity|].
    destruct (orc_issue c (t_ckeys t) _) as [o2 ts].
    destruct (_ || _); [intro H; inversion H; reflexivity|].
    destruct (st_closed s); [intro H; inversion H; reflexivity|].
    destruct (st_broken s); intro H; inversion H; subst; [reflexivity|].
    exists t. repeat split; [congruence | now rewrite Ep].
  Qed.

  (** All writes of a successful commit become visible together: a snapshot
      below the commit version sees none of them, a snapshot at or above it
      sees every one of them (until a later commit overwrites the key). *)
  Theorem commit_visible_together ops id s' ts :
    let s := run_state st_init ops in
    step s (Commit id) = (s', OCommitted ts) ->
    exists t, st_txns s id = Some t /\
      (forall e, In e (st_store s) -> se_ver e < ts) /\
      (forall k v, v < ts -> read_at (st_store s') k v = read_at (st_store s) k v) /\
      (forall k v, ts <= v -> read_at (st_store s') k v =
                              match kv_get (t_pending t) k with Some x => x | None => read_at (st_store s) k v end).
  Proof.
    intros s Hstep. pose proof (reachable_inv fp c ops) as HI. fold s in HI.
    pose proof (commit_all_or_nothing s id s' _ Hstep) as [t (Et & Hne & Hst)]. exists t.
    assert (Hts : ts = o_next (st_orc s)).
    { cbn [step] in Hstep. rewrite Et in Hstep. destruct (t_discarded t); [inversion Hstep|].
      destruct (t_pending t) as [|p ps]; [inversion Hstep|].
      destruct (has_conflict (st_orc s) t); [inversion Hstep|].
      unfold orc_issue in Hstep. destruct (_ || _); [inversion Hstep|].
      destruct (st_closed s); [inversion Hstep|]. destruct (st_broken s); inversion Hstep.
      unfold orc_cleanup, discard_orc. destruct (negb (cf_detect c)), (t_doneread t); cbn;
        try reflexivity; destruct (_ <=? _); reflexivity. }
    assert (Hb : forall e, In e (st_store s) -> se_ver e < ts).
    { intros e He. rewrite Hts. apply (store_below_next fp c s e HI He). }
    split; [exact Et|]. split; [exact Hb|]. rewrite Hst. split.
    - intros k v Hv. apply read_at_app_above. intros e He. apply entries_ver in He. lia.
    - intros k v Hv. now apply read_at_commit.
  Qed.

  (** The commit version is greater than every version stored before, in every
      reachable state (also after Close/Reopen, where the oracle restarts from
      the store's maximal version). *)
  Theorem commit_monotone ops id s' ts :
    let s := run_state st_init ops in
    step s (Commit id) = (s', OCommitted ts) ->
    forall e, In e (st_store s) -> se_ver e < ts.
  Proof.
    intros s Hstep. destruct (commit_visible_together ops id s' ts Hstep) as [t (_ & H & _)]. exact H.
  Qed.
End Theorems.

(** * The oracle as it was (pruning bound = readMark.DoneUntil()) loses updates *)
From Coq Require Import String.
Definition wk := unhex "6b"%string.
Definition wk2 := unhex "6c"%string.
Definition wcfg := {| cf_detect := true; cf_maxcount := 64; cf_maxsize := 1048576; cf_vthr := 1024 |}.
Definition wfp (b : bytes) : N := N.of_nat (List.length b) * 1000 + match b with x :: _ => b2n x | [] => 0 end.

(** T1 reads k at snapshot 1 while the read watermark already stands at 1; T2
    overwrites k at version 2; a reader at 2 finishes; T3 commits (prunes the
    history up to 2); T1 writes k and commits without a conflict. *)
Definition witness_stale_reader : list op :=
  [Begin 0 true; Put 0 wk (Some wk); Commit 0; Begin 0 true; Discard 0;
   Begin 1 true; Get 1 wk;
   Begin 2 true; Put 2 wk (Some wk2); Commit 2;
   Begin 3 true; Discard 3; Begin 3 true; Put 3 wk2 (Some wk); Commit 3;
   Put 1 wk (Some wk2)].

Lemma legacy_conflict_refuted :
  exists ops id t s' ts,
    let s := TxnOracle.run_state false wfp wcfg st_init ops in
    st_txns s id = Some t /\ t_discarded t = false /\
    TxnOracle.step false wfp wcfg s (Commit id) = (s', OCommitted ts) /\
    exists k v e, In (k, v) (t_log t) /\ In e (st_store s) /\ se_key e = k /\ t_readts t < se_ver e.
Proof.
  exists witness_stale_reader, 1.
  eexists. eexists. eexists. cbv zeta.
  split; [vm_compute; reflexivity|]. split; [reflexivity|]. split; [vm_compute; reflexivity|].
  exists wk, (Some wk), {| se_key := wk; se_ver := 2; se_val := Some wk2 |}.
  vm_compute. repeat split; auto. 
Qed.

(** The hypotheses of the theorems are satisfiable on a non-trivial run: with
    the repaired oracle the same interleaving ends in a conflict, and a
    transaction that read and wrote commits when nobody interfered. *)
Example repaired_detects_conflict :
  snd (TxnOracle.step true wfp wcfg (TxnOracle.run_state true wfp wcfg st_init witness_stale_reader) (Commit 1))
  = OErr EConflict.
Proof. vm_compute. reflexivity. Qed.

Example commit_hypotheses_satisfiable :
  exists ops id t s' ts,
    let s := TxnOracle.run_state true wfp wcfg st_init ops in
    st_txns s id = Some t /\ t_discarded t = false /\ t_log t <> [] /\
    TxnOracle.step true wfp wcfg s (Commit id) = (s', OCommitted ts) /\ st_hist s <> [].
Proof.
  exists [Begin 0 true; Put 0 wk (Some wk); Commit 0; Begin 1 true; Get 1 wk; Put 1 wk2 (Some wk)], 1.
  eexists. eexists. eexists. cbv zeta.
  split; [vm_compute; reflexivity|]. split; [reflexivity|]. split; [discriminate|].
  split; [vm_compute; reflexivity | vm_compute; discriminate].
Qed.

(** the injected apply failure: Commit reports an error and stores nothing *)
Example apply_failure_reports_error :
  let s := TxnOracle.run_state true wfp wcfg st_init [Begin 0 true; Put 0 wk (Some wk); FailWal] in
  snd (TxnOracle.step true wfp wcfg s (Commit 0)) = OErr EApply /\
  st_store (fst (TxnOracle.step true wfp wcfg s (Commit 0))) = [].
Proof. vm_compute. split; reflexivity. Qed.

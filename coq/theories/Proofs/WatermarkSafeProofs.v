(** C32: safety of the repaired Begin order in runs without a window rebuild
    and without a stray Done, and the WaitForMark statement. *)
From Coq Require Import List NArith ZArith Bool Arith Lia ZifyN ZifyNat ZifyBool.
From NoKV Require Import Base.Sched Model.SchedLib Model.Watermark Spec.WatermarkSpec
  Proofs.SchedLibProofs Proofs.WatermarkProofs.
Import ListNotations.
Local Open Scope N_scope.

(** boolean hypotheses to propositions *)
Ltac norm :=
  repeat match goal with
         | H : (_ =? _) = true |- _ => apply N.eqb_eq in H
         | H : (_ =? _) = false |- _ => apply N.eqb_neq in H
         | H : (_ <=? _) = true |- _ => apply N.leb_le in H
         | H : (_ <=? _) = false |- _ => apply N.leb_gt in H
         | H : (_ <? _) = true |- _ => apply N.ltb_lt in H
         | H : (_ <? _) = false |- _ => apply N.ltb_ge in H
         end.

(** * counting pairs *)
Definition cnt (i : N) (l : list (N * nat)) : nat := length (filter (fun x => fst x =? i) l).

Lemma cnt_cons i j t l : cnt i ((j, t) :: l) = ((if (j =? i)%N then 1 else 0) + cnt i l)%nat.
Proof. unfold cnt. cbn. destruct (j =? i); reflexivity. Qed.

Lemma cnt_zero_notin i t l : cnt i l = 0%nat -> ~ In (i, t) l.
Proof.
  induction l as [|[j u] l IH]; [intros _ []|]. rewrite cnt_cons.
  destruct (j =? i) eqn:E; [discriminate|]. intros H [Heq|Hin]; [|now apply IH].
  inversion Heq; subst. rewrite N.eqb_refl in E. discriminate.
Qed.

Lemma cnt_remove_same i t l :
  has_waiter i t l = true -> S (cnt i (remove_pair i t l)) = cnt i l.
Proof.
  induction l as [|[j u] l IH]; cbn [has_waiter remove_pair]; [discriminate|].
  destruct ((i =? j) && Nat.eqb t u) eqn:E; cbn [orb].
  - intros _. apply andb_true_iff in E as [E _]. apply N.eqb_eq in E. subst.
    rewrite cnt_cons, N.eqb_refl. reflexivity.
  - intros H. rewrite !cnt_cons. rewrite <- (IH H). destruct (j =? i); lia.
Qed.

Lemma cnt_remove_other i j t l : i <> j -> cnt j (remove_pair i t l) = cnt j l.
Proof.
  intros Hne. induction l as [|[k u] l IH]; cbn [remove_pair]; [reflexivity|].
  destruct ((i =? k) && Nat.eqb t u) eqn:E.
  - apply andb_true_iff in E as [E _]. apply N.eqb_eq in E. subst.
    rewrite cnt_cons. destruct (k =? j) eqn:E2; [apply N.eqb_eq in E2; congruence|reflexivity].
  - rewrite !cnt_cons, IH. reflexivity.
Qed.

Lemma cnt_remove_le i j t l : (cnt j (remove_pair i t l) <= cnt j l)%nat.
Proof.
  induction l as [|[k u] l IH]; cbn [remove_pair]; [lia|].
  destruct ((i =? k) && Nat.eqb t u); rewrite ?cnt_cons; lia.
Qed.

Lemma In_remove_pair x i t l : In x (remove_pair i t l) -> In x l.
Proof.
  induction l as [|[k u] l IH]; cbn [remove_pair]; [tauto|].
  destruct ((i =? k) && Nat.eqb t u); cbn [In]; intuition.
Qed.

(** * slots *)
Lemma nth_add_nth_eq k d l : (k < length l)%nat -> nth k (add_nth k d l) 0%Z = (nth k l 0 + d)%Z.
Proof. revert k; induction l as [|x l IH]; intros [|k] H; cbn in *; try lia; auto. apply IH. lia. Qed.

Lemma nth_add_nth_neq k k' d l : k <> k' -> nth k' (add_nth k d l) 0%Z = nth k' l 0%Z.
Proof.
  revert k k'; induction l as [|x l IH]; intros [|k] [|k'] H; cbn; auto; try congruence.
Qed.

Lemma add_nth_length k d l : length (add_nth k d l) = length l.
Proof. revert k; induction l as [|x l IH]; intros [|k]; cbn; auto. Qed.

Definition w0 (g : gstate) : N * list Z := win_at g 0.
Definition slot (w : N * list Z) (i : N) : Z := nth (N.to_nat (i - fst w)) (snd w) 0%Z.

Lemma in_range_shape i w w' :
  fst w' = fst w -> length (snd w') = length (snd w) -> in_range i w' = in_range i w.
Proof. unfold in_range. intros -> ->. reflexivity. Qed.

(** * the invariant *)
Definition th_safe (last : N) (T : list (N * nat)) (w : N * list Z) (th : thread) : Prop :=
  match th_pc th with
  | SLCas cur => match th_ops th with o :: _ => cur < op_index o | [] => True end
  | TAWin du => du < last
  | TASlot du k => du < last /\ k = 0%nat /\ in_range (du + 1) w = true
  | TACas du => du < last /\ cnt (du + 1) T = 0%nat
  | ADAdd k | EWUnlock ForAdd k =>
      k = 0%nat /\ match th_ops th with o :: _ => in_range (op_index o) w = true | [] => True end
  | EWFinal _ => False
  | _ => True
  end.

Definition Good (g : gstate) : Prop := (length (g_wins g) <= 1)%nat /\ gh_stray (g_ghost g) = false.

Record InvS (g : gstate) : Prop := {
  is_len : length (g_wins g) = 1%nat;
  is_cur : g_cur g = 0%nat;
  is_le : g_done g <= g_last g;
  is_safe : forall i t, In (i, t) (g_tracked g) -> g_done g < i;
  is_slot : forall i, in_range i (w0 g) = true ->
              slot (w0 g) i = Z.of_nat (cnt i (g_tracked g) + cnt i (gh_untimely (g_ghost g)));
  is_th : forall t th, nth_error (g_threads g) t = Some th -> th_safe (g_last g) (g_tracked g) (w0 g) th
}.

Lemma th_safe_mono last last' T T' w w' th :
  last <= last' ->
  (forall j, j <= last -> cnt j T = 0%nat -> cnt j T' = 0%nat) ->
  fst w' = fst w -> length (snd w') = length (snd w) ->
  th_safe last T w th -> th_safe last' T' w' th.
Proof.
  intros Hl HT Hf Hlen. unfold th_safe.
  assert (Hr : forall i, in_range i w' = in_range i w) by (intro; apply in_range_shape; auto).
  destruct (th_pc th) as [| |c| | | |wh k| | | | |k| | | |du k|du| | | | | | |]; try tauto.
  - destruct wh; [|tauto]. destruct (th_ops th); [tauto|]. now rewrite Hr.
  - destruct (th_ops th); [tauto|]. now rewrite Hr.
  - lia.
  - rewrite Hr. intuition lia.
  - intros [H1 H2]. split; [lia|]. apply HT; [lia|exact H2].
Qed.

Lemma InvS_upd g t th D L W C M WT GH WR th' :
  InvS g -> nth_error (g_threads g) t = Some th ->
  length W = 1%nat -> C = 0%nat -> D <= L ->
  (forall i u, In (i, u) (gh_tracked GH) -> D < i) ->
  (forall i, in_range i (nth 0 W (1, [])) = true ->
     slot (nth 0 W (1, [])) i = Z.of_nat (cnt i (gh_tracked GH) + cnt i (gh_untimely GH))) ->
  (forall u thu, u <> t -> nth_error (g_threads g) u = Some thu ->
     th_safe (g_last g) (g_tracked g) (w0 g) thu -> th_safe L (gh_tracked GH) (nth 0 W (1, [])) thu) ->
  th_safe L (gh_tracked GH) (nth 0 W (1, [])) th' ->
  InvS (upd g D L W C M WT GH WR t th').
Proof.
  intros HI Et HW HC HD HA HS Hoth Hown. constructor; unfold upd, g_tracked, w0, win_at; cbn; auto.
  intros u thu Hn. destruct (Nat.eq_dec t u) as [<-|Hne].
  - erewrite nth_error_set_nth_eq in Hn by eauto. inversion Hn; subst. exact Hown.
  - rewrite nth_error_set_nth_neq in Hn by exact Hne. eapply Hoth; eauto. apply (is_th g HI u thu Hn).
Qed.

(** only the pc (and mu / waiters / waitret) change *)
Lemma InvS_goto g t th M WT WR th' :
  InvS g -> nth_error (g_threads g) t = Some th ->
  th_safe (g_last g) (g_tracked g) (w0 g) th' ->
  InvS (upd g (g_done g) (g_last g) (g_wins g) (g_cur g) M WT (g_ghost g) WR t th').
Proof.
  intros HI Et Hown. apply InvS_upd with (th := th); auto; try apply HI.
Qed.

Definition quiet (p : pc) : Prop :=
  match p with
  | SLCas _ | TAWin _ | TASlot _ _ | TACas _ | ADAdd _ | EWUnlock ForAdd _ | EWFinal _ => False
  | _ => True
  end.

Lemma quiet_safe L T w ops p : quiet p -> th_safe L T w {| th_ops := ops; th_pc := p |}.
Proof. unfold th_safe, quiet. cbn. destruct p as [| | | | | |[|n] k| | | | | | | | | | | | | | | | |]; tauto. Qed.

Lemma quiet_next ops : quiet (snd (next_op_pc ops)).
Proof. destruct ops as [|o [|o' r]]; try exact I. cbn. destruct (no_start o'); exact I. Qed.
Lemma quiet_after_add ops o : quiet (snd (after_add true ops o)).
Proof. unfold after_add. destruct (is_begin o && true); [exact I|apply quiet_next]. Qed.
Lemma quiet_add_start ops o : quiet (snd (add_start true ops o)).
Proof. unfold add_start. destruct (op_index o =? 0); [apply quiet_after_add|exact I]. Qed.
Lemma quiet_after_sl ops o : quiet (snd (after_sl true ops o)).
Proof. apply quiet_next. Qed.

Lemma Good_back g t g' : tstep true g t = Some g' -> Good g' -> Good g.
Proof.
  unfold tstep. destruct (nth_error (g_threads g) t) as [th|]; [|discriminate].
  destruct (th_ops th) as [|o r]; [discriminate|]. intros H.
  destruct (th_pc th); unfold thread_step in H; cbv zeta in H; head_cases H;
    inversion H; subst; unfold Good, to, goto, upd; cbn [g_wins g_ghost gh_stray];
    rewrite ?app_length, ?set_nth_length; cbn [length]; intros [H1 H2]; split; try lia; try assumption; try discriminate.
  all: repeat match type of H2 with
              | context [match ?x with _ => _ end] => destruct x
              end; cbn in H2; try assumption; try discriminate.
  all: match type of H1 with context [if ?x then _ else _] => destruct x end;
    rewrite ?set_nth_length in H1; exact H1.
Qed.

Ltac quiet_tac :=
  apply quiet_safe; cbv iota;
  first [ exact I | apply quiet_next | apply quiet_after_add | apply quiet_add_start | apply quiet_after_sl
        | repeat match goal with |- context [match ?x with _ => _ end] => destruct x end; exact I ].

Ltac generic HI Et Hs thr :=
  head_cases Hs; injection Hs as <-; unfold to, goto;
  (apply (InvS_goto _ _ thr); [exact HI | exact Et | quiet_tac]).

Lemma w0_cur g : InvS g -> win_at g (g_cur g) = w0 g.
Proof. intros HI. unfold w0. now rewrite (is_cur g HI). Qed.

Lemma nth0_set_nth {A} (l : list A) x d : length l = 1%nat -> nth 0 (set_nth 0 x l) d = x.
Proof. destruct l as [|y [|z l]]; cbn; intros H; try discriminate; reflexivity. Qed.

Lemma slot_add w i d j :
  in_range i w = true -> in_range j w = true ->
  slot (fst w, add_nth (N.to_nat (i - fst w)) d (snd w)) j = (slot w j + (if (j =? i)%N then d else 0))%Z.
Proof.
  unfold in_range, slot. cbn [fst snd]. intros Hi Hj.
  apply andb_true_iff in Hi as [Hi1 Hi2]. apply andb_true_iff in Hj as [Hj1 Hj2]. norm.
  destruct (j =? i) eqn:E.
  - apply N.eqb_eq in E. subst. apply nth_add_nth_eq. lia.
  - apply N.eqb_neq in E. rewrite nth_add_nth_neq by lia. lia.
Qed.

Lemma InvS_step g t g' : InvS g -> tstep true g t = Some g' -> Good g' -> InvS g'.
Proof.
  intros HI Hs HG. unfold tstep in Hs.
  destruct (nth_error (g_threads g) t) as [th|] eqn:Et; [|discriminate].
  destruct (th_ops th) as [|o r] eqn:Eo; [discriminate|].
  pose proof (is_th g HI t th Et) as Hth. unfold th_safe in Hth. rewrite Eo in Hth.
  pose proof (w0_cur g HI) as Hcur. pose proof (is_cur g HI) as Hc0. pose proof (is_le g HI) as Hle.
  destruct (th_pc th) as [| |cur|wh|wh|wh|wh k|wh old|wh old nb k acc|wh nb sl|wh|k| |du|du|du k|du|u|u| | | | |] eqn:Epc;
    unfold thread_step in Hs; cbv zeta in Hs.
  - (* PStart *) destruct o. all: generic HI Et Hs th.
  - (* SLLoad *)
    head_cases Hs; injection Hs as <-; unfold to, goto.
    + apply (InvS_goto _ _ th); [exact HI|exact Et|quiet_tac].
    + norm. apply (InvS_goto _ _ th); [exact HI|exact Et|]. unfold th_safe. cbn. lia.
  - (* SLCas *)
    head_cases Hs; injection Hs as <-; unfold to, goto.
    + norm. apply InvS_upd with (th := th); [exact HI|exact Et|apply HI|exact Hc0| | | | | ].
      * lia.
      * apply (is_safe g HI).
      * apply (is_slot g HI).
      * intros u thu _ _. apply th_safe_mono; auto. lia.
      * quiet_tac.
    + apply (InvS_goto _ _ th); [exact HI|exact Et|quiet_tac].
  - (* EWLoad *)
    destruct wh; head_cases Hs; injection Hs as <-; unfold to, goto;
      (apply (InvS_goto _ _ th); [exact HI|exact Et|]); try quiet_tac.
    unfold th_safe. cbn. rewrite <- Hcur. auto.
  - (* EWLock *) generic HI Et Hs th.
  - (* EWReload *)
    destruct wh; head_cases Hs; injection Hs as <-; unfold to, goto;
      (apply (InvS_goto _ _ th); [exact HI|exact Et|]); try quiet_tac.
    unfold th_safe. cbn. rewrite <- Hcur. auto.
  - (* EWUnlock *)
    destruct wh; injection Hs as <-; (apply (InvS_goto _ _ th); [exact HI|exact Et|]); try quiet_tac.
    unfold th_safe. cbn. exact Hth.
  - (* RBDone *) head_cases Hs; injection Hs as <-; unfold to, goto;
      (apply (InvS_goto _ _ th); [exact HI|exact Et|]); apply quiet_safe;
      match goal with |- quiet (match ?x with _ => _ end) => destruct x end; exact I.
  - (* RBCopy *) head_cases Hs; injection Hs as <-; unfold to, goto;
      (apply (InvS_goto _ _ th); [exact HI|exact Et|]); apply quiet_safe;
      match goal with |- quiet (match ?x with _ => _ end) => destruct x end; exact I.
  - (* RBStore *)
    injection Hs as <-. destruct HG as [HG _]. unfold upd in HG. cbn [g_wins] in HG.
    rewrite app_length, (is_len g HI) in HG. cbn in HG. lia.
  - (* EWFinal *) destruct Hth.
  - (* ADAdd *)
    destruct Hth as [-> Hr].
    assert (Hw : g_wins g = [w0 g]).
    { pose proof (is_len g HI) as Hl. unfold w0, win_at.
      destruct (g_wins g) as [|x [|y l]]; cbn in Hl |- *; try discriminate; reflexivity. }
    change (win_at g 0) with (w0 g) in Hs. rewrite Hr in Hs.
    set (w1 := (fst (w0 g), add_nth (N.to_nat (op_index o - fst (w0 g))) (op_delta o) (snd (w0 g)))) in *.
    replace (set_nth 0 w1 (g_wins g)) with [w1] in Hs by (rewrite Hw; reflexivity).
    injection Hs as <-.
    assert (Hshape : forall (thu : thread) T',
              (forall j, j <= g_last g -> cnt j (g_tracked g) = 0%nat -> cnt j T' = 0%nat) ->
              th_safe (g_last g) (g_tracked g) (w0 g) thu -> th_safe (g_last g) T' w1 thu).
    { intros thu T' HT. apply th_safe_mono; auto; [lia|]. unfold w1. cbn [snd]. apply add_nth_length. }
    assert (Hslot : forall j, in_range j w1 = true ->
              in_range j (w0 g) = true /\
              slot w1 j = (slot (w0 g) j + (if (j =? op_index o)%N then op_delta o else 0))%Z).
    { intros j Hj.
      assert (Hj' : in_range j (w0 g) = true).
      { rewrite <- Hj. symmetry. apply in_range_shape; [reflexivity|]. unfold w1. cbn [snd]. apply add_nth_length. }
      split; [exact Hj'|]. now apply slot_add. }
    unfold op_delta in *. set (i := op_index o) in *. destruct (op_kind o).
    + (* Begin *)
      destruct (g_last g <? i) eqn:El; norm.
      * apply InvS_upd with (th := th); [exact HI|exact Et|reflexivity|exact Hc0|exact Hle| | | | ]; cbn [gh_tracked gh_untimely nth].
        -- intros j u [Heq|Hin]; [inversion Heq; subst; lia|now apply (is_safe g HI j u)].
        -- intros j Hj. destruct (Hslot j Hj) as [Hj' ->]. rewrite (is_slot g HI j Hj').
           fold (g_tracked g). rewrite cnt_cons. rewrite (N.eqb_sym i j). destruct (j =? i); lia.
        -- intros u thu _ _. apply Hshape. intros j Hj H0. fold (g_tracked g). rewrite cnt_cons.
           destruct (i =? j) eqn:E; [norm; lia|exact H0].
        -- quiet_tac.
      * apply InvS_upd with (th := th); [exact HI|exact Et|reflexivity|exact Hc0|exact Hle| | | | ]; cbn [gh_tracked gh_untimely nth].
        -- apply (is_safe g HI).
        -- intros j Hj. destruct (Hslot j Hj) as [Hj' ->]. rewrite (is_slot g HI j Hj'). unfold g_tracked.
           rewrite cnt_cons. rewrite (N.eqb_sym i j). destruct (j =? i); lia.
        -- intros u thu _ _. apply Hshape. auto.
        -- quiet_tac.
    + (* Done *)
      destruct (has_waiter i t (gh_tracked (g_ghost g))) eqn:E1; [|destruct (has_waiter i t (gh_untimely (g_ghost g))) eqn:E2].
      * apply InvS_upd with (th := th); [exact HI|exact Et|reflexivity|exact Hc0|exact Hle| | | | ]; cbn [gh_tracked gh_untimely nth].
        -- intros j u Hin. apply In_remove_pair in Hin. now apply (is_safe g HI j u).
        -- intros j Hj. destruct (Hslot j Hj) as [Hj' ->]. rewrite (is_slot g HI j Hj'). unfold g_tracked.
           destruct (j =? i) eqn:E.
           ++ norm. subst j. pose proof (cnt_remove_same i t _ E1). lia.
           ++ norm. rewrite cnt_remove_other by congruence. lia.
        -- intros u thu _ _. apply Hshape. intros j Hj H0. unfold g_tracked in *.
           pose proof (cnt_remove_le i j t (gh_tracked (g_ghost g))). lia.
        -- quiet_tac.
      * apply InvS_upd with (th := th); [exact HI|exact Et|reflexivity|exact Hc0|exact Hle| | | | ]; cbn [gh_tracked gh_untimely nth].
        -- apply (is_safe g HI).
        -- intros j Hj. destruct (Hslot j Hj) as [Hj' ->]. rewrite (is_slot g HI j Hj'). unfold g_tracked.
           destruct (j =? i) eqn:E.
           ++ norm. subst j. pose proof (cnt_remove_same i t _ E2). lia.
           ++ norm. rewrite cnt_remove_other by congruence. lia.
        -- intros u thu _ _. apply Hshape. auto.
        -- quiet_tac.
      * destruct HG as [_ HG]. unfold upd in HG. cbn in HG. discriminate.
    + (* Wait: adds 0 *)
      apply InvS_upd with (th := th); [exact HI|exact Et|reflexivity|exact Hc0|exact Hle| | | | ]; cbn [nth].
      * apply (is_safe g HI).
      * intros j Hj. destruct (Hslot j Hj) as [Hj' ->]. rewrite (is_slot g HI j Hj'). unfold g_tracked.
        destruct (j =? i); lia.
      * intros u thu _ _. apply Hshape. auto.
      * quiet_tac.
  - (* TADone *) generic HI Et Hs th.
  - (* TALast *)
    head_cases Hs; injection Hs as <-; unfold to, goto;
      (apply (InvS_goto _ _ th); [exact HI|exact Et|]); try quiet_tac.
    norm. unfold th_safe. cbn. lia.
  - (* TAWin *)
    head_cases Hs; injection Hs as <-; unfold to, goto;
      (apply (InvS_goto _ _ th); [exact HI|exact Et|]); try quiet_tac.
    unfold th_safe. cbn. rewrite <- Hcur. auto.
  - (* TASlot *)
    destruct Hth as (Hlt & -> & Hr).
    head_cases Hs; injection Hs as <-; unfold to, goto;
      (apply (InvS_goto _ _ th); [exact HI|exact Et|]); try quiet_tac.
    unfold th_safe. cbn. split; [exact Hlt|].
    pose proof (is_slot g HI (du + 1) Hr) as Hs1. unfold slot, w0 in Hs1.
    match goal with H : (0 <? _)%Z = false |- _ => apply Z.ltb_ge in H; rewrite Hs1 in H end. lia.
  - (* TACas *)
    destruct Hth as (Hlt & Hz).
    head_cases Hs; injection Hs as <-; unfold to, goto.
    + norm. apply InvS_upd with (th := th); [exact HI|exact Et|apply HI|exact Hc0| | | | | ].
      * lia.
      * intros i u Hin. pose proof (is_safe g HI i u Hin). pose proof (cnt_zero_notin (du + 1) u _ Hz).
        assert (i <> du + 1) by (intros ->; tauto). lia.
      * apply (is_slot g HI).
      * intros u thu _ _ H. exact H.
      * quiet_tac.
    + apply (InvS_goto _ _ th); [exact HI|exact Et|quiet_tac].
  - (* NTLock *) generic HI Et Hs th.
  - (* NTClose *) generic HI Et Hs th.
  - (* WFast *) generic HI Et Hs th.
  - (* WLock *) generic HI Et Hs th.
  - (* WCheck *) generic HI Et Hs th.
  - (* WSelect *) generic HI Et Hs th.
  - discriminate.
Qed.

Lemma nth_repeat0 k n : nth k (repeat 0%Z n) 0%Z = 0%Z.
Proof. revert k; induction n as [|n IH]; intros [|k]; cbn; auto. Qed.

Lemma InvS_init size progs : InvS (init size progs).
Proof.
  constructor; cbn; auto.
  - lia.
  - intros i t [].
  - intros i _. unfold slot, w0, win_at. cbn. apply nth_repeat0.
  - intros t th Hn. rewrite nth_error_map in Hn. destruct (nth_error progs t) as [p|]; [|discriminate].
    inversion Hn; subst. unfold th_safe. cbn. destruct p; exact I.
Qed.

Theorem watermark_safe_no_rebuild size progs g :
  reachable (tstep true) (init size progs) g -> Good g ->
  forall i t, In (i, t) (g_tracked g) -> g_done g < i.
Proof.
  intros Hr HG. apply is_safe. revert HG.
  apply (inv_reachable (tstep true) (fun g => Good g -> InvS g) (init size progs)); [| |exact Hr].
  - intros _. apply InvS_init.
  - intros g0 t g1 IH Hs HG1. apply (InvS_step g0 t g1); [apply IH; eapply Good_back; eauto|exact Hs|exact HG1].
Qed.

Example watermark_safe_no_rebuild_nonvacuous :
  let g := run (tstep true) (init 4 f6_progs) ([0; 0; 0; 0; 0; 0; 0; 0] ++ repeat 1 14)%nat in
  Good g /\ g_tracked g = [(1, 0%nat)] /\ g_done g = 0 /\ g_last g = 2.
Proof. vm_compute. repeat split; try reflexivity; lia. Qed.

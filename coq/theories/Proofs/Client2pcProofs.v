(** Proofs for C28 (client two-phase commit). *)
From Coq Require Import List NArith Bool Lia ZifyN ZifyNat ZifyBool Sorted Relations.
From NoKV Require Import Base.Bytes Model.Percolator Model.KvApply Model.Client2pc
  Spec.PercoSpec Spec.Client2pcSpec Proofs.PercoProofs Proofs.PercoInvProofs.
Import ListNotations.
Local Open Scope N_scope.

(** * F24: the code before the repair commits a non-primary key before the primary *)
Definition wit_f24_txn : txn :=
  {| t_regions := [(B1 97, 1); (B1 98, 1)];
     t_muts := [{| m_op := OpPut; m_key := B1 97; m_val := B1 1 |}; {| m_op := OpPut; m_key := B1 98; m_val := B1 2 |}];
     t_primary := B1 98; t_start := 10; t_commit := 20; t_ttl := 100; t_ord1 := []; t_ord2 := [] |}.
Definition wit_f24_x : tx := {| x_start := 10; x_commit := 20; x_primary := B1 98; x_keys := [B1 97; B1 98] |}.

(** prewrite; a reader at ts 25 pushes the primary's MinCommitTs to 26; the
    client's commit request; later the lock expires and a reader resolves *)
Definition wit_f24_history (c : ccfg) : list request :=
  match map snd (tpc_plan c wit_f24_txn) with
  | [pw; cm] =>
      [pw; resolver_check wit_f24_txn 25; cm; resolver_check wit_f24_txn 2110] ++
      resolver_resolves wit_f24_txn 0 [[B1 97; B1 98]]
  | _ => []
  end.

Lemma f24_refuted_legacy :
  forallb req_ok (wit_f24_history clegacy) = true /\
  resolved wit_f24_x (lrun (wit_f24_history clegacy)) = true /\
  atomic_b wit_f24_x (lrun (wit_f24_history clegacy)) = false /\
  commit_visible wit_f24_x (lrun (wit_f24_history clegacy)) (B1 97) = true /\
  no_commit wit_f24_x (lrun (wit_f24_history clegacy)) (B1 98) = true /\
  atomic_b wit_f24_x (lrun (wit_f24_history ccurrent)) = true.
Proof. vm_compute. repeat split. Qed.

(** * Effects of a request on one key, relative to a transaction [s] committing at [c] *)
Section Effects.
  Variables s c : N.

  (** every commit record of [s] on the key is at version [c] *)
  Definition P5 (ks : kstate) : Prop :=
    forall rc, In rc (ks_recs ks) -> lr_start rc = s -> lr_kind rc <> OpRollback -> lr_ts rc = c.

  Lemma ktrans_origin lab y z rc :
    ktrans lab y z -> ks_inv2 y -> In rc (ks_recs z) ->
    In rc (ks_recs y) \/
    (lr_kind rc <> OpRollback /\ lab = KCommit (lr_start rc) (lr_ts rc)) \/
    (lr_kind rc = OpRollback /\ lab = KRollback (lr_start rc)).
  Proof.
    intros T HJ Hin.
    destruct T as [ks primary start ttl mc m ks' Hp | ks k l cv ks' Hl Hle Hc | ks start | ks l mc Hl | ks l rf Hl Hff Hkf].
    - apply prewrite_key_success in Hp as (_ & _ & _ & Hrecs & _). left. now rewrite <- Hrecs.
    - unfold l_commit_key in Hc. destruct (cv <? l_min_commit (ll_rec l)); [discriminate|].
      destruct (find_start (ks_recs ks) (l_ts (ll_rec l))) as [r0|].
      + destruct (op_eqb (lr_kind r0) OpRollback); [discriminate|].
        inversion Hc; subst ks'; now left.
      + inversion Hc; subst ks'. cbn [ks_recs] in Hin. apply In_add_rec in Hin as [->|Hin]; [|now left].
        right. left. cbn. split; [apply (J_lock_kind _ HJ l Hl) | reflexivity].
    - unfold l_rollback_key in Hin. destruct (find_start (ks_recs ks) start); [now left|].
      cbn [ks_recs] in Hin. apply In_add_rec in Hin as [->|Hin]; [|now left].
      right. right. cbn. auto.
    - now left.
      - now left.
Qed.

  Lemma kreach_eff r y z :
    kreach r y z -> ks_inv2 y -> P5 y ->
    (forall cv, label_ok r (KCommit s cv) -> cv = c) ->
    req_keeps c s r -> req_keeps s s r ->
    P5 z /\
    (forall rc, In rc (ks_recs y) -> lr_start rc = s -> In rc (ks_recs z)) /\
    (forall rc, In rc (ks_recs z) -> lr_start rc = s ->
       In rc (ks_recs y) \/
       (lr_kind rc <> OpRollback /\ label_ok r (KCommit s (lr_ts rc))) \/
       (lr_kind rc = OpRollback /\ label_ok r (KRollback s))) /\
    (locked_by y s = true -> locked_by z s = true \/ exists rc, In rc (ks_recs z) /\ lr_start rc = s).
  Proof.
    intros H. induction H as [y z [lab [Hl T]] | y | y m z H1 IH1 H2 IH2]; intros HJ H5 Hlab Hk1 Hk2.
    - assert (Hor : forall rc, In rc (ks_recs z) -> lr_start rc = s ->
                In rc (ks_recs y) \/
                (lr_kind rc <> OpRollback /\ label_ok r (KCommit s (lr_ts rc))) \/
                (lr_kind rc = OpRollback /\ label_ok r (KRollback s))).
      { intros rc Hin Hs. destruct (ktrans_origin lab y z rc T HJ Hin) as [H|[[Hk ->]|[Hk ->]]];
          [now left | right; left; rewrite <- Hs; auto | right; right; rewrite <- Hs; auto]. }
      split; [|split; [|split; [exact Hor|]]].
      + intros rc Hin Hs Hk. destruct (Hor rc Hin Hs) as [H|[[_ H]|[H _]]];
          [now apply H5 | now apply Hlab | contradiction].
      + intros rc Hin Hs. eapply rec_persist; eauto.
        * intros s' cv -> E. apply label_commit in Hl. rewrite Hs.
          destruct (op_eqb (lr_kind rc) OpRollback) eqn:Hk.
          -- assert (Hk' : lr_kind rc = OpRollback) by (destruct (lr_kind rc); try discriminate; reflexivity).
             rewrite (J_rb _ HJ rc Hin Hk'), Hs in E. subst cv. now apply (proj1 Hk2).
          -- assert (Hk' : lr_kind rc <> OpRollback) by (intro E'; rewrite E' in Hk; discriminate).
             rewrite (H5 rc Hin Hs Hk') in E. subst cv. now apply (proj1 Hk1).
        * intros s' ->. apply label_rollback in Hl. rewrite Hs.
          destruct (op_eqb (lr_kind rc) OpRollback) eqn:Hk.
          -- assert (Hk' : lr_kind rc = OpRollback) by (destruct (lr_kind rc); try discriminate; reflexivity).
             rewrite (J_rb _ HJ rc Hin Hk'), Hs. now apply (proj2 Hk2).
          -- assert (Hk' : lr_kind rc <> OpRollback) by (intro E'; rewrite E' in Hk; discriminate).
             rewrite (H5 rc Hin Hs Hk'). now apply (proj2 Hk1).
      + unfold locked_by. intro HL. destruct (ks_lock y) as [l|] eqn:Hly; [|discriminate].
        destruct (lock_until_finished lab y z l T Hly) as [(l' & Hl' & Hts)|(Hn & rc & Hin & Hs & _)].
        * left. rewrite Hl'. lia.
        * right. exists rc. split; [exact Hin | lia].
    - split; [exact H5|]. split; [auto|]. split; [intros; now left | intros; now left].
    - destruct (IH1 HJ H5 Hlab Hk1 Hk2) as (A5 & Ap & Ao & Al).
      pose proof (kreach_inv2 _ _ _ H1 HJ) as HJm.
      destruct (IH2 HJm A5 Hlab Hk1 Hk2) as (B5 & Bp & Bo & Bl).
      split; [exact B5|]. split; [|split].
      + intros rc Hin Hs. apply Bp; [now apply Ap | exact Hs].
      + intros rc Hin Hs. destruct (Bo rc Hin Hs) as [H|H]; [now apply Ao | now right].
      + intro HL. destruct (Al HL) as [H|(rc & Hin & Hs)]; [now apply Bl|].
        right. exists rc. split; [now apply Bp | exact Hs].
  Qed.
End Effects.

(** * The atomicity invariant *)
Section Atomicity.
  Variable x : tx.
  Hypothesis Hx : tx_ok x = true.

  Definition CM (ks : kstate) : Prop :=
    exists r, In r (ks_recs ks) /\ lr_start r = x_start x /\ lr_kind r <> OpRollback.
  Definition CMc (ks : kstate) : Prop :=
    exists r, In r (ks_recs ks) /\ lr_start r = x_start x /\ lr_ts r = x_commit x /\ lr_kind r <> OpRollback.
  Definition RB (ks : kstate) : Prop := rolled_back ks (x_start x).

  Record INV (a : lstate) (g : list bytes) : Prop := {
    V_inv2 : Inv2 a;
    V_sec_commit : forall k, In k (x_keys x) -> k <> x_primary x -> CM (ls_at a k) -> CMc (ls_at a (x_primary x));
    V_sec_rollback : forall k, In k (x_keys x) -> k <> x_primary x -> RB (ls_at a k) -> RB (ls_at a (x_primary x));
    V_prewritten : CMc (ls_at a (x_primary x)) -> forall k, In k (x_keys x) -> In k g;
    V_ghost : forall k, In k g ->
                locked_by (ls_at a k) (x_start x) = true \/ CM (ls_at a k) \/ RB (ls_at a k);
    V_ts : forall k, P5 (x_start x) (x_commit x) (ls_at a k) }.

  Lemma start_lt_commit : x_start x < x_commit x.
  Proof. unfold tx_ok in Hx. apply andb_true_iff in Hx as [H _]. apply andb_true_iff in H as [H _]. lia. Qed.

  Lemma CMc_CM ks : CMc ks -> CM ks.
  Proof. intros (r & H1 & H2 & _ & H4). exists r. auto. Qed.
  Lemma CM_CMc ks : P5 (x_start x) (x_commit x) ks -> CM ks -> CMc ks.
  Proof. intros H5 (r & H1 & H2 & H3). exists r. repeat split; auto. Qed.

  Lemma rec_CM_or_RB ks rc : In rc (ks_recs ks) -> lr_start rc = x_start x -> CM ks \/ RB ks.
  Proof.
    intros Hin Hs. destruct (op_eqb (lr_kind rc) OpRollback) eqn:Hk.
    - right. exists rc. split; [exact Hin|]. split; [exact Hs|]. destruct (lr_kind rc); try discriminate; reflexivity.
    - left. exists rc. split; [exact Hin|]. split; [exact Hs|]. intro E. rewrite E in Hk. discriminate.
  Qed.

  (** ** the generic step *)
  Lemma INV_step_gen a g r :
    INV a g -> req_ok r = true ->
    req_keeps (x_commit x) (x_start x) r -> req_keeps (x_start x) (x_start x) r ->
    (forall cv, label_ok r (KCommit (x_start x) cv) ->
       cv = x_commit x /\ (CMc (ls_at a (x_primary x)) \/ forall k, In k (x_keys x) -> In k g)) ->
    ((exists cv, label_ok r (KCommit (x_start x) cv)) ->
       CMc (ls_at a (x_primary x)) \/ forall k, k <> x_primary x -> ls_at (fst (lstep a r)) k = ls_at a k) ->
    (label_ok r (KRollback (x_start x)) ->
       RB (ls_at a (x_primary x)) \/ forall k, k <> x_primary x -> ls_at (fst (lstep a r)) k = ls_at a k) ->
    INV (fst (lstep a r)) g.
  Proof.
    intros HV Hok Hk1 Hk2 HA3 Hsc HA2.
    set (a' := fst (lstep a r)).
    assert (Heff : forall k,
      P5 (x_start x) (x_commit x) (ls_at a' k) /\
      (forall rc, In rc (ks_recs (ls_at a k)) -> lr_start rc = x_start x -> In rc (ks_recs (ls_at a' k))) /\
      (forall rc, In rc (ks_recs (ls_at a' k)) -> lr_start rc = x_start x ->
         In rc (ks_recs (ls_at a k)) \/
         (lr_kind rc <> OpRollback /\ label_ok r (KCommit (x_start x) (lr_ts rc))) \/
         (lr_kind rc = OpRollback /\ label_ok r (KRollback (x_start x)))) /\
      (locked_by (ls_at a k) (x_start x) = true ->
         locked_by (ls_at a' k) (x_start x) = true \/ exists rc, In rc (ks_recs (ls_at a' k)) /\ lr_start rc = x_start x)).
    { intro k. apply (kreach_eff (x_start x) (x_commit x) r);
        [apply (lstep_reach a r Hok k) | apply (V_inv2 _ _ HV) | apply (V_ts _ _ HV) | | exact Hk1 | exact Hk2].
      intros cv H. now apply HA3. }
    assert (HpCM : forall k, CM (ls_at a k) -> CM (ls_at a' k)).
    { intros k (rc & H1 & H2 & H3). exists rc. split; [now apply (proj1 (proj2 (Heff k)))|auto]. }
    assert (HpCMc : forall k, CMc (ls_at a k) -> CMc (ls_at a' k)).
    { intros k (rc & H1 & H2 & H3). exists rc. split; [now apply (proj1 (proj2 (Heff k)))|auto]. }
    assert (HpRB : forall k, RB (ls_at a k) -> RB (ls_at a' k)).
    { intros k (rc & H1 & H2 & H3). exists rc. split; [now apply (proj1 (proj2 (Heff k)))|auto]. }
    constructor.
    - now apply lstep_inv2, (V_inv2 _ _ HV).
    - intros k Hk Hne (rc & Hin & Hs & Hkind).
      destruct (proj1 (proj2 (proj2 (Heff k))) rc Hin Hs) as [Hold|[[_ Hlab]|[E _]]]; [| |contradiction].
      + apply HpCMc. apply (V_sec_commit _ _ HV k Hk Hne). exists rc. auto.
      + destruct (Hsc (ex_intro (fun cv => label_ok r (KCommit (x_start x) cv)) _ Hlab)) as [H|H]; [now apply HpCMc|].
        apply HpCMc. apply (V_sec_commit _ _ HV k Hk Hne). exists rc. fold a' in H. rewrite <- (H k Hne). auto.
    - intros k Hk Hne (rc & Hin & Hs & Hkind).
      destruct (proj1 (proj2 (proj2 (Heff k))) rc Hin Hs) as [Hold|[[E _]|[_ Hlab]]]; [|contradiction|].
      + apply HpRB. apply (V_sec_rollback _ _ HV k Hk Hne). exists rc. auto.
      + destruct (HA2 Hlab) as [H|H]; [now apply HpRB|].
        apply HpRB. apply (V_sec_rollback _ _ HV k Hk Hne). exists rc. fold a' in H. rewrite <- (H k Hne). auto.
    - intros (rc & Hin & Hs & Hc & Hkind).
      destruct (proj1 (proj2 (proj2 (Heff (x_primary x)))) rc Hin Hs) as [Hold|[[_ Hlab]|[E _]]]; [| |contradiction].
      + apply (V_prewritten _ _ HV). exists rc. auto.
      + destruct (HA3 _ Hlab) as [_ [H|H]]; [now apply (V_prewritten _ _ HV) | exact H].
    - intros k Hk. destruct (V_ghost _ _ HV k Hk) as [HL|[H|H]].
      + destruct (proj2 (proj2 (proj2 (Heff k))) HL) as [H|(rc & Hin & Hs)]; [now left|].
        right. now apply (rec_CM_or_RB _ rc).
      + right. left. now apply HpCM.
      + right. right. now apply HpRB.
    - intro k. apply (proj1 (Heff k)).
  Qed.

  Lemma INV_g_mono a g : INV a g -> INV a (g ++ locked_keys x a).
  Proof.
    intros HV. constructor; try apply HV.
    - intros H k Hk. apply in_or_app. left. now apply (V_prewritten _ _ HV).
    - intros k Hk. apply in_app_or in Hk as [Hk|Hk]; [now apply (V_ghost _ _ HV)|].
      unfold locked_keys in Hk. apply filter_In in Hk as [_ Hk]. now left.
  Qed.

  (** ** from the discipline to the hypotheses of the generic step *)
  Lemma has_commit_CMc ks : has_commit ks (x_start x) (x_commit x) = true <-> CMc ks.
  Proof.
    unfold has_commit, CMc, is_commit_of. rewrite existsb_exists. split.
    - intros (r & Hin & H). exists r. apply andb_true_iff in H as [H H3]. apply andb_true_iff in H as [H1 H2].
      repeat split; [exact Hin | lia | lia |]. intro E. rewrite E in H3. discriminate.
    - intros (r & Hin & H1 & H2 & H3). exists r. split; [exact Hin|].
      destruct (lr_kind r) eqn:E; try contradiction; cbn; lia.
  Qed.
  Lemma has_rollback_RB ks : has_rollback ks (x_start x) = true <-> RB ks.
  Proof.
    unfold has_rollback, RB, rolled_back, is_rollback_of. rewrite existsb_exists. split.
    - intros (r & Hin & H). exists r. apply andb_true_iff in H as [H1 H2].
      repeat split; [exact Hin | lia |]. destruct (lr_kind r); try discriminate; reflexivity.
    - intros (r & Hin & H1 & H2). exists r. split; [exact Hin|]. rewrite H2. cbn. lia.
  Qed.
  Lemma mem_key_In k ks : mem_key k ks = true <-> In k ks.
  Proof.
    unfold mem_key. rewrite existsb_exists. split.
    - intros (k' & Hin & E). apply bytes_eqb_eq in E. now subst.
    - intro Hin. exists k. split; [exact Hin | apply bytes_eqb_refl].
  Qed.
  Lemma subset_keys_In ks ks' : subset_keys ks ks' = true -> forall k, In k ks -> In k ks'.
  Proof.
    unfold subset_keys. rewrite forallb_forall. intros H k Hk. apply mem_key_In. now apply H.
  Qed.

  Lemma allowed_keeps a g r :
    allowed x a g r = true ->
    req_keeps (x_commit x) (x_start x) r /\ req_keeps (x_start x) (x_start x) r.
  Proof.
    pose proof start_lt_commit as Hlt. intro H. unfold req_keeps.
    destruct r; cbn [allowed commits_of starts_of] in *.
    - destruct (start =? x_start x) eqn:E; repeat split; intros; try contradiction;
        destruct H0 as [<-|[]]; lia.
    - destruct (start =? x_start x) eqn:E.
      + repeat split; intros s' [H0|[]]; inversion H0; subst; lia.
      + repeat split; intros s' [H0|[]]; try (inversion H0; subst); lia.
    - destruct (start =? x_start x) eqn:E; repeat split; intros; try contradiction;
        destruct H0 as [<-|[]]; lia.
    - destruct (start =? x_start x) eqn:E; destruct (commit_version =? 0) eqn:E0;
        repeat split; intros s' H0; try contradiction; destruct H0 as [H0|[]];
        try (inversion H0; subst); lia.
    - destruct (lock_ts =? x_start x) eqn:E; repeat split; intros; try contradiction;
        destruct H0 as [<-|[]]; lia.
    - repeat split; intros; contradiction.
    - repeat split; intros; contradiction.
  Qed.

  Lemma l_check_only a primary lts cur caller rb k :
    k <> primary -> ls_at (fst (l_check a primary lts cur caller rb)) k = ls_at a k.
  Proof.
    intro Hne. unfold l_check.
    assert (E : forall ks', ls_at (lupd a primary ks') k = ls_at a k).
    { intro ks'. rewrite ls_at_lupd. apply bytes_eqb_neq in Hne. now rewrite Hne. }
    destruct (ks_lock (ls_at a primary)) as [l|].
    - destruct (negb (l_ts (ll_rec l) =? lts)); [reflexivity|].
      destruct (match find_start (ks_recs (ls_at a primary)) lts with
                | Some r => if op_eqb (lr_kind r) OpRollback then None else Some r
                | None => None
                end); [apply E|].
      destruct (lock_expired (ll_rec l) cur); [apply E|].
      destruct ((0 <? caller) && (l_min_commit (ll_rec l) <? wrap64 (caller + 1))); [apply E | reflexivity].
    - destruct (find_start (ks_recs (ls_at a primary)) lts) as [r|].
      + destruct (op_eqb (lr_kind r) OpRollback); reflexivity.
      + destruct rb; [apply E | reflexivity].
  Qed.

  Definition is_commit_of_x (r : request) : bool :=
    match r with RCommit _ s' _ => s' =? x_start x | _ => false end.

  Lemma INV_step_other a g r :
    INV a g -> req_ok r = true -> allowed x a g r = true -> is_commit_of_x r = false ->
    INV (fst (lstep a r)) g.
  Proof.
    intros HV Hok Hal Hnc. destruct (allowed_keeps a g r Hal) as [Hk1 Hk2].
    apply INV_step_gen; auto.
    - intros cv Hlab. destruct r; cbn [label_ok is_commit_of_x allowed] in *; try contradiction.
      + destruct Hlab as [E _]. lia.
      + destruct Hlab as (E1 & E2 & E3). subst. rewrite N.eqb_refl in Hal.
        destruct (commit_version =? 0) eqn:E0; [lia|].
        apply andb_true_iff in Hal as [_ Hal]. apply andb_true_iff in Hal as [Hc Hp].
        split; [lia|]. left. now apply has_commit_CMc.
    - intros [cv Hlab]. destruct r; cbn [label_ok is_commit_of_x allowed] in *; try contradiction.
      + destruct Hlab as [E _]. lia.
      + destruct Hlab as (E1 & E2 & E3). subst. rewrite N.eqb_refl in Hal.
        destruct (commit_version =? 0) eqn:E0; [lia|].
        apply andb_true_iff in Hal as [_ Hal]. apply andb_true_iff in Hal as [Hc Hp].
        left. now apply has_commit_CMc.
    - intro Hlab. destruct r; cbn [label_ok allowed] in *; try contradiction.
      + subst. rewrite N.eqb_refl in Hal. left. now apply has_rollback_RB.
      + destruct Hlab as [E1 E2]. subst. rewrite N.eqb_refl in Hal. cbn in Hal.
        apply andb_true_iff in Hal as [_ Hal]. left. now apply has_rollback_RB.
      + subst. rewrite N.eqb_refl in Hal. apply bytes_eqb_eq in Hal. subst primary.
        right. intros k Hne. cbn [lstep]. 
        pose proof (l_check_only a (x_primary x) (x_start x) current_ts caller_start rollback_if_not_exist k Hne) as E.
        destruct (l_check a (x_primary x) (x_start x) current_ts caller_start rollback_if_not_exist). exact E.
  Qed.

  (** ** Commit of [x]: key by key *)
  Lemma l_commit_cons a k0 rest s c :
    l_commit a (k0 :: rest) s c =
    match l_commit a [k0] s c with
    | (a1, None) => l_commit a1 rest s c
    | (a1, Some e) => (a1, Some e)
    end.
  Proof.
    cbn [l_commit]. destruct (is_nil k0); [reflexivity|].
    destruct (ks_lock (ls_at a k0)) as [l|].
    - destruct (l_ts (ll_rec l) =? s); [|reflexivity].
      destruct (l_commit_key (ls_at a k0) k0 l c) as [ks1 [e|]]; reflexivity.
    - destruct (find_start (ks_recs (ls_at a k0)) s) as [r|]; [|reflexivity].
      destruct (op_eqb (lr_kind r) OpRollback); reflexivity.
  Qed.

  Lemma l_commit_single_only a k0 s c k :
    k <> k0 -> ls_at (fst (l_commit a [k0] s c)) k = ls_at a k.
  Proof.
    intro Hne. cbn [l_commit]. destruct (is_nil k0); [reflexivity|].
    destruct (ks_lock (ls_at a k0)) as [l|].
    - destruct (l_ts (ll_rec l) =? s); [|reflexivity].
      destruct (l_commit_key (ls_at a k0) k0 l c) as [ks1 [e|]]; [reflexivity|].
      cbn [fst]. rewrite ls_at_lupd. apply bytes_eqb_neq in Hne. now rewrite Hne.
    - destruct (find_start (ks_recs (ls_at a k0)) s) as [r|]; [|reflexivity].
      destruct (op_eqb (lr_kind r) OpRollback); reflexivity.
  Qed.

  Lemma commit_single_success a :
    Inv2 a -> (forall k, P5 (x_start x) (x_commit x) (ls_at a k)) ->
    is_nil (x_primary x) = false ->
    snd (l_commit a [x_primary x] (x_start x) (x_commit x)) = None ->
    CMc (ls_at (fst (l_commit a [x_primary x] (x_start x) (x_commit x))) (x_primary x)).
  Proof.
    intros HJ H5 Hnil. cbn [l_commit]. rewrite Hnil.
    destruct (ks_lock (ls_at a (x_primary x))) as [l|] eqn:Hl.
    - destruct (l_ts (ll_rec l) =? x_start x) eqn:Hts; [|discriminate].
      unfold l_commit_key. destruct (x_commit x <? l_min_commit (ll_rec l)); [discriminate|].
      destruct (find_start (ks_recs (ls_at a (x_primary x))) (l_ts (ll_rec l))) as [r0|] eqn:Hf.
      + exfalso. apply find_start_some in Hf as [H1 H2].
        now apply (J_lock_fresh _ (HJ (x_primary x)) l r0 Hl H1).
      + intros _. cbn [fst]. rewrite ls_at_lupd, bytes_eqb_refl. cbn [ks_recs].
        eexists. split; [apply In_add_rec_new|]. cbn. repeat split; [lia|].
        apply (J_lock_kind _ (HJ (x_primary x)) l Hl).
    - destruct (find_start (ks_recs (ls_at a (x_primary x))) (x_start x)) as [r|] eqn:Hf; [|discriminate].
      destruct (op_eqb (lr_kind r) OpRollback) eqn:Hk; [discriminate|]. intros _. cbn [fst].
      apply find_start_some in Hf as [H1 H2].
      assert (Hk' : lr_kind r <> OpRollback) by (intro E; rewrite E in Hk; discriminate).
      exists r. repeat split; auto. now apply (H5 (x_primary x)).
  Qed.

  Lemma keys_nonnil k : In k (x_keys x) -> is_nil k = false.
  Proof.
    intro Hk. unfold tx_ok in Hx. apply andb_true_iff in Hx as [_ H]. unfold keys_ok in H.
    rewrite forallb_forall in H. specialize (H k Hk). now apply negb_true_iff in H.
  Qed.
  Lemma primary_in_keys : In (x_primary x) (x_keys x).
  Proof.
    unfold tx_ok in Hx. apply andb_true_iff in Hx as [H _]. apply andb_true_iff in H as [_ H]. now apply mem_key_In.
  Qed.

  Lemma commit_inv g keys : forall a,
    INV a g -> (forall k, In k keys -> In k (x_keys x)) ->
    (CMc (ls_at a (x_primary x)) \/
     ((forall k, In k (x_keys x) -> In k g) /\ match keys with k :: _ => k = x_primary x | [] => True end)) ->
    INV (fst (l_commit a keys (x_start x) (x_commit x))) g.
  Proof.
    pose proof start_lt_commit as Hlt.
    induction keys as [|k0 rest IH]; intros a HV Hsub Hpre; [exact HV|].
    rewrite l_commit_cons.
    set (r1 := RCommit [k0] (x_start x) (x_commit x)).
    assert (Hnil : is_nil k0 = false) by (apply keys_nonnil, Hsub; now left).
    assert (Hok1 : req_ok r1 = true).
    { cbn. rewrite Hnil. cbn. lia. }
    assert (Hfst : fst (lstep a r1) = fst (l_commit a [k0] (x_start x) (x_commit x))).
    { cbn [lstep r1]. now destruct (l_commit a [k0] (x_start x) (x_commit x)). }
    assert (HV1 : INV (fst (l_commit a [k0] (x_start x) (x_commit x))) g).
    { rewrite <- Hfst. apply INV_step_gen; auto.
      - split; cbn; intros s' [H|[]]; inversion H; subst; lia.
      - split; cbn; intros s' [H|[]]; inversion H; subst; lia.
      - intros cv [_ ->]. split; [reflexivity|]. destruct Hpre as [H|[H _]]; auto.
      - intros _. destruct Hpre as [H|[_ H]]; [now left|]. subst k0. right.
        intros k Hne. rewrite Hfst. now apply l_commit_single_only.
      - cbn. contradiction. }
    destruct (l_commit a [k0] (x_start x) (x_commit x)) as [a1 [e|]] eqn:Hc1; [exact HV1|].
    cbn [fst] in HV1. apply IH; [exact HV1 | intros k Hk; apply Hsub; now right |]. left.
    destruct (bytes_eqb k0 (x_primary x)) eqn:Ek.
    - apply bytes_eqb_eq in Ek. subst k0.
      pose proof (commit_single_success a (V_inv2 _ _ HV) (V_ts _ _ HV) Hnil) as H.
      rewrite Hc1 in H. now apply H.
    - apply bytes_eqb_neq in Ek. destruct Hpre as [H|[_ H]]; [|congruence].
      pose proof (l_commit_single_only a k0 (x_start x) (x_commit x) (x_primary x) (not_eq_sym Ek)) as E.
      rewrite Hc1 in E. cbn [fst] in E. now rewrite E.
  Qed.

  (** ** one disciplined request keeps the invariant *)
  Theorem INV_step a g r :
    INV a g -> req_ok r = true -> allowed x a g r = true ->
    INV (fst (lstep a r)) (g ++ locked_keys x (fst (lstep a r))).
  Proof.
    intros HV Hok Hal. apply INV_g_mono.
    destruct (is_commit_of_x r) eqn:Hc; [|now apply INV_step_other].
    destruct r; try discriminate. cbn [is_commit_of_x] in Hc.
    assert (start = x_start x) by lia. subst start. cbn [allowed] in Hal. rewrite N.eqb_refl in Hal.
    apply andb_true_iff in Hal as [Hal Hpre]. apply andb_true_iff in Hal as [Hcv Hsub].
    assert (commit_version = x_commit x) by lia. subst commit_version.
    cbn [lstep]. pose proof (commit_inv g keys a HV (subset_keys_In _ _ Hsub)) as H.
    destruct (l_commit a keys (x_start x) (x_commit x)) as [a1 e]. cbn [fst] in *. apply H.
    apply orb_true_iff in Hpre as [Hp|Hp].
    - left. now apply has_commit_CMc.
    - apply andb_true_iff in Hp as [Hg Hhd]. right. split; [now apply subset_keys_In|].
      destruct keys as [|k0 rest]; [exact I | now apply bytes_eqb_eq].
  Qed.

  Lemma INV_empty : INV lempty [].
  Proof.
    constructor.
    - intro k. apply ks_inv2_empty.
    - intros k _ _ (r & [] & _).
    - intros k _ _ (r & [] & _).
    - intros (r & [] & _).
    - intros k [].
    - intros k rc [].
  Qed.

  Lemma drun_from_INV h : forall a g a' g',
    INV a g -> forallb req_ok h = true -> drun_from x a g h = Some (a', g') -> INV a' g'.
  Proof.
    induction h as [|r h IH]; intros a g a' g' HV Hok Hd; cbn [drun_from] in Hd.
    - inversion Hd; subst. exact HV.
    - cbn [forallb] in Hok. apply andb_true_iff in Hok as [Hr Hh].
      destruct (allowed x a g r) eqn:Hal; [|discriminate].
      eapply IH; [|exact Hh|exact Hd]. now apply INV_step.
  Qed.

  (** ** all-or-nothing once no key is locked by [x] any more *)
  Lemma no_commit_not_CM a k : no_commit x a k = true <-> ~ CM (ls_at a k).
  Proof.
    unfold no_commit, CM. rewrite negb_true_iff. split.
    - intros H (r & Hin & Hs & Hk).
      assert (E : existsb (fun r => (lr_start r =? x_start x) && negb (op_eqb (lr_kind r) OpRollback)) (ks_recs (ls_at a k)) = true).
      { apply existsb_exists. exists r. split; [exact Hin|]. destruct (lr_kind r); try contradiction; cbn; lia. }
      congruence.
    - intro H. destruct (existsb _ _) eqn:E; [|reflexivity]. exfalso. apply H.
      apply existsb_exists in E as (r & Hin & E). exists r. apply andb_true_iff in E as [E1 E2].
      repeat split; [exact Hin | lia |]. intro E3. rewrite E3 in E2. discriminate.
  Qed.

  Theorem INV_atomic a g : INV a g -> resolved x a = true -> atomic x a.
  Proof.
    intros HV Hres. unfold resolved in Hres. rewrite forallb_forall in Hres.
    destruct (has_commit (ls_at a (x_primary x)) (x_start x) (x_commit x)) eqn:Hp.
    - left. apply has_commit_CMc in Hp. intros k Hk. unfold commit_visible. apply has_commit_CMc.
      destruct (V_ghost _ _ HV k (V_prewritten _ _ HV Hp k Hk)) as [HL|[H|H]].
      + specialize (Hres k Hk). rewrite HL in Hres. discriminate.
      + apply CM_CMc; [apply (V_ts _ _ HV) | exact H].
      + exfalso.
        assert (Hrbp : RB (ls_at a (x_primary x))).
        { destruct (bytes_eqb k (x_primary x)) eqn:Ek; [apply bytes_eqb_eq in Ek; now subst|].
          apply bytes_eqb_neq in Ek. now apply (V_sec_rollback _ _ HV k Hk Ek). }
        destruct Hp as (r1 & I1 & S1 & _ & K1). destruct Hrbp as (r2 & I2 & S2 & K2).
        assert (r1 = r2) by (apply (J_nodup _ (V_inv2 _ _ HV (x_primary x))); auto; congruence).
        subst. contradiction.
    - right. intros k Hk. apply no_commit_not_CM. intro Hcm.
      assert (Hc : CMc (ls_at a (x_primary x))).
      { destruct (bytes_eqb k (x_primary x)) eqn:Ek.
        - apply bytes_eqb_eq in Ek. subst. apply CM_CMc; [apply (V_ts _ _ HV) | exact Hcm].
        - apply bytes_eqb_neq in Ek. now apply (V_sec_commit _ _ HV k Hk Ek). }
      apply has_commit_CMc in Hc. congruence.
  Qed.

  (** C28: after any disciplined history, once the transaction is resolved its keys are all committed or all not *)
  Theorem atomic_after_resolve h a g :
    forallb req_ok h = true -> drun x h = Some (a, g) -> resolved x a = true -> atomic x a.
  Proof.
    intros Hok Hd Hres. eapply INV_atomic; [|exact Hres].
    eapply drun_from_INV; [apply INV_empty | exact Hok | exact Hd].
  Qed.

  (** ** C28_fail_before_primary: when the call has failed with the primary not
      committed, and nobody sends a primary-deciding Commit afterwards, the
      transaction never becomes visible *)
  Definition quiet (a : lstate) (r : request) : bool :=
    match r with
    | RCommit _ s' _ => negb (s' =? x_start x) || primary_committed x a
    | _ => true
    end.

  Fixpoint qrun_from (a : lstate) (g : list bytes) (h : list request) : option (lstate * list bytes) :=
    match h with
    | [] => Some (a, g)
    | r :: h' =>
        if allowed x a g r && quiet a r then
          let a' := fst (lstep a r) in qrun_from a' (g ++ locked_keys x a') h'
        else None
    end.

  Lemma no_new_primary_commit a g r :
    INV a g -> req_ok r = true -> allowed x a g r = true -> quiet a r = true ->
    ~ CMc (ls_at a (x_primary x)) -> ~ CMc (ls_at (fst (lstep a r)) (x_primary x)).
  Proof.
    intros HV Hok Hal Hq Hn (rc & Hin & Hs & Hc & Hk).
    destruct (allowed_keeps a g r Hal) as [Hk1 Hk2].
    assert (Hlab : forall cv, label_ok r (KCommit (x_start x) cv) -> cv = x_commit x /\ CMc (ls_at a (x_primary x))).
    { intros cv H. destruct r; cbn [label_ok allowed quiet] in *; try contradiction.
      - destruct H as [E1 E2]. subst. rewrite N.eqb_refl in Hal, Hq. cbn in Hq.
        apply andb_true_iff in Hal as [Hal _]. apply andb_true_iff in Hal as [Hal _].
        split; [lia | now apply has_commit_CMc].
      - destruct H as (E1 & E2 & E3). subst. rewrite N.eqb_refl in Hal.
        destruct (commit_version =? 0) eqn:E0; [lia|].
        apply andb_true_iff in Hal as [_ Hal]. apply andb_true_iff in Hal as [Hcv Hp].
        split; [lia | now apply has_commit_CMc]. }
    pose proof (kreach_eff (x_start x) (x_commit x) r _ _ (lstep_reach a r Hok (x_primary x))
                  (V_inv2 _ _ HV (x_primary x)) (V_ts _ _ HV (x_primary x))
                  (fun cv H => proj1 (Hlab cv H)) Hk1 Hk2) as (_ & _ & Hor & _).
    destruct (Hor rc Hin Hs) as [H|[[_ H]|[H _]]]; [| |contradiction].
    - apply Hn. exists rc. auto.
    - apply Hn. now apply (Hlab _ H).
  Qed.

  Theorem fail_before_primary h : forall a g a' g',
    INV a g -> ~ CMc (ls_at a (x_primary x)) ->
    forallb req_ok h = true -> qrun_from a g h = Some (a', g') -> resolved x a' = true ->
    forall k, In k (x_keys x) -> no_commit x a' k = true.
  Proof.
    induction h as [|r h IH]; intros a g a' g' HV Hn Hok Hq Hres; cbn [qrun_from] in Hq.
    - inversion Hq; subst. destruct (INV_atomic a' g' HV Hres) as [H|H]; [|exact H].
      exfalso. apply Hn. apply has_commit_CMc. apply (H (x_primary x)), primary_in_keys.
    - cbn [forallb] in Hok. apply andb_true_iff in Hok as [Hr Hh].
      destruct (allowed x a g r) eqn:Hal; [|discriminate]. destruct (quiet a r) eqn:Hqr; [|discriminate].
      cbn [andb] in Hq. eapply IH; [| |exact Hh|exact Hq|exact Hres].
      + now apply INV_step.
      + now apply (no_new_primary_commit a g r).
  Qed.

  Corollary fail_before_primary_run h1 h2 a g a' g' :
    forallb req_ok (h1 ++ h2) = true -> drun x h1 = Some (a, g) ->
    primary_committed x a = false -> qrun_from a g h2 = Some (a', g') -> resolved x a' = true ->
    forall k, In k (x_keys x) -> no_commit x a' k = true.
  Proof.
    intros Hok Hd Hp Hq Hres. rewrite forallb_app in Hok. apply andb_true_iff in Hok as [Hok1 Hok2].
    eapply fail_before_primary; [| |exact Hok2|exact Hq|exact Hres].
    - eapply drun_from_INV; [apply INV_empty | exact Hok1 | exact Hd].
    - intro H. apply has_commit_CMc in H. unfold primary_committed in Hp. congruence.
  Qed.
End Atomicity.

(** ** what a committed / uncommitted key means for reads at the commit version *)
Lemma commit_visible_read x a k :
  Inv2 a -> commit_visible x a k = true ->
  exists rc, In rc (ks_recs (ls_at a k)) /\ lr_start rc = x_start x /\ lr_ts rc = x_commit x /\
             lr_kind rc <> OpRollback /\
             (committed_data rc = true -> newest_committed (ks_recs (ls_at a k)) (x_commit x) = Some rc).
Proof.
  intros HJ H. unfold commit_visible, has_commit in H. apply existsb_exists in H as (rc & Hin & H).
  unfold is_commit_of in H. apply andb_true_iff in H as [H H3]. apply andb_true_iff in H as [H1 H2].
  exists rc. repeat split; [exact Hin | lia | lia | intro E; rewrite E in H3; discriminate |].
  intro Hd. pose proof (newest_committed_spec (ks_recs (ls_at a k)) (x_commit x)) as S.
  assert (Hv : visible_at (x_commit x) rc = true) by (unfold visible_at; rewrite Hd; cbn; lia).
  destruct (newest_committed (ks_recs (ls_at a k)) (x_commit x)) as [y|].
  - destruct S as (Hy & Hvy & Hmax). specialize (Hmax rc Hin Hv).
    assert (Hky : lr_kind y <> OpRollback).
    { intro E. unfold visible_at, committed_data in Hvy. rewrite E in Hvy. discriminate. }
    unfold visible_at in Hvy. apply andb_true_iff in Hvy as [_ Hle].
    f_equal. 
    (* same commit ts on one timeline: the records coincide *)
    assert (Ets : lr_ts y = lr_ts rc) by lia.
    destruct (N.eq_dec (lr_start y) (lr_start rc)) as [Es|Es].
    + now apply (J_nodup _ (HJ k)).
    + exfalso. 
      assert (Hkr : lr_kind rc <> OpRollback) by (intro E; rewrite E in H3; discriminate).
      pose proof (J_le _ (HJ k) y Hy). pose proof (J_le _ (HJ k) rc Hin).
      destruct (J_disjoint _ (HJ k) y rc Hy Hin Hky Hkr Es); lia.
  - rewrite (S rc Hin) in Hv. discriminate.
Qed.

(** ** non-vacuity: a disciplined history that ends resolved and committed *)
Definition wit_c28_history : list request :=
  match map snd (tpc_plan ccurrent wit_f24_txn) with
  | [pw; cm] => [pw; cm; resolver_check wit_f24_txn 2110]
  | _ => []
  end.
Example atomic_nonvacuous :
  tx_ok wit_f24_x = true /\ forallb req_ok wit_c28_history = true /\
  (exists a g, drun wit_f24_x wit_c28_history = Some (a, g) /\ resolved wit_f24_x a = true /\
               forallb (commit_visible wit_f24_x a) (x_keys wit_f24_x) = true) /\
  (exists a g, drun wit_f24_x (wit_f24_history ccurrent) = Some (a, g) /\ resolved wit_f24_x a = true /\
               forallb (no_commit wit_f24_x a) (x_keys wit_f24_x) = true).
Proof.
  split; [reflexivity|]. split; [reflexivity|]. split.
  - destruct (drun wit_f24_x wit_c28_history) as [[a g]|] eqn:E; [|vm_compute in E; discriminate].
    exists a, g. split; [reflexivity|].
    assert (H : match drun wit_f24_x wit_c28_history with
                | Some (a, _) => resolved wit_f24_x a && forallb (commit_visible wit_f24_x a) (x_keys wit_f24_x)
                | None => false end = true) by (vm_compute; reflexivity).
    rewrite E in H. now apply andb_true_iff in H.
  - destruct (drun wit_f24_x (wit_f24_history ccurrent)) as [[a g]|] eqn:E; [|vm_compute in E; discriminate].
    exists a, g. split; [reflexivity|].
    assert (H : match drun wit_f24_x (wit_f24_history ccurrent) with
                | Some (a, _) => resolved wit_f24_x a && forallb (no_commit wit_f24_x a) (x_keys wit_f24_x)
                | None => false end = true) by (vm_compute; reflexivity).
    rewrite E in H. now apply andb_true_iff in H.
Qed.

(** the pre-repair request order is not even disciplined: the Commit's first key is not the primary *)
Lemma legacy_not_disciplined : drun wit_f24_x (wit_f24_history clegacy) = None.
Proof. vm_compute. reflexivity. Qed.

(** Order facts about [kcmp]/[rcmp] and sorted sources; [seek]/[src_search]
    characterised as "greatest version <= v of base key k". *)
From Coq Require Import List NArith Bool Lia Sorting.Sorted.
From NoKV Require Import Base.Bytes Model.Lsm.
Import ListNotations.
Local Open Scope N_scope.

Lemma kcmp_eq k1 v1 k2 v2 : kcmp k1 v1 k2 v2 = Eq <-> k1 = k2 /\ v1 = v2.
Proof.
  unfold kcmp. destruct (bytes_cmp k1 k2) eqn:E.
  - apply bytes_cmp_eq in E. subst. rewrite N.compare_eq_iff. split; [intros ->; auto | intros [_ ->]; auto].
  - split; [discriminate|]. intros [-> _]. rewrite bytes_cmp_refl in E. discriminate.
  - split; [discriminate|]. intros [-> _]. rewrite bytes_cmp_refl in E. discriminate.
Qed.

Lemma kcmp_lt k1 v1 k2 v2 :
  kcmp k1 v1 k2 v2 = Lt <-> bytes_cmp k1 k2 = Lt \/ (k1 = k2 /\ v2 < v1).
Proof.
  unfold kcmp. destruct (bytes_cmp k1 k2) eqn:E.
  - apply bytes_cmp_eq in E. subst. rewrite N.compare_lt_iff. split.
    + intro H. right. auto.
    + intros [H|[_ H]]; [discriminate | exact H].
  - split; [auto | reflexivity].
  - split; [discriminate|]. intros [H|[-> _]]; [discriminate | rewrite bytes_cmp_refl in E; discriminate].
Qed.

Lemma kcmp_antisym k1 v1 k2 v2 : kcmp k2 v2 k1 v1 = CompOpp (kcmp k1 v1 k2 v2).
Proof.
  unfold kcmp. rewrite (bytes_cmp_antisym k1 k2).
  destruct (bytes_cmp k1 k2); simpl; auto. apply N.compare_antisym.
Qed.

Lemma kcmp_lt_trans k1 v1 k2 v2 k3 v3 :
  kcmp k1 v1 k2 v2 = Lt -> kcmp k2 v2 k3 v3 = Lt -> kcmp k1 v1 k3 v3 = Lt.
Proof.
  rewrite !kcmp_lt. intros [H1|[-> H1]] [H2|[-> H2]].
  - left. eapply bytes_cmp_lt_trans; eauto.
  - left. exact H1.
  - left. exact H2.
  - right. split; [reflexivity | lia].
Qed.

Definition rlt (a b : rec) : Prop := rcmp a b = Lt.
Definition sorted (l : list rec) : Prop := StronglySorted rlt l.

Lemma sorted_cons_inv x l : sorted (x :: l) -> sorted l /\ Forall (rlt x) l.
Proof. intro H. inversion H; subst. auto. Qed.

Lemma rcmp_eq a b : rcmp a b = Eq <-> r_key a = r_key b /\ r_ver a = r_ver b.
Proof. apply kcmp_eq. Qed.

Lemma rlt_irrefl a : ~ rlt a a.
Proof. unfold rlt, rcmp. intro H. apply kcmp_lt in H as [H|[_ H]]; [rewrite bytes_cmp_refl in H; discriminate | lia]. Qed.

(** In a sorted source an internal key occurs once. *)
Lemma sorted_unique l x y :
  sorted l -> In x l -> In y l -> r_key x = r_key y -> r_ver x = r_ver y -> x = y.
Proof.
  induction l as [|z l IH]; intros Hs Hx Hy Hk Hv; [contradiction|].
  apply sorted_cons_inv in Hs as [Hs Hf]. rewrite Forall_forall in Hf.
  destruct Hx as [->|Hx], Hy as [->|Hy]; auto.
  - specialize (Hf _ Hy). unfold rlt, rcmp in Hf. apply kcmp_lt in Hf as [H|[_ H]].
    + rewrite Hk, bytes_cmp_refl in H. discriminate.
    + lia.
  - specialize (Hf _ Hx). unfold rlt, rcmp in Hf. apply kcmp_lt in Hf as [H|[_ H]].
    + rewrite Hk, bytes_cmp_refl in H. discriminate.
    + lia.
Qed.

(** [seek] on a sorted list. *)
Lemma seek_some_in k v l x : seek k v l = Some x -> In x l.
Proof.
  induction l as [|y l IH]; cbn [seek]; [discriminate|].
  destruct (kcmp (r_key y) (r_ver y) k v); intro H; try (inversion H; subst; now left); right; auto.
Qed.

Definition is_cand (k : bytes) (v : N) (x : rec) : Prop := r_key x = k /\ r_ver x <= v.

Lemma src_search_some k v l x :
  sorted l -> src_search k v l = Some x ->
  In x l /\ is_cand k v x /\ forall y, In y l -> is_cand k v y -> r_ver y <= r_ver x.
Proof.
  unfold src_search. induction l as [|z l IH]; intros Hs; cbn [seek]; [discriminate|].
  apply sorted_cons_inv in Hs as [Hs Hf]. rewrite Forall_forall in Hf.
  destruct (kcmp (r_key z) (r_ver z) k v) eqn:E.
  - apply kcmp_eq in E as [Ek Ev]. rewrite Ek, bytes_eqb_refl. intro H; inversion H; subst x.
    split; [now left|]. split; [split; [exact Ek | lia]|].
    intros y [<-|Hy] [Hyk Hyv]; [lia|].
    specialize (Hf _ Hy). unfold rlt, rcmp in Hf. apply kcmp_lt in Hf as [Hb|[_ Hb]]; [|lia].
    rewrite Ek, Hyk, bytes_cmp_refl in Hb. discriminate.
  - intro H. destruct (IH Hs H) as (Hin & Hc & Hmax). split; [now right|]. split; [exact Hc|].
    intros y [<-|Hy] [Hyk Hyv]; [|apply Hmax; [exact Hy | split; assumption]].
    apply kcmp_lt in E as [Hb|[_ Hb]]; [rewrite Hyk, bytes_cmp_refl in Hb; discriminate | lia].
  - destruct (bytes_eqb (r_key z) k) eqn:Ek; [|discriminate].
    apply bytes_eqb_eq in Ek. intro H; inversion H; subst x.
    assert (Hv : r_ver z < v).
    { rewrite kcmp_antisym in E. destruct (kcmp k v (r_key z) (r_ver z)) eqn:E2; try discriminate.
      apply kcmp_lt in E2 as [Hb|[_ Hb]]; [rewrite Ek, bytes_cmp_refl in Hb; discriminate | exact Hb]. }
    split; [now left|]. split; [split; [exact Ek | lia]|].
    intros y [<-|Hy] [Hyk Hyv]; [lia|].
    specialize (Hf _ Hy). unfold rlt, rcmp in Hf. apply kcmp_lt in Hf as [Hb|[_ Hb]]; [|lia].
    rewrite Ek, Hyk, bytes_cmp_refl in Hb. discriminate.
Qed.

Lemma src_search_none k v l :
  sorted l -> src_search k v l = None -> forall y, In y l -> ~ is_cand k v y.
Proof.
  unfold src_search. induction l as [|z l IH]; intros Hs; cbn [seek]; [intros _ y []|].
  apply sorted_cons_inv in Hs as [Hs Hf]. rewrite Forall_forall in Hf.
  destruct (kcmp (r_key z) (r_ver z) k v) eqn:E.
  - apply kcmp_eq in E as [Ek Ev]. rewrite Ek, bytes_eqb_refl. discriminate.
  - intros H y [Hzy|Hy] [Hyk Hyv]; [subst y|eapply IH; eauto; split; assumption].
    apply kcmp_lt in E as [Hb|[_ Hb]]; [rewrite Hyk, bytes_cmp_refl in Hb; discriminate | lia].
  - destruct (bytes_eqb (r_key z) k) eqn:Ek; [discriminate|]. apply bytes_eqb_neq in Ek.
    intros _ y [Hzy|Hy] [Hyk Hyv]; [subst y; congruence|].
    (* z > (k,v) and z's key differs from k: every later record is > z, hence its key is > k *)
    rewrite kcmp_antisym in E. destruct (kcmp k v (r_key z) (r_ver z)) eqn:E2; try discriminate.
    apply kcmp_lt in E2 as [Hb|[Hb _]]; [|congruence].
    specialize (Hf _ Hy). unfold rlt, rcmp in Hf. apply kcmp_lt in Hf as [Hc|[Hc _]].
    + rewrite Hyk in Hc. pose proof (bytes_cmp_lt_trans _ _ _ Hb Hc) as Hd. rewrite bytes_cmp_refl in Hd. discriminate.
    + rewrite Hc, Hyk, bytes_cmp_refl in Hb. discriminate.
Qed.

(** memIndex.Add keeps the source sorted; membership. *)
Lemma mem_insert_in r l y : In y (mem_insert r l) -> y = r \/ In y l.
Proof.
  induction l as [|x l IH]; cbn [mem_insert].
  - intros [<-|[]]. now left.
  - destruct (rcmp r x).
    + intros [<-|H]; [now left | right; now right].
    + intros [<-|H]; [now left | right; exact H].
    + intros [<-|H]; [right; now left|]. destruct (IH H) as [->|H']; [now left | right; now right].
Qed.

Lemma mem_insert_sorted r l : sorted l -> sorted (mem_insert r l).
Proof.
  induction l as [|x l IH]; intro Hs; cbn [mem_insert].
  - constructor; constructor.
  - pose proof Hs as Hs0. apply sorted_cons_inv in Hs as [Hs Hf].
    destruct (rcmp r x) eqn:E.
    + constructor; [exact Hs|]. apply rcmp_eq in E as [Ek Ev].
      eapply Forall_impl; [|exact Hf]. intros a Ha. unfold rlt, rcmp in *. now rewrite Ek, Ev.
    + constructor; [exact Hs0|]. constructor; [exact E|].
      eapply Forall_impl; [|exact Hf]. intros a Ha. unfold rlt, rcmp in *. eapply kcmp_lt_trans; eauto.
    + constructor; [now apply IH|]. rewrite Forall_forall. intros y Hy.
      apply mem_insert_in in Hy as [->|Hy].
      * unfold rlt, rcmp in *. rewrite kcmp_antisym, E. reflexivity.
      * rewrite Forall_forall in Hf. auto.
Qed.

Lemma mem_insert_keeps r l y :
  In y l -> rcmp r y <> Eq -> In y (mem_insert r l).
Proof.
  induction l as [|x l IH]; intros Hy Hne; [contradiction|]. cbn [mem_insert].
  destruct (rcmp r x) eqn:E.
  - destruct Hy as [<-|Hy]; [congruence | now right].
  - now right.
  - destruct Hy as [<-|Hy]; [now left | right; auto].
Qed.

Lemma mem_insert_has r l : In r (mem_insert r l).
Proof.
  induction l as [|x l IH]; cbn [mem_insert]; [now left|].
  destruct (rcmp r x); [now left | now left | now right].
Qed.

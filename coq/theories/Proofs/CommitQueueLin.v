(** C34 continued: every step preserves [Inv34]; quiescent states have a
    linearizable history. *)
From Coq Require Import List NArith Bool Permutation Lia ZifyN ZifyBool.
From NoKV Require Import Base.Bytes Base.Sched Spec.SerialSpec Spec.Linearizable Model.CommitQueue
                         Proofs.TxnStoreLemmas Proofs.CommitQueueProofs.
Import ListNotations.
Local Open Scope N_scope.

Lemma nodup_snoc (l : list N) x : NoDup l -> ~ In x l -> NoDup (l ++ [x]).
Proof.
  intros Hn Hx. induction Hn as [|y l Hy Hn IH]; cbn; [constructor; [tauto | constructor]|].
  constructor.
  - intro H. apply in_app_or in H as [H|[H|[]]]; [contradiction | subst; apply Hx; now left].
  - apply IH. intro H. apply Hx. now right.
Qed.

Lemma inv_enqueue g t prog o call k v :
  Inv34 g -> c_pc (g_clients g t) = PSend o call ->
  Inv34 (tick g (g_mem g) (g_pipe g ++ [({| r_tid := t; r_k := k; r_v := v; r_call := call |}, Queued)])
              (set_pc g t prog (PWait o call)) (g_lin g)).
Proof.
  intros HI Hpc.
  assert (Hnw : forall o' c', c_pc (g_clients g t) <> PWait o' c') by (intros; rewrite Hpc; discriminate).
  pose proof (not_waiting_no_req g t HI Hnw) as Hnr.
  pose proof (v_calls g HI t) as Hc. rewrite Hpc in Hc. cbn in Hc.
  constructor; cbn [tick g_mem g_lin g_clock g_clients g_pipe]; unfold reqs; cbn [tick g_pipe].
  - apply (v_mem g HI).
  - apply (v_legal g HI).
  - apply stamps_weaken_all, (v_stamps g HI).
  - apply (v_sorted g HI).
  - intros e He Hr. destruct (N.eq_dec (lr_tid e) t) as [E|E]; [rewrite E, set_pc_self; exact I|].
    rewrite set_pc_other by exact E. now apply (v_busy g HI).
  - intros r Hr. rewrite map_app in Hr. apply in_app_or in Hr as [Hr|[<-|[]]].
    + rewrite set_pc_other; [now apply (v_reqs g HI)|]. intro E. apply Hnr. rewrite <- E. now apply in_map.
    + cbn [r_tid r_call fst]. rewrite set_pc_self. now exists o.
  - rewrite !map_app. cbn [map fst r_tid]. apply nodup_snoc; [apply (v_nodup g HI) | exact Hnr].
  - intros j. destruct (N.eq_dec j t) as [->|Hj]; [rewrite set_pc_self; cbn; lia|].
    rewrite set_pc_other by exact Hj. apply pc_call_weaken, (v_calls g HI).
Qed.

Lemma inv_apply g a r b :
  Inv34 g -> g_pipe g = a ++ (r, Batched) :: b ->
  Inv34 (tick g ((r_k r, r_v r) :: g_mem g) (a ++ (r, Applied) :: b) (g_clients g)
              (lin_entry (r_tid r) (r_call r) (g_clock g) (LWrite (r_k r) (r_v r) true) :: g_lin g)).
Proof.
  intros HI Hp.
  assert (Hreqs : map fst (a ++ (r, Applied) :: b) = reqs g).
  { unfold reqs. rewrite Hp, !map_app. reflexivity. }
  assert (Hr : In r (reqs g)).
  { unfold reqs. rewrite Hp, map_app. apply in_or_app. right. now left. }
  destruct (v_reqs g HI r Hr) as [o Ho].
  pose proof (v_calls g HI (r_tid r)) as Hc. rewrite Ho in Hc. cbn in Hc.
  constructor; cbn [tick g_mem g_lin g_clock g_clients g_pipe lin_state lin_legal lin_entry lr_kind kind_apply];
    unfold reqs; cbn [tick g_pipe]; rewrite ?Hreqs.
  - now rewrite (v_mem g HI).
  - split; [reflexivity | apply (v_legal g HI)].
  - constructor; [|apply stamps_weaken_all, (v_stamps g HI)]. unfold stamps_ok. cbn. repeat split; lia.
  - apply (sorted_cons (g_clock g)); [apply (v_stamps g HI) | reflexivity | apply (v_sorted g HI)].
  - intros e [<-|He] Hn; [cbn; now rewrite Ho | now apply (v_busy g HI)].
  - apply (v_reqs g HI).
  - apply (v_nodup g HI).
  - intros t. apply pc_call_weaken, (v_calls g HI).
Qed.

Lemma inv_ack g a r b :
  Inv34 g -> g_pipe g = a ++ (r, Applied) :: b ->
  Inv34 (tick g (g_mem g) (a ++ b)
              (match c_pc (g_clients g (r_tid r)) with
               | PWait o call => set_pc g (r_tid r) (c_prog (g_clients g (r_tid r))) (PLin o call ROk)
               | _ => g_clients g
               end) (g_lin g)).
Proof.
  intros HI Hp.
  assert (Hq : reqs g = map fst a ++ r :: map fst b) by (unfold reqs; rewrite Hp, map_app; reflexivity).
  assert (Hr : In r (reqs g)) by (rewrite Hq; apply in_or_app; right; now left).
  destruct (v_reqs g HI r Hr) as [o Ho]. rewrite Ho.
  pose proof (v_calls g HI (r_tid r)) as Hc. rewrite Ho in Hc. cbn in Hc.
  pose proof (v_nodup g HI) as Hnd. rewrite Hq, map_app in Hnd. cbn [map] in Hnd.
  pose proof (NoDup_remove_1 _ _ _ Hnd) as Hnd1. pose proof (NoDup_remove_2 _ _ _ Hnd) as Hnd2.
  constructor; cbn [tick g_mem g_lin g_clock g_clients g_pipe]; unfold reqs; cbn [tick g_pipe]; rewrite ?map_app.
  - apply (v_mem g HI).
  - apply (v_legal g HI).
  - apply stamps_weaken_all, (v_stamps g HI).
  - apply (v_sorted g HI).
  - intros e He Hn. destruct (N.eq_dec (lr_tid e) (r_tid r)) as [E|E]; [rewrite E, set_pc_self; exact I|].
    rewrite set_pc_other by exact E. now apply (v_busy g HI).
  - intros r' Hr'. assert (Hin : In r' (reqs g)).
    { rewrite Hq. apply in_app_or in Hr' as [H|H]; apply in_or_app; [now left | right; now right]. }
    rewrite set_pc_other; [now apply (v_reqs g HI)|].
    intro E. apply Hnd2. rewrite <- E, <- map_app. apply in_map. exact Hr'.
  - exact Hnd1.
  - intros j. destruct (N.eq_dec j (r_tid r)) as [->|Hj]; [rewrite set_pc_self; cbn; lia|].
    rewrite set_pc_other by exact Hj. apply pc_call_weaken, (v_calls g HI).
Qed.

Theorem tstep_inv34 g t g' : Inv34 g -> tstep g t = Some g' -> Inv34 g'.
Proof.
  intros HI. unfold tstep.
  destruct (t =? 0).
  { unfold worker_step. destruct (g_wdone g); [discriminate|].
    destruct (split_stage Batched (g_pipe g)) as [[[a r] b]|] eqn:E1.
    { intro H; inversion H; subst. apply split_stage_spec in E1. now apply inv_apply. }
    destruct (split_stage Applied (g_pipe g)) as [[[a r] b]|] eqn:E2.
    { intro H; inversion H; subst. apply split_stage_spec in E2. now apply inv_ack. }
    destruct (existsb (is_stage Queued) (g_pipe g)).
    { intro H; inversion H; subst. apply (inv_frame g); auto. cbn. apply pop_batch_reqs. }
    destruct (closed_b (g_close g)); [|discriminate].
    intro H; inversion H; subst. now apply (inv_frame g). }
  destruct (t =? 1).
  { unfold env_step. destruct (g_close g); intro H; inversion H; subst; now apply (inv_frame g). }
  destruct (t =? 2).
  { unfold closer_step. destruct (g_close g); try destruct (g_wdone g); intro H; inversion H; subst;
      now apply (inv_frame g). }
  unfold client_step. destruct (c_pc (g_clients g t)) as [|o call|o call|o call|o call r] eqn:Epc.
  - (* PIdle *)
    destruct (c_prog (g_clients g t)) as [|o rest]; [discriminate|]. intro H; inversion H; subst.
    apply inv_client_pc; auto; try (intros; rewrite Epc; discriminate); try discriminate; try (cbn; lia).
    left. split; [reflexivity|]. right. intros e He Ht Hn.
    pose proof (v_busy g HI e He Hn) as Hb. rewrite Ht, Epc in Hb. exact Hb.
  - (* PStart *)
    pose proof (v_calls g HI t) as Hc. rewrite Epc in Hc. cbn in Hc.
    destruct o as [k v hot big|k].
    + destruct hot; intro H; inversion H; subst.
      * unfold fail_write.
        apply inv_client_pc; auto; try (intros; rewrite Epc; discriminate); try discriminate; try (cbn; lia).
        right. eexists. split; [reflexivity|]. cbn. repeat split; auto.
      * apply inv_client_pc; auto; try (intros; rewrite Epc; discriminate); try discriminate; try (cbn; lia).
        left. split; [reflexivity|]. right. intros e He Ht Hn.
        pose proof (v_busy g HI e He Hn) as Hb. rewrite Ht, Epc in Hb. exact Hb.
    + intro H; inversion H; subst.
      apply inv_client_pc; auto; try (intros; rewrite Epc; discriminate); try discriminate; try (cbn; lia).
      right. eexists. split; [reflexivity|]. cbn. repeat split; auto. apply obytes_eqb_refl.
  - (* PSend *)
    pose proof (v_calls g HI t) as Hc. rewrite Epc in Hc. cbn in Hc.
    destruct o as [k v hot big|k]; [|discriminate].
    assert (Hfail : forall e, Inv34 (fail_write g t (c_prog (g_clients g t)) (CSet k v hot big) call k v e)).
    { intros e. unfold fail_write.
      apply inv_client_pc; auto; try (intros; rewrite Epc; discriminate); try discriminate; try (cbn; lia).
      right. eexists. split; [reflexivity|]. cbn. repeat split; auto. }
    destruct (g_blocked g).
    { destruct (closed_b (g_close g)); [|discriminate]. intro H; inversion H; subst. apply Hfail. }
    destruct big; [intro H; inversion H; subst; apply Hfail|].
    destruct (closed_b (g_close g)); [intro H; inversion H; subst; apply Hfail|].
    destruct (Nat.leb _ _); [discriminate|]. intro H; inversion H; subst. now apply inv_enqueue.
  - discriminate.
  - intro H; inversion H; subst. now apply (inv_client_return g t _ o call r).
Qed.

Lemma inv34_init cap bmax progs : Inv34 (g_init cap bmax progs).
Proof.
  constructor; cbn; try constructor; try (intros; contradiction). all: try (intros; exact I).
Qed.

Theorem reachable_inv34 cap bmax progs g :
  reachable tstep (g_init cap bmax progs) g -> Inv34 g.
Proof. apply (inv_reachable tstep Inv34); [apply inv34_init | intros; eapply tstep_inv34; eauto]. Qed.

(** * From the invariant to linearizability *)
Fixpoint final_state (st : kvs) (l : list lop) : kvs :=
  match l with [] => st | o :: l' => final_state (apply_op st o) l' end.

Lemma legal_seq_app st a b : legal_seq st (a ++ b) = legal_seq st a && legal_seq (final_state st a) b.
Proof.
  revert st; induction a as [|o a IH]; intros st; cbn [app legal_seq final_state]; [reflexivity|].
  now rewrite IH, andb_assoc.
Qed.
Lemma final_state_app st a b : final_state st (a ++ b) = final_state (final_state st a) b.
Proof. revert st; induction a as [|o a IH]; intros st; cbn [app final_state]; [reflexivity | apply IH]. Qed.

Lemma apply_to_lop st e : apply_op st (to_lop e) = kind_apply st (lr_kind e).
Proof. reflexivity. Qed.
Lemma legal_to_lop st e : legal st (to_lop e) = kind_legal st (lr_kind e).
Proof. reflexivity. Qed.

Lemma lin_replay L :
  lin_legal L ->
  legal_seq [] (rev (map to_lop L)) = true /\ final_state [] (rev (map to_lop L)) = lin_state L.
Proof.
  induction L as [|e L IH]; [cbn; auto|]. cbn [lin_legal map rev lin_state]. intros [H1 H2].
  destruct (IH H2) as [I1 I2]. rewrite legal_seq_app, final_state_app, I1, I2.
  cbn [legal_seq final_state]. rewrite legal_to_lop, apply_to_lop, H1. auto.
Qed.

Lemma rt_ok_snoc l x : rt_ok l -> (forall a, In a l -> ~ l_ret x < l_call a) -> rt_ok (l ++ [x]).
Proof.
  induction l as [|o l IH]; intros Hl Hx; cbn [app rt_ok]; [split; [intros ? []|exact I]|].
  cbn [rt_ok] in Hl. destruct Hl as [H1 H2]. split.
  - intros r Hr. apply in_app_or in Hr as [Hr|[<-|[]]]; [now apply H1 | apply Hx; now left].
  - apply IH; [exact H2|]. intros a Ha. apply Hx. now right.
Qed.

Lemma lin_rt_ok now L :
  Forall (stamps_ok now) L -> lin_sorted L -> (forall e, In e L -> lr_ret e <> None) ->
  rt_ok (rev (map to_lop L)).
Proof.
  induction L as [|e L IH]; intros Hs Hso Hr; [exact I|]. cbn [map rev].
  inversion Hs as [|e0 L0 Hse HsL]; subst. cbn [lin_sorted] in Hso. destruct Hso as [Hlt Hso].
  apply rt_ok_snoc; [apply IH; auto; intros e' He'; apply Hr; now right|].
  intros a Ha. apply in_rev in Ha. apply in_map_iff in Ha as [e' [<- He']].
  pose proof (proj1 (Forall_forall _ _) HsL e' He') as (C1 & _).
  specialize (Hlt e' He'). destruct Hse as (_ & _ & S3).
  cbn [to_lop l_ret l_call]. destruct (lr_ret e) as [r|] eqn:Er; [lia|].
  exfalso. exact (Hr e (or_introl eq_refl) Er).
Qed.

(** For every schedule: when no client is inside a call, the history of all
    calls (with their call and return stamps and results) is linearizable. *)
Theorem linearizable_all_schedules cap bmax progs sched :
  let g := run tstep (g_init cap bmax progs) sched in
  quiescent g -> linearizable (history g).
Proof.
  intros g Hq. pose proof (reachable_inv34 cap bmax progs g (run_reachable tstep _ sched)) as HI.
  exists (rev (history g)). split; [apply Permutation_sym, Permutation_rev|].
  assert (Hr : forall e, In e (g_lin g) -> lr_ret e <> None).
  { intros e He Hn. pose proof (v_busy g HI e He Hn) as Hb. rewrite (Hq (lr_tid e)) in Hb. exact Hb. }
  split.
  - unfold history. apply (lin_rt_ok (g_clock g)); [apply (v_stamps g HI) | apply (v_sorted g HI) | exact Hr].
  - unfold history. apply (lin_replay (g_lin g) (v_legal g HI)).
Qed.

(** A write that fails (hot-key throttle, too large, blocked/closed) never
    changes the memtable: the only steps that change it are the worker's
    applications of enqueued requests. *)
Theorem error_no_effect g t g' :
  tstep g t = Some g' -> g_mem g' <> g_mem g ->
  t = 0 /\ exists a r b, g_pipe g = a ++ (r, Batched) :: b /\ g_mem g' = (r_k r, r_v r) :: g_mem g.
Proof.
  unfold tstep. destruct (t =? 0) eqn:E0.
  { apply N.eqb_eq in E0. unfold worker_step. destruct (g_wdone g); [discriminate|].
    destruct (split_stage Batched (g_pipe g)) as [[[a r] b]|] eqn:E1.
    { intro H; inversion H; subst. intros _. split; [reflexivity|]. exists a, r, b.
      split; [now apply split_stage_spec | reflexivity]. }
    destruct (split_stage Applied (g_pipe g)) as [[[a r] b]|].
    { intro H; inversion H; subst. cbn. congruence. }
    destruct (existsb _ _); [intro H; inversion H; subst; cbn; congruence|].
    destruct (closed_b _); [|discriminate]. intro H; inversion H; subst. cbn. congruence. }
  destruct (t =? 1).
  { unfold env_step. destruct (g_close g); intro H; inversion H; subst; cbn; congruence. }
  destruct (t =? 2).
  { unfold closer_step. destruct (g_close g); try destruct (g_wdone g); intro H; inversion H; subst; cbn; congruence. }
  unfold client_step, fail_write. destruct (c_pc (g_clients g t)) as [|o call|o call|o call|o call r].
  - destruct (c_prog _); [discriminate|]. intro H; inversion H; subst; cbn; congruence.
  - destruct o as [k v hot big|k]; [destruct hot|]; intro H; inversion H; subst; cbn; congruence.
  - destruct o as [k v hot big|k]; [|discriminate].
    destruct (g_blocked g); [destruct (closed_b _); [|discriminate]; intro H; inversion H; subst; cbn; congruence|].
    destruct big; [intro H; inversion H; subst; cbn; congruence|].
    destruct (closed_b _); [intro H; inversion H; subst; cbn; congruence|].
    destruct (Nat.leb _ _); [discriminate|]. intro H; inversion H; subst; cbn; congruence.
  - discriminate.
  - intro H; inversion H; subst; cbn; congruence.
Qed.

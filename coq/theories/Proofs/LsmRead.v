(** The tiered read returns the latest write under the ordering invariant. *)
From Coq Require Import List NArith Bool Lia Sorting.Sorted.
From NoKV Require Import Base.Bytes Model.Lsm Spec.MvccSpec Proofs.LsmOrder Spec.LsmSpec.
Import ListNotations.
Local Open Scope N_scope.

Lemma geq_refl x : geq x x.
Proof. right. split; [reflexivity | lia]. Qed.

(** State of the scan of one tier after the sources [pre]. *)
Definition scanned (k : bytes) (v : N) (pre : list (list rec)) (best : option rec) : Prop :=
  match best with
  | None => forall y, In y (concat pre) -> ~ is_cand k v y
  | Some x => In x (concat pre) /\ is_cand k v x /\ 0 < r_ver x /\
              forall y, In y (concat pre) -> is_cand k v y -> geq x y
  end.

Lemma in_concat_app {A} (l1 l2 : list (list A)) x :
  In x (concat (l1 ++ l2)) <-> In x (concat l1) \/ In x (concat l2).
Proof. rewrite concat_app, in_app_iff. tauto. Qed.

Lemma upd_scanned k v pre a post best :
  Forall sorted (pre ++ a :: post) ->
  (forall x, In x (concat (pre ++ a :: post)) -> 0 < r_ver x) ->
  within_ok (pre ++ a :: post) ->
  scanned k v pre best -> scanned k v (pre ++ [a]) (upd k v best a).
Proof.
  intros Hsorted Hpos Hwithin Hsc.
  assert (Hsa : sorted a).
  { rewrite Forall_forall in Hsorted. apply Hsorted. apply in_or_app. right. now left. }
  unfold upd. destruct (src_search k v a) as [x'|] eqn:Es.
  - destruct (src_search_some _ _ _ _ Hsa Es) as (Hin' & Hc' & Hmax').
    destruct ((match best with Some b => r_ver b | None => 0 end) <? r_ver x') eqn:El.
    + apply N.ltb_lt in El. cbn [scanned]. split; [apply in_concat_app; right; cbn; rewrite app_nil_r; exact Hin'|].
      split; [exact Hc'|]. split; [lia|].
      intros y Hy Hcy. apply in_concat_app in Hy as [Hy|Hy].
      * destruct best as [b|]; cbn [scanned] in Hsc.
        -- destruct Hsc as (_ & _ & _ & Hb). destruct (Hb y Hy Hcy) as [H|[H _]]; left; lia.
        -- exfalso. exact (Hsc y Hy Hcy).
      * cbn in Hy. rewrite app_nil_r in Hy. pose proof (Hmax' y Hy Hcy) as Hle.
        destruct (N.eq_dec (r_ver y) (r_ver x')) as [Ev|Ev].
        -- assert (y = x') as ->.
           { apply (sorted_unique a); auto. destruct Hcy as [-> _]. destruct Hc' as [-> _]. reflexivity. }
           apply geq_refl.
        -- left. lia.
    + apply N.ltb_ge in El. destruct best as [b|]; cbn [scanned] in Hsc |- *.
      * destruct Hsc as (Hbin & Hbc & Hbpos & Hb).
        split; [apply in_concat_app; now left|]. split; [exact Hbc|]. split; [exact Hbpos|].
        intros y Hy Hcy. apply in_concat_app in Hy as [Hy|Hy]; [auto|].
        cbn in Hy. rewrite app_nil_r in Hy. pose proof (Hmax' y Hy Hcy) as Hle.
        destruct (N.eq_dec (r_ver y) (r_ver b)) as [Ev|Ev].
        -- right. split; [lia|].
           apply (Hwithin pre (a :: post) eq_refl b y Hbin).
           ++ cbn. apply in_or_app. now left.
           ++ destruct Hcy as [-> _]. destruct Hbc as [-> _]. reflexivity.
           ++ lia.
        -- left. lia.
      * exfalso. assert (0 < r_ver x') by (apply Hpos; apply in_concat_app; right; cbn; apply in_or_app; now left). lia.
  - destruct best as [b|]; cbn [scanned] in Hsc |- *.
    + destruct Hsc as (Hbin & Hbc & Hbpos & Hb).
      split; [apply in_concat_app; now left|]. split; [exact Hbc|]. split; [exact Hbpos|].
      intros y Hy Hcy. apply in_concat_app in Hy as [Hy|Hy]; [auto|].
      cbn in Hy. rewrite app_nil_r in Hy. exfalso. exact (src_search_none _ _ _ Hsa Es y Hy Hcy).
    + intros y Hy Hcy. apply in_concat_app in Hy as [Hy|Hy]; [exact (Hsc y Hy Hcy)|].
      cbn in Hy. rewrite app_nil_r in Hy. exact (src_search_none _ _ _ Hsa Es y Hy Hcy).
Qed.

Lemma fold_scanned k v post : forall pre best,
  Forall sorted (pre ++ post) ->
  (forall x, In x (concat (pre ++ post)) -> 0 < r_ver x) ->
  within_ok (pre ++ post) ->
  scanned k v pre best -> scanned k v (pre ++ post) (fold_left (upd k v) post best).
Proof.
  induction post as [|a post IH]; intros pre best Hs Hp Hw Hsc; cbn [fold_left].
  - now rewrite app_nil_r.
  - assert (E : pre ++ a :: post = (pre ++ [a]) ++ post) by (rewrite <- app_assoc; reflexivity).
    rewrite E. apply IH; [rewrite <- E; exact Hs | rewrite <- E; exact Hp | rewrite <- E; exact Hw |].
    apply (upd_scanned k v pre a post); assumption.
Qed.

Lemma tier_best_scanned k v t :
  Forall sorted t -> (forall x, In x (concat t) -> 0 < r_ver x) -> within_ok t ->
  scanned k v t (tier_best k v t).
Proof.
  intros Hs Hp Hw. unfold tier_best.
  apply (fold_scanned k v t [] None); cbn [app]; auto. intros y [].
Qed.

Lemma all_recs_app l1 l2 x : In x (all_recs (l1 ++ l2)) <-> In x (all_recs l1) \/ In x (all_recs l2).
Proof. unfold all_recs. rewrite concat_app, concat_app, in_app_iff. tauto. Qed.

Lemma all_recs_cons t rest x : In x (all_recs (t :: rest)) <-> In x (concat t) \/ In x (all_recs rest).
Proof. unfold all_recs. cbn [concat]. rewrite concat_app, in_app_iff. tauto. Qed.

Lemma all_recs_single t x : In x (all_recs [t]) <-> In x (concat t).
Proof. rewrite all_recs_cons. unfold all_recs. cbn. tauto. Qed.

Lemma tget_latest_gen k v post : forall pre,
  tier_inv (pre ++ post) ->
  (forall y, In y (all_recs pre) -> ~ is_cand k v y) ->
  is_latest (all_recs (pre ++ post)) k v (tget k v post).
Proof.
  induction post as [|t post IH]; intros pre Hinv Hpre.
  - cbn. rewrite app_nil_r. exact Hpre.
  - destruct Hinv as [Hsorted Hpos Hwithin Hcross].
    assert (Hst : Forall sorted t).
    { rewrite Forall_forall in Hsorted. apply Hsorted. apply in_or_app. right. now left. }
    assert (Hwt : within_ok t).
    { rewrite Forall_forall in Hwithin. apply Hwithin. apply in_or_app. right. now left. }
    assert (Hpt : forall x, In x (concat t) -> 0 < r_ver x).
    { intros x Hx. apply Hpos. apply all_recs_app. right. apply all_recs_cons. now left. }
    pose proof (tier_best_scanned k v t Hst Hpt Hwt) as Hsc.
    unfold tget. cbn [map first_some]. destruct (tier_best k v t) as [x|] eqn:Eb; cbn [scanned] in Hsc.
    + destruct Hsc as (Hin & Hc & _ & Hb). cbn [is_latest].
      split; [apply all_recs_app; right; apply all_recs_cons; now left|].
      split; [exact Hc|].
      intros y Hy Hcy. apply all_recs_app in Hy as [Hy|Hy]; [exfalso; exact (Hpre y Hy Hcy)|].
      apply (proj1 (all_recs_cons _ _ _)) in Hy as [Hy|Hy]; [auto|].
      apply (Hcross (pre ++ [t]) post); [rewrite <- app_assoc; reflexivity | | exact Hy |].
      * apply all_recs_app. right. apply all_recs_single. exact Hin.
      * destruct Hc as [-> _]. destruct Hcy as [-> _]. reflexivity.
    + replace (pre ++ t :: post) with ((pre ++ [t]) ++ post) by (rewrite <- app_assoc; reflexivity).
      apply IH.
      * rewrite <- app_assoc. cbn [app]. constructor; assumption.
      * intros y Hy. apply all_recs_app in Hy as [Hy|Hy]; [auto|].
        apply (proj1 (all_recs_single _ _)) in Hy. auto.
Qed.

Theorem tget_latest k v tiers :
  tier_inv tiers -> is_latest (all_recs tiers) k v (tget k v tiers).
Proof. intro H. apply (tget_latest_gen k v tiers []); [exact H | intros y []]. Qed.

(** [latest_at] computes a latest write, and latest writes are unique. *)
Lemma better_geq a b : better a b = true -> geq a b.
Proof.
  unfold better, geq. rewrite orb_true_iff, andb_true_iff, !N.ltb_lt, N.eqb_eq. intros [H|[H1 H2]]; [left; exact H | right; split; [exact H1 | lia]].
Qed.
Lemma not_better_geq a b : better a b = false -> geq b a.
Proof.
  unfold better, geq. rewrite orb_false_iff, andb_false_iff, !N.ltb_ge, N.eqb_neq.
  intros [H1 [H2|H2]]; [left; lia | destruct (N.eq_dec (r_ver a) (r_ver b)); [right; split; [lia|lia] | left; lia]].
Qed.
Lemma geq_trans a b c : geq a b -> geq b c -> geq a c.
Proof. unfold geq. intros [H1|[H1 H1']] [H2|[H2 H2']]; [left; lia | left; lia | left; lia | right; split; lia]. Qed.

Lemma pick_fold_spec (l : list rec) : forall best,
  match fold_left pick_better l best with
  | Some x => (best = Some x \/ In x l) /\ (forall b, best = Some b -> geq x b) /\ forall y, In y l -> geq x y
  | None => best = None /\ l = []
  end.
Proof.
  induction l as [|r l IH]; intro best; cbn [fold_left].
  - destruct best; [split; [now left | split; [intros b [= <-]; apply geq_refl | intros y []]] | auto].
  - specialize (IH (pick_better best r)). destruct (fold_left pick_better l (pick_better best r)) as [x|].
    + destruct IH as (H1 & H2 & H3). unfold pick_better in H1, H2. destruct best as [b|].
      * destruct (better r b) eqn:Eb.
        -- split; [destruct H1 as [[= <-]|H1]; right; [now left | now right]|].
           split; [intros b' [= <-]; eapply geq_trans; [apply (H2 r eq_refl) | now apply better_geq]|].
           intros y [<-|Hy]; [apply (H2 r eq_refl) | auto].
        -- split; [destruct H1 as [[= <-]|H1]; [now left | right; now right]|].
           split; [intros b' [= <-]; apply (H2 b eq_refl)|].
           intros y [<-|Hy]; [eapply geq_trans; [apply (H2 b eq_refl) | now apply not_better_geq] | auto].
      * split; [destruct H1 as [[= <-]|H1]; right; [now left | now right]|].
        split; [discriminate|]. intros y [<-|Hy]; [apply (H2 r eq_refl) | auto].
    + destruct IH as [H _]. unfold pick_better in H. destruct best; [destruct (better r r0)|]; discriminate.
Qed.

Lemma cand_spec k v r : cand k v r = true <-> is_cand k v r.
Proof. unfold cand, is_cand. rewrite andb_true_iff, bytes_eqb_eq, N.leb_le. tauto. Qed.

Theorem latest_at_is_latest ws k v : is_latest ws k v (latest_at ws k v).
Proof.
  unfold latest_at. pose proof (pick_fold_spec (filter (cand k v) ws) None) as H.
  destruct (fold_left pick_better (filter (cand k v) ws) None) as [x|]; cbn [is_latest].
  - destruct H as ([H|H] & _ & H3); [discriminate|]. apply filter_In in H as [Hin Hc].
    split; [exact Hin|]. split; [now apply cand_spec|].
    intros y Hy Hcy. apply H3. apply filter_In. split; [exact Hy | now apply cand_spec].
  - destruct H as [_ H]. intros y Hy Hcy.
    assert (Hf : In y (filter (cand k v) ws)) by (apply filter_In; split; [exact Hy | now apply cand_spec]).
    rewrite H in Hf. exact Hf.
Qed.

Theorem is_latest_unique ws k v o1 o2 :
  seq_functional ws -> is_latest ws k v o1 -> is_latest ws k v o2 -> o1 = o2.
Proof.
  intros Hf. destruct o1 as [x|], o2 as [y|]; cbn [is_latest]; intros H1 H2.
  - destruct H1 as (Hx & Hcx & Hbx), H2 as (Hy & Hcy & Hby).
    specialize (Hbx y Hy Hcy). specialize (Hby x Hx Hcx).
    f_equal. apply Hf; auto. unfold geq in *. lia.
  - destruct H1 as (Hx & Hcx & _). exfalso. exact (H2 x Hx Hcx).
  - destruct H2 as (Hy & Hcy & _). exfalso. exact (H1 y Hy Hcy).
  - reflexivity.
Qed.

Corollary tget_is_latest_at k v tiers :
  tier_inv tiers -> seq_functional (all_recs tiers) ->
  tget k v tiers = latest_at (all_recs tiers) k v.
Proof.
  intros Hi Hf. eapply is_latest_unique; [exact Hf | now apply tget_latest | apply latest_at_is_latest].
Qed.

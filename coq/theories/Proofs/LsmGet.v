(** The structured, pruned read path of the model (range tests, max-version
    pruning, binary search in the main tables, early exit on an exact version)
    equals the flat scan [tier_best] over every source in scan order
    ([scan_srcs]), given sorted sources, positive versions and disjoint
    main-level tables. *)
From Coq Require Import List NArith Bool Lia Sorting.Sorted.
From NoKV Require Import Base.Bytes Model.Lsm Spec.MvccSpec Proofs.LsmOrder Spec.LsmSpec Proofs.LsmRead.
Import ListNotations.
Local Open Scope N_scope.

Lemma rlt_key_le a b : rlt a b -> bytes_leb (r_key a) (r_key b) = true.
Proof.
  unfold rlt, rcmp. intro H. apply kcmp_lt in H as [H|[H _]]; unfold bytes_leb.
  - now rewrite H.
  - rewrite H, bytes_cmp_refl. reflexivity.
Qed.

Lemma sorted_head_le x l y : sorted (x :: l) -> In y (x :: l) -> bytes_leb (r_key x) (r_key y) = true.
Proof.
  intros Hs [<-|Hy]; [apply bytes_leb_refl|].
  apply sorted_cons_inv in Hs as [_ Hf]. rewrite Forall_forall in Hf. now apply rlt_key_le, Hf.
Qed.

Lemma sorted_last_ge l d : sorted l -> forall y, In y l -> bytes_leb (r_key y) (r_key (last l d)) = true.
Proof.
  induction l as [|x l IH]; intros Hs y Hy; [contradiction|].
  pose proof Hs as Hs0. apply sorted_cons_inv in Hs as [Hs Hf]. rewrite Forall_forall in Hf.
  destruct l as [|x' l'].
  - destruct Hy as [<-|[]]. apply bytes_leb_refl.
  - change (last (x :: x' :: l') d) with (last (x' :: l') d).
    destruct Hy as [<-|Hy]; [|now apply IH].
    eapply bytes_leb_trans; [apply rlt_key_le, Hf; now left | apply IH; [exact Hs | now left]].
Qed.

Lemma in_range_false_none t k v :
  sorted (t_recs t) -> in_range t k = false -> src_search k v (t_recs t) = None.
Proof.
  intros Hs Hr. destruct (src_search k v (t_recs t)) as [x|] eqn:E; [|reflexivity].
  destruct (src_search_some _ _ _ _ Hs E) as (Hin & [Hk _] & _). exfalso.
  unfold in_range, t_min, t_max in Hr. destruct (t_recs t) as [|r0 l] eqn:El; [contradiction|].
  apply andb_false_iff in Hr as [Hr|Hr].
  - rewrite <- Hk in Hr. rewrite (sorted_head_le r0 l x Hs Hin) in Hr. discriminate.
  - rewrite <- Hk in Hr. rewrite (sorted_last_ge (r0 :: l) _ Hs x Hin) in Hr. discriminate.
Qed.

Lemma fold_max_ge (l : list rec) : forall m, m <= fold_left (fun m r => N.max m (r_ver r)) l m.
Proof. induction l as [|r l IH]; intro m; cbn [fold_left]; [lia|]. specialize (IH (N.max m (r_ver r))). lia. Qed.

Lemma maxver_ge t x : In x (t_recs t) -> r_ver x <= t_maxver t.
Proof.
  unfold t_maxver. generalize 0. induction (t_recs t) as [|r l IH]; intros m Hx; [contradiction|].
  cbn [fold_left]. destruct Hx as [<-|Hx]; [|now apply IH].
  pose proof (fold_max_ge l (N.max m (r_ver r))). lia.
Qed.

Definition cur (best : option rec) : N := match best with Some b => r_ver b | None => 0 end.

Lemma scan_step_upd k v best t :
  sorted (t_recs t) -> scan_step k v best t = upd k v best (t_recs t).
Proof.
  intro Hs. unfold scan_step, upd, table_search. fold (cur best).
  destruct (in_range t k) eqn:Er; cbn [negb].
  - destruct (t_maxver t <=? cur best) eqn:Em; [|reflexivity].
    apply N.leb_le in Em. destruct (src_search k v (t_recs t)) as [x|] eqn:E; [|reflexivity].
    destruct (src_search_some _ _ _ _ Hs E) as (Hin & _ & _). pose proof (maxver_ge t x Hin).
    destruct (cur best <? r_ver x) eqn:El; [apply N.ltb_lt in El; lia | reflexivity].
  - now rewrite (in_range_false_none t k v Hs Er).
Qed.

Lemma scan_tables_upd k v ts : forall best,
  Forall (fun t => sorted (t_recs t)) ts ->
  scan_tables k v ts best = fold_left (upd k v) (map t_recs ts) best.
Proof.
  unfold scan_tables. induction ts as [|t ts IH]; intros best Hs; cbn [fold_left map]; [reflexivity|].
  inversion Hs; subst. rewrite scan_step_upd by assumption. now apply IH.
Qed.

(** Sources in which [k] has no candidate do not change the running best. *)
Lemma upd_noop k v best l : src_search k v l = None -> upd k v best l = best.
Proof. unfold upd. now intros ->. Qed.

Lemma fold_upd_filter k v (f : table -> bool) ts : forall best,
  (forall t, In t ts -> f t = false -> src_search k v (t_recs t) = None) ->
  fold_left (upd k v) (map t_recs (filter f ts)) best = fold_left (upd k v) (map t_recs ts) best.
Proof.
  induction ts as [|t ts IH]; intros best H; cbn [filter map fold_left]; [reflexivity|].
  destruct (f t) eqn:E; cbn [map fold_left].
  - apply IH. intros u Hu. apply H. now right.
  - rewrite (upd_noop k v best (t_recs t)) by (apply H; [now left | exact E]).
    apply IH. intros u Hu. apply H. now right.
Qed.

Lemma filter_rev' {A} (f : A -> bool) l : filter f (rev l) = rev (filter f l).
Proof.
  induction l as [|x l IH]; cbn [rev filter]; [reflexivity|].
  rewrite filter_app, IH. cbn [filter]. destruct (f x); cbn; [reflexivity | now rewrite app_nil_r].
Qed.

Lemma min_gt_none t k v :
  sorted (t_recs t) -> bytes_leb (t_min t) k = false -> src_search k v (t_recs t) = None.
Proof.
  intros Hs Hm. apply in_range_false_none; [exact Hs|]. unfold in_range. now rewrite Hm.
Qed.

Lemma shard_search_upd k v sh best :
  Forall (fun t => sorted (t_recs t)) sh ->
  shard_search k v best sh = fold_left (upd k v) (map t_recs (rev sh)) best.
Proof.
  intro Hs. unfold shard_search.
  rewrite scan_tables_upd.
  - rewrite <- filter_rev'. apply fold_upd_filter.
    intros t Ht Hf. apply min_gt_none; [|exact Hf].
    rewrite Forall_forall in Hs. apply Hs. now apply in_rev.
  - rewrite Forall_forall in *. intros t Ht. apply in_rev in Ht. apply filter_In in Ht as [Ht _]. auto.
Qed.

Lemma fold_shards_upd k v shards : forall best,
  Forall (Forall (fun t => sorted (t_recs t))) shards ->
  fold_left (shard_search k v) shards best
  = fold_left (upd k v) (map t_recs (concat (map (@rev table) shards))) best.
Proof.
  induction shards as [|sh shards IH]; intros best Hs; cbn [fold_left map concat]; [reflexivity|].
  inversion Hs; subst. rewrite shard_search_upd by assumption.
  rewrite map_app, fold_left_app. now apply IH.
Qed.

(** Main tables: sorted, disjoint ranges. *)
Lemma table_key_bounds t x :
  sorted (t_recs t) -> In x (t_recs t) ->
  bytes_leb (t_min t) (r_key x) = true /\ bytes_leb (r_key x) (t_max t) = true.
Proof.
  intros Hs Hx. unfold t_min, t_max. destruct (t_recs t) as [|r0 l] eqn:E; [contradiction|].
  split; [now apply (sorted_head_le r0 l) | now apply (sorted_last_ge (r0 :: l))].
Qed.

Lemma min_le_max t : sorted (t_recs t) -> t_recs t <> [] -> bytes_leb (t_min t) (t_max t) = true.
Proof.
  intros Hs Hne. unfold t_min, t_max. destruct (t_recs t) as [|r0 l] eqn:E; [congruence|].
  apply (sorted_last_ge (r0 :: l) _ Hs r0). now left.
Qed.

Lemma fold_upd_all_noop k v ts : forall best,
  (forall t, In t ts -> src_search k v (t_recs t) = None) ->
  fold_left (upd k v) (map t_recs ts) best = best.
Proof.
  induction ts as [|t ts IH]; intros best H; cbn [map fold_left]; [reflexivity|].
  rewrite upd_noop by (apply H; now left). apply IH. intros u Hu. apply H. now right.
Qed.

Lemma below_min_none t k v :
  sorted (t_recs t) -> bytes_ltb k (t_min t) = true -> src_search k v (t_recs t) = None.
Proof.
  intros Hs H. apply min_gt_none; [exact Hs|]. rewrite bytes_leb_ltb, H. reflexivity.
Qed.

Lemma above_max_none t k v :
  sorted (t_recs t) -> bytes_leb k (t_max t) = false -> src_search k v (t_recs t) = None.
Proof.
  intros Hs H. apply in_range_false_none; [exact Hs|]. unfold in_range. rewrite H. apply andb_false_r.
Qed.

Lemma table_for_key_spec k v ts :
  Forall (fun t => sorted (t_recs t)) ts -> main_disjoint ts ->
  match table_for_key k ts with
  | Some t => exists l1 l2, ts = l1 ++ t :: l2 /\
                (forall u, In u l1 -> src_search k v (t_recs u) = None) /\
                (forall u, In u l2 -> src_search k v (t_recs u) = None)
  | None => forall u, In u ts -> src_search k v (t_recs u) = None
  end.
Proof.
  induction ts as [|t ts IH]; intros Hs Hd; cbn [table_for_key]; [intros u []|].
  inversion Hs as [|? ? Hst Hs']; subst. destruct Hd as (Hne & Hlt & Hd). rewrite Forall_forall in Hlt.
  assert (Hlater : bytes_leb k (t_max t) = true -> forall u, In u ts -> src_search k v (t_recs u) = None).
  { intros Hk u Hu. apply below_min_none.
    - rewrite Forall_forall in Hs'. auto.
    - eapply bytes_leb_ltb_trans; [exact Hk | now apply Hlt]. }
  destruct (bytes_leb k (t_max t)) eqn:Ek.
  - destruct (bytes_leb (t_min t) k) eqn:Em.
    + exists [], ts. split; [reflexivity|]. split; [intros u []|]. now apply Hlater.
    + intros u [<-|Hu]; [now apply min_gt_none | now apply Hlater].
  - specialize (IH Hs' Hd). destruct (table_for_key k ts) as [t'|].
    + destruct IH as (l1 & l2 & -> & H1 & H2). exists (t :: l1), l2. split; [reflexivity|].
      split; [|exact H2]. intros u [<-|Hu]; [now apply above_max_none | auto].
    + intros u [<-|Hu]; [now apply above_max_none | auto].
Qed.

Lemma main_search_upd k v ts best :
  Forall (fun t => sorted (t_recs t)) ts -> main_disjoint ts ->
  main_search k v ts best = fold_left (upd k v) (map t_recs ts) best.
Proof.
  intros Hs Hd. unfold main_search. destruct ts as [|t0 ts0] eqn:Ets; [reflexivity|]. rewrite <- Ets in *.
  destruct (bytes_ltb k (t_min t0)) eqn:E0.
  - symmetry. apply fold_upd_all_noop. intros u Hu.
    assert (Hs0 : sorted (t_recs t0)) by (rewrite Forall_forall in Hs; apply Hs; rewrite Ets; now left).
    rewrite Ets in Hu. destruct Hu as [<-|Hu]; [now apply below_min_none|].
    rewrite Ets in Hd. destruct Hd as (Hne & Hlt & _). rewrite Forall_forall in Hlt.
    apply below_min_none.
    + rewrite Forall_forall in Hs. apply Hs. rewrite Ets. now right.
    + eapply bytes_ltb_trans; [exact E0|]. eapply bytes_leb_ltb_trans; [now apply min_le_max | now apply Hlt].
  - pose proof (table_for_key_spec k v ts Hs Hd) as Hspec.
    destruct (table_for_key k ts) as [t|].
    + destruct Hspec as (l1 & l2 & E & H1 & H2). rewrite E.
      rewrite map_app, fold_left_app. cbn [map fold_left].
      rewrite (fold_upd_all_noop k v l1 best H1), (fold_upd_all_noop k v l2 _ H2).
      assert (Hst : sorted (t_recs t)).
      { rewrite Forall_forall in Hs. apply Hs. rewrite E. apply in_or_app. right. now left. }
      fold (cur best). destruct (t_maxver t <=? cur best) eqn:Em.
      * apply N.leb_le in Em. unfold upd. destruct (src_search k v (t_recs t)) as [x|] eqn:Ex; [|reflexivity].
        destruct (src_search_some _ _ _ _ Hst Ex) as (Hin & _ & _). pose proof (maxver_ge t x Hin).
        fold (cur best). destruct (cur best <? r_ver x) eqn:El; [apply N.ltb_lt in El; lia | reflexivity].
      * reflexivity.
    + symmetry. now apply fold_upd_all_noop.
Qed.

Record src_inv (s : state) : Prop := {
  sv_mem : sorted (st_mem s);
  sv_imms : Forall (fun m => sorted (snd m)) (st_imms s);
  sv_l0 : Forall (fun t => sorted (t_recs t)) (st_l0 s);
  sv_lvls : Forall (fun lv => Forall (Forall (fun t => sorted (t_recs t))) (lv_shards lv) /\
                              Forall (fun t => sorted (t_recs t)) (lv_main lv) /\
                              main_disjoint (lv_main lv)) (st_lvls s);
  sv_pos : forall x, In x (all_recs (tiers_of s)) -> 0 < r_ver x }.

Lemma level_get_upd k v best lv :
  Forall (Forall (fun t => sorted (t_recs t))) (lv_shards lv) ->
  Forall (fun t => sorted (t_recs t)) (lv_main lv) -> main_disjoint (lv_main lv) ->
  level_get k v best lv = fold_left (upd k v) (level_srcs lv) best.
Proof.
  intros H1 H2 H3. unfold level_get, level_srcs.
  rewrite main_search_upd by assumption. rewrite fold_shards_upd by assumption.
  now rewrite map_app, fold_left_app.
Qed.

Lemma level_get_tier k v lv :
  Forall (Forall (fun t => sorted (t_recs t))) (lv_shards lv) ->
  Forall (fun t => sorted (t_recs t)) (lv_main lv) -> main_disjoint (lv_main lv) ->
  level_get k v None lv = tier_best k v (level_srcs lv).
Proof. apply level_get_upd. Qed.

(** A hit never exceeds the requested version (no sortedness needed), so a
    best of exactly that version cannot be replaced: stopping the scan there
    equals scanning on. *)
Lemma seek_not_lt k v l x : seek k v l = Some x -> kcmp (r_key x) (r_ver x) k v <> Lt.
Proof.
  induction l as [|y l IH]; cbn [seek]; [discriminate|].
  destruct (kcmp (r_key y) (r_ver y) k v) eqn:E; [intros [= <-]; congruence | exact IH | intros [= <-]; congruence].
Qed.

Lemma src_search_ver_le k v l x : src_search k v l = Some x -> r_ver x <= v.
Proof.
  unfold src_search. destruct (seek k v l) as [y|] eqn:E; [|discriminate].
  destruct (bytes_eqb (r_key y) k) eqn:Ek; [|discriminate]. intros [= <-].
  apply bytes_eqb_eq in Ek. apply seek_not_lt in E. unfold kcmp in E. rewrite Ek, bytes_cmp_refl in E.
  destruct (N.compare_spec v (r_ver y)); [lia | congruence | lia].
Qed.

Lemma upd_exact k v best l : exact v best = true -> upd k v best l = best.
Proof.
  unfold exact, upd. destruct best as [b|]; [|discriminate]. intro E. apply N.eqb_eq in E.
  destruct (src_search k v l) as [x|] eqn:Es; [|reflexivity].
  apply src_search_ver_le in Es. destruct (r_ver b <? r_ver x) eqn:El; [apply N.ltb_lt in El; lia | reflexivity].
Qed.

Lemma fold_upd_exact k v srcs : forall best, exact v best = true -> fold_left (upd k v) srcs best = best.
Proof.
  induction srcs as [|l srcs IH]; intros best E; cbn [fold_left]; [reflexivity|].
  rewrite (upd_exact k v best l E). now apply IH.
Qed.

Lemma mem_step_upd k v best l :
  (forall x, In x l -> 0 < r_ver x) -> mem_step k v best l = upd k v best l.
Proof.
  intro Hp. unfold mem_step. destruct (exact v best) eqn:E; [symmetry; now apply upd_exact|].
  unfold upd, mem_get, mem_hit. destruct (src_search k v l) as [x|] eqn:Es; [|reflexivity].
  destruct best as [b|]; [reflexivity|].
  assert (Hx : In x l).
  { unfold src_search in Es. destruct (seek k v l) as [y|] eqn:E2; [|discriminate].
    destruct (bytes_eqb (r_key y) k); [|discriminate]. injection Es as <-. now apply seek_some_in in E2. }
  specialize (Hp x Hx). destruct (0 <? r_ver x) eqn:El; [reflexivity | apply N.ltb_ge in El; lia].
Qed.

Lemma fold_mem_step_upd k v srcs : forall best,
  (forall l x, In l srcs -> In x l -> 0 < r_ver x) ->
  fold_left (mem_step k v) srcs best = fold_left (upd k v) srcs best.
Proof.
  induction srcs as [|l srcs IH]; intros best Hp; cbn [fold_left]; [reflexivity|].
  rewrite mem_step_upd by (intros x Hx; apply (Hp l x); [now left | exact Hx]).
  apply IH. intros l' x Hl. apply Hp. now right.
Qed.

Lemma fold_level_step_upd k v lvls : forall best,
  Forall (fun lv => Forall (Forall (fun t => sorted (t_recs t))) (lv_shards lv) /\
                    Forall (fun t => sorted (t_recs t)) (lv_main lv) /\
                    main_disjoint (lv_main lv)) lvls ->
  fold_left (level_step k v) lvls best = fold_left (upd k v) (concat (map level_srcs lvls)) best.
Proof.
  induction lvls as [|lv lvls IH]; intros best H; cbn [fold_left map concat]; [reflexivity|].
  inversion H as [|? ? (H1 & H2 & H3) H']; subst. rewrite fold_left_app, <- IH by exact H'. f_equal.
  unfold level_step. destruct (exact v best) eqn:E; [symmetry; now apply fold_upd_exact|].
  now apply level_get_upd.
Qed.

Lemma mem_in_all s x : In x (st_mem s) -> In x (all_recs (tiers_of s)).
Proof.
  intro H. unfold tiers_of. apply all_recs_app. left. apply all_recs_single. cbn [concat]. now rewrite app_nil_r.
Qed.

Lemma imm_in_all s m x : In m (st_imms s) -> In x (snd m) -> In x (all_recs (tiers_of s)).
Proof.
  intros Hm Hx. unfold tiers_of. apply all_recs_app. right. apply all_recs_app. left.
  unfold all_recs. apply in_concat. exists (snd m). split; [|exact Hx].
  apply in_concat. exists [snd m]. split; [|now left].
  apply in_map_iff. exists m. split; [reflexivity|]. now apply -> in_rev.
Qed.

Lemma concat_map_single {A B} (f : A -> B) l : concat (map (fun m => [f m]) l) = map f l.
Proof. induction l as [|x l IH]; [reflexivity|]. cbn [map concat app]. now rewrite IH. Qed.

Lemma scan_srcs_eq s :
  scan_srcs s = (st_mem s :: map snd (rev (st_imms s))) ++ map t_recs (rev (st_l0 s))
                ++ concat (map level_srcs (st_lvls s)).
Proof.
  unfold scan_srcs, tiers_of. rewrite !concat_app. cbn [concat app]. rewrite app_nil_r.
  now rewrite (concat_map_single (@snd N (list rec))).
Qed.

Theorem get_is_flat s k v : src_inv s -> get s k v = tier_best k v (scan_srcs s).
Proof.
  intros [Hm Hi Hl0 Hlv Hpos]. unfold get, tier_best. rewrite scan_srcs_eq, !fold_left_app.
  rewrite fold_mem_step_upd.
  2:{ intros l x [<-|Hl] Hx; apply Hpos; [now apply mem_in_all|].
      apply in_map_iff in Hl as (m & <- & Hm'). apply in_rev in Hm'. now apply (imm_in_all s m). }
  set (b1 := fold_left (upd k v) (st_mem s :: map snd (rev (st_imms s))) None).
  rewrite (fold_level_step_upd k v (st_lvls s) _ Hlv). f_equal.
  destruct (exact v b1) eqn:E; [symmetry; now apply fold_upd_exact|].
  apply scan_tables_upd. rewrite Forall_forall in *. intros t Ht. apply in_rev in Ht. auto.
Qed.

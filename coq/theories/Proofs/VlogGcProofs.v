(** Proofs for C08, second part: garbage collection ([valueLog.rewrite]) at
    call-atomic granularity (write-back and file removal), refuting witnesses,
    and the interleaving model of GC against a writer. *)
From Coq Require Import List Arith NArith ZArith Bool Lia ZifyN ZifyNat ZifyBool.
From Coq Require Import Init.Byte.
From NoKV Require Import Base.Bytes Base.Num Base.Sched Model.EntryCodec Model.Lsm Model.Vlog
     Spec.MvccSpec Spec.VlogSpec Spec.LsmSpec Proofs.LsmRead Proofs.LsmMain Proofs.LsmPreserve Proofs.VlogProofs.
Import ListNotations.
Local Open Scope N_scope.

(** * GC, call-atomic: the write-back *)

(** what reads show of a write *)
Definition proj (w : rec) : bytes * N * N := (r_val w, N.ldiff (r_meta w) bit_vptr, r_exp w).

(** [r'] re-writes what is visible at its internal key: same bytes, user meta and expiry, newer ghost number *)
Definition dup_of (ws : list rec) (r' : rec) : Prop :=
  exists w, latest_at ws (r_key r') (r_ver r') = Some w /\ r_ver w = r_ver r' /\ proj w = proj r' /\
            forall y, In y ws -> r_seq y < r_seq r'.
Fixpoint dups (ws wb : list rec) : Prop :=
  match wb with [] => True | r :: wb' => dup_of ws r /\ dups (ws ++ [r]) wb' end.

Lemma latest_at_snoc ws r k v :
  latest_at (ws ++ [r]) k v = if cand k v r then pick_better (latest_at ws k v) r else latest_at ws k v.
Proof.
  unfold latest_at. rewrite filter_app, fold_left_app. cbn [filter]. destruct (cand k v r); reflexivity.
Qed.

Lemma latest_dup ws r' k v :
  seq_functional ws -> dup_of ws r' ->
  option_map proj (latest_at (ws ++ [r']) k v) = option_map proj (latest_at ws k v).
Proof.
  intros Hsf (w & Hw & Hver & Hproj & Hfresh). rewrite latest_at_snoc.
  destruct (cand k v r') eqn:Ec; [|reflexivity].
  apply cand_spec in Ec as [Ek Ev].
  pose proof (latest_at_is_latest ws (r_key r') (r_ver r')) as Lw. rewrite Hw in Lw. destruct Lw as (Hwin & [Hwk Hwv] & Hwbest).
  pose proof (latest_at_is_latest ws k v) as Ly.
  destruct (latest_at ws k v) as [y|].
  - destruct Ly as (Hyin & [Hyk Hyv] & Hybest). cbn [pick_better].
    destruct (better r' y) eqn:Eb; [|reflexivity]. cbn [option_map]. f_equal.
    assert (Hgy : geq y w) by (apply Hybest; [exact Hwin | split; [congruence | lia]]).
    unfold better in Eb. apply orb_true_iff in Eb.
    assert (Evy : r_ver y = r_ver r').
    { unfold geq in Hgy. destruct Eb as [Eb|Eb]; [apply N.ltb_lt in Eb; lia|].
      apply andb_true_iff in Eb as [Eb _]. apply N.eqb_eq in Eb. lia. }
    assert (Hgw : geq w y) by (apply Hwbest; [exact Hyin | split; [congruence | lia]]).
    assert (Eyw : y = w).
    { apply Hsf; [exact Hyin | exact Hwin|]. unfold geq in *. lia. }
    subst y. now rewrite Hproj.
  - exfalso. apply (Ly w Hwin). split; [congruence | lia].
Qed.

Lemma dups_latest wb : forall ws k v,
  seq_functional ws -> chain_ok ws wb -> dups ws wb ->
  option_map proj (latest_at (ws ++ wb) k v) = option_map proj (latest_at ws k v).
Proof.
  induction wb as [|r wb IH]; intros ws k v Hsf Hc Hd; [now rewrite app_nil_r|].
  destruct Hc as [(_ & H1) Hc], Hd as [Hd1 Hd]. replace (ws ++ r :: wb) with ((ws ++ [r]) ++ wb) by (now rewrite <- app_assoc).
  rewrite IH; [now apply latest_dup | now apply seq_functional_snoc | exact Hc | exact Hd].
Qed.

Definition oget (g : gres) : option (bytes * N * N) :=
  match g with GVal r => Some (r_val r, r_meta r, r_exp r) | _ => None end.

(** GC's write-back does not change what any read returns, provided the moved entries are the
    newest versions of their keys ([chain_ok]: the LSM read theorem's side condition, see
    [gc_old_version_witness] for what happens otherwise) and carry what is visible at their
    internal keys ([dups]). The file is NOT removed in this pass (the model, like the code,
    returns an error after a non-empty write-back). *)
Theorem gc_move_preserves c now d ws bk fid nseq wb :
  Inv c d ws -> gc_decide now d bk fid nseq = Some wb -> wb <> [] ->
  chain_ok ws wb -> Forall rec_ok wb -> dups ws wb -> vsmall (d_vl (db_write c d wb)) ->
  forall t k v, let d' := fst (rewrite c now d bk fid nseq) in
    gobs (db_get d' k v) = gobs (db_get d k v) /\ gobs (db_get_live t d' k v) = gobs (db_get_live t d k v).
Proof.
  intros HI Hdec Hne Hc Hok Hd Hsm t k v. cbn zeta. unfold db_get_live, rewrite. rewrite Hdec.
  assert (HI' : Inv c (db_write c d wb) (ws ++ wb)) by (now apply db_write_Inv).
  assert (Hsf : seq_functional ws) by (destruct HI as (? & ? & ? & ? & ? & ? & ? & H); exact H).
  assert (Hfin : fst (gc_finish c d bk fid wb) = db_write c d wb) by (destruct wb; [contradiction | reflexivity]).
  destruct (62 <? N.of_nat (length wb)); [split; reflexivity|]. rewrite Hfin.
  rewrite (Inv_get _ _ _ k v HI'), (Inv_get _ _ _ k v HI).
  pose proof (dups_latest wb ws k v Hsf Hc Hd) as H.
  destruct (latest_at (ws ++ wb) k v) as [a|], (latest_at ws k v) as [b|]; cbn in H; try discriminate; [|split; reflexivity].
  inversion H as [[H1 H2 H3]].
  assert (Hdead : dead t (norm a) = dead t (norm b)).
  { unfold dead, norm, set_val_meta. cbn [r_meta r_exp]. now rewrite H2, H3. }
  rewrite Hdead.
  assert (Hg : gobs (GVal (norm a)) = gobs (GVal (norm b))).
  { unfold norm, set_val_meta. cbn [gobs r_val r_meta]. now rewrite H1, H2. }
  split; [exact Hg|]. destruct (dead t (norm b)); [reflexivity | exact Hg].
Qed.

(** * GC, call-atomic: removing the file *)
Lemma nth_upd_same {A} (f : A -> A) : forall n l, nth_error (upd_nth n f l) n = option_map f (nth_error l n).
Proof. induction n as [|n IH]; intros [|x l]; cbn; auto. Qed.
Lemma nth_upd_other {A} (f : A -> A) : forall n m l, n <> m -> nth_error (upd_nth n f l) m = nth_error l m.
Proof.
  induction n as [|n IH]; intros [|m] [|x l] H; cbn; auto; try congruence; apply IH; congruence.
Qed.

Lemma find_file_remove b fid fid' : fid' <> fid -> find_file (remove_file b fid) fid' = find_file b fid'.
Proof.
  intro H. unfold find_file, remove_file. cbn [b_files]. induction (b_files b) as [|f l IH]; cbn; [reflexivity|].
  destruct (vf_fid f =? fid) eqn:E; cbn [negb].
  - apply N.eqb_eq in E. destruct (vf_fid f =? fid') eqn:E'; [apply N.eqb_eq in E'; congruence | exact IH].
  - cbn [find]. destruct (vf_fid f =? fid'); [reflexivity | exact IH].
Qed.

Lemma vl_read_remove vl bk fid p :
  ~ (p_bucket p = bk /\ p_fid p = fid) ->
  vl_read (upd_nth (N.to_nat bk) (fun b => remove_file b fid) vl) p = vl_read vl p.
Proof.
  intro H. unfold vl_read. destruct (N.eq_dec (p_bucket p) bk) as [E|E].
  - subst bk. rewrite nth_upd_same. destruct (nth_error vl (N.to_nat (p_bucket p))) as [b|]; [|reflexivity].
    cbn [option_map]. rewrite find_file_remove; [reflexivity|]. intro E. apply H. now split.
  - rewrite nth_upd_other; [reflexivity|]. intro E'. apply E. lia.
Qed.

Lemma collect_nil now s bk fid vs :
  gc_collect now s bk fid vs = Some [] -> forall v, In v vs -> gc_process now s bk fid v = DSkip.
Proof.
  induction vs as [|a vs IH]; intros H v Hv; [contradiction|]. cbn [gc_collect] in H.
  destruct (gc_process now s bk fid a) eqn:E; try discriminate.
  - destruct Hv as [<-|Hv]; [exact E | now apply IH].
  - destruct (gc_collect now s bk fid vs); discriminate.
Qed.

Lemma renumber_nil n wb : renumber n wb = [] -> wb = [].
Proof. destruct wb; [reflexivity | discriminate]. Qed.

Lemma latest_at_self ws k v x : seq_functional ws -> latest_at ws k v = Some x -> latest_at ws (r_key x) (r_ver x) = Some x.
Proof.
  intros Hsf H. pose proof (latest_at_is_latest ws k v) as L. rewrite H in L. destruct L as (Hin & [Hk Hv] & Hb).
  eapply is_latest_unique; [exact Hsf | apply latest_at_is_latest |].
  cbn. split; [exact Hin|]. split; [split; [reflexivity | lia]|].
  intros y Hy [Hyk Hyv]. apply Hb; [exact Hy|]. split; [congruence | lia].
Qed.

Lemma blen_enc_vptr p : blen (enc_vptr p) = 16.
Proof. reflexivity. Qed.

(** GC removes the file only when nothing had to be moved; then no read changes, provided no
    deleted/expired entry still points into the value log (otherwise: [C08-F31]). *)
Theorem gc_remove_preserves c now d ws bk fid nseq :
  Inv c d ws -> gc_decide now d bk fid nseq = Some [] ->
  forallb (fun w => negb (is_big c w && dead now w)) ws = true ->
  forall k v, db_get (fst (rewrite c now d bk fid nseq)) k v = db_get d k v.
Proof.
  intros HI Hdec Hlive k v. unfold rewrite. rewrite Hdec. cbn [length N.of_nat N.ltb N.compare gc_finish fst].
  unfold db_get. cbn [d_lsm d_vl]. destruct (get (d_lsm d) k v) as [x|] eqn:Eg; [|reflexivity].
  unfold resolve. destruct (is_ptr x) eqn:Ep; [|reflexivity].
  rewrite vl_read_remove; [reflexivity|]. intros [Hb Hf].
  (* the pointer of a visible entry would make GC move its record *)
  destruct HI as (lws & HJ & Hst & Hwf & Hsm & Hok & Hlen & Hsf).
  pose proof (J_get_latest _ _ k v HJ) as Hgl. rewrite Eg in Hgl. symmetry in Hgl.
  pose proof (latest_at_rel (stored c (d_vl d)) ws lws k v (stored_image c (d_vl d)) Hst) as Hr.
  rewrite Hgl in Hr. destruct (latest_at ws k v) as [w|] eqn:Ew; cbn in Hr; [|contradiction].
  pose proof (latest_at_is_latest ws k v) as Lw. rewrite Ew in Lw. destruct Lw as (Hwin & _ & _).
  unfold stored in Hr. destruct (is_big c w) eqn:Ebig.
  2:{ subst x. unfold is_ptr, set_val_meta in Ep. cbn [r_meta] in Ep. rewrite N.ldiff_spec in Ep.
      change (N.testbit bit_vptr 1) with true in Ep. now rewrite andb_false_r in Ep. }
  destruct Hr as (p & v0 & Ex & Hl & Hrec & Hp).
  assert (Hnd : dead now x = false).
  { rewrite forallb_forall in Hlive. specialize (Hlive w Hwin). rewrite Ebig in Hlive. cbn [andb] in Hlive.
    apply negb_true_iff in Hlive. rewrite Ex. unfold dead in *. cbn [set_val_meta r_meta r_exp].
    rewrite N.lor_spec. change (N.testbit bit_vptr 0) with false. now rewrite orb_false_r. }
  destruct (lookup_small _ _ _ Hsm Hwf Hl Hp) as (P1 & P2 & P3 & P4).
  assert (Hdp : decode_vptr (r_val x) = p) by (rewrite Ex; cbn [set_val_meta r_val]; now apply rt_vptr').
  rewrite Hdp in Hb, Hf.
  (* the record lies in the file GC iterated *)
  unfold gc_decide in Hdec. unfold vl_lookup in Hl. rewrite Hb in Hl.
  destruct (nth_error (d_vl d) (N.to_nat bk)) as [b|]; [|discriminate].
  destruct (b_active b <=? fid); [discriminate|].
  unfold b_lookup in Hl. rewrite Hf in Hl. destruct (find_file b fid) as [f|]; [|discriminate].
  destruct (gc_collect now (d_lsm d) bk fid (vf_recs f)) as [wb|] eqn:Ec; [|discriminate].
  cbn [option_map] in Hdec. inversion Hdec as [Hwb]. apply renumber_nil in Hwb. subst wb.
  unfold f_lookup in Hl. destruct (find (fun v1 => vr_off v1 =? p_off p) (vf_recs f)) as [v1|] eqn:Ef; [|discriminate].
  destruct (vr_len v1 =? p_len p); [|discriminate]. inversion Hl; subst v1. apply find_some in Ef as [Hin Eo]. apply N.eqb_eq in Eo.
  pose proof (collect_nil _ _ _ _ _ Ec v0 Hin) as Hskip.
  (* ... but GC's own lookup finds x again *)
  assert (Hself : get (d_lsm d) (r_key (vr_rec v0)) (r_ver (vr_rec v0)) = Some x).
  { rewrite (J_get_latest _ _ _ _ HJ). rewrite Hrec.
    assert (Eid : r_key x = r_key w /\ r_ver x = r_ver w) by (rewrite Ex; split; reflexivity).
    destruct Eid as [<- <-]. apply (latest_at_self lws k v); [exact (j_seq _ _ HJ) | exact Hgl]. }
  unfold gc_process in Hskip. rewrite Hself in Hskip.
  rewrite Hnd, Ep in Hskip. cbn [orb negb] in Hskip.
  assert (Hlen16 : blen (r_val x) = 16) by (rewrite Ex; reflexivity).
  rewrite Hlen16, Hdp, Hb, N.eqb_refl in Hskip. cbn [N.eqb negb] in Hskip.
  unfold ptr_here in Hskip. rewrite Hf, Eo, !N.eqb_refl in Hskip. cbn in Hskip. discriminate.
Qed.

(** the hypotheses of the two theorems are satisfiable *)
Definition g_cfg : cfg := {| c_thr := 32; c_max := 300; c_nb := 1 |}.
Definition g_rec (k : byte) (v : bytes) (meta seq : N) : rec :=
  {| r_key := [xff; x43; x46; x00; k]; r_ver := max_ver; r_val := v; r_meta := meta; r_exp := 0; r_seq := seq |}.
Definition g_ops : list vop :=
  [ VWrite [g_rec x61 (repeat x31 200) 0 1]; VWrite [g_rec x62 (repeat x32 200) 0 2] ].
Definition g_db0 : db := vrun g_cfg (init_db g_cfg 1) g_ops.
Definition g_moved : list rec := [g_rec x61 (repeat x31 200) 0 3].

Example gc_move_hyp_ex :
  ops_okb g_cfg (init_db g_cfg 1) [] g_ops = true /\
  gc_decide 0 g_db0 0 0 3 = Some g_moved /\ chain_okb (vwrites g_ops) g_moved = true /\
  forallb rec_okb g_moved = true /\ dups (vwrites g_ops) g_moved /\ vsmallb (d_vl (db_write g_cfg g_db0 g_moved)) = true.
Proof.
  split; [vm_compute; reflexivity|]. split; [vm_compute; reflexivity|]. split; [vm_compute; reflexivity|].
  split; [vm_compute; reflexivity|]. split; [|vm_compute; reflexivity].
  cbn [dups g_moved]. split; [|exact I]. eexists. split; [vm_compute; reflexivity|].
  split; [reflexivity|]. split; [reflexivity|]. intros y [<-|[<-|[]]]; vm_compute; reflexivity.
Qed.

(** a file whose only record was overwritten: nothing to move, the file goes *)
Definition g_ops2 : list vop :=
  [ VWrite [g_rec x61 (repeat x31 200) 0 1]; VWrite [g_rec x61 (repeat x32 200) 0 2] ].
Example gc_remove_hyp_ex :
  ops_okb g_cfg (init_db g_cfg 1) [] g_ops2 = true /\
  gc_decide 0 (vrun g_cfg (init_db g_cfg 1) g_ops2) 0 0 3 = Some [] /\
  forallb (fun w => negb (is_big g_cfg w && dead 0 w)) (vwrites g_ops2) = true.
Proof. vm_compute. repeat split. Qed.

(** * Witnesses *)
Definition w_cfg : cfg := {| c_thr := 32; c_max := 300; c_nb := 1 |}.
Definition w_key (k : byte) : bytes := [xff; x43; x46; x00; k].
Definition w_rec (k : byte) (ver : N) (v : bytes) (meta seq : N) : rec :=
  {| r_key := w_key k; r_ver := ver; r_val := v; r_meta := meta; r_exp := 0; r_seq := seq |}.

(** Call-atomic: a transaction writes a with an expiry that has passed at [now] = 5, another
    write seals value-log file 0; GC drops the expired record, moves nothing and removes the file,
    while the LSM entry still points into it: GetVersionedEntry / Get fail in the value log. *)
Definition w_exp_rec : rec :=
  {| r_key := w_key x61; r_ver := 1; r_val := repeat x31 200; r_meta := 0; r_exp := 1; r_seq := 1 |}.
Definition w_old_ops : list vop := [ VWrite [w_exp_rec]; VWrite [w_rec x62 2 (repeat x32 200) 0 2] ].
Definition w_old_db : db := vrun w_cfg (init_db w_cfg 1) w_old_ops.

Lemma gc_expired_witness :
  ops_okb w_cfg (init_db w_cfg 1) [] w_old_ops = true /\
  gobs (db_get w_old_db (w_key x61) max_ver) = OVal (repeat x31 200) 0 /\
  gobs (db_get_live 5 w_old_db (w_key x61) max_ver) = ONone /\
  gobs (db_get (fst (rewrite w_cfg 5 w_old_db 0 0 3)) (w_key x61) max_ver) = OErr /\
  gobs (db_get_live 5 (fst (rewrite w_cfg 5 w_old_db 0 0 3)) (w_key x61) max_ver) = OErr.
Proof. vm_compute. repeat split. Qed.

(** Schedules: plain Set a (200 bytes), Set b (file 0 is sealed), then GC of file 0 against
    a writer that overwrites / deletes a. *)
Definition w_race_db : db :=
  vrun w_cfg (init_db w_cfg 1)
       [ VWrite [w_rec x61 max_ver (repeat x31 200) 0 1]; VWrite [w_rec x62 max_ver (repeat x32 200) 0 2] ].
Definition w_race_g0 (batch : list rec) : gstate :=
  {| g_db := w_race_db; g_pc := GcStart; g_todo := [batch];
     g_acked := [w_rec x61 max_ver (repeat x31 200) 0 1; w_rec x62 max_ver (repeat x32 200) 0 2] |}.
Definition w_set : list rec := [w_rec x61 max_ver (repeat x33 40) 0 3].
Definition w_del : list rec := [w_rec x61 max_ver [] 1 3].
Definition w_final (batch : list rec) (sched : list gthread) : gstate :=
  Sched.run (gtstep w_cfg 0 0 0 4) (w_race_g0 batch) sched.

Lemma race_witness_set :
  let g := w_final w_set [TGc; TWr; TGc] in
  spec_getv (g_acked g) (w_key x61) max_ver = OVal (repeat x33 40) 0 /\
  gobs (db_get (g_db g) (w_key x61) max_ver) = OVal (repeat x31 200) 0.
Proof. vm_compute. split; reflexivity. Qed.

Lemma race_witness_del :
  let g := w_final w_del [TGc; TWr; TGc] in
  spec_get 0 (g_acked g) (w_key x61) max_ver = ONone /\
  gobs (db_get_live 0 (g_db g) (w_key x61) max_ver) = OVal (repeat x31 200) 0.
Proof. vm_compute. split; reflexivity. Qed.

(** the serial orders are fine on the same input *)
Lemma race_serial_ok :
  let g1 := w_final w_set [TWr; TGc; TGc] in
  let g2 := w_final w_set [TGc; TGc; TWr] in
  gobs (db_get (g_db g1) (w_key x61) max_ver) = OVal (repeat x33 40) 0 /\
  gobs (db_get (g_db g2) (w_key x61) max_ver) = OVal (repeat x33 40) 0.
Proof. vm_compute. split; reflexivity. Qed.

(** * Schedules: with a decision that the writer does not invalidate, every interleaving is serial *)
Section Serial.
  Variables (c : cfg) (now bk fid nseq : N) (d0 : db) (batch acked0 : list rec).
  Let g0 : gstate := {| g_db := d0; g_pc := GcStart; g_todo := [batch]; g_acked := acked0 |}.
  Let W (d : db) : db := db_write c d batch.
  Let GC (d : db) : db := fst (rewrite c now d bk fid nseq).

  (** the writer's request does not change what GC decides *)
  Hypothesis stable : gc_decide now (W d0) bk fid nseq = gc_decide now d0 bk fid nseq.

  Lemma GC_eq d : GC d = gc_step2 c d bk fid (gc_decide now d bk fid nseq).
  Proof.
    unfold GC, rewrite, gc_step2. destruct (gc_decide now d bk fid nseq) as [wb|]; [|reflexivity].
    destruct (62 <? N.of_nat (length wb)); reflexivity.
  Qed.

  (** outcomes of the serial executions (GC call-atomic), and the states in between *)
  Definition serial (g : gstate) : Prop :=
    match g_pc g, g_todo g with
    | GcStart, [b] => b = batch /\ g_db g = d0
    | GcStart, [] => g_db g = W d0
    | GcDecided o, [b] => b = batch /\ g_db g = d0 /\ o = gc_decide now d0 bk fid nseq
    | GcDecided o, [] => g_db g = W d0 /\ o = gc_decide now (W d0) bk fid nseq
    | GcDone, [b] => b = batch /\ g_db g = GC d0
    | GcDone, [] => g_db g = GC (W d0) \/ g_db g = W (GC d0)
    | _, _ => False
    end.

  Lemma serial_all sched : serial (Sched.run (gtstep c now bk fid nseq) g0 sched).
  Proof.
    apply inv_run; [cbn; auto|].
    intros g t g' Hs Ht. destruct g as [d pc todo ack]. unfold serial in Hs. cbn [g_pc g_todo g_db] in Hs.
    destruct t; cbn [gtstep g_pc g_todo g_db g_acked] in Ht.
    - destruct pc as [|o|]; inversion Ht; subst g'; clear Ht; unfold serial; cbn [g_pc g_todo g_db].
      + destruct todo as [|b [|]]; try contradiction.
        * subst d. split; reflexivity.
        * destruct Hs as [-> ->]. repeat split.
      + destruct todo as [|b [|]]; try contradiction.
        * destruct Hs as [-> ->]. left. now rewrite GC_eq.
        * destruct Hs as (-> & -> & ->). split; [reflexivity|]. now rewrite GC_eq.
    - destruct todo as [|b rest]; [discriminate|]. inversion Ht; subst g'; clear Ht.
      unfold serial; cbn [g_pc g_todo g_db]. destruct pc as [|o|]; destruct rest; try contradiction.
      + destruct Hs as [-> ->]. reflexivity.
      + destruct Hs as (-> & -> & ->). split; [reflexivity | now rewrite stable].
      + destruct Hs as [-> ->]. right. reflexivity.
  Qed.
End Serial.

(** the stability hypothesis is satisfiable with a writer on the SAME user key when versions are
    unique: a transaction commits a new version of a while GC moves version 1 *)
Definition w_txn_db : db :=
  vrun w_cfg (init_db w_cfg 1)
       [ VWrite [w_rec x61 1 (repeat x31 200) 0 1]; VWrite [w_rec x62 2 (repeat x32 200) 0 2] ].
Example stable_ex :
  gc_decide 0 (db_write w_cfg w_txn_db [w_rec x61 3 (repeat x33 40) 0 3]) 0 0 4 = gc_decide 0 w_txn_db 0 0 4 /\
  exists wb, gc_decide 0 w_txn_db 0 0 4 = Some wb /\ wb <> [].
Proof. vm_compute. split; [reflexivity|]. eexists. split; [reflexivity | discriminate]. Qed.
(** ... and fails on the refuting input *)
Example unstable_ex :
  gc_decide 0 (db_write w_cfg w_race_db w_set) 0 0 4 <> gc_decide 0 w_race_db 0 0 4.
Proof. vm_compute. discriminate. Qed.

(** * Every value-log record is a write of the history *)
Definition bfrom (ws : list rec) (b : bucket) : Prop :=
  forall f vr, In f (b_files b) -> In vr (vf_recs f) -> In (vr_rec vr) ws.

Lemma bfrom_mono ws ws' b : incl ws ws' -> bfrom ws b -> bfrom ws' b.
Proof. intros Hi H f vr Hf Hv. apply Hi. eauto. Qed.

Lemma place_in start rs v : In v (place start rs) -> In (vr_rec v) rs.
Proof.
  revert start. induction rs as [|r rs IH]; intros start H; cbn in H; [contradiction|].
  destruct H as [<-|H]; [now left | right; eauto].
Qed.

Lemma bfrom_add ws b fid vs :
  bfrom ws b -> (forall v, In v vs -> In (vr_rec v) ws) -> bfrom ws (add_recs b fid vs).
Proof.
  intros Hb Hvs f vr Hf Hv. apply in_add_recs in Hf as (f0 & H0 & ->). unfold add_to_file in Hv.
  destruct (vf_fid f0 =? fid); [|eauto]. cbn [vf_recs] in Hv. apply in_app_or in Hv as [Hv|Hv]; eauto.
Qed.

Lemma bfrom_files ws b b' : (forall f, In f (b_files b') -> In f (b_files b) \/ vf_recs f = []) -> bfrom ws b -> bfrom ws b'.
Proof. intros H Hb f vr Hf Hv. destruct (H f Hf) as [H0|H0]; [eauto | rewrite H0 in Hv; contradiction]. Qed.

Lemma bfrom_reserve ws c b sz : bfrom ws b -> bfrom ws (fst (fst (reserve c b sz))).
Proof.
  intro Hb. apply (bfrom_files ws b); [|exact Hb]. unfold reserve.
  set (b0 := if b_off b <? vl_header then _ else b).
  assert (H0 : b_files b0 = b_files b) by (unfold b0; destruct (b_off b <? vl_header); reflexivity).
  destruct (c_max c <? b_off b0 + sz); cbn [fst b_files rotate_b]; rewrite H0; intros f Hf; [|now left].
  apply in_app_or in Hf as [Hf|[<-|[]]]; [now left | now right].
Qed.

Lemma bfrom_append_each ws c bk rs : forall b, bfrom ws b -> incl rs ws -> bfrom ws (fst (append_each c bk b rs)).
Proof.
  induction rs as [|r rs IH]; intros b Hb Hi; cbn [append_each]; [exact Hb|].
  pose proof (bfrom_reserve ws c b (rec_len r) Hb) as Hr.
  destruct (reserve c b (rec_len r)) as [[b1 fid] start]. cbn [fst] in Hr.
  set (b2 := add_recs b1 fid [{| vr_off := start; vr_len := rec_len r; vr_rec := r |}]).
  assert (H2 : bfrom ws b2).
  { apply bfrom_add; [exact Hr|]. intros v [<-|[]]. cbn. apply Hi. now left. }
  specialize (IH b2 H2 (fun x Hx => Hi x (or_intror Hx))).
  destruct (append_each c bk b2 rs) as [b3 ps]. exact IH.
Qed.

Lemma bfrom_append ws c bk b rs : bfrom ws b -> incl rs ws -> bfrom ws (fst (append_entries c bk b rs)).
Proof.
  intros Hb Hi. unfold append_entries. destruct rs as [|r0 rs0]; [exact Hb|]. set (rs := r0 :: rs0) in *.
  destruct ((0 <? c_max c) && (c_max c <? total_len rs)); [now apply bfrom_append_each|].
  pose proof (bfrom_reserve ws c b (total_len rs) Hb) as Hr.
  destruct (reserve c b (total_len rs)) as [[b1 fid] start]. cbn [fst] in *.
  apply bfrom_add; [exact Hr|]. intros v Hv. apply Hi. now apply (place_in start).
Qed.

Lemma vfrom_write ws c batch : forall vl bk, Forall (bfrom ws) vl -> incl batch ws ->
  Forall (bfrom ws) (fst (write_buckets c bk vl batch)).
Proof.
  induction vl as [|b vl IH]; intros bk H Hi; cbn [write_buckets]; [constructor|].
  inversion H as [|? ? Hb Hvl]; subst.
  pose proof (bfrom_append ws c bk b (group c bk batch) Hb) as Ha.
  destruct (append_entries c bk b (group c bk batch)) as [b' ps]. specialize (IH (bk + 1) Hvl Hi).
  destruct (write_buckets c (bk + 1) vl batch) as [vl' pss]. cbn [fst] in *. constructor; [|exact IH].
  apply Ha. intros x Hx. apply Hi. unfold group in Hx. now apply filter_In in Hx as [Hx _].
Qed.

Definition vfrom (ws : list rec) (vl : list bucket) : Prop := Forall (bfrom ws) vl.

Lemma db_write_from c d ws batch : vfrom ws (d_vl d) -> vfrom (ws ++ batch) (d_vl (db_write c d batch)).
Proof.
  intro H. unfold db_write.
  pose proof (vfrom_write (ws ++ batch) c batch (d_vl d) 0) as Hw.
  destruct (write_buckets c 0 (d_vl d) batch) as [vl' pss]. cbn [fst d_vl] in *. apply Hw.
  - eapply Forall_impl; [|exact H]. intros b. apply bfrom_mono. now apply incl_appl.
  - now apply incl_appr.
Qed.

Lemma vrun_from c ops : forall d hist, vfrom hist (d_vl d) -> vfrom (hist ++ vwrites ops) (d_vl (vrun c d ops)).
Proof.
  induction ops as [|o ops IH]; intros d hist H; cbn [vrun fold_left].
  - unfold vwrites. cbn. now rewrite app_nil_r.
  - change (fold_left (vapply c) ops (vapply c d o)) with (vrun c (vapply c d o) ops).
    unfold vwrites. cbn [map concat]. fold (vwrites ops). destruct o as [b| |]; cbn [vapply app].
    + rewrite app_assoc. apply IH. now apply db_write_from.
    + apply IH. exact H.
    + apply IH. exact H.
Qed.

Lemma init_from c m : vfrom [] (d_vl (init_db c m)).
Proof.
  unfold init_db, vfrom. cbn [d_vl]. apply Forall_forall. intros b Hb. apply repeat_spec in Hb. subst.
  intros f vr [<-|[]] [].
Qed.

(** * Histories in which an internal key determines what was written under it *)
Definition ikey_fun (ws : list rec) : Prop :=
  forall a b, In a ws -> In b ws -> r_key a = r_key b -> r_ver a = r_ver b -> proj a = proj b.

(** the record GC writes back for the value-log record [e], with ghost number [n] *)
Definition mvrec (e : rec) (n : N) : rec :=
  {| r_key := r_key e; r_ver := r_ver e; r_val := r_val e; r_meta := N.ldiff (r_meta e) bit_vptr; r_exp := r_exp e; r_seq := n |}.

Lemma ldiff_idem m : N.ldiff (N.ldiff m 2) 2 = N.ldiff m 2.
Proof. rewrite N.ldiff_ldiff_l. reflexivity. Qed.

Lemma proj_mvrec e n : proj (mvrec e n) = proj e.
Proof. unfold proj, mvrec. cbn. now rewrite ldiff_idem. Qed.

Lemma ldiff_lt256 m : m < 256 -> N.ldiff m 2 < 256.
Proof.
  intro H. assert (E : N.ldiff m 2 = N.ldiff m 2 mod 2 ^ 8).
  { apply N.bits_inj. intro i. destruct (i <? 8) eqn:Ei.
    - apply N.ltb_lt in Ei. now rewrite N.mod_pow2_bits_low.
    - apply N.ltb_ge in Ei. rewrite N.mod_pow2_bits_high by exact Ei. rewrite N.ldiff_spec.
      rewrite <- (N.mod_small m (2 ^ 8)) by exact H. now rewrite N.mod_pow2_bits_high. }
  rewrite E. apply N.mod_lt. discriminate.
Qed.

Lemma rec_ok_mvrec e n : rec_ok e -> rec_ok (mvrec e n).
Proof.
  unfold rec_ok, entry_ok, entry_of, mvrec. cbn. intros (H1 & H2 & H3 & H4). repeat split; auto. now apply ldiff_lt256.
Qed.

Lemma moved_dup hist e n :
  In e hist -> ikey_fun hist -> (forall y, In y hist -> r_seq y < n) -> dup_of hist (mvrec e n).
Proof.
  intros He Hf Hn. unfold dup_of. cbn [mvrec r_key r_ver r_seq].
  pose proof (latest_at_is_latest hist (r_key e) (r_ver e)) as L.
  destruct (latest_at hist (r_key e) (r_ver e)) as [w|].
  - destruct L as (Hw & [Hk Hv] & Hb). exists w. split; [reflexivity|].
    assert (Hg : geq w e) by (apply Hb; [exact He | split; [reflexivity | lia]]).
    assert (Ev : r_ver w = r_ver e) by (unfold geq in Hg; lia).
    split; [exact Ev|]. split; [|exact Hn]. rewrite proj_mvrec. now apply Hf.
  - exfalso. apply (L e He). split; [reflexivity | lia].
Qed.

Lemma ikey_fun_snoc hist e n : In e hist -> ikey_fun hist -> ikey_fun (hist ++ [mvrec e n]).
Proof.
  intros He Hf a b Ha Hb Hk Hv.
  assert (Hin : forall x, In x (hist ++ [mvrec e n]) -> exists y, In y hist /\ r_key y = r_key x /\ r_ver y = r_ver x /\ proj y = proj x).
  { intros x Hx. apply in_app_or in Hx as [Hx|[<-|[]]]; [exists x; auto|]. exists e. rewrite proj_mvrec. auto. }
  destruct (Hin a Ha) as (a' & Ha' & Ka & Va & Pa), (Hin b Hb) as (b' & Hb' & Kb & Vb & Pb).
  rewrite <- Pa, <- Pb. apply Hf; congruence.
Qed.

(** every moved record comes from a record of the iterated file *)
Lemma collect_src now s bk fid vs wb0 :
  gc_collect now s bk fid vs = Some wb0 ->
  Forall (fun r => exists vr, In vr vs /\ r = mvrec (vr_rec vr) (r_seq (vr_rec vr))) wb0.
Proof.
  revert wb0. induction vs as [|v vs IH]; intros wb0 H; cbn [gc_collect] in H; [inversion H; constructor|].
  destruct (gc_process now s bk fid v) eqn:Ep; [| |discriminate].
  - eapply Forall_impl; [|apply IH; exact H]. intros r (vr & Hv & Hr). exists vr. split; [now right | exact Hr].
  - destruct (gc_collect now s bk fid vs) as [wb1|]; [|discriminate]. inversion H; subst wb0. constructor.
    + exists v. split; [now left|]. unfold gc_process in Ep.
      repeat match type of Ep with (if ?c then _ else _) = _ => destruct c; try discriminate end.
      inversion Ep. reflexivity.
    + eapply Forall_impl; [|apply IH; reflexivity]. intros r' (vr & Hv & Hr). exists vr. split; [now right | exact Hr].
Qed.

Lemma renumber_ok wb0 : forall hist n,
  Forall (fun r => exists e m, In e hist /\ r = mvrec e m) wb0 ->
  ikey_fun hist -> (forall w, In w hist -> 0 < r_ver w) -> Forall rec_ok hist -> (forall y, In y hist -> r_seq y < n) ->
  chain_ok hist (renumber n wb0) /\ dups hist (renumber n wb0) /\ Forall rec_ok (renumber n wb0).
Proof.
  induction wb0 as [|r wb0 IH]; intros hist n Hsrc Hf Hpos Hok Hn; cbn [renumber chain_ok dups]; [repeat split; constructor|].
  inversion Hsrc as [|? ? (e & m & He & ->) Hrest]; subst. cbn [mvrec r_key r_ver r_val r_meta r_exp].
  change {| r_key := r_key e; r_ver := r_ver e; r_val := r_val e; r_meta := N.ldiff (r_meta e) bit_vptr; r_exp := r_exp e; r_seq := n |}
    with (mvrec e n).
  rewrite Forall_forall in Hok.
  destruct (IH (hist ++ [mvrec e n]) (n + 1)) as (C & D & R).
  - eapply Forall_impl; [|exact Hrest]. intros r' (e' & m' & He' & ->). exists e', m'. split; [apply in_or_app; now left | reflexivity].
  - now apply ikey_fun_snoc.
  - intros w Hw. apply in_app_or in Hw as [Hw|[<-|[]]]; [auto | cbn; auto].
  - apply Forall_forall. intros w Hw. apply in_app_or in Hw as [Hw|[<-|[]]]; [auto | apply rec_ok_mvrec; auto].
  - intros y Hy. apply in_app_or in Hy as [Hy|[<-|[]]]; [specialize (Hn y Hy); lia | cbn; lia].
  - split; [split; [split; [cbn; auto | cbn; exact Hn] | exact C]|]. split; [split; [now apply moved_dup | exact D]|].
    constructor; [apply rec_ok_mvrec; auto | exact R].
Qed.

(** * GC, call-atomic, on histories whose internal keys determine their value *)
Theorem gc_preserves_unique c now d ws bk fid nseq :
  Inv c d ws -> vfrom ws (d_vl d) -> ikey_fun ws ->
  (forall w, In w ws -> 0 < r_ver w) -> (forall y, In y ws -> r_seq y < nseq) ->
  forallb (fun w => negb (is_big c w && dead now w)) ws = true ->
  vsmall (d_vl (fst (rewrite c now d bk fid nseq))) ->
  forall t k v, let d' := fst (rewrite c now d bk fid nseq) in
    gobs (db_get d' k v) = gobs (db_get d k v) /\ gobs (db_get_live t d' k v) = gobs (db_get_live t d k v).
Proof.
  intros HI Hfrom Hf Hpos Hn Hlive Hsm t k v. cbn zeta.
  destruct (gc_decide now d bk fid nseq) as [wb|] eqn:Hdec.
  2:{ unfold rewrite. rewrite Hdec. split; reflexivity. }
  destruct wb as [|r0 wb'] eqn:Ewb.
  - pose proof (gc_remove_preserves c now d ws bk fid nseq HI Hdec Hlive) as H.
    unfold db_get_live. rewrite !H. split; reflexivity.
  - rewrite <- Ewb in Hdec.
    assert (Hside : chain_ok ws wb /\ dups ws wb /\ Forall rec_ok wb).
    { unfold gc_decide in Hdec.
      destruct (nth_error (d_vl d) (N.to_nat bk)) as [b|] eqn:En; [|discriminate].
      destruct (b_active b <=? fid); [discriminate|].
      destruct (find_file b fid) as [f|] eqn:Ef; [|discriminate].
      destruct (gc_collect now (d_lsm d) bk fid (vf_recs f)) as [wb0|] eqn:Ec; [|discriminate].
      cbn [option_map] in Hdec. inversion Hdec as [Hwb].
      destruct HI as (lws & _ & _ & _ & _ & Hok & _ & _).
      apply renumber_ok; auto.
      eapply Forall_impl; [|exact (collect_src _ _ _ _ _ _ Ec)]. intros r (vr & Hv & ->).
      exists (vr_rec vr), (r_seq (vr_rec vr)). split; [|reflexivity].
      apply nth_error_In in En. destruct (find_file_some _ _ _ Ef) as [Hin _].
      unfold vfrom in Hfrom. rewrite Forall_forall in Hfrom. exact (Hfrom b En f vr Hin Hv). }
    destruct Hside as (Hc & Hd & Hr).
    assert (Hne : wb <> []) by (subst wb; discriminate).
    destruct (62 <? N.of_nat (length wb)) eqn:E62.
    { unfold rewrite. rewrite Hdec, E62. split; reflexivity. }
    assert (Hsm' : vsmall (d_vl (db_write c d wb))).
    { unfold rewrite in Hsm. rewrite Hdec, E62 in Hsm. subst wb. exact Hsm. }
    exact (gc_move_preserves c now d ws bk fid nseq wb HI Hdec Hne Hc Hr Hd Hsm' t k v).
Qed.

(** the same for a state reached by any admissible history *)
Definition ikey_funb (ws : list rec) : bool :=
  forallb (fun a => forallb (fun b =>
     negb (bytes_eqb (r_key a) (r_key b) && (r_ver a =? r_ver b)) ||
     (bytes_eqb (r_val a) (r_val b) && (N.ldiff (r_meta a) bit_vptr =? N.ldiff (r_meta b) bit_vptr) && (r_exp a =? r_exp b))) ws) ws.

Lemma ikey_funb_spec ws : ikey_funb ws = true -> ikey_fun ws.
Proof.
  unfold ikey_funb, ikey_fun. rewrite forallb_forall. intros H a b Ha Hb Hk Hv.
  specialize (H a Ha). rewrite forallb_forall in H. specialize (H b Hb).
  rewrite Hk, Hv, bytes_eqb_refl, N.eqb_refl in H. cbn [andb negb orb] in H.
  apply andb_true_iff in H as [H H3]. apply andb_true_iff in H as [H1 H2].
  apply bytes_eqb_eq in H1. apply N.eqb_eq in H2, H3. unfold proj. now rewrite H1, H2, H3.
Qed.

Theorem gc_preserves_unique_run c m ops now bk fid nseq :
  c_nb c <= two32 -> ops_okb c (init_db c m) [] ops = true ->
  let ws := vwrites ops in
  let d := vrun c (init_db c m) ops in
  ikey_funb ws = true ->
  forallb (fun w => (0 <? r_ver w) && (r_seq w <? nseq) && negb (is_big c w && dead now w)) ws = true ->
  vsmallb (d_vl (fst (rewrite c now d bk fid nseq))) = true ->
  forall t k v, let d' := fst (rewrite c now d bk fid nseq) in
    gobs (db_get d' k v) = gobs (db_get d k v) /\ gobs (db_get_live t d' k v) = gobs (db_get_live t d k v).
Proof.
  intros Hnb Hok ws d Hf Hall Hsm.
  assert (HI : Inv c d ([] ++ ws)) by (apply vrun_Inv; [now apply init_Inv | exact Hok]).
  assert (Hfrom : vfrom ([] ++ ws) (d_vl d)) by (apply vrun_from, init_from).
  cbn [app] in HI, Hfrom. rewrite forallb_forall in Hall.
  apply (gc_preserves_unique c now d ws bk fid nseq HI Hfrom (ikey_funb_spec _ Hf)).
  - intros w Hw. specialize (Hall w Hw). apply andb_true_iff in Hall as [Hall _]. apply andb_true_iff in Hall as [H _]. now apply N.ltb_lt.
  - intros w Hw. specialize (Hall w Hw). apply andb_true_iff in Hall as [Hall _]. apply andb_true_iff in Hall as [_ H]. now apply N.ltb_lt.
  - apply forallb_forall. intros w Hw. specialize (Hall w Hw). now apply andb_true_iff in Hall as [_ H].
  - now apply vsmallb_spec.
Qed.

(** the hypotheses hold on the input that used to refute the statement: two transactions write a,
    the memtable is sealed, GC rewrites the file of version 1 and does move it *)
Definition u_ops : list vop :=
  [ VWrite [w_rec x61 1 (repeat x31 200) 0 1]; VWrite [w_rec x61 2 (repeat x32 200) 0 2]; VRotate ].
Example gc_unique_hyp_ex :
  ops_okb w_cfg (init_db w_cfg 1) [] u_ops = true /\ ikey_funb (vwrites u_ops) = true /\
  forallb (fun w => (0 <? r_ver w) && (r_seq w <? 3) && negb (is_big w_cfg w && dead 0 w)) (vwrites u_ops) = true /\
  vsmallb (d_vl (fst (rewrite w_cfg 0 (vrun w_cfg (init_db w_cfg 1) u_ops) 0 0 3))) = true /\
  gc_decide 0 (vrun w_cfg (init_db w_cfg 1) u_ops) 0 0 3 = Some [w_rec x61 1 (repeat x31 200) 0 3] /\
  gobs (db_get (fst (rewrite w_cfg 0 (vrun w_cfg (init_db w_cfg 1) u_ops) 0 0 3)) (w_key x61) max_ver) = OVal (repeat x32 200) 0.
Proof. vm_compute. repeat split. Qed.

(** * The routed model (hot/cold buckets) with the static route is the proved model *)
Definition static_route (c : cfg) (batch : list rec) : list (rec * N) :=
  map (fun r => (r, bucket_of c (r_key r))) batch.

Lemma group_r_static c bk batch : group_r c bk (static_route c batch) = group c bk batch.
Proof.
  unfold group_r, group, static_route. induction batch as [|r b IH]; cbn [map filter]; [reflexivity|].
  cbn [fst snd]. destruct (is_big c r && (bucket_of c (r_key r) =? bk)); cbn [map fst]; now rewrite IH.
Qed.

Lemma write_buckets_r_static c batch : forall vl bk,
  write_buckets_r c bk vl (static_route c batch) = write_buckets c bk vl batch.
Proof.
  induction vl as [|b vl IH]; intro bk; cbn [write_buckets_r write_buckets]; [reflexivity|].
  now rewrite group_r_static, IH.
Qed.

Lemma lsm_entries_r_static c : forall batch pss,
  lsm_entries_r c (static_route c batch) pss = lsm_entries c batch pss.
Proof.
  induction batch as [|r b IH]; intro pss; cbn [static_route map lsm_entries_r lsm_entries]; [reflexivity|].
  fold (static_route c b). destruct (is_big c r).
  - destruct (pop_nth (N.to_nat (bucket_of c (r_key r))) pss) as [o pss']. now rewrite IH.
  - now rewrite IH.
Qed.

Theorem db_write_r_static c d batch : db_write_r c d (static_route c batch) = db_write c d batch.
Proof.
  unfold db_write_r, db_write. rewrite write_buckets_r_static.
  destruct (write_buckets c 0 (d_vl d) batch) as [vl' pss]. now rewrite lsm_entries_r_static.
Qed.

Theorem rewrite_r_static c now d bk fid nseq : rewrite_r c now d bk fid nseq [] = rewrite c now d bk fid nseq.
Proof.
  unfold rewrite_r, rewrite. destruct (gc_decide now d bk fid nseq) as [wb|]; [|reflexivity].
  destruct (62 <? N.of_nat (length wb)); [reflexivity|]. unfold gc_finish_r, gc_finish.
  destruct wb as [|r wb']; [reflexivity|]. f_equal.
  change (map (fun r0 => (r0, route_of c [] r0)) (r :: wb')) with (static_route c (r :: wb')).
  apply db_write_r_static.
Qed.

Lemma routed_model_static c d batch now bk fid nseq :
  db_write_r c d (static_route c batch) = db_write c d batch /\
  rewrite_r c now d bk fid nseq [] = rewrite c now d bk fid nseq.
Proof. split; [apply db_write_r_static | apply rewrite_r_static]. Qed.

(** * The statements exported to Properties/C08.v *)
Theorem gc_preserves_reads_refuted :
  exists c ops now bk fid nseq k v,
    ops_okb c (init_db c 1) [] ops = true /\
    let d := vrun c (init_db c 1) ops in
    let d' := fst (rewrite c now d bk fid nseq) in
    gobs (db_get d' k v) <> gobs (db_get d k v) /\ gobs (db_get_live now d' k v) <> gobs (db_get_live now d k v).
Proof.
  exists w_cfg, w_old_ops, 5, 0, 0, 3, (w_key x61), max_ver.
  destruct gc_expired_witness as (H1 & H2 & H3 & H4 & H5). split; [exact H1|]. cbn zeta.
  fold w_old_db. rewrite H2, H3, H4, H5. split; discriminate.
Qed.

Theorem gc_sched_refuted :
  exists c ops batch now bk fid nseq sched k,
    ops_okb c (init_db c 1) [] ops = true /\
    let g0 := {| g_db := vrun c (init_db c 1) ops; g_pc := GcStart; g_todo := [batch]; g_acked := vwrites ops |} in
    let g := Sched.run (gtstep c now bk fid nseq) g0 sched in
    g_todo g = [] /\ g_pc g = GcDone /\
    gobs (db_get (g_db g) k max_ver) <> spec_getv (g_acked g) k max_ver.
Proof.
  exists w_cfg, [ VWrite [w_rec x61 max_ver (repeat x31 200) 0 1]; VWrite [w_rec x62 max_ver (repeat x32 200) 0 2] ],
         w_set, 0, 0, 0, 4, [TGc; TWr; TGc], (w_key x61).
  split; [vm_compute; reflexivity|]. vm_compute. repeat split. discriminate.
Qed.

Theorem gc_sched_del_refuted :
  exists c ops batch now bk fid nseq sched k,
    ops_okb c (init_db c 1) [] ops = true /\
    let g0 := {| g_db := vrun c (init_db c 1) ops; g_pc := GcStart; g_todo := [batch]; g_acked := vwrites ops |} in
    let g := Sched.run (gtstep c now bk fid nseq) g0 sched in
    spec_get now (g_acked g) k max_ver = ONone /\
    exists v, gobs (db_get_live now (g_db g) k max_ver) = OVal v 0.
Proof.
  exists w_cfg, [ VWrite [w_rec x61 max_ver (repeat x31 200) 0 1]; VWrite [w_rec x62 max_ver (repeat x32 200) 0 2] ],
         w_del, 0, 0, 0, 4, [TGc; TWr; TGc], (w_key x61).
  split; [vm_compute; reflexivity|]. vm_compute. split; [reflexivity|]. eexists. reflexivity.
Qed.

Lemma obs_eqb_spec a b : obs_eqb a b = true <-> a = b.
Proof.
  destruct a as [| |x m], b as [| |y n]; cbn; split; intro H; try reflexivity; try discriminate.
  - apply andb_true_iff in H as [H1 H2]. apply bytes_eqb_eq in H1. apply N.eqb_eq in H2. now subst.
  - inversion H; subst. now rewrite bytes_eqb_refl, N.eqb_refl.
Qed.
